import CyVerif.Lemmas.C14Rev
/-!
C14 — optimised loops iterate exactly like Python loops: the range part.

`rangeLoop m cfg a b s body fuel st` is the C loop the compiler emits for `for target in [reversed](range(a, b, s))`
(model of `_transform_range_iteration`, `_build_range_step_calculation`, `ForFromStatNode.generate_execution_code`);
`pyFor body (pySeq reversed a b s) st` is what Python does.  `m` ranges over BOTH readings of C arithmetic
(`strict`: signed overflow is undefined; `wrap`: it wraps around), so an equality proved for all `m` says in particular
that no undefined operation is executed.
-/
namespace CyVerif.C14

/-- C type of a bound expression: a literal's own type or the declared type of the run-time bounds -/
def RangeCfg.bty (cfg : RangeCfg) (v : Int) : CTy := if cfg.constBounds then litType v else cfg.C

/-- the C loop does what Python does (both results: final state and "else clause runs") -/
def Agrees {σ : Type} (m : Mode) (cfg : RangeCfg) (a b s : Int) (body : σ → Int → σ × Ctl) (fuel : Nat) (st : σ) : Prop :=
  rangeLoop m cfg a b s body fuel st =
    Out.done (pyFor body (pySeq cfg.reversed a b s) st).1 (pyFor body (pySeq cfg.reversed a b s) st).2

/-- FULL-STRENGTH statement (false on the pinned tree, see the counterexamples): for every loop type, all in-range bounds,
    every constant step, every body and state, the compiled loop does what Python does. -/
def FullRange (cfg : RangeCfg) : Prop :=
  ∀ (m : Mode) (a b s : Int), s ≠ 0 → cfg.T.inR a = true → cfg.T.inR b = true →
    ∀ (σ : Type) (body : σ → Int → σ × Ctl) (st : σ) (fuel : Nat), rangeLen a b s < fuel → Agrees m cfg a b s body fuel st

/-! ## forward loops -/

/-- side condition of forward loops.  Ordinary form: the value after the last element (`last + s`, the loop temp is
    stepped once more before the test fails) is representable.  Unsigned count-down form of the tree: `a + |s|` and
    `b + |s|` are representable (in the loop type and in the type of the bound expression).  Repaired form: nothing. -/
def SafeFwd (cfg : RangeCfg) (a b s : Int) : Prop :=
  if 0 < s ∨ cfg.T.signed = true then rangeLen a b s = 0 ∨ cfg.T.inR (rangeLast a b s + s) = true
  else cfg.fixedU = true ∨
    (cfg.T.inR (a + -s) = true ∧ (cfg.bty a).prom.inR (a + -s) = true ∧ (cfg.bty b).prom.inR (b + -s) = true)

instance (cfg : RangeCfg) (a b s : Int) : Decidable (SafeFwd cfg a b s) := by unfold SafeFwd; infer_instance

theorem range_forward_partial (m : Mode) (cfg : RangeCfg) (hrev : cfg.reversed = false) (a b s : Int) (hs : s ≠ 0)
    (ha : cfg.T.inR a = true) (hb : cfg.T.inR b = true) (hsafe : SafeFwd cfg a b s)
    {σ : Type} (body : σ → Int → σ × Ctl) (st : σ) (fuel : Nat) (hfuel : rangeLen a b s < fuel) :
    Agrees m cfg a b s body fuel st := by
  unfold Agrees rangeLoop rangeForFrom pySeq
  simp only [hrev, Bool.not_false, if_true, Bool.false_eq_true, if_false]
  have haR := CTy.inR_iff.mp ha
  have hbR := CTy.inR_iff.mp hb
  rw [← pyRange_length] at hfuel
  by_cases hpos : 0 < s
  · -- ascending: `for (lv = a; lv < b; lv += s)`
    have e : (s.natAbs : Int) = s := by omega
    have hneg : decide (s < 0) = false := by simp; omega
    simp only [hneg, Bool.false_eq_true, if_false, e]
    have hsf : rangeLen a b s = 0 ∨ cfg.T.inR (rangeLast a b s + s) = true := by
      unfold SafeFwd at hsafe; rwa [if_pos (Or.inl hpos)] at hsafe
    have := forFrom_normal m { T := cfg.T, rel1 := .le, rel2 := .lt, B1 := cfg.bty a, B2 := cfg.bty b, b1 := a, b2 := b, step := s, fixedU := cfg.fixedU }
      body st fuel (by simp [ForFrom.unsignedDown, Rel.isDown]) (by rfl) hpos (Or.inl rfl)
      (by simpa [Rel.offset] using ha)
      (by
        simp only [Rel.offset, Rel.excl, Rel.dir, Int.add_zero, Int.one_mul]
        intro x hx
        rcases hsf with h0 | hl
        · unfold pyRange at hx; rw [h0] at hx; simp [rangeFrom] at hx
        · have := mem_pyRange_pos hpos hx
          have hl := CTy.inR_iff.mp hl
          rw [CTy.inR_iff]; omega)
      (by simpa [Rel.offset, Rel.excl, Rel.dir] using hfuel)
    simpa [Rel.offset, Rel.excl, Rel.dir, RangeCfg.bty] using this
  · have hneg' : s < 0 := by omega
    have e : (s.natAbs : Int) = -s := by omega
    have hneg : decide (s < 0) = true := by simp; omega
    simp only [hneg, if_true, e]
    by_cases hsg : cfg.T.signed = true
    · -- descending, signed: `for (lv = a; lv > b; lv -= |s|)`
      have hsf : rangeLen a b s = 0 ∨ cfg.T.inR (rangeLast a b s + s) = true := by
        unfold SafeFwd at hsafe; rwa [if_pos (Or.inr hsg)] at hsafe
      have := forFrom_normal m { T := cfg.T, rel1 := .ge, rel2 := .gt, B1 := cfg.bty a, B2 := cfg.bty b, b1 := a, b2 := b, step := -s, fixedU := cfg.fixedU }
        body st fuel (by simp [ForFrom.unsignedDown, hsg]) (by rfl) (by show (0:Int) < -s; omega) (Or.inl rfl)
        (by simpa [Rel.offset] using ha)
        (by
          simp only [Rel.offset, Rel.excl, Rel.dir, Int.add_zero, Int.neg_mul, Int.one_mul, Int.neg_neg]
          intro x hx
          rcases hsf with h0 | hl
          · unfold pyRange at hx; rw [h0] at hx; simp [rangeFrom] at hx
          · have := mem_pyRange_neg hneg' hx
            have hl := CTy.inR_iff.mp hl
            rw [CTy.inR_iff]; omega)
        (by simpa [Rel.offset, Rel.excl, Rel.dir] using hfuel)
      simpa [Rel.offset, Rel.excl, Rel.dir, RangeCfg.bty] using this
    · have hsg' : cfg.T.signed = false := by simpa using hsg
      have hsf : cfg.fixedU = true ∨ (cfg.T.inR (a + -s) = true ∧ (cfg.bty a).prom.inR (a + -s) = true ∧ (cfg.bty b).prom.inR (b + -s) = true) := by
        unfold SafeFwd at hsafe; rwa [if_neg (by simp [hsg']; omega)] at hsafe
      by_cases hfx : cfg.fixedU = true
      · -- descending, unsigned, repaired form
        have := forFrom_unsignedDown_new m { T := cfg.T, rel1 := .ge, rel2 := .gt, B1 := cfg.bty a, B2 := cfg.bty b, b1 := a, b2 := b, step := -s, fixedU := cfg.fixedU }
          body st fuel (by simp [ForFrom.usesNewForm, hfx, hsg']) (by show (0:Int) < -s; omega) ha hb (by simpa using hfuel)
        simpa [RangeCfg.bty] using this
      · -- descending, unsigned, the form of the tree
        have hfx' : cfg.fixedU = false := by simpa using hfx
        rcases hsf with h | ⟨h1, h2, h3⟩
        · exact absurd h hfx
        · have hlo := CTy.lo_unsigned hsg'
          have := forFrom_unsignedDown_old m { T := cfg.T, rel1 := .ge, rel2 := .gt, B1 := cfg.bty a, B2 := cfg.bty b, b1 := a, b2 := b, step := -s, fixedU := cfg.fixedU }
            body st fuel (by simp [ForFrom.unsignedDown, hsg', Rel.isDown]) (by simp [ForFrom.usesNewForm, hfx']) (by rfl) (by show (0:Int) < -s; omega)
            (by simp; omega) (Or.inl rfl) (by simpa [Rel.offset] using h2) (by simpa [Rel.offset] using h1) (by simpa using h3)
            (by simpa [Rel.offset, Rel.excl] using hfuel)
          simpa [Rel.offset, Rel.excl, RangeCfg.bty] using this

/-! ## reversed loops (signed loop type) -/

theorem revExact_one (a b : Int) : revExact a b 1 = b := by
  unfold revExact; rw [if_neg (by omega), Int.ediv_one]; omega

theorem revExact_neg_one (a b : Int) : revExact a b (-1) = b := by
  unfold revExact; rw [if_pos (by omega)]; simp only [Int.neg_neg, Int.ediv_one]; omega

/-- the start value is computed without leaving the arithmetic type (`|s| = 1`: it is `b`; constant bounds: the compiler
    computes it; run-time bounds: the five C operations of `_build_range_step_calculation` stay in range and `//` floors) -/
def RevBoundOK (cfg : RangeCfg) (a b s : Int) : Prop :=
  s = 1 ∨ s = -1 ∨ cfg.constBounds = true ∨
  (cfg.constBounds = false ∧
   if 0 < s then
     ((cfg.cdiv = false ∧ cfg.C.prom.signed = true) ∨ 0 ≤ b - a - 1) ∧
     cfg.C.prom.inR (b - a) = true ∧ cfg.C.prom.inR (b - a - 1) = true ∧ cfg.C.prom.inR (s * ((b - a - 1) / s)) = true ∧
     cfg.C.prom.inR (a + s * ((b - a - 1) / s)) = true ∧ cfg.C.prom.inR (a + s * ((b - a - 1) / s) + 1) = true
   else
     ((cfg.cdiv = false ∧ cfg.C.prom.signed = true) ∨ 0 ≤ a - b - 1) ∧
     cfg.C.prom.inR (a - b) = true ∧ cfg.C.prom.inR (a - b - 1) = true ∧ cfg.C.prom.inR ((-s) * ((a - b - 1) / (-s))) = true ∧
     cfg.C.prom.inR (a - (-s) * ((a - b - 1) / (-s))) = true ∧ cfg.C.prom.inR (a - (-s) * ((a - b - 1) / (-s)) - 1) = true)

/-- side condition of reversed loops with a signed loop type: the start value is computed exactly, the first loop value
    (`start ∓ 1`) is representable in the type of the start expression and in the loop type, and the value after the last
    element (`a - s`) is representable. -/
def SafeRev (cfg : RangeCfg) (a b s : Int) : Prop :=
  cfg.T.signed = true ∧ RevBoundOK cfg a b s ∧
  ((cfg.bty (revExact a b s)).prom.inR (revExact a b s + (if 0 < s then -1 else 1)) = true ∧
   cfg.T.inR (revExact a b s + (if 0 < s then -1 else 1)) = true) ∧
  (rangeLen a b s = 0 ∨ cfg.T.inR (a - s) = true)

theorem revStart_eq (m : Mode) (cfg : RangeCfg) (a b s : Int) (hs : s ≠ 0) (h : RevBoundOK cfg a b s) :
    (if (s.natAbs : Int) = 1 then some b else revBound m cfg a b s) = some (revExact a b s) := by
  by_cases h1 : (s.natAbs : Int) = 1
  · rw [if_pos h1]
    have : s = 1 ∨ s = -1 := by omega
    rcases this with rfl | rfl
    · rw [revExact_one]
    · rw [revExact_neg_one]
  · rw [if_neg h1]
    rcases h with h | h | h | ⟨hc, h⟩
    · omega
    · omega
    · exact revBound_const m cfg a b s h hs
    · by_cases hp : 0 < s
      · rw [if_pos hp] at h
        obtain ⟨hd, h1, h2, h3, h4, h5⟩ := h
        exact revBound_runtime_pos m cfg a b s hc hp hd h1 h2 h3 h4 h5
      · rw [if_neg hp] at h
        obtain ⟨hd, h1, h2, h3, h4, h5⟩ := h
        exact revBound_runtime_neg m cfg a b s hc (by omega) hd h1 h2 h3 h4 h5

theorem range_reversed_partial (m : Mode) (cfg : RangeCfg) (hrev : cfg.reversed = true) (a b s : Int) (hs : s ≠ 0)
    (ha : cfg.T.inR a = true) (hb : cfg.T.inR b = true) (hsafe : SafeRev cfg a b s)
    {σ : Type} (body : σ → Int → σ × Ctl) (st : σ) (fuel : Nat) (hfuel : rangeLen a b s < fuel) :
    Agrees m cfg a b s body fuel st := by
  obtain ⟨hsg, hbd, ⟨hst1, hst2⟩, hstep⟩ := hsafe
  unfold Agrees rangeLoop rangeForFrom pySeq
  simp only [hrev, Bool.not_true, Bool.false_eq_true, if_false, if_true]
  rw [revStart_eq m cfg a b s hs hbd]
  simp only [Option.map_some]
  have haR := CTy.inR_iff.mp ha
  have hbR := CTy.inR_iff.mp hb
  rw [← pyRange_length, ← List.length_reverse] at hfuel
  by_cases hpos : 0 < s
  · -- `for (lv = start - 1; lv >= a; lv -= s)`
    have e : (s.natAbs : Int) = s := by omega
    have hneg : decide (s < 0) = false := by simp; omega
    simp only [hneg, Bool.false_eq_true, if_false, e]
    rw [if_pos hpos] at hst1 hst2
    rw [pyRange_reverse_pos hpos] at hfuel ⊢
    have hmem : ∀ x ∈ pyRange (revExact a b s - 1) (a - 1) (-s), cfg.T.inR (x + -s) = true := by
      intro x hx
      rw [← pyRange_reverse_pos hpos, List.mem_reverse] at hx
      have hab : a < b := by
        by_cases hab : a < b
        · exact hab
        · rw [pyRange_nil (by unfold before; omega)] at hx; cases hx
      have hx2 := mem_pyRange_pos hpos hx
      obtain ⟨_, _, hlt, _⟩ := rangeLast_pos hpos hab
      rcases hstep with h0 | hl
      · unfold pyRange at hx; rw [h0] at hx; simp [rangeFrom] at hx
      · have hl := CTy.inR_iff.mp hl
        rw [CTy.inR_iff]; omega
    have := forFrom_normal m { T := cfg.T, rel1 := .gt, rel2 := .ge, B1 := cfg.bty (revExact a b s), B2 := cfg.bty a, b1 := revExact a b s, b2 := a, step := s, fixedU := cfg.fixedU }
      body st fuel (by simp [ForFrom.unsignedDown, hsg]) (by rfl) hpos (Or.inr (by simpa [Rel.offset] using hst1))
      (by simpa [Rel.offset] using hst2)
      (by simpa [Rel.offset, Rel.excl, Rel.dir, Int.sub_eq_add_neg] using hmem)
      (by simpa [Rel.offset, Rel.excl, Rel.dir, Int.sub_eq_add_neg] using hfuel)
    simpa [Rel.offset, Rel.excl, Rel.dir, RangeCfg.bty, Int.sub_eq_add_neg] using this
  · -- `for (lv = start + 1; lv <= a; lv += |s|)`
    have hneg' : s < 0 := by omega
    have e : (s.natAbs : Int) = -s := by omega
    have hneg : decide (s < 0) = true := by simp; omega
    simp only [hneg, if_true, e]
    rw [if_neg hpos] at hst1 hst2
    rw [pyRange_reverse_neg hneg'] at hfuel ⊢
    have hmem : ∀ x ∈ pyRange (revExact a b s + 1) (a + 1) (-s), cfg.T.inR (x + -s) = true := by
      intro x hx
      rw [← pyRange_reverse_neg hneg', List.mem_reverse] at hx
      have hab : b < a := by
        by_cases hab : b < a
        · exact hab
        · rw [pyRange_nil (by unfold before; omega)] at hx; cases hx
      have hx2 := mem_pyRange_neg hneg' hx
      obtain ⟨_, _, hlt, _⟩ := rangeLast_neg hneg' hab
      rcases hstep with h0 | hl
      · unfold pyRange at hx; rw [h0] at hx; simp [rangeFrom] at hx
      · have hl := CTy.inR_iff.mp hl
        rw [CTy.inR_iff]; omega
    have := forFrom_normal m { T := cfg.T, rel1 := .lt, rel2 := .le, B1 := cfg.bty (revExact a b s), B2 := cfg.bty a, b1 := revExact a b s, b2 := a, step := -s, fixedU := cfg.fixedU }
      body st fuel (by simp [ForFrom.unsignedDown, hsg]) (by rfl) (by show (0:Int) < -s; omega) (Or.inr (by simpa [Rel.offset] using hst1))
      (by simpa [Rel.offset] using hst2)
      (by simpa [Rel.offset, Rel.excl, Rel.dir] using hmem)
      (by simpa [Rel.offset, Rel.excl, Rel.dir] using hfuel)
    simpa [Rel.offset, Rel.excl, Rel.dir, RangeCfg.bty] using this

/-! ## reversed unit-step loops with an unsigned loop type -/

/-- `for i in reversed(range(a, b))` with an UNSIGNED loop type (the case the shifted count-down form was written for):
    agrees with Python whenever `a + 1` is representable — including `b = 0`, where `0 - 1 + 1` wraps around twice. -/
theorem range_reversed_unsigned_unit_partial (m : Mode) (cfg : RangeCfg) (hrev : cfg.reversed = true) (hu : cfg.T.signed = false)
    (a b : Int) (ha : cfg.T.inR a = true) (hb : cfg.T.inR b = true)
    (hB2 : (cfg.bty a).prom.inR (a + 1) = true) (hB1 : (cfg.bty b).prom.inR b = true)
    {σ : Type} (body : σ → Int → σ × Ctl) (st : σ) (fuel : Nat) (hfuel : rangeLen a b 1 < fuel) :
    Agrees m cfg a b 1 body fuel st := by
  unfold Agrees rangeLoop rangeForFrom pySeq
  simp only [hrev, Bool.not_true, Bool.false_eq_true, if_false, if_true]
  have e1 : (((1 : Int).natAbs : Nat) : Int) = 1 := by decide
  have hneg : decide ((1 : Int) < 0) = false := by decide
  simp only [e1, if_true, Option.map_some, hneg, Bool.false_eq_true, if_false]
  have hlo := CTy.lo_unsigned hu
  have haR := CTy.inR_iff.mp ha
  have hbR := CTy.inR_iff.mp hb
  have hB1R := CTy.inR_iff.mp hB1
  rw [← pyRange_length, ← List.length_reverse, pyRange_reverse_pos (by omega : (0:Int) < 1), revExact_one] at hfuel
  rw [pyRange_reverse_pos (by omega : (0:Int) < 1), revExact_one]
  let f : ForFrom := { T := cfg.T, rel1 := .gt, rel2 := .ge, B1 := cfg.bty b, B2 := cfg.bty a, b1 := b, b2 := a, step := 1, fixedU := cfg.fixedU }
  have hud : f.unsignedDown = true := by simp [f, ForFrom.unsignedDown, hu, Rel.isDown]
  have hold : f.usesNewForm = false := by simp [f, ForFrom.usesNewForm]
  have hi : forFromInit m f = some (f.b1 + f.rel1.offset + f.step) := by
    unfold forFromInit
    simp only [hud, hold, if_true, Bool.false_eq_true, if_false]
    show ((addOffset m (cfg.bty b).prom b (-1)).bind fun x => (arith m (cfg.bty b).prom (x + 1)).map (store cfg.T)) = some (b + -1 + 1)
    have hbb : b + -1 + 1 = b := by omega
    rw [hbb]
    unfold addOffset
    rw [if_neg (by decide)]
    by_cases hex : (cfg.bty b).prom.signed = true ∨ 1 ≤ b
    · have hin : (cfg.bty b).prom.inR (b + -1) = true := by
        rw [CTy.inR_iff]
        rcases hex with hs | h1
        · have : (cfg.bty b).prom.lo ≤ -1 := by
            unfold CTy.lo; rw [if_pos hs]
            have := Nat.two_pow_pos ((cfg.bty b).prom.w - 1)
            have : (0 : Int) < (2 : Int) ^ ((cfg.bty b).prom.w - 1) := by exact_mod_cast this
            omega
          omega
        · have := CTy.lo_nonpos (cfg.bty b).prom
          omega
      rw [arith_of_inR hin]
      simp only [Option.bind_some, hbb, arith_of_inR hB1, Option.map_some, store_of_inR hb]
    · have hs : (cfg.bty b).prom.signed = false := by
        cases h : (cfg.bty b).prom.signed <;> simp_all
      have hb0 : b = 0 := by omega
      subst hb0
      have := arith_unsigned_zero_minus_one_plus_one m (cfg.bty 0).prom hs
      cases h1 : arith m (cfg.bty 0).prom (0 + -1) with
      | none => rw [h1] at this; simp at this
      | some x =>
        rw [h1] at this
        simp only [Option.bind_some] at this ⊢
        rw [this]
        simp [store_of_inR hb]
  have := forFrom_unsignedDown_old_core m f body st fuel hud hold (by rfl) (by show (0:Int) < 1; omega) (by show (0:Int) ≤ a; omega) hi
    (by show cfg.T.inR (b + -1 + 1) = true; rw [show b + -1 + 1 = b by omega]; exact hb)
    (by show (cfg.bty a).prom.inR (a + 1) = true; exact hB2)
    (by simpa [f, Rel.offset, Rel.excl, Int.sub_eq_add_neg] using hfuel)
  simpa [f, Rel.offset, Rel.excl, RangeCfg.bty, Int.sub_eq_add_neg] using this

/-! ## consequences: where the full-strength statement does hold -/

/-- `for i in range(a, b)` / `range(a, b, 1)` (any loop type) and `range(a, b, -1)` (signed loop type): no side condition.
    (The value after the last element is at most `b`, resp. at least `b`.) -/
theorem range_unit_step_full (m : Mode) (cfg : RangeCfg) (hrev : cfg.reversed = false) (a b s : Int)
    (hs : s = 1 ∨ (s = -1 ∧ cfg.T.signed = true))
    (ha : cfg.T.inR a = true) (hb : cfg.T.inR b = true)
    {σ : Type} (body : σ → Int → σ × Ctl) (st : σ) (fuel : Nat) (hfuel : rangeLen a b s < fuel) :
    Agrees m cfg a b s body fuel st := by
  apply range_forward_partial m cfg hrev a b s (by omega) ha hb _ body st fuel hfuel
  have haR := CTy.inR_iff.mp ha
  have hbR := CTy.inR_iff.mp hb
  unfold SafeFwd
  rw [if_pos (by rcases hs with h | ⟨_, h⟩; exact Or.inl (by omega); exact Or.inr h)]
  rcases hs with rfl | ⟨rfl, _⟩
  · by_cases hab : a < b
    · obtain ⟨_, h1, h2, _⟩ := rangeLast_pos (s := 1) (by omega) hab
      exact Or.inr (by rw [CTy.inR_iff]; omega)
    · exact Or.inl (rangeLen_of_not_before (by unfold before; omega))
  · by_cases hab : b < a
    · obtain ⟨_, h1, h2, _⟩ := rangeLast_neg (s := -1) (by omega) hab
      exact Or.inr (by rw [CTy.inR_iff]; omega)
    · exact Or.inl (rangeLen_of_not_before (by unfold before; omega))

/-- with the repaired unsigned count-down form, `range(a, b, -s)` over an unsigned loop type needs no side condition -/
theorem range_unsigned_countdown_repaired_full (m : Mode) (cfg : RangeCfg) (hrev : cfg.reversed = false)
    (hfix : cfg.fixedU = true) (hu : cfg.T.signed = false) (a b s : Int) (hs : s < 0)
    (ha : cfg.T.inR a = true) (hb : cfg.T.inR b = true)
    {σ : Type} (body : σ → Int → σ × Ctl) (st : σ) (fuel : Nat) (hfuel : rangeLen a b s < fuel) :
    Agrees m cfg a b s body fuel st := by
  apply range_forward_partial m cfg hrev a b s (by omega) ha hb _ body st fuel hfuel
  unfold SafeFwd
  rw [if_neg (by simp [hu]; omega)]
  exact Or.inl hfix

/-- str / bytes / C-array loops are index (pointer) loops `for (k = 0; k < n; k++)` resp. `for (k = n-1; k >= 0; k--)`
    over `Py_ssize_t`: every index of the sequence exactly once, in order, for every length -/
theorem index_loop_full (m : Mode) (rev : Bool) (fx cdv cst : Bool) (n : Int) (hn0 : 0 ≤ n) (hn : n ≤ 9223372036854775807)
    {σ : Type} (body : σ → Int → σ × Ctl) (st : σ) (fuel : Nat) (hfuel : rangeLen 0 n 1 < fuel) :
    Agrees m { T := ⟨64, true⟩, C := ⟨64, true⟩, constBounds := cst, cdiv := cdv, reversed := rev, fixedU := fx } 0 n 1 body fuel st := by
  have hlo : (⟨64, true⟩ : CTy).lo = -9223372036854775808 := by decide
  have hhi : (⟨64, true⟩ : CTy).hi = 9223372036854775807 := by decide
  have ha : (⟨64, true⟩ : CTy).inR 0 = true := by decide
  have hb : (⟨64, true⟩ : CTy).inR n = true := by rw [CTy.inR_iff, hlo, hhi]; omega
  cases rev with
  | false => exact range_unit_step_full m _ rfl 0 n 1 (Or.inl rfl) ha hb body st fuel hfuel
  | true =>
    apply range_reversed_partial m _ rfl 0 n 1 (by omega) ha hb _ body st fuel hfuel
    refine ⟨rfl, Or.inl rfl, ?_, ?_⟩
    · rw [revExact_one, if_pos (by omega)]
      have l1 : (⟨32, true⟩ : CTy).prom.lo = -2147483648 := by decide
      have u1 : (⟨32, true⟩ : CTy).prom.hi = 2147483647 := by decide
      have l2 : (⟨32, false⟩ : CTy).prom.lo = 0 := by decide
      have u2 : (⟨32, false⟩ : CTy).prom.hi = 4294967295 := by decide
      have l3 : (⟨64, true⟩ : CTy).prom.lo = -9223372036854775808 := by decide
      have u3 : (⟨64, true⟩ : CTy).prom.hi = 9223372036854775807 := by decide
      constructor
      · unfold RangeCfg.bty
        cases cst with
        | false => simp only [Bool.false_eq_true, if_false]; rw [CTy.inR_iff, l3, u3]; omega
        | true =>
          simp only [if_true]
          unfold litType
          rw [if_neg (by omega)]
          split
          · rw [CTy.inR_iff, l1, u1]; omega
          · split
            · rw [CTy.inR_iff, l2, u2]; omega
            · rw [CTy.inR_iff, l3, u3]; omega
      · rw [CTy.inR_iff, hlo, hhi]; omega
    · exact Or.inr (by show (⟨64, true⟩ : CTy).inR (0 - 1) = true; decide)

theorem revExact_bounds_pos {a b s : Int} (hs : 0 < s) : b - s < revExact a b s ∧ revExact a b s ≤ b := by
  unfold revExact; rw [if_neg (by omega)]
  have hdm := Int.mul_ediv_add_emod (b - a - 1) s
  have hr0 := Int.emod_nonneg (b - a - 1) (by omega : s ≠ 0)
  have hr1 := Int.emod_lt_of_pos (b - a - 1) hs
  omega

theorem revExact_bounds_neg {a b s : Int} (hs : s < 0) : b ≤ revExact a b s ∧ revExact a b s < b - s := by
  unfold revExact; rw [if_pos hs]
  have hdm := Int.mul_ediv_add_emod (a - b - 1) (-s)
  have hr0 := Int.emod_nonneg (a - b - 1) (by omega : -s ≠ 0)
  have hr1 := Int.emod_lt_of_pos (a - b - 1) (by omega : 0 < -s)
  omega

/-- OBJECT TARGETS: `for x in [reversed](range(A, B, S))` is only turned into a C loop when every argument is a literal
    with `-2**30 <= v < 2**30`; the loop type is then `long` (64 bit) and nothing can overflow: full equality. -/
theorem range_object_target_full (m : Mode) (cfg : RangeCfg) (hT : cfg.T = ⟨64, true⟩) (hc : cfg.constBounds = true)
    (a b s : Int) (hs : s ≠ 0)
    (ha : -1073741824 ≤ a ∧ a < 1073741824) (hb : -1073741824 ≤ b ∧ b < 1073741824) (hsr : -1073741824 ≤ s ∧ s < 1073741824)
    {σ : Type} (body : σ → Int → σ × Ctl) (st : σ) (fuel : Nat) (hfuel : rangeLen a b s < fuel) :
    Agrees m cfg a b s body fuel st := by
  have hlo : cfg.T.lo = -9223372036854775808 := by rw [hT]; decide
  have hhi : cfg.T.hi = 9223372036854775807 := by rw [hT]; decide
  have hsg : cfg.T.signed = true := by rw [hT]
  have haT : cfg.T.inR a = true := by rw [CTy.inR_iff, hlo, hhi]; omega
  have hbT : cfg.T.inR b = true := by rw [CTy.inR_iff, hlo, hhi]; omega
  cases hrev : cfg.reversed with
  | false =>
    apply range_forward_partial m cfg hrev a b s hs haT hbT _ body st fuel hfuel
    unfold SafeFwd
    rw [if_pos (Or.inr hsg)]
    by_cases hpos : 0 < s
    · by_cases hab : a < b
      · obtain ⟨_, h1, h2, _⟩ := rangeLast_pos hpos hab
        exact Or.inr (by rw [CTy.inR_iff, hlo, hhi]; omega)
      · exact Or.inl (rangeLen_of_not_before (by unfold before; omega))
    · by_cases hab : b < a
      · obtain ⟨_, h1, h2, _⟩ := rangeLast_neg (by omega : s < 0) hab
        exact Or.inr (by rw [CTy.inR_iff, hlo, hhi]; omega)
      · exact Or.inl (rangeLen_of_not_before (by unfold before; omega))
  | true =>
    apply range_reversed_partial m cfg hrev a b s hs haT hbT _ body st fuel hfuel
    have l1 : (⟨32, true⟩ : CTy).prom.lo = -2147483648 := by decide
    have u1 : (⟨32, true⟩ : CTy).prom.hi = 2147483647 := by decide
    have hlit : ∀ v : Int, -2147483647 ≤ v → v ≤ 2147483647 → litType v = ⟨32, true⟩ := by
      intro v h1 h2
      unfold litType
      split
      · rw [if_pos (by omega)]
      · first | rfl | rw [if_pos (by omega)]
    refine ⟨hsg, Or.inr (Or.inr (Or.inl hc)), ?_, Or.inr (by rw [CTy.inR_iff, hlo, hhi]; omega)⟩
    unfold RangeCfg.bty
    simp only [hc, if_true]
    by_cases hpos : 0 < s
    · obtain ⟨h1, h2⟩ := revExact_bounds_pos (a := a) (b := b) hpos
      rw [if_pos hpos, hlit _ (by omega) (by omega)]
      exact ⟨by rw [CTy.inR_iff, l1, u1]; omega, by rw [CTy.inR_iff, hlo, hhi]; omega⟩
    · obtain ⟨h1, h2⟩ := revExact_bounds_neg (a := a) (b := b) (by omega : s < 0)
      rw [if_neg hpos, hlit _ (by omega) (by omega)]
      exact ⟨by rw [CTy.inR_iff, l1, u1]; omega, by rw [CTy.inR_iff, hlo, hhi]; omega⟩

/-! ## the final value of the target -/

/-- what the Python loop leaves behind for the plain tracing body (no break, no overwrite): all values visited in order,
    the target holds the LAST value — or is unchanged if the range is empty —, the else clause runs -/
theorem pyFor_trace (cap : Nat) (xs : List Int) (st : Rec) (hr : st.runaway = false) (hc : st.cnt + xs.length ≤ cap) :
    pyFor (recBody (-1) (-1) false cap) xs st =
      ({ vis := xs.reverse ++ st.vis, target := xs.getLast?.getD st.target, cnt := st.cnt + xs.length, runaway := false }, true) := by
  induction xs generalizing st with
  | nil => cases st; simp_all [pyFor]
  | cons x xs ih =>
    have h1 : ¬ (st.cnt + 1 > cap) := by simp at hc; omega
    have h2 : ¬ ((st.cnt : Int) = -1) := by omega
    have hb : recBody (-1) (-1) false cap st x = ({ st with vis := x :: st.vis, target := x, cnt := st.cnt + 1 }, .next) := by
      simp [recBody, h1, h2]
    rw [pyFor_cons_next _ _ _ _ _ hb]
    rw [ih { vis := x :: st.vis, target := x, cnt := st.cnt + 1, runaway := st.runaway } hr (by simp at hc ⊢; omega)]
    simp only [List.reverse_cons, List.append_assoc, List.singleton_append, List.length_cons, Prod.mk.injEq, and_true]
    congr 1
    · cases xs with
      | nil => rfl
      | cons y ys =>
        have : ∃ z, (y :: ys).getLast? = some z := ⟨_, List.getLast?_eq_some_getLast (by simp)⟩
        obtain ⟨z, hz⟩ := this
        simp [List.getLast?_cons_cons, hz]
    · omega

/-! ## enumerate: the counter temp -/

/-- FULL-STRENGTH statement for `for c, x in enumerate(seq, start)` with a C integer `c`: the counter values are
    `start, start+1, …` (false: see `fullEnumerate_false`) -/
def FullEnumerate (T : CTy) : Prop :=
  ∀ (m : Mode) (start : Int) (n : Nat), T.inR start = true → enumCounters m T start n = some (rangeFrom start 1 n)

/-- the counter is incremented BEFORE the body, also for the last item: `start + n` must be representable -/
theorem enumerate_counter_partial (m : Mode) (T : CTy) (start : Int) (n : Nat) (h0 : T.inR start = true)
    (h : n = 0 ∨ T.inR (start + n) = true) : enumCounters m T start n = some (rangeFrom start 1 n) := by
  induction n generalizing start with
  | zero => rfl
  | succ n ih =>
    have h0' := CTy.inR_iff.mp h0
    have hn : T.inR (start + ((n + 1 : Nat) : Int)) = true := by rcases h with h | h; omega; exact h
    have hn' := CTy.inR_iff.mp hn
    have h1 : T.inR (start + 1) = true := by rw [CTy.inR_iff]; omega
    have := ih (start + 1) h1 (Or.inr (by rw [CTy.inR_iff]; omega))
    simp [enumCounters, arith_of_inR (CTy.prom_inR h1), store_of_inR h1, this, rangeFrom]

theorem fullEnumerate_false : ¬ FullEnumerate ⟨8, true⟩ := by
  intro h
  have := h .strict 126 3 (by decide)
  exact absurd this (by decide)

example : (⟨8, true⟩ : CTy).inR (100 + (27 : Nat)) = true := by decide

/-! ## counterexamples: the full-strength statement is false on the pinned tree -/

/-- run-time bounds of the loop type, plain configuration of the pinned tree -/
def cfgOf (w : Nat) (sg : Bool) (rev cdiv fixedU : Bool) : RangeCfg :=
  { T := ⟨w, sg⟩, C := ⟨w, sg⟩, constBounds := false, cdiv := cdiv, reversed := rev, fixedU := fixedU }

def st0 : Rec := ⟨[], 77, 0, false⟩

/-- DESIGN F8: `cdef int i; for i in range(2147483640, 2147483647, 5)` — after the second iteration `i += 5` overflows:
    undefined behaviour under the C standard … -/
theorem fullRange_false_int_overflow : ¬ FullRange (cfgOf 32 true false false false) := by
  intro h
  have := h .strict 2147483640 2147483647 5 (by decide) (by decide) (by decide) Rec (recBody (-1) (-1) false 24) st0 30 (by decide)
  have e : (rangeLoop .strict (cfgOf 32 true false false false) 2147483640 2147483647 5 (recBody (-1) (-1) false 24) 30 st0).isUb = true := by decide
  rw [this] at e
  exact absurd e (by decide)

/-- … and with wrap-around arithmetic the loop goes on with garbage values (Python: two iterations). -/
theorem fullRange_false_int_wraps : ¬ FullRange (cfgOf 32 true false false false) := by
  intro h
  have := h .wrap 2147483640 2147483647 5 (by decide) (by decide) (by decide) Rec (recBody (-1) (-1) false 3) st0 30 (by decide)
  have e : (rangeLoop .wrap (cfgOf 32 true false false false) 2147483640 2147483647 5 (recBody (-1) (-1) false 3) 30 st0).visited
      = some [2147483640, 2147483645, -2147483646, -2147483641] := by decide
  rw [this] at e
  exact absurd e (by decide)

/-- `cdef signed char i; for i in range(100, 127, 100)`: no undefined behaviour at all (the addition is done in `int`,
    the store back narrows), and still not Python's single iteration -/
theorem fullRange_false_schar : ¬ FullRange (cfgOf 8 true false false false) := by
  intro h
  have := h .strict 100 127 100 (by decide) (by decide) (by decide) Rec (recBody (-1) (-1) false 3) st0 30 (by decide)
  have e : (rangeLoop .strict (cfgOf 8 true false false false) 100 127 100 (recBody (-1) (-1) false 3) 30 st0).visited
      = some [100, -56, 44, -112] := by decide
  rw [this] at e
  exact absurd e (by decide)

/-- `cdef unsigned char i; for i in range(250, 0, -10)`: `250 + 10` does not fit, the loop body never runs -/
theorem fullRange_false_unsigned_countdown_start : ¬ FullRange (cfgOf 8 false false false false) := by
  intro h
  have := h .strict 250 0 (-10) (by decide) (by decide) (by decide) Rec (recBody (-1) (-1) false 40) st0 60 (by decide)
  have e : (rangeLoop .strict (cfgOf 8 false false false false) 250 0 (-10) (recBody (-1) (-1) false 40) 60 st0).visited = some [] := by decide
  rw [this] at e
  exact absurd e (by decide)

/-- `cdef unsigned int i; for i in range(0, 4294967295, -1)`: the range is empty, `4294967295 + 1` wraps to 0, one iteration -/
theorem fullRange_false_unsigned_countdown_stop : ¬ FullRange (cfgOf 32 false false false false) := by
  intro h
  have := h .strict 0 4294967295 (-1) (by decide) (by decide) (by decide) Rec (recBody (-1) (-1) false 40) st0 60 (by decide)
  have e : (rangeLoop .strict (cfgOf 32 false false false false) 0 4294967295 (-1) (recBody (-1) (-1) false 40) 60 st0).visited = some [0] := by decide
  rw [this] at e
  exact absurd e (by decide)

/-- `cdef int i; for i in reversed(range(2147483647, -2147483648, 3))` (empty): `b - a - 1` overflows -/
theorem fullRange_false_reversed_bound : ¬ FullRange (cfgOf 32 true true false false) := by
  intro h
  have := h .wrap 2147483647 (-2147483648) 3 (by decide) (by decide) (by decide) Rec (recBody (-1) (-1) false 40) st0 60 (by decide)
  have e : (rangeLoop .wrap (cfgOf 32 true true false false) 2147483647 (-2147483648) 3 (recBody (-1) (-1) false 40) 60 st0).visited
      = some [2147483647] := by decide
  rw [this] at e
  exact absurd e (by decide)

/-- `# cython: cdivision=True` … `for i in reversed(range(5, 5, 3))`: C division rounds `-1 / 3` to 0, one iteration -/
theorem fullRange_false_reversed_cdivision : ¬ FullRange (cfgOf 32 true true true false) := by
  intro h
  have := h .strict 5 5 3 (by decide) (by decide) (by decide) Rec (recBody (-1) (-1) false 40) st0 60 (by decide)
  have e : (rangeLoop .strict (cfgOf 32 true true true false) 5 5 3 (recBody (-1) (-1) false 40) 60 st0).visited = some [5] := by decide
  rw [this] at e
  exact absurd e (by decide)

/-- `cdef int i; for i in reversed(range(0, -2147483648))` (empty): the first loop value `b - 1` overflows -/
theorem fullRange_false_reversed_start : ¬ FullRange (cfgOf 32 true true false false) := by
  intro h
  have := h .strict 0 (-2147483648) 1 (by decide) (by decide) (by decide) Rec (recBody (-1) (-1) false 40) st0 60 (by decide)
  have e : (rangeLoop .strict (cfgOf 32 true true false false) 0 (-2147483648) 1 (recBody (-1) (-1) false 40) 60 st0).isUb = true := by decide
  rw [this] at e
  exact absurd e (by decide)

/-! ## non-vacuity of the side conditions -/

example : SafeFwd (cfgOf 32 true false false false) (-7) 2147483000 5 := by decide
example : SafeFwd (cfgOf 8 false false false false) 200 3 (-7) := by decide
example : SafeFwd (cfgOf 8 false false false true) 255 0 (-100) := by decide
example : ¬ SafeFwd (cfgOf 32 true false false false) 2147483640 2147483647 5 := by decide
example : SafeRev (cfgOf 32 true true false false) (-10) 1000 7 :=
  ⟨rfl, Or.inr (Or.inr (Or.inr ⟨rfl, by decide⟩)), by decide, by decide⟩
example : SafeRev (cfgOf 16 true true false false) 300 (-5) (-3) :=
  ⟨rfl, Or.inr (Or.inr (Or.inr ⟨rfl, by decide⟩)), by decide, by decide⟩
example : (rangeLoop .wrap (cfgOf 64 false true false false) 0 0 1 (recBody (-1) (-1) false 40) 60 st0).visited = some [] := by decide
example : (rangeLoop .strict (cfgOf 32 false true false false) 3 8 1 (recBody (-1) (-1) false 40) 60 st0).visited = some [7, 6, 5, 4, 3] := by decide
example : (cfgOf 32 false true false false).bty 3 = ⟨32, false⟩ ∧ (⟨32, false⟩ : CTy).prom.inR (3 + 1) = true := by decide
example : (rangeLoop .strict (cfgOf 32 true true false false) (-10) 1000 7 (recBody 2 (-1) false 40) 200 st0).visited = some [998, 991, 984] := by decide

end CyVerif.C14

import CyVerif.Props.C04
import CyVerif.Props.C05
import CyVerif.Props.C26
import CyVerif.Props.C27
/-!
# C39 — behaviour is identical across build configurations (modelled switches)

For the helpers whose `#if` variants are modelled, the variants compute the same function.
Each statement is a corollary of "variant = specification" theorems of the owning property;
they are collected here so that this property's audit names them.

* C04: `__builtin_*_overflow` branch = portable branch of every checked helper (`C04.variants_agree`).
* C05: `CYTHON_USE_PYLONG_INTERNALS` off = on (`C05.internals_off_eq`); the `_PyLong_AsByteArray`
  and the chunk-loop (Limited API) large-integer paths agree (`c05_large_paths_agree`).
* C26: with and without `CYTHON_USE_DICT_VERSIONS` every global read is the same (`c26_dict_versions_indep`).
* C27: with and without the dict-version cache the cpdef dispatch is the same on histories that
  only mutate classes without subclasses (`c27_dict_versions_indep`); the unrestricted statement is
  false (`C27.full_false` vs `C27.full_nocache`).
-/
namespace CyVerif.C39

theorem c26_dict_versions_indep (desc : Nat → C26.SiteDesc) (ops : List C26.Op) (s : C26.State)
    (hinv : C26.Inv desc s) (hok : C26.ReadsOK desc (C26.abs s) ops) :
    C26.run true desc s ops = C26.run false desc s ops := by
  rw [C26.read_current_ok true desc ops s hinv hok, C26.read_current_ok false desc ops s hinv hok]

theorem c27_dict_versions_indep (mro : Nat → List Nat) (icls : Nat → Nat) (ops : List C27.Op) (s : C27.State)
    (hinv : C27.Inv mro icls s) (hsafe : ∀ op ∈ ops, C27.OpSafe mro op) :
    C27.run true mro icls s ops = C27.run false mro icls s ops := by
  rw [C27.dispatch_eq_lookup_partial true mro icls ops s hinv hsafe,
      C27.dispatch_eq_lookup_nocache mro icls ops s]

open C05 in
theorem c05_large_paths_agree (P : Plat) (hP : P.WF) (h4 : 4 ≤ P.longBytes) (cfgA cfgB : Cfg)
    (hA : cfgA.large = .byteArray) (hB : cfgB.large = .chunks) (hg : cfgB.gccShift = true)
    (tm : Tmpl) (t : CTy) (ht : 0 < t.bytes) (p : PyLong) (hp : p.WF P.shift) :
    (fromPyLong P cfgA tm t false p).out t = (fromPyLong P cfgB tm t false p).out t := by
  rw [fromPyLong_exact_chunks P hP h4 cfgB hB hg tm t ht p hp,
      fromPyLong_exact P hP cfgA hA tm t ht false p hp]

end CyVerif.C39

import CyVerif.Model.C01Drv
import CyVerif.Lemmas.C01
/-!
C01 (PARTIAL): name resolution and scoping of compiled pure-Python code = CPython's.
Proved: the classification of every name occurrence (owner scope + kind) by the Cython symbol-table
model equals CPython's symtable model, for every scope tree (any depth, any declarations), and hence
the table-driven store semantics produce the same observable trace.  NOT proved here: everything else
in C01's statement (the harness searches it differentially).
-/
namespace CyVerif.C01

/-- the full-strength static statement for a variant: identical tables -/
def FullResolution (v : Variant) : Prop := ∀ s : Scope, cyAll v s = refAll s
/-- the same up to "compile-time builtin = run-time global lookup that ends in builtins" -/
def FullResolutionMod (v : Variant) : Prop := ∀ s : Scope, (cyAll v s).map normE = refAll s

/-- (a) repaired variant (`ComprehensionScope.lookup` skips class bodies): every name occurrence of every
    scope tree gets the same binding (same owner scope, same kind), builtins identified with globals. -/
theorem resolution_agrees : FullResolutionMod repaired := by
  intro s
  exact scope_agree repaired (declOf s) s [] [] [] (rel_nil _) (Or.inl rfl)

/-- (a) current code: the same for every tree without an inlined comprehension directly in a class body,
    for either variant. -/
theorem resolution_agrees_partial (v : Variant) (s : Scope) (h : v.compSkipsClass = true ∨ noCompInCls s = true) :
    (cyAll v s).map normE = refAll s :=
  scope_agree v (declOf s) s [] [] [] (rel_nil _) h

/-- exact equality once no occurrence is resolved to a compile-time builtin by Cython -/
theorem resolution_exact_partial (v : Variant) (s : Scope) (h : v.compSkipsClass = true ∨ noCompInCls s = true)
    (hb : ∀ e ∈ cyAll v s, e.bind ≠ .builtin) : cyAll v s = refAll s := by
  rw [← resolution_agrees_partial v s h]
  have : ∀ e ∈ cyAll v s, normE e = e := by
    intro e he
    have := hb e he
    cases e with | mk p x b => cases b <;> simp_all [normE, norm]
  rw [List.map_congr_left this, List.map_id']

/-- (b) raw traces (values read, UnboundLocalError / NameError / TypeError, results; the exception of
    `del <unbound global>` kept abstract) of the store semantics agree for every program of the fragment
    and every call schedule — for the current code too, outside the three named deviations. -/
theorem run_agrees_partial (v : Variant) (prog : Stmts) (sched : List Step)
    (hdead : v.keepsDeadDecls = true ∨ pruneSs prog = prog)
    (h : v.compSkipsClass = true ∨ noCompInCls (scopeOf prog) = true)
    (hb : ∀ e ∈ cyTable v prog, e.bind ≠ .builtin) :
    runRaw (cyTable v prog) prog sched = runRaw (refTable prog) prog sched := by
  have hs : cySees v prog = prog := by
    unfold cySees; rcases hdead with hd | hd
    · simp [hd]
    · split <;> simp [hd]
  unfold cyTable refTable at *
  rw [hs] at hb ⊢
  rw [resolution_exact_partial v (scopeOf prog) h hb]

/-- (b) rendered traces are equal once `del` of an unbound global raises NameError -/
theorem run_agrees (v : Variant) (prog : Stmts) (sched : List Step)
    (hdel : v.delGlobalNameError = true)
    (hdead : v.keepsDeadDecls = true ∨ pruneSs prog = prog)
    (h : v.compSkipsClass = true ∨ noCompInCls (scopeOf prog) = true)
    (hb : ∀ e ∈ cyTable v prog, e.bind ≠ .builtin) :
    runCy v prog sched = runRef prog sched := by
  unfold runCy runRef run
  rw [run_agrees_partial v prog sched hdead h hb, hdel]; rfl

/-- the full-strength run statement for a variant (false for `current`, see the counterexamples) -/
def FullRun (v : Variant) : Prop := ∀ prog sched, runCy v prog sched = runRef prog sched

/-! ### concrete programs (names: 0 `tuple`, 1 `Ellipsis` are builtins; strings are atom lists) -/
/-- def f(): a='a'; def g(): nonlocal a; a+='b'; def h(): nonlocal a; a+='c'; return a; return h; return g()() + a -/
def closure3 : Stmts := Stmts.ofList [
  .fdef 1 10 [] .nil (Stmts.ofList [
    .assign 2 (.lit [0]),
    .fdef 2 11 [] .nil (Stmts.ofList [.nonl 2, .aug 2 (.lit [1]),
      .fdef 3 12 [] .nil (Stmts.ofList [.nonl 2, .aug 2 (.lit [2]), .ret (.name 2)]),
      .ret (.name 12)]),
    .ret (.cat (.call (.call (.name 11) .nil) .nil) (.name 2))])]

/-- x='g'; class A: x='c'; _obs(x); def m(): return x; _obs(m()) -/
def classShadow : Stmts := Stmts.ofList [
  .assign 2 (.lit [6]),
  .cdef 1 10 (Stmts.ofList [.assign 2 (.lit [2]), .obs (.name 2),
    .fdef 2 11 [] .nil (Stmts.ofList [.ret (.name 2)]), .obs (.call (.name 11) .nil)])]

/-- def f(): r = (*[(w := i + 'x') for i in ('a','b')],); _obs(r); return w -/
def compWalrus : Stmts := Stmts.ofList [
  .fdef 1 10 [] .nil (Stmts.ofList [
    .assign 3 (.comp 2 false 5 (Exprs.ofList [.lit [0], .lit [1]]) (.walrus 4 (.cat (.name 5) (.lit [23])))),
    .obs (.name 3), .ret (.name 4)])]

/-- n='g'; class A: n='c'; _obs((*[n for i in ('a',)],)) -/
def compInClass : Stmts := Stmts.ofList [
  .assign 2 (.lit [6]),
  .cdef 1 10 (Stmts.ofList [.assign 2 (.lit [2]), .obs (.comp 2 false 3 (Exprs.ofList [.lit [0]]) (.name 2))])]

/-- def f(): return tuple -/
def readsBuiltin : Stmts := Stmts.ofList [.fdef 1 10 [] .nil (Stmts.ofList [.ret (.name 0)])]

-- non-vacuity of `run_agrees` (hypotheses hold, traces are non-trivial)
example : noCompInCls (scopeOf closure3) = true ∧ (∀ e ∈ cyTable current closure3, e.bind ≠ .builtin) := by
  decide +kernel
example : pruneSs closure3 = closure3 := rfl
example : runRef closure3 [.call 10 []] = [[1, 1, 6, 0, 1, 2, 0, 1, 2]] := by decide +kernel
example : runCy current closure3 [.call 10 []] = [[1, 1, 6, 0, 1, 2, 0, 1, 2]] := by decide +kernel
example : noCompInCls (scopeOf classShadow) = true ∧ (∀ e ∈ cyTable current classShadow, e.bind ≠ .builtin) := by
  decide +kernel
example : runRef classShadow [] = [[0, 1, 1, 2], [0, 1, 1, 6]] := by decide +kernel
example : runCy current classShadow [] = [[0, 1, 1, 2], [0, 1, 1, 6]] := by decide +kernel
example : runRef compWalrus [.call 10 []] = [[0, 2, 2, 1, 2, 0, 23, 1, 2, 1, 23], [1, 1, 2, 1, 23]] := by decide +kernel
example : runCy current compWalrus [.call 10 []] = runRef compWalrus [.call 10 []] := by decide +kernel
-- the comprehension's walrus target is owned by the enclosing function in both tables
example : (refAll (scopeOf compWalrus)).contains ⟨[2, 1, 0], 4, .var [1, 0]⟩ = true
    ∧ (cyAll current (scopeOf compWalrus)).contains ⟨[2, 1, 0], 4, .var [1, 0]⟩ = true := by decide +kernel
-- unbound reads: a free variable read before assignment is a NameError (code 0), then late binding shows the new value
example : runRef (Stmts.ofList [.fdef 1 10 [] .nil (Stmts.ofList [
      .fdef 2 11 [] .nil (Stmts.ofList [.ret (.name 2)]), .ifc (.lit []) (Stmts.ofList [.assign 2 (.lit [0])]),
      .ret (.call (.name 11) .nil)])]) [.call 10 []] = [[2, 0]] := by decide +kernel

/-- the full static statement is false for the current code: a list comprehension in a class body
    sees the class's names (CPython: the module's) -/
theorem comp_in_class_counterexample : ¬ FullResolutionMod current := by
  intro h
  have := h (scopeOf compInClass)
  revert this
  decide +kernel

/-- … and the traces differ: CPython logs ('g',), current Cython logs ('c',); the repaired variant agrees -/
theorem comp_in_class_run_counterexample :
    runRef compInClass [] = [[0, 2, 1, 1, 1, 6]] ∧ runCy current compInClass [] = [[0, 2, 1, 1, 1, 2]]
      ∧ runCy repaired compInClass [] = runRef compInClass [] := by
  decide +kernel

/-- exact equality of the tables is false for both variants: a global name that is never bound in the
    module is a compile-time builtin for Cython -/
theorem builtin_counterexample (v : Variant) : ¬ FullResolution v := by
  intro h
  have := h (scopeOf readsBuiltin)
  revert this
  cases v with | mk a b c => cases a <;> cases b <;> cases c <;> decide +kernel

/-- … observable only through an external `setattr(module, 'tuple', …)` (excluded: C26's subject) -/
theorem builtin_run_counterexample :
    runRef readsBuiltin [.inject 0 [25], .call 10 []] = [[1, 1, 1, 25]]
      ∧ runCy current readsBuiltin [.inject 0 [25], .call 10 []] = [[1, 7, 0]]
      ∧ runCy current readsBuiltin [.call 10 []] = runRef readsBuiltin [.call 10 []] := by
  decide +kernel

/-- def f(): if '': x = 'a'
              return x          with a module-level x = 'g' -/
def deadLocal : Stmts := Stmts.ofList [
  .assign 2 (.lit [6]),
  .fdef 1 10 [] .nil (Stmts.ofList [.ifc (.lit []) (Stmts.ofList [.assign 2 (.lit [0])]), .ret (.name 2)])]

/-- def f(): if '': global x
              x = 'a'           then _obs(x) at module level after calling f -/
def deadGlobalDecl : Stmts := Stmts.ofList [
  .assign 2 (.lit [6]),
  .fdef 1 10 [] .nil (Stmts.ofList [.ifc (.lit []) (Stmts.ofList [.glob 2]), .assign 2 (.lit [0])]),
  .fdef 2 11 [] .nil (Stmts.ofList [.ret (.name 2)])]

/-- def f(): return x; x = 'a' -/
def deadAfterReturn : Stmts := Stmts.ofList [
  .assign 2 (.lit [6]),
  .fdef 1 10 [] .nil (Stmts.ofList [.ret (.name 2), .assign 2 (.lit [0])])]

/-- CPython: `x` is a local of `f` (UnboundLocalError); current Cython drops the dead assignment before
    the symbol table is built, so `x` is the global -/
theorem dead_code_counterexample :
    runRef deadLocal [.call 10 []] = [[2, 1]] ∧ runCy current deadLocal [.call 10 []] = [[1, 1, 1, 6]]
    ∧ runRef deadAfterReturn [.call 10 []] = [[2, 1]] ∧ runCy current deadAfterReturn [.call 10 []] = [[1, 1, 1, 6]]
    ∧ runRef deadGlobalDecl [.call 10 [], .call 11 []] = [[1, 3], [1, 1, 1, 0]]
    ∧ runCy current deadGlobalDecl [.call 10 [], .call 11 []] = [[1, 3], [1, 1, 1, 6]]
    ∧ runCy repaired deadLocal [.call 10 []] = runRef deadLocal [.call 10 []] := by
  decide +kernel

/-- def f(): global y; del y   (y never bound): NameError in CPython, AttributeError in current Cython -/
def delUnboundGlobal : Stmts := Stmts.ofList [.fdef 1 10 [] .nil (Stmts.ofList [.glob 3, .del 3])]

theorem del_global_counterexample :
    runRef delUnboundGlobal [.call 10 []] = [[2, 0]] ∧ runCy current delUnboundGlobal [.call 10 []] = [[2, 5]]
    ∧ runCy repaired delUnboundGlobal [.call 10 []] = [[2, 0]] := by
  decide +kernel

theorem full_run_false_for_current : ¬ FullRun current := by
  intro h
  have := h deadLocal [.call 10 []]
  revert this
  decide +kernel

-- non-vacuity of `run_agrees` for the repaired variant on a program with dead code and a class-level comprehension
example : repaired.delGlobalNameError = true ∧ (∀ e ∈ cyTable repaired deadLocal, e.bind ≠ .builtin)
    ∧ (∀ e ∈ cyTable repaired compInClass, e.bind ≠ .builtin) := by decide +kernel

end CyVerif.C01

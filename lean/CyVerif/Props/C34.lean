import CyVerif.Lemmas.C34Sound
/-!
C34 — fused functions dispatch to the matching specialisation.

`mapType` is the generated `map_fused_type` (per fused type, first parameter), `dispatchWith` the whole
`__pyx_fused_cpdef` over a given iteration order of `__signatures__`, `docChoice` the documented rule
(Model/C34Doc.lean), `sortedMembers` the compile-time `specialized_types.sort()`.
-/
namespace CyVerif.C34

/-- The full-strength statement: for EVERY member list and argument class the dispatcher's choice is a
documented choice.  It is FALSE for the code as it exists (counterexamples below). -/
def FullDispatchSpec : Prop :=
  ∀ (below : Ty → Bool) (tys : List Ty) (an : Bool) (v : Val) (i : Nat),
    mapType (sortedMembers below tys) an v = some i → i ∈ docChoice (withIdx tys) an v

/-- Partial theorem: with a consistently sorted member list (`NoInv`) and outside the six excluded
points (`Nice`), whatever `map_fused_type` returns is a member the documented rule allows
(exact match; else the biggest int/float/complex member; else object). -/
theorem dispatch_choice_documented_partial (below : Ty → Bool) (tys : List Ty) (an : Bool) (v : Val) (i : Nat)
    (hsorted : NoInv below (sortedMembers below tys)) (hnice : Nice (withIdx tys) v)
    (h : mapType (sortedMembers below tys) an v = some i) : i ∈ docChoice (withIdx tys) an v :=
  mapType_sound v (pySort_perm _ _) hsorted hnice h

/-- ... and when the documented rule finds no specialisation the mapper returns None, which the single-type
dispatcher turns into TypeError("No matching signature found"). -/
theorem no_documented_choice_is_TypeError_partial (below : Ty → Bool) (tys : List Ty) (an : Bool) (v : Val)
    (sigs : List (List Nat))
    (hsorted : NoInv below (sortedMembers below tys)) (hnice : Nice (withIdx tys) v)
    (h : docChoice (withIdx tys) an v = []) :
    mapType (sortedMembers below tys) an v = none ∧
    matchSingle sigs (mapType (sortedMembers below tys) an v) = .error .nomatch := by
  have : mapType (sortedMembers below tys) an v = none := by
    cases hm : mapType (sortedMembers below tys) an v with
    | none => rfl
    | some i =>
      have := dispatch_choice_documented_partial below tys an v i hsorted hnice hm
      rw [h] at this; cases this
  exact ⟨this, by rw [this]; rfl⟩

/-- the compile-time sort only permutes the members: every member stays reachable, none is invented -/
theorem sorted_members_perm (below : Ty → Bool) (tys : List Ty) :
    (sortedMembers below tys).Perm (withIdx tys) := pySort_perm _ _

/-- The dispatcher's result does not depend on the order in which `__signatures__` is iterated. -/
theorem dispatch_iteration_order_independent (d : Decl) (sigs sigs' : List (List Nat)) (h : sigs.Perm sigs') (c : Call) :
    dispatchWith d sigs c = dispatchWith d sigs' c := dispatchWith_perm d h c

/-- `index_signature` alone: exactly one candidate -> it; none -> "No matching signature found";
several -> "ambiguous argument types" — whatever the iteration order. -/
theorem candidate_search_order_independent (sigs sigs' : List (List Nat)) (h : sigs.Perm sigs') (dest : List (Option Nat)) :
    indexSignature sigs dest = indexSignature sigs' dest := indexSignature_perm h dest

/-- Indexing: if the signature keys are pairwise distinct, `func[items]` returns exactly the
specialisation whose key is the '|'-join of the items (and KeyError when there is none). -/
theorem getitem_selects (sigKeys : List (String × List Nat)) (items : List String) (sig : List Nat)
    (hnodup : (sigKeys.map (·.1)).Nodup) (hmem : ("|".intercalate items, sig) ∈ sigKeys) :
    getitem sigKeys items = some sig := by
  unfold getitem
  induction sigKeys with
  | nil => cases hmem
  | cons kv rest ih =>
    simp only [List.map_cons, List.nodup_cons] at hnodup
    rcases List.mem_cons.mp hmem with heq | hin
    · subst heq; simp
    · have hne : kv.1 ≠ "|".intercalate items := by
        intro he
        exact hnodup.1 (List.mem_map.mpr ⟨_, hin, he.symm⟩)
      have : (kv.1 == "|".intercalate items) = false := by simpa using hne
      simp only [List.find?_cons, this]
      exact ih hnodup.2 hin

theorem getitem_missing (sigKeys : List (String × List Nat)) (items : List String)
    (h : ∀ kv ∈ sigKeys, kv.1 ≠ "|".intercalate items) : getitem sigKeys items = none := by
  unfold getitem
  rw [find_none_of (fun kv hkv => by simpa using h kv hkv)]
  rfl

/-! ### counterexamples to the full statement (each replayed on the real code by the harness) -/

/-- `id(MemoryViewSliceType) < id(cls)` as measured in a compiler process (object, builtin classes) -/
def below0 : Ty → Bool := fun t => t.cls == 4 || t.cls == 5

/-- bool argument, members [long, bint]: `isinstance(arg, int)` is tested first (x0(True) -> 'long') -/
theorem bool_goes_to_long_not_bint :
    mapType (sortedMembers below0 [.cint 12 1 8, .bint]) true .bool = some 0 ∧
    docChoice (withIdx [.cint 12 1 8, .bint]) true .bool = [1] := by decide

/-- int argument, members [int, unsigned long]: `__lt__` leaves them unordered, `int` is tested first -/
theorem int_not_biggest_mixed_signedness :
    mapType (sortedMembers below0 [.cint 8 1 4, .cint 12 0 8]) true .int = some 0 ∧
    docChoice (withIdx [.cint 8 1 4, .cint 12 0 8]) true .int = [1] := by decide

/-- members [short, signed char, long]: `signed char` is incomparable with everything, the sort keeps `short` first -/
theorem int_not_biggest_signed_char :
    mapType (sortedMembers below0 [.cint 4 1 2, .cint 0 2 1, .cint 12 1 8]) true .int = some 0 ∧
    docChoice (withIdx [.cint 4 1 2, .cint 0 2 1, .cint 12 1 8]) true .int = [2] := by decide

/-- members [Base, Derived], argument an instance of Derived(Base): Base is tested first -/
theorem ext_base_before_derived :
    mapType (sortedMembers below0 [.ext 0, .ext 1]) true (.inst [1, 0]) = some 0 ∧
    docChoice (withIdx [.ext 0, .ext 1]) true (.inst [1, 0]) = [1] := by decide

/-- members [int[:], object], a big-endian int32 ndarray: the numpy dtype test selects int[:] -/
theorem ndarray_byteorder_ignored :
    mapType (sortedMembers below0 [.mview 0 4 1 false, .obj]) true (.buf true 0 4 1 false true true) = some 0 ∧
    docChoice (withIdx [.mview 0 4 1 false, .obj]) true (.buf true 0 4 1 false true true) = [1] := by decide

/-- members [int[:], object], a read-only buffer: the trial coercion ignores writability -/
theorem readonly_buffer_selected :
    mapType (sortedMembers below0 [.mview 0 4 1 false, .obj]) true (.buf false 0 4 1 true true false) = some 0 ∧
    docChoice (withIdx [.mview 0 4 1 false, .obj]) true (.buf false 0 4 1 true true false) = [1] := by decide

/-- members [str, object], an instance of a str subclass: `isinstance` selects str -/
theorem builtin_subclass_selected :
    mapType (sortedMembers below0 [.builtin 0, .obj]) true (.builtin 0 false) = some 0 ∧
    docChoice (withIdx [.builtin 0, .obj]) true (.builtin 0 false) = [1] := by decide

theorem full_spec_false : ¬ FullDispatchSpec := by
  intro h
  have := h below0 [.cint 12 1 8, .bint] true .bool 0 bool_goes_to_long_not_bint.1
  rw [bool_goes_to_long_not_bint.2] at this
  simp at this

/-- two fused types, the first with the single member `long`: a float argument matches nothing, the
`None` wildcard selects the only member instead of TypeError (x8(-0.0, b'ab') -> 'long|bytes') -/
theorem wildcard_selects_single_member :
    dispatch { mvBelow := below0, fvars := [[.cint 12 1 8], [.builtin 0, .builtin 1]],
               params := [⟨0, some 0, 0, none, true⟩, ⟨1, some 1, 0, none, true⟩] }
             { pos := [.float, .builtin 1 true], kw := [] } = .ok [0, 1] ∧
    docChoice (withIdx [.cint 12 1 8]) true .float = [] := ⟨by rfl, by decide⟩


/-- The member order, and with it the dispatch, depends on the ADDRESS order of the compiler's type classes
(`PyrexType.__lt__` falls back to `id(type(self)) < id(type(other))` for memoryview types): members
[int[:], long, double[:]], argument None: `int[:]` when `id(MemoryViewSliceType) > id(CIntType)`, `double[:]`
otherwise.  Both orders were observed for the same source (`python -m cython` vs `Main.compile` in-process). -/
theorem dispatch_depends_on_class_addresses :
    mapType (sortedMembers (fun _ => false) [.mview 0 4 1 false, .cint 12 1 8, .mview 2 8 1 false]) true .none = some 0 ∧
    mapType (sortedMembers (fun t => t.cls == 0) [.mview 0 4 1 false, .cint 12 1 8, .mview 2 8 1 false]) true .none = some 2 := by
  decide

/-! ### non-vacuity -/

/-- the hypotheses of the partial theorem hold for a non-trivial declaration and argument -/
example : NoInv below0 (sortedMembers below0 [.cint 4 1 2, .cfloat 24 8, .cint 12 1 8, .obj, .mview 2 8 1 false]) := by
  unfold NoInv; decide

example : mapType (sortedMembers below0 [.cint 4 1 2, .cfloat 24 8, .cint 12 1 8, .obj, .mview 2 8 1 false]) true .int = some 2 ∧
    docChoice (withIdx [.cint 4 1 2, .cfloat 24 8, .cint 12 1 8, .obj, .mview 2 8 1 false]) true .int = [2] := by decide

example : getitem [("float|int", [0, 0]), ("float|long", [0, 1]), ("double|int", [1, 0])] ["float", "long"] = some [0, 1] := by
  decide

example : indexSignature [[0, 0], [0, 1], [1, 0]] [some 0, none] = .error .ambiguous ∧
    indexSignature [[0, 0], [0, 1], [1, 0]] [some 1, none] = .ok [1, 0] := ⟨by rfl, by rfl⟩

end CyVerif.C34

import CyVerif.Lemmas.C37Par
/-!
C37 — property theorems, leg 1 (schedule independence of results).
`sched : List (thread × iteration)` is an arbitrary global execution order: it fixes the partition of
the iteration space into per-thread sequences (any schedule kind, any chunk size) *and* the
interleaving; `merge` is an arbitrary order of combining the per-thread partial reductions;
`w` (integer width), `n` (thread count), `N` (trip count) are arbitrary.
Float reductions are outside these theorems: IEEE `+`/`*` are not associative, so the result of a
float reduction legitimately depends on the partition and the merge order.
-/
namespace CyVerif.C37

/-- The reduction variable after the parallel loop equals the sequential loop, for all six operators. -/
theorem red_schedule_independent {w} (b : Body w) (s : Vars w) (N n : Nat)
    (sched : List (Nat × Nat)) (merge : List Nat)
    (hperm : (sched.map Prod.snd).Perm (List.range N))
    (hthr : ∀ ev ∈ sched, ev.1 < n)
    (hmerge : merge.Perm (List.range n)) :
    (parRun b s N sched merge).red = (seqRun b s N).red := by
  have hnd : merge.Nodup := (hmerge.nodup_iff).mpr List.nodup_range
  have hm : ∀ ev ∈ sched, ev.1 ∈ merge := fun ev he =>
    hmerge.symm.subset (List.mem_range.mpr (hthr ev he))
  show merged b.op s.red merge _ = _
  rw [merged_run b N s.red merge sched _ hnd hm, merged_init, seqRun, seq_red]
  exact hperm.foldl_eq' (fun x _ y _ z => Op.apply_comm b.op z (b.g x) (b.g y)) _

/-- Disjoint array writes: the shared array after the parallel loop equals the sequential loop. -/
theorem arr_schedule_independent {w} (b : Body w) (s : Vars w) (N : Nat)
    (sched : List (Nat × Nat)) (merge : List Nat)
    (hperm : (sched.map Prod.snd).Perm (List.range N))
    (hinj : ∀ x < N, ∀ y < N, b.aidx x = b.aidx y → x = y) :
    (parRun b s N sched merge).arr = (seqRun b s N).arr := by
  show (sched.foldl (parStep b N) (parInit b s)).arr = _
  rw [arr_run, seqRun, seq_arr]
  refine hperm.foldl_eq' (fun x hx y hy z => ?_) _
  have hx' : x < N := List.mem_range.mp (hperm.subset hx)
  have hy' : y < N := List.mem_range.mp (hperm.subset hy)
  by_cases hxy : b.aidx x = b.aidx y
  · rw [hinj x hx' y hy' hxy]
  · exact List.set_comm _ _ hxy

/-- The index variable ends at the last index (and is untouched by an empty loop). -/
theorem idx_last_index {w} (b : Body w) (s : Vars w) (N : Nat)
    (sched : List (Nat × Nat)) (merge : List Nat)
    (hperm : (sched.map Prod.snd).Perm (List.range N)) :
    (parRun b s N sched merge).idx = (seqRun b s N).idx ∧
    (parRun b s N sched merge).idx = (if N = 0 then s.idx else b.index (N - 1)) := by
  cases N with
  | zero =>
    have : sched = [] := by simpa using hperm.eq_nil
    subst this; simp [parRun, parInit, seqRun]
  | succ M =>
    have hex : ∃ ev ∈ sched, ev.2 = M := by
      have : M ∈ sched.map Prod.snd := hperm.symm.subset (List.mem_range.mpr (Nat.lt_succ_self M))
      obtain ⟨ev, he, h⟩ := List.mem_map.mp this
      exact ⟨ev, he, h⟩
    -- the write-back of the index does not depend on `asg`: use a body that assigns at M
    have hl : ∃ l, (sched.foldl (parStep b (M + 1)) (parInit b s)).last = some (l, b.index M) := by
      clear hperm
      generalize parInit b s = p
      induction sched generalizing p with
      | nil => obtain ⟨_, h, _⟩ := hex; cases h
      | cons ev rest ih =>
        simp only [List.foldl_cons]
        by_cases hr : ∃ e ∈ rest, e.2 = M
        · exact ih hr _
        · have hk : ev.2 = M := by
            obtain ⟨e, he, hM⟩ := hex
            rcases List.mem_cons.mp he with h1 | h1
            · exact h1 ▸ hM
            · exact absurd ⟨e, h1, hM⟩ hr
          rw [last_keep]
          · exact ⟨(b.asg M).getD (p.plp ev.1), by simp [parStep, hk]⟩
          · intro e he hne
            exact hr ⟨e, he, by omega⟩
    obtain ⟨l, hl⟩ := hl
    simp [parRun, hl, (seq_last b s M).2]

/-- lastprivate variable: value of the sequentially last iteration, if that iteration assigns. -/
theorem lp_last_iteration_partial {w} (b : Body w) (s : Vars w) (N : Nat)
    (sched : List (Nat × Nat)) (merge : List Nat)
    (hperm : (sched.map Prod.snd).Perm (List.range N))
    (hlast : ∀ M, N = M + 1 → (b.asg M).isSome) :
    (parRun b s N sched merge).lp = (seqRun b s N).lp := by
  cases N with
  | zero =>
    have : sched = [] := by simpa using hperm.eq_nil
    subst this; simp [parRun, parInit, seqRun]
  | succ M =>
    obtain ⟨v, hv⟩ := Option.isSome_iff_exists.mp (hlast M rfl)
    have hex : ∃ ev ∈ sched, ev.2 = M := by
      have : M ∈ sched.map Prod.snd := hperm.symm.subset (List.mem_range.mpr (Nat.lt_succ_self M))
      obtain ⟨ev, he, h⟩ := List.mem_map.mp this
      exact ⟨ev, he, h⟩
    have := last_run b M v sched (parInit b s) hv hex
    simp [parRun, this, (seq_last b s M).1, hv]

/-- Full-strength reading "every lastprivate equals the sequential value" (no condition on the body). -/
def FullLastprivate : Prop :=
  ∀ (b : Body 32) (s : Vars 32) (N : Nat) (sched : List (Nat × Nat)) (merge : List Nat),
    (sched.map Prod.snd).Perm (List.range N) →
    (parRun b s N sched merge).lp = (seqRun b s N).lp

def cexBody : Body 32 :=
  { op := .add, g := fun _ => 0, asg := fun k => if k = 0 then some 10 else none,
    start := 0, step := 1, aidx := fun k => k, aval := fun _ => 0 }
def cexVars : Vars 32 := { red := 0, lp := 5, idx := 0, arr := [0, 0] }

/-- It is false: an assignment made only in an earlier iteration on another thread is lost
(thread 1 runs the last iteration and writes back its untouched firstprivate copy). -/
theorem lastprivate_conditional_counterexample : ¬ FullLastprivate := by
  intro h
  have := h cexBody cexVars 2 [(0, 0), (1, 1)] [0, 1] (by decide)
  revert this
  decide

/-- All variables together. -/
theorem par_eq_seq_partial {w} (b : Body w) (s : Vars w) (N n : Nat)
    (sched : List (Nat × Nat)) (merge : List Nat)
    (hperm : (sched.map Prod.snd).Perm (List.range N))
    (hthr : ∀ ev ∈ sched, ev.1 < n)
    (hmerge : merge.Perm (List.range n))
    (hlast : ∀ M, N = M + 1 → (b.asg M).isSome)
    (hinj : ∀ x < N, ∀ y < N, b.aidx x = b.aidx y → x = y) :
    parRun b s N sched merge = seqRun b s N := by
  have h1 := red_schedule_independent b s N n sched merge hperm hthr hmerge
  have h2 := arr_schedule_independent b s N sched merge hperm hinj
  have h3 := (idx_last_index b s N sched merge hperm).1
  have h4 := lp_last_iteration_partial b s N sched merge hperm hlast
  cases hp : parRun b s N sched merge
  cases hq : seqRun b s N
  simp_all

/-! ### Non-vacuity: a concrete three-thread schedule meets every hypothesis of `par_eq_seq_partial` -/

def demoBody : Body 8 :=
  { op := .sub, g := fun k => BitVec.ofNat 8 (200 + k), asg := fun k => some (k * 10), start := 7, step := -2,
    aidx := fun k => 3 - k, aval := fun k => k + 100 }
def demoVars : Vars 8 := { red := 5, lp := -1, idx := -777, arr := [0, 0, 0, 0, 0] }
def demoSched : List (Nat × Nat) := [(2, 3), (0, 0), (1, 2), (0, 1)]

example : (demoSched.map Prod.snd).Perm (List.range 4) := by decide
example : ∀ ev ∈ demoSched, ev.1 < 3 := by decide
example : [2, 0, 1].Perm (List.range 3) := by decide
example : ∀ M, 4 = M + 1 → (demoBody.asg M).isSome := fun _ _ => rfl
example : ∀ x < 4, ∀ y < 4, demoBody.aidx x = demoBody.aidx y → x = y := by decide
example : parRun demoBody demoVars 4 demoSched [2, 0, 1] = seqRun demoBody demoVars 4 ∧
    (seqRun demoBody demoVars 4).red = 223 ∧ (seqRun demoBody demoVars 4).idx = 1 := by decide

end CyVerif.C37

import CyVerif.Lemmas.C43
import CyVerif.Lemmas.C43Sim
/-!
C43 (partial): theorems about the LAYOUT layer of `PyrexScanner` only.
(a) totality without internal failure, (b) INDENT/DEDENT balance, (c) acceptance of everything CPython's
tokenizer accepts (same token skeleton) for uniformly indented input; counterexamples where Cython differs.
Nothing here speaks about the parser, the transforms, code generation or the C compiler.
-/
namespace CyVerif.C43

/-! ## (a) totality: tokens or ONE positioned user error, never an internal failure -/

/-- For EVERY stream of physical lines the layout scanner returns either a token list or exactly one error
that is one of its three user messages, positioned on a line of the input.  The model's `internal` outcome
(`current_level()` / `pop()` on an empty `indentation_stack`, i.e. an `IndexError` in the real code) is
unreachable.  Termination itself is by structural recursion on the line list and on the stack (no fuel). -/
theorem scan_total (ls : List PLine) :
    (∃ toks, cyScan ls = .ok toks) ∨
    (∃ n m, cyScan ls = .error (n, m) ∧ (m = .mixed ∨ m = .inconsistent ∨ m = .unrecognized)
        ∧ 1 ≤ n ∧ n ≤ ls.length) := by
  unfold cyScan
  rcases cyRun_wf ls cyInit 1 (by simp [cyInit, wfStack]) with ⟨k, m, he, hm, h1, h2⟩ | ⟨t, st, ho, _⟩
  · rw [he]; exact Or.inr ⟨k, m, rfl, hm, h1, by omega⟩
  · rw [ho]; exact Or.inl ⟨_, rfl⟩

theorem scan_never_internal (ls : List PLine) (n : Nat) : cyScan ls ≠ .error (n, .internal) := by
  rcases scan_total ls with ⟨t, h⟩ | ⟨k, m, h, hm, _⟩
  · rw [h]; simp
  · rw [h]; rcases hm with h | h | h <;> simp [h]

/-- the DEDENT loop never pops the bottom entry: on every reachable state the stack stays well-formed -/
theorem stack_invariant (ls : List PLine) (t : List Out) (st : CySt)
    (h : cyRun cyInit 1 ls = .ok (t, st)) : wfStack st.stack := by
  rcases cyRun_wf ls cyInit 1 (by simp [cyInit, wfStack]) with ⟨k, m, he, _⟩ | ⟨t', st', ho, hs⟩
  · rw [he] at h; cases h
  · rw [ho] at h; cases h; exact hs.wf

/-- `bracket_nesting_level` CAN go negative (a stray closing bracket), after which `newline_action` produces no
NEWLINE any more; the scanner still terminates normally (the parser rejects the stray bracket). -/
theorem nesting_negative_reachable :
    cyRun cyInit 1 [⟨[], [.other, .cl .paren], .nl⟩, ⟨[], [.other], .nl⟩]
      = .ok ([.tok .other, .tok (.cl .paren), .tok .other], ⟨.mid, [0], none, -1⟩) := by rfl

/-! ## (b) balance -/

/-- on every accepted input the number of INDENT tokens equals the number of DEDENT tokens -/
theorem indent_dedent_balance (ls : List PLine) (toks : List Out) (h : cyScan ls = .ok toks) :
    nInd toks = nDed toks := by
  unfold cyScan at h
  rcases cyRun_wf ls cyInit 1 (by simp [cyInit, wfStack]) with ⟨k, m, he, _⟩ | ⟨t, st, ho, hs⟩
  · rw [he] at h; cases h
  · rw [ho] at h
    simp only [Except.ok.injEq] at h
    subst h
    have hb := hs.bal
    have hne : st.stack.length ≥ 1 := by
      have := wfStack_ne_nil hs.wf
      cases hst : st.stack with
      | nil => exact absurd hst this
      | cons _ _ => simp
    unfold cyEof
    simp only [nInd_append, nDed_append, nInd_replicate_dedent, nDed_replicate_dedent]
    have e1 : nInd (if st.mode = Mode.mid ∧ st.nest = 0 then [Out.newline] else []) = 0 := by
      split <;> rfl
    have e2 : nDed (if st.mode = Mode.mid ∧ st.nest = 0 then [Out.newline] else []) = 0 := by
      split <;> rfl
    simp [e1, e2, nInd, nDed, cyInit] at hb ⊢
    omega

/-- and `eof_action` leaves `indentation_stack == [0]` -/
theorem stack_returns_to_zero (ls : List PLine) (t : List Out) (st : CySt)
    (h : cyRun cyInit 1 ls = .ok (t, st)) : cyEofStack st = [0] := by
  have hw := stack_invariant ls t st h
  unfold cyEofStack
  generalize st.stack = s at hw
  induction s with
  | nil => exact absurd hw (by simp [wfStack])
  | cons x r ih =>
    cases r with
    | nil => simp [wfStack] at hw; simp [hw]
    | cons y r' =>
      have := ih hw.2
      simpa using this

example : cyScan [⟨[], [.other], .nl⟩, ⟨[.sp, .sp], [.other], .nl⟩, ⟨[.sp, .sp, .sp], [.other], .nl⟩]
    = .ok [.tok .other, .newline, .indent, .tok .other, .newline, .indent, .tok .other, .newline,
           .dedent, .dedent, .eof] := by rfl

/-! ## (c) acceptance: what CPython's tokenizer accepts, the Cython scanner accepts with the same tokens -/

def Uniform (c : Ws) (ls : List PLine) : Prop := ∀ l ∈ ls, UniformLine c l
def NoBareCont (ls : List PLine) : Prop := ∀ l ∈ ls, NoBareContLine l

/-- full-strength statement — FALSE for the code as it exists (three counterexamples below) -/
def FullAcceptance : Prop := ∀ ls sk, pyScan cpyLimits ls = .ok sk → cyScan ls = .ok sk

/-- For EVERY input whose leading white space uses one character only (all spaces, or all tabs) and that has no
line consisting of white space + backslash: if CPython's tokenizer (for ANY values of MAXINDENT / MAXLEVEL) accepts
it with token skeleton `sk`, the Cython scanner accepts it with exactly the same skeleton. -/
theorem acceptance_partial (L : Limits) (c : Ws) (hc : c ≠ .ff) (ls : List PLine)
    (hu : Uniform c ls) (hb : NoBareCont ls) (sk : List Out) (h : pyScan L ls = .ok sk) :
    cyScan ls = .ok sk := by
  unfold pyScan at h
  cases hr : pyRun L pyInit 1 ls with
  | error e => rw [hr] at h; cases h
  | ok r =>
    obtain ⟨t, py'⟩ := r
    rw [hr] at h
    simp only [] at h
    have hs0 : Sim c pyInit cyInit :=
      ⟨by simp [cyInit, wfStack], Or.inl ⟨rfl, rfl⟩, rfl, rfl, rfl, rfl, by simp [pyInit, cyInit, liftStack], rfl, Or.inl rfl⟩
    obtain ⟨cy', hc', hs⟩ := run_sim L c hc ls pyInit cyInit 1 hu hb hs0 t py' hr
    unfold cyScan
    rw [hc']
    simp only []
    rcases hs.mode with ⟨hbol, hmode⟩ | ⟨hbol, _⟩
    · rw [hbol, hs.pend] at h
      simp at h
      subst h
      have hlen : py'.ind.length = cy'.stack.length := by rw [hs.ind]; simp [liftStack]
      simp [cyEof, hmode, hlen]
    · rw [hbol] at h
      simp at h

/-- inside that domain `bracket_nesting_level` never goes negative and ends at 0 (it equals CPython's `level`) -/
theorem nesting_nonneg_partial (L : Limits) (c : Ws) (hc : c ≠ .ff) (ls : List PLine)
    (hu : Uniform c ls) (hb : NoBareCont ls) (t : List Out) (py' : PySt)
    (h : pyRun L pyInit 1 ls = .ok (t, py')) :
    ∃ cy', cyRun cyInit 1 ls = .ok (t, cy') ∧ cy'.nest = py'.parens.length := by
  have hs0 : Sim c pyInit cyInit :=
    ⟨by simp [cyInit, wfStack], Or.inl ⟨rfl, rfl⟩, rfl, rfl, rfl, rfl, by simp [pyInit, cyInit, liftStack], rfl, Or.inl rfl⟩
  obtain ⟨cy', hc', hs⟩ := run_sim L c hc ls pyInit cyInit 1 hu hb hs0 t py' h
  exact ⟨cy', hc', hs.nest⟩

/-- non-vacuity: a tab-indented program with brackets, comment, continuation and blank lines is in the domain -/
def wOk : List PLine :=
  [⟨[], [.other, .other, .other], .nl⟩, ⟨[.tab], [.other, .op .paren, .other], .cnl⟩, ⟨[.tab, .tab, .tab], [.other], .nl⟩,
   ⟨[], [.cl .paren, .other], .bs⟩, ⟨[.tab, .tab], [.other], .nl⟩, ⟨[.tab, .tab], [], .nl⟩, ⟨[.tab], [.other, .other], .nl⟩,
   ⟨[.tab, .tab], [.other], .nl⟩, ⟨[], [.other], .nl⟩]

example : Uniform .tab wOk ∧ NoBareCont wOk ∧ (∃ sk, pyScan cpyLimits wOk = .ok sk ∧ sk.length = 24) := by
  refine ⟨?_, ?_, ⟨_, rfl, by decide⟩⟩
  · intro l hl; simp [wOk] at hl; rcases hl with h | h | h | h | h | h | h | h | h <;> subst h <;> rfl
  · intro l hl; simp [wOk] at hl; rcases hl with h | h | h | h | h | h | h | h | h <;> subst h <;> simp [NoBareContLine]

/-! ### where Cython deliberately differs: witnesses (each is replayed on the real compiler by the harness) -/

/-- `if x:⏎⇥y⏎if x:⏎········y` : tabs in one block, spaces in another -/
def wTabs : List PLine :=
  [⟨[], [.other, .other, .other], .nl⟩, ⟨[.tab], [.other], .nl⟩,
   ⟨[], [.other, .other, .other], .nl⟩, ⟨List.replicate 8 .sp, [.other], .nl⟩]

theorem tabs_spaces_counterexample :
    (∃ sk, pyScan cpyLimits wTabs = .ok sk) ∧ cyScan wTabs = .error (4, .mixed) := ⟨⟨_, rfl⟩, rfl⟩

/-- `if x:⏎␌····y` : a form feed before the indentation -/
def wFF : List PLine := [⟨[], [.other, .other, .other], .nl⟩, ⟨[.ff, .sp, .sp, .sp, .sp], [.other], .nl⟩]

theorem formfeed_counterexample :
    pyScan cpyLimits wFF = .ok [.tok .other, .tok .other, .tok .other, .newline, .indent, .tok .other, .newline, .dedent, .eof]
    ∧ cyScan wFF = .ok [.tok .other, .tok .other, .tok .other, .newline, .tok .other, .newline, .eof] := ⟨rfl, rfl⟩

/-- `···\⏎⏎x` : white space + backslash-newline followed by an empty line is a blank line for CPython -/
def wCont : List PLine := [⟨[.sp, .sp, .sp], [], .bs⟩, ⟨[], [], .nl⟩, ⟨[], [.other], .nl⟩]

theorem leading_continuation_counterexample :
    pyScan cpyLimits wCont = .ok [.tok .other, .newline, .eof]
    ∧ cyScan wCont = .ok [.indent, .newline, .dedent, .tok .other, .newline, .eof] := ⟨rfl, rfl⟩

theorem not_fullAcceptance : ¬ FullAcceptance := by
  intro h
  have h1 := h wTabs _ rfl
  rw [tabs_spaces_counterexample.2] at h1
  cases h1

/-- the converse fails outside the layout layer's job: the scanner alone lets unbalanced brackets through
(CPython's tokenizer rejects them; in Cython the parser does) -/
theorem converse_counterexample :
    cyScan [⟨[], [.other, .cl .paren], .nl⟩] = .ok [.tok .other, .tok (.cl .paren), .eof]
    ∧ pyScan cpyLimits [⟨[], [.other, .cl .paren], .nl⟩] = .error (1, .unmatched) := ⟨rfl, rfl⟩

end CyVerif.C43

import CyVerif.Lemmas.C02DivOps
import CyVerif.Lemmas.C02BitOps
import CyVerif.Lemmas.C02Shift
import CyVerif.Lemmas.C02TrueDiv
import CyVerif.Lemmas.C02CmpMain
import CyVerif.Lemmas.C02FloatJoin
import CyVerif.Lemmas.C02BitExt
/-!
# C02 — object arithmetic with constant operands matches CPython

Models: `CyVerif.C02.binop` (`PyLongBinop`), `compare` (`PyLongCompare`), `floatBinop` / `remFix` (`PyFloatBinop`)
of `Cython/Utility/Optimize.c`.  All theorems hold for every platform `P` with `PlatOK P` (C99 minimum widths,
any `PyLong_SHIFT`), every Python int `x` in CPython normal form (any digit count and sign) and every constant
the compiler admits.
-/
namespace CyVerif.C02
open CyVerif.C05

/-! ## What the compiler admits (`Optimize.py`: `optimise_numeric_binop`, `_optimise_num_div`,
`_handle_simple_method_object___[lr]shift__`) for an integer constant `c` -/

/-- `abs(c) <= 2**30`; `% // /` only with the constant on the right and non-zero; `<< >>` only with the constant on
the right and `1 <= c <= 63`. -/
def Admissible (op : Op) (ord : Order) (c : Int) : Prop :=
  c.natAbs ≤ 2 ^ 30 ∧
  (op.isDiv = true → ord = .objC ∧ c ≠ 0) ∧
  ((op = .lsh ∨ op = .rsh) → ord = .objC ∧ 1 ≤ c ∧ c ≤ 63)
instance (op : Op) (ord : Order) (c : Int) : Decidable (Admissible op ord c) := by unfold Admissible; infer_instance

/-- What the C dialect must provide: if the template's macro test says "negative shifts work" they do (arithmetic
`>>`); `<<` additionally needs the gcc/clang/msvc behaviour of signed `<<` (wrap; ISO C leaves it undefined — the
template says so itself and disables the sanitizer) and a shift count below the width of `long`. -/
def DialectOK (P : Plat) (cfg : Cfg) (op : Op) (c : Int) : Prop :=
  (cfg.negShiftWorks = true → cfg.gccShift = true) ∧
  (op = .lsh → cfg.gccShift = true ∧ c < 8 * P.longBytes)

/-! ## Python's semantics of `a op b` on ints -/

/-- `o` is the outcome CPython produces for `a op b` (ints of unbounded size). -/
def PyInt (op : Op) (a b : Int) (o : Out) : Prop :=
  match op with
  | .add => o = .int (a + b)
  | .sub => o = .int (a - b)
  | .mul => o = .int (a * b)
  | .rem => if b = 0 then o = .err "ZeroDivisionError" else o = .int (a.fmod b)
  | .fdiv => if b = 0 then o = .err "ZeroDivisionError" else o = .int (a.fdiv b)
  -- `int / int` is the correctly rounded quotient; `(double)a / (double)b` is that when both conversions are exact
  | .tdiv => if b = 0 then o = .err "ZeroDivisionError" else (o = .quot a b ∧ a.natAbs ≤ 2 ^ 53 ∧ b.natAbs ≤ 2 ^ 53)
  | .and => ∃ r, o = .int r ∧ ∀ k, bit r k = (bit a k && bit b k)
  | .or => ∃ r, o = .int r ∧ ∀ k, bit r k = (bit a k || bit b k)
  | .xor => ∃ r, o = .int r ∧ ∀ k, bit r k = (bit a k ^^ bit b k)
  | .lsh => 0 ≤ b ∧ o = .int (a * 2 ^ b.toNat)
  | .rsh => 0 ≤ b ∧ o = .int (a.fdiv (2 ^ b.toNat))

/-- The helper is right: it defers to CPython or produces CPython's outcome.  (`ub` is never right.) -/
def Right (op : Op) (a b : Int) (o : Out) : Prop := IsFallback o ∨ PyInt op a b o

theorem cbnd_of_natAbs {c : Int} (h : c.natAbs ≤ 2 ^ 30) : CBnd c := by unfold CBnd two; omega

theorem shr_eq_fdiv (a : Int) (n : Nat) : a >>> n = a.fdiv (2 ^ n) := by
  rw [Int.shiftRight_eq_div_pow, Int.fdiv_eq_ediv_of_nonneg]
  · simp
  · exact Int.le_of_lt (Int.pow_pos (by omega))

theorem two_eq_pow' (n : Nat) : two n = (2 : Int) ^ n := two_eq_pow n

/-- **Main theorem for `__Pyx_Unpacked_…`** (exact `int` operand, `CYTHON_USE_PYLONG_INTERNALS`):
for every int `x`, every admissible `(op, order, c)`, with or without the zero-division test, the helper defers to
CPython or returns exactly CPython's result / exception.  In particular no C operation on the way is undefined. -/
theorem unpacked_correct (P : Plat) (hP : PlatOK P) (cfg : Cfg) (op : Op) (ord : Order) (p : PyLong)
    (hwf : p.WF P.shift) (c : Int) (hadm : Admissible op ord c) (hd : DialectOK P cfg op c) (zc : Bool) :
    Right op (opA ord (p.value P.shift) c) (opB ord (p.value P.shift) c) (unpacked P cfg op ord p c zc) := by
  obtain ⟨hc30, hdiv, hsh⟩ := hadm
  have hc := cbnd_of_natAbs hc30
  cases op
  case add => exact (add_raw P hP cfg ord p hwf c hc zc).imp id id
  case sub => exact (sub_raw P hP cfg ord p hwf c hc zc).imp id id
  case mul => exact (mul_raw P hP cfg ord p hwf c hc zc).imp id id
  case rem =>
    rcases rem_raw P hP cfg ord p hwf c hc zc (fun h => (hdiv rfl).2) with h | ⟨hb, h⟩ | ⟨hb, h⟩
    · exact .inl h
    · right; simp only [PyInt, if_neg hb]; exact h
    · right; simp only [PyInt, if_pos hb]; exact h
  case fdiv =>
    rcases fdiv_raw P hP cfg ord p hwf c hc zc (fun h => (hdiv rfl).2) with h | ⟨hb, h⟩ | ⟨hb, h⟩
    · exact .inl h
    · right; simp only [PyInt, if_neg hb]; exact h
    · right; simp only [PyInt, if_pos hb]; exact h
  case tdiv =>
    rcases tdiv_raw P hP cfg ord p hwf c hc zc (fun h => (hdiv rfl).2) with h | ⟨hb, h⟩ | ⟨hb, h⟩
    · exact .inl h
    · right; simp only [PyInt, if_neg hb]; exact h
    · right; simp only [PyInt, if_pos hb]; exact h
  case and => exact (bitop_raw P hP cfg .and ord p hwf c hc zc).imp id id
  case or => exact (bitop_raw P hP cfg .or ord p hwf c hc zc).imp id id
  case xor => exact (bitop_raw P hP cfg .xor ord p hwf c hc zc).imp id id
  case lsh =>
    obtain ⟨hord, h1, h63⟩ := hsh (.inl rfl)
    obtain ⟨hg, hcL⟩ := hd.2 rfl
    subst hord
    rcases lsh_raw P hP cfg hg p hwf c (by omega) h63 hcL zc with h | h
    · exact .inl h
    · right; refine ⟨by simp only [opB]; omega, ?_⟩
      rw [h]; simp only [opA, opB, two_eq_pow']
  case rsh =>
    obtain ⟨hord, h1, h63⟩ := hsh (.inr rfl)
    subst hord
    rcases rsh_raw P hP cfg hd.1 p hwf c (by omega) zc with h | h
    · exact .inl h
    · right; refine ⟨by simp only [opB]; omega, ?_⟩
      rw [h]; simp only [opA, opB, shr_eq_fdiv]

/-- The bitwise characterisation determines the result: two ints with the same bits are equal. -/
theorem bits_determine_value {a b : Int} (h : ∀ k, bit a k = bit b k) : a = b := bit_ext h

/-- Which operand is well-formed: exact ints are in CPython normal form. -/
def Obj.WF (S : Nat) : Obj → Prop
  | .long p => p.WF S
  | _ => True

/-- **`__Pyx_PyLong_{op}{order}` on any object**: an exact int is handled as `unpacked_correct` says (or handed to
`PyNumber_…` without `CYTHON_USE_PYLONG_INTERNALS`); an exact float gets the C `double` operation on
`(double)x` and `(double)c` (for `+ - * /`; `c` converts exactly and, for `/`, is non-zero) — the same operation
CPython's `float` slot performs; everything else (bool, subclasses, other types) goes to `PyNumber_[InPlace]…`. -/
theorem binop_correct (P : Plat) (hP : PlatOK P) (cfg : Cfg) (op : Op) (ord : Order) (x : Obj) (hx : x.WF P.shift)
    (c : Int) (hadm : Admissible op ord c) (hd : DialectOK P cfg op c) (zc : Bool) :
    match x with
    | .long p => Right op (opA ord (p.value P.shift) c) (opB ord (p.value P.shift) c) (binop P cfg op ord x c zc)
    | .float _ => IsFallback (binop P cfg op ord x c zc) ∨ (binop P cfg op ord x c zc = .flt op ord ∧ c.natAbs ≤ 2 ^ 53)
    | .other => IsFallback (binop P cfg op ord x c zc) := by
  cases x with
  | long p =>
    simp only [binop]
    cases cfg.internals
    · exact .inl ⟨_, rfl⟩
    · exact unpacked_correct P hP cfg op ord p hx c hadm hd zc
  | float f =>
    simp only [binop]
    by_cases hop : op = .add ∨ op = .sub ∨ op = .mul ∨ op = .tdiv
    · rw [if_pos hop]
      right
      have h53 : c.natAbs ≤ 2 ^ 53 := by have := hadm.1; omega
      refine ⟨?_, h53⟩
      unfold floatPath
      rw [if_neg]
      intro ⟨hord, hdv, _, _⟩
      have := (hadm.2.1 hdv).1
      rw [hord] at this; cases this
    · rw [if_neg hop]; exact .inl ⟨_, rfl⟩
  | other => exact ⟨_, rfl⟩

/-- The helpers never run into undefined behaviour (corollary, stated separately because C36 reuses it). -/
theorem binop_no_ub (P : Plat) (hP : PlatOK P) (cfg : Cfg) (op : Op) (ord : Order) (x : Obj) (hx : x.WF P.shift)
    (c : Int) (hadm : Admissible op ord c) (hd : DialectOK P cfg op c) (zc : Bool) (k : String) :
    binop P cfg op ord x c zc ≠ .ub k := by
  have h := binop_correct P hP cfg op ord x hx c hadm hd zc
  intro hub
  cases x with
  | long p =>
    simp only at h; rw [hub] at h
    rcases h with ⟨_, h⟩ | h
    · cases h
    · cases op <;> simp [PyInt] at h <;> (try split at h) <;> simp_all
  | float f =>
    simp only at h; rw [hub] at h
    rcases h with ⟨_, h⟩ | ⟨h, _⟩ <;> cases h
  | other => simp only at h; rw [hub] at h; obtain ⟨_, h⟩ := h; cases h

/-! ### The hypotheses are satisfiable and the fast paths are really taken (non-vacuity) -/

def lp64 : Plat := ⟨30, 4, 8, 8, 8⟩
def gcc : Cfg := ⟨true, true, true⟩

example : PlatOK lp64 := by decide
example : PlatOK ⟨15, 4, 4, 8, 4⟩ := by decide      -- ILP32 with 15-bit digits
example : PlatOK ⟨30, 4, 4, 8, 8⟩ := by decide      -- LLP64 (64-bit Windows)
example : Admissible .fdiv .objC (-7) ∧ DialectOK lp64 gcc .fdiv (-7) := by
  refine ⟨by decide, ?_, ?_⟩ <;> intro h <;> simp_all [gcc]
example : Admissible .lsh .objC 63 ∧ DialectOK lp64 gcc .lsh 63 := by
  refine ⟨by decide, ?_, ?_⟩ <;> intro h <;> simp_all [gcc, lp64]
example : (PyLong.ofInt 30 (-(2 ^ 59) - 5)).WF 30 := by decide
-- a two-digit negative int through `calculate_long`: `(-2^59 - 5) // -7`
example : binop lp64 gcc .fdiv .objC (.long (PyLong.ofInt 30 (-(2 ^ 59) - 5))) (-7) false = .int 82351536043346213 := by
  decide
example : binop lp64 gcc .and .objC (.long (PyLong.ofInt 30 (-(2 ^ 200) + 12345))) 1023 false = .int 57 := by decide
example : binop lp64 gcc .mul .cObj (.long (PyLong.ofInt 30 (2 ^ 30 - 1))) (2 ^ 30) false = .int 1152921503533105152 := by
  decide
example : binop lp64 gcc .lsh .objC (.long (PyLong.ofInt 30 (-3))) 61 false = .int (-6917529027641081856) := by decide
example : binop lp64 gcc .lsh .objC (.long (PyLong.ofInt 30 3)) 62 false = .fallback "generic" := by decide
example : binop lp64 gcc .tdiv .objC (.long (PyLong.ofInt 30 (2 ^ 53))) 7 false = .quot (2 ^ 53) 7 := by decide
example : binop lp64 gcc .tdiv .objC (.long (PyLong.ofInt 30 (2 ^ 53 + 1))) 7 false = .fallback "slot" := by decide

/-! ### Why the side conditions are there (model-level facts, kind `lemma`) -/

/-- Under ISO C (signed `<<` with an unrepresentable result is undefined) the `<<` helper *does* run into UB:
`x << 40` for `x = 2^40`.  The template relies on the gcc/clang/msvc behaviour (and disables `-fsanitize=shift`). -/
theorem lshift_needs_wrapping_shift :
    binop lp64 ⟨true, true, false⟩ .lsh .objC (.long (PyLong.ofInt 30 (2 ^ 40))) 40 false = .ub "signed-shift-overflow" := by
  decide

/-- Where `long` has 32 bits (64-bit Windows) `x << c` with `32 <= c <= 63` evaluates `a << b` with an over-wide
count before the guard `b < sizeof(long)*8` is tested. -/
theorem lshift_overwide_on_32bit_long :
    binop ⟨30, 4, 4, 8, 8⟩ gcc .lsh .objC (.long (PyLong.ofInt 30 5)) 40 false = .ub "shift-count-out-of-range" := by
  decide

/-- The `CObj` instantiation of the shift template (`c << x`), which the compiler never requests, would shift by an
arbitrary count: the restriction to `x << c` in `Optimize.py` is needed. -/
theorem cobj_shift_would_be_ub :
    binop lp64 gcc .lsh .cObj (.long (PyLong.ofInt 30 100)) 7 false = .ub "shift-count-out-of-range" := by decide

/-! ## `PyLongCompare` -/

/-- numeric equality of an object with the int `c` as CPython defines it for exact ints and floats -/
def objEqInt (S : Nat) : Obj → Int → Bool
  | .long p, c => decide (p.value S = c)
  | .float (.int v), c => decide (v = c)
  | _, _ => false

def cmpResult (op : CmpOp) (equal : Bool) : Out := .bool (if op = .eq then equal else !equal)

/-- **`__Pyx_PyLong_[Bool]{Eq,Ne}{ObjC,CObj}`**: for every object and every constant that fits `long` (except
`LONG_MIN`), has at most five digits and converts to `double` exactly — in particular every `|c| ≤ 2^30` — the
helper defers to `PyObject_RichCompare` or returns exactly `x == c` / `x != c`.  `same` (pointer identity with the
constant object) can only hold for an exact int of value `c`. -/
theorem compare_correct (P : Plat) (hP : PlatOK P) (cfg : Cfg) (op : CmpOp) (same : Bool) (x : Obj) (hx : x.WF P.shift)
    (c : Int) (hc : Bnd (8 * P.longBytes - 1) c) (hc5 : c.natAbs < 2 ^ (5 * P.shift)) (hc53 : c.natAbs ≤ 2 ^ 53)
    (hsame : same = true → ∃ p, x = .long p ∧ p.value P.shift = c) :
    IsFallback (compare P cfg op same x c) ∨
      (x ≠ .other ∧ compare P cfg op same x c = cmpResult op (objEqInt P.shift x c)) := by
  unfold compare
  cases same
  · simp only [Bool.false_eq_true, if_false]
    cases x with
    | long p =>
      simp only
      cases cfg.internals
      · exact .inl ⟨_, rfl⟩
      · right
        refine ⟨by simp, ?_⟩
        simp only [if_true]
        rw [compareLong_spec P hP op p hx c hc hc5]
        cases op <;> simp [cmpResult, objEqInt]
    | float f =>
      right
      refine ⟨by simp, ?_⟩
      simp only [if_pos hc53, cmpResult]
      cases f <;> simp [objEqInt]
    | other => exact .inl ⟨_, rfl⟩
  · obtain ⟨p, hxp, hv⟩ := hsame rfl
    subst hxp
    right
    refine ⟨by simp, ?_⟩
    cases op <;> simp [cmpResult, objEqInt, hv]

/-- every constant the compiler passes satisfies the side conditions of `compare_correct` -/
theorem compare_admissible (P : Plat) (hP : PlatOK P) (hS : 7 ≤ P.shift) (c : Int) (hc : c.natAbs ≤ 2 ^ 30) :
    Bnd (8 * P.longBytes - 1) c ∧ c.natAbs < 2 ^ (5 * P.shift) ∧ c.natAbs ≤ 2 ^ 53 := by
  obtain ⟨_, _, _, hL4, _⟩ := hP
  have h1 : 2 ^ 31 ≤ 2 ^ (8 * P.longBytes - 1) := Nat.pow_le_pow_right (by omega) (by omega)
  have h2 : 2 ^ 35 ≤ 2 ^ (5 * P.shift) := Nat.pow_le_pow_right (by omega) (by omega)
  refine ⟨?_, by omega, by omega⟩
  unfold Bnd two; omega

example : PlatOK lp64 ∧ 7 ≤ lp64.shift := by decide
example : compare lp64 gcc .eq false (.long (PyLong.ofInt 30 (-(2 ^ 30)))) (-(2 ^ 30)) = .bool true := by decide
example : compare lp64 gcc .ne false (.long (PyLong.ofInt 30 (2 ^ 90 + 2 ^ 30))) (2 ^ 30) = .bool true := by decide
example : compare lp64 gcc .eq false (.float (.int 7)) 7 = .bool true := by decide

/-! ## `PyFloatBinop` (decision part; rounded values of `+ - /` and `fmod` are hardware/libm, not modelled) -/

/-- the object is numerically zero (exact int `0`, exact float `±0.0`) -/
def objIsZero : Obj → Bool
  | .long p => isZero p
  | .float f => f.isZero
  | .other => false

/-- CPython raises `ZeroDivisionError` for this operation: `c / x`, `c % x` with `x == 0` (when the test is requested) -/
def mustRaise (op : FOp) (ord : Order) (zc : Bool) (x : Obj) : Bool :=
  ord = .cObj && op.isDiv && zc && objIsZero x

/-- What every outcome of `__Pyx_PyFloat_…` guarantees. -/
def FloatRight (S : Nat) (op : FOp) (ord : Order) (same : Bool) (x : Obj) (c : FCls) (zc : Bool) : FOut → Prop
  | .fallback _ => True
  | .ub _ => False
  | .err e => e = "ZeroDivisionError" ∧ mustRaise op ord zc x = true
  | .bool b => (same = true ∧ b = decide (op = .eq)) ∨
      (∃ p, x = .long p ∧ b = (if op = .eq then decide (c = .int (p.value S)) else !decide (c = .int (p.value S))))
  | .arith op' ord' xd => op' = op ∧ ord' = ord ∧ mustRaise op ord zc x = false ∧
      match xd with
      | .ofFloat f => x = .float f
      | .exact v => ∃ p, x = .long p ∧ v = p.value S ∧ v.natAbs ≤ 2 ^ 53 ∧ op.isCmp = false   -- `(double) v` is exact
      | .asDouble v => ∃ p, x = .long p ∧ v = p.value S ∧ op.isCmp = false                     -- CPython's own conversion

theorem fr_fallback {S op ord same x c zc} (h : String) : FloatRight S op ord same x c zc (.fallback h) := trivial
theorem fr_err {S op ord same x c zc} (hm : mustRaise op ord zc x = true) :
    FloatRight S op ord same x c zc (.err "ZeroDivisionError") := ⟨rfl, hm⟩
theorem fr_float {S op ord same f c zc} (hm : mustRaise op ord zc (.float f) = false) :
    FloatRight S op ord same (.float f) c zc (.arith op ord (.ofFloat f)) := ⟨rfl, rfl, hm, rfl⟩
theorem fr_asDouble {S op ord same p c zc} (hm : mustRaise op ord zc (.long p) = false) (hcmp : op.isCmp = false) :
    FloatRight S op ord same (.long p) c zc (.arith op ord (.asDouble (p.value S))) := ⟨rfl, rfl, hm, p, rfl, rfl, hcmp⟩

theorem doneExact_right (S : Nat) (op : FOp) (ord : Order) (p : PyLong) (c : FCls) (zc : Bool) (v : Int)
    (hv : v = p.value S) (h53 : v.natAbs ≤ 2 ^ 53) (hm : mustRaise op ord zc (.long p) = false) :
    FloatRight S op ord false (.long p) c zc (doneExact op ord c v) := by
  unfold doneExact
  cases hcmp : op.isCmp
  · simp only [Bool.false_eq_true, if_false]
    exact ⟨rfl, rfl, hm, p, rfl, hv, h53, hcmp⟩
  · simp only [if_true]
    refine .inr ⟨p, rfl, ?_⟩
    subst hv
    cases op <;> simp [FOp.isCmp] at hcmp <;> cases c <;> simp <;> exact eq_comm

theorem mustRaise_float (op : FOp) (ord : Order) (zc : Bool) (f : FCls) :
    mustRaise op ord zc (.float f) = zeroDiv op ord zc f.isZero := rfl
theorem mustRaise_long (op : FOp) (ord : Order) (zc : Bool) (p : PyLong) :
    mustRaise op ord zc (.long p) = zeroDiv op ord zc (isZero p) := rfl

/-- **`__Pyx_PyFloat_{op}{order}`**: never UB (no digit is read outside the object, no over-wide shift); an int operand
is converted by the helper itself only when the conversion is exact (`|v| ≤ 2^53`), otherwise by CPython's
`PyLong_AsDouble` or not at all; `ZeroDivisionError` is raised exactly for a zero divisor object (when requested);
`==`/`!=` with an exactly converted int decide `x == c` exactly.  (`PyLong_SHIFT ≤ 53`: a single digit converts exactly.) -/
theorem floatBinop_correct (P : Plat) (hP : PlatOK P) (hS53 : P.shift ≤ 53) (cfg : Cfg) (op : FOp) (ord : Order)
    (same : Bool) (x : Obj) (hx : x.WF P.shift) (c : FCls) (zc : Bool) :
    FloatRight P.shift op ord same x c zc (floatBinop P cfg op ord same x c zc) := by
  unfold floatBinop
  by_cases hs : op.isCmp = true ∧ same = true
  · rw [if_pos hs]; exact .inl ⟨hs.2, by cases op <;> simp [FOp.isCmp] at hs ⊢⟩
  · rw [if_neg hs]
    cases x with
    | other => exact fr_fallback _
    | float f =>
      simp only
      cases hz : zeroDiv op ord zc f.isZero
      · simp only [Bool.false_eq_true, if_false]
        exact fr_float (by rw [mustRaise_float]; exact hz)
      · simp only [if_true]
        exact fr_err (by rw [mustRaise_float]; exact hz)
    | long p =>
      have hsame : ∀ o, FloatRight P.shift op ord false (.long p) c zc o → FloatRight P.shift op ord same (.long p) c zc o := by
        intro o h
        cases o with
        | arith _ _ _ => exact h
        | bool b =>
          rcases h with ⟨h, _⟩ | h
          · cases h
          · exact .inr h
        | err _ => exact h
        | ub _ => exact h
        | fallback _ => exact h
      apply hsame
      simp only [floatFromLong]
      cases hint : cfg.internals
      · -- without PyLong internals
        simp only [Bool.false_eq_true, if_false]
        cases hcmp : op.isCmp
        · simp only [Bool.false_eq_true, if_false, true_and]
          cases hz : zeroDiv op ord zc (isZero p)
          · simp only [Bool.false_eq_true, if_false]
            exact fr_asDouble (by rw [mustRaise_long]; exact hz) hcmp
          · simp only [if_true]
            exact fr_err (by rw [mustRaise_long]; exact hz)
        · simp only [if_true]; exact fr_fallback _
      · simp only [if_true]
        cases hzero : isZero p
        · simp only [Bool.false_eq_true, if_false]
          have hne : p.digits ≠ [] := fun h => by rw [(isZero_iff p).mpr h] at hzero; cases hzero
          have hm : mustRaise op ord zc (.long p) = false := by
            rw [mustRaise_long, hzero]; simp [zeroDiv]
          by_cases h1 : p.digits.length ≤ 1
          · rw [if_pos h1]
            match hds : p.digits, hne with
            | [d], _ =>
              have hd : d < 2 ^ P.shift := hx.1 d (by rw [hds]; simp)
              have hpw : 2 ^ P.shift ≤ 2 ^ 53 := Nat.pow_le_pow_right (by omega) hS53
              have hdig : p.digit0 = d := by unfold PyLong.digit0; rw [hds]
              apply doneExact_right _ _ _ _ _ _ _ _ _ hm
              · unfold PyLong.value; rw [hds, hdig]; simp [natVal]
              · rw [hdig]; split <;> omega
            | _ :: _ :: _, _ => rw [hds] at h1; simp at h1
          · rw [if_neg h1]
            rcases floatJoin_spec P hP p hx (by omega) with h | ⟨h, h53⟩
            · rw [h]
              simp only [bind, Except.bind, pure, Except.pure, ofEF, Bool.true_eq_false, false_and, if_false]
              cases hcmp : op.isCmp
              · simp only [Bool.false_eq_true, if_false]
                exact fr_asDouble hm hcmp
              · simp only [if_true]; exact fr_fallback _
            · rw [h]
              simp only [bind, Except.bind, pure, Except.pure, ofEF]
              exact doneExact_right _ _ _ _ _ _ _ rfl (by omega) hm
        · simp only [if_true]
          have hv0 : p.value P.shift = 0 := value_zero ((isZero_iff p).mp hzero)
          cases hz : zeroDiv op ord zc true
          · simp only [Bool.false_eq_true, if_false]
            apply doneExact_right _ _ _ _ _ _ _ hv0.symm (by simp)
            rw [mustRaise_long, hzero]; exact hz
          · simp only [if_true]
            exact fr_err (by rw [mustRaise_long, hzero]; exact hz)

example : floatBinop lp64 gcc .tdiv .cObj false (.long (PyLong.ofInt 30 0)) .frac true = .err "ZeroDivisionError" := by decide
example : floatBinop lp64 gcc .add .objC false (.long (PyLong.ofInt 30 (2 ^ 53 - 1))) .frac false
    = .arith .add .objC (.exact (2 ^ 53 - 1)) := by decide
example : floatBinop lp64 gcc .add .objC false (.long (PyLong.ofInt 30 (2 ^ 53))) .frac false
    = .arith .add .objC (.asDouble (2 ^ 53)) := by decide
example : floatBinop lp64 gcc .eq .objC false (.long (PyLong.ofInt 30 (-(2 ^ 40)))) (.int (-(2 ^ 40))) false = .bool true := by
  decide

/-! ### `%` with a float constant: the sign fix-up -/

/-- Full-strength statement: for every class of divisor `b` and every class `r` that `fmod(a, b)` can have, the
template's fix-up denotes the same value as CPython's `float_rem`.  **False** on the pinned tree (see below). -/
def FullRemFix : Prop := ∀ b r : IC, fmodPossible b r = true → (remFix b r).norm r = (pyRemFix b r).norm r

/-- The fix-up is right whenever the divisor is not infinite — in particular for every `x % c` (the compiler only
admits finite non-zero constants `|c| ≤ 2^53` as divisor) and for `c % x` with finite `x`. -/
theorem remFix_partial (b r : IC) (hp : fmodPossible b r = true) (hb : ∀ n, b ≠ .inf n) :
    (remFix b r).norm r = (pyRemFix b r).norm r := by
  cases b with
  | inf n => exact absurd rfl (hb n)
  | nan => cases r <;> simp_all [fmodPossible, remFix, pyRemFix, RemRes.norm, IC.truthy, IC.lt0]
  | zero n => cases r <;> simp_all [fmodPossible, remFix, pyRemFix, RemRes.norm, IC.truthy, IC.lt0]
  | fin n =>
    cases r with
    | nan => simp [remFix, pyRemFix, RemRes.norm, IC.truthy, IC.lt0]
    | inf m => simp [fmodPossible] at hp
    | zero m => simp [remFix, pyRemFix, RemRes.norm, IC.truthy]
    | fin m => cases n <;> cases m <;> simp [remFix, pyRemFix, RemRes.norm, IC.truthy, IC.lt0]

example : fmodPossible (.fin true) (.fin false) = true ∧ ∀ n, IC.fin true ≠ .inf n := ⟨rfl, fun _ h => by cases h⟩

/-- Counterexample (finding `float-const-mod-infinity`): `7.5 % x` for `x = float('inf')`: `fmod(7.5, inf) = 7.5`, signs agree, the
template adds `0 * inf = NaN`; CPython returns `7.5`. -/
theorem remFix_inf_counterexample :
    fmodPossible (.inf false) (.fin false) = true ∧ remFix (.inf false) (.fin false) = .nan ∧
      pyRemFix (.inf false) (.fin false) = .keep := ⟨rfl, rfl, rfl⟩

theorem fullRemFix_false : ¬ FullRemFix := by
  intro h
  have := h (.inf false) (.fin false) rfl
  simp [remFix, pyRemFix, RemRes.norm, IC.truthy, IC.lt0] at this

/-- With the one-line repair (`if ((result < 0) ^ (b < 0)) result += b;`) the full statement holds, for every class. -/
theorem remFixRepaired_full (b r : IC) : remFixRepaired b r = pyRemFix b r := by
  unfold remFixRepaired pyRemFix
  cases hb : b.lt0 <;> cases hr : r.lt0 <;> simp

end CyVerif.C02

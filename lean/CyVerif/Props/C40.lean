import CyVerif.Lemmas.C40Sound
import CyVerif.Lemmas.C40Mark
/-!
# C40 — safe type inference never changes pure-Python results

Model: `CyVerif.C40` (`Model/C40*.lean`).  `run fo Γ nt fuel p σ` evaluates a function body with the locals
typed by `Γ` (name nodes by `nt`); `run fo objEnv noNt …` is the build with `infer_types=False`.
`Agree x y` : `x = y`, or the typed run stops at a false builtin-type claim of a flow-typed name node.

* `clean_sound` / `safe_infer_preserves_partial` — whenever the validator `cleanS` accepts the typing the
  inferer produced, typed evaluation agrees with object evaluation: all programs, inputs, fuel, float semantics.
* `marked_not_cint` — the heart of `MarkOverflowingArithmetic` + `safe_spanning_type`: a variable marked
  `might_overflow` is never given a plain C integer type by the inferer (all source variants).
* `FullSafeInferPreserves` is the full-strength statement; it is FALSE for the tree as it exists
  (`not_full_pinned`), with one counterexample theorem per deviation class, each replayed on the real compiler.
-/
namespace CyVerif.C40

variable {F : Type}

/-! ## the theorem over the validator -/

/-- initial store: only the parameters are bound -/
def ParamsOnly (σ : Store F) : Prop := ∀ v, npar ≤ v → σ v = none

theorem inv_of_paramsOnly {Γ : Nat → Ty} {σ : Store F} (h : ParamsOnly σ) : Inv Γ σ := by
  intro v x hx hp
  by_cases hv : v < npar
  · simp [tyOf, hv, Ty.isPyObject] at hp
  · rw [h v (by omega)] at hx; cases hx

theorem clean_sound (fo : FOps F) (law : Lawful fo) (Γ : Nat → Ty) (nt : Nat → Option Ty) (p : Stmt)
    (hc : clean Γ nt p = true) (fuel : Nat) (σ : Store F) (hσ : ParamsOnly σ) :
    Agree (run fo Γ nt fuel p σ) (run fo objEnv noNt fuel p σ) := by
  unfold clean at hc
  split at hc
  · rename_i S' hS
    have hag := (cleanS_sound law fuel p [] S' σ hS (inv_of_paramsOnly hσ) (fun v hv => by simp at hv)).1
    unfold run
    rcases hag with h | h
    · rw [h]; exact Agree.rfl' _
    · rw [h]; exact Or.inr rfl
  · cases hc

/-- Restricted theorem (the validator's verdict is the explicit hypothesis): for every source variant,
every program and every input, if the typing produced by the safe inferer passes the validator then the
build with inference behaves like the build without. -/
theorem safe_infer_preserves_partial (cfg : Cfg) (fo : FOps F) (law : Lawful fo) (p : Stmt)
    (Γ : Env) (nty : List (Nat × Ty)) (_hi : infer cfg p = .ok Γ nty)
    (hc : clean Γ.get (fun i => List.lookup i nty) p = true) (fuel : Nat) (σ : Store F) (hσ : ParamsOnly σ) :
    Agree (run fo Γ.get (fun i => List.lookup i nty) fuel p σ) (run fo objEnv noNt fuel p σ) :=
  clean_sound fo law _ _ p hc fuel σ hσ

/-- the full-strength statement: NO hypothesis on the validator -/
def FullSafeInferPreserves (cfg : Cfg) : Prop :=
  ∀ (F : Type) (fo : FOps F), Lawful fo → ∀ (p : Stmt) (Γ : Env) (nty : List (Nat × Ty)),
    wellNumbered p = true → infer cfg p = .ok Γ nty → ∀ (fuel : Nat) (σ : Store F), ParamsOnly σ →
      Agree (run fo Γ.get (fun i => List.lookup i nty) fuel p σ) (run fo objEnv noNt fuel p σ)

/-! ## marked variables never become C integers -/

/-- The heart of `MarkOverflowingArithmetic` + `safe_spanning_type`, for every source variant and every
program: a local marked `might_overflow` (an operand of `+ - * / // % ** << >>`, of unary minus, of `abs()`,
the target of an augmented assignment, a long literal's target) is never typed as a plain C integer. -/
theorem marked_not_cint (cfg : Cfg) (p : Stmt) (Γ : Env) (nty : List (Nat × Ty))
    (h : infer cfg p = .ok Γ nty) (v : Nat) (hm : mightOverflow cfg p v = true) :
    (Γ.get v).isPlainCInt' = false :=
  infer_marked (P := fun t => t.isPlainCInt' = false) ⟨rfl, fun ts t hs => safeSpan_marked_not_cint cfg ts t hs⟩ h v hm

/-- with the repair of `safe_spanning_type`, nor as a `bint` -/
theorem marked_not_bint_fixed (cfg : Cfg) (hb : cfg.bintNoOverflow = true) (p : Stmt) (Γ : Env)
    (nty : List (Nat × Ty)) (h : infer cfg p = .ok Γ nty) (v : Nat) (hm : mightOverflow cfg p v = true) :
    Γ.get v ≠ .bint :=
  infer_marked (P := fun t => t ≠ .bint) ⟨by decide, fun ts t hs => safeSpan_marked_not_bint cfg hb ts t hs⟩ h v hm

/-! ## witnesses -/

/-- `float` interpreted trivially: enough to instantiate the theorems -/
def unitFOps : FOps Unit where
  ofBits _ := ()
  ofInt _ := some ()
  add _ _ := ()
  sub _ _ := ()
  mul _ _ := ()
  div _ _ := .val ()
  fdiv _ _ := .val ()
  fmod _ _ := .val ()
  neg _ := ()
  abs _ := ()
  cmp _ _ _ := false
  cmpIF _ _ _ := false
  truth _ := true
  divInt _ _ := some ()

theorem unitFOps_lawful : Lawful unitFOps := fun _ _ => rfl

/-- arguments `(0, [], 0)` -/
def args0 : Store F := fun v => if v = 0 then some (.int 0) else if v = 1 then some (.list []) else if v = 2 then some (.int 0) else none

theorem args0_paramsOnly : ParamsOnly (args0 : Store F) := by
  intro v hv
  have h0 : v ≠ 0 := by unfold npar at hv; omega
  have h1 : v ≠ 1 := by unfold npar at hv; omega
  have h2 : v ≠ 2 := by unfold npar at hv; omega
  simp [args0, h0, h1, h2]

/-- `v3 = 1; if p0: v3 = 1.5; return v3` -/
def wSpanIntFloat : Stmt :=
  .seq (.assign 3 0 (.int 1))
    (.seq (.ite (.name 0 0) (.seq (.assign 3 1 (.flt 4609434218613702656)) .skip) .skip)
      (.seq (.ret (.name 3 1)) .skip))

theorem wSpanIntFloat_infer : infer Cfg.pinned wSpanIntFloat = .ok [(3, .cdouble)] [] := by decide
theorem wSpanIntFloat_fixed : infer Cfg.fixed wSpanIntFloat = .ok [(3, .obj)] [] := by decide

/-- counterexample (class "int and float assignments span to a C double"): the typed run returns a float
(or fails), the reference run the int 1 — for every interpretation of floats -/
theorem cex_span_int_float (fo : FOps F) :
    ¬ Agree (run fo (Env.get [(3, .cdouble)]) noNt 10 wSpanIntFloat args0) (run fo objEnv noNt 10 wSpanIntFloat args0) := by
  have hoff : run fo objEnv noNt 10 wSpanIntFloat args0 = .ok (.int 1) := by
    simp [run, exec, wSpanIntFloat, evalE, aty, tyOut, assignTo, storeConv, tyOf, objEnv, noNt, npar, Ty.isPyObject,
      isLongLiteral, readVar, nameTy, args0, Store.set, condTruth, Val.truth, Ty.isBuiltin, Out.bind]
  rw [hoff]
  cases ho : fo.ofInt 1 with
  | none =>
    have : run fo (Env.get [(3, .cdouble)]) noNt 10 wSpanIntFloat args0 = .ub "int-to-double" := by
      simp [run, exec, wSpanIntFloat, evalE, aty, tyOut, assignTo, storeConv, tyOf, noNt, npar, Ty.isPyObject,
        isLongLiteral, readVar, nameTy, args0, Store.set, condTruth, Val.truth, Ty.isBuiltin, Out.bind, Env.get,
        List.lookup, cDbl, ho, bind]
    rw [this]; intro h
    rcases h with h | h
    · cases h
    · exact absurd (Out.ub.inj h) (by decide)
  | some x =>
    have : run fo (Env.get [(3, .cdouble)]) noNt 10 wSpanIntFloat args0 = .ok (.flt x) := by
      simp [run, exec, wSpanIntFloat, evalE, aty, tyOut, assignTo, storeConv, tyOf, noNt, npar, Ty.isPyObject,
        isLongLiteral, readVar, nameTy, args0, Store.set, condTruth, Val.truth, Ty.isBuiltin, Out.bind, Env.get,
        List.lookup, cDbl, ho, bind, pure]
    rw [this]; intro h; rcases h with h | h <;> cases h

/-- the full-strength statement is false for the tree as it exists -/
theorem not_full_pinned : ¬ FullSafeInferPreserves Cfg.pinned := by
  intro h
  have := h Unit unitFOps unitFOps_lawful wSpanIntFloat _ _ (by decide) wSpanIntFloat_infer 10 args0 args0_paramsOnly
  exact cex_span_int_float unitFOps this

/-- symbolic execution of a concrete program -/
local macro "evalrun" : tactic => `(tactic|
  simp [run, exec, evalE, evalO, aty, tyOut, assignTo, storeConv, tyOf, objEnv, noNt, npar, Ty.isPyObject, Ty.isInt,
    Ty.isNumeric, Ty.isBuiltin, Ty.isCIntArith, Ty.bits, isLongLiteral, readVar, nameTy, args0, Store.set, condTruth,
    Val.truth, Out.bind, Env.get, List.lookup, cDbl, cInt?, bind, pure, binNode, binSem, binType, cResult, cBin, mkInt,
    inRange, widest, Ty.rank2, BinOp.intOnly, BinOp.isBitwise, unSem, cmpSem, cCompare, cmpInt, pyBin, pyIntBin, pyUn,
    pyCmp, pyLen, lenSem, idxSem, idxType, pyIdx, fromPy, Val.num?, Val.int?, isStrLit, isIntLit, constInfo,
    rangeItemTy, rangeArg, rangeArgO, rangeItems, iter, intNot, ssizeMax, builtinOp, resultOfBuiltin,
    BinOp.sameTypeKeeps, bigLimit])

/-- `v3 = not p0; v4 = v3 << 31; return v4` -/
def wBintShift : Stmt :=
  .seq (.assign 3 0 (.un .not (.name 0 0)))
    (.seq (.assign 4 1 (.bin .shl false (.name 3 1) (.int 31))) (.seq (.ret (.name 4 2)) .skip))

theorem wBintShift_infer : infer Cfg.pinned wBintShift = .ok [(4, .clong), (3, .bint)] [(1, .bint)] := by decide
theorem wBintShift_fixed : infer Cfg.fixed wBintShift = .ok [(4, .obj), (3, .obj)] [(1, .obj)] := by decide

/-- counterexample (class "a `bint` variable in arithmetic"): C computes `True << 31` in a 32-bit int -/
theorem cex_bint_arith (fo : FOps F) :
    ¬ Agree (run fo (Env.get [(4, .clong), (3, .bint)]) (fun i => List.lookup i [(1, Ty.bint)]) 10 wBintShift args0)
            (run fo objEnv noNt 10 wBintShift args0) := by
  have hoff : run fo objEnv noNt 10 wBintShift args0 = .ok (.int 2147483648) := by
    unfold wBintShift; evalrun
  have hs : run fo (Env.get [(4, .clong), (3, .bint)]) (fun i => List.lookup i [(1, Ty.bint)]) 10 wBintShift args0
      = .ub "shift" := by
    unfold wBintShift; evalrun
  rw [hoff, hs]; intro h
  rcases h with h | h
  · cases h
  · exact absurd (Out.ub.inj h) (by decide)

/-- `v3 = not p0; v4 = -v3; return v4` -/
def wUnopBint : Stmt :=
  .seq (.assign 3 0 (.un .not (.name 0 0)))
    (.seq (.assign 4 1 (.un .neg (.name 3 1))) (.seq (.ret (.name 4 2)) .skip))

theorem wUnopBint_infer : infer Cfg.pinned wUnopBint = .ok [(4, .bint), (3, .bint)] [(1, .bint)] := by decide

/-- counterexample (class "unary operator on a `bint` inferred as `bint`"): `-True` becomes `True` -/
theorem cex_unop_bint (fo : FOps F) :
    ¬ Agree (run fo (Env.get [(4, .bint), (3, .bint)]) (fun i => List.lookup i [(1, Ty.bint)]) 10 wUnopBint args0)
            (run fo objEnv noNt 10 wUnopBint args0) := by
  have hoff : run fo objEnv noNt 10 wUnopBint args0 = .ok (.int (-1)) := by
    unfold wUnopBint; evalrun
  have hs : run fo (Env.get [(4, .bint), (3, .bint)]) (fun i => List.lookup i [(1, Ty.bint)]) 10 wUnopBint args0
      = .ok (.bool true) := by
    unfold wUnopBint; evalrun
  rw [hoff, hs]; intro h
  rcases h with h | h <;> cases h

/-- `for v3 in range(0): pass; v4 = v3; return v4 is None` -/
def wUnbound : Stmt :=
  .seq (.forr 3 0 (.int 0) none none .skip)
    (.seq (.assign 4 1 (.name 3 0)) (.seq (.ret (.cmp .is_ (.name 4 1) .none)) .skip))

theorem wUnbound_infer : infer Cfg.pinned wUnbound = .ok [(4, .clong), (3, .clong)] [(0, .clong)] := by decide
theorem wUnbound_fixed : infer Cfg.fixed wUnbound = .ok [(4, .clong), (3, .obj)] [(0, .clong)] := by decide

/-- counterexample (class "C-typed variable read before assignment"): no `UnboundLocalError` -/
theorem cex_unbound (fo : FOps F) :
    ¬ Agree (run fo (Env.get [(4, .clong), (3, .clong)]) (fun i => List.lookup i [(0, Ty.clong)]) 10 wUnbound args0)
            (run fo objEnv noNt 10 wUnbound args0) := by
  have hoff : run fo objEnv noNt 10 wUnbound args0 = .err .UnboundLocalError := by
    unfold wUnbound; evalrun
  have hs : run fo (Env.get [(4, .clong), (3, .clong)]) (fun i => List.lookup i [(0, Ty.clong)]) 10 wUnbound args0
      = .ub "uninitialised" := by
    unfold wUnbound; evalrun
  rw [hoff, hs]; intro h
  rcases h with h | h
  · cases h
  · exact absurd (Out.ub.inj h) (by decide)

/-- `v3 = 'abc'[len(p1)]; for v3 in range(0): pass; v4 = v3; return v4` -/
def wCharInt : Stmt :=
  .seq (.assign 3 0 (.idx (.str [97, 98, 99]) (.len (.name 1 0))))
    (.seq (.forr 3 1 (.int 0) none none .skip)
      (.seq (.assign 4 2 (.name 3 1)) (.seq (.ret (.name 4 2)) .skip)))

theorem wCharInt_infer : infer Cfg.pinned wCharInt = .ok [(4, .clong), (3, .clong)] [(1, .clong)] := by decide
theorem wCharInt_fixed : infer Cfg.fixed wCharInt = .ok [(4, .obj), (3, .obj)] [(1, .obj)] := by decide

/-- counterexample (class "a character and an integer span to a C integer"): `'a'` becomes `97` -/
theorem cex_char_int (fo : FOps F) :
    ¬ Agree (run fo (Env.get [(4, .clong), (3, .clong)]) (fun i => List.lookup i [(1, Ty.clong)]) 10 wCharInt args0)
            (run fo objEnv noNt 10 wCharInt args0) := by
  have hoff : run fo objEnv noNt 10 wCharInt args0 = .ok (.str [97]) := by
    unfold wCharInt; evalrun
  have hs : run fo (Env.get [(4, .clong), (3, .clong)]) (fun i => List.lookup i [(1, Ty.clong)]) 10 wCharInt args0
      = .ok (.int 97) := by
    unfold wCharInt; evalrun
  rw [hoff, hs]; intro h
  rcases h with h | h <;> cases h

/-- arguments `(0, [1], 0)` -/
def args1 : Store F := fun v => if v = 0 then some (.int 0) else if v = 1 then some (.list [.int 1]) else if v = 2 then some (.int 0) else none

/-- `v3 = len(p1); v4 = 5; v5 = (v3 < v4) << 40; return v5` -/
def wCmpArith : Stmt :=
  .seq (.assign 3 0 (.len (.name 1 0))) (.seq (.assign 4 1 (.int 5))
    (.seq (.assign 5 2 (.bin .shl false (.cmp .lt (.name 3 1) (.name 4 2)) (.int 40))) (.seq (.ret (.name 5 3)) .skip)))

theorem wCmpArith_infer : infer Cfg.pinned wCmpArith = .ok [(5, .obj), (4, .clong), (3, .cssize)] [] := by decide
theorem wCmpArith_fixed : infer Cfg.fixed wCmpArith = .ok [(5, .obj), (4, .pyint), (3, .pyint)] [] := by decide

/-- counterexample (class "comparison of C-typed variables used in arithmetic"): `(x < y) << 40` in a C int -/
theorem cex_cmp_arith (fo : FOps F) :
    ¬ Agree (run fo (Env.get [(5, .obj), (4, .clong), (3, .cssize)]) noNt 10 wCmpArith args1)
            (run fo objEnv noNt 10 wCmpArith args1) := by
  have hoff : run fo objEnv noNt 10 wCmpArith args1 = .ok (.int 1099511627776) := by
    unfold wCmpArith; evalrun; simp [args1, Store.set]
  have hs : run fo (Env.get [(5, .obj), (4, .clong), (3, .cssize)]) noNt 10 wCmpArith args1 = .ub "shift" := by
    unfold wCmpArith; evalrun; simp [args1, Store.set]
  rw [hoff, hs]; intro h
  rcases h with h | h
  · cases h
  · exact absurd (Out.ub.inj h) (by decide)

/-- `v3 = len(p1); v3 <<= 70; v3 = 2.0; return v3` -/
def wCrash : Stmt :=
  .seq (.assign 3 0 (.len (.name 1 0))) (.seq (.aug 3 1 1 .shl (.int 70))
    (.seq (.assign 3 2 (.flt 4611686018427387904)) (.seq (.ret (.name 3 2)) .skip)))

/-- on the tree as it exists the inferer itself fails on this (valid) program: `reinfer()` meets an
assignment whose type can no longer be inferred -/
theorem reinfer_crash_witness : infer Cfg.pinned wCrash = .crash ∧ infer Cfg.fixed wCrash = .ok [(3, .obj)] [(1, .pyint)] := by
  constructor <;> decide

/-- `v3 = True; v3 /= 3; v4 = v3 * v3; return v4` -/
def wClaim : Stmt :=
  .seq (.assign 3 0 (.bool true)) (.seq (.aug 3 1 0 .div (.int 3))
    (.seq (.assign 4 2 (.bin .mul false (.name 3 1) (.name 3 2))) (.seq (.ret (.name 4 3)) .skip)))

theorem wClaim_infer : infer Cfg.pinned wClaim =
    .ok [(4, .pyint), (3, .obj)] [(2, .pyint), (1, .pyint), (0, .bint)] := by decide
theorem wClaim_fixed : infer Cfg.fixed wClaim =
    .ok [(4, .obj), (3, .obj)] [(2, .obj), (1, .obj), (0, .obj)] := by decide

/-- The second disjunct of `Agree` cannot be dropped on the tree as it exists: inference types the in-place
true division of a `bint` by an int as a C integer, the name nodes that read the result carry the exact
type `int`, the generated code trusts it — the validator accepts the typing, the typed run stops at the false
claim while the reference run returns a float.  (Replayed on the real compiler: the process aborts.) -/
theorem false_claim_witness :
    clean (Env.get [(4, .pyint), (3, .obj)]) (fun i => List.lookup i [(2, Ty.pyint), (1, Ty.pyint), (0, Ty.bint)]) wClaim = true ∧
    run unitFOps (Env.get [(4, .pyint), (3, .obj)]) (fun i => List.lookup i [(2, Ty.pyint), (1, Ty.pyint), (0, Ty.bint)])
      10 wClaim args0 = .ub "builtin-type-claim" ∧
    run unitFOps objEnv noNt 10 wClaim args0 = .ok (.flt ()) := by
  refine ⟨by decide, ?_, ?_⟩
  · unfold wClaim; evalrun; simp [unitFOps, Store.set]
  · unfold wClaim; evalrun; simp [unitFOps, pyFloatBin, Store.set, toF]

/-! ## non-vacuity -/

/-- `v3 = len(p1); v4 = 0; for v5 in range(v3): v4 = v4 + v5; return (v4, …)`-like accumulation:
a loop counter and a length inferred as C integers, an accumulator kept as a Python int -/
def wLoop : Stmt :=
  .seq (.assign 3 0 (.len (.name 1 0))) (.seq (.assign 4 1 (.int 0))
    (.seq (.forr 5 2 (.name 3 1) none none (.seq (.assign 4 3 (.bin .add false (.name 4 2) (.name 5 3))) .skip))
      (.seq (.ret (.name 4 4)) .skip)))

theorem wLoop_infer : infer Cfg.pinned wLoop = .ok [(5, .pyint), (4, .pyint), (3, .cssize)] [(3, .pyint), (2, .pyint), (1, .cssize)] := by
  decide

/-- the hypotheses of `safe_infer_preserves_partial` are satisfiable by a non-trivial program
(a C `Py_ssize_t` local, a range loop, Python-int accumulation), with a lawful float interpretation -/
example : clean (Env.get [(5, .pyint), (4, .pyint), (3, .cssize)])
    (fun i => List.lookup i [(3, Ty.pyint), (2, Ty.pyint), (1, Ty.cssize)]) wLoop = true := by decide

example : Agree (run unitFOps (Env.get [(5, .pyint), (4, .pyint), (3, .cssize)])
      (fun i => List.lookup i [(3, Ty.pyint), (2, Ty.pyint), (1, Ty.cssize)]) 50 wLoop args1)
    (run unitFOps objEnv noNt 50 wLoop args1) :=
  safe_infer_preserves_partial Cfg.pinned unitFOps unitFOps_lawful wLoop _ _ wLoop_infer (by decide) 50 args1
    (by intro v hv
        have h0 : v ≠ 0 := by unfold npar at hv; omega
        have h1 : v ≠ 1 := by unfold npar at hv; omega
        have h2 : v ≠ 2 := by unfold npar at hv; omega
        simp [args1, h0, h1, h2])

/-- `marked_not_cint` is not vacuous: in `wLoop` the accumulator `v4` and the counter `v5` are marked -/
example : mightOverflow Cfg.pinned wLoop 4 = true ∧ mightOverflow Cfg.pinned wLoop 5 = true ∧
    mightOverflow Cfg.pinned wLoop 3 = false := by decide

end CyVerif.C40

import CyVerif.Lemmas.C31Stmt
/-! C31 — property theorems (match statements behave like CPython). -/
namespace CyVerif.C31

/-- Behind the length pre-check every unchecked read of a sequence pattern
    (`subject[i]`, `subject[len + (j - n_after)]`, the star slice) is inside the object and
    yields exactly the `UNPACK_EX` split used by CPython — for every length and every
    position of the star. -/
theorem seq_reads_exact (items : List Val) (np nq : Nat) (h : np + nq ≤ items.length) :
    cySeqBefore items np = some (items.take np) ∧
    cySeqAfter items nq = some (items.drop (items.length - nq)) ∧
    cySeqStar items np nq = (items.drop np).take (items.length - nq - np) ∧
    items.take np ++ cySeqStar items np nq ++ items.drop (items.length - nq) = items := by
  refine ⟨cySeqBefore_eq items np (by omega), cySeqAfter_eq items nq (by omega),
    cySeqStar_eq items np nq, ?_⟩
  rw [cySeqStar_eq, List.append_assoc]
  have h2 : (items.drop np).take (items.length - nq - np) ++ items.drop (items.length - nq)
      = items.drop np := by
    have : items.drop (items.length - nq) = (items.drop np).drop (items.length - nq - np) := by
      rw [List.drop_drop]; congr 1; omega
    rw [this, List.take_append_drop]
  rw [h2, List.take_append_drop]

example : cySeqAfter [.lit (.int 1), .lit (.int 2), .lit (.int 3)] 2
    = some [.lit (.int 2), .lit (.int 3)] := by
  simp [cySeqAfter, fetchAll, itemAt, List.range']

/-- **Pattern level** (structural recursion over patterns, any nesting depth): for every
    variant `V` of the source, every class/constant table, every pattern of the fragment
    literal / value / capture / wildcard / as / or / sequence-with-star on which `V` has no known
    deviation (`nice V p`), every subject and every incoming log, Cython's test phase followed by
    its separate assignment phase gives CPython's verdict, CPython's side-effect log, and
    CPython's bindings (up to the order of the stores). -/
theorem pattern_agrees_partial (V : Variant) (T : Tab) (p : Pat) (v : Val) (lg : Log)
    (h : nice V p = true) :
    Agree (cyTest V T p v lg) (cyAssign V T p v) (ref T p v lg) :=
  agree V T p v lg h

/-- **Statement level**: same selected case, same guard / `__eq__` log, same stores case by
    case (captures of a case whose guard fails stay stored), for all subjects and all
    statements whose case patterns are `nice`. -/
theorem match_agrees_partial (V : Variant) (T : Tab) (cs : List Case) (v : Val)
    (h : niceStmt V cs = true) :
    OutAgree (cyStmt V T cs 0 v [] []) (refStmt T cs 0 v [] []) :=
  stmt_agree V T cs 0 v [] [] [] h SegPerm.nil

/-- the full-strength statement for the tree as found -/
def FullMatchEq : Prop :=
  ∀ (T : Tab) (cs : List Case) (v : Val),
    OutAgree (cyStmt Variant.cur T cs 0 v [] []) (refStmt T cs 0 v [] [])

/-- … is false: `case 1 as x` on the subject `True` binds `x = 1` instead of `True`. -/
theorem full_false_as_binds_literal : ¬ FullMatchEq := by
  intro h
  have h1 := h ⟨[], []⟩ [⟨.as (.lit (.int 1)) 0, none⟩] (.lit (.bool true))
  simp [cyStmt, refStmt, cyTest, ref, valueTest, eqv, Lit.pyEq, Lit.asInt?, Lit.isSingleton,
    isValueChain, cyAssignEarly, asLitEarly, chainNames, Variant.cur, OutAgree] at h1
  have h2 := h1.perm
  simp at h2

/-- … and: `case [(1 | _)]` on `[E]` never calls `E.__eq__` (log differs). -/
theorem full_false_or_test_skipped : ¬ FullMatchEq := by
  intro h
  have h1 := h ⟨[], []⟩ [⟨.seq [.or [.lit (.int 1), .wild]] none [], none⟩] (.list [.eobj 3 1])
  simp [cyStmt, refStmt, cyTest, cyTestList, ref, refList, refAlts, valueTest, eqv, Lit.asInt?,
    Lit.isSingleton, isValueChain, Variant.cur, OutAgree, seqItems, seqLenOk, cySeqBefore,
    cySeqAfter, fetchAll, itemAt, List.range', skipTest, irrefutable, anyIrrefutable, maskHead,
    hasTargets] at h1

/-- non-vacuity: a nested pattern with star, or, as and captures is inside the proved domain
    of the current source -/
example : nice Variant.cur
    (.seq [.cap 0, .or [.lit (.int 1), .seq [.const 2] (some none) []]] (some (some 1))
      [.as (.cap 2) 3, .lit (.str 0)]) = true := by
  simp [nice, niceSubs, niceAll, irrefutable, anyIrrefutable, isMA, isValueChain]

/-- non-vacuity of the statement theorem (guards, several cases) -/
example : niceStmt Variant.cur
    [⟨.seq [.cap 0] (some (some 1)) [.lit (.int 3)], some false⟩, ⟨.or [.lit .pynone, .lit (.int 2)], none⟩,
     ⟨.cap 0, none⟩] = true := by
  simp [niceStmt, nice, niceSubs, niceAll, irrefutable, anyIrrefutable, isMA, isValueChain]

end CyVerif.C31

import CyVerif.Lemmas.C25SigEnc
import CyVerif.Lemmas.C25SigFmt
/-!
# C25 (signature part) — the exposed fields and the embedded text determine the source parameter list

`encodeWith s locals` are the fields a compiled function exposes for the
source parameter list `s` (`co_argcount`, `co_posonlyargcount`,
`co_kwonlyargcount`, `co_varnames` followed by other locals, `CO_VARARGS`,
`CO_VARKEYWORDS`, `__defaults__`, `__kwdefaults__`); `decodeParams` is CPython
3.12 `inspect._signature_from_function`.  `fmtArglist` is
`EmbedSignature._fmt_arglist`; `readItems` reads an item list by the Python
grammar.  Signatures of any length; defaults are opaque.
-/
namespace CyVerif.C25Sig

private theorem getElem?_seam {α} (a b : List α) (n : Nat) (h : n = a.length) : (a ++ b)[n]? = b[0]? := by
  subst h; rw [List.getElem?_append_right (Nat.le_refl _)]; simp

/-- Full strength: `inspect._signature_from_function` applied to the fields
exposed for a well-formed source signature (whatever other locals follow in
`co_varnames`) yields exactly the source parameters: same names, kinds, order
and the same default attached to each. -/
theorem decodeParams_encodeWith (s : Sig) (locals : List String) (h : s.WF) :
    decodeParams (encodeWith s locals) = some s.params := by
  obtain ⟨h1, h2⟩ := h
  obtain ⟨hle, p2, hl2, hk⟩ := positional_loops (s.posonly ++ s.normal) s.posonly.length h1
  rw [kinded_split] at hk
  obtain ⟨po, no, va, kw, vk⟩ := s
  simp only at h1 h2 hle hl2 hk
  have hkw := kw_part kw h2
  generalize hP : po ++ no = pos at *
  have hvn : ∀ V : List String,
      List.take pos.length (pos.map (·.name) ++ kw.map (·.name) ++ V) = pos.map (·.name) := by
    intro V; rw [List.append_assoc]; exact List.take_left' (by simp)
  have hvk : ∀ V : List String,
      List.drop pos.length (List.take (pos.length + kw.length) (pos.map (·.name) ++ kw.map (·.name) ++ V))
        = kw.map (·.name) := by
    intro V
    rw [List.take_left' (by simp)]
    exact List.drop_left' (by simp)
  have hnlt : ¬ pos.length < (defaultsOf pos).length := by omega
  unfold decodeParams encodeWith
  cases va with
  | none =>
    cases vk with
    | none =>
      simp only [hP, Option.toList_none, List.append_nil, Option.isSome_none, noneIfEmpty_getD, hnlt,
        if_false, Bool.false_eq_true, Sig.params, List.map_nil, ← hk, List.append_assoc]
      rw [← List.append_assoc (pos.map _), hvn, hvk, hl2]
      simp [hkw]
    | some k =>
      simp only [hP, Option.toList_none, Option.toList_some, List.append_nil, Option.isSome_none,
        Option.isSome_some, noneIfEmpty_getD, hnlt, if_false, if_true, Bool.false_eq_true,
        Sig.params, List.map_nil, ← hk, List.append_assoc]
      rw [← List.append_assoc (pos.map _), hvn, hvk, hl2]
      simp [hkw]
  | some v =>
    cases vk with
    | none =>
      simp only [hP, Option.toList_none, Option.toList_some, List.append_nil, Option.isSome_none,
        Option.isSome_some, noneIfEmpty_getD, hnlt, if_false, if_true, Bool.false_eq_true,
        Sig.params, List.map_nil, ← hk, List.append_assoc]
      rw [← List.append_assoc (pos.map _), hvn, hvk, hl2]
      simp [hkw]
    | some k =>
      simp only [hP, Option.toList_some, Option.isSome_some, noneIfEmpty_getD, hnlt, if_false, if_true,
        Sig.params, ← hk, List.append_assoc]
      rw [← List.append_assoc (pos.map _), hvn, hvk, hl2]
      have h2' : (pos.map (·.name) ++ kw.map (·.name) ++ ([v] ++ ([k] ++ locals)))[pos.length + kw.length + 1]? = some k := by
        rw [← List.append_assoc, getElem?_seam _ _ _ (by simp; omega)]; rfl
      simp only [List.append_assoc, List.cons_append, List.nil_append] at h2'
      simp [hkw, h2']

/-- Grouping the parameter list of a signature by kind gives the signature back. -/
theorem ofParams_params (s : Sig) : ofParams s.params = s := by
  obtain ⟨po, no, va, kw, vk⟩ := s
  have e1 : ∀ (k : Kind) (n : String) (k' : Kind), k' ≠ k →
      pick k [(⟨n, k', none⟩ : Parameter)] = [] := by
    intro k n k' h; simp [pick, h]
  have e2 : ∀ (k : Kind) (n : String), pick k [(⟨n, k, none⟩ : Parameter)] = [⟨n, none⟩] := by
    intro k n; simp [pick]
  cases va <;> cases vk <;>
    simp only [ofParams, Sig.params, pick_append, pick_same, pick_diff, e1, e2, Option.toList_none,
      Option.toList_some, List.map_nil, List.map_cons, List.append_nil, List.nil_append, List.head?_nil,
      List.head?_cons, ne_eq, reduceCtorEq, not_false_eq_true]

/-- Full strength (signatures of any length, any other locals): reading the
exposed fields of a well-formed signature the way `inspect.signature` does
reconstructs the source signature. -/
theorem decode_encodeWith (s : Sig) (locals : List String) (h : s.WF) :
    decode (encodeWith s locals) = some s := by
  simp [decode, decodeParams_encodeWith s locals h, ofParams_params]

theorem decode_encode (s : Sig) (h : s.WF) : decode (encode s) = some s :=
  decode_encodeWith s [] h

/-- Consequence: two well-formed signatures exposing the same fields are equal. -/
theorem encode_injective (s t : Sig) (hs : s.WF) (ht : t.WF) (h : encode s = encode t) : s = t := by
  have := decode_encode s hs
  rw [h, decode_encode t ht] at this
  exact (Option.some.inj this).symm

/-- The statement without the well-formedness hypothesis. -/
def FullNoWF : Prop := ∀ s : Sig, decode (encode s) = some s

/-- It fails for a duplicated keyword-only name (`def f(*, k=d0, k)` — a
SyntaxError in Python source, so it cannot occur): `__kwdefaults__` is keyed by name. -/
theorem not_FullNoWF_dup_kwonly : ¬ FullNoWF := by
  intro h
  have := h ⟨[], [], none, [⟨"k", some "d0"⟩, ⟨"k", none⟩], none⟩
  revert this; decide

/-- It also fails when a positional parameter without default follows one with
a default (`def f(a=d0, b)` — a SyntaxError as well): `__defaults__` is
attached to the LAST positional parameters. -/
theorem not_FullNoWF_default_order :
    decode (encode ⟨[], [⟨"a", some "d0"⟩, ⟨"b", none⟩], none, [], none⟩)
      = some ⟨[], [⟨"a", none⟩, ⟨"b", some "d0"⟩], none, [], none⟩ := by
  decide

/-- non-vacuity: a signature using every feature is well-formed, and round-trips -/
example : (⟨[⟨"a", none⟩, ⟨"b", some "d0"⟩], [⟨"c", some "d1"⟩], some "args",
            [⟨"k", some "d2"⟩, ⟨"m", none⟩, ⟨"n", some "d3"⟩], some "kw"⟩ : Sig).WF := by decide

example : encode ⟨[⟨"a", none⟩, ⟨"b", some "d0"⟩], [⟨"c", some "d1"⟩], some "args",
            [⟨"k", some "d2"⟩, ⟨"m", none⟩, ⟨"n", some "d3"⟩], some "kw"⟩
    = ⟨3, 2, 3, ["a", "b", "c", "k", "m", "n", "args", "kw"], true, true,
       some ["d0", "d1"], some [("k", "d2"), ("n", "d3")]⟩ := by decide

/-! ### the embedded signature text -/

/-- `_fmt_arglist` (insert `'*…'` at `npargs + npoargs`, then `'/'` at
`npoargs`, append `'**…'`) produces the straightforward left-to-right rendering. -/
theorem fmtArglist_eq_fmtSpec (s : Sig) : fmtArglist s = fmtSpec s := by
  obtain ⟨po, no, va, kw, vk⟩ := s
  unfold fmtArglist fmtSpec
  simp only [List.map_append]
  have eP : po.isEmpty = (po.map fun p => SigItem.param p.name p.dflt).isEmpty := by simp
  have eK : kw.isEmpty = (kw.map fun p => SigItem.param p.name p.dflt).isEmpty := by simp
  have lP : po.length = (po.map fun p => SigItem.param p.name p.dflt).length := by simp
  have lN : no.length = (no.map fun p => SigItem.param p.name p.dflt).length := by simp
  have lK : kw.length = (kw.map fun p => SigItem.param p.name p.dflt).length := by simp
  rw [eP, eK, lP, lN, lK]
  generalize po.map (fun p => SigItem.param p.name p.dflt) = P
  generalize no.map (fun p => SigItem.param p.name p.dflt) = N
  generalize kw.map (fun p => SigItem.param p.name p.dflt) = K
  cases va <;> cases vk <;>
    simp only [List.append_assoc, pyInsert_ite, pyInsert_A, pyInsert_B] <;>
    rcases P with _ | ⟨p, P⟩ <;> rcases K with _ | ⟨k, K⟩ <;> simp

/-- In `_fmt_arglist` both insert positions lie inside the list, where Python's
`list.insert` and `List.insertIdx` agree. -/
theorem fmtArglist_insert_in_range (s : Sig) :
    s.normal.length + s.posonly.length ≤ ((s.posonly ++ s.normal ++ s.kwonly).map toItem).length ∧
    s.posonly.length ≤ ((s.posonly ++ s.normal ++ s.kwonly).map toItem).length := by
  simp; omega

/-- Full strength, every signature (no well-formedness needed): a reader of the
rendering by the Python grammar gets the source signature back. -/
theorem readItems_fmtSpec (s : Sig) : readItems (fmtSpec s) = some s := by
  obtain ⟨po, no, va, kw, vk⟩ := s
  have sp := spanParams_map
  unfold fmtSpec readItems
  change ∀ (ps : List Param) (r : List SigItem),
    spanParams (List.map (fun p => SigItem.param p.name p.dflt) ps ++ r) = _ at sp
  have sp0 : ∀ ps : List Param,
      spanParams (List.map (fun p => SigItem.param p.name p.dflt) ps) = (ps, []) := by
    intro ps; have := sp ps []; simpa [spanParams_nil] using this
  by_cases hpo : po = [] <;> by_cases hkw : kw = [] <;> cases va <;> cases vk <;>
    simp [hpo, hkw, sp, sp0, spanParams_nil, spanParams_slash, spanParams_star, spanParams_dstar, List.append_assoc]

/-- Full strength: the embedded argument list of `_fmt_arglist` reads back as the source signature. -/
theorem readItems_fmtArglist (s : Sig) : readItems (fmtArglist s) = some s := by
  rw [fmtArglist_eq_fmtSpec]; exact readItems_fmtSpec s

theorem fmtArglist_injective (s t : Sig) (h : fmtArglist s = fmtArglist t) : s = t := by
  have := readItems_fmtArglist s
  rw [h, readItems_fmtArglist t] at this
  exact (Option.some.inj this).symm

/-- The reader rejects what the Python grammar rejects. -/
example : readItems [.slash, .param "a" none] = none := by decide
example : readItems [.param "a" none, .star none] = none := by decide
example : readItems [.dstar "k", .param "a" none] = none := by decide

example : fmtArglist ⟨[⟨"a", none⟩, ⟨"b", some "d0"⟩], [⟨"c", some "d1"⟩], none, [⟨"k", none⟩], some "kw"⟩
    = [.param "a" none, .param "b" (some "d0"), .slash, .param "c" (some "d1"), .star none,
       .param "k" none, .dstar "kw"] := by decide

end CyVerif.C25Sig

import CyVerif.Model.C32
/-!
# C32 — C function exception declarations propagate errors faithfully
-/
namespace CyVerif.C32

/-- What the property demands: the caller sees the exception iff the body raised and the
declaration allows propagation; a `noexcept` function reports it as unraisable and returns
normally; a normal return is delivered unchanged. -/
def expected (d : Decl) : Body → Obs
  | .ret x => .value x false
  | .raise => if d.excVal.isSome ∨ d.excCheck then .raised else .value 0 true

/-- Full-strength statement over every declaration, sentinel and body outcome. -/
def Full : Prop := ∀ d b, observe d b = expected d b

/-- `except? v`, `except *`, `noexcept`: faithful for every sentinel and every body outcome,
including a legitimate return of the sentinel value. -/
theorem faithful_checked (d : Decl) (b : Body) (h : d.excCheck = true ∨ d.excVal = none) :
    observe d b = expected d b := by
  obtain ⟨ev, ec⟩ := d
  cases b with
  | ret x =>
    rcases h with h | h
    · simp only at h; subst h
      cases ev <;> simp [observe, callee, callerTest, expected]
    · simp only at h; subst h
      cases ec <;> simp [observe, callee, callerTest, expected]
  | raise =>
    cases ev <;> cases ec <;> simp [observe, callee, callerTest, expected]

/-- `except v` (no `?`): faithful whenever the body does not legitimately return the sentinel
(the documented user contract). -/
theorem faithful_except_value_partial (v : Int) (b : Body) (h : b ≠ .ret v) :
    observe { excVal := some v, excCheck := false } b = expected { excVal := some v, excCheck := false } b := by
  cases b with
  | ret x =>
    have hx : x ≠ v := fun e => h (by rw [e])
    simp [observe, callee, callerTest, expected, hx]
  | raise => simp [observe, callee, callerTest, expected]

/-- Counterexample to the full statement: `cdef int f() except -1: return -1` fabricates an error. -/
theorem full_false : ¬ Full := by
  intro h
  have := h { excVal := some (-1), excCheck := false } (.ret (-1))
  revert this; decide

/-- The sentinel is legitimately returnable under `except? v`: neither fabricated nor hidden. -/
theorem sentinel_legit (v : Int) :
    observe { excVal := some v, excCheck := true } (.ret v) = .value v false := by
  simp [observe, callee, callerTest]

theorem noexcept_unraisable : observe { excVal := none, excCheck := false } .raise = .value 0 true := by
  decide

example : (⟨some (-1), true⟩ : Decl).excCheck = true ∨ (⟨some (-1), true⟩ : Decl).excVal = none := Or.inl rfl
example : (Body.ret 5) ≠ .ret (-1) := by decide

end CyVerif.C32

import CyVerif.Model.C27
/-!
# C27 — cpdef calls reach the most-derived override

`dispatch_eq_lookup_partial`: for EVERY hierarchy of Python subclasses (arbitrary MROs), any number
of instances and EVERY history of setting/deleting overrides on classes and instances interleaved
with C-level and Python-level calls, the body that runs is the one Python attribute lookup
selects — provided every class whose dict is mutated has no subclasses (it occurs in no other
class's MRO).  The hypothesis is forced: `full_false` shows that, with the dict-version cache
enabled, an override installed on an *intermediate* base class after a first call is missed.
Without the cache (`useVer = false`, the default on CPython ≥ 3.12) the full statement holds:
`dispatch_eq_lookup_nocache`.
-/
namespace CyVerif.C27

def abs (s : State) : Spec := { cattr := s.cattr, iattr := s.iattr }

/-- Full-strength statement. -/
def Full (useVer : Bool) : Prop :=
  ∀ (mro : Nat → List Nat) (icls : Nat → Nat) (n : Nat) (_ : ∀ o, icls o < n) (ops : List Op),
    run useVer mro icls (init n) ops = specRun mro icls (abs (init n)) ops

/-- A class dict is only mutated if the class has no subclasses. -/
def OpSafe (mro : Nat → List Nat) : Op → Prop
  | .setC k _ => ∀ c, c ≠ k → k ∉ mro c
  | _ => True

structure Inv (mro : Nat → List Nat) (icls : Nat → Nat) (s : State) : Prop where
  cver_le : ∀ k, s.cver k ≤ s.counter
  iver_le : ∀ o, s.iver o ≤ s.counter
  cver_pos : ∀ o, s.cver (icls o) ≠ 0
  cver_inj : ∀ j k, s.cver j = s.cver k → s.cver j ≠ 0 → j = k
  iver_inj : ∀ o p, s.iver o = s.iver p → s.iver o ≠ 0 → o = p
  iver_zero : ∀ o, s.iver o = 0 → s.iattr o = none
  cache_le : ∀ tv ov, s.st.tp = some tv → s.st.obj = some ov → tv ≤ s.counter ∧ ov ≤ s.counter
  cache_ok : ∀ tv ov, s.st.tp = some tv → s.st.obj = some ov →
    ∀ o, s.cver (icls o) = tv → s.iver o = ov → lookup mro icls s.cattr s.iattr o = none

theorem findSome_congr {α} (l : List Nat) (f g : Nat → Option α) (h : ∀ x ∈ l, f x = g x) :
    l.findSome? f = l.findSome? g := by
  induction l with
  | nil => rfl
  | cons a l ih =>
    simp only [List.findSome?_cons]
    rw [h a (by simp)]
    split
    · rfl
    · exact ih (fun x hx => h x (by simp [hx]))

theorem inv_init (mro : Nat → List Nat) (icls : Nat → Nat) (n : Nat) (hn : ∀ o, icls o < n) :
    Inv mro icls (init n) := by
  refine ⟨?_, ?_, ?_, ?_, ?_, ?_, ?_, ?_⟩
  · intro k; simp only [init]; split <;> omega
  · intro o; simp [init]
  · intro o; simp only [init]; have := hn o; simp [this]
  · intro j k h hne; simp only [init] at h hne; split at h <;> split at h <;> simp_all <;> omega
  · intro o p _ hne; simp [init] at hne
  · intro o _; rfl
  · intro tv ov h; simp [init] at h
  · intro tv ov h; simp [init] at h

theorem step_refines (useVer : Bool) (mro : Nat → List Nat) (icls : Nat → Nat) (s : State) (op : Op)
    (hinv : Inv mro icls s) (hsafe : OpSafe mro op) :
    Inv mro icls (step useVer mro icls s op).1 ∧
    abs (step useVer mro icls s op).1 = (specStep mro icls (abs s) op).1 ∧
    (step useVer mro icls s op).2 = (specStep mro icls (abs s) op).2 := by
  cases op with
  | setC k v =>
    simp only [step, specStep, abs]
    by_cases hcv : s.cattr k = v
    · simp only [hcv, if_true]; exact ⟨hinv, trivial, trivial⟩
    · simp only [hcv, if_false]
      refine ⟨?_, trivial, trivial⟩
      have hle := hinv.cver_le
      constructor
      · intro j; have := hle j; simp only [upd]; split <;> omega
      · intro o; have := hinv.iver_le o; simp only; omega
      · intro o; simp only [upd]; split
        · omega
        · exact hinv.cver_pos o
      · intro i j h hne
        simp only [upd] at h hne
        split at h <;> split at h
        · omega
        · have := hle j; omega
        · have := hle i; omega
        · rename_i h1 h2; simp only [h1, if_false] at hne; exact hinv.cver_inj i j h hne
      · exact hinv.iver_inj
      · exact hinv.iver_zero
      · intro tv ov h1 h2; have := hinv.cache_le tv ov h1 h2; simp only; omega
      · intro tv ov h1 h2 o hc hi
        have hb := hinv.cache_le tv ov h1 h2
        simp only [upd] at hc
        have hok : icls o ≠ k := by
          intro heq; simp only [heq, if_true] at hc; omega
        simp only [hok, if_false] at hc
        have hold := hinv.cache_ok tv ov h1 h2 o hc hi
        cases hw : s.iattr o with
        | some w => simp [lookup, hw] at hold
        | none =>
          simp only [lookup, hw] at hold ⊢
          rw [← hold]
          apply findSome_congr
          intro x hx
          simp only [upd]
          split
          · rename_i hxk; subst hxk; exact absurd hx (hsafe (icls o) hok)
          · rfl
  | setI o v =>
    simp only [step, specStep, abs]
    by_cases hcv : s.iattr o = v
    · simp only [hcv, if_true]; exact ⟨hinv, trivial, trivial⟩
    · simp only [hcv, if_false]
      refine ⟨?_, trivial, trivial⟩
      have hle := hinv.iver_le
      constructor
      · intro j; have := hinv.cver_le j; simp only; omega
      · intro p; have := hle p; simp only [upd]; split <;> omega
      · exact hinv.cver_pos
      · exact hinv.cver_inj
      · intro i j h hne
        simp only [upd] at h hne
        split at h <;> split at h
        · omega
        · have := hle j; omega
        · have := hle i; omega
        · rename_i h1 h2; simp only [h1, if_false] at hne; exact hinv.iver_inj i j h hne
      · intro p hp
        simp only [upd] at hp ⊢
        split at hp
        · omega
        · rename_i hpo; simp only [hpo, if_false]; exact hinv.iver_zero p hp
      · intro tv ov h1 h2; have := hinv.cache_le tv ov h1 h2; simp only; omega
      · intro tv ov h1 h2 p hc hi
        have hb := hinv.cache_le tv ov h1 h2
        simp only [upd] at hi
        have hpo : p ≠ o := by
          intro heq; simp only [heq, if_true] at hi; omega
        simp only [hpo, if_false] at hi
        have hold := hinv.cache_ok tv ov h1 h2 p hc hi
        unfold lookup at hold ⊢
        simp only [upd, hpo, if_false]
        exact hold
  | tick =>
    refine ⟨?_, rfl, rfl⟩
    simp only [step]
    constructor
    · intro j; have := hinv.cver_le j; simp only; omega
    · intro j; have := hinv.iver_le j; simp only; omega
    · exact hinv.cver_pos
    · exact hinv.cver_inj
    · exact hinv.iver_inj
    · exact hinv.iver_zero
    · intro tv ov h1 h2; have := hinv.cache_le tv ov h1 h2; simp only; omega
    · exact hinv.cache_ok
  | callPy o => exact ⟨hinv, rfl, rfl⟩
  | callC o =>
    simp only [step, specStep, abs]
    cases useVer with
    | false => exact ⟨hinv, rfl, rfl⟩
    | true =>
      simp only [if_true]
      split
      · rename_i hhit
        refine ⟨hinv, rfl, ?_⟩
        rw [hinv.cache_ok _ _ hhit.1 hhit.2 o rfl rfl]; rfl
      · split
        · rename_i v hv
          exact ⟨hinv, rfl, by rw [hv]; rfl⟩
        · rename_i hv
          refine ⟨?_, rfl, by rw [hv]; rfl⟩
          constructor
          · exact hinv.cver_le
          · exact hinv.iver_le
          · exact hinv.cver_pos
          · exact hinv.cver_inj
          · exact hinv.iver_inj
          · exact hinv.iver_zero
          · intro tv ov h1 h2
            simp only [Option.some.injEq] at h1 h2
            subst h1; subst h2
            exact ⟨hinv.cver_le _, hinv.iver_le _⟩
          · intro tv ov h1 h2 p hc hi
            simp only [Option.some.injEq] at h1 h2
            subst h1; subst h2
            have hcls : icls p = icls o := hinv.cver_inj _ _ hc (hinv.cver_pos p)
            -- lookup o = none: instance attr none and chain none
            unfold lookup at hv ⊢
            have hio : s.iattr o = none := by
              cases h : s.iattr o with
              | none => rfl
              | some w => simp [h] at hv
            simp only [hio] at hv
            have hip : s.iattr p = none := by
              by_cases hz : s.iver p = 0
              · exact hinv.iver_zero p hz
              · have := hinv.iver_inj p o hi hz; subst this; exact hio
            simp only [hip, hcls]
            exact hv

/-- **Main theorem (all hierarchies, all histories), partial:** mutated classes have no subclasses. -/
theorem dispatch_eq_lookup_partial (useVer : Bool) (mro : Nat → List Nat) (icls : Nat → Nat)
    (ops : List Op) (s : State) (hinv : Inv mro icls s) (hsafe : ∀ op ∈ ops, OpSafe mro op) :
    run useVer mro icls s ops = specRun mro icls (abs s) ops := by
  induction ops generalizing s with
  | nil => rfl
  | cons op ops ih =>
    have h := step_refines useVer mro icls s op hinv (hsafe op (by simp))
    simp only [run, specRun]
    rw [h.2.2, ← h.2.1]
    congr 1
    exact ih _ h.1 (fun op' h' => hsafe op' (by simp [h']))

/-- Without the dict-version cache every C-level call does the attribute lookup: full strength. -/
theorem dispatch_eq_lookup_nocache (mro : Nat → List Nat) (icls : Nat → Nat) (ops : List Op) (s : State) :
    run false mro icls s ops = specRun mro icls (abs s) ops := by
  induction ops generalizing s with
  | nil => rfl
  | cons op ops ih =>
    simp only [run, specRun]
    have : (step false mro icls s op).2 = (specStep mro icls (abs s) op).2 ∧
        abs (step false mro icls s op).1 = (specStep mro icls (abs s) op).1 := by
      cases op with
      | setC k v => simp only [step, specStep, abs]; by_cases hc : s.cattr k = v <;> simp [hc]
      | setI o v => simp only [step, specStep, abs]; by_cases hc : s.iattr o = v <;> simp [hc]
      | tick => simp [step, specStep, abs]
      | callC o => simp [step, specStep, abs]
      | callPy o => simp [step, specStep, abs]
    rw [this.1, ← this.2]
    congr 1
    exact ih _

theorem full_nocache : Full false := fun mro icls _n _ ops => dispatch_eq_lookup_nocache mro icls ops _

/-- Counterexample with the cache: `class B(A)`, `class C(B)`, `c = C()`; a C-level call caches
"not overridden" under C's dict version; then `B.meth = f`; the next C-level call still runs A's body. -/
theorem full_false : ¬ Full true := by
  intro h
  have := h (fun c => if c = 1 then [1, 0] else [c]) (fun _ => 1) 2 (by intro _; decide)
    [.callC 0, .setC 0 (some 5), .callC 0, .callPy 0]
  revert this; decide

/-- Depth-one hierarchies (every Python class derives directly from the extension type): no
side condition is needed. -/
theorem dispatch_eq_lookup_depth1 (useVer : Bool) (icls : Nat → Nat) (ops : List Op) (n : Nat)
    (hn : ∀ o, icls o < n) :
    run useVer (fun c => [c]) icls (init n) ops = specRun (fun c => [c]) icls (abs (init n)) ops := by
  apply dispatch_eq_lookup_partial _ _ _ _ _ (inv_init _ _ n hn)
  intro op _
  cases op <;> simp only [OpSafe]
  intro c hc; simp; exact fun h => hc h.symm

/-- Non-vacuity: a history with class and instance overrides, deletions, cache hits and misses. -/
example : run true (fun c => [c]) (fun o => o % 2) (init 2)
    [.callC 0, .callC 0, .setC 0 (some 7), .callC 0, .callC 2, .callC 1, .setC 0 none, .callC 0,
     .setI 0 (some 9), .callC 0, .callC 2, .setI 0 none, .callC 0]
    = [.cbody, .cbody, .done, .override 7, .override 7, .cbody, .done, .cbody,
       .done, .override 9, .cbody, .done, .cbody] := by decide

end CyVerif.C27

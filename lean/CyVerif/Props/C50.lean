import CyVerif.Lemmas.C50ScanE
import CyVerif.Lemmas.C50BuildM
import CyVerif.Lemmas.C50TMapH
/-!
# C50 — Plex: the lexer engine recognises exactly its regular-expression rules

Layers: (L1) `TransitionMap` refines a function *code ↦ state set*; (L3) `nfa_to_dfa` is the subset
construction (epsilon closure, simulation for all words, highest-priority action); (L4) the scanning
loop returns the longest accepted prefix of the event stream; composition L3+L4.
Definitions used in the statements: `CyVerif/Model/C50*.lean` (model), `Lemmas/C50*.lean`
(`TMap.WF`, `specChr`, `Run`, `runDfa`, `AcceptsK`, `evStream`, `eventsOf`, `charsOf`).
-/
namespace CyVerif.C50
open CyVerif.C46 (Reach)

/-! ## L1 — `TransitionMap` -/

/-- **Representation invariant**, for ALL sequences of `add`/`add_set` with event codes between the
sentinels: `code_0 = -maxint`, `code_n = maxint`, codes strictly increasing, every entry a set. -/
theorem tmap_inv (ops : List TOp) (hb : ∀ op ∈ ops, op.InBounds) : (runOps ops).WF :=
  (runOps_from ops TMap.empty TMap.empty_wf hb).1

/-- **Lookup semantics**, for ALL operation sequences: the state set stored for character code `c` is
the point-wise specification (`specChr`: every operation whose range contains `c` updated the set). -/
theorem tmap_lookup (ops : List TOp) (hb : ∀ op ∈ ops, op.InBounds) (c : Int) (hc : c < maxint) :
    (runOps ops).lookup c = specChr ops c [] := by
  have := (runOps_from ops TMap.empty TMap.empty_wf hb).2.1 c hc
  rw [TMap.empty_lookup] at this
  exact this

/-- special events (`''`, `bol`, `eol`, `eof`) likewise -/
theorem tmap_lookup_special (ops : List TOp) (hb : ∀ op ∈ ops, op.InBounds) (k : Sp) :
    (runOps ops).lookupSp k = specSp ops k [] :=
  (runOps_from ops TMap.empty TMap.empty_wf hb).2.2 k

/-- `lookup` is the intended reading of the boundary list: the set of the interval `code_k ≤ c < code_k+1`. -/
theorem tmap_lookup_interval (m : TMap) (h : m.WF) (k : Nat) (hk : k < m.ents.length) (c : Int)
    (h1 : m.codeAt k ≤ c) (h2 : c < m.codeAt (k + 1)) : m.lookup c = m.setAt k :=
  m.lookup_interval h hk h1 h2

/-- `items()` enumerates the lookup function: a state is a target on code `c` iff some range item
covers `c` and contains it; special items are exactly the non-empty special entries. -/
theorem tmap_items (m : TMap) (h : m.WF) (c : Int) (h1 : -maxint ≤ c) (h2 : c < maxint) (t : Nat) (k : Sp) :
    ((∃ c0 c1 S, (Ev.range c0 c1, S) ∈ m.items ∧ c0 ≤ c ∧ c < c1 ∧ t ∈ S) ↔ t ∈ m.lookup c) ∧
    ((∃ S, (Ev.sp k, S) ∈ m.items ∧ t ∈ S) ↔ t ∈ m.lookupSp k) :=
  ⟨m.items_cover h h1 h2 t, m.items_cover_sp h k t⟩

/-- one `add` seen as a function update (the step behind `tmap_lookup`) -/
theorem tmap_add (m : TMap) (h : m.WF) (c0 c1 : Int) (s : Nat) (hb : (Ev.range c0 c1).InBounds) (c : Int)
    (hc : c < maxint) :
    (m.add (.range c0 c1) s).lookup c = if c0 ≤ c ∧ c < c1 then sins s (m.lookup c) else m.lookup c :=
  (m.addWith_range h (sins s) (fun _ hs => sins_sorted hs) c0 c1 hb.1 hb.2.1 hb.2.2.1 hb.2.2.2).2.1 c hc

/-- non-vacuity: a concrete overlapping history satisfies the hypotheses; its lookup at 'b' is {1,2,3} -/
example : (runOps [.add (.range 97 99) 1, .addSet (.range 98 100) [2, 3], .add (.sp .eps) 4]).lookup 98 = [1, 2, 3] := by
  rw [tmap_lookup _ (by simp [TOp.InBounds, Ev.InBounds, maxint]) 98 (by decide)]
  decide

/-! ## L3 — epsilon closure and subset construction -/

/-- `epsilon_closure(state)` is exactly the set of states reachable by epsilon moves (whenever the
model's recursion fuel `|states|+1` suffices, i.e. whenever the call returns). -/
theorem eps_closure_is_reach (n : NFA) (s : Nat) (R : SSet) (h : epsClosure n s = some R) :
    Sorted R ∧ (∀ x, x ∈ R ↔ Reach n.eps s x) ∧ EpsClosed n R :=
  ⟨(epsClosure_spec n s R h).1, (epsClosure_spec n s R h).2, epsClosure_closed n s R h⟩

/-- **Simulation, for ALL NFAs and ALL words.** If `nfa_to_dfa` returns machine `sm`, then from the
initial state `q` named `name` the DFA, after reading any word `w` of input symbols, is blocked or in a
state `q'`, and the old-state set of `q'` (empty if blocked) is exactly the set of NFA states reachable
from the NFA's initial state of that name by `w`. -/
theorem dfa_simulates_nfa (n : NFA) (hn : n.WF) (he : n.EndsAgree) (fuel : Nat) (sm : SMap)
    (hr : nfaToDfa n fuel = .ok sm) (name : String) (q : Nat) (hq : lookupInit name sm.inits = some q)
    (w : List CurChar) (hw : ∀ x ∈ w, ValidSym x) :
    ∃ s, (name, s) ∈ n.inits ∧ ∀ u, u ∈ sm.keyOf (runDfa sm.states (some q) w) ↔ Run n s w u := by
  obtain ⟨inv, hi⟩ := nfaToDfa_spec n hn he fuel sm hr
  obtain ⟨hlt, s, hs, hkey⟩ := hi name q hq
  refine ⟨s, hs, fun u => ?_⟩
  rw [((dfa_simulates inv w hw) q hlt).2 u]
  constructor
  · rintro ⟨s', hs', hrun⟩
    exact Run.of_reach ((hkey s').1 hs') hrun
  · intro hrun
    exact ⟨s, (hkey s).2 (.refl _), hrun⟩

/-- **Action of a DFA state** = `highest_priority_action` of its old-state set: `None` iff no old state
has a priority above `LOWEST_PRIORITY`, else the action of an old state of maximal priority. -/
theorem dfa_action_highest_priority (n : NFA) (hn : n.WF) (he : n.EndsAgree) (fuel : Nat) (sm : SMap)
    (hr : nfaToDfa n fuel = .ok sm) (q : Nat) (hq : q < sm.states.length) :
    ((dstate sm.states q).action = none ∧ ∀ s ∈ sm.key q, (n.node s).prio ≤ -maxint) ∨
    (∃ s ∈ sm.key q, (dstate sm.states q).action = (n.node s).action ∧ (n.node s).prio > -maxint ∧
      ∀ s' ∈ sm.key q, (n.node s').prio ≤ (n.node s).prio) := by
  obtain ⟨inv, _⟩ := nfaToDfa_spec n hn he fuel sm hr
  rw [inv.action q hq]
  exact highestPriorityAction_spec n (sm.key q)

/-! ## L4 — the scanning loop -/

/-- the symbol stream the scanner walks over is the event stream of the text: BOL at the start of every
line, EOL before every newline and after the last line, then EOF -/
theorem scanner_event_stream (text : List Nat) :
    evStream text Cursor.init = eventsOf text ∧ charsOf (eventsOf text) = text :=
  ⟨evStream_init text, charsOf_eventsOf text⟩

/-- **Longest match over ANY machine and ANY text.** `run_machine_inlined`, started in state `q` at cursor
`c`, returns action `a` and backs up to the cursor after `k` symbols iff the prefix of length `k` of the
remaining symbol stream is the LONGEST prefix that leads to an accepting state, `a` being that state's
action; it returns `None` iff no prefix (not even the empty one) is accepted. -/
theorem scanner_longest (d : Dfa) (text : List Nat) (q : Nat) (c : Cursor) :
    (∀ a c', runLoop d text q c none = (some a, c') →
      ∃ k, AcceptsK d q (evStream text c) k a ∧ (∀ k' a', AcceptsK d q (evStream text c) k' a' → k' ≤ k) ∧
        c' = nextN text k c) ∧
    (∀ c', runLoop d text q c none = (none, c') →
      (∀ k a, ¬ AcceptsK d q (evStream text c) k a) ∧ c' = nextN text (travLen d q (evStream text c)) c) :=
  runLoop_longest d text q c

/-- **`scan_a_token` returns the longest match**: the token text is the characters of the longest accepted
prefix of the event stream, the action is the action of the state reached, the scanner continues after it. -/
theorem scan_token_longest (fix : Bool) (d : Dfa) (text : List Nat) (q : Nat) (c : Cursor) (hc : CursorOK text c)
    (t : List Nat) (a : Nat) (c' : Cursor) (h : scanToken fix d text q c = .tok t a c') :
    ∃ k, AcceptsK d q (evStream text c) k a ∧ (∀ k' a', AcceptsK d q (evStream text c) k' a' → k' ≤ k) ∧
      c' = nextN text k c ∧ t = charsOf ((evStream text c).take k) ∧ CursorOK text c' :=
  scanToken_tok fix d text q c hc t a c' h

/-- a token is returned whenever some prefix (possibly empty) is accepted -/
theorem scan_token_complete (fix : Bool) (d : Dfa) (text : List Nat) (q : Nat) (c : Cursor)
    (k a : Nat) (hacc : AcceptsK d q (evStream text c) k a) :
    ∃ t a' c', scanToken fix d text q c = .tok t a' c' :=
  scanToken_some fix d text q c k a hacc

/-- **Unmatched input is an error**: no accepted prefix while characters remain raises `UnrecognizedInput`. -/
theorem scan_unmatched_error (fix : Bool) (d : Dfa) (text : List Nat) (q : Nat) (c : Cursor) (hc : CursorOK text c)
    (hrem : c.curPos < text.length) (hno : ∀ k a, ¬ AcceptsK d q (evStream text c) k a) :
    scanToken fix d text q c = .unrecognized :=
  scanToken_unmatched fix d text q c hc hrem hno

/-- Full statement about the end of the input: after the last line (`input_state == 4`, `cur_char` is the
implicit EOL), a machine that can neither accept nor consume that EOL reports end of file. -/
def FullEndOfInput (fix : Bool) : Prop :=
  ∀ (d : Dfa) (text : List Nat) (q : Nat) (c : Cursor), CursorOK text c → c.inputState = 4 →
    (dstate d q).step .eol = none → (dstate d q).action = none → ∃ c', scanToken fix d text q c = .eof c'

theorem state4_loop (d : Dfa) (text : List Nat) (q : Nat) (c : Cursor) (hc : CursorOK text c) (h4 : c.inputState = 4)
    (hs : (dstate d q).step .eol = none) (ha : (dstate d q).action = none) :
    runLoop d text q c none = (none, c) ∧ c.curChar = .eol := by
  have hce : c.curChar = .eol := by
    rcases hc with ⟨h1, _⟩ | ⟨h1, _⟩ | ⟨h1, _⟩ | ⟨h1, _⟩ | ⟨_, h2, _⟩ | ⟨h1, _⟩
    all_goals first | exact h2 | (rw [h4] at h1; cases h1)
  refine ⟨?_, hce⟩
  rw [runLoop_spec]
  unfold loopResult
  rw [evStream_eq text c]
  simp [hce, bestK, hs, ha, travLen, nextN]

/-- with the proposed repair (model variant `eolFix = true`) the full statement holds -/
theorem end_of_input_fixed : FullEndOfInput true := by
  intro d text q c hc h4 hs ha
  obtain ⟨hl, hce⟩ := state4_loop d text q c hc h4 hs ha
  unfold scanToken
  rw [hl]
  simp [hce, h4]

/-- the cursor after the only line `a` has been consumed -/
def witnessCursor : Cursor := ⟨1, 1, 0, .eol, 4, 1⟩

/-- the DFA of `Lexicon([(Str("a"), 0)])` -/
def witnessDfa : Dfa :=
  [⟨[(97, 98, 1)], none, some 2, none, none, none⟩, ⟨[], none, none, none, none, some 0⟩,
   ⟨[(97, 98, 1)], none, none, none, none, none⟩]

/-- **Counterexample on the code as it exists** (`eolFix = false`): `Lexicon([(Str("a"), "A")])` at the end of
the text `a` raises `UnrecognizedInput` instead of reporting end of file. Replayed on the real scanner. -/
theorem end_of_input_counterexample : ¬ FullEndOfInput false := by
  intro h
  have ok : CursorOK [97] witnessCursor := by
    right; right; right; right; left; simp [witnessCursor]
  obtain ⟨c', hc'⟩ := h witnessDfa [97] 0 witnessCursor ok rfl rfl rfl
  obtain ⟨hl, _⟩ := state4_loop witnessDfa [97] 0 witnessCursor ok rfl rfl rfl
  unfold scanToken at hc'
  rw [hl] at hc'
  simp [witnessCursor] at hc'

example : CursorOK [97] witnessCursor := by
  right; right; right; right; left; simp [witnessCursor]

/-- **Restricted theorem for the code as it exists** (either variant): if the machine consumes the implicit
EOL of the last line (the excluded point of `FullEndOfInput false` is exactly a machine that cannot) and then
blocks on EOF without accepting, end of file is reported. -/
theorem end_of_input_partial (fix : Bool) (d : Dfa) (text : List Nat) (q q1 : Nat) (c : Cursor)
    (hc : CursorOK text c) (h4 : c.inputState = 4)
    (hs : (dstate d q).step .eol = some q1) (hs1 : (dstate d q1).step .eof = none)
    (ha : (dstate d q).action = none) (ha1 : (dstate d q1).action = none) :
    ∃ c', scanToken fix d text q c = .eof c' := by
  have hce : c.curChar = .eol := by
    rcases hc with ⟨h1, _⟩ | ⟨h1, _⟩ | ⟨h1, _⟩ | ⟨h1, _⟩ | ⟨_, h2, _⟩ | ⟨h1, _⟩
    all_goals first | exact h2 | (rw [h4] at h1; cases h1)
  have hl : runLoop d text q c none = (none, nextChar text c) := by
    rw [runLoop_spec]
    unfold loopResult
    rw [evStream_eq text c]
    have hne : c.curChar ≠ .empty := by rw [hce]; simp
    simp only [hne, if_false]
    rw [evStream_eq text (nextChar text c)]
    have h5 : (nextChar text c).curChar = .eof := by simp [nextChar, h4]
    have hcc : ¬ (CurChar.eof = CurChar.empty) := by simp
    simp only [h5, hce, hcc, if_false, bestK, hs, hs1, ha, ha1, travLen, nextN, Option.map_none]
  unfold scanToken
  rw [hl]
  have h5 : (nextChar text c).curChar = .eof := by simp [nextChar, h4]
  have hp : (nextChar text c).curPos = c.curPos := by simp [nextChar, h4]
  simp [h5, hp]

/-- non-vacuity of `end_of_input_partial`: the machine of `Lexicon([(Eol, 0)])`-like shape -/
example : ∃ c', scanToken false
    [⟨[], none, none, some 1, none, none⟩, ⟨[], none, none, none, none, none⟩] [97] 0 witnessCursor = .eof c' :=
  end_of_input_partial false _ [97] 0 1 witnessCursor
    (by right; right; right; right; left; simp [witnessCursor]) rfl rfl rfl rfl rfl

/-! ## Composition L3 + L4: the scanner against the NFA -/

/-- the prefix `p` is accepted by the NFA with action `a`: some state reachable by `p` is accepting, and `a`
is the action of the reachable state of highest priority -/
def NfaAccepts (n : NFA) (s0 : Nat) (p : List CurChar) (a : Nat) : Prop :=
  ∃ u, Run n s0 p u ∧ (n.node u).action = some a ∧ (n.node u).prio > -maxint ∧
    ∀ u', Run n s0 p u' → (n.node u').prio ≤ (n.node u).prio

/-- accepting states have pairwise different priorities (true for `Lexicon`: priority = - token number) -/
def PrioInj (n : NFA) : Prop :=
  ∀ u u', (n.node u).prio = (n.node u').prio → (n.node u).prio > -maxint → u = u'

/-- **DFA acceptance = NFA acceptance with the highest-priority action**, for all prefixes. -/
theorem dfa_accepts_iff_nfa (n : NFA) (hn : n.WF) (he : n.EndsAgree) (hp : PrioInj n) (fuel : Nat) (sm : SMap)
    (hr : nfaToDfa n fuel = .ok sm) (name : String) (q s0 : Nat) (hq : lookupInit name sm.inits = some q)
    (hs0 : ∀ s, (name, s) ∈ n.inits → s = s0)
    (evs : List CurChar) (hev : ∀ x ∈ evs, ValidSym x) (k a : Nat) (hk : k ≤ evs.length) :
    AcceptsK sm.states q evs k a ↔ NfaAccepts n s0 (evs.take k) a := by
  have hvalid : ∀ x ∈ evs.take k, ValidSym x := fun x hx => hev x (List.mem_of_mem_take hx)
  obtain ⟨s, hs, hsim⟩ := dfa_simulates_nfa n hn he fuel sm hr name q hq (evs.take k) hvalid
  have := hs0 s hs
  subst this
  obtain ⟨inv, hi⟩ := nfaToDfa_spec n hn he fuel sm hr
  obtain ⟨hlt, _⟩ := hi name q hq
  obtain ⟨hrange, _⟩ := (dfa_simulates inv (evs.take k) hvalid) q hlt
  constructor
  · rintro ⟨_, qk, hrun, hact⟩
    rw [hrun] at hsim
    rcases dfa_action_highest_priority n hn he fuel sm hr qk (hrange qk hrun) with ⟨h1, _⟩ | ⟨u, hu, h1, h2, h3⟩
    · rw [h1] at hact; cases hact
    · refine ⟨u, (hsim u).1 hu, by rw [← h1]; exact hact, h2, fun u' hu' => h3 u' ((hsim u').2 hu')⟩
  · rintro ⟨u, hrun, hact, hprio, hmax⟩
    cases hd : runDfa sm.states (some q) (evs.take k) with
    | none =>
      rw [hd] at hsim
      have := (hsim u).2 hrun
      cases this
    | some qk =>
      rw [hd] at hsim
      refine ⟨hk, qk, hd, ?_⟩
      rcases dfa_action_highest_priority n hn he fuel sm hr qk (hrange qk hd) with ⟨_, h2⟩ | ⟨u2, hu2, h1, h2, h3⟩
      · have := h2 u ((hsim u).2 hrun); omega
      · have e1 := h3 u ((hsim u).2 hrun)
        have e2 := hmax u2 ((hsim u2).1 hu2)
        have : u2 = u := hp u2 u (by omega) h2
        rw [h1, this]; exact hact

/-! ## L2 — regular expressions → NFA -/

/-- **`build_machine` realises the reference semantics** (`RE.Sem`, the denotational semantics over the
event alphabet), for EVERY RE (RawCodeRange, RawNewline, SpecialSymbol, Seq, Alt, Rep1, SwitchCase and
everything composed of them: Char, Str, Any, AnyBut, Range, Opt, Rep, Bol, Eol, Eof, Empty, NoCase, Case),
both flags, every machine and every pair of distinct existing states: the edges added between `i`, `f` and
fresh states spell exactly `r.Sem mb nc` (certificate: soundness labelling + completeness paths). -/
theorem build_machine_correct (r : RE) (hb : r.InBounds) (m : NFA) (i f : Nat) (mb nc : Bool) (hp : Pre m i f) :
    Nonempty (BuildCert m (r.build m i f mb nc) i f (r.Sem mb nc)) :=
  RE.build_cert r hb m i f mb nc hp

/-- **The NFA of a (single-state) `Lexicon`**: rule `k` has its own final state with action `k` and priority
`-(k+1)`, no other state is accepting, and for ALL words of input symbols the NFA reaches that final state
from the initial state iff the word is in the reference language of rule `k`. -/
theorem lexicon_nfa_correct (rules : List Rule) (hok : RulesOK rules) (hsmall : (rules.length : Int) + 1 < maxint) :
    (lexiconNfa rules).WF ∧ (lexiconNfa rules).inits = [("", 0)] ∧
    ∃ finals : List Nat, finals.length = rules.length ∧
      (∀ k (hk : k < finals.length), ((lexiconNfa rules).node finals[k]).action = some k ∧
        ((lexiconNfa rules).node finals[k]).prio = -((k : Int) + 1)) ∧
      (∀ s, s ∉ finals → ((lexiconNfa rules).node s).action = none ∧ ((lexiconNfa rules).node s).prio = -maxint) ∧
      (∀ j k (hj : j < finals.length) (hk : k < finals.length), finals[j] = finals[k] → j = k) ∧
      (∀ k (hk : k < finals.length) (hk' : k < rules.length) (w : List CurChar), (∀ x ∈ w, ValidSym x) →
        (Run (lexiconNfa rules) 0 w finals[k] ↔ rules[k].re.Sem true false w)) := by
  obtain ⟨Fs, ⟨lc⟩, la, hmap⟩ := lexiconNfa_cert rules hok hsmall
  have hlen : Fs.length = rules.length := by
    have := congrArg List.length hmap; simpa using this
  refine ⟨lc.wf, la.inits, Fs.map (·.1), by simpa using hlen, ?_, ?_, ?_, ?_⟩
  · intro k hk
    have hk' : k < Fs.length := by simpa using hk
    simpa using la.fin k hk'
  · intro s hs
    apply la.other
    intro p hp e
    exact hs (by rw [e]; exact List.mem_map.2 ⟨p, hp, rfl⟩)
  · intro j k hj hk e
    have hj' : j < Fs.length := by simpa using hj
    have hk' : k < Fs.length := by simpa using hk
    exact la.inj j k hj' hk' (by simpa using e)
  · intro k hk hk' w hv
    have hkf : k < Fs.length := by simpa using hk
    have h2 : Fs[k].2 = rules[k].re.Sem true false := by
      have := congrArg (fun l => l[k]?) hmap
      simp only [List.getElem?_map, List.getElem?_eq_getElem hkf, List.getElem?_eq_getElem hk', Option.map_some,
        Option.some.injEq] at this
      exact this
    have := lc.run_iff Fs[k] (List.getElem_mem hkf) w hv
    rw [h2] at this
    simpa using this

/-- rule `a` is the EARLIEST rule whose language contains `p` -/
def RuleMatches (rules : List Rule) (p : List CurChar) (a : Nat) : Prop :=
  ∃ h : a < rules.length, rules[a].re.Sem true false p ∧
    ∀ j (hj : j < a), ¬ (rules[j]'(Nat.lt_trans hj h)).re.Sem true false p

/-- **Ties → earliest rule**: the NFA accepts `p` with (highest-priority) action `a` iff `a` is the earliest
rule matching `p`. -/
theorem nfa_accepts_iff_earliest_rule (rules : List Rule) (hok : RulesOK rules) (hsmall : (rules.length : Int) + 1 < maxint)
    (p : List CurChar) (hv : ∀ x ∈ p, ValidSym x) (a : Nat) :
    NfaAccepts (lexiconNfa rules) 0 p a ↔ RuleMatches rules p a := by
  obtain ⟨_, _, finals, hlen, hfin, hother, hinj, hrun⟩ := lexicon_nfa_correct rules hok hsmall
  constructor
  · rintro ⟨u, hr, hact, hprio, hmax⟩
    have hu : u ∈ finals := by
      by_cases hm : u ∈ finals
      · exact hm
      · have := (hother u hm).2; omega
    obtain ⟨k, hk, rfl⟩ := List.getElem_of_mem hu
    have hka := (hfin k hk).1
    rw [hact] at hka
    simp only [Option.some.injEq] at hka
    subst hka
    have hk' : a < rules.length := by omega
    refine ⟨hk', (hrun a hk hk' p hv).1 hr, ?_⟩
    intro j hj hsem
    have hjf : j < finals.length := by omega
    have hrj := (hrun j hjf (by omega) p hv).2 hsem
    have := hmax _ hrj
    rw [(hfin j hjf).2, (hfin a hk).2] at this
    omega
  · rintro ⟨ha, hsem, hmin⟩
    have hk : a < finals.length := by omega
    refine ⟨finals[a], (hrun a hk ha p hv).2 hsem, (hfin a hk).1, by rw [(hfin a hk).2]; omega, ?_⟩
    intro u' hr'
    rw [(hfin a hk).2]
    by_cases hm : u' ∈ finals
    · obtain ⟨j, hj, rfl⟩ := List.getElem_of_mem hm
      rw [(hfin j hj).2]
      by_cases hja : j < a
      · exact absurd ((hrun j hj (by omega) p hv).1 hr') (hmin j hja)
      · omega
    · rw [(hother u' hm).2]; omega

/-- the lexicon NFA has pairwise different priorities on its accepting states -/
theorem lexicon_prio_inj (rules : List Rule) (hok : RulesOK rules) (hsmall : (rules.length : Int) + 1 < maxint) :
    PrioInj (lexiconNfa rules) := by
  obtain ⟨_, _, finals, hlen, hfin, hother, hinj, _⟩ := lexicon_nfa_correct rules hok hsmall
  intro u u' he hp
  have mem : ∀ v, ((lexiconNfa rules).node v).prio > -maxint → v ∈ finals := by
    intro v hv
    by_cases hm : v ∈ finals
    · exact hm
    · have := (hother v hm).2; omega
  obtain ⟨j, hj, rfl⟩ := List.getElem_of_mem (mem u hp)
  obtain ⟨k, hk, rfl⟩ := List.getElem_of_mem (mem u' (by rw [← he]; exact hp))
  rw [(hfin j hj).2, (hfin k hk).2] at he
  have : j = k := by omega
  subst this; rfl

/-! ## End to end: lexicon → scanner -/

/-- **End-to-end corollary (L2 ∘ L3 ∘ L4).** For every single-state lexicon, whenever `nfa_to_dfa` returns,
for every text and every consistent scanner position: `scan_a_token` returns `(text, rule a)` iff the
characters are those of the LONGEST prefix of the remaining event stream that is in the reference language
of some rule, and `a` is the EARLIEST rule whose language contains that prefix. Hypothesis `EndsAgree`
(`states_0 == states_n-1` in every NFA node) is what `FastMachine.add_transitions` relies on. -/
theorem lexicon_scanner_correct (rules : List Rule) (hok : RulesOK rules) (hsmall : (rules.length : Int) + 1 < maxint)
    (he : (lexiconNfa rules).EndsAgree) (fuel : Nat) (sm : SMap) (hr : nfaToDfa (lexiconNfa rules) fuel = .ok sm)
    (q0 : Nat) (hq : lookupInit "" sm.inits = some q0)
    (fix : Bool) (text : List Nat) (ht : ∀ ch ∈ text, (ch : Int) < maxint) (c : Cursor) (hc : CursorOK text c) :
    (∀ t a c', scanToken fix sm.states text q0 c = .tok t a c' →
      ∃ k, k ≤ (evStream text c).length ∧ RuleMatches rules ((evStream text c).take k) a ∧
        (∀ k' a', k' ≤ (evStream text c).length → RuleMatches rules ((evStream text c).take k') a' → k' ≤ k) ∧
        t = charsOf ((evStream text c).take k) ∧ c' = nextN text k c) ∧
    ((∃ k a, k ≤ (evStream text c).length ∧ RuleMatches rules ((evStream text c).take k) a) →
      ∃ t a c', scanToken fix sm.states text q0 c = .tok t a c') ∧
    ((∀ k a, k ≤ (evStream text c).length → ¬ RuleMatches rules ((evStream text c).take k) a) →
      c.curPos < text.length → scanToken fix sm.states text q0 c = .unrecognized) := by
  obtain ⟨hwf, hinits, _⟩ := lexicon_nfa_correct rules hok hsmall
  have hpi := lexicon_prio_inj rules hok hsmall
  have hev := evStream_valid text ht c hc
  have hs0 : ∀ s, ("", s) ∈ (lexiconNfa rules).inits → s = 0 := by
    intro s hs; rw [hinits] at hs; simpa using hs
  have key : ∀ k a, k ≤ (evStream text c).length →
      (AcceptsK sm.states q0 (evStream text c) k a ↔ RuleMatches rules ((evStream text c).take k) a) := by
    intro k a hk
    rw [dfa_accepts_iff_nfa _ hwf he hpi fuel sm hr "" q0 0 hq hs0 _ hev k a hk]
    exact nfa_accepts_iff_earliest_rule rules hok hsmall _ (fun x hx => hev x (List.mem_of_mem_take hx)) a
  refine ⟨?_, ?_, ?_⟩
  · intro t a c' h
    obtain ⟨k, acc, mx, hc', ht', _⟩ := scan_token_longest fix sm.states text q0 c hc t a c' h
    exact ⟨k, acc.1, (key k a acc.1).1 acc, fun k' a' hk' hm => mx k' a' ((key k' a' hk').2 hm), ht', hc'⟩
  · rintro ⟨k, a, hk, hm⟩
    exact scan_token_complete fix sm.states text q0 c k a ((key k a hk).2 hm)
  · intro hno hrem
    apply scan_unmatched_error fix sm.states text q0 c hc hrem
    intro k a hacc
    exact hno k a hacc.1 ((key k a hacc.1).1 hacc)

/-- rules of the default state whose REs use only finite code ranges (everything except `AnyBut`/`AnyChar`) -/
def RulesFinite (rules : List Rule) : Prop := ∀ r ∈ rules, r.state = "" ∧ r.re.Finite

/-- `EndsAgree` is not an assumption for lexicons without `AnyBut`/`AnyChar`: it is proved. -/
theorem lexicon_ends_agree_finite (rules : List Rule) (hok : RulesFinite rules) : (lexiconNfa rules).EndsAgree := by
  have e0 : ((NFA.empty.newInitialState "").1).EndsAgree := by
    intro s
    have : ((NFA.empty.newInitialState "").1).node s = Node.new := by
      show (NFA.empty.newState.1).node s = Node.new
      rw [newState_node, nfaEmpty_node]
    rw [this]
    unfold TMap.EndsAgree
    rw [show Node.new.trans = TMap.empty from rfl, TMap.empty_lookup, TMap.empty_lookup]
  exact addRules_ends rules _ [] none 1 hok lexCertInit e0

/-- **End to end without the `EndsAgree` hypothesis**, for lexicons with finite code ranges. -/
theorem lexicon_scanner_correct_finite (rules : List Rule) (hok : RulesFinite rules) (hsmall : (rules.length : Int) + 1 < maxint)
    (fuel : Nat) (sm : SMap) (hr : nfaToDfa (lexiconNfa rules) fuel = .ok sm)
    (q0 : Nat) (hq : lookupInit "" sm.inits = some q0)
    (fix : Bool) (text : List Nat) (ht : ∀ ch ∈ text, (ch : Int) < maxint) (c : Cursor) (hc : CursorOK text c)
    (t : List Nat) (a : Nat) (c' : Cursor) (h : scanToken fix sm.states text q0 c = .tok t a c') :
    ∃ k, k ≤ (evStream text c).length ∧ RuleMatches rules ((evStream text c).take k) a ∧
      (∀ k' a', k' ≤ (evStream text c).length → RuleMatches rules ((evStream text c).take k') a' → k' ≤ k) ∧
      t = charsOf ((evStream text c).take k) ∧ c' = nextN text k c :=
  (lexicon_scanner_correct rules (fun r hr' => ⟨(hok r hr').1, RE.finite_inBounds r.re (hok r hr').2⟩) hsmall
    (lexicon_ends_agree_finite rules hok) fuel sm hr q0 hq fix text ht c hc).1 t a c' h

/-- non-vacuity: `Lexicon([(Str("ab"), 0), (Rep1(Any("a")), 1)])` satisfies `RulesFinite` -/
example : RulesFinite [⟨"", .ret 0, mkStr1 [97, 98]⟩, ⟨"", .ret 1, .rep1 (mkAny false [97])⟩] := by
  intro r hr
  simp only [List.mem_cons, List.not_mem_nil, or_false] at hr
  rcases hr with rfl | rfl
  · refine ⟨rfl, ?_⟩
    simp [mkStr1, mkChar, codeRange, REs.ofList, RE.Finite, REs.Finite, Ev.Finite, maxint]
  · refine ⟨rfl, ?_⟩
    simp [mkAny, charsToRanges, sortNat, insSorted, rangesOfSorted, extendRange, codeRanges, codeRange, REs.ofList,
      RE.Finite, REs.Finite, Ev.Finite, maxint]

end CyVerif.C50

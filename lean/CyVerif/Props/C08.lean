import CyVerif.Lemmas.C08Laws
/-!
# C08 — property theorems: `Complex.c` (`CYTHON_CCOMPLEX=0`) against CPython 3.12 `complexobject.c`.

Every theorem quantifies over EVERY type `F` and EVERY interpretation `o : FOps F` of the float
operations (so in particular over IEEE doubles with signed zeros, infinities and NaNs), using only the
named law structures.  Counterexamples are on hardware doubles (`floatOps`, Lean's kernel model of
binary64).  `CYTHON_CCOMPLEX=1` has no theorem: it is the C compiler's `_Complex` arithmetic.
-/
namespace CyVerif.C08

variable {F : Type}

/-! ## `+ - * unary- conjugate ==`: the same expression trees (no law needed) -/

theorem sum_eq (o : FOps F) (a b : Cx F) : cySum o a b = pySum o a b := rfl
theorem diff_eq (o : FOps F) (a b : Cx F) : cyDiff o a b = pyDiff o a b := rfl
theorem prod_eq (o : FOps F) (a b : Cx F) : cyProd o a b = pyProd o a b := rfl
theorem neg_eq (o : FOps F) (a : Cx F) : cyNeg o a = pyNeg o a := rfl
theorem conj_eq (o : FOps F) (a : Cx F) : cyConj o a = pyConj o a := rfl
theorem eq_eq (o : FOps F) (a b : Cx F) : cyEq o a b = pyEq o a b := rfl

/-! ## zero-division decision -/

theorem absLt_not_lt (o : FOps F) (L : OrderLaws o) (x : F) : o.lt (absLt o x) o.zero = false := by
  unfold absLt
  by_cases h : o.lt x o.zero = true
  · simp [h, L.lt_neg_zero x h]
  · simp at h; simp [h]

theorem absLt_eq_zero (o : FOps F) (L : OrderLaws o) (x : F) : o.eq (absLt o x) o.zero = o.eq x o.zero := by
  unfold absLt
  by_cases h : o.lt x o.zero = true
  · simp [h, L.eq_neg_zero]
  · simp at h; simp [h]

/-- CPython's test `abs_breal >= abs_bimag && abs_breal == 0.0` is Cython's `b.real == 0 && b.imag == 0` -/
theorem zero_test_eq (o : FOps F) (L : OrderLaws o) (b : Cx F) :
    (o.le (absLt o b.im) (absLt o b.re) && o.eq (absLt o b.re) o.zero) = cyIsZero o b := by
  unfold cyIsZero
  rw [absLt_eq_zero o L b.re]
  by_cases hr : o.eq b.re o.zero = true
  · by_cases hi : o.eq b.im o.zero = true
    · have h1 := L.le_of_eq_zero (absLt o b.im) (absLt o b.re)
        (by rw [absLt_eq_zero o L]; exact hi) (by rw [absLt_eq_zero o L]; exact hr)
      simp [hr, hi, h1]
    · simp at hi
      by_cases hle : o.le (absLt o b.im) (absLt o b.re) = true
      · have h2 := L.eq_zero_of_le _ _ hle (by rw [absLt_eq_zero o L]; exact hr) (absLt_not_lt o L b.im)
        rw [absLt_eq_zero o L] at h2
        simp [h2] at hi
      · simp at hle; simp [hr, hi, hle]
  · simp at hr; simp [hr]

/-- CPython raises ZeroDivisionError (`errno = EDOM`) exactly when `__Pyx_c_is_zero(b)` -/
theorem py_edom_iff (o : FOps F) (L : OrderLaws o) (a b : Cx F) :
    ((pyQuot o a b).2 = Errno.edom) ↔ cyIsZero o b = true := by
  have hz := zero_test_eq o L b
  unfold pyQuot pyQuotG
  by_cases h1 : o.le (absLt o b.im) (absLt o b.re) = true
  · by_cases h2 : o.eq (absLt o b.re) o.zero = true
    · simp [h1, h2] at hz ⊢; exact hz
    · simp at h2; simp [h1, h2] at hz ⊢; exact hz
  · simp at h1
    simp [h1] at hz ⊢
    constructor
    · intro h; split at h <;> simp at h
    · intro h; rw [h] at hz; simp at hz

/-- FULL (both variants of `__Pyx_c_quot`): with `cdivision=False` the compiled `/` raises
ZeroDivisionError exactly when Python's complex division does -/
theorem zero_division_decision (v : QuotVariant) (o : FOps F) (L : OrderLaws o) (a b : Cx F) :
    cyDivNode v false o a b = .err "ZeroDivisionError" ↔ pyDiv o a b = .err "ZeroDivisionError" := by
  have h := py_edom_iff o L a b
  unfold cyDivNode pyDiv
  by_cases hz : cyIsZero o b = true
  · have he := h.mpr hz
    simp [hz]
    split <;> simp_all
  · have he : ¬ (pyQuot o a b).2 = Errno.edom := fun e => hz (h.mp e)
    simp at hz
    simp [hz]

/-- with `cdivision=True` nothing is raised -/
theorem cdivision_never_raises (v : QuotVariant) (o : FOps F) (a b : Cx F) :
    cyDivNode v true o a b = .ok (cyQuot v o a b) := by
  simp [cyDivNode]


/-! ## `/` : the quotient itself -/

/-- FULL for the ported text: `__Pyx_c_quot` = `_Py_c_quot` whenever CPython does not raise
(no law needed: the same tree) -/
theorem quot_ported_eq (o : FOps F) (a b : Cx F) (h : (pyQuot o a b).2 ≠ Errno.edom) :
    cyQuot .ported o a b = (pyQuot o a b).1 := by
  unfold cyQuot cyQuotPorted pyQuot pyQuotG at *
  by_cases h1 : o.le (absLt o b.im) (absLt o b.re) = true
  · by_cases h2 : o.eq (absLt o b.re) o.zero = true
    · simp [h1, h2] at h
    · simp at h2; simp [h1, h2]
  · simp at h1
    by_cases h3 : o.le (absLt o b.re) (absLt o b.im) = true
    · simp [h1, h3]
    · simp at h3; simp [h1, h3]

/-- FULL for the ported text: compiled `a / b` with `cdivision=False` = Python's `a / b`,
value or ZeroDivisionError, for every operand -/
theorem div_ported_full (o : FOps F) (L : OrderLaws o) (a b : Cx F) :
    cyDivNode .ported false o a b = pyDiv o a b := by
  have hd := py_edom_iff o L a b
  by_cases hz : cyIsZero o b = true
  · have he := hd.mpr hz
    unfold cyDivNode pyDiv
    simp [hz]
    split <;> simp_all
  · have he : (pyQuot o a b).2 ≠ Errno.edom := fun e => hz (hd.mp e)
    have hq := quot_ported_eq o a b he
    simp at hz
    unfold cyDivNode pyDiv
    simp [hz, hq]

/-- the statement the property asks for, on hardware doubles -/
def FullDivDoubles (v : QuotVariant) : Prop :=
  ∀ a b : Cx Float, cyDivNode v false floatOps a b = pyDiv floatOps a b

/-- PARTIAL (pinned text): outside the `b.imag == 0` shortcut and for comparable `|b.real|`, `|b.imag|`
(no NaN in `b`), `__Pyx_c_quot` is CPython's algorithm with every final `x / denom` replaced by
`x * (1.0 / denom)`: same branch, same ratio, same numerators, same denominator -/
theorem quot_pinned_structure_partial (o : FOps F) (C : CommLaws o) (A : AbsLaws o) (L : OrderLaws o) (a b : Cx F)
    (him : o.eq b.im o.zero = false)
    (hcmp : (o.le (absLt o b.im) (absLt o b.re) || o.le (absLt o b.re) (absLt o b.im)) = true) :
    cyQuot .pinned o a b = (pyQuotG o (fun x d => o.mul x (o.div o.one d)) a b).1 := by
  unfold cyQuot cyQuotPinned pyQuotG
  simp only [him, Bool.false_eq_true, ↓reduceIte, Bool.and_false]
  rw [A.le_abs b.re b.im]
  by_cases h1 : o.le (absLt o b.im) (absLt o b.re) = true
  · by_cases h2 : o.eq (absLt o b.re) o.zero = true
    · -- then b.im would be zero too: excluded
      exfalso
      have hz := zero_test_eq o L b
      simp [h1, h2, cyIsZero, him] at hz
    · simp at h2; simp [h1, h2]
  · simp at h1
    simp [h1] at hcmp
    simp [h1, hcmp, C.add_comm b.im]


/-- a complex double from two bit patterns -/
def cx (re im : UInt64) : Cx Float := ⟨f64 re, f64 im⟩

/-- COUNTEREXAMPLE (pinned text, real doubles): `1.5j / (1+1.5j)`: last bit of the real part
(`x * (1.0 / denom)` rounds twice) -/
theorem quot_pinned_rounding_witness :
    cyDivNode .pinned false floatOps (cx 0 0x3FF8000000000000) (cx 0x3FF0000000000000 0x3FF8000000000000)
      ≠ pyDiv floatOps (cx 0 0x3FF8000000000000) (cx 0x3FF0000000000000 0x3FF8000000000000) := by
  decide

/-- COUNTEREXAMPLE (pinned text): `(-0.0+1j) / (1+0j)`: the `b.imag == 0` shortcut keeps `-0.0`,
CPython's `(a.real + a.imag * ratio) / denom` gives `+0.0` -/
theorem quot_pinned_zero_sign_witness :
    cyDivNode .pinned false floatOps (cx 0x8000000000000000 0x3FF0000000000000) (cx 0x3FF0000000000000 0)
      ≠ pyDiv floatOps (cx 0x8000000000000000 0x3FF0000000000000) (cx 0x3FF0000000000000 0) := by
  decide

/-- COUNTEREXAMPLE (pinned text): `(inf+infj) / (1+0j)` is `inf+infj` compiled, `nan+nanj` in Python -/
theorem quot_pinned_inf_witness :
    cyDivNode .pinned false floatOps (cx 0x7FF0000000000000 0x7FF0000000000000) (cx 0x3FF0000000000000 0)
      = .ok (cx 0x7FF0000000000000 0x7FF0000000000000)
    ∧ (match pyDiv floatOps (cx 0x7FF0000000000000 0x7FF0000000000000) (cx 0x3FF0000000000000 0) with
       | .ok q => q.re.isNaN && q.im.isNaN
       | .err _ => false) = true := by
  decide

theorem not_full_div_pinned : ¬ FullDivDoubles .pinned :=
  fun h => quot_pinned_rounding_witness (h _ _)

/-- the ported text meets the full statement on doubles, given the four order facts about `Float` -/
theorem full_div_ported (L : OrderLaws floatOps) : FullDivDoubles .ported :=
  fun a b => div_ported_full floatOps L a b

/-- non-vacuity of `quot_pinned_structure_partial`'s hypotheses: `b = 3+1j` on doubles -/
example : floatOps.eq (cx 0x4008000000000000 0x3FF0000000000000).im floatOps.zero = false
    ∧ (floatOps.le (absLt floatOps (f64 0x3FF0000000000000)) (absLt floatOps (f64 0x4008000000000000))
        || floatOps.le (absLt floatOps (f64 0x4008000000000000)) (absLt floatOps (f64 0x3FF0000000000000))) = true := by
  decide

/-- the integer-complex variant (textbook formula) overflows in `c*c + d*d`: `1j / (1e308+1e308j)` is `0j`
where Smith's method (both other texts, and Python) gives ... also `0j` by overflow of `denom`; the textbook
formula differs at `(1+1j) / (1e200+1e200j)`: `0j` against `1e-200+0j` -/
theorem quot_naive_overflow_witness :
    cyQuotNaive floatOps (cx 0x3FF0000000000000 0x3FF0000000000000) (cx 0x6974E718D7D7625A 0x6974E718D7D7625A)
      = cx 0 0
    ∧ (pyQuot floatOps (cx 0x3FF0000000000000 0x3FF0000000000000) (cx 0x6974E718D7D7625A 0x6974E718D7D7625A)).1
      = cx 0x16687E92154EF7AC 0 := by
  decide


/-! ## `abs()` -/

/-- PARTIAL (needs the `hypot` text of `__Pyx_c_abs`): the value CPython's `_Py_c_abs` computes is
`hypot(re, im)` for every operand, given C99's special cases of `hypot` -/
theorem abs_hypot_value_eq (o : FOps F) (H : HypotLaws o) (z : Cx F) :
    (pyCAbs o z).1 = cyAbs true o z := by
  unfold pyCAbs cyAbs
  by_cases h1 : o.isInf z.re = true
  · simp [h1, H.hypot_inf_left z.re z.im h1]
  · simp at h1
    by_cases h2 : o.isInf z.im = true
    · simp [h1, h2, H.hypot_inf_right z.re z.im h2]
    · simp at h2
      by_cases h3 : (o.isNaN z.re || o.isNaN z.im) = true
      · have := H.hypot_nan z.re z.im h3 h1 h2
        simp at h3
        rcases h3 with h3 | h3 <;> simp [h1, h2, h3, this]
      · simp at h3
        simp [h1, h2, h3]
        split <;> rfl

/-- so whenever Python's `abs(z)` returns, it returns `hypot(re, im)`; when it raises OverflowError the
compiled code returns that non-finite `hypot` value instead (no exception: listed finding) -/
theorem abs_hypot_ok (o : FOps F) (H : HypotLaws o) (z : Cx F) (r : F) (h : pyAbs o z = .ok r) :
    r = cyAbs true o z := by
  have hv := abs_hypot_value_eq o H z
  unfold pyAbs at h
  split at h
  · simp at h
  · rename_i r' e heq
    simp at h
    rw [← hv, heq, h]

/-- COUNTEREXAMPLE family (the `sqrt(re*re + im*im)` text, which is what is compiled when pyconfig.h
does not define HAVE_HYPOT): for an infinite real part and a NaN imaginary part the compiled `abs()` is NaN
where CPython returns infinity -/
theorem abs_sqrt_variant_inf_nan (o : FOps F) (N : NanLaws o) (z : Cx F)
    (hre : o.isInf z.re = true) (him : o.isNaN z.im = true) :
    o.isNaN (cyAbs false o z) = true ∧ o.isInf (pyCAbs o z).1 = true := by
  constructor
  · simp [cyAbs]
    exact N.sqrt_nan _ (N.add_nan_right _ _ (N.mul_nan _ him))
  · simp [pyCAbs, hre, N.abs_inf _ hre]

/-! ## conversion from Python objects -/

/-- FULL: `__Pyx_PyComplex_As_<T>` takes the two doubles from the same source, or fails with the same
exception, as `PyComplex_AsCComplex`, for every object -/
theorem conv_eq (x : PyObj) : cyAsComplex x = pyAsCComplex x := by
  unfold cyAsComplex pyAsCComplex
  by_cases h : x.exactComplex = true <;> simp [h]

/-- the fallback order: `__complex__` beats `__float__` beats `__index__` -/
theorem conv_order (x : PyObj) (hc : x.exactComplex = false) (hs : x.complexSub = false) :
    (x.mComplex = .exact → cyAsComplex x = .ok .complexMeth)
    ∧ (x.mComplex = .absent → x.isFloat = false → x.mFloat = .exact → cyAsComplex x = .ok .floatMeth)
    ∧ (x.mComplex = .absent → x.isFloat = false → x.mFloat = .absent → x.mIndex = .exact → cyAsComplex x = .ok .indexMeth)
    ∧ (x.mComplex = .absent → x.isFloat = false → x.mFloat = .absent → x.mIndex = .absent → cyAsComplex x = .err "TypeError") := by
  refine ⟨?_, ?_, ?_, ?_⟩ <;> intros <;> simp_all [cyAsComplex, pyAsCComplex, pyFloatAsDouble]


/-! ## `**` -/

/-- what "the exponent is the small integer `k`" means for both algorithms, in terms of the abstract
operations (Cython: `b.imag == 0 && b.real == (int)b.real`, `(int)b.real == k`; CPython:
`b.imag == 0.0 && b.real == floor(b.real) && fabs(b.real) <= 100.0`, `(long)b.real == k`) -/
structure IsIntExp (o : FOps F) (b : Cx F) (k : Int) : Prop where
  im0 : o.eq b.im o.zero = true
  cast : o.truncInt b.re = k
  back : o.eq b.re (o.ofInt k) = true
  flr : o.eq b.re (o.floor b.re) = true
  small : o.le (o.abs b.re) o.hundred = true
  nonneg : o.lt b.re o.zero = false

theorem pyPowU_zero (o : FOps F) (x : Cx F) : pyPowU o x 0 = ⟨o.one, o.zero⟩ := by
  simp [pyPowU, pyPowU.go]

theorem pyPowU_one (o : FOps F) (x : Cx F) : pyPowU o x 1 = pyProd o ⟨o.one, o.zero⟩ x := by
  simp [pyPowU, pyPowU.go]

theorem pyPowU_two (o : FOps F) (x : Cx F) : pyPowU o x 2 = pyProd o ⟨o.one, o.zero⟩ (pyProd o x x) := by
  simp [pyPowU, pyPowU.go]

/-- `(1+0j) / (1+0j)` in CPython's algorithm is `1+0j` -/
theorem pyQuot_one_one (o : FOps F) (K : ConstLaws o) :
    pyQuot o ⟨o.one, o.zero⟩ ⟨o.one, o.zero⟩ = (⟨o.one, o.zero⟩, Errno.none) := by
  simp [pyQuot, pyQuotG, absLt, K.lt_one_zero, K.lt_zero_zero, K.le_zero_one, K.eq_one_zero, K.div_zero_one,
    K.mul_zero_zero, K.mul_one_zero, K.add_one_zero, K.sub_zero_zero, K.div_one_one]

/-- PARTIAL-class theorem (exponent `0`, any base including NaN and infinity, both `abs` texts):
compiled `a ** 0` and Python's agree: `1+0j` -/
theorem pow_exp_zero_eq (hh : Bool) (o : FOps F) (K : ConstLaws o) (a b : Cx F) (E : IsIntExp o b 0) :
    pyPow o a b = .ok (cyPow hh o a b) := by
  have hc : cyPow hh o a b = ⟨o.one, o.zero⟩ := by
    simp [cyPow, cyPowCore, E.im0, E.cast, E.back, E.nonneg]
  have hp : pyPowIsInt o b = true := by simp [pyPowIsInt, E.im0, E.flr, E.small]
  rw [hc]
  simp [pyPow, hp, E.cast, pyPowI, pyPowU_zero, pyQuot_one_one o K, K.inf_one, K.inf_zero]

/-- multiplying by `1+0j` the way `c_powu` does (`r = _Py_c_prod(c_1, p)`) returns `p` when both parts of `p`
are finite and non-zero -/
theorem prod_one_left (o : FOps F) (U : UnitLaws o) (p : Cx F)
    (hre : o.eq p.re o.zero = false) (him : o.eq p.im o.zero = false)
    (fre : o.isInf p.re = false ∧ o.isNaN p.re = false) (fim : o.isInf p.im = false ∧ o.isNaN p.im = false) :
    pyProd o ⟨o.one, o.zero⟩ p = p := by
  simp [pyProd, U.one_mul, U.sub_zero p.re _ (U.zero_mul p.im fim.1 fim.2) hre,
    U.add_zero p.im _ (U.zero_mul p.re fre.1 fre.2) him]

/-- PARTIAL (exponent `1`): for a base whose parts are finite and non-zero, compiled `a ** 1` = Python's.
The excluded bases are exactly where the full statement fails (witnesses below). -/
theorem pow_exp_one_partial (hh : Bool) (o : FOps F) (U : UnitLaws o) (a b : Cx F) (E : IsIntExp o b 1)
    (hre : o.eq a.re o.zero = false) (him : o.eq a.im o.zero = false)
    (fre : o.isInf a.re = false ∧ o.isNaN a.re = false) (fim : o.isInf a.im = false ∧ o.isNaN a.im = false) :
    pyPow o a b = .ok (cyPow hh o a b) := by
  have hc : cyPow hh o a b = a := by
    simp [cyPow, cyPowCore, E.im0, E.cast, E.back, E.nonneg]
  have hp : pyPowIsInt o b = true := by simp [pyPowIsInt, E.im0, E.flr, E.small]
  rw [hc]
  simp [pyPow, hp, E.cast, pyPowI, pyPowU_one, prod_one_left o U a hre him fre fim, fre.1, fim.1]

/-- PARTIAL (exponent `2`): if both parts of `a*a` are finite and non-zero, compiled `a ** 2` = Python's -/
theorem pow_exp_two_partial (hh : Bool) (o : FOps F) (U : UnitLaws o) (a b : Cx F) (E : IsIntExp o b 2)
    (hre : o.eq (cyProd o a a).re o.zero = false) (him : o.eq (cyProd o a a).im o.zero = false)
    (fre : o.isInf (cyProd o a a).re = false ∧ o.isNaN (cyProd o a a).re = false)
    (fim : o.isInf (cyProd o a a).im = false ∧ o.isNaN (cyProd o a a).im = false) :
    pyPow o a b = .ok (cyPow hh o a b) := by
  have hc : cyPow hh o a b = cyProd o a a := by
    simp [cyPow, cyPowCore, E.im0, E.cast, E.back, E.nonneg]
  have hp : pyPowIsInt o b = true := by simp [pyPowIsInt, E.im0, E.flr, E.small]
  have hpp : pyProd o a a = cyProd o a a := rfl
  rw [hc]
  simp [pyPow, hp, E.cast, pyPowI, pyPowU_two, hpp, prod_one_left o U (cyProd o a a) hre him fre fim, fre.1, fim.1]


/-- the statement the property asks for `**`, on hardware doubles (any `abs` text) -/
def FullPowDoubles (hh : Bool) : Prop :=
  ∀ a b : Cx Float, pyPow floatOps a b = .ok (cyPow hh floatOps a b)

/-- COUNTEREXAMPLE: `0j ** 1j` raises ZeroDivisionError in Python; `__Pyx_c_pow` returns `0j` -/
theorem pow_zero_base_witness (hh : Bool) :
    pyPow floatOps (cx 0 0) (cx 0 0x3FF0000000000000) = .err "ZeroDivisionError"
    ∧ cyPow hh floatOps (cx 0 0) (cx 0 0x3FF0000000000000) = cx 0 0 := by
  cases hh <;> decide

/-- COUNTEREXAMPLE: `complex(-0.0, -5e-324) ** 1`: `c_powu` multiplies by `1+0j` and loses the sign of the zero -/
theorem pow_one_zero_sign_witness (hh : Bool) :
    pyPow floatOps (cx 0x8000000000000000 0x8000000000000001) (cx 0x3FF0000000000000 0) = .ok (cx 0 0x8000000000000001)
    ∧ cyPow hh floatOps (cx 0x8000000000000000 0x8000000000000001) (cx 0x3FF0000000000000 0)
        = cx 0x8000000000000000 0x8000000000000001 := by
  cases hh <;> decide

/-- COUNTEREXAMPLE: `complex(inf, 0) ** 1` raises OverflowError in Python; compiled: `inf+0j` -/
theorem pow_one_inf_witness (hh : Bool) :
    pyPow floatOps (cx 0x7FF0000000000000 0) (cx 0x3FF0000000000000 0) = .err "OverflowError"
    ∧ cyPow hh floatOps (cx 0x7FF0000000000000 0) (cx 0x3FF0000000000000 0) = cx 0x7FF0000000000000 0 := by
  cases hh <;> decide

/-- COUNTEREXAMPLE: `(1+1.5j) ** -2`: Cython inverts first (`a / |a|^2`, then squares), CPython squares first
and divides `1 / a**2`: the real parts differ in the last bits -/
theorem pow_neg_two_rounding_witness (hh : Bool) :
    pyPow floatOps (cx 0x3FF0000000000000 0x3FF8000000000000) (cx 0xC000000000000000 0)
      = .ok (cx 0xBFBE4BBD595F6E94 0xBFD22D719C060F26)
    ∧ cyPow hh floatOps (cx 0x3FF0000000000000 0x3FF8000000000000) (cx 0xC000000000000000 0)
      = cx 0xBFBE4BBD595F6E96 0xBFD22D719C060F26 := by
  cases hh <;> decide +kernel

theorem not_full_pow (hh : Bool) : ¬ FullPowDoubles hh := by
  intro h
  have := h (cx 0 0) (cx 0 0x3FF0000000000000)
  rw [(pow_zero_base_witness hh).1] at this
  simp at this

/-- non-vacuity: the exponents `0.0`, `1.0`, `2.0` (imaginary part `0.0` or `-0.0`) satisfy `IsIntExp` on doubles,
and `1.5+2j` satisfies the hypotheses on the base of `pow_exp_one_partial` / `pow_exp_two_partial` -/
example : IsIntExp floatOps (cx 0 0x8000000000000000) 0 := by constructor <;> decide
example : IsIntExp floatOps (cx 0x3FF0000000000000 0) 1 := by constructor <;> decide
example : IsIntExp floatOps (cx 0x4000000000000000 0) 2 := by constructor <;> decide
example : floatOps.eq (cx 0x3FF8000000000000 0x4000000000000000).re floatOps.zero = false
    ∧ floatOps.isInf (cyProd floatOps (cx 0x3FF8000000000000 0x4000000000000000) (cx 0x3FF8000000000000 0x4000000000000000)).re = false
    ∧ floatOps.eq (cyProd floatOps (cx 0x3FF8000000000000 0x4000000000000000) (cx 0x3FF8000000000000 0x4000000000000000)).im floatOps.zero = false := by
  decide
/-- non-vacuity of `abs_sqrt_variant_inf_nan` and of the zero-division theorems on doubles -/
example : floatOps.isInf (cx 0x7FF0000000000000 0x7FF8000000000000).re = true
    ∧ floatOps.isNaN (cx 0x7FF0000000000000 0x7FF8000000000000).im = true := by decide
example : cyDivNode .pinned false floatOps (cx 0x3FF0000000000000 0) (cx 0x8000000000000000 0) = .err "ZeroDivisionError"
    ∧ pyDiv floatOps (cx 0x3FF0000000000000 0) (cx 0x8000000000000000 0) = .err "ZeroDivisionError" := by decide

end CyVerif.C08

import CyVerif.Lemmas.C10EscMain
import CyVerif.Lemmas.C10Cat
import CyVerif.Lemmas.C10E2E
/-!
# C10 — string and bytes literals keep their exact values

Part A: the value `p_string_literal` builds for a literal body is the value CPython gives
the same body (all kinds, all bodies).  Part B: the module string table rebuilt at import
time is the list of strings it was generated from, through the C literal (C11), the LZSS
stream (C12) and every branch of the `CYTHON_COMPRESS_STRINGS` chain.
-/
namespace CyVerif.C10

/-! ## Part A — literal bodies -/

/-- **Literal values (full strength).**  For every scanner parameter set satisfying `WF`,
every Unicode-name lookup that does not know the empty name, every literal kind (`u''`,
unprefixed, `b''`, `c''`, f-string literal part), raw or not, and EVERY body: if Cython's
scanner + `p_string_literal` + `_append_escape_sequence` + literal builders accept the
literal, CPython accepts it too and gives it exactly the same value. -/
theorem literal_value_sound (P : LexP) (hP : P.WF) (lk : Lookup) (hlk : lk [] = .missing)
    (k : Kind) (raw : Bool) (body : List Nat) (v : LitVal)
    (h : cyDecode P lk k raw body = .ok v) :
    ∃ w, v.value k = some w ∧ refDecode lk k raw body = .ok w :=
  escape_sound P hP lk hlk k raw body v h

/-- The scanner parameters of the pinned tree satisfy `WF`. -/
theorem pinnedLex_wf : pinnedLex.WF := by decide

/-- a small lookup table used in the examples -/
def exLookup : Lookup := fun nm =>
  if nm = [66, 85, 76, 76, 69, 84] then .code 0x2022          -- BULLET
  else if nm = [65, 49] then .code 0x4E00                       -- a name with a digit
  else .missing

/-- non-vacuity: `'a\x41€\N{BULLET}\q\101\n'` is accepted, with the value
`aA€•\qA<newline>` -/
example : cyDecode pinnedLex exLookup .s false
    [97, 92, 120, 52, 49, 92, 117, 50, 48, 97, 99, 92, 78, 123, 66, 85, 76, 76, 69, 84, 125, 92, 113,
     92, 49, 48, 49, 92, 110] =
    .ok ⟨some [97, 65, 92, 117, 50, 48, 97, 99, 92, 78, 123, 66, 85, 76, 76, 69, 84, 125, 92, 113, 65, 10],
         some [97, 65, 0x20AC, 0x2022, 92, 113, 65, 10]⟩ := by decide +kernel

example : cyDecode pinnedLex exLookup .b false [92, 120, 102, 102, 92, 117, 49, 92, 48] =
    .ok ⟨some [255, 92, 117, 49, 0], none⟩ := by decide +kernel

/-- Full agreement would also need: whatever CPython accepts, Cython accepts. -/
def Complete (P : LexP) (lk : Lookup) : Prop :=
  ∀ k raw body w, refDecode lk k raw body = .ok w → ∃ v, cyDecode P lk k raw body = .ok v

/-- That is FALSE on the current tree: the unprefixed literal `'\400'` (CPython: `'Ā'`) makes
`BytesLiteralBuilder.append_charval` raise `UnicodeEncodeError` … -/
theorem reject_octal_above_377 :
    refDecode exLookup .s false [92, 52, 48, 48] = .ok [256] ∧
    cyDecode pinnedLex exLookup .s false [92, 52, 48, 48] = .err "UnicodeEncodeError" := by
  decide +kernel

/-- … and a `\N{…}` name containing a digit (here the name `A1` of the example lookup; in
Unicode e.g. `CJK UNIFIED IDEOGRAPH-4E00`) is not matched by the scanner's `N{…}` rule
(`[a-zA-Z -]` only) and ends as "Unknown Unicode character name". -/
theorem reject_name_with_digit :
    refDecode exLookup .u false [92, 78, 123, 65, 49, 125] = .ok [0x4E00] ∧
    cyDecode pinnedLex exLookup .u false [92, 78, 123, 65, 49, 125] = .err "CompileError" := by
  decide +kernel

/-- The same two literals under repaired parameters (digits allowed in names; `append_charval`
keeps the low 8 bits on the byte side): both are accepted with CPython's value, and
`literal_value_sound` covers these parameters as well (`repairedLex.WF`). -/
def repairedLex : LexP := ⟨pinnedLex.nameCh ++ (List.range 10).map (· + 48), true⟩

theorem repairedLex_wf : repairedLex.WF := by decide

example : cyDecode repairedLex exLookup .s false [92, 52, 48, 48] = .ok ⟨some [0], some [256]⟩ ∧
    cyDecode repairedLex exLookup .u false [92, 78, 123, 65, 49, 125] = .ok ⟨none, some [0x4E00]⟩ ∧
    cyDecode repairedLex exLookup .b false [92, 55, 55, 55] = .ok ⟨some [255], none⟩ ∧
    refDecode exLookup .b false [92, 55, 55, 55] = .ok [255] := by decide +kernel

theorem not_complete : ¬ Complete pinnedLex exLookup := by
  intro h
  obtain ⟨v, hv⟩ := h .s false [92, 52, 48, 48] [256] reject_octal_above_377.1
  rw [reject_octal_above_377.2] at hv
  cases hv

/-- **Implicit concatenation.**  `p_cat_string_literal` accepts a sequence of adjacent
literals only if CPython does, with the same resulting kind and the concatenated value. -/
theorem concatenation_sound (parts : List (CK × List Nat)) (r : CK × List Nat)
    (h : cyCat parts = .ok r) : refCat parts = .ok r := cat_sound parts r h

example : cyCat [(.u, [97]), (.f, [98]), (.u, [])] = .ok (.f, [97, 98]) := by decide
example : cyCat [(.b, [0]), (.b, [255, 0])] = .ok (.b, [0, 255, 0]) := by decide
example : cyCat [(.u, [97]), (.b, [98])] = .err "CompileError" := by decide

/-! ## Part B — the module string table -/

/-- **UTF-8.**  CPython's strict decoder inverts `str.encode('utf-8')` on every string without
lone surrogates (NUL, non-BMP included). -/
theorem utf8_decode_encode (s : List Nat) (h : s.all isScalar = true) :
    utf8Encode s = .ok (s.flatMap utf8Enc1) ∧ utf8Decode (s.flatMap utf8Enc1) = some s :=
  ⟨utf8Encode_ok s h, utf8_roundtrip s h⟩

/-- what is assumed about the strings handed to `generate_pystring_constants`: texts have no
lone surrogates (those literals are routed through `PyUnicode_DecodeUnicodeEscape` instead and
`str.encode` would raise), byte strings consist of bytes, every length fits `unsigned int` -/
structure InputsOK (ts : List TextEntry) (bs : List BytesEntry) : Prop where
  scalar : ∀ e ∈ ts, e.text.all isScalar = true
  lenT : ∀ e ∈ ts, (e.text.flatMap utf8Enc1).length < 2 ^ 32
  lenB : ∀ e ∈ bs, e.data.length < 2 ^ 32
  bytes : ∀ e ∈ bs, ∀ x ∈ e.data, x < 256

/-- **Ordering invariant.**  After the sort by `(is_interned, text)` the interned entries form
a suffix: the generator's `assert` cannot fire and `i >= first_interned` is exactly the
compile-time flag (the latter is part of `table_roundtrip`). -/
theorem order_inv (ts : List TextEntry) : internedSuffix (sortTexts ts) = true :=
  internedSuffix_sortTexts ts

theorem table_roundtrip_gen (p : TableP) (hp : p.WF) (ts : List TextEntry) (bs : List BytesEntry)
    (h : InputsOK ts bs)
    (hwT : ts = [] ∨ 1 ≤ p.minWidth ∨ ∃ e ∈ ts, e.text ≠ [])
    (hwB : bs = [] ∨ 1 ≤ p.minWidth ∨ ∃ e ∈ bs, e.data ≠ []) :
    compileTable p ts bs = .ok (layoutOf p (sortTexts ts) (sortBytes bs)) ∧
    runTable p (layoutOf p (sortTexts ts) (sortBytes bs)) (layoutOf p (sortTexts ts) (sortBytes bs)).blob =
      .ok (expected (sortTexts ts) (sortBytes bs)) := by
  have mT : ∀ e, e ∈ sortTexts ts ↔ e ∈ ts := fun e => (sortTexts_perm ts).mem_iff
  have mB : ∀ e, e ∈ sortBytes bs ↔ e ∈ bs := fun e => (sortBytes_perm bs).mem_iff
  have hsc : ∀ e ∈ sortTexts ts, e.text.all isScalar = true := fun e he => h.scalar e ((mT e).1 he)
  obtain ⟨L, hL, hrun, _⟩ := layout_roundtrip p hp (sortTexts ts) (sortBytes bs) hsc (order_inv ts)
    (fun e he => h.lenT e ((mT e).1 he)) (fun e he => h.lenB e ((mB e).1 he))
    (by
      rcases hwT with h0 | h1 | ⟨e, he, hne⟩
      · left; subst h0; simp [sortTexts]
      · exact Or.inr (Or.inl h1)
      · exact Or.inr (Or.inr ⟨e, (mT e).2 he, hne⟩))
    (by
      rcases hwB with h0 | h1 | ⟨e, he, hne⟩
      · left; subst h0; simp [sortBytes]
      · exact Or.inr (Or.inl h1)
      · exact Or.inr (Or.inr ⟨e, (mB e).2 he, hne⟩))
  have heq := layout_eq p (sortTexts ts) (sortBytes bs) hsc (order_inv ts)
  rw [heq] at hL
  injection hL with hL
  subst hL
  exact ⟨heq, hrun⟩

/-- **Table round trip (full strength, for a generator that never writes a zero-width
bit-field: `1 ≤ minWidth`).**  For ALL lists of text and byte strings (empty strings, NULs,
any length below 2^32, any number of entries): `generate_pystring_constants` succeeds, and
the generated run-time loops, run on the blob it wrote, rebuild exactly the strings — same
values, same str/bytes kind, same interned flag, in table order — reading only inside the blob. -/
theorem table_roundtrip (p : TableP) (hp : p.WF) (hmin : 1 ≤ p.minWidth) (ts : List TextEntry)
    (bs : List BytesEntry) (h : InputsOK ts bs) :
    ∃ L, compileTable p ts bs = .ok L ∧
      runTable p L L.blob = .ok (expected (sortTexts ts) (sortBytes bs)) :=
  ⟨_, (table_roundtrip_gen p hp ts bs h (Or.inr (Or.inl hmin)) (Or.inr (Or.inl hmin))).1,
      (table_roundtrip_gen p hp ts bs h (Or.inr (Or.inl hmin)) (Or.inr (Or.inl hmin))).2⟩

/-- the same as one equation: `runtime_table (compile_table xs) = xs` (in table order) -/
theorem compileRun_eq (p : TableP) (hp : p.WF) (hmin : 1 ≤ p.minWidth) (ts : List TextEntry)
    (bs : List BytesEntry) (h : InputsOK ts bs) :
    compileRun p ts bs = .ok (expected (sortTexts ts) (sortBytes bs)) := by
  obtain ⟨L, hL, hrun⟩ := table_roundtrip p hp hmin ts bs h
  simp only [compileRun, hL, hrun]

/-- The full statement for a parameter set. -/
def FullTable (p : TableP) : Prop :=
  ∀ ts bs, InputsOK ts bs → ∃ L, compileTable p ts bs = .ok L ∧
    runTable p L L.blob = .ok (expected (sortTexts ts) (sortBytes bs))

/-- **Current tree (`minWidth = 0`, i.e. `max(index).bit_length()`): partial.**  The round
trip holds whenever each non-empty index has a non-empty string. -/
theorem table_roundtrip_partial (p : TableP) (hp : p.WF) (ts : List TextEntry) (bs : List BytesEntry)
    (h : InputsOK ts bs) (hT : ts = [] ∨ ∃ e ∈ ts, e.text ≠ []) (hB : bs = [] ∨ ∃ e ∈ bs, e.data ≠ []) :
    ∃ L, compileTable p ts bs = .ok L ∧
      runTable p L L.blob = .ok (expected (sortTexts ts) (sortBytes bs)) :=
  ⟨_, (table_roundtrip_gen p hp ts bs h (hT.imp id Or.inr) (hB.imp id Or.inr)).1,
      (table_roundtrip_gen p hp ts bs h (hT.imp id Or.inr) (hB.imp id Or.inr)).2⟩

/-- **Counterexample on the current tree.**  A module whose only bytes constant is `b""`
(`x = b""`): the generator writes `const unsigned int length : 0;`, which is not valid C
(a named bit-field of width zero); the module cannot be compiled. -/
theorem zero_width_counterexample :
    compileRun pinnedTableP [] [⟨[120], []⟩] = .err "cc" := by decide +kernel

theorem not_full_table_pinned : ¬ FullTable pinnedTableP := by
  intro h
  obtain ⟨L, hL, hrun⟩ := h [] [⟨[120], []⟩] ⟨by simp, by simp, by simp, by simp⟩
  have := zero_width_counterexample
  unfold compileRun at this
  rw [hL] at this
  simp only [] at this
  rw [hrun] at this
  cases this

theorem pinnedTableP_wf : pinnedTableP.WF := by decide

/-- non-vacuity: an interned and a non-interned text (non-BMP, NUL), an empty and a non-empty
byte string -/
example : compileRun pinnedTableP [⟨false, [98], [0xE9]⟩, ⟨true, [97], [0x1F600, 0]⟩]
      [⟨[99], []⟩, ⟨[100], [0, 255]⟩] =
    .ok [.text [0xE9] false, .text [0x1F600, 0] true, .bytes [], .bytes [0, 255]] := by
  have h1 : sortTexts [⟨false, [98], [0xE9]⟩, ⟨true, [97], [0x1F600, 0]⟩] =
      [⟨false, [98], [0xE9]⟩, ⟨true, [97], [0x1F600, 0]⟩] := List.mergeSort_of_pairwise (by decide)
  have h2 : sortBytes [⟨[99], []⟩, ⟨[100], [0, 255]⟩] = [⟨[99], []⟩, ⟨[100], [0, 255]⟩] :=
    List.mergeSort_of_pairwise (by decide)
  unfold compileRun compileTable
  rw [h1, h2]
  decide +kernel

/-- **`#define cname stringtab[i]`.**  Every entry handed to the generator is found at run
time under the position its `cname` was `#define`d to, with its value, kind and interned flag. -/
theorem defines_correct (p : TableP) (hp : p.WF) (hmin : 1 ≤ p.minWidth) (ts : List TextEntry)
    (bs : List BytesEntry) (h : InputsOK ts bs) :
    ∃ L consts, compileTable p ts bs = .ok L ∧ runTable p L L.blob = .ok consts ∧
      (∀ e ∈ ts, ∃ i, (e.cname, i) ∈ L.defines ∧ consts[i]? = some (.text e.text e.interned)) ∧
      (∀ e ∈ bs, ∃ i, (e.cname, i) ∈ L.defines ∧ consts[i]? = some (.bytes e.data)) := by
  obtain ⟨hc, hr⟩ := table_roundtrip_gen p hp ts bs h (Or.inr (Or.inl hmin)) (Or.inr (Or.inl hmin))
  refine ⟨_, _, hc, hr, ?_, ?_⟩
  · intro e he
    have he' : e ∈ sortTexts ts := (sortTexts_perm ts).mem_iff.2 he
    obtain ⟨i, hi⟩ := List.getElem?_of_mem he'
    have hlt : i < (sortTexts ts).length := by
      rcases Nat.lt_or_ge i (sortTexts ts).length with h1 | h1
      · exact h1
      · rw [List.getElem?_eq_none h1] at hi; cases hi
    refine ⟨i, ?_, ?_⟩
    · simp only [layoutOf]
      rw [List.mem_zipIdx_iff_getElem?]
      simp only
      rw [List.getElem?_append_left (by simpa using hlt), List.getElem?_map, hi]; rfl
    · simp only [expected]
      rw [List.getElem?_append_left (by simpa using hlt), List.getElem?_map, hi]; rfl
  · intro e he
    have he' : e ∈ sortBytes bs := (sortBytes_perm bs).mem_iff.2 he
    obtain ⟨i, hi⟩ := List.getElem?_of_mem he'
    refine ⟨(sortTexts ts).length + i, ?_, ?_⟩
    · simp only [layoutOf]
      rw [List.mem_zipIdx_iff_getElem?]
      simp only
      rw [List.getElem?_append_right (by simp)]
      simp only [List.length_map, Nat.add_sub_cancel_left, List.getElem?_map, hi]; rfl
    · simp only [expected]
      rw [List.getElem?_append_right (by simp)]
      simp only [List.length_map, Nat.add_sub_cancel_left, List.getElem?_map, hi]; rfl

/-! ## End to end: C source text → bytes → strings -/

/-- **Uncompressed setting (`CYTHON_COMPRESS_STRINGS=0`, or no variant saved ≥ the margin).**
The blob is written by `_write_escaped_cstring_const` as a C string literal; a C compiler
(with or without trigraphs) reads that literal back as an array holding exactly the blob,
and the generated loops rebuild every string from it.  Constants of C11 (`_c_special`
table, split limit, look-back) and of the table generator are universally quantified under
their `WF`. -/
theorem e2e_uncompressed (p : TableP) (hp : p.WF) (hmin : 1 ≤ p.minWidth)
    (tbl : C11.Table) (hT : C11.tableWF tbl = true) (sp : C11.SplitParams) (hsp : sp.WF)
    (ts : List TextEntry) (bs : List BytesEntry) (h : InputsOK ts bs) (tri : Bool) :
    ∃ L text, compileTable p ts bs = .ok L ∧ C11.asCStringLiteral tbl sp L.blob = some text ∧
      C11.cLex tri text = some L.blob ∧
      runTable p L L.blob = .ok (expected (sortTexts ts) (sortBytes bs)) := by
  obtain ⟨hc, hr⟩ := table_roundtrip_gen p hp ts bs h (Or.inr (Or.inl hmin)) (Or.inr (Or.inl hmin))
  have mT : ∀ e, e ∈ sortTexts ts ↔ e ∈ ts := fun e => (sortTexts_perm ts).mem_iff
  have mB : ∀ e, e ∈ sortBytes bs ↔ e ∈ bs := fun e => (sortBytes_perm bs).mem_iff
  have hb := blob_bytes (sortTexts ts) (sortBytes bs) (fun e he => h.scalar e ((mT e).1 he))
    (fun e he => h.bytes e ((mB e).1 he))
  obtain ⟨text, h1, h2⟩ := C11.emit_roundtrip tbl hT sp hsp _ hb tri
  exact ⟨_, text, hc, h1, h2, hr⟩

/-- **MSVC array form (tables of 64 KiB and more).**  The alternative initialiser
`{'c1','c2',…}` built by `_split_characters` denotes the same bytes. -/
theorem e2e_array_form (p : TableP) (tbl : C11.Table) (hT : C11.tableWF tbl = true)
    (ts : List TextEntry) (bs : List BytesEntry) (h : InputsOK ts bs) (tri : Bool) :
    let blob := (layoutOf p (sortTexts ts) (sortBytes bs)).blob
    (C11.splitCharacters (C11.esc tbl blob)).map (fun t => C11.cCharLex tri (39 :: t ++ [39])) =
      blob.map some := by
  have mT : ∀ e, e ∈ sortTexts ts ↔ e ∈ ts := fun e => (sortTexts_perm ts).mem_iff
  have mB : ∀ e, e ∈ sortBytes bs ↔ e ∈ bs := fun e => (sortBytes_perm bs).mem_iff
  have hb := blob_bytes (sortTexts ts) (sortBytes bs) (fun e he => h.scalar e ((mT e).1 he))
    (fun e he => h.bytes e ((mB e).1 he))
  exact C11.array_form tbl hT _ hb tri

/-- The array form has exactly as many elements as the byte string: it carries NO terminating
NUL, unlike the string form.  Harmless for the table (all reads are by explicit length), but
for C string constants of 64 KiB and more (`char*` uses, `sizeof(x) - 1` of the lone-surrogate
path) it makes the `_MSC_VER` variant one byte shorter (finding `msvc-array-form-lacks-terminator`). -/
theorem array_form_length (tbl : C11.Table) (hT : C11.tableWF tbl = true) (b : List Nat)
    (hb : ∀ x ∈ b, x < 256) : (C11.splitCharacters (C11.esc tbl b)).length = b.length := by
  have := congrArg List.length (C11.array_form tbl hT b hb false)
  simpa using this

/-- **LZSS setting (`0 < CYTHON_COMPRESS_STRINGS ≤ 90` when the LZSS variant was emitted).**
`lzss_compress(blob)` is written as a C literal; the C compiler reads it back as exactly the
compressed stream; `__Pyx_DecompressString_LZSS` (all accesses in bounds, consumed length =
compressed length, so no `RuntimeError`) returns exactly the blob; the loops rebuild every
string. -/
theorem e2e_lzss (p : TableP) (hp : p.WF) (hmin : 1 ≤ p.minWidth)
    (tbl : C11.Table) (hT : C11.tableWF tbl = true) (sp : C11.SplitParams) (hsp : sp.WF)
    (P12 : C12.Params) (hP12 : C12.WF P12)
    (ts : List TextEntry) (bs : List BytesEntry) (h : InputsOK ts bs) (tri : Bool)
    (L : Layout) (hL : compileTable p ts bs = .ok L)
    (c : Array Nat) (hc : C12.compress P12 L.blob.toArray = .ok c)
    (hsel : C12.selected P12 L.blob.length c.size) :
    ∃ text, C11.asCStringLiteral tbl sp c.toList = some text ∧
      C11.cLex tri text = some c.toList ∧
      lzssWrapper c.toList c.size L.blob.length = .ok L.blob ∧
      runTable p L L.blob = .ok (expected (sortTexts ts) (sortBytes bs)) := by
  obtain ⟨hc0, hr⟩ := table_roundtrip_gen p hp ts bs h (Or.inr (Or.inl hmin)) (Or.inr (Or.inl hmin))
  rw [hc0] at hL
  injection hL with hL
  subst hL
  have mT : ∀ e, e ∈ sortTexts ts ↔ e ∈ ts := fun e => (sortTexts_perm ts).mem_iff
  have mB : ∀ e, e ∈ sortBytes bs ↔ e ∈ bs := fun e => (sortBytes_perm bs).mem_iff
  have hb := blob_bytes (sortTexts ts) (sortBytes bs) (fun e he => h.scalar e ((mT e).1 he))
    (fun e he => h.bytes e ((mB e).1 he))
  have hw := lzssWrapper_ok P12 hP12 _ hb c hc hsel
  -- the compressed stream consists of bytes
  have hne : (layoutOf p (sortTexts ts) (sortBytes bs)).blob.toArray.size ≠ 0 := by
    intro h0
    have hm := hP12.2.2.2.2.2
    unfold C12.selected at hsel
    simp only [List.size_toArray] at h0
    omega
  obtain ⟨c', h1, h2, _⟩ := C12.lzss_roundtrip P12 hP12
    (layoutOf p (sortTexts ts) (sortBytes bs)).blob.toArray (fun b hb' => hb b hb') hne
  rw [hc] at h1
  injection h1 with h1
  subst h1
  obtain ⟨text, e1, e2⟩ := C11.emit_roundtrip tbl hT sp hsp c.toList h2 tri
  exact ⟨text, e1, e2, hw, hr⟩

/-- **Every compression setting.**  For every integer value of `CYTHON_COMPRESS_STRINGS`,
every set of emitted variants in any order (`chainWF`: the numbers passed to
`__Pyx_DecompressString` select the module whose compressor was used), the bytes the loops
walk over are the blob and the strings are rebuilt exactly.  zlib / bz2 / zstd are CPython's
own codecs: that their decompressor inverts their compressor is the hypothesis `Inverse`. -/
theorem e2e_every_setting (p : TableP) (hp : p.WF) (hmin : 1 ≤ p.minWidth)
    (P12 : C12.Params) (hP12 : C12.WF P12) (cd : Codec) (hcd : cd.Inverse)
    (chain : List AlgoEnt) (hwf : chainWF chain = true)
    (ts : List TextEntry) (bs : List BytesEntry) (h : InputsOK ts bs)
    (L : Layout) (hL : compileTable p ts bs = .ok L)
    (hl : ∀ e ∈ chain, e.algo = .lzss →
      ∃ c, C12.compress P12 L.blob.toArray = .ok c ∧ C12.selected P12 L.blob.length c.size)
    (mval : Int) (py314 : Bool) :
    ∃ data, runtimeData P12 cd chain mval py314 L.blob = .ok data ∧
      runTable p L data = .ok (expected (sortTexts ts) (sortBytes bs)) := by
  obtain ⟨hc0, hr⟩ := table_roundtrip_gen p hp ts bs h (Or.inr (Or.inl hmin)) (Or.inr (Or.inl hmin))
  rw [hc0] at hL
  injection hL with hL
  subst hL
  have mT : ∀ e, e ∈ sortTexts ts ↔ e ∈ ts := fun e => (sortTexts_perm ts).mem_iff
  have mB : ∀ e, e ∈ sortBytes bs ↔ e ∈ bs := fun e => (sortBytes_perm bs).mem_iff
  have hb := blob_bytes (sortTexts ts) (sortBytes bs) (fun e he => h.scalar e ((mT e).1 he))
    (fun e he => h.bytes e ((mB e).1 he))
  exact ⟨_, runtimeData_ok P12 hP12 cd hcd chain hwf _ hb hl mval py314, hr⟩

/-- the chain of the pinned tree: `(90, lzss), (1, zlib), (2, bz2), (3, zstd)` -/
theorem pinned_chain_wf : chainWF [⟨90, .lzss⟩, ⟨1, .zlib⟩, ⟨2, .bz2⟩, ⟨3, .zstd⟩] = true := by decide

/-- non-vacuity of the selection: with all four variants emitted (reversed order), the macro
values 0, 1, 2, 3 (old / new CPython), 45, 90, 91, -1 pick none, zlib, bz2, lzss / zstd, lzss,
lzss, none, none -/
example :
    selectBranch [⟨3, .zstd⟩, ⟨2, .bz2⟩, ⟨1, .zlib⟩, ⟨90, .lzss⟩] 0 false = none ∧
    selectBranch [⟨3, .zstd⟩, ⟨2, .bz2⟩, ⟨1, .zlib⟩, ⟨90, .lzss⟩] 1 false = some ⟨1, .zlib⟩ ∧
    selectBranch [⟨3, .zstd⟩, ⟨2, .bz2⟩, ⟨1, .zlib⟩, ⟨90, .lzss⟩] 2 false = some ⟨2, .bz2⟩ ∧
    selectBranch [⟨3, .zstd⟩, ⟨2, .bz2⟩, ⟨1, .zlib⟩, ⟨90, .lzss⟩] 3 false = some ⟨90, .lzss⟩ ∧
    selectBranch [⟨3, .zstd⟩, ⟨2, .bz2⟩, ⟨1, .zlib⟩, ⟨90, .lzss⟩] 3 true = some ⟨3, .zstd⟩ ∧
    selectBranch [⟨3, .zstd⟩, ⟨2, .bz2⟩, ⟨1, .zlib⟩, ⟨90, .lzss⟩] 45 false = some ⟨90, .lzss⟩ ∧
    selectBranch [⟨3, .zstd⟩, ⟨2, .bz2⟩, ⟨1, .zlib⟩, ⟨90, .lzss⟩] 90 false = some ⟨90, .lzss⟩ ∧
    selectBranch [⟨3, .zstd⟩, ⟨2, .bz2⟩, ⟨1, .zlib⟩, ⟨90, .lzss⟩] 91 false = none ∧
    selectBranch [⟨3, .zstd⟩, ⟨2, .bz2⟩, ⟨1, .zlib⟩, ⟨90, .lzss⟩] (-1) false = none := by decide

end CyVerif.C10

import CyVerif.Model.C49
import CyVerif.Lemmas.C49Lines
/-!
# C49 — generated code is assembled in insertion-point order

`St` is the heap model of `Cython/StringIOTree.py` (`Model/C49.lean`): objects
are heap cells with `stream`, `prepended_children` (addresses), `markers`;
`commit` allocates anonymous cells; the observations are the recursive
traversals of the Python class.  `Spec` is the flat document with named holes
(`Model/C49Spec.lean`): one list, `write` puts a fragment immediately before the
buffer's cursor, `insertion_point` puts a new empty segment there, `insert`
moves a whole segment there.

`GuardOK h` (decidable) says the history `h` stays inside the guard the real
class needs as well: handles exist, a tree is inserted only while it is a
stand-alone tree (at most once) and not into itself, markers are written
together with text.

All theorems quantify over ALL histories: any length, any number of buffers.
-/
namespace CyVerif.C49

/-- the fragments written by a history, in program order (empty writes write nothing) -/
def written : List Op → List Frag
  | [] => []
  | o :: os => opFrags o ++ written os

/-- **Refinement (full strength).**  For every history inside the guard the
heap model runs without error and, for EVERY buffer `k` ever created (root or
insertion point, inserted or not):
`getvalue` = the concatenation of the fragment texts between the buffer's
brackets in the flat document — i.e. all fragments in logical insertion-point
order; `allmarkers` = the concatenation of the marker lists of exactly these
fragments in the same order; `empty()` ⇔ that text is empty; `copyto` writes
non-empty pieces whose concatenation is the same text.  No `RecursionError`. -/
theorem refines_holes (h : List Op) (sp : Spec) (hs : Spec.init.run h = some sp) :
    ∃ σ, St.init.run h = some σ ∧ σ.handles.length = sp.n ∧
      ∀ k, k < sp.n →
        σ.getvalue k = some (.ok (sp.getvalue k)) ∧
        σ.allmarkers k = some (.ok (sp.allmarkers k)) ∧
        σ.empty k = some (.ok (sp.empty k)) ∧
        ∃ cs, σ.copyto k = some (.ok cs) ∧ joinS cs = sp.getvalue k ∧ ∀ c ∈ cs, c ≠ "" := by
  obtain ⟨σ, F, hσ, hsim⟩ := sim_run Sim.init h hs
  exact ⟨σ, hσ, hsim.n.symm, fun k hk => hsim.observe hk⟩

/-- the same, phrased with the decidable guard -/
theorem refines_holes_guard (h : List Op) (hg : GuardOK h) :
    ∃ σ sp, St.init.run h = some σ ∧ Spec.init.run h = some sp ∧
      ∀ k, k < sp.n → σ.getvalue k = some (.ok (sp.getvalue k)) ∧
        σ.allmarkers k = some (.ok (sp.allmarkers k)) := by
  obtain ⟨sp, hs⟩ := Option.isSome_iff_exists.1 hg
  obtain ⟨σ, hσ, _, hobs⟩ := refines_holes h sp hs
  exact ⟨σ, sp, hσ, hs, fun k hk => ⟨(hobs k hk).1, (hobs k hk).2.1⟩⟩

/-- auxiliary: the fragment accounting along a run that starts in a `Sim` state -/
theorem once_run {σ : St} {sp sp' : Spec} {F : Forest} (hsim : Sim σ sp F) (ops : List Op)
    (hnr : ∀ o ∈ ops, isReset o = false) (hs : sp.run ops = some sp') :
    (fragsD sp'.doc).Perm (fragsD sp.doc ++ written ops) := by
  induction ops generalizing σ sp F with
  | nil =>
    simp only [Spec.run, Option.some.injEq] at hs
    subst hs
    simp [written]
  | cons o os ih =>
    simp only [Spec.run] at hs
    cases h1 : sp.step o with
    | none => rw [h1] at hs; cases hs
    | some sp1 =>
      rw [h1] at hs
      obtain ⟨σ1, F1, _, hsim1⟩ := sim_step hsim o h1
      have hstep := frags_step hsim o (hnr o (by simp)) h1
      have hrest := ih hsim1 (fun o' ho' => hnr o' (by simp [ho'])) hs
      refine hrest.trans ?_
      simp only [written, ← List.append_assoc]
      exact List.Perm.append_right _ hstep

/-- **Each fragment exactly once (full strength).**  For every `reset`-free
history inside the guard the fragments of the final document are a permutation
of the written fragments: nothing is lost, nothing is duplicated.  Together
with `refines_holes` (a buffer outputs exactly the fragments between its
brackets, in document order) this is "the concatenation of all written
fragments in logical insertion-point order, each exactly once". -/
theorem each_fragment_once (h : List Op) (sp : Spec) (hnr : ∀ o ∈ h, isReset o = false)
    (hs : Spec.init.run h = some sp) : (fragsD sp.doc).Perm (written h) := by
  have := once_run Sim.init h hnr hs
  simpa [Spec.init, fragsD] using this

/-- **One marker per output line (full strength).**  If every write of the
history carries exactly one marker per newline of its text (the discipline of
`CCodeWriter._write_lines`), then for every buffer the number of markers equals
the number of newlines of its output, i.e. marker `i` describes output line `i`. -/
theorem one_marker_per_line (h : List Op) (sp : Spec) (hs : Spec.init.run h = some sp)
    (hl : ∀ o ∈ h, opLined o) (k : Nat) :
    (sp.allmarkers k).length = nlCount (sp.getvalue k) := by
  have h0 : Lined Spec.init.doc := fun s ms hm => by simp [Spec.init] at hm
  exact marks_count ((lines_run h0 h hl hs).region k)

/-! ## Non-vacuity: concrete histories that satisfy the hypotheses -/

/-- the example of the module docstring of `StringIOTree.py`, followed by a
`commit` and a `reset` of a buffer that has a live insertion point -/
def docExample : List Op :=
  [.new, .write 0 "first\n" [1], .ip 0, .write 0 "third\n" [3], .write 1 "second\n" [2],
   .ip 1, .ip 2, .write 3 "alpha\n" [4], .write 1 "gamma\n" [5], .write 2 "beta\n" [6],
   .new, .insert 3 4, .write 4 "inserted\n" [7], .commit 0]

/-- the guard holds for a history with nested insertion points and an insert … -/
example : GuardOK docExample := by decide

/-- … its output is the docstring's, markers aligned, every write has one marker per line … -/
example : (St.init.run docExample).bind (·.getvalue 0)
    = some (.ok "first\nsecond\nalpha\ninserted\nbeta\ngamma\nthird\n") ∧
    (St.init.run docExample).bind (·.allmarkers 0) = some (.ok [1, 2, 4, 7, 6, 5, 3]) ∧
    (∀ o ∈ docExample, opLined o) ∧ (∀ o ∈ docExample, isReset o = false) := by decide

/-- … and a guarded history with `reset`: the insertion point created inside the
reset buffer lives on as a stand-alone tree and can be inserted elsewhere. -/
example : GuardOK (docExample ++ [.reset 2, .write 3 "x" [], .new, .insert 5 3]) ∧
    (St.init.run (docExample ++ [.reset 2, .write 3 "x" [], .new, .insert 5 3])).bind (·.getvalue 5)
      = some (.ok "alpha\ninserted\nx") := by decide

/-! ## The guard is necessary (the real class misbehaves in the same way) -/

/-- Without the guard "inserted at most once" the statement is false: a tree
inserted twice is emitted twice (the fragment `a` is written once). -/
theorem guard_needed_double_insert :
    let h : List Op := [.new, .new, .write 1 "a" [], .insert 0 1, .insert 0 1]
    ¬ GuardOK h ∧ written h = [("a", [])] ∧
      (St.init.run h).bind (·.getvalue 0) = some (.ok "aa") := by decide

/-- Without the guard "not into itself" the traversals do not terminate normally. -/
theorem guard_needed_self_insert :
    let h : List Op := [.new, .ip 0, .insert 1 0]
    ¬ GuardOK h ∧ (St.init.run h).bind (·.getvalue 0) = some (.err "RecursionError") := by decide

/-- Markers written without text are outside the guard: they stay on the node
while a later insertion point goes in front of them, so they end up after the
markers of text that is written later but placed earlier. -/
theorem guard_needed_marker_without_text :
    let h : List Op := [.new, .write 0 "" [7], .ip 0, .write 1 "a\n" [9]]
    ¬ GuardOK h ∧ (St.init.run h).bind (·.allmarkers 0) = some (.ok [9, 7]) := by decide

end CyVerif.C49

import CyVerif.Lemmas.C16CT
import CyVerif.Model.C16Merge
/-!
# C16 — typed memoryview indexing and slicing match buffer semantics

Reference semantics (`PySlice`, `specGetitem`): CPython's `PySlice_Unpack` +
`PySlice_AdjustIndices`, Python index normalisation and NumPy's expansion of an
index tuple; tied to CPython / NumPy by the harness.

Model (`CyVerif.C16`): `__pyx_memoryview_slice_memviewslice`, the templates
`SimpleSlice` / `SliceIndex` / `ToughSlice` as instantiated by
`generate_buffer_slice_code`, `memoryview.__getitem__`, `_unellipsify`,
`memview_slice`, `get_item_pointer`, `pybuffer_index`.

All statements are over unbounded integers: every extent, stride, start, stop
and step.  `Py_ssize_t` enters in two places only: a Python int outside
`[-2^63, 2^63)` raises `OverflowError` on conversion (`InSsize` hypotheses), and
the products `stride*step`, `start*stride` are computed exactly (the driver
reports `ub overflow` when a result leaves the range; `slice_dim_range` bounds
every other intermediate value by the extent).

The full-strength per-dimension statement is FALSE for the code as it exists
(`Variant.current`): see `FullSliceDimCurrent`, `slice_dim_current_not_full`.
It is proved for the repaired variant (`Variant.fixed`, the candidate patch) and,
with the defect regions excluded, for the current one (`…_current_partial`).
-/
namespace CyVerif.C16
open PySlice

/-! ## 1. The reference semantics selects exactly Python's slice indices -/

/-- Language reference, positive step: a negative bound is taken relative to the
end, then clamped into `[0, len]`. -/
theorem pyslice_clamp_pos {len step : Int} (x : Int) (hl : 0 ≤ len) (hs : 0 < step) :
    clampBound len step x = min len (max 0 (if x < 0 then x + len else x)) :=
  clampBound_pos x hl hs

/-- Negative step: clamped into `[-1, len-1]`. -/
theorem pyslice_clamp_neg {len step : Int} (x : Int) (hl : 0 ≤ len) (hs : step < 0) :
    clampBound len step x = min (len - 1) (max (-1) (if x < 0 then x + len else x)) :=
  clampBound_neg x hl hs

/-- `PySlice_AdjustIndices`: the returned length counts exactly the terms of
`start, start+step, start+2·step, …` that lie before `stop` (in the direction
of `step`), and every one of them is a valid index of a sequence of length `len`. -/
theorem pyslice_adjust_selects (len start stop step : Int) (hl : 0 ≤ len) (hs : step ≠ 0) :
    let a := adjustIndices len start stop step
    0 ≤ a.len ∧
    (∀ k, 0 ≤ k → (k < a.len ↔
      ((0 < step ∧ a.start + k * step < a.stop) ∨ (step < 0 ∧ a.stop < a.start + k * step)))) ∧
    (∀ k, 0 ≤ k → k < a.len → 0 ≤ a.start + k * step ∧ a.start + k * step < len) := by
  intro a
  refine ⟨sliceLen_nonneg _ _ hs, fun k hk => sliceLen_counts _ _ hs k hk, fun k hk hlt => ?_⟩
  refine sliceLen_in_bounds hs (fun hp => ?_) (fun hn => ?_) k hk hlt
  · have h1 := clampBound_pos_range start hl hp
    have h2 := clampBound_pos_range stop hl hp
    exact ⟨h1.1, h2.2⟩
  · have h1 := clampBound_neg_range start hl hn
    have h2 := clampBound_neg_range stop hl hn
    exact ⟨h1.2, h2.1⟩

/-- The same for `slice(start, stop, step).indices(len)` with `None` fields. -/
theorem pyslice_indices_selects {len : Int} (hl : 0 ≤ len) {s e st : Option Int} {a : Adj} {step : Int}
    (h : indices len s e st = .ok (a, step)) :
    step ≠ 0 ∧ 0 ≤ a.len ∧
    (∀ k, 0 ≤ k → (k < a.len ↔
      ((0 < step ∧ a.start + k * step < a.stop) ∨ (step < 0 ∧ a.stop < a.start + k * step)))) ∧
    (∀ k, 0 ≤ k → k < a.len → 0 ≤ a.start + k * step ∧ a.start + k * step < len) := by
  obtain ⟨hne, hlen, hp, hn⟩ := indices_ranges hl h
  refine ⟨hne, by rw [hlen]; exact sliceLen_nonneg _ _ hne, fun k hk => by rw [hlen]; exact sliceLen_counts _ _ hne k hk,
    fun k hk hlt => ?_⟩
  rw [hlen] at hlt
  exact sliceLen_in_bounds hne (fun h => by have := hp h; omega) (fun h => by have := hn h; omega) k hk hlt

/-- The list of selected indices has `len` entries, the `k`-th is `start + k·step`. -/
theorem pyslice_selected_spec (a : Adj) (step : Int) :
    (selected a step).length = a.len.toNat ∧
    ∀ k (hk : k < (selected a step).length), (selected a step)[k] = a.start + (k : Int) * step := by
  unfold selected
  refine ⟨by simp, fun k hk => by simp⟩

/-- `PySlice_Unpack` with saturation at `±PY_SSIZE_T_MAX = ±M`, followed by
`PySlice_AdjustIndices`, is the unbounded `indices` for every sequence that
fits (`len ≤ M`) and every step in `[-M, M]`: the `None` defaults `M`, `-M-1`
behave as `±∞`. -/
theorem pyslice_unpack_eq_indices (M len : Int) (hl : 0 ≤ len) (hM : len ≤ M)
    (s e st : Option Int) (hst : ∀ v, st = some v → -M ≤ v ∧ v ≤ M) :
    unpackAdjust M len s e st = indices len s e st := by
  have hc : ∀ x step, clampBound len step (sat M x) = clampBound len step x := by
    intro x step
    unfold sat clampBound
    by_cases h1 : x > M <;> by_cases h2 : x < -M - 1 <;> by_cases h3 : x < 0 <;> by_cases h4 : x + len < 0 <;>
      by_cases h5 : x ≥ len <;> by_cases h6 : M < 0 <;> by_cases h7 : M ≥ len <;> by_cases h8 : -M - 1 + len < 0 <;>
      by_cases h9 : -M - 1 < 0 <;> by_cases h10 : M + len < 0 <;>
      simp [h1, h2, h3, h4, h5, h6, h7, h8, h9, h10] <;> omega
  have hA : ∀ step : Int, step < 0 → clampBound len step M = len - 1 ∧ clampBound len step (-M - 1) = -1 := by
    intro step h
    unfold clampBound
    by_cases h6 : M < 0 <;> by_cases h7 : M ≥ len <;> by_cases h8 : -M - 1 + len < 0 <;> by_cases h9 : -M - 1 < 0 <;>
      simp [h, h6, h7, h8, h9] <;> omega
  have hB : ∀ step : Int, ¬ step < 0 → clampBound len step 0 = 0 ∧ clampBound len step M = len := by
    intro step h
    unfold clampBound
    by_cases h6 : M < 0 <;> by_cases h7 : M ≥ len <;> by_cases h8 : (0 : Int) ≥ len <;>
      simp [h, h6, h7, h8] <;> omega
  cases st with
  | none =>
    have h1 : ¬ ((1 : Int) < 0) := by omega
    have := hB 1 h1
    cases s <;> cases e <;>
      simp [unpackAdjust, unpack, indices, adjustIndices, hc, this.1, this.2]
  | some v =>
    by_cases hz : v = 0
    · subst hz; simp [unpackAdjust, unpack, indices]
    · have hv := hst v rfl
      have hsat : sat M v = v := by unfold sat; split <;> (try split) <;> omega
      have hlt : ¬ v < -M := by omega
      by_cases h : v < 0
      · have := hA v h
        cases s <;> cases e <;>
          simp [unpackAdjust, unpack, indices, adjustIndices, hc, this.1, this.2, hz, hsat, hlt, h]
      · have := hB v h
        cases s <;> cases e <;>
          simp [unpackAdjust, unpack, indices, adjustIndices, hc, this.1, this.2, hz, hsat, hlt, h]

/-! ## 2. One dimension of `__pyx_memoryview_slice_memviewslice` -/

/-- FULL STRENGTH (repaired code: any variant with both repairs of the slice
arithmetic, e.g. `Variant.fixed`): for every extent and every start/stop/step
(present or omitted) the clamped start, the effective step and `new_shape` are
those of `slice(start, stop, step).indices(extent)`; a zero step is ValueError. -/
theorem slice_dim_fixed (v : Variant) (hv : v.negClamp = true ∧ v.ceilFix = true)
    {shape : Int} (hs : 0 ≤ shape) (a : SliceArgs) :
    (sliceBounds v shape a).map DimSlice.triple = specTriple shape a :=
  agrees_of v hs a (Or.inl hv.1) (Or.inl hv.2)

/-- The full-strength statement for the code AS IT EXISTS.  It is false. -/
def FullSliceDimCurrent : Prop :=
  ∀ (shape : Int) (a : SliceArgs), 0 ≤ shape →
    (sliceBounds Variant.current shape a).map DimSlice.triple = specTriple shape a

/-- Every repair variant (`current`, either single repair, `fixed`): outside the
defect region of each repair that is not applied. -/
theorem slice_dim_variant (v : Variant) {shape : Int} (hs : 0 ≤ shape) (a : SliceArgs)
    (h9 : v.negClamp = true ∨ ¬ F9Region shape a)
    (h14 : v.ceilFix = true ∨ UnitOrNonEmpty shape a) :
    (sliceBounds v shape a).map DimSlice.triple = specTriple shape a :=
  agrees_of v hs a h9 h14

/-- PARTIAL (code as it exists): excluded are (F9) a negative step with a start
or stop below `-extent`, and (F14) non-unit steps whose Python slice is empty. -/
theorem slice_dim_current_partial {shape : Int} (hs : 0 ≤ shape) (a : SliceArgs)
    (h9 : ¬ F9Region shape a) (h14 : UnitOrNonEmpty shape a) :
    (sliceBounds Variant.current shape a).map DimSlice.triple = specTriple shape a :=
  agrees_of Variant.current hs a (Or.inr h9) (Or.inr h14)

/-- F9, stop below `-len` (`a[3:-100:-1]`, len 5): C code 3 elements, Python 4. -/
theorem counterexample_F9_stop :
    (sliceBounds Variant.current 5 ⟨3, -100, -1, true, true, true⟩).map DimSlice.triple = .ok (3, -1, 3) ∧
    specTriple 5 ⟨3, -100, -1, true, true, true⟩ = .ok (3, -1, 4) := by decide

/-- F9, start below `-len` (`a[-100::-1]`, len 5): C code `[a[0]]`, Python `[]`. -/
theorem counterexample_F9_start :
    (sliceBounds Variant.current 5 ⟨-100, 0, -1, true, false, true⟩).map DimSlice.triple = .ok (0, -1, 1) ∧
    specTriple 5 ⟨-100, 0, -1, true, false, true⟩ = .ok (-1, -1, 0) := by decide

/-- F14 (`a[3:2:3]`, len 5): the rounded-up truncating quotient is 1, Python's length is 0. -/
theorem counterexample_F14_pos :
    (sliceBounds Variant.current 5 ⟨3, 2, 3, true, true, true⟩).map DimSlice.triple = .ok (3, 3, 1) ∧
    specTriple 5 ⟨3, 2, 3, true, true, true⟩ = .ok (3, 3, 0) := by decide

/-- F14 with a negative step (`a[10:10:-2]`, len 5): C code `[a[4]]`, Python `[]`. -/
theorem counterexample_F14_neg :
    (sliceBounds Variant.current 5 ⟨10, 10, -2, true, true, true⟩).map DimSlice.triple = .ok (4, -2, 1) ∧
    specTriple 5 ⟨10, 10, -2, true, true, true⟩ = .ok (4, -2, 0) := by decide

/-- F14 on an EMPTY buffer (`a[0:0:-3]`, len 0): a one-element view of memory outside the buffer. -/
theorem counterexample_F14_empty :
    (sliceBounds Variant.current 0 ⟨0, 0, -3, true, true, true⟩).map DimSlice.triple = .ok (-1, -3, 1) ∧
    specTriple 0 ⟨0, 0, -3, true, true, true⟩ = .ok (-1, -3, 0) := by decide

theorem slice_dim_current_not_full : ¬ FullSliceDimCurrent := by
  intro h
  have h1 := h 5 ⟨3, -100, -1, true, true, true⟩ (by decide)
  have h2 := counterexample_F9_stop
  rw [h2.1, h2.2] at h1
  exact absurd h1 (by decide)

/-- Each single repair alone leaves the other defect (so both parts of the patch are needed). -/
theorem counterexample_neg_only :
    (sliceBounds ⟨true, false, false⟩ 5 ⟨3, 2, 3, true, true, true⟩).map DimSlice.triple ≠
      specTriple 5 ⟨3, 2, 3, true, true, true⟩ := by decide

theorem counterexample_ceil_only :
    (sliceBounds ⟨false, true, false⟩ 5 ⟨3, -100, -1, true, true, true⟩).map DimSlice.triple ≠
      specTriple 5 ⟨3, -100, -1, true, true, true⟩ := by decide

/-- How overflow is excluded for the bounds arithmetic: for EVERY variant the
clamped start/stop lie in `[-1, extent]` and `new_shape ≥ 0`; so `start += shape`,
`stop - start` (magnitude ≤ extent + 1) and `step * new_shape` (magnitude ≤
|stop - start|, truncating quotient) stay inside `Py_ssize_t` whenever the
extent does. -/
theorem slice_dim_range (v : Variant) {shape : Int} (hs : 0 ≤ shape) (a : SliceArgs) {b : DimSlice}
    (h : sliceBounds v shape a = .ok b) :
    -1 ≤ b.start ∧ b.start ≤ shape ∧ -1 ≤ b.stop ∧ b.stop ≤ shape ∧ 0 ≤ b.newShape := by
  unfold sliceBounds at h
  split at h
  · cases h
  · injection h with h
    subst h
    refine ⟨?_, ?_, ?_, ?_, ?_⟩
    · simp only [clampStart]; split <;> (try split) <;> (try split) <;> (try split) <;> omega
    · simp only [clampStart]; split <;> (try split) <;> (try split) <;> (try split) <;> omega
    · simp only [clampStop]; split <;> (try split) <;> (try split) <;> (try split) <;> omega
    · simp only [clampStop]; split <;> (try split) <;> (try split) <;> (try split) <;> omega
    · simp only [newShape]; split <;> omega

/-- The index (non-slice) path of `slice_memviewslice`, of `pybuffer_index` and of
the `SliceIndex` template (wraparound + boundscheck) is Python indexing:
one wraparound, else IndexError.  Full strength, every extent and index. -/
theorem index_dim_spec (shape i : Int) :
    indexBounds shape i = PySlice.index shape i ∧
    sliceIndexCT ⟨true, true⟩ ⟨shape, 0, -1⟩ i = PySlice.index shape i :=
  ⟨indexBounds_eq shape i, sliceIndexCT_eq ⟨shape, 0, -1⟩ i⟩

theorem pybuffer_index_spec (src : Dim) (hsub : src.suboffset = -1) (off i : Int) :
    pybufferIndex src [off] i = (PySlice.index src.shape i).map fun j => [off + j * src.stride] :=
  pybufferIndex_direct src hsub off i

/-- What one call stores: `dst->shape[new_ndim] = len`, `dst->strides[new_ndim] =
stride*step`, `dst->data += start*stride` with `(start, step, len)` from
`slice.indices(extent)` (any variant that agrees on this dimension). -/
theorem slice_dim_store (v : Variant) (sh st : List Int) (off : Int) (src : Dim)
    (hsub : src.suboffset = -1) (a : SliceArgs) (hag : Agrees v src.shape a) :
    sliceMemviewslice v (Dst.direct sh st off) src a true =
      (specTriple src.shape a).map fun t =>
        Dst.direct (sh ++ [t.2.2]) (st ++ [src.stride * t.2.1]) (off + t.1 * src.stride) :=
  slice_step_direct v sh st off src hsub a hag

/-! ## 3. All dimensions -/

/-- a slice item on this dimension stays clear of the two defects of the current code -/
def GoodItem (src : Dim) : Item → Prop
  | .slc s e st =>
    ¬ F9Region src.shape ⟨s.getD 0, e.getD 0, st.getD 0, s.isSome, e.isSome, st.isSome⟩ ∧
    UnitOrNonEmpty src.shape ⟨s.getD 0, e.getD 0, st.getD 0, s.isSome, e.isSome, st.isSome⟩
  | _ => True

theorem agreesList_fixed (v : Variant) (hv : v.negClamp = true ∧ v.ceilFix = true)
    (dims : List Dim) (items : List Item) (hsh : ∀ d ∈ dims, 0 ≤ d.shape) :
    AgreesList v dims items := by
  intro p hp
  have hd := hsh p.1 (List.of_mem_zip hp).1
  cases h : p.2 with
  | slc s e st => simp only [AgreesItem]; exact agrees_of _ hd _ (Or.inl hv.1) (Or.inl hv.2)
  | idx i => simp [AgreesItem]
  | ell => simp [AgreesItem]
  | none => simp [AgreesItem]
  | bad => simp [AgreesItem]

theorem agreesList_current (dims : List Dim) (items : List Item) (hsh : ∀ d ∈ dims, 0 ≤ d.shape)
    (hgood : ∀ p ∈ dims.zip items, GoodItem p.1 p.2) :
    AgreesList Variant.current dims items := by
  intro p hp
  have hd := hsh p.1 (List.of_mem_zip hp).1
  have hg := hgood p hp
  cases h : p.2 with
  | slc s e st =>
    rw [h] at hg
    simp only [AgreesItem]; exact agrees_of _ hd _ (Or.inr hg.1) (Or.inr hg.2)
  | idx i => simp [AgreesItem]
  | ell => simp [AgreesItem]
  | none => simp [AgreesItem]
  | bad => simp [AgreesItem]

/-- `memview_slice` on a fully expanded index (one index or slice per dimension)
of a buffer with direct dimensions: shape, strides and data offset of the
result are those of the reference semantics; the first failing dimension
determines the exception. -/
theorem memview_slice_fixed (v : Variant) (hv : v.negClamp = true ∧ v.ceilFix = true)
    (dims : List Dim) (items : List Item)
    (hlen : items.length = dims.length) (hplain : ∀ it ∈ items, PlainItem it)
    (hdims : ∀ d ∈ dims, d.suboffset = -1 ∧ 0 ≤ d.shape) :
    memviewSlice v dims items =
      (specSels dims items).map fun sels =>
        Dst.direct (viewShape sels) (viewStrides sels) (viewOffset sels) :=
  memviewSlice_direct _ dims items hlen hplain (fun d hd => (hdims d hd).1)
    (agreesList_fixed v hv dims items fun d hd => (hdims d hd).2)

theorem memview_slice_current_partial (dims : List Dim) (items : List Item)
    (hlen : items.length = dims.length) (hplain : ∀ it ∈ items, PlainItem it)
    (hdims : ∀ d ∈ dims, d.suboffset = -1 ∧ 0 ≤ d.shape)
    (hgood : ∀ p ∈ dims.zip items, GoodItem p.1 p.2) :
    memviewSlice Variant.current dims items =
      (specSels dims items).map fun sels =>
        Dst.direct (viewShape sels) (viewStrides sels) (viewOffset sels) :=
  memviewSlice_direct _ dims items hlen hplain (fun d hd => (hdims d hd).1)
    (agreesList_current dims items (fun d hd => (hdims d hd).2) hgood)

/-- `_unellipsify` for a tuple with one `Ellipsis`: it stands for exactly the missing
dimensions (same expansion as the reference), `have_slices` is true. -/
theorem unellipsify_spec_ell (v : Variant) (pre post : List Item) (ndim : Nat)
    (hplain : ∀ it ∈ pre ++ post, PlainItem it) (hcount : pre.length + post.length ≤ ndim) :
    unellipsify v (.tuple (pre ++ .ell :: post)) ndim =
      .ok (true, pre ++ List.replicate (ndim - (pre.length + post.length)) Item.full ++ post) ∧
    specExpand (pre ++ .ell :: post) ndim =
      .ok (pre ++ List.replicate (ndim - (pre.length + post.length)) Item.full ++ post) := by
  have hpre : pre.all PlainB = true := all_plainB fun x hx => hplain x (List.mem_append_left _ hx)
  have hpost : post.all PlainB = true := all_plainB fun x hx => hplain x (List.mem_append_right _ hx)
  exact ⟨unellipsify_tuple_ell v pre post ndim hpre hpost hcount, specExpand_ell pre post ndim hpre hpost hcount⟩

/-- `_unellipsify` for a tuple without `Ellipsis`: missing trailing dimensions become
full slices; `have_slices` iff a slice is present or the tuple is short. -/
theorem unellipsify_spec_plain (v : Variant) (t : List Item) (ndim : Nat)
    (hplain : ∀ it ∈ t, PlainItem it) (hlen : t.length ≤ ndim) :
    unellipsify v (.tuple t) ndim =
      .ok (t.any isSlc || decide (t.length < ndim), t ++ List.replicate (ndim - t.length) Item.full) ∧
    specExpand t ndim = .ok (t ++ List.replicate (ndim - t.length) Item.full) :=
  ⟨unellipsify_tuple_plain v t ndim (all_plainB hplain) hlen, specExpand_plain t ndim (all_plainB hplain) hlen⟩

/-- FULL STRENGTH (repaired code) — `memoryview.__getitem__` with an index tuple
containing one `Ellipsis`: the returned view is the reference view. -/
theorem getitem_fixed_ellipsis (v : Variant) (hv : v.negClamp = true ∧ v.ceilFix = true)
    (dims : List Dim) (pre post : List Item)
    (hplain : ∀ it ∈ pre ++ post, PlainItem it) (hcount : pre.length + post.length ≤ dims.length)
    (hdims : ∀ d ∈ dims, d.suboffset = -1 ∧ 0 ≤ d.shape) :
    getitem v dims (.tuple (pre ++ .ell :: post)) =
      (specGetitem dims (.tuple (pre ++ .ell :: post))).map viewOut :=
  getitem_tuple_ell _ dims pre post hplain hcount (fun d hd => (hdims d hd).1)
    (agreesList_fixed v hv dims _ fun d hd => (hdims d hd).2)

/-- … with an index tuple without `Ellipsis` that has a slice or is shorter than `ndim`. -/
theorem getitem_fixed_slices (v : Variant) (hv : v.negClamp = true ∧ v.ceilFix = true)
    (dims : List Dim) (t : List Item)
    (hplain : ∀ it ∈ t, PlainItem it) (hlen : t.length ≤ dims.length)
    (hview : t.any isSlc = true ∨ t.length < dims.length)
    (hdims : ∀ d ∈ dims, d.suboffset = -1 ∧ 0 ≤ d.shape) :
    getitem v dims (.tuple t) = (specGetitem dims (.tuple t)).map viewOut :=
  getitem_tuple_view _ dims t hplain hlen hview (fun d hd => (hdims d hd).1)
    (agreesList_fixed v hv dims _ fun d hd => (hdims d hd).2)

/-- FULL STRENGTH (every variant, the slice arithmetic is not involved) — one integer
per dimension: element access, out-of-range is IndexError. -/
theorem getitem_index (v : Variant) (dims : List Dim) (t : List Item)
    (hidx : ∀ it ∈ t, IdxItem it) (hlen : t.length = dims.length)
    (hdir : ∀ d ∈ dims, d.suboffset = -1) :
    getitem v dims (.tuple t) = (specGetitem dims (.tuple t)).map scalarOut :=
  getitem_tuple_index v dims t hidx hlen hdir

/-- `mv[i]` on a one-dimensional view (fast path through `pybuffer_index`), every variant. -/
theorem getitem_single_index (v : Variant) (src : Dim) (hsub : src.suboffset = -1) (i : Int) (hi : InSsize i) :
    getitem v [src] (.single (.idx i)) = (specGetitem [src] (.single (.idx i))).map scalarOut :=
  getitem_single_index_1d v src hsub i hi

/-- FULL STRENGTH (repaired code) — `mv[a:b:c]` with one slice object. -/
theorem getitem_fixed_single_slice (v : Variant) (hv : v.negClamp = true ∧ v.ceilFix = true)
    (dims : List Dim) (hnd : 1 ≤ dims.length) (s e c : Option Int)
    (hp : PlainItem (.slc s e c)) (hdims : ∀ d ∈ dims, d.suboffset = -1 ∧ 0 ≤ d.shape) :
    getitem v dims (.single (.slc s e c)) = (specGetitem dims (.single (.slc s e c))).map viewOut :=
  getitem_single_slice _ dims hnd s e c hp (fun d hd => (hdims d hd).1)
    (agreesList_fixed v hv dims _ fun d hd => (hdims d hd).2)

theorem getitem_current_partial_single_slice (dims : List Dim) (hnd : 1 ≤ dims.length) (s e c : Option Int)
    (hp : PlainItem (.slc s e c)) (hdims : ∀ d ∈ dims, d.suboffset = -1 ∧ 0 ≤ d.shape)
    (hgood : ∀ p ∈ dims.zip (.slc s e c :: List.replicate (dims.length - 1) Item.full), GoodItem p.1 p.2) :
    getitem Variant.current dims (.single (.slc s e c)) = (specGetitem dims (.single (.slc s e c))).map viewOut :=
  getitem_single_slice _ dims hnd s e c hp (fun d hd => (hdims d hd).1)
    (agreesList_current dims _ (fun d hd => (hdims d hd).2) hgood)

/-- PARTIAL (code as it exists): the same two theorems with every slice item clear of F9/F14. -/
theorem getitem_current_partial_ellipsis (dims : List Dim) (pre post : List Item)
    (hplain : ∀ it ∈ pre ++ post, PlainItem it) (hcount : pre.length + post.length ≤ dims.length)
    (hdims : ∀ d ∈ dims, d.suboffset = -1 ∧ 0 ≤ d.shape)
    (hgood : ∀ p ∈ dims.zip (pre ++ List.replicate (dims.length - (pre.length + post.length)) Item.full ++ post),
      GoodItem p.1 p.2) :
    getitem Variant.current dims (.tuple (pre ++ .ell :: post)) =
      (specGetitem dims (.tuple (pre ++ .ell :: post))).map viewOut :=
  getitem_tuple_ell _ dims pre post hplain hcount (fun d hd => (hdims d hd).1)
    (agreesList_current dims _ (fun d hd => (hdims d hd).2) hgood)

theorem getitem_current_partial_slices (dims : List Dim) (t : List Item)
    (hplain : ∀ it ∈ t, PlainItem it) (hlen : t.length ≤ dims.length)
    (hview : t.any isSlc = true ∨ t.length < dims.length)
    (hdims : ∀ d ∈ dims, d.suboffset = -1 ∧ 0 ≤ d.shape)
    (hgood : ∀ p ∈ dims.zip (t ++ List.replicate (dims.length - t.length) Item.full), GoodItem p.1 p.2) :
    getitem Variant.current dims (.tuple t) = (specGetitem dims (.tuple t)).map viewOut :=
  getitem_tuple_view _ dims t hplain hlen hview (fun d hd => (hdims d hd).1)
    (agreesList_current dims _ (fun d hd => (hdims d hd).2) hgood)

/-- The compile-time loop (`generate_buffer_slice_code`: `SimpleSlice`, `ToughSlice`,
`SliceIndex` with wraparound+boundscheck, newaxis for `None`) on the expanded index,
repaired code, full strength. -/
theorem buffer_slice_code_fixed (v : Variant) (hv : v.negClamp = true ∧ v.ceilFix = true)
    (dims : List Dim) (items : List Item)
    (hlen : (items.filter consumesDim).length = dims.length)
    (hplain : ∀ it ∈ items, PlainItem it ∨ it = .none)
    (hdims : ∀ d ∈ dims, d.suboffset = -1 ∧ 0 ≤ d.shape) :
    bufferSliceLoop v ⟨true, true⟩ dims items Dst.init =
      (specSels dims items).map fun sels =>
        Dst.direct (viewShape sels) (viewStrides sels) (viewOffset sels) := by
  have hag : ∀ (items : List Item) (dims : List Dim), (∀ d ∈ dims, 0 ≤ d.shape) → AgreesCT v dims items := by
    intro items
    induction items with
    | nil => intro dims _; cases dims <;> simp [AgreesCT]
    | cons it rest ih =>
      intro dims hsh
      cases dims with
      | nil => cases it <;> simp [AgreesCT, ih [] (by simp)]
      | cons src dims =>
        have h0 := hsh src (List.mem_cons_self ..)
        have hsh' : ∀ d ∈ dims, 0 ≤ d.shape := fun x hx => hsh x (List.mem_cons_of_mem _ hx)
        cases it with
        | none => simp only [AgreesCT]; exact ih _ hsh
        | slc s e st =>
          simp only [AgreesCT, AgreesItem]
          exact ⟨agrees_of _ h0 _ (Or.inl hv.1) (Or.inl hv.2), ih _ hsh'⟩
        | idx i => simp only [AgreesCT, AgreesItem, true_and]; exact ih _ hsh'
        | ell => simp only [AgreesCT, AgreesItem, true_and]; exact ih _ hsh'
        | bad => simp only [AgreesCT, AgreesItem, true_and]; exact ih _ hsh'
  rw [dst_init_direct, bufferSliceLoop_direct _ items dims [] [] 0 hlen hplain hdims (hag items dims fun d hd => (hdims d hd).2)]
  cases specSels dims items with
  | err e => rfl
  | ok l => simp only [Res.map, extendDirect_nil]

/-! ## 4. Which elements the view selects -/

/-- Address map: element `ks` of the result view lies at the address of element
`srcIndex sels ks` of the source (`dot` with the source strides), where a slice
dimension contributes Python's `k`-th selected index `start + k·step` and an
index dimension its normalised index. -/
theorem view_address_spec (sels : List (Dim × Sel)) (ks : List Int)
    (h : ks.length = (viewShape sels).length) :
    viewOffset sels + dot ks (viewStrides sels) = dot (srcIndex sels ks) (srcStrides sels) :=
  view_address sels ks h

/-- … and that source element exists: every view element is inside the source
buffer (memory safety of the repaired code / of the current code outside F9, F14). -/
theorem view_in_bounds (dims : List Dim) (items : List Item) (sels : List (Dim × Sel))
    (hsh : ∀ d ∈ dims, 0 ≤ d.shape) (h : specSels dims items = .ok sels)
    (ks : List Int) (hks : InBox ks (viewShape sels)) :
    InBox (srcIndex sels ks) (srcShape sels) :=
  srcIndex_in_bounds sels ks (specSels_valid items dims sels hsh h) hks

/-! ## 5. Chained subscripts `view[x][y]` and the compile-time merge `view[x, y]` -/

/-- The step the merge relies on, for every extent, stride and item: a full slice
followed by an index or slice is that index or slice (`a[:][y] = a[y]`): same
selection, stride `stride*1*step`, offset `0 + start*stride`. -/
theorem chain_full_then_item (d : Dim) (hs : 0 ≤ d.shape) (y : Item) (hy : PlainItem y) :
    chainSpec [d] [Item.full] [y] = (specSels [d] [y]).map SpecView.ofSels := by
  have h1 : specExpand [Item.full] 1 = .ok [Item.full] := by
    simpa using specExpand_plain [Item.full] 1 (by simp [PlainB, Item.full]) (by simp)
  have h2 : specExpand [y] 1 = .ok [y] := by
    have := specExpand_plain [y] 1 (by simp [plainB_of_plainItem hy]) (by simp)
    simpa using this
  have hf : specSels [d] [Item.full] = .ok [(d, .range ⟨0, d.shape, d.shape⟩ 1)] := by
    simp only [Item.full]
    rw [specSels_cons_slc, indices_full hs]
    simp [specSels]
  simp only [chainSpec, specGetitem, List.length_singleton, h1, hf, Res.map, SpecView.ofSels, viewShape, viewStrides,
    viewOffset, dimsOfView, List.zipWith, h2]
  cases y with
  | idx i =>
    rw [specSels_cons_idx, specSels_cons_idx]
    simp only []
    cases PySlice.index d.shape i with
    | err e => rfl
    | ok j => simp [specSels, viewShape, viewStrides, viewOffset]
  | slc a b c =>
    rw [specSels_cons_slc, specSels_cons_slc]
    simp only []
    cases PySlice.indices d.shape a b c with
    | err e => rfl
    | ok p =>
      obtain ⟨adj, step⟩ := p
      simp [specSels, viewShape, viewStrides, viewOffset]
  | ell => exact absurd hy (by simp [PlainItem])
  | none => exact absurd hy (by simp [PlainItem])
  | bad => exact absurd hy (by simp [PlainItem])

/-- With the guard, `merged_indices` refuses to merge past a newaxis of the first
subscript (`m[None][k]` is evaluated one subscript after the other) … -/
theorem merge_refuses_newaxis :
    mergedIndices true 1 [.none, Item.full] [.idx 0] = none ∧
    compiledChain true [⟨5, 4, -1⟩] [.none] [.idx 0] = chainSpec [⟨5, 4, -1⟩] [.none] [.idx 0] ∧
    chainSpec [⟨5, 4, -1⟩] [.none] [.idx 0] = .ok ⟨[5], [4], 0⟩ ∧
    chainSpec [⟨5, 4, -1⟩] [.none] [.idx 1] = .err "IndexError" := by decide

/-- … and merges, correctly, where the conditions hold (instances: full slices
replaced in order, integers kept, partial slice refuses). -/
theorem merge_instances :
    compiledChain true [⟨3, 16, -1⟩, ⟨4, 4, -1⟩] [.idx 1] [.idx 2] = chainSpec [⟨3, 16, -1⟩, ⟨4, 4, -1⟩] [.idx 1] [.idx 2] ∧
    mergedIndices true 2 [Item.full, .idx 1] [.idx 0] = some [.idx 0, .idx 1] ∧
    compiledChain true [⟨3, 16, -1⟩, ⟨4, 4, -1⟩] [Item.full, .idx 1] [.idx 0] =
      chainSpec [⟨3, 16, -1⟩, ⟨4, 4, -1⟩] [Item.full, .idx 1] [.idx 0] ∧
    mergedIndices true 2 [.slc (some 1) .none .none, Item.full] [.idx 0] = none ∧
    compiledChain true [⟨2, 48, -1⟩, ⟨3, 16, -1⟩, ⟨4, 4, -1⟩] [.idx 1] [.slc .none .none (some (-1)), .idx 2] =
      chainSpec [⟨2, 48, -1⟩, ⟨3, 16, -1⟩, ⟨4, 4, -1⟩] [.idx 1] [.slc .none .none (some (-1)), .idx 2] := by decide

/-- COUNTEREXAMPLE (seeded regression: guard removed): the newaxis is skipped,
`m[None][0]` is compiled as `m[None, 0]` — a shape-(1,) stride-0 view of `m[0]`
instead of the whole of `m`; `m[None][1]` yields `[m[1]]` instead of IndexError. -/
theorem counterexample_merge_skips_newaxis :
    mergedIndices false 1 [.none, Item.full] [.idx 0] = some [.none, .idx 0] ∧
    compiledChain false [⟨5, 4, -1⟩] [.none] [.idx 0] = .ok ⟨[1], [0], 0⟩ ∧
    compiledChain false [⟨5, 4, -1⟩] [.none] [.idx 0] ≠ chainSpec [⟨5, 4, -1⟩] [.none] [.idx 0] ∧
    compiledChain false [⟨5, 4, -1⟩] [.none] [.idx 1] = .ok ⟨[1], [0], 4⟩ := by decide

/-- COUNTEREXAMPLE (code as it exists, with the guard): a `None` of the SECOND
subscript is substituted into a full-slice slot: `a[..., None][:, None]` on a
3x4 buffer gets shape (3,1,1,4) instead of (3,1,4,1). -/
theorem counterexample_merge_later_newaxis :
    compiledChain true [⟨3, 16, -1⟩, ⟨4, 4, -1⟩] [.ell, .none] [Item.full, .none] = .ok ⟨[3, 1, 1, 4], [16, 0, 0, 4], 0⟩ ∧
    chainSpec [⟨3, 16, -1⟩, ⟨4, 4, -1⟩] [.ell, .none] [Item.full, .none] = .ok ⟨[3, 1, 4, 1], [16, 0, 4, 0], 0⟩ := by decide

/-! ## Non-vacuity -/

-- `chain_full_then_item`: a negative-step slice after a full slice on a strided dimension
example : chainSpec [⟨6, 8, -1⟩] [Item.full] [.slc (some (-2)) (some (-6)) (some (-2))] = .ok ⟨[2], [-16], 32⟩ := by decide

-- the repaired variants satisfy the hypothesis of the `…_fixed` theorems
example : Variant.fixed.negClamp = true ∧ Variant.fixed.ceilFix = true := by decide

-- hypotheses of `slice_dim_current_partial` hold for non-trivial arguments (negative non-unit step, negative bounds)
example : ¬ F9Region 6 ⟨-2, -6, -2, true, true, true⟩ ∧ UnitOrNonEmpty 6 ⟨-2, -6, -2, true, true, true⟩ := by
  refine ⟨by unfold F9Region negStep; decide, Or.inr (Or.inr (Or.inr ⟨4, -2, 2, by decide, by decide⟩))⟩

-- … and the conclusion is a non-trivial slice: a[-2:-6:-2] on 6 elements = indices 4, 2
example : specTriple 6 ⟨-2, -6, -2, true, true, true⟩ = .ok (4, -2, 2) ∧
    selected ⟨4, 0, 2⟩ (-2) = [4, 2] := by decide

-- `pyslice_adjust_selects`: non-trivial instance
example : adjustIndices 10 (-3) (-100) (-2) = ⟨7, -1, 4⟩ := by decide

-- `pyslice_unpack_eq_indices`: hypotheses satisfiable with a huge step and None bounds
example : unpackAdjust ssizeMax 5 none none (some (-2)) = indices 5 none none (some (-2)) := by decide

-- `memview_slice_fixed` / `getitem_fixed_ellipsis`: a 3-D strided buffer, index (1, ..., 3:-100:-1)
example : getitem Variant.fixed [⟨2, 96, -1⟩, ⟨3, -32, -1⟩, ⟨5, 8, -1⟩]
      (.tuple [.idx 1, .ell, .slc (some 3) (some (-100)) (some (-1))]) =
    .ok (.view (Dst.direct [3, 4] [-32, -8] 120)) := by decide

-- the same index on the code as it exists drops the last element (F9)
example : getitem Variant.current [⟨2, 96, -1⟩, ⟨3, -32, -1⟩, ⟨5, 8, -1⟩]
      (.tuple [.idx 1, .ell, .slc (some 3) (some (-100)) (some (-1))]) =
    .ok (.view (Dst.direct [3, 3] [-32, -8] 120)) := by decide

-- hypotheses of the `getitem` theorems hold for this input
example : (∀ it ∈ [Item.idx 1] ++ [Item.slc (some 3) (some (-100)) (some (-1))], PlainItem it) := by
  intro it h
  simp only [List.mem_append, List.mem_singleton] at h
  rcases h with h | h <;> subst h <;> simp [PlainItem, OptIn, InSsize, ssizeMax]

-- `getitem_index`: element access with wraparound; out of range is IndexError
example : getitem Variant.current [⟨3, 16, -1⟩, ⟨4, 4, -1⟩] (.tuple [.idx (-1), .idx 2]) = .ok (.scalar [40]) ∧
    getitem Variant.current [⟨3, 16, -1⟩, ⟨4, 4, -1⟩] (.tuple [.idx 3, .idx 2]) = .err "IndexError" := by decide

-- `getitem_fixed_single_slice` / `getitem_single_index`: mv[-2:-6:-2] on 6 strided elements; mv[-1]
example : getitem Variant.fixed [⟨6, 8, -1⟩] (.single (.slc (some (-2)) (some (-6)) (some (-2)))) =
      .ok (.view (Dst.direct [2] [-16] 32)) ∧
    getitem Variant.current [⟨6, 8, -1⟩] (.single (.idx (-1))) = .ok (.scalar [40]) := by decide

-- `buffer_slice_code_fixed`: a[None, ::2, 1] on a 4x3 buffer
example : bufferSliceLoop Variant.fixed ⟨true, true⟩ [⟨4, 12, -1⟩, ⟨3, 4, -1⟩]
      [.none, .slc none none (some 2), .idx 1] Dst.init = .ok (Dst.direct [1, 2] [0, 24] 4) := by decide

-- `view_address_spec` / `view_in_bounds`: element (2, 1) of a[1, :, 3:-100:-1] is source element (1, 2, 2)
example : srcIndex [(⟨2, 96, -1⟩, .point 1), (⟨3, -32, -1⟩, .range ⟨0, 3, 3⟩ 1), (⟨5, 8, -1⟩, .range ⟨3, -1, 4⟩ (-1))]
    [2, 1] = [1, 2, 2] := by decide

end CyVerif.C16

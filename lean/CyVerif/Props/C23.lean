import CyVerif.Lemmas.C23Trace
/-!
# C23 — generators follow CPython's protocol on every history

`cyTrace` is the observable trace (per step: yielded value / StopIteration value / exception incl. the protocol
errors / result of `close` / introspection flags, and the side effects of the body such as executed `finally`
blocks and unraisable errors of finalisers) of a history of `next / send v / throw e / close / gi_* probe / del`
on Cython's generator object (model of Cython/Utility/Coroutine.c + the generated body frame); `pyTrace` is the
same for CPython 3.12's generator object.  Both run the SAME abstract body `B` (any deterministic resumable
machine, including bodies that catch or ignore GeneratorExit, raise StopIteration, delegate with `yield from` to
fresh generators of the same program or to opaque iterators with any subset of `send`/`throw`/`close`, nested to
any depth, and bodies that call methods of their own running generator), for every recursion budget `fuel`.

`Full` (the traces are always equal) is FALSE for the code as it is: four situations, recorded by the CPython
model in `pyDevs`, in which Cython's wrapper answers differently (`counterexample_*`).  `wrapper_refinement_partial`
proves equality on every history in which CPython passes through none of the unrepaired situations; with the three
proposed repairs (`Flags.repaired`) only the StopIteration-into-delegation quirk of CPython 3.12 remains excluded.
-/
namespace CyVerif.C23

variable {σ ι : Type}

def cyStart (s0 : σ) : CyObj σ ι := .gen .created false s0 .null
def pyStart (s0 : σ) : PyObj σ ι := .gen .created s0 .null

/-- Full-strength statement: every body, every opaque-iterator semantics, every history, every budget. -/
def Full (fl : Flags) : Prop :=
  ∀ (σ ι : Type) (B : Body σ ι) (O : OpqSem ι) (fuel : Nat) (s0 : σ) (hist : List HOp),
    cyTrace fl B O fuel (cyStart s0) hist = pyTrace fl.coro B O fuel (pyStart s0) hist

/-- The CPython run of the history passes through none of the situations that are not repaired in `fl`:
`sendNonNoneUnstarted` (non-None sent to a just-started generator), `closeReturnsValue` (the body answers the
GeneratorExit of `close()` by returning a value other than None), `throwStopUnstarted` (StopIteration thrown into a
generator that has not started), `stopIntoDelegation` (a StopIteration reaches a frame suspended in `yield from`
other than as the delegate's own exhaustion: thrown in while the delegate has no `throw`, or raised by the
delegate's `close()`; CPython 3.12's CLEANUP_THROW turns it into the value of the `yield from`). -/
def NoDeviation (fl : Flags) (B : Body σ ι) (O : OpqSem ι) (fuel : Nat) (s0 : σ) (hist : List HOp) : Prop :=
  okDevs fl (pyDevs fl.coro B O fuel (pyStart s0) hist)

/-- Refinement, all bodies × all histories × all budgets, outside the recorded deviation situations. -/
theorem wrapper_refinement_partial (fl : Flags) (B : Body σ ι) (O : OpqSem ι) (fuel : Nat) (s0 : σ) (hist : List HOp)
    (h : NoDeviation fl B O fuel s0 hist) :
    cyTrace fl B O fuel (cyStart s0) hist = pyTrace fl.coro B O fuel (pyStart s0) hist :=
  sim_trace fl B O fuel hist _ _ (.created s0) h

def Flags.repaired : Flags := { fixA := true, fixB := true, fixC := true }

/-- With the three repairs only CPython 3.12's StopIteration-into-delegation conversion remains excluded. -/
theorem wrapper_refinement_repaired (B : Body σ ι) (O : OpqSem ι) (fuel : Nat) (s0 : σ) (hist : List HOp)
    (h : Dev.stopIntoDelegation ∉ pyDevs false B O fuel (pyStart s0) hist) :
    cyTrace Flags.repaired B O fuel (cyStart s0) hist = pyTrace false B O fuel (pyStart s0) hist := by
  apply wrapper_refinement_partial Flags.repaired B O fuel s0 hist
  intro d hd
  cases d with
  | stopIntoDelegation => exact absurd hd h
  | _ => rfl

/-- The simulation behind the theorem, for objects in any related state (suspended inside nested delegations …),
one request of the C-level interface at a time. -/
theorem request_refinement (fl : Flags) (B : Body σ ι) (O : OpqSem ι) (fuel : Nat) (c : CyObj σ ι) (p : PyObj σ ι)
    (req : Req) (h : RelN c p) (hok : ReqOk c req) (hd : okDevs fl (pyRun fl.coro B O fuel p req).devs) :
    (cyRun fl B O fuel c req).out = (pyRun fl.coro B O fuel p req).out ∧
    (cyRun fl B O fuel c req).log = (pyRun fl.coro B O fuel p req).log ∧
    RelN (cyRun fl B O fuel c req).obj (pyRun fl.coro B O fuel p req).obj := by
  obtain ⟨h1, h2, h3⟩ := (sim_run fl B O fuel).nonrun c p req h hok hd
  exact ⟨h1, h2, h3.1⟩

/-! ### the four deviation situations: concrete witnesses (replayed on the real code by the harness) -/

/-- `def g(): x = yield 1; try: x = yield from it  (an iterator without throw/close)`, reacting to GeneratorExit at
the first yield by `return 5` after logging "cleanup" -/
def exBody : Body Nat Unit where
  resume s inp := match s, inp with
    | 0, .send _ => ([], .yield 1 1)
    | 1, .throw .generatorExit => (["cleanup"], .ret 5)
    | 1, .throw e => ([], .raise e)
    | 1, .send _ => ([], .delegate (.opq ()) 2)
    | 2, .send v => ([], .ret v)
    | 2, .throw e => ([], .raise e)
    | _, _ => ([], .ret 0)

def exOpq : OpqSem Unit :=
  { next := fun _ => ([], .val 1, ()), send := fun _ => none, throw := fun _ => none, close := fun _ => none }

/-- `g.send(5)` on a new generator raises TypeError in both, but Cython's generator is finished afterwards. -/
theorem counterexample_send_unstarted :
    cyTrace {} exBody exOpq 5 (cyStart 0) [.op (.send 5), .op .next] =
      [(.raised (.typeError .justStarted), []), (.raised (.stopIteration 0), []), (.deleted, [])] ∧
    pyTrace false exBody exOpq 5 (pyStart 0) [.op (.send 5), .op .next] =
      [(.raised (.typeError .justStarted), []), (.yielded 1, []), (.deleted, [.tag "cleanup"])] := by decide

/-- `close()` while the body returns 5 on GeneratorExit: RuntimeError("generator ignored GeneratorExit") in Cython. -/
theorem counterexample_close_returns_value :
    cyTrace {} exBody exOpq 5 (cyStart 0) [.op .next, .op .close] =
      [(.yielded 1, []), (.raised (.runtimeError .ignoredExit), [.tag "cleanup"]), (.deleted, [])] ∧
    pyTrace false exBody exOpq 5 (pyStart 0) [.op .next, .op .close] =
      [(.yielded 1, []), (.closed, [.tag "cleanup"]), (.deleted, [])] := by decide

/-- `g.throw(StopIteration)` on a new generator: Cython converts it to RuntimeError (PEP 479), CPython does not. -/
theorem counterexample_throw_stop_unstarted :
    cyTrace {} exBody exOpq 5 (cyStart 0) [.op (.throw (.stopIteration 0))] =
      [(.raised (.runtimeError .raisedStop), []), (.deleted, [])] ∧
    pyTrace false exBody exOpq 5 (pyStart 0) [.op (.throw (.stopIteration 0))] =
      [(.raised (.stopIteration 0), []), (.deleted, [])] := by decide

/-- `g.throw(StopIteration(3))` while `g` is suspended in `yield from it` and `it` has no `throw`: CPython 3.12 makes
3 the value of the `yield from`, Cython raises the StopIteration inside the body. -/
theorem counterexample_stop_into_delegation :
    cyTrace {} exBody exOpq 5 (cyStart 0) [.op .next, .op .next, .op (.throw (.stopIteration 3))] =
      [(.yielded 1, []), (.yielded 1, []), (.raised (.runtimeError .raisedStop), []), (.deleted, [])] ∧
    pyTrace false exBody exOpq 5 (pyStart 0) [.op .next, .op .next, .op (.throw (.stopIteration 3))] =
      [(.yielded 1, []), (.yielded 1, []), (.raised (.stopIteration 3), []), (.deleted, [])] := by decide

/-- The full statement is false for the code as it is … -/
theorem full_false : ¬ Full {} := by
  intro h
  have := h Nat Unit exBody exOpq 5 0 [.op (.send 5), .op .next]
  revert this
  decide

/-- … and stays false after the three repairs (generator objects), because of the fourth situation. -/
theorem full_false_repaired (fl : Flags) (hk : fl.coro = false) : ¬ Full fl := by
  intro h
  have := h Nat Unit exBody exOpq 5 0 [.op .next, .op .next, .op (.throw (.stopIteration 3))]
  revert this
  rcases fl with ⟨a, b, c, k⟩
  simp only at hk
  subst hk
  cases a <;> cases b <;> cases c <;> decide

/-! ### non-vacuity: histories through delegation, close and del that satisfy the hypothesis -/

example : NoDeviation {} exBody exOpq 6 0 [.op .next, .op .next, .op (.send 2), .op (.throw .generatorExit), .op .next] := by
  unfold NoDeviation okDevs; decide

example : cyTrace {} exBody exOpq 6 (cyStart 0) [.op .next, .op .next, .op (.send 2), .op (.throw .generatorExit), .op .next] =
    [(.yielded 1, []), (.yielded 1, []), (.raised .attributeError, []), (.raised .generatorExit, []),
     (.raised (.stopIteration 0), []), (.deleted, [])] := by decide

example : Dev.stopIntoDelegation ∉ pyDevs false exBody exOpq 6 (pyStart 0) [.op .next, .op .close, .op (.send 1)] := by decide

/-! ### cleanup exactly once, finished objects are inert, running objects reject re-entrant calls -/

/-- Dropping the last reference to a generator suspended at a plain `yield` delivers GeneratorExit to the body
exactly once: the log is exactly what the body does on that one resumption (its `finally` blocks), nothing is
reported as unraisable, and the object is gone. -/
theorem del_cleanup_once_cy (fl : Flags) (B : Body σ ι) (O : OpqSem ι) (n : Nat) (st : σ) (tg : List String)
    (h : B.resume st (.throw .generatorExit) = (tg, .raise .generatorExit)) :
    cyRun fl B O (n + 2) (.gen .suspended false st .null) .del = ⟨.ret 0, .null, tags tg, []⟩ := by
  simp [cyRun, cyF, cyDel, cyClose, cySendEx, cyBody, h, cyCloseResult, R.bind, R.pre, R.mapOut, cyUnset, closeStatus,
    pep479, CyObj.setRunning, CyObj.yieldfrom]

theorem del_cleanup_once_py (B : Body σ ι) (O : OpqSem ι) (n : Nat) (st : σ) (tg : List String)
    (h : B.resume st (.throw .generatorExit) = (tg, .raise .generatorExit)) :
    pyRun false B O (n + 2) (.gen .suspended st .null) .del = ⟨.ret 0, .null, tags tg, []⟩ := by
  simp [pyRun, pyF, pyDel, pyClose, pyYf, pySendEx2, pyEval, pyBody, h, pyCloseResult, R.bind, R.pre, R.mapOut, closeStatus,
    pep479, PyObj.yieldfrom]

/-- A finished generator never runs its body again: every method leaves it finished and logs nothing … -/
theorem finished_inert (fl : Flags) (B : Body σ ι) (O : OpqSem ι) (n : Nat) (st : σ) (op : Op) :
    (cyMethod (cyRun fl B O (n + 1)) (.gen .finished false st .null) op).2 = (.gen .finished false st .null, []) := by
  cases op with
  | probe => simp [cyMethod]
  | next => simp [cyMethod, reqOfOp, cyRun, cyF, cyAmSend, cySendEx, R.mapOut, cyUnset]; split <;> simp [CyObj.setRunning]
  | send v => simp [cyMethod, reqOfOp, cyRun, cyF, cyAmSend, cySendEx, cyUnset]; split <;> simp [CyObj.setRunning]
  | throw e => simp [cyMethod, reqOfOp, cyRun, cyF, cyThrow, cySendEx, R.mapOut, cyUnset]; split <;> simp [CyObj.setRunning]
  | close => simp [cyMethod, reqOfOp, cyRun, cyF, cyClose, cySendEx, cyCloseResult, R.mapOut, cyUnset, CyObj.setRunning]

/-- … and its deallocation is silent. -/
theorem finished_del_silent (fl : Flags) (B : Body σ ι) (O : OpqSem ι) (n : Nat) (st : σ) :
    cyRun fl B O (n + 2) (.gen .finished false st .null) .del = ⟨.ret 0, .null, [], []⟩ := by
  simp [cyRun, cyF, cyDel, R.bind, R.pre]

/-- Any method called on a running generator (by its own body) raises ValueError("generator already executing")
and changes nothing (`is_running` stays set, the body is not entered). -/
theorem running_rejects (fl : Flags) (B : Body σ ι) (O : OpqSem ι) (n : Nat) (l : Label) (st : σ) (op : Op) (hop : op ≠ .probe) :
    cyMethod (cyRun fl B O (n + 1)) (.gen l true st .null) op =
      (.raised (.valueError .alreadyExecuting), .gen l true st .null, []) := by
  cases op <;>
    simp_all [cyMethod, reqOfOp, outOfOp, outOfRes, methodReturn, cyRun, cyF, cyAmSend, cyThrow, cyClose, alreadyRunning,
      R.mapOut, closeStatus]

end CyVerif.C23

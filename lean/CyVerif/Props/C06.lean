import CyVerif.Model.C06
import CyVerif.Lemmas.C06Bytes
import CyVerif.Lemmas.C06Uni
import CyVerif.Lemmas.C06Buf
import CyVerif.Lemmas.C06ArithTab
/-!
# C06 — `float(x)` of str / bytes / bytearray and `%`, `//`, `/`, `divmod` on C doubles agree with CPython

Part (a), strings.  `cyFloatBytes P s` / `cyFloatStr P T s` is what `float(x)` evaluates to in compiled code
(`Res Num`: the text or special value handed to / produced instead of `PyOS_string_to_double`, or `ValueError`),
built from the three outcomes of the C fast path (`fast v` | `fallback` to `PyFloat_FromString` | its own
`ValueError`); `pyBytes s` / `pyStr T s` is CPython.  `P` are the parameters of the C code (re-extracted from
the generated C on every run): which rule the `_Copy` loops apply around `_`, the unicode loop bound, the
ASCII characters the unicode path trims, buffer sizes.  `T` are the interpreter's Unicode tables.
All statements are for every string of any length.

Part (b), arithmetic, is on the IEEE class abstraction of `Model/C06Arith.lean`.
-/
namespace CyVerif.C06

/-! ## (a) bytes, bytearray, ASCII str -/

/-- **Full-strength statement** for the bytes route. -/
def FullBytes (P : Params) : Prop := ∀ s : List Nat, cyFloatBytes P s = pyBytes s

/-- Digit rule in `__Pyx__PyBytes_AsDouble_Copy` (the repaired code): full strength. -/
theorem bytes_float_eq (P : Params) (h : P.ruleB = .digits) : FullBytes P := by
  intro s
  exact cyFloatBytes_eq P s (h ▸ ruleSound_digits _)

/-- The punctuation automaton is also right once `+` and `-` count as punctuation (one-line repair). -/
theorem bytes_float_eq_punct_with_signs (P : Params) (S : List Nat) (h : P.ruleB = .punct S)
    (hS : S.contains 95 = true ∧ S.contains 46 = true ∧ S.contains 101 = true ∧ S.contains 69 = true)
    (hsign : S.contains 43 = true ∧ S.contains 45 = true) : FullBytes P := by
  intro s
  exact cyFloatBytes_eq P s (h ▸ ruleSound_punct S hS _ (Or.inl hsign))

/-- The pinned automaton (`_ . e E`): right on every string with no `_` directly beside a `+` or `-`. -/
theorem bytes_float_eq_partial (P : Params) (S : List Nat) (h : P.ruleB = .punct S)
    (hS : S.contains 95 = true ∧ S.contains 46 = true ∧ S.contains 101 = true ∧ S.contains 69 = true)
    (s : List Nat) (hadj : noUSSign s = true) : cyFloatBytes P s = pyBytes s :=
  cyFloatBytes_eq P s (h ▸ ruleSound_punct S hS _ (Or.inr (noUSSign_region hadj)))

/-- `float(b"1e+_5")`: compiled code returns 100000.0 (text `1e+5`), CPython raises ValueError. -/
theorem bytes_float_counterexample : ¬ FullBytes pinned := by
  intro h
  have := h [49, 101, 43, 95, 53]
  revert this
  decide

/-- what the witness evaluates to -/
example : cyFloatBytes pinned [49, 101, 43, 95, 53] = .ok (.dec [49, 101, 43, 53]) ∧
    pyBytes [49, 101, 43, 95, 53] = .err "ValueError" := by decide

/-- Soundness of the fast path (DESIGN `accept_sound`): a value returned without consulting CPython is
CPython's value. -/
theorem bytes_fast_sound (P : Params) (s : List Nat) (hfull : cyFloatBytes P s = pyBytes s) {v : Num}
    (h : cyBytes P s = .fast v) : pyBytes s = .ok v := by
  rw [← hfull]; simp [cyFloatBytes, h, resolve]

/-- Nothing CPython accepts is rejected: the fast path returns the same value or defers to CPython. -/
theorem bytes_never_rejects (P : Params) (s : List Nat) (hfull : cyFloatBytes P s = pyBytes s) {v : Num}
    (h : pyBytes s = .ok v) : cyBytes P s = .fast v ∨ cyBytes P s = .fallback := by
  unfold cyFloatBytes at hfull
  rw [h] at hfull
  cases hc : cyBytes P s with
  | fast w => rw [hc] at hfull; simp [resolve] at hfull; left; rw [hfull]
  | fallback => right; rfl
  | valueError => rw [hc] at hfull; simp [resolve] at hfull

/-- non-vacuity: accepted with underscores through the fast path, rejected by both, deferred -/
example : cyBytes repaired [32, 49, 95, 48, 46, 53, 101, 45, 51, 9] = .fast (.dec [49, 48, 46, 53, 101, 45, 51]) ∧
    pyBytes [32, 49, 95, 48, 46, 53, 101, 45, 51, 9] = .ok (.dec [49, 48, 46, 53, 101, 45, 51]) ∧
    noUSSign [32, 49, 95, 48, 46, 53, 101, 45, 51, 9] = true := by decide
example : cyBytes repaired [49, 101, 43, 95, 53] = .fallback ∧ cyBytes repaired [43, 46] = .valueError ∧
    cyBytes pinned [45, 73, 110, 70] = .fast (.inf true) ∧ pyBytes [45, 73, 110, 70] = .ok (.inf true) := by decide

/-! ## (a) str -/

/-- **Full-strength statement** for str. -/
def FullStr (P : Params) (T : UTab) : Prop := ∀ s : List Nat, cyFloatStr P T s = pyStr T s

theorem spaceOK_wf (P : Params) (T : UTab) (h : P.uniAsciiSpace = [9, 10, 11, 12, 13, 32]) (s : List Nat) :
    SpaceOK T (isSpaceU P T) s := by
  refine ⟨fun c _ hc hp => ?_, fun c hc => ?_, fun c hc => ?_⟩
  · simp only [isSpaceU, hc, if_true, h] at hp
    simp only [List.contains_iff_mem, List.mem_cons, List.mem_nil_iff, or_false] at hp
    rcases hp with e | e | e | e | e | e <;> subst e <;> rfl
  · simp [isSpaceU, show ¬ c < 128 by omega]
  · rcases isSpaceB_cases hc with e | e | e | e | e | e <;> subst e <;> simp [isSpaceU, h]

/-- The repaired code (`Params.WF`): full strength for every str, ASCII or not. -/
theorem str_float_eq (P : Params) (T : UTab) (hP : P.WF) (hT : T.WF) : FullStr P T := by
  intro s
  obtain ⟨hB, hU, hinc, hsp, _⟩ := hP
  unfold cyFloatStr cyStr pyStr
  by_cases ha : isAscii s = true
  · simp only [ha, if_true]
    exact bytes_float_eq P hB s
  · simp only [ha, Bool.false_eq_true, if_false]
    exact cyUni_eq P T s hT (spaceOK_wf P T hsp s) (fun _ => hU ▸ ruleSound_digits _)

theorem spaceOK_pinned (P : Params) (T : UTab)
    (h : P.uniAsciiSpace = [9, 10, 11, 12, 13, 28, 29, 30, 31, 32]) (s : List Nat)
    (hs : ∀ c ∈ s, ¬ (28 ≤ c ∧ c ≤ 31)) : SpaceOK T (isSpaceU P T) s := by
  refine ⟨fun c hcs hc hp => ?_, fun c hc => ?_, fun c hc => ?_⟩
  · simp only [isSpaceU, hc, if_true, h] at hp
    simp only [List.contains_iff_mem, List.mem_cons, List.mem_nil_iff, or_false] at hp
    have := hs c hcs
    rcases hp with e | e | e | e | e | e | e | e | e | e <;> subst e <;> first | rfl | omega
  · simp [isSpaceU, show ¬ c < 128 by omega]
  · rcases isSpaceB_cases hc with e | e | e | e | e | e <;> subst e <;> simp [isSpaceU, h]

/-- The pinned tree (`_ . e E` automaton for bytes, inclusive unicode loop, `Py_UNICODE_ISSPACE` trimming):
right on every str with no `_` beside a sign and without the separators U+001C..U+001F. -/
theorem str_float_eq_partial (P : Params) (T : UTab) (hT : T.WF) (S : List Nat) (hB : P.ruleB = .punct S)
    (hS : S.contains 95 = true ∧ S.contains 46 = true ∧ S.contains 101 = true ∧ S.contains 69 = true)
    (hinc : P.uniInclusive = true)
    (hsp : P.uniAsciiSpace = [9, 10, 11, 12, 13, 28, 29, 30, 31, 32])
    (s : List Nat) (hadj : noUSSign s = true) (hsep : ∀ c ∈ s, ¬ (28 ≤ c ∧ c ≤ 31)) :
    cyFloatStr P T s = pyStr T s := by
  unfold cyFloatStr cyStr pyStr
  by_cases ha : isAscii s = true
  · simp only [ha, if_true]
    exact bytes_float_eq_partial P S hB hS s hadj
  · simp only [ha, Bool.false_eq_true, if_false]
    exact cyUni_eq P T s hT (spaceOK_pinned P T hsp s hsep) (fun h => by rw [hinc] at h; exact absurd h (by simp))

/-- a small table for the witnesses: NEL, NBSP, EM SPACE; ARABIC-INDIC DIGIT ZERO -/
def demoTab : UTab := ⟨[133, 160, 8195], [1632]⟩

/-- `float("\x1cinf\xa0")`: compiled code returns inf, CPython raises ValueError (U+001C is not stripped by
`float()`, but by `Py_UNICODE_ISSPACE`). -/
theorem str_float_counterexample : ¬ FullStr pinned demoTab := by
  intro h
  have := h [28, 105, 110, 102, 160]
  revert this
  decide

example : demoTab.WF ∧ cyFloatStr pinned demoTab [28, 105, 110, 102, 160] = .ok (.inf false) ∧
    pyStr demoTab [28, 105, 110, 102, 160] = .err "ValueError" := by decide

/-- the pinned unicode path with its loop bound repaired alone would accept `"\xa01e_5"` (its automaton only
knows `_` and `.`): the three repairs belong together -/
example : cyFloatStr { pinned with uniInclusive := false } demoTab [160, 49, 101, 95, 53] = .ok (.dec [49, 101, 53]) ∧
    pyStr demoTab [160, 49, 101, 95, 53] = .err "ValueError" := by decide

/-- With the inclusive loop bound (`i <= end`) the numeric fast path for non-ASCII strings is dead code:
the copied text ends with the character after the region, so `end == last` never holds. -/
theorem unicode_numeric_fast_path_dead (P : Params) (T : UTab) (s : List Nat)
    (ok : SpaceOK T (isSpaceU P T) s) (hinc : P.uniInclusive = true) {v : Num}
    (h : cyUni P T s = .fast v) : ∃ neg, v = .inf neg ∨ v = .nan neg :=
  cyUni_inclusive_not_fast_numeric P T s ok hinc h

/-- non-vacuity: non-ASCII spaces around digits, underscores, non-ASCII digits -/
example : cyStr repaired demoTab [160, 49, 95, 48, 8195] = .fast (.dec [49, 48]) ∧
    pyStr demoTab [160, 49, 95, 48, 8195] = .ok (.dec [49, 48]) ∧
    cyStr pinned demoTab [160, 49, 95, 48, 8195] = .fallback ∧
    cyStr repaired demoTab [1633, 46, 1637] = .fallback ∧ pyStr demoTab [1633, 46, 1637] = .ok (.dec [49, 46, 53]) ∧
    repaired.WF := by decide

/-! ## (a) buffers of the copy loops -/

/-- bytes: the `digits + 1` bytes written fit the stack array / the allocation -/
theorem bytes_copy_in_bounds (P : Params) (h : P.thrB ≤ P.arrB ∧ 1 ≤ P.extraB) (r : List Nat) :
    bCopyWritten r ≤ bCap P r := by
  unfold bCopyWritten bCap
  simp only
  split <;> omega

/-- unicode, exclusive loop bound: at most `length + 1` bytes are written, which fit -/
theorem unicode_copy_in_bounds (P : Params) (hinc : P.uniInclusive = false)
    (h : P.thrU ≤ P.arrU ∧ 1 ≤ P.extraU) (r tl : List Nat) :
    uCopyWritten P.ruleU (uniVisited P r tl) ≤ uCap P r := by
  have := uCopyWritten_le P.ruleU r
  simp only [uniVisited, hinc, Bool.false_eq_true, if_false]
  unfold uCap
  split <;> omega

/-- pinned tree, `float("\xa0" + "1"*39)`: 41 bytes are written into `char number[40]`; with 40 digits,
42 bytes into a 41-byte allocation -/
theorem unicode_copy_overflow_pinned :
    uCopyWritten pinned.ruleU (uniVisited pinned (List.replicate 39 49) []) = 41 ∧
    uCap pinned (List.replicate 39 49) = 40 ∧
    uCopyWritten pinned.ruleU (uniVisited pinned (List.replicate 40 49) []) = 42 ∧
    uCap pinned (List.replicate 40 49) = 41 := by decide

/-! ## (b) `%`, `//`, `/`, `divmod` on C doubles — IEEE classes

`a`, `b` range over the seven classes, `rel` over what the classes leave open for finite non-zero operands.
`cy…` is the emitted code, `py…` is `floatobject.c`.  Everything below is decided on the complete table. -/

/-- ZeroDivisionError is raised exactly for a zero divisor (±0; not for NaN), by every operator, both sides. -/
theorem zero_division_exact (v : Variant) (a b : FC) (rel : Rel) :
    (cyMod v a b rel = .err zde ↔ b.isZero = true) ∧ (pyMod a b rel = .err zde ↔ b.isZero = true) ∧
    (cyFloorDiv v a b rel = .err zde ↔ b.isZero = true) ∧ (pyFloorDiv a b rel = .err zde ↔ b.isZero = true) ∧
    (cyTrueDiv a b rel = .err zde ↔ b.isZero = true) ∧ (cyDivmod a b rel = .err zde ↔ b.isZero = true) := by
  unfold cyMod pyMod cyFloorDiv pyFloorDiv cyTrueDiv cyDivmod
  cases h : b.isZero <;> simp

/-- **Full-strength statements.** -/
def FullMod (v : Variant) : Prop := ∀ a b rel, cyMod v a b rel = pyMod a b rel
def FullFloorDiv (v : Variant) : Prop := ∀ a b rel, cyFloorDiv v a b rel = pyFloorDiv a b rel

/-- `ModFloat` written like `float_rem` (the repaired code): full strength. -/
theorem mod_eq_port : FullMod .port := by
  intro a b rel; rfl

/-- Pinned `ModFloat` (`r += ((r != 0) & ((r < 0) ^ (b < 0))) * b`): equal to `float_rem` exactly outside
`modExcluded` (infinite divisor with a zero or same-signed dividend; zero remainder of a non-negative dividend
under a negative finite divisor). -/
theorem mod_eq_partial (a b : FC) (rel : Rel) :
    cyMod .pinned a b rel = pyMod a b rel ↔ modExcluded a b rel = false := by
  have := forall_of_table
    (fun a b rel => decide (cyMod .pinned a b rel = pyMod a b rel ↔ modExcluded a b rel = false))
    (by decide) a b rel
  exact of_decide_eq_true this

/-- `1.0 % inf` → NaN (CPython 1.0); `4.0 % -2.0` → +0.0 (CPython −0.0); `0.0 % -1.0` → +0.0 (CPython −0.0) -/
theorem mod_counterexamples : ¬ FullMod .pinned ∧
    cyMod .pinned (.fin false) (.inf false) (.small false) = .ok .nan ∧
    pyMod (.fin false) (.inf false) (.small false) = .ok (.fin false) ∧
    cyMod .pinned (.fin false) (.fin true) (.multiple false) = .ok (.zero false) ∧
    pyMod (.fin false) (.fin true) (.multiple false) = .ok (.zero true) ∧
    cyMod .pinned (.zero false) (.fin true) (.small false) = .ok (.zero false) ∧
    pyMod (.zero false) (.fin true) (.small false) = .ok (.zero true) := by
  refine ⟨fun h => ?_, by decide⟩
  have := h (.fin false) (.inf false) (.small false)
  revert this; decide

/-- non-vacuity of the partial theorem: −7.5 % 2.0, 7.5 % −inf, −0.0 % 1.0 are inside -/
example : modExcluded (.fin true) (.fin false) (.other false false) = false ∧
    modExcluded (.fin false) (.inf true) (.small false) = false ∧
    modExcluded (.zero true) (.fin false) (.small false) = false ∧
    cyMod .pinned (.fin false) (.inf true) (.small false) = .ok (.inf true) := by decide

/-- float floor division written like `_float_div_mod` (the repaired code): full strength. -/
theorem floordiv_eq_port : FullFloorDiv .port := by
  intro a b rel; rfl

/-- Pinned `floor(a / b)`: same class as `float_floor_div` exactly outside `floorExcluded` (infinite dividend
with finite divisor; infinite divisor or underflowing quotient with operands of opposite sign; one of the two
quotients overflowing alone).  Inside a class the *values* still differ (`1.0 // 0.1` is 10.0, CPython 9.0):
that is outside the abstraction and reported by the differential run. -/
theorem floordiv_eq_partial (a b : FC) (rel : Rel) :
    cyFloorDiv .pinned a b rel = pyFloorDiv a b rel ↔ floorExcluded a b rel = false := by
  have := forall_of_table
    (fun a b rel => decide (cyFloorDiv .pinned a b rel = pyFloorDiv a b rel ↔ floorExcluded a b rel = false))
    (by decide) a b rel
  exact of_decide_eq_true this

/-- `-1.0 // inf` → −0.0 (CPython −1.0); `inf // 1.0` → inf (CPython NaN); `-5e-324 // 1e308` → −0.0 (CPython −1.0) -/
theorem floordiv_counterexamples : ¬ FullFloorDiv .pinned ∧
    cyFloorDiv .pinned (.fin true) (.inf false) (.small false) = .ok (some (.zero true)) ∧
    pyFloorDiv (.fin true) (.inf false) (.small false) = .ok (some (.fin true)) ∧
    cyFloorDiv .pinned (.inf false) (.fin false) (.small false) = .ok (some (.inf false)) ∧
    pyFloorDiv (.inf false) (.fin false) (.small false) = .ok (some .nan) ∧
    cyFloorDiv .pinned (.fin true) (.fin false) (.small true) = .ok (some (.zero true)) ∧
    pyFloorDiv (.fin true) (.fin false) (.small true) = .ok (some (.fin true)) := by
  refine ⟨fun h => ?_, by decide⟩
  have := h (.fin true) (.inf false) (.small false)
  revert this; decide

example : floorExcluded (.fin true) (.fin false) (.small false) = false ∧
    cyFloorDiv .pinned (.fin true) (.fin false) (.small false) = .ok (some (.fin true)) ∧
    floorExcluded (.zero true) (.inf false) (.small false) = false := by decide

/-- the class of CPython's quotient is always determined (the undetermined `div - 1.0` of a positive `div`
is never evaluated) -/
theorem floordiv_determined (a b : FC) (rel : Rel) : pyQuot a b rel ≠ none := by
  have := forall_of_table (fun a b rel => decide (pyQuot a b rel ≠ none)) (by decide) a b rel
  simpa using this

/-- `divmod(a, b)` on C doubles (`__Pyx_divmod_float_double`) is `_float_div_mod`: full strength. -/
theorem divmod_eq (a b : FC) (rel : Rel) : cyDivmod a b rel = pyDivmod a b rel := by
  have := forall_of_table (fun a b rel => decide (cyDivmod a b rel = pyDivmod a b rel)) (by decide) a b rel
  simpa using this

/-- `a / b` (cdivision off): the same zero test and the same C division. -/
theorem truediv_eq (a b : FC) (rel : Rel) : cyTrueDiv a b rel = pyTrueDiv a b rel := rfl

/-- The remainder has the sign of the divisor or is NaN (Python's contract), for CPython and the port. -/
theorem rem_sign (a b : FC) (rel : Rel) (hb : b.isZero = false) (hn : (pyRem a b rel).isNan = false) :
    (pyRem a b rel).signbit = b.signbit := by
  have := forall_of_table
    (fun a b rel => decide (b.isZero = false → (pyRem a b rel).isNan = false → (pyRem a b rel).signbit = b.signbit))
    (by decide) a b rel
  simp only [decide_eq_true_eq] at this
  exact this hb hn

end CyVerif.C06

import CyVerif.Lemmas.C29
/-! # C29 — automatic pickling of extension types round-trips: property theorems -/
namespace CyVerif.C29

/-- Attribute names of the whole inheritance chain are pairwise distinct (the compiler rejects a redeclaration). -/
def WF (K : Klass) : Prop := ((layout K).map (·.1)).Nodup

/-- `o` is an instance of the class (or of a Python subclass: `tname`, `dict` are arbitrary) whose C slots follow
the layout and hold legal contents for their declared types. -/
def WT (K : Klass) (o : Obj) : Prop :=
  o.slots.map (·.1) = (layout K).map (·.1) ∧
    ∀ e ∈ layout K, ∃ c, lookupSlot o.slots e.1 = some c ∧ wtVal e.2 c = true

/-- No attribute holds a Cython memoryview object (which `pickle` refuses). -/
def Picklable (o : Obj) : Prop := ∀ k c, lookupSlot o.slots k = some c → picklable c = true

def NoMemview (K : Klass) : Prop := ∀ e ∈ layout K, e.2 ≠ .memview

/-- Every attribute type survives `toPy`/`fromPy` in variant `cfg`: no `char*`, no memoryview, `char[n]` only in the
variant that pickles exactly `n` bytes. -/
def SafeTypes (cfg : Cfg) (K : Klass) : Prop := ∀ e ∈ layout K, safeTy cfg e.2 = true

/-- FULL-STRENGTH statement: every instance of every class for which the pickle methods are generated round-trips
(all attribute values, runtime type and `__dict__` preserved). -/
def FullRoundTrip (cfg : Cfg) : Prop :=
  ∀ (H : Hash) (K : Klass) (ms : List (String × Ty)) (o : Obj),
    decide' cfg K = .generate ms → WF K → WT K o → Picklable o → NoMemview K →
    roundtrip cfg H K K o.dict.isSome o = .ok o

theorem generate_members (cfg : Cfg) (K : Klass) (ms : List (String × Ty)) (h : decide' cfg K = .generate ms) :
    ms = members K := by
  unfold decide' at h
  repeat' (split at h)
  all_goals try (dsimp only at h)
  repeat' (split at h)
  all_goals first
    | (injection h with h; exact h.symm)
    | (exact absurd h (by simp))

theorem mem_members_iff (K : Klass) (e : String × Ty) : e ∈ members K ↔ e ∈ layout K :=
  (members_perm_layout K).mem_iff

theorem fresh_keys (K : Klass) (tn : String) (hd : Bool) :
    (fresh K tn hd).slots.map (·.1) = (layout K).map (·.1) := by
  simp [fresh, List.map_map, Function.comp_def]

/-- Core of the round trip: reading the state of `o` and assigning it into a fresh instance rebuilds `o`'s slots. -/
theorem setstate_reads (cfg : Cfg) (K : Klass) (o : Obj) (tn : String) (hd : Bool) (rest : List PyVal)
    (hwf : WF K) (hwt : WT K o) (hp : Picklable o) (hs : SafeTypes cfg K) :
    ∃ vs, readState cfg o.slots (members K) = .ok vs ∧
      assignAll (members K) (vs ++ rest) (fresh K tn hd).slots = .ok (o.slots, rest) ∧
      transport vs = .ok vs ∧ (∀ v ∈ vs, isRef v = true → anyNotNone o.slots (members K) = true) := by
  have hok : ∀ e ∈ members K, OkSlot cfg o.slots e := by
    intro e he
    have hl := (mem_members_iff K e).mp he
    obtain ⟨c, hc, hw⟩ := hwt.2 e hl
    exact ⟨c, hc, hw, hs e hl, hp _ _ hc⟩
  obtain ⟨vs, cur', hr, ha, hk, hlk, htr, hrf⟩ :=
    assign_read cfg o.slots (members K) (fresh K tn hd).slots rest (by rw [fresh_keys, hwt.1]) hok
  have hcur : cur' = o.slots := by
    apply slots_ext cur' o.slots hk (by rw [hk, hwt.1]; exact hwf)
    intro k hkm
    rw [hlk k]
    have : k ∈ (members K).map (·.1) := by
      rw [hk, hwt.1] at hkm
      exact ((members_perm_layout K).map _).mem_iff.mpr hkm
    simp [this]
  subst hcur
  exact ⟨vs, hr, ha, htr, hrf⟩

theorem accepted_primary (H : Hash) (t : List Char) : H.sha256 t ∈ H.accepted t := by
  simp [Hash.accepted]

theorem fresh_dict (K : Klass) (tn : String) (hd : Bool) : (fresh K tn hd).dict = if hd then some [] else none := rfl

theorem fresh_tname (K : Klass) (tn : String) (hd : Bool) : (fresh K tn hd).tname = tn := rfl

theorem not_selfref_of_no_ref (vs : List PyVal) (h : ∀ v ∈ vs, isRef v = false) : hasSelfRef vs = false := by
  induction vs with
  | nil => rfl
  | cons v t ih =>
    have hv := h v (by simp)
    have ht := ih (fun w hw => h w (by simp [hw]))
    simp only [hasSelfRef, List.any_cons, Bool.or_eq_false_iff] at ht ⊢
    refine ⟨?_, ht⟩
    cases v <;> simp_all [isRef]

theorem transport_append_dict (vs : List PyVal) (kv : List (String × Atom)) (h : transport vs = .ok vs) :
    transport (vs ++ [.dict kv]) = .ok (vs ++ [.dict kv]) := by
  induction vs with
  | nil => simp [transport, transportVal]
  | cons v t ih =>
    simp only [List.cons_append, transport] at h ⊢
    cases hv : transportVal v with
    | err e => simp [hv] at h
    | ok v' =>
      cases ht : transport t with
      | err e => simp [hv, ht] at h
      | ok t' =>
        simp [hv, ht] at h
        obtain ⟨h1, h2⟩ := h
        subst h1 h2
        simp [ih ht]

/-- PARTIAL (all variants): for ALL classes (any inheritance depth, any number / order / distribution of attributes
over the chain), ALL instances incl. Python-subclass instances with any `__dict__`: pickling and unpickling gives the
instance back — provided the attribute types are in the surviving set of the variant. -/
theorem roundtrip_partial (cfg : Cfg) (H : Hash) (K : Klass) (ms : List (String × Ty)) (o : Obj)
    (hd : decide' cfg K = .generate ms) (hwf : WF K) (hwt : WT K o) (hp : Picklable o) (hs : SafeTypes cfg K) :
    roundtrip cfg H K K o.dict.isSome o = .ok o := by
  have hms := generate_members cfg K ms hd
  subst hms
  obtain ⟨tn, slots, dict⟩ := o
  rcases hdict : dict with _ | (_ | ⟨e, d⟩)
  all_goals subst hdict
  · -- no __dict__
    obtain ⟨vs, hr, ha, htr, hrf⟩ := setstate_reads cfg K ⟨tn, slots, none⟩ tn false [] hwf hwt hp hs
    simp only [List.append_nil] at ha
    by_cases hann : anyNotNone slots (members K) = true
    · simp [roundtrip, reduce, hd, reduceGen, hr, hann, htr, unpickle, accepted_primary, setState, ha, updateDict,
        fresh_dict, fresh_tname]
    · have hnr : hasSelfRef vs = false := not_selfref_of_no_ref vs (fun v hv => by
        cases hvr : isRef v with
        | false => rfl
        | true => exact absurd (hrf v hv hvr) hann)
      simp [roundtrip, reduce, hd, reduceGen, hr, hann, htr, unpickle, accepted_primary, setState, ha, updateDict,
        fresh_dict, fresh_tname, hnr]
  · -- empty __dict__
    obtain ⟨vs, hr, ha, htr, hrf⟩ := setstate_reads cfg K ⟨tn, slots, some []⟩ tn true [] hwf hwt hp hs
    simp only [List.append_nil] at ha
    by_cases hann : anyNotNone slots (members K) = true
    · simp [roundtrip, reduce, hd, reduceGen, hr, hann, htr, unpickle, accepted_primary, setState, ha, updateDict,
        fresh_dict, fresh_tname]
    · have hnr : hasSelfRef vs = false := not_selfref_of_no_ref vs (fun v hv => by
        cases hvr : isRef v with
        | false => rfl
        | true => exact absurd (hrf v hv hvr) hann)
      simp [roundtrip, reduce, hd, reduceGen, hr, hann, htr, unpickle, accepted_primary, setState, ha, updateDict,
        fresh_dict, fresh_tname, hnr]
  · -- non-empty __dict__ (cdef class with `__dict__` or Python subclass instance)
    obtain ⟨vs, hr, ha, htr, hrf⟩ :=
      setstate_reads cfg K ⟨tn, slots, some (e :: d)⟩ tn true [.dict (e :: d)] hwf hwt hp hs
    simp [roundtrip, reduce, hd, reduceGen, hr, transport_append_dict vs (e :: d) htr, unpickle, accepted_primary,
      setState, ha, updateDict, fresh_dict, fresh_tname, truthy, dictUpdate]

/-- Corollary in the words of the property: runtime type and `__dict__` of a (Python subclass) instance survive. -/
theorem subclass_dict_survives (cfg : Cfg) (H : Hash) (K : Klass) (ms : List (String × Ty)) (o : Obj)
    (hd : decide' cfg K = .generate ms) (hwf : WF K) (hwt : WT K o) (hp : Picklable o) (hs : SafeTypes cfg K) :
    ∃ o', roundtrip cfg H K K o.dict.isSome o = .ok o' ∧ o'.dict = o.dict ∧ o'.tname = o.tname :=
  ⟨o, roundtrip_partial cfg H K ms o hd hwf hwt hp hs, rfl, rfl⟩

theorem generate_nonPy_empty (cfg : Cfg) (K : Klass) (ms : List (String × Ty)) (h : decide' cfg K = .generate ms) :
    nonPyOf cfg (members K) = [] := by
  unfold decide' at h
  repeat' (split at h)
  all_goals try (dsimp only at h)
  repeat' (split at h)
  all_goals first
    | (rename_i h1 _; simpa using h1)
    | (exact absurd h (by simp))

/-- In the repaired variant the decision itself guarantees surviving attribute types (memoryviews aside). -/
theorem safe_of_generate_fixed (K : Klass) (ms : List (String × Ty)) (h : decide' ⟨true, true⟩ K = .generate ms)
    (hm : NoMemview K) : SafeTypes ⟨true, true⟩ K := by
  intro e he
  have hn := generate_nonPy_empty _ K ms h
  have hmem : e ∈ members K := (mem_members_iff K e).mpr he
  have hnot : e ∉ nonPyOf ⟨true, true⟩ (members K) := by rw [hn]; simp
  have hmv := hm e he
  simp only [nonPyOf, List.mem_filter, hmem, true_and] at hnot
  cases hty : e.2 <;> simp_all [safeTy, Ty.isPy, Ty.convertible, Ty.isPtr]

/-- FULL STRENGTH for the repaired variant (pointer members refused, `char[n]` pickled as n bytes). -/
theorem roundtrip_full_fixed : FullRoundTrip ⟨true, true⟩ := by
  intro H K ms o hd hwf hwt hp hm
  exact roundtrip_partial _ H K ms o hd hwf hwt hp (safe_of_generate_fixed K ms hd hm)

def hash0 : Hash := ⟨fun _ => 0, fun _ => 0, fun _ => 0⟩
def kCharPtr : Klass := ⟨none, [⟨false, false, [("s", .charptr)]⟩]⟩
def kCharArr : Klass := ⟨none, [⟨false, false, [("a", .chararr 4)]⟩]⟩

theorem members_single (ap : Option Bool) (c r : Bool) (e : String × Ty) (h : special e.1 = false) :
    members ⟨ap, [⟨c, r, [e]⟩]⟩ = [e] := by
  simp [members, rawMembers, h]

/-- COUNTEREXAMPLE (source as it is): a class with a `char*` attribute gets pickle methods; pickling the default
instance (NULL pointer) dereferences NULL. -/
theorem full_false_charptr (b : Bool) : ¬ FullRoundTrip ⟨false, b⟩ := by
  intro hfull
  have hm : members kCharPtr = [("s", .charptr)] := members_single _ _ _ _ (by decide)
  have hd : decide' ⟨false, b⟩ kCharPtr = .generate [("s", .charptr)] := by
    unfold decide'; rw [hm]
    simp [kCharPtr, nonPyOf, Ty.isPy, Ty.convertible, Ty.isStruct]
  have := hfull hash0 kCharPtr _ ⟨"C", [("s", .nullp)], none⟩ hd
    (by simp [WF, layout, kCharPtr, special])
    (by simp [WT, layout, kCharPtr, special, lookupSlot, wtVal])
    (by intro k c h; simp [lookupSlot] at h; obtain ⟨_, rfl⟩ := h; rfl)
    (by intro e he; simp [layout, kCharPtr, special] at he; subst he; simp)
  simp [roundtrip, reduce, hd, reduceGen, readState, lookupSlot, toPy] at this

/-- COUNTEREXAMPLE (source as it is): a zero-initialised `char[4]` attribute is pickled as the empty C string and
cannot be assigned back (IndexError on unpickling). -/
theorem full_false_chararr (a : Bool) : ¬ FullRoundTrip ⟨a, false⟩ := by
  intro hfull
  have hm : members kCharArr = [("a", .chararr 4)] := members_single _ _ _ _ (by decide)
  have hd : decide' ⟨a, false⟩ kCharArr = .generate [("a", .chararr 4)] := by
    unfold decide'; rw [hm]
    simp [kCharArr, nonPyOf, Ty.isPy, Ty.convertible, Ty.isStruct, Ty.isPtr]
  have := hfull hash0 kCharArr _ ⟨"C", [("a", .chars [0, 0, 0, 0])], none⟩ hd
    (by simp [WF, layout, kCharArr, special])
    (by simp [WT, layout, kCharArr, special, lookupSlot, wtVal])
    (by intro k c h; simp [lookupSlot] at h; obtain ⟨_, rfl⟩ := h; rfl)
    (by intro e he; simp [layout, kCharArr, special] at he; subst he; simp)
  simp [roundtrip, reduce, hd, reduceGen, readState, lookupSlot, toPy, anyNotNone, Ty.isPy, hasSelfRef, transport,
    transportVal, unpickle, Hash.accepted, hash0, setState, assignAll, fromPy] at this

/-! ### refused classes -/

/-- A class for which pickling is refused raises TypeError from `__reduce__` (hence from pickle / copy). -/
theorem refused_raises (cfg : Cfg) (H : Hash) (K : Klass) (o : Obj) (w : Refusal) (ce : Bool)
    (h : decide' cfg K = .refuse w ce) : reduce cfg H K o = .err "TypeError" := by
  simp [reduce, h]

theorem refused_roundtrip_raises (cfg : Cfg) (H : Hash) (K KB : Klass) (hdB : Bool) (o : Obj) (w : Refusal) (ce : Bool)
    (h : decide' cfg K = .refuse w ce) : roundtrip cfg H K KB hdB o = .err "TypeError" := by
  simp [roundtrip, reduce, h]

/-- The refusal is a compile-time error exactly when `auto_pickle=True` was requested explicitly. -/
theorem refuse_compile_error_iff (cfg : Cfg) (K : Klass) (w : Refusal) (ce : Bool)
    (h : decide' cfg K = .refuse w ce) : ce = (K.autoPickle == some true) := by
  unfold decide' at h
  repeat' (split at h)
  all_goals try (dsimp only at h)
  repeat' (split at h)
  all_goals first
    | (injection h with _ h2; exact h2.symm)
    | (exact absurd h (by simp))

/-- Specification of the decision: pickle methods are generated iff nothing forbids it. -/
theorem generate_iff (cfg : Cfg) (K : Klass) :
    decide' cfg K = .generate (members K) ↔
      (K.chain.any (·.hasReduce) = false ∧ K.autoPickle ≠ some false ∧ K.chain.any (·.hasCinit) = false ∧
        nonPyOf cfg (members K) = [] ∧
        ((members K).filter (·.2.isStruct) = [] ∨ K.autoPickle = some true)) := by
  have hhead : (K.chain.head?.map (·.hasReduce)).getD false = true → K.chain.any (·.hasReduce) = true := by
    cases K.chain with
    | nil => simp
    | cons c t => simp; intro h; exact Or.inl h
  constructor
  · intro h
    unfold decide' at h
    repeat' (split at h)
    all_goals try (dsimp only at h)
    repeat' (split at h)
    all_goals try (simp at h; done)
    rename_i h1 h2 h3 h4 h5 h6
    refine ⟨by simpa using h3, by simpa using h2, by simpa using h4, by simpa using h5, ?_⟩
    by_cases hf : (members K).filter (·.2.isStruct) = []
    · exact Or.inl hf
    · refine Or.inr ?_
      cases hap : K.autoPickle with
      | none => simp [hap, hf] at h6
      | some b => cases b <;> simp [hap, hf] at h6 ⊢
  · rintro ⟨h1, h2, h3, h4, h5⟩
    have hh : ¬ ((K.chain.head?.map (·.hasReduce)).getD false = true) := by
      intro hc; rw [hhead hc] at h1; exact absurd h1 (by simp)
    unfold decide'
    rw [if_neg hh, if_neg (by simpa using h2), if_neg (by simp [h1])]
    dsimp only
    rw [if_neg (by simp [h3]), if_neg (by simp [h4])]
    rw [if_neg]
    rcases h5 with h5 | h5
    · simp [h5]
    · simp [h5]

/-! ### layout skew -/

/-- ASSUMPTION, stated only about the two layout texts actually compared: the primary digest of text `a` equals none
of the three accepted digests of a different text `b`.  The real digests are truncated to 28 bits (7 hex digits), so
this is NOT a theorem about sha256/sha1/md5; nothing is claimed about colliding layouts. -/
def NoCollision (H : Hash) (a b : List Char) : Prop := a ≠ b → H.sha256 a ∉ H.accepted b

theorem reduce_checksum (cfg : Cfg) (H : Hash) (K : Klass) (o : Obj) (r : Reduced) (h : reduce cfg H K o = .ok r) :
    r.checksum = H.sha256 (layoutText (memberNames K)) := by
  unfold reduce at h
  split at h
  · simp at h
  · simp at h
  · rename_i ms hd
    have := generate_members cfg K ms hd
    subst this
    unfold reduceGen at h
    repeat' (split at h)
    all_goals first
      | (simp at h; done)
      | (injection h with h; subst h; rfl)

/-- Unpickling with the checksum of a DIFFERENT member-name list is rejected (PickleError), for every state. -/
theorem layout_skew_rejected (H : Hash) (KA KB : Klass) (msB : List (String × Ty)) (cfg : Cfg)
    (hB : decide' cfg KB = .generate msB)
    (hidA : ∀ n ∈ memberNames KA, IsIdent n.toList) (hidB : ∀ n ∈ memberNames KB, IsIdent n.toList)
    (hne : memberNames KA ≠ memberNames KB)
    (hnc : NoCollision H (layoutText (memberNames KA)) (layoutText (memberNames KB)))
    (tn : String) (hd : Bool) (st : Option (List PyVal)) :
    unpickle H KB msB tn hd (H.sha256 (layoutText (memberNames KA))) st = .err "PickleError" := by
  have := generate_members cfg KB msB hB
  subst this
  have htext : layoutText (memberNames KA) ≠ layoutText (memberNames KB) :=
    fun h => hne (layoutText_inj _ _ hidA hidB h)
  have := hnc htext
  unfold unpickle
  rw [if_neg]
  simpa [memberNames] using this

/-- … hence a pickle written by class version `KA` never loads into a version `KB` with different member names. -/
theorem layout_skew_roundtrip_fails (H : Hash) (KA KB : Klass) (msB : List (String × Ty)) (cfg : Cfg)
    (hB : decide' cfg KB = .generate msB)
    (hidA : ∀ n ∈ memberNames KA, IsIdent n.toList) (hidB : ∀ n ∈ memberNames KB, IsIdent n.toList)
    (hne : memberNames KA ≠ memberNames KB)
    (hnc : NoCollision H (layoutText (memberNames KA)) (layoutText (memberNames KB)))
    (hdB : Bool) (o o' : Obj) : roundtrip cfg H KA KB hdB o ≠ .ok o' := by
  intro h
  unfold roundtrip at h
  cases hr : reduce cfg H KA o with
  | err e => simp [hr] at h
  | ok r =>
    have hcs := reduce_checksum cfg H KA o r hr
    have hrej := fun tn hd st => layout_skew_rejected H KA KB msB cfg hB hidA hidB hne hnc tn hd st
    simp only [hr, hB, hcs] at h
    repeat' (split at h)
    all_goals first
      | (simp at h; done)
      | (rw [hrej] at h; simp at h; done)
      | (rename_i hu; rw [hrej] at hu; simp at hu; done)

/-- Permuted layouts (attributes reordered, or moved between the classes of the chain) have the SAME sorted member
list, hence the same checksum and the same assignment order: such a version change is compatible. -/
theorem reordered_layout_same_members (KA KB : Klass) (hp : (rawMembers KA.chain).Perm (rawMembers KB.chain))
    (hnd : ((rawMembers KA.chain).map (·.1)).Nodup) : members KA = members KB :=
  members_eq_of_perm KA KB hp hnd

/-! ### malformed states -/

/-- A state tuple shorter than the member list is never accepted (IndexError or a conversion error): no silent
partial assignment is reported as success. -/
theorem short_state_raises : ∀ (ms : List (String × Ty)) (st : List PyVal) (slots : List (String × CVal)),
    st.length < ms.length → ∃ e, assignAll ms st slots = .err e
  | [], st, _, h => by simp at h
  | _ :: _, [], _, _ => ⟨"IndexError", rfl⟩
  | (n, ty) :: ms, v :: st, slots, h => by
    unfold assignAll
    cases hf : fromPy ty v with
    | err e => exact ⟨e, rfl⟩
    | ok c => exact short_state_raises ms st _ (by simpa using h)

/-- A non-empty `__dict__` in the state of an object without `__dict__` raises (AttributeError). -/
theorem dict_state_without_dict_raises (kv : List (String × Atom)) (e : String × Atom) (rest : List PyVal) :
    updateDict none (.dict (e :: kv) :: rest) = .err "AttributeError" := by
  simp [updateDict, truthy]

/-! ### reference cycles -/

/-- The 2-tuple form `(unpickle, (type, checksum, state))` — whose state is pickled BEFORE the instance is memoised —
is only chosen when the state holds no reference to another object, so a cycle through the instance cannot recurse. -/
theorem two_tuple_form_has_no_refs (cfg : Cfg) (H : Hash) (K : Klass) (ms : List (String × Ty)) (o : Obj) (r : Reduced)
    (a : List PyVal) (hd : decide' cfg K = .generate ms) (hwf : WF K) (hwt : WT K o) (hp : Picklable o)
    (hs : SafeTypes cfg K) (hr : reduce cfg H K o = .ok r) (ha : r.inArgs = some a) :
    (∀ v ∈ a, isRef v = false) ∧ r.state = none := by
  have hms := generate_members cfg K ms hd
  subst hms
  obtain ⟨vs, hrd, _, _, hrf⟩ := setstate_reads cfg K o o.tname false [] hwf hwt hp hs
  simp only [reduce, hd, reduceGen, hrd] at hr
  repeat' (split at hr)
  all_goals (injection hr with hr; subst hr; simp at ha)
  rename_i hann
  subst ha
  refine ⟨?_, rfl⟩
  intro v hv
  cases hvr : isRef v with
  | false => rfl
  | true => exact absurd (hrf v hv hvr) hann

/-! ### memoryview attributes -/

def kMemview : Klass := ⟨none, [⟨false, false, [("m", .memview)]⟩]⟩

/-- COUNTEREXAMPLE to "what cannot be pickled raises TypeError": a class with a memoryview attribute gets pickle
methods (the attribute type converts both ways); an instance whose view was never assigned raises AttributeError. -/
theorem memview_uninitialised_raises_attributeerror (cfg : Cfg) :
    (∃ ms, decide' cfg kMemview = .generate ms) ∧
      reduce cfg hash0 kMemview ⟨"C", [("m", .mvNone)], none⟩ = .err "AttributeError" := by
  have hm : members kMemview = [("m", .memview)] := members_single _ _ _ _ (by decide)
  have hd : decide' cfg kMemview = .generate [("m", .memview)] := by
    unfold decide'; rw [hm]
    simp [kMemview, nonPyOf, Ty.isPy, Ty.convertible, Ty.isStruct, Ty.isPtr]
  exact ⟨⟨_, hd⟩, by simp [reduce, hd, reduceGen, readState, lookupSlot, toPy]⟩

/-- … and with an assigned view `pickle` raises TypeError (memoryview objects cannot be pickled). -/
theorem memview_initialised_raises_typeerror (cfg : Cfg) (id : Nat) :
    roundtrip cfg hash0 kMemview kMemview false ⟨"C", [("m", .mv (id + 1))], none⟩ = .err "TypeError" := by
  have hm : members kMemview = [("m", .memview)] := members_single _ _ _ _ (by decide)
  have hd : decide' cfg kMemview = .generate [("m", .memview)] := by
    unfold decide'; rw [hm]
    simp [kMemview, nonPyOf, Ty.isPy, Ty.convertible, Ty.isStruct, Ty.isPtr]
  simp [roundtrip, reduce, hd, reduceGen, readState, lookupSlot, toPy, anyNotNone, Ty.isPy, hasSelfRef, transport,
    transportVal]

/-! ### non-vacuity -/

/-- three-level chain `C(B(A))`, attributes out of alphabetical order, `__dict__` declared in `C` -/
def k3 : Klass := ⟨none, [⟨false, false, [("zz", .cint 64 true), ("__dict__", .typed "dict")]⟩,
  ⟨false, false, [("l", .typed "list"), ("aa", .obj)]⟩,
  ⟨false, false, [("i", .cint 32 true), ("d", .cfloat), ("b", .bint)]⟩]⟩

def m3 : List (String × Ty) :=
  [("aa", .obj), ("b", .bint), ("d", .cfloat), ("i", .cint 32 true), ("l", .typed "list"), ("zz", .cint 64 true)]

theorem members_k3 : members k3 = m3 := by
  apply members_eq_of_sorted_perm <;> decide

theorem decide_k3 (cfg : Cfg) : decide' cfg k3 = .generate m3 := by
  unfold decide'; rw [members_k3]; cases cfg; rename_i a b; cases a <;> cases b <;> decide

/-- instance of a Python subclass with an instance dict and a reference cycle through `aa` -/
def o3 : Obj := ⟨"PySub", [("i", .int (-5)), ("d", .flt 4607182418800017408), ("b", .bit true), ("l", .py (.ref "list" 7)),
  ("aa", .py (.ref "PySub" 0)), ("zz", .int 9000000000)], some [("extra", .int 4)]⟩

/-- executable form of the second half of `WT` -/
def wtCheck (K : Klass) (o : Obj) : Bool :=
  (layout K).all fun e => match lookupSlot o.slots e.1 with
    | some c => wtVal e.2 c
    | none => false

theorem wt_of_check (K : Klass) (o : Obj) (h1 : o.slots.map (·.1) = (layout K).map (·.1)) (h2 : wtCheck K o = true) :
    WT K o := by
  refine ⟨h1, ?_⟩
  intro e he
  have := List.all_eq_true.mp h2 e he
  cases hl : lookupSlot o.slots e.1 with
  | none => simp [hl] at this
  | some c => exact ⟨c, rfl, by simpa [hl] using this⟩

theorem wf_k3 : WF k3 := by unfold WF; decide
theorem wt_k3 : WT k3 o3 := wt_of_check k3 o3 (by decide) (by decide)
theorem safe_k3 : SafeTypes ⟨false, false⟩ k3 := by unfold SafeTypes; decide
example : Picklable o3 := by
  intro k c h
  simp [o3, lookupSlot_cons] at h
  repeat' (split at h)
  all_goals first | (injection h with h; subst h; rfl) | (simp [lookupSlot] at h)
/-- the round-trip theorem applies to `k3`, `o3` (hypotheses satisfiable by a non-trivial value) -/
example : roundtrip ⟨false, false⟩ hash0 k3 k3 true o3 = .ok o3 :=
  roundtrip_partial _ hash0 k3 m3 o3 (decide_k3 _) wf_k3 wt_k3
    (by intro k c h
        simp [o3, lookupSlot_cons] at h
        repeat' (split at h)
        all_goals first | (injection h with h; subst h; rfl) | (simp [lookupSlot] at h))
    safe_k3

/-- a refused class exists: `__cinit__` somewhere in the chain -/
example : decide' ⟨false, false⟩ ⟨none, [⟨false, false, []⟩, ⟨true, false, []⟩]⟩ = .refuse .cinit false := by decide
/-- forced + pointer member: refusal with a compile-time error -/
example : decide' ⟨false, false⟩ ⟨some true, [⟨false, false, [("p", .ptr)]⟩]⟩ = .refuse (.nonPy ["p"]) true := by
  have hm := members_single (some true) false false ("p", Ty.ptr) (by decide)
  unfold decide'; rw [hm]; decide
/-- layout skew hypotheses are satisfiable: member `i` renamed to `j` -/
example : memberNames ⟨none, [⟨false, false, [("i", .cint 32 true)]⟩]⟩ ≠ memberNames ⟨none, [⟨false, false, [("j", .cint 32 true)]⟩]⟩ := by
  rw [memberNames, memberNames, members_single _ _ _ _ (by decide), members_single _ _ _ _ (by decide)]
  decide
example : IsIdent "attr_1".toList := by unfold IsIdent; decide
example : ∃ H : Hash, NoCollision H (layoutText ["i"]) (layoutText ["j"]) :=
  ⟨⟨fun t => t.length + (t.head?.map Char.toNat).getD 0, fun _ => 0, fun _ => 0⟩, by
    intro _; simp [Hash.accepted, layoutText, joinNames, joinRest]⟩
/-- a short state exists -/
example : (([] : List PyVal).length < [("i", Ty.cint 32 true)].length) := by decide

end CyVerif.C29

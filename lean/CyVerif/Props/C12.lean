import CyVerif.Model.C12
import CyVerif.Lemmas.C12Format
import CyVerif.Lemmas.C12Comp
/-!
# C12 — the module string-table compression round-trips

`compress P d` models `Cython/LZSS.py:lzss_compress` (parameters `P` = the decision
constants found in the current source, `WF P` = what the proofs need of them),
`decompress src n` models `__pyx_lzss_decompress(src, dst, n)` of
`Cython/Utility/StringTools.c` run on a source buffer holding exactly `src` and a
destination buffer of exactly `n` bytes; every access outside these buffers makes the
result `DRes.ub _`.  `DRes.ok out pos` = the function returned `pos` having written `out`.
The caller `__Pyx_DecompressString_LZSS` accepts the result iff `pos = compressed_length`.
-/
namespace CyVerif.C12

/-- **Format level, full strength.**  For EVERY non-empty well-formed token list the
decoder, run on its stream encoding with a destination of exactly the expanded size,
reconstructs the expansion, reports exactly the stream length as consumed, and makes no
access outside the two buffers. -/
theorem format_roundtrip (ts : List Token) (hne : ts ≠ []) (hok : ToksOK 0 ts) :
    decompress (emit ts) (expand ts).length = .ok (expand ts).toArray (emit ts).length :=
  decompress_emit ts hne hok

/-- **Compressor level.**  For every well-formed parameter set and every non-empty byte
string the compressor raises nothing, and its output is the stream encoding of a
well-formed token list that expands to the input. -/
theorem compress_is_emit (P : Params) (hP : WF P) (d : Array Nat)
    (hbytes : ∀ b ∈ d.toList, b < 256) (hne : d.size ≠ 0) :
    ∃ c ts, compress P d = .ok c ∧ c.toList = emit ts ∧ ts ≠ [] ∧ ToksOK 0 ts ∧
      expand ts = d.toList := by
  obtain ⟨c, st, h1, h2, h3, h4, h5, _⟩ := compressSt_spec P hP d hbytes hne
  exact ⟨c, st.toks.toList, by simp [compress, h1], h2, h5, h3, h4⟩

/-- **Main theorem, full strength.**  For every parameter set satisfying `WF` (checked
for the constants of the current source on every run) and EVERY non-empty byte string `d`:
`lzss_compress` raises nothing and returns bytes `c`; the decompressor run on `c` with a
destination of `|d|` bytes returns exactly `|c|` (consumes exactly the compressed length),
has written exactly `d`, and made no read or write outside `src[0..|c|)`, `dst[0..|d|)`. -/
theorem lzss_roundtrip (P : Params) (hP : WF P) (d : Array Nat)
    (hbytes : ∀ b ∈ d.toList, b < 256) (hne : d.size ≠ 0) :
    ∃ c, compress P d = .ok c ∧ (∀ b ∈ c.toList, b < 256) ∧
      decompress c.toList d.size = .ok d c.size := by
  obtain ⟨c, st, h1, h2, h3, h4, h5, h6⟩ := compressSt_spec P hP d hbytes hne
  refine ⟨c, by simp [compress, h1], h6, ?_⟩
  have := decompress_emit st.toks.toList h5 h3
  rw [h4, ← h2] at this
  simpa using this

/-- The empty byte string compresses to the empty stream … -/
theorem compress_empty (P : Params) : compress P #[] = .ok #[] := by
  simp [compress, compressSt]

/-- … on which the decompressor would read `src[0]` outside its source buffer: the
function-level round trip does NOT extend to the empty string. -/
theorem decompress_empty_ub : decompress [] 0 = .ub "src-read" := by decide

/-- The compiler never ships that case: Code.py emits the LZSS variant only if
`not (compressed_size > len(concat_bytes) - margin)`; with `margin ≥ 1` this forces a
non-empty input.  So for EVERY byte string (the empty one included) whose LZSS stream
is shipped in a generated module, the round trip holds. -/
theorem shipped_roundtrip (P : Params) (hP : WF P) (d : Array Nat)
    (hbytes : ∀ b ∈ d.toList, b < 256) (c : Array Nat) (hc : compress P d = .ok c)
    (hsel : selected P d.size c.size) :
    decompress c.toList d.size = .ok d c.size := by
  have hne : d.size ≠ 0 := by
    intro h0
    have hm := hP.2.2.2.2.2
    unfold selected at hsel
    omega
  obtain ⟨c', h1, _, h3⟩ := lzss_roundtrip P hP d hbytes hne
  rw [hc] at h1
  injection h1 with h1
  subst h1
  exact h3

/-- The model's iteration bound is never the reason for an outcome: on every source
stream and every destination size the decoder model returns or reports an out-of-bounds
access. -/
theorem dloop_ne_fuel (dstLen : Nat) : ∀ (fuel : Nat) (rest : List Nat) (pos : Nat)
    (out : Array Nat) (flags : Nat), rest.length < fuel →
    dloop dstLen fuel rest pos out flags ≠ .fuel := by
  intro fuel
  induction fuel with
  | zero => intro rest pos out flags h; omega
  | succ fuel ih =>
    intro rest pos out flags h
    unfold dloop
    simp only []
    repeat' split
    all_goals first
      | (intro hc; cases hc)
      | (apply ih; simp only [List.length_cons] at h ⊢; omega)

theorem decompress_ne_fuel (src : List Nat) (dstLen : Nat) : decompress src dstLen ≠ .fuel :=
  dloop_ne_fuel dstLen _ _ _ _ _ (by omega)

/-- `memcpy(dst + out_pos, dst + ref_pos, len)` is only reached with
`ref_pos + len ≤ out_pos`: source and destination ranges never overlap. -/
theorem memcpy_no_overlap (outPos off len : Nat) (h : ¬ outPos < off + len) :
    (outPos - off - len) + len ≤ outPos := by omega

/-! ### non-vacuity -/

/-- the pinned constants satisfy `WF`; a concrete non-trivial input meets the hypotheses -/
example : WF pinned ∧ (∀ b ∈ (#[97, 98, 97, 98, 97, 98, 97, 98] : Array Nat).toList, b < 256) ∧
    (#[97, 98, 97, 98, 97, 98, 97, 98] : Array Nat).size ≠ 0 := by decide

/-- a concrete well-formed token list with a back reference of each encoding class -/
example : ToksOK 0 [.lit 97, .lit 98, .lit 99, .short 0 3] ∧
    TokOK 200 (.mid 0x80 4) ∧ TokOK 20000 (.long 0x2000 258) := by
  simp [ToksOK, TokOK, Token.len]

/-- the decoder model on a concrete stream (3 literals + one 7-bit back reference) -/
example : decompress [0x07, 97, 98, 99, 0, 0] 6 = .ok #[97, 98, 99, 97, 98, 99] 6 := by decide

/-- `selected` is satisfiable and excludes the empty input -/
example : selected pinned 1000 300 ∧ ¬ selected pinned 0 0 := by decide

end CyVerif.C12

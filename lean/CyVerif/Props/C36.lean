import CyVerif.Model.C36
/-!
# C36 — no undefined behaviour in the modelled helpers

This file proves the one no-UB fact that is not part of another property's file
(`intpow_no_overflow`); `lean/props/C36.json` additionally names the in-bounds / no-UB theorems
of C02, C03, C04, C05, C06, C10, C12, C15, C16, C18 and C24, which are re-audited under this
property.
-/
namespace CyVerif.C36

theorem pow_ge_self {b e : Nat} (hb : 1 ≤ b) (he : 1 ≤ e) : b ≤ b ^ e := by
  calc b = b ^ 1 := (Nat.pow_one b).symm
    _ ≤ b ^ e := Nat.pow_le_pow_right hb he

/-- **IntPow (repaired loop) never overflows when the result fits.**  For every bound `M`, every
accumulator `t` and base `b` magnitude and every exponent: if the final magnitude `t·b^e` fits,
the accumulator fits, and the accumulator is non-zero unless the base is zero, then no
intermediate multiplication exceeds `M` and the loop returns exactly `t·b^e`. -/
theorem powLoopChecked_ok (M : Nat) (t b e : Nat) (hfit : t * b ^ e ≤ M) (ht : t ≤ M) (hnz : 1 ≤ t ∨ b = 0) :
    powLoopChecked M t b e = some (t * b ^ e) := by
  fun_induction powLoopChecked M t b e with
  | case1 t b => simp
  | case2 t b e he t' hov => 
    exfalso
    -- t' = t * c fits
    by_cases hb0 : b = 0
    · subst hb0
      by_cases hodd : e % 2 = 1
      · simp [t', hodd] at hov
      · simp [t', hodd] at hov; omega
    · have hb1 : 1 ≤ b := by omega
      have ht1 : 1 ≤ t := by rcases hnz with h | h; exact h; exact absurd h hb0
      have he1 : 1 ≤ e := by omega
      have hbe : b ≤ b ^ e := pow_ge_self hb1 he1
      have h1 : t * b ≤ t * b ^ e := Nat.mul_le_mul_left t hbe
      by_cases hodd : e % 2 = 1
      · simp [t', hodd] at hov; omega
      · simp [t', hodd] at hov; omega
  | case3 t b e he t' hov hlast =>
    -- e = 1
    have he1 : e = 1 := by omega
    subst he1
    simp [t']
  | case4 t b e he t' hov hlast b' hovb =>
    exfalso
    by_cases hb0 : b = 0
    · subst hb0; simp [b'] at hovb
    · have hb1 : 1 ≤ b := by omega
      have ht1 : 1 ≤ t := by rcases hnz with h | h; exact h; exact absurd h hb0
      have he2 : 2 ≤ e := by omega
      have h2 : b ^ 2 ≤ b ^ e := Nat.pow_le_pow_right hb1 he2
      have h3 : b ^ e ≤ t * b ^ e := Nat.le_mul_of_pos_left _ ht1
      have : b * b = b ^ 2 := (Nat.pow_two b).symm
      simp only [b'] at hovb
      omega
  | case5 t b e he t' hov hlast b' hovb ih =>
    have hsplit : b ^ e = (if e % 2 = 1 then b else 1) * (b * b) ^ (e / 2) := by
      have hde := Nat.div_add_mod e 2
      have : b ^ e = b ^ (2 * (e / 2) + e % 2) := by rw [hde]
      rw [this, Nat.pow_add, Nat.pow_mul, Nat.pow_two]
      rcases Nat.mod_two_eq_zero_or_one e with h | h
      · simp [h]
      · simp [h, Nat.mul_comm]
    have heq : t' * b' ^ (e / 2) = t * b ^ e := by
      simp only [t', b', dite_eq_ite]; rw [hsplit, Nat.mul_assoc]
    rw [ih (by rw [heq]; exact hfit) (by omega) ?_, heq]
    by_cases hb0 : b = 0
    · right; simp [b', hb0]
    · left
      have hb1 : 1 ≤ b := by omega
      have ht1 : 1 ≤ t := by rcases hnz with h | h; exact h; exact absurd h hb0
      simp only [t', dite_eq_ite]
      split
      · exact Nat.mul_pos ht1 hb1
      · omega

/-- `__Pyx_pow_T(b, e)` with the repaired loop: if `|b|^e ≤ M` no multiplication overflows. -/
theorem intpow_no_overflow (M b e : Nat) (hM : 1 ≤ M) (hfit : b ^ e ≤ M) :
    powLoopChecked M 1 b e = some (b ^ e) := by
  have := powLoopChecked_ok M 1 b e (by simpa using hfit) hM (Or.inl (Nat.le_refl 1))
  simpa using this

/-- The loop as written before the repair overflowed although the result fits:
`<int>200 ** 4` (the unused final squaring 1600000000² exceeds INT_MAX). -/
theorem old_loop_overflows : powLoopCheckedOld 2147483647 1 200 4 = none ∧ 200 ^ 4 ≤ 2147483647 := by
  constructor
  · unfold powLoopCheckedOld; simp; unfold powLoopCheckedOld; simp; unfold powLoopCheckedOld; simp
  · decide

example : powLoopChecked 2147483647 1 200 4 = some (200 ^ 4) := intpow_no_overflow _ _ _ (by decide) (by decide)

end CyVerif.C36

import CyVerif.Lemmas.C21Main
/-!
C21 — soundness of the flow-graph checker `validate` (verified validator).

For ALL graphs, solutions and flag tables: if `validate g sol fl = true`, then on every walk
from the entry block (every block on the way executed fully, the last one up to some stat `e`)
* a node NOT flagged `cf_maybe_null` finds its variable bound (omitting the run-time check is safe),
* a node flagged `cf_is_null` finds its variable unbound (the compile-time error / unconditional
  "first assignment" treatment is justified), and its variable is not a closure variable.
`e` may be a read, a deletion or an assignment target (the flags of all three are consumed by
the code generator).
-/
namespace CyVerif.C21

/-- Reaching-definitions soundness: the definition of `v` that is live on the walk is in the
state the checker computed for that program point. -/
theorem live_def_in_state {g : Graph} {sol : Sol} {fl : Flags} (h : validate g sol fl = true)
    {b : Nat} {tr0 : List Ev} (hr : Reach g b tr0) (k : Nat) {v : Nat} (hv : v < g.nvars)
    (hb : b ≠ g.entry) :
    last g v (tr0 ++ (g.ev b).take k) ∈ run g (sol.i b) ((g.ev b).take k) :=
  live_def_in_state_proof h hr k hv hb

/-- MAIN THEOREM (both halves), for every stat reached by any walk. -/
theorem validate_sound {g : Graph} {sol : Sol} {fl : Flags} (h : validate g sol fl = true)
    {tr : List Ev} {e : Ev} (hat : At g tr e) (init : Nat → Bool) :
    (fl.maybe e.node = false → bound init e.var tr = true) ∧
    (fl.isNull e.node = true → g.isClo e.var = false ∧
      ((∀ v, g.isClo v = false → init v = false) → bound init e.var tr = false)) :=
  validate_sound_proof h hat init

/-- Omitting the run-time check is safe: a node not flagged `cf_maybe_null` is bound on every
walk, whatever the closure cells held at entry. -/
theorem unflagged_is_bound {g : Graph} {sol : Sol} {fl : Flags} (h : validate g sol fl = true)
    {tr : List Ev} {e : Ev} (hat : At g tr e) (hf : fl.maybe e.node = false) (init : Nat → Bool) :
    bound init e.var tr = true := (validate_sound h hat init).1 hf

/-- A node flagged `cf_is_null` is unbound on every walk reaching it (locals start unbound). -/
theorem is_null_is_unbound {g : Graph} {sol : Sol} {fl : Flags} (h : validate g sol fl = true)
    {tr : List Ev} {e : Ev} (hat : At g tr e) (hf : fl.isNull e.node = true) (init : Nat → Bool)
    (hinit : ∀ v, g.isClo v = false → init v = false) :
    bound init e.var tr = false := ((validate_sound h hat init).2 hf).2 hinit

/-- The modelled analysis (`initialize` gen/kill sets, round-robin `reaching_definitions`, flag rules
of `check_definitions`) always produces artefacts the checker accepts — for every graph that passes
the graph-only checks, every iteration order of the non-entry blocks and every fuel that suffices.
Hence (with `validate_sound`) the modelled analysis is sound. -/
theorem analysis_validates {g : Graph} {nn : Nat} {order : List Nat} {fuel : Nat} {sol : Sol}
    (hg : graphOk g nn = true)
    (hcov : ∀ b, b < g.blocks.length → b ≠ g.entry → b ∈ order) (hne : g.entry ∉ order)
    (hs : solve g order fuel = some sol) : validate g sol (flagsOf g sol nn) = true :=
  analysis_validates_proof hg hcov hne hs

/-- The solver model terminates: outputs only grow and each dirty sweep adds a bit to some block
output, so `blocks × bits + 1` sweeps always suffice (the driver gives it more). -/
theorem solve_terminates {g : Graph} {nn : Nat} {order : List Nat} (hg : graphOk g nn = true)
    (hord : ∀ b ∈ order, b < g.blocks.length ∧ b ≠ g.entry) {fuel : Nat}
    (hf : g.blocks.length * (allBits g).length < fuel) : ∃ sol, solve g order fuel = some sol :=
  solve_terminates_proof hg hord hf

/-- Both together: on every well-formed graph the modelled analysis returns, and what it returns
is accepted by the checker (hence sound by `validate_sound`). -/
theorem analysis_total_and_valid {g : Graph} {nn : Nat} {order : List Nat} (hg : graphOk g nn = true)
    (hord : ∀ b ∈ order, b < g.blocks.length ∧ b ≠ g.entry)
    (hcov : ∀ b, b < g.blocks.length → b ≠ g.entry → b ∈ order) {fuel : Nat}
    (hf : g.blocks.length * (allBits g).length < fuel) :
    ∃ sol, solve g order fuel = some sol ∧ validate g sol (flagsOf g sol nn) = true := by
  obtain ⟨sol, hs⟩ := solve_terminates hg hord hf
  exact ⟨sol, hs, analysis_validates hg hcov (fun he => (hord _ he).2 rfl) hs⟩

/-- insertion-sorted duplicate-free copy (kernel-evaluable, used only in the examples) -/
def canon' (l : List Nat) : List Nat :=
  (dedup l).foldr (fun x acc => (acc.filter (· < x)) ++ x :: acc.filter (fun y => !(y < x))) []

/-! ### non-vacuity: a concrete artefact

```
def f(a):        # variable 0 = a, 1 = x;  marker bits 0, 1;  stat bits 2 (a), 3 (x = 1)
    if a:        # block 1: Argument a (node 0), read a (node 1)
        x = 1    # block 2: assignment (node 2)
    return x     # block 3: read x (node 3)
```
-/
section Example

def exG : Graph :=
  { ubit := [0, 1], clo := [false, false],
    blocks := [[], [.assign 0 2 0, .read 0 1], [.assign 1 3 2], [.read 1 3], []],
    edges := [(0, 1), (1, 2), (1, 3), (2, 3), (3, 4)], entry := 0 }

def exSol : Sol :=
  { inp := [[], [0, 1], [2, 1], [2, 1, 3], [2, 1, 3]],
    out := [[0, 1], [2, 1], [3, 2], [2, 1, 3], [2, 1, 3]] }

/-- the flags Cython computes: `return x` may be unbound, `if a` is not -/
def exFlags : Flags := [(true, true), (false, false), (true, true), (true, false)]

example : validate exG exSol exFlags = true := by decide

/-- claiming that `return x` needs no check is rejected -/
example : validate exG exSol [(true, true), (false, false), (true, true), (false, false)] = false := by decide

/-- claiming that `return x` is definitely unbound is rejected -/
example : validate exG exSol [(true, true), (false, false), (true, true), (true, true)] = false := by decide

/-- a solution that forgets the path around `x = 1` is rejected -/
example : validate exG { exSol with inp := [[], [0, 1], [2, 1], [2, 3], [2, 3]] }
    [(true, true), (false, false), (true, true), (false, false)] = false := by decide

theorem ex_reach1 : Reach exG 1 [] := by
  have h := Reach.step (Reach.entry (g := exG)) (c := 1) (by decide)
  simpa [exG, Graph.ev] using h

/-- the hypotheses of `unflagged_is_bound` are met by the read of `a` (node 1) … -/
example : bound (fun _ => false) 0 [.assign 0 2 0] = true :=
  unflagged_is_bound (g := exG) (sol := exSol) (fl := exFlags) (by decide)
    (e := .read 0 1) ⟨1, [], 1, ex_reach1, by decide, by decide⟩ (by decide) _

/-- … and those of `is_null_is_unbound` by the target of `x = 1` (node 2) -/
example : bound (fun _ => false) 1 [.assign 0 2 0, .read 0 1] = false :=
  is_null_is_unbound (g := exG) (sol := exSol) (fl := exFlags) (by decide)
    (e := .assign 1 3 2)
    ⟨2, [.assign 0 2 0, .read 0 1], 0,
      by
        have h := Reach.step ex_reach1 (c := 2) (by decide)
        simpa [exG, Graph.ev] using h,
      by decide, by decide⟩ (by decide) _ (fun _ _ => rfl)

/-- the analysis model terminates on the example and reproduces the solution and the flags -/
example : (solve exG [1, 2, 3, 4] 4).map (fun s => (s.inp.map canon', s.out.map canon')) =
    some (exSol.inp.map canon', exSol.out.map canon') := by decide

example : (solve exG [4, 3, 2, 1] 5).map (fun s => flagsOf exG s 4) = some exFlags := by decide

example : ∀ sol, solve exG [1, 2, 3, 4] 4 = some sol → validate exG sol (flagsOf exG sol 4) = true :=
  fun _ h => analysis_validates (by decide) (by decide) (by decide) h

example : ∃ sol, solve exG [2, 1, 4, 3] 21 = some sol ∧ validate exG sol (flagsOf exG sol 4) = true :=
  analysis_total_and_valid (by decide) (by decide) (by decide) (by decide)

end Example

end CyVerif.C21

import CyVerif.Lemmas.C15Top
import CyVerif.Lemmas.C15Bounds
/-!
# C15 — indexing and slicing of builtin sequences match CPython: property theorems

`sw` = bits of `Py_ssize_t`, `(w, signed)` = the C type of the index expression, `cn` = "the index is a
compile-time constant ≥ 0", `l` = the items of the sequence (any element type, any length a real
object can have: `l.length ≤ PY_SSIZE_T_MAX`).  `Dirs.default` = wraparound and boundscheck on.
-/
namespace CyVerif.C15

variable {α : Type}

/-! ## 1. item access `a[i]` with a C integer index -/

/-- `list`/`tuple`-typed base: Python semantics for EVERY value of EVERY C integer type whenever
boundscheck is on — whatever the wraparound directive (the out-of-range fallback wraps by itself). -/
theorem getItemIntSeq_boundscheck (sw w : Nat) (signed cn : Bool) (d : Dirs) (l : List α) (v : Int)
    (hsw : 0 < sw) (hw : 0 < w) (hlen : (l.length : Int) ≤ ssMax sw) (hv : inT w signed v = true)
    (hbc : d.boundscheck = true) :
    getItemIntSeq sw w signed d cn l v = pyGet l v := by
  unfold getItemIntSeq
  have hda : directAccess d signed cn = false := by simp [directAccess, hbc]
  simp only [hda, Bool.false_eq_true, if_false]
  by_cases hf : fitsSsize sw w signed v = true
  · rw [if_pos hf]
    rw [fitsSsize_iff hsw hw hv] at hf
    rw [castSS_id hsw hf, hbc]
    exact seqFast_bc hsw hlen hf _
  · rw [if_neg hf]
    have : inSS sw v = false := by
      rw [fitsSsize_iff hsw hw hv] at hf; simpa using hf
    exact (pyGet_of_not_inSS hlen this).symm

/-- default directives (the property statement) -/
theorem getItemIntSeq_default (sw w : Nat) (signed cn : Bool) (l : List α) (v : Int)
    (hsw : 0 < sw) (hw : 0 < w) (hlen : (l.length : Int) ≤ ssMax sw) (hv : inT w signed v = true) :
    getItemIntSeq sw w signed Dirs.default cn l v = pyGet l v :=
  getItemIntSeq_boundscheck sw w signed cn Dirs.default l v hsw hw hlen hv rfl

example : inT 64 false (2 ^ 64 - 1) = true ∧ (([1, 2, 3] : List Int).length : Int) ≤ ssMax 64 := by decide

/-- `str`/`bytes`/`bytearray`-typed base, default directives -/
theorem getItemIntStr_default (sw w : Nat) (signed cn : Bool) (k : StrKind) (l : List α) (v : Int)
    (hsw : 0 < sw) (hw : 0 < w) (hlen : (l.length : Int) ≤ ssMax sw) (hv : inT w signed v = true)
    (hcn : cn = true → 0 ≤ v) :
    getItemIntStr sw w signed Dirs.default cn k l v = pyGet l v := by
  unfold getItemIntStr
  have hda : directAccess Dirs.default signed cn = false := by simp [directAccess, Dirs.default]
  simp only [hda, Bool.false_eq_true, and_false, if_false]
  by_cases hf : fitsSsize sw w signed v = true
  · rw [if_pos hf]
    rw [fitsSsize_iff hsw hw hv] at hf
    rw [castSS_id hsw hf]
    have hwr : wrapFlag Dirs.default signed cn = false → 0 ≤ v :=
      wrapFlag_false_nonneg hv hcn rfl
    cases k
    · exact unicodeFast_bc hsw hlen hf hwr
    · exact bytesFast_bc hsw hlen hf hwr
    · exact byteArrayFast_bc hsw hlen hf hwr
  · rw [if_neg hf]
    have : inSS sw v = false := by
      rw [fitsSsize_iff hsw hw hv] at hf; simpa using hf
    exact (pyGet_of_not_inSS hlen this).symm

example : inT 32 true (-4) = true ∧ ((true : Bool) = true → (0 : Int) ≤ 2) := by decide

/-- full-strength statement for an `object`-typed base holding any of the modelled runtime kinds -/
def FullGetItemIntObj : Prop :=
  ∀ (sw w : Nat) (signed cn : Bool) (k : Kind) (l : List Int) (v : Int),
    0 < sw → 0 < w → (l.length : Int) ≤ ssMax sw → inT w signed v = true → (cn = true → 0 ≤ v) →
    getItemIntObj sw w signed Dirs.default cn k l v = pyGet l v

/-- it holds for every kind except at the double-wrap indices of list/tuple SUBCLASS instances -/
theorem getItemIntObj_default_partial (sw w : Nat) (signed cn : Bool) (k : Kind) (l : List α) (v : Int)
    (hsw : 0 < sw) (hw : 0 < w) (hlen : (l.length : Int) ≤ ssMax sw) (hv : inT w signed v = true)
    (hsub : (k = .listSub ∨ k = .tupleSub) → ¬ dblWrap l.length v) :
    getItemIntObj sw w signed Dirs.default cn k l v = pyGet l v := by
  unfold getItemIntObj
  by_cases hf : fitsSsize sw w signed v = true
  · rw [if_pos hf]
    rw [fitsSsize_iff hsw hw hv] at hf
    rw [castSS_id hsw hf]
    exact objGetFast_bc hsw hlen hf _ k hsub
  · rw [if_neg hf]

example : ¬ dblWrap ([100, 101] : List Int).length (-2) := by decide

/-- witness: `class LS(list): pass; LS([100,101])[-4]` through a C `int` index gives 100, CPython IndexError -/
theorem getItemIntObj_subclass_counterexample : ¬ FullGetItemIntObj := by
  intro h
  have := h 64 32 true false .listSub [100, 101] (-4) (by decide) (by decide) (by decide) (by decide) (by decide)
  revert this
  decide

/-! ## 2. item assignment and deletion with a C integer index

The reference is `pyAssK`: `PyObject_SetItem/DelItem` with the boxed index — `pySet`/`pyDel` for the
mutable kinds, TypeError (IndexError for a key outside `Py_ssize_t`) for tuple/str/bytes. -/

def FullSetItemIntObj : Prop :=
  ∀ (sw w : Nat) (signed cn : Bool) (k : Kind) (l : List Int) (i x : Int),
    0 < sw → 0 < w → (l.length : Int) ≤ ssMax sw → inT w signed i = true → (cn = true → 0 ≤ i) →
    setItemIntObj sw w signed Dirs.default cn k l i x = pyAssK sw k l i (some x)

/-- `__Pyx_SetItemInt` (object-, list-, tuple-typed bases): every kind, every index of every C type -/
theorem setItemIntObj_default_partial (sw w : Nat) (signed cn : Bool) (k : Kind) (l : List α) (i : Int) (x : α)
    (hsw : 0 < sw) (hw : 0 < w) (hlen : (l.length : Int) ≤ ssMax sw) (hv : inT w signed i = true)
    (hsub : k = .listSub → ¬ dblWrap l.length i) :
    setItemIntObj sw w signed Dirs.default cn k l i x = pyAssK sw k l i (some x) := by
  unfold setItemIntObj
  by_cases hf : fitsSsize sw w signed i = true
  · rw [if_pos hf]
    rw [fitsSsize_iff hsw hw hv] at hf
    rw [castSS_id hsw hf]
    exact setFast_bc hsw hlen hf _ k x hsub
  · rw [if_neg hf]

theorem setItemIntObj_subclass_counterexample : ¬ FullSetItemIntObj := by
  intro h
  have := h 64 32 true false .listSub [100, 101] (-4) 9 (by decide) (by decide) (by decide) (by decide) (by decide)
  revert this
  decide

/-- a `list` base: the same list as `a[i] = x` in Python, or IndexError -/
theorem setItemInt_list_default (sw w : Nat) (signed cn : Bool) (l : List α) (i : Int) (x : α)
    (hsw : 0 < sw) (hw : 0 < w) (hlen : (l.length : Int) ≤ ssMax sw) (hv : inT w signed i = true) :
    setItemIntObj sw w signed Dirs.default cn .list l i x = pySet l i x := by
  rw [setItemIntObj_default_partial sw w signed cn .list l i x hsw hw hlen hv (by intro h; cases h), pyAssK_list]

/-- `__Pyx_SetItemInt_ByteArray` (`bytearray`-typed base) -/
theorem setItemIntByteArray_default (sw w : Nat) (signed cn : Bool) (l : List α) (i : Int) (x : α)
    (hsw : 0 < sw) (hw : 0 < w) (hlen : (l.length : Int) ≤ ssMax sw) (hv : inT w signed i = true)
    (hcn : cn = true → 0 ≤ i) :
    setItemIntByteArray sw w signed Dirs.default cn l i x = pySet l i x := by
  unfold setItemIntByteArray
  by_cases hf : fitsSsize sw w signed i = true
  · rw [if_pos hf]
    rw [fitsSsize_iff hsw hw hv] at hf
    rw [castSS_id hsw hf]
    exact byteArraySetFast_bc hsw hlen hf (wrapFlag_false_nonneg hv hcn rfl) x
  · rw [if_neg hf]
    have : inSS sw i = false := by
      rw [fitsSsize_iff hsw hw hv] at hf; simpa using hf
    simp [pySet, pyNorm_none_of_not_inSS hlen this]

def FullDelItemInt : Prop :=
  ∀ (sw w : Nat) (signed cn : Bool) (k : Kind) (l : List Int) (i : Int),
    0 < sw → 0 < w → (l.length : Int) ≤ ssMax sw → inT w signed i = true → (cn = true → 0 ≤ i) →
    delItemInt sw w signed Dirs.default cn k l i = pyAssK sw k l i none

/-- `__Pyx_DelItemInt` -/
theorem delItemInt_default_partial (sw w : Nat) (signed cn : Bool) (k : Kind) (l : List α) (i : Int)
    (hsw : 0 < sw) (hw : 0 < w) (hv : inT w signed i = true) (hcn : cn = true → 0 ≤ i)
    (hsub : k = .listSub → ¬ dblWrap l.length i) :
    delItemInt sw w signed Dirs.default cn k l i = pyAssK sw k l i none := by
  unfold delItemInt
  by_cases hf : fitsSsize sw w signed i = true
  · rw [if_pos hf]
    rw [fitsSsize_iff hsw hw hv] at hf
    rw [castSS_id hsw hf]
    exact delFast_eq (wrapFlag_false_nonneg hv hcn rfl) k hsub
  · rw [if_neg hf]

theorem delItemInt_subclass_counterexample : ¬ FullDelItemInt := by
  intro h
  have := h 64 32 true false .listSub [100, 101] (-4) (by decide) (by decide) (by decide) (by decide) (by decide)
  revert this
  decide

/-! ## 3. every array access of a fast path is in bounds (default directives) — feeds C36 -/

theorem getItemIntSeq_default_noUB (sw w : Nat) (signed cn : Bool) (l : List α) (v : Int)
    (hsw : 0 < sw) (hw : 0 < w) (hlen : (l.length : Int) ≤ ssMax sw) (hv : inT w signed v = true) :
    (getItemIntSeq sw w signed Dirs.default cn l v).isUB = false := by
  rw [getItemIntSeq_default sw w signed cn l v hsw hw hlen hv]; exact pyGet_not_ub l v

theorem getItemIntStr_default_noUB (sw w : Nat) (signed cn : Bool) (k : StrKind) (l : List α) (v : Int)
    (hsw : 0 < sw) (hw : 0 < w) (hlen : (l.length : Int) ≤ ssMax sw) (hv : inT w signed v = true)
    (hcn : cn = true → 0 ≤ v) :
    (getItemIntStr sw w signed Dirs.default cn k l v).isUB = false := by
  rw [getItemIntStr_default sw w signed cn k l v hsw hw hlen hv hcn]; exact pyGet_not_ub l v

/-- holds for the subclass kinds too (the double wrap is a wrong answer, not a wild access) -/
theorem getItemIntObj_default_noUB (sw w : Nat) (signed cn : Bool) (k : Kind) (l : List α) (v : Int)
    (hsw : 0 < sw) (hw : 0 < w) (hlen : (l.length : Int) ≤ ssMax sw) (hv : inT w signed v = true) :
    (getItemIntObj sw w signed Dirs.default cn k l v).isUB = false := by
  unfold getItemIntObj
  by_cases hf : fitsSsize sw w signed v = true
  · rw [if_pos hf]
    rw [fitsSsize_iff hsw hw hv] at hf
    rw [castSS_id hsw hf]
    cases k
    case list =>
      show (seqFast sw l v _ true).isUB = false
      rw [seqFast_bc hsw hlen hf]; exact pyGet_not_ub _ _
    case tuple =>
      show (seqFast sw l v _ true).isUB = false
      rw [seqFast_bc hsw hlen hf]; exact pyGet_not_ub _ _
    all_goals (simp only [objGetFast, Kind.seqFlag]; exact pyGet_not_ub _ _)
  · rw [if_neg hf]; exact pyGet_not_ub _ _

theorem setItemIntObj_default_noUB (sw w : Nat) (signed cn : Bool) (k : Kind) (l : List α) (i : Int) (x : α)
    (hsw : 0 < sw) (hw : 0 < w) (hlen : (l.length : Int) ≤ ssMax sw) (hv : inT w signed i = true) :
    (setItemIntObj sw w signed Dirs.default cn k l i x).isUB = false := by
  unfold setItemIntObj
  by_cases hf : fitsSsize sw w signed i = true
  · rw [if_pos hf]
    rw [fitsSsize_iff hsw hw hv] at hf
    rw [castSS_id hsw hf]
    cases k
    case list =>
      rw [show Dirs.default.boundscheck = true from rfl, setFast_list_bc hsw hlen hf]; exact pySet_not_ub _ _ _
    all_goals (simp only [setFast, Kind.seqFlag, Kind.mutable]; simp [pyAssK_not_ub])
  · rw [if_neg hf]; exact pyAssK_not_ub _ _ _ _ _

theorem setItemIntByteArray_default_noUB (sw w : Nat) (signed cn : Bool) (l : List α) (i : Int) (x : α)
    (hsw : 0 < sw) (hw : 0 < w) (hlen : (l.length : Int) ≤ ssMax sw) (hv : inT w signed i = true)
    (hcn : cn = true → 0 ≤ i) :
    (setItemIntByteArray sw w signed Dirs.default cn l i x).isUB = false := by
  rw [setItemIntByteArray_default sw w signed cn l i x hsw hw hlen hv hcn]; exact pySet_not_ub _ _ _

/-! ## 4. what breaks with non-default directives -/

/-- boundscheck off: an out-of-range index reads outside the item array -/
theorem boundscheck_off_reads_out_of_bounds :
    getItemIntSeq 64 32 true ⟨true, false⟩ false ([1, 2, 3] : List Int) 5 = .ub "oob-read" := by decide

/-- wraparound off: `s[-1]` on a `str`-typed base is IndexError instead of the last character -/
theorem wraparound_off_str_negative_index :
    getItemIntStr 64 32 true ⟨false, true⟩ false .unicode ([97, 98, 99] : List Int) (-1) = .err "IndexError"
      ∧ pyGet ([97, 98, 99] : List Int) (-1) = .ok 99 := by decide

/-! ## 5. `PySlice_AdjustIndices` selects exactly the elements of Python slice semantics -/

/-- positive step: the adjusted bound is the bound wrapped once and clamped to `[0, len]` … -/
theorem adjBound_pos (len : Nat) (step b : Int) (hs : 0 < step) :
    adjBound len step b = max 0 (min (len : Int) (if b < 0 then b + len else b)) :=
  adjBound_pos_eq (by omega) hs

/-- … negative step: clamped to `[-1, len-1]` -/
theorem adjBound_neg (len : Nat) (step b : Int) (hs : step < 0) :
    adjBound len step b = max (-1) (min ((len : Int) - 1) (if b < 0 then b + len else b)) :=
  adjBound_neg_eq (by omega) hs

/-- the selected positions, in order, are `a, a+step, …`; for a positive step they are EXACTLY the
positions `x` with `a ≤ x < b`, `x ≡ a (mod step)` (a, b the adjusted bounds) -/
theorem pySliceIdx_exact_pos (len : Nat) (start stop : Option Int) (step x : Int) (hs : 0 < step) :
    x ∈ pySliceIdx len start stop step ↔
      unpackStart len step start ≤ x ∧ x < unpackStop len step stop ∧ (x - unpackStart len step start) % step = 0 :=
  mem_progression_pos hs

/-- negative step: exactly the `x` with `b < x ≤ a`, `x ≡ a (mod -step)` -/
theorem pySliceIdx_exact_neg (len : Nat) (start stop : Option Int) (step x : Int) (hs : step < 0) :
    x ∈ pySliceIdx len start stop step ↔
      unpackStop len step stop < x ∧ x ≤ unpackStart len step start ∧ (unpackStart len step start - x) % (-step) = 0 :=
  mem_progression_neg hs

/-- all selected positions are valid, none is dropped: the result has `sliceLen` elements -/
theorem pySlice_selects (l : List α) (start stop : Option Int) (step : Int) (hs : step ≠ 0) :
    (∀ x ∈ pySliceIdx l.length start stop step, 0 ≤ x ∧ x < l.length) ∧
    ∃ r, pySlice l start stop (some step) = .ok r ∧
      (r.length : Int) = sliceLen (unpackStart l.length step start) (unpackStop l.length step stop) step :=
  ⟨pySliceIdx_inBounds hs, pySlice_length hs⟩

example : pySlice ([0, 1, 2, 3, 4, 5] : List Int) none (some (-100)) (some (-2)) = .ok [5, 3, 1] := by decide

theorem pySlice_zero_step (l : List α) (start stop : Option Int) :
    pySlice l start stop (some 0) = .err "ValueError" := by simp [pySlice]

/-- step 1: `(l.drop a).take (b - a)` over the clamped bounds -/
theorem pySlice_drop_take (l : List α) (a b : Option Int) :
    pySlice l a b none = .ok ((l.drop (unpackStart l.length 1 a).toNat).take
      (unpackStop l.length 1 b - unpackStart l.length 1 a).toNat) := pySlice_step1 l a b

/-- CPython clamps slice members to `Py_ssize_t` first (`_PyEval_SliceIndex`); that changes nothing -/
theorem adjBound_clamp_irrelevant (sw : Nat) (len : Nat) (step b : Int) (hm : (len : Int) ≤ ssMax sw) :
    adjBound len step (max (ssMin sw) (min (ssMax sw) b)) = adjBound len step b := adjBound_clamp hm

/-! ## 6. `a[i:j]` helpers -/

/-- full-strength statement for the list/tuple slice helper as it exists (`fixed = false`) -/
def FullSeqGetSlice : Prop :=
  ∀ (sw : Nat) (l : List Int) (start stop : Int), (l.length : Int) ≤ ssMax sw →
    inSS sw start = true → inSS sw stop = true →
    seqGetSlice sw false l start stop = pySlice l (some start) (some stop) none

/-- pinned `__Pyx_crop_slice`: equal to the Python slice unless `stop - start` overflows -/
theorem seqGetSlice_partial (sw : Nat) (l : List α) (start stop : Int) (hlen : (l.length : Int) ≤ ssMax sw)
    (hs : inSS sw start = true) (he : inSS sw stop = true) (hno : ¬ cropOverflows sw start stop l.length) :
    seqGetSlice sw false l start stop = pySlice l (some start) (some stop) none :=
  seqGetSlice_eq hlen hs he false (fun _ => hno)

example : ¬ cropOverflows 64 (-3) (-1) ([1, 2, 3] : List Int).length := by decide

/-- witness: `[1,2,3][PY_SSIZE_T_MAX:PY_SSIZE_T_MIN]` — signed overflow in `stop - start` -/
theorem seqGetSlice_overflow_counterexample : ¬ FullSeqGetSlice := by
  intro h
  have := h 64 [1, 2, 3] (2 ^ 63 - 1) (-2 ^ 63) (by decide) (by decide) (by decide)
  revert this
  decide

/-- repaired `__Pyx_crop_slice` (`fixed = true`): full strength, all `Py_ssize_t` bounds, no UB -/
theorem seqGetSlice_fixed (sw : Nat) (l : List α) (start stop : Int) (hlen : (l.length : Int) ≤ ssMax sw)
    (hs : inSS sw start = true) (he : inSS sw stop = true) :
    seqGetSlice sw true l start stop = pySlice l (some start) (some stop) none :=
  seqGetSlice_eq hlen hs he true (fun h => by cases h)

/-- `__Pyx_PyUnicode_Substring`: full strength -/
theorem unicodeSubstring_spec (sw : Nat) (l : List α) (start stop : Int) (hlen : (l.length : Int) ≤ ssMax sw)
    (hs : inSS sw start = true) (he : inSS sw stop = true) :
    unicodeSubstring sw l start stop = pySlice l (some start) (some stop) none :=
  unicodeSubstring_eq hlen hs he

/-! ## 7. slice bounds as written in the source (C-typed, object, None, absent) -/

/-- a C-typed bound carries a value of its type -/
def Bound.wf : Bound → Prop
  | .c w s v => 0 < w ∧ inT w s v = true
  | _ => True

instance (b : Bound) : Decidable b.wf := by cases b <;> unfold Bound.wf <;> infer_instance

/-- full-strength statement for `a[i:j]` on a builtin-typed base, even with the repaired crop helper -/
def FullTypedGetSlice : Prop :=
  ∀ (sw : Nat) (k : Kind) (l : List Int) (bs be : Bound), 0 < sw → (l.length : Int) ≤ ssMax sw →
    bs.wf → be.wf → typedGetSlice sw true k l bs be = pySlice l bs.value be.value none

/-- builtin-typed base: Python slice for all bounds whose VALUE is a `Py_ssize_t` (every signed C type up
to `Py_ssize_t`, narrower unsigned types, None, absent, Python ints in range) -/
theorem typedGetSlice_partial (sw : Nat) (fixed : Bool) (k : Kind) (l : List α) (bs be : Bound)
    (hsw : 0 < sw) (hlen : (l.length : Int) ≤ ssMax sw) (hfs : bs.fits sw) (hfe : be.fits sw)
    (hno : fixed = false → ¬ cropOverflows sw (bs.cval sw false) (be.cval sw true) l.length) :
    typedGetSlice sw fixed k l bs be = pySlice l bs.value be.value none := by
  obtain ⟨ca, ia⟩ := coerceBound_fits hsw hfs false
  obtain ⟨cb, ib⟩ := coerceBound_fits hsw hfe true
  have hc := pySlice_congr l (unpackStart_cval (sw := sw) (len := l.length) bs) (unpackStop_cval hlen be)
  unfold typedGetSlice
  rw [ca, Out.ok_bind, cb, Out.ok_bind, ← hc]
  cases k
  case str => exact unicodeSubstring_eq hlen ia ib
  case bytes => rfl
  case bytearray => rfl
  all_goals exact seqGetSlice_eq hlen ia ib fixed hno

example : (Bound.c 32 true (-7)).fits 64 ∧ (Bound.pyNone).fits 64 := by decide

/-- witness (object bound): `def f(list a, i): return a[i:]`, `f([1,2,3], 2**70)` raises OverflowError, CPython `[]` -/
theorem typedGetSlice_object_bound_counterexample : ¬ FullTypedGetSlice := by
  intro h
  have := h 64 .list [1, 2, 3] (.pyInt (2 ^ 70)) .absent (by decide) (by decide) trivial trivial
  revert this
  decide

/-- witness (unsigned C bound): `size_t i = 2**63, j = 2**64-1`: `[1,2,3][i:j]` gives `[1,2]`, CPython `[]` -/
theorem typedGetSlice_unsigned_bound_counterexample :
    (Bound.c 64 false (2 ^ 63)).wf ∧
    typedGetSlice 64 true .list ([1, 2, 3] : List Int) (.c 64 false (2 ^ 63)) (.c 64 false (2 ^ 64 - 1)) = .ok [1, 2] ∧
    pySlice ([1, 2, 3] : List Int) (some (2 ^ 63)) (some (2 ^ 64 - 1)) none = .ok [] := by decide

/-- `object`-typed base (`__Pyx_PyObject_GetSlice`): Python slice for ALL Python-object bounds (any size, None)
and all C bounds whose value is a `Py_ssize_t` -/
theorem objGetSlice_partial (sw : Nat) (l : List α) (bs be : Bound) (hsw : 0 < sw)
    (hfs : bs.cfits sw) (hfe : be.cfits sw) :
    objGetSlice sw l bs be = pySlice l bs.value be.value none := by
  unfold objGetSlice
  rw [objBound_cfits hsw hfs, objBound_cfits hsw hfe]

example : (Bound.pyInt (2 ^ 70)).cfits 64 ∧ (Bound.c 64 true (-2 ^ 63)).cfits 64 := by decide

theorem objGetSlice_unsigned_bound_counterexample :
    objGetSlice 64 ([1, 2, 3] : List Int) (.c 64 false 1) (.c 64 false (2 ^ 64 - 1)) = .ok [2] ∧
    pySlice ([1, 2, 3] : List Int) (some 1) (some (2 ^ 64 - 1)) none = .ok [2, 3] := by decide

/-- slice assignment / deletion on a builtin-typed base; reference `assSliceK`: `pySetSlice` for
list/bytearray, TypeError for tuple/str/bytes -/
theorem typedAssSlice_partial (sw : Nat) (k : Kind) (l : List α) (bs be : Bound) (vs : Option (List α))
    (hsw : 0 < sw) (hlen : (l.length : Int) ≤ ssMax sw) (hfs : bs.fits sw) (hfe : be.fits sw) :
    typedAssSlice sw k l bs be vs = assSliceK k l bs.value be.value vs := by
  obtain ⟨ca, _⟩ := coerceBound_fits hsw hfs false
  obtain ⟨cb, _⟩ := coerceBound_fits hsw hfe true
  unfold typedAssSlice
  rw [ca, Out.ok_bind, cb, Out.ok_bind]
  unfold assSliceK
  rw [pySetSlice_congr l (vs.getD []) (unpackStart_cval (sw := sw) (len := l.length) bs) (unpackStop_cval hlen be)]

/-- witness: `def f(list a, i, v): a[:i] = v`, `f([1,2,3], 2**70, [9])` raises OverflowError, CPython gives `[9]` -/
theorem typedAssSlice_object_bound_counterexample :
    typedAssSlice 64 .list ([1, 2, 3] : List Int) .absent (.pyInt (2 ^ 70)) (some [9]) = .err "OverflowError" ∧
    assSliceK .list ([1, 2, 3] : List Int) none (some (2 ^ 70)) (some [9]) = .ok [9] := by decide

theorem objAssSlice_partial (sw : Nat) (k : Kind) (l : List α) (bs be : Bound) (vs : Option (List α))
    (hsw : 0 < sw) (hfs : bs.cfits sw) (hfe : be.cfits sw) :
    objAssSlice sw k l bs be vs = assSliceK k l bs.value be.value vs := by
  unfold objAssSlice
  rw [objBound_cfits hsw hfs, objBound_cfits hsw hfe]

/-- step-1 slice assignment keeps everything outside `[a, max a b)` and puts `vs` there -/
theorem pySetSlice_shape (l : List α) (a b : Option Int) (vs : List α) :
    pySetSlice l a b vs = l.take (unpackStart l.length 1 a).toNat ++ vs ++
      l.drop (max (unpackStart l.length 1 a).toNat (unpackStop l.length 1 b).toNat) := rfl

end CyVerif.C15

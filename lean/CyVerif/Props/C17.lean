import CyVerif.Lemmas.C17Chunk
import CyVerif.Lemmas.C17Contig
/-! C17 — buffer acquisition accepts exactly the matching buffers: property theorems. -/
namespace CyVerif.C17

def intSlot : Slot := { group := 'I', size := 4, off := 0, arr := [], cplx := false }

/-! ## format checker -/

/-- FULL-STRENGTH statement (false for the code as it exists): for every dtype, item size and format string over
    the flat alphabet the checker accepts iff the reference layout of the format equals the C layout of the dtype. -/
def FullFlat (guard : Bool) : Prop :=
  ∀ (slots : List Slot) (dtSize itemsize : Nat) (fmt : List Char), refLayout fmt ≠ none →
    (acquire guard slots dtSize itemsize fmt = .ok () ↔ refAccept slots dtSize itemsize fmt = true)

/-- counterexample (both variants): a zero repeat count is processed as one element — `=i0q` denotes exactly one
    `int` but is rejected for an `int` dtype -/
theorem zero_count_counterexample (guard : Bool) : ¬ FullFlat guard := by
  intro h
  have := h [intSlot] 4 4 "=i0q".toList (by decide)
  cases guard <;> revert this <;> decide

/-- memory safety, FULL statement: the checker never reaches undefined behaviour -/
def NoUB (guard : Bool) : Prop :=
  ∀ (slots : List Slot) (dtSize itemsize : Nat) (fmt : List Char) (k : String),
    acquire guard slots dtSize itemsize fmt ≠ .ub k

/-- counterexample on the pinned code: `int` dtype, format `idi` (e.g. a NumPy record array with three fields) —
    `ProcessTypeChunk` runs with `ctx->head == NULL` -/
theorem nullderef_counterexample : ¬ NoUB false := by
  intro h; exact h [intSlot] 4 4 "idi".toList "nullderef" (by decide)

/-- the same input with the repaired code: a "Buffer dtype mismatch" ValueError -/
theorem nullderef_repaired : acquire true [intSlot] 4 4 "idi".toList = .err "mismatch" := by decide

/-- element loop of `ProcessTypeChunk`, all dtypes made of plain leaves (any number of fields), all repeat counts,
    all offsets, every byte-order mode: it succeeds iff the next `k+1` leaves of the dtype are `k+1` consecutive
    elements of the item's kind group and size starting at the current offset (`_partial`: aligned start in
    native mode; array fields and two-float structs excluded) -/
theorem chunk_elements_partial (g : Char) (st : St) (fuel k : Nat)
    (hp : Plain st.slots) (hne : st.slots ≠ []) (hc : st.encCount = k + 1) (hk : k + 1 < 2 ^ 64)
    (hf : st.slots.length < fuel)
    (hal : st.encPack = '@' → st.off % alignOf st.encType = 0 ∧ encSize st % alignOf st.encType = 0) :
    (∃ st', chunkLoop g 1 fuel st = .ok st') ↔ Consec g (encSize st) (k + 1) st.off st.slots :=
  chunkLoop_ok_iff g st.slots st fuel k rfl hp hne hc hk hf hal

/-- non-vacuity: struct {int a; int b; short h}, item `2i` in native mode at offset 0 -/
example : ∃ st', chunkLoop 'I' 1 9
    { St.init [intSlot, { intSlot with off := 4 }, { intSlot with size := 2, off := 8 }] with
      encType := 'i', encCount := 2 } = .ok st' := by
  refine (chunk_elements_partial 'I' _ 9 1 ?_ (by decide) rfl (by decide) (by decide) (by decide)).mpr
    (by simp [Consec, encSize, St.init, intSlot, nativeSize])
  intro s hs; simp [St.init] at hs; rcases hs with rfl | rfl | rfl <;> decide

/-- size/alignment tables: every native size is a multiple of its alignment, alignments are positive, and the
    standard sizes differ from the native ones exactly for `l`, `L` (4 instead of 8) and `g` (none) -/
theorem tables_consistent :
    ∀ c ∈ ['?', 'c', 'b', 'B', 'h', 'H', 'i', 'I', 'l', 'L', 'q', 'Q', 'f', 'd', 'g', 'O', 'p', 's'], ∀ z : Bool,
      0 < alignOf c ∧ nativeSize c z % alignOf c = 0 ∧
      (c ∉ ['l', 'L', 'g'] → standardSize c z = nativeSize c z) := by decide

/-! ## contiguity -/

/-- `__pyx_verify_contig`, Fortran order, every number of axes: passes iff the buffer is Fortran contiguous
    (axes of extent ≤ 1 are unconstrained) -/
theorem verify_contig_F (itemsize : Int) (axes : List Axis) :
    verifyContig 2 itemsize axes = none ↔ FContig itemsize axes := by
  unfold verifyContig FContig
  rw [← verifyF_iff]; simp

/-- `__pyx_verify_contig`, C order -/
theorem verify_contig_C (itemsize : Int) (axes : List Axis) :
    verifyContig 1 itemsize axes = none ↔ CContig itemsize axes := by
  unfold verifyContig CContig
  rw [← verifyF_iff]; simp

/-- an accepted buffer with strides is contiguous in the declared order (soundness of the whole axes block) -/
theorem accepted_is_contiguous (flag : Nat) (hsub : Bool) (itemsize len : Int) (axes : List Axis) (hlen : len > 0)
    (h : validateAxes flag true hsub itemsize len axes = none) :
    (flag = 1 → CContig itemsize axes) ∧ (flag = 2 → FContig itemsize axes) := by
  unfold validateAxes at h
  rw [if_pos hlen] at h
  split at h
  · cases h
  · simp only [if_true] at h
    exact ⟨fun hf => (verify_contig_C itemsize axes).mp (hf ▸ h), fun hf => (verify_contig_F itemsize axes).mp (hf ▸ h)⟩

/-- zero-sized buffers are accepted whatever their strides and suboffsets -/
theorem empty_buffer_accepted (flag : Nat) (hs hsub : Bool) (itemsize : Int) (axes : List Axis) :
    validateAxes flag hs hsub itemsize 0 axes = none := by simp [validateAxes]

/-- an axis of extent ≤ 1 never fails the stride test -/
theorem extent_le_one_any_stride (hs hsub : Bool) (itemsize : Int) (isLast : Bool) (a : Axis) (h : a.shape ≤ 1) :
    checkStrides hs hsub itemsize isLast a = none := checkStrides_extent_le_one hs hsub itemsize isLast a h

/-- `[:, :, …]` strided direct access, every number of axes: accepted iff no axis is indirect -/
theorem strided_direct (hsub : Bool) (itemsize len : Int) (axes : List Axis) (hlen : len > 0)
    (hspec : ∀ a ∈ axes, a.spec = 17) :
    validateAxes 0 true hsub itemsize len axes = none ↔ (hsub = true → ∀ a ∈ axes, a.sub < 0) := by
  unfold validateAxes
  rw [if_pos hlen, ← checkAxes_strided_direct hsub itemsize axes hspec]
  cases h : checkAxes true hsub itemsize axes <;> simp [verifyContig]

/-- non-vacuity: shape (3,1,2), itemsize 4: strides (8, 999, 4) are C contiguous, (4, 12, 999)… the extent-1 axis is free -/
example : CContig 4 [⟨3, 8, -1, 33⟩, ⟨1, 999, -1, 33⟩, ⟨2, 4, -1, 9⟩] := by
  refine (verify_contig_C 4 _).mp (by decide)
example : validateAxes 0 true true 4 24 [⟨2, 12, -1, 17⟩, ⟨3, 4, -1, 17⟩] = none :=
  (strided_direct true 4 24 _ (by decide) (by decide)).mpr (by decide)

end CyVerif.C17

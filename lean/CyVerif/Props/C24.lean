import CyVerif.Lemmas.C24Top
/-!
Property C24 — argument binding of compiled functions matches CPython for every signature and call.

`pyBind`  : CPython 3.12 `initialize_locals`.
`cyCall`  : the code Cython generates for a `def` (Nodes.py `DefNodeWrapper`) + FunctionArguments.c +
            the METH_NOARGS/METH_O/vectorcall entry points, for a build configuration `cfg`
            (vectorcall or dict keywords, `always_allow_keywords`, used/unused `**kwargs`, cdef-class method).
`s.WF`    : positional-only count ≤ positional count, distinct parameter names, defaults form a suffix.
`KeysDistinct` : the keyword keys of one call are distinct strings (CPython's call machinery guarantees it).
Errors are compared by class: every error of both sides is `err "TypeError"`.
-/
namespace CyVerif.C24

/-- The full-strength statement over every build configuration. -/
def FullBinding : Prop :=
  ∀ (cfg : Cfg) (s : Sig) (c : Call), s.WF → KeysDistinct c.kws →
    cyCall cfg s c = mapRes (observe cfg) (pyBind s c)

/-- Full strength for the default directive `always_allow_keywords=True`: for ALL signatures, ALL calls, both
    keyword transports (vectorcall tuple / dict), used or unused `**kwargs`, plain functions and cdef-class methods,
    the generated code binds exactly what CPython binds, or both raise TypeError. -/
theorem binding_eq (cfg : Cfg) (s : Sig) (c : Call) (haak : cfg.alwaysKw = true)
    (hs : s.WF) (hc : KeysDistinct c.kws) :
    cyCall cfg s c = mapRes (observe cfg) (pyBind s c) :=
  cyCall_eq cfg hs hc (fun hm => Or.inl (methKind_generic_or cfg s haak hm))

/-- Stated on source spellings: the keyword a caller must use for a parameter is `callerName cls src`
    (NFKC-normalised, class-private names mangled inside a class body).  With those names the compiled function
    and CPython bind alike; in particular a key that carries the SOURCE spelling of a mangled parameter is an
    unknown keyword for both (second theorem). -/
theorem binding_eq_source (cfg : Cfg) (s : SrcSig) (c : Call) (haak : cfg.alwaysKw = true)
    (hs : s.toSig.WF) (hc : KeysDistinct c.kws) :
    cyCall cfg s.toSig c = mapRes (observe cfg) (pyBind s.toSig c) :=
  binding_eq cfg s.toSig c haak hs hc

/-- inside a class, the mangled name of a class-private parameter differs from every unmangled spelling -/
theorem callerName_priv_ne (c : Nat) (n : SrcName) (hp : n.shape = .priv) (m : SrcName) :
    callerName (some c) n ≠ callerName none m := by
  unfold callerName
  rw [hp]
  simp only
  omega

/-- Every configuration, with the excluded points as hypothesis: unless the METH_O shortcut is taken
    (`always_allow_keywords=False`, exactly one required non-keyword-only parameter, no `*`/`**`)
    for a parameter that is not positional-only AND the call passes keywords. -/
theorem binding_eq_partial (cfg : Cfg) (s : Sig) (c : Call) (hs : s.WF) (hc : KeysDistinct c.kws)
    (hex : methKind cfg s = .o → s.npo = s.pos.length ∨ c.kws = []) :
    cyCall cfg s c = mapRes (observe cfg) (pyBind s c) :=
  cyCall_eq cfg hs hc hex

/-- witness: `def f(a)` compiled with `always_allow_keywords=False`, called as `f(a=20)` -/
def witnessSig : Sig := mkSig 1 0 0 false false ""
def witnessCall : Call := ⟨[], [(⟨0, .interned⟩, 20)]⟩
def witnessCfg : Cfg := ⟨true, false, true, false⟩

theorem witnessSig_wf : witnessSig.WF where
  npo_le := by decide
  nodup := by decide
  dflt_suffix := by
    intro i hi
    have : i = 0 := by
      have : witnessSig.pos.length = 1 := rfl
      omega
    subst this
    rfl

theorem witness_cy : cyCall witnessCfg witnessSig witnessCall = .err "TypeError" := by decide
theorem witness_py : pyBind witnessSig witnessCall = .ok ⟨[(0, 20)], none, none⟩ := by decide

/-- The full statement is false for `always_allow_keywords=False` (documented directive behaviour). -/
theorem full_binding_false_without_aak : ¬ FullBinding := by
  intro h
  have := h witnessCfg witnessSig witnessCall witnessSig_wf (by unfold KeysDistinct; decide)
  rw [witness_cy, witness_py] at this
  cases this

/-- No undefined behaviour in the modelled code: the outcome is a binding or TypeError — `values[]` never
    hands a NULL to the function body and `__pyx_pyargnames` is never indexed past its end. -/
theorem outcome_ok_or_typeerror (cfg : Cfg) (s : Sig) (c : Call) (hs : s.WF) (hc : KeysDistinct c.kws)
    (hex : methKind cfg s = .o → s.npo = s.pos.length ∨ c.kws = []) :
    (∃ b, cyCall cfg s c = .ok b) ∨ cyCall cfg s c = .err "TypeError" := by
  rw [cyCall_eq cfg hs hc hex, pyBind_closed hs hc]
  repeat' split
  all_goals first
    | (right; rfl)
    | (left; exact ⟨_, rfl⟩)

/-- The keyword transport is unobservable: vectorcall (`kwnames` tuple) and tp_call (`dict`) entry bind alike. -/
theorem entry_paths_agree (cfg : Cfg) (s : Sig) (c : Call) (haak : cfg.alwaysKw = true)
    (hs : s.WF) (hc : KeysDistinct c.kws) :
    cyCall { cfg with vec := true } s c = cyCall { cfg with vec := false } s c := by
  rw [binding_eq { cfg with vec := true } s c haak hs hc, binding_eq { cfg with vec := false } s c haak hs hc]
  rfl

/-! non-vacuity: a signature with every parameter kind satisfies `WF`; concrete calls satisfy the hypotheses
    and exercise both outcomes -/
def exSig : Sig := mkSig 3 1 1 true true "ro"      -- def f(p0, /, p1, p2=902, *args, k0, k1=951, **kw)

example : exSig.WF where
  npo_le := by decide
  nodup := by decide
  dflt_suffix := by
    intro i hi
    have : exSig.pos.length = 3 := rfl
    have : i = 0 ∨ i = 1 ∨ i = 2 := by omega
    rcases this with rfl | rfl | rfl <;> rfl

example : KeysDistinct [((⟨100, .fresh⟩ : Key), 20), (⟨1, .sub⟩, 21), (⟨500, .interned⟩, 22)] := by
  unfold KeysDistinct; decide

example : cyCall ⟨true, true, true, false⟩ exSig ⟨[10], [(⟨100, .fresh⟩, 20), (⟨1, .sub⟩, 21), (⟨500, .interned⟩, 22)]⟩ =
    .ok ⟨[(0, 10), (1, 21), (2, 902), (100, 20), (101, 951)], some [], some [(⟨500, .interned⟩, 22)]⟩ := by decide

example : cyCall ⟨false, true, true, false⟩ exSig ⟨[10, 11], [(⟨100, .fresh⟩, 20), (⟨1, .sub⟩, 21)]⟩ =
    .err "TypeError" := by decide

example : methKind witnessCfg witnessSig = .o := by decide

end CyVerif.C24

import CyVerif.Model.C03
import CyVerif.Lemmas.C03Helpers
/-!
# C03 — C-integer `//` and `%` follow Python semantics

`genDiv c a b` / `genMod c a b` model the C code the compiler emits for
`a // b` / `a % b` whose result type `c.ty` is a C integer type of width
`c.ty.w` (universally quantified, `≥ 2`), signed or unsigned; `c.wl` is the
width of C `long`, `c.bConst` says whether the divisor is a compile-time
constant, `c.cdivision` is the directive, `c.guardMinusOne` selects the helper
bodies of the pinned tree (`false`) or the repaired ones (`true`), `c.guardAllWidths`
selects the call-site `OverflowError` guard of the pinned tree (`false`: only types as
wide as `long`, only run-time divisors) or `DivNode.minus1_check` (`true`: every signed
width, constant divisors too).  The code as it is now is `guardMinusOne = guardAllWidths = true`.
Python `//` is `Int.fdiv`, `%` is `Int.fmod`; C `/`, `%` are `Int.tdiv`, `Int.tmod`.
-/
namespace CyVerif.C03

/-! ## Zero divisor -/

/-- cdivision off: a zero divisor raises `ZeroDivisionError` — every type, every dividend,
run-time and constant divisor, both operators. -/
theorem zero_divisor_raises (c : Cfg) (hcd : c.cdivision = false) (a : Int) :
    genDiv c a 0 = .err "ZeroDivisionError" ∧ genMod c a 0 = .err "ZeroDivisionError" := by
  simp [genDiv, genMod, Cfg.zeroCheck, hcd]

/-! ## `//` (cdivision off): floor quotient whenever it fits the result type -/

/-- Full strength for `//`: for every width `w ≥ 2`, signed or unsigned, run-time or constant
divisor, pinned or repaired helpers: if the floor quotient fits the result type, the generated
code yields exactly it (in particular no C undefined behaviour on the way). -/
theorem floordiv_correct (c : Cfg) (hw : 2 ≤ c.ty.w) (hcd : c.cdivision = false) {a b : Int}
    (ha : c.ty.InRange a) (hb : c.ty.InRange b) (hb0 : b ≠ 0) (hfit : c.ty.InRange (a.fdiv b)) :
    genDiv c a b = .ok (a.fdiv b) := by
  have hz : (c.zeroCheck b && b == 0) = false := by simp [hb0]
  cases hs : c.ty.signed
  · -- unsigned: plain C division after the zero check
    rw [inRange_unsigned hs] at ha hb
    have hq := cdivC_ok (t := c.ty) (a := a) hb0 (by simp [hs])
    simp only [genDiv, hz, overflowGuard_unsigned hs, Cfg.useC, hs, hcd, hq, toOut]
    simp [Int.fdiv_eq_tdiv_of_nonneg ha.1 hb.1]
  · have hne := (fdiv_fits_iff hs hw ha hb hb0).1 hfit
    have hg := overflowGuard_false hs hw ha hne
    simp only [genDiv, hz, hg, Cfg.useC, hs, hcd, divInt_eq_fdiv hs hw ha hb hb0 hne, toOut]
    simp

/-- The "fits" hypothesis of `floordiv_correct` excludes exactly one pair per signed type. -/
theorem floordiv_fits_iff {t : CTy} (hs : t.signed = true) (hw : 2 ≤ t.w) {a b : Int}
    (ha : t.InRange a) (hb : t.InRange b) (hb0 : b ≠ 0) :
    t.InRange (a.fdiv b) ↔ ¬ (a = t.min ∧ b = -1) := fdiv_fits_iff hs hw ha hb hb0

/-- Unsigned operands: the floor quotient always fits. -/
theorem floordiv_fits_unsigned {t : CTy} (hs : t.signed = false) {a b : Int}
    (ha : t.InRange a) (hb : t.InRange b) : t.InRange (a.fdiv b) := by
  rw [inRange_unsigned hs] at ha hb ⊢
  have := Int.fdiv_nonneg ha.1 hb.1
  have := Int.fdiv_le_self b ha.1
  omega

/-! ## `%` (cdivision off): remainder with the sign of the divisor -/

/-- The Python remainder of two values of a type always fits the type (so the property
demands a value for every non-zero divisor). -/
theorem pymod_fits {t : CTy} {a b : Int} (hb : t.InRange b) (hb0 : b ≠ 0) : t.InRange (a.fmod b) := by
  cases hs : t.signed
  · rw [inRange_unsigned hs] at hb ⊢
    have := fmod_range_pos a (show 0 < b by omega); omega
  · rw [inRange_signed hs] at hb ⊢
    by_cases hpos : 0 < b
    · have := fmod_range_pos a hpos; omega
    · have := fmod_range_neg a (show b < 0 by omega); omega

/-- Full-strength statement for `%`: every pair of values with a non-zero divisor yields the
Python remainder. -/
def FullMod (c : Cfg) : Prop :=
  ∀ a b : Int, c.ty.InRange a → c.ty.InRange b → b ≠ 0 → genMod c a b = .ok (a.fmod b)

/-- What holds on the pinned tree: the Python remainder for every pair except `(MIN, -1)` of a
signed type with the unrepaired helper. -/
theorem mod_correct_partial (c : Cfg) (hw : 2 ≤ c.ty.w) (hcd : c.cdivision = false) {a b : Int}
    (ha : c.ty.InRange a) (hb : c.ty.InRange b) (hb0 : b ≠ 0)
    (hne : ¬ (c.ty.signed = true ∧ c.guardMinusOne = false ∧ a = c.ty.min ∧ b = -1)) :
    genMod c a b = .ok (a.fmod b) := by
  have hz : (c.zeroCheck b && b == 0) = false := by simp [hb0]
  cases hs : c.ty.signed
  · rw [inRange_unsigned hs] at ha hb
    have hq := cmodC_ok (t := c.ty) (a := a) hb0 (by simp [hs])
    simp only [genMod, hz, Cfg.useC, hs, hcd, hq, toOut]
    simp [Int.fmod_eq_tmod_of_nonneg ha.1 hb.1]
  · have hne' : c.guardMinusOne = true ∨ ¬ (a = c.ty.min ∧ b = -1) := by
      cases hf : c.guardMinusOne
      · right; intro h; exact hne ⟨hs, hf, h.1, h.2⟩
      · left; rfl
    simp only [genMod, hz, Cfg.useC, hs, hcd, modInt_eq_fmod hs hw ha hb hb0 _ _ hne', toOut]
    simp

/-- With the repaired helper the full-strength statement holds. -/
theorem mod_full_fixed (c : Cfg) (hw : 2 ≤ c.ty.w) (hcd : c.cdivision = false)
    (hfix : c.guardMinusOne = true) : FullMod c := by
  intro a b ha hb hb0
  exact mod_correct_partial c hw hcd ha hb hb0 (by simp [hfix])

/-- Unsigned result types: the full-strength statement holds on the pinned tree. -/
theorem mod_full_unsigned (c : Cfg) (hw : 2 ≤ c.ty.w) (hcd : c.cdivision = false)
    (hs : c.ty.signed = false) : FullMod c := by
  intro a b ha hb hb0
  exact mod_correct_partial c hw hcd ha hb hb0 (by simp [hs])

/-- On the pinned tree `MIN % -1` (mathematical result `0`, which fits) is C undefined behaviour
in every signed type: `ModInt` evaluates `a % b` unguarded and no call-site guard is emitted for `%`. -/
theorem mod_min_neg_one_ub (c : Cfg) (hcd : c.cdivision = false) (hs : c.ty.signed = true)
    (hfix : c.guardMinusOne = false) : genMod c c.ty.min (-1) = .ub "divOverflow" := by
  simp [genMod, Cfg.zeroCheck, Cfg.useC, hcd, hs, hfix, modInt_min_neg_one hs, toOut]

/-- Counterexample: the full-strength statement for `%` is FALSE for the code as it exists,
for every signed width (witness `(MIN, -1)`). -/
theorem mod_full_false (c : Cfg) (hcd : c.cdivision = false) (hs : c.ty.signed = true)
    (hfix : c.guardMinusOne = false) : ¬ FullMod c := by
  intro h
  have := h c.ty.min (-1) (min_inRange c.ty) (neg_one_inRange hs) (by decide)
  rw [mod_min_neg_one_ub c hcd hs hfix] at this
  cases this

/-- The section-5 witness F1: 32-bit `int`, `a = -2^31`, `b = -1`, run-time divisor. -/
theorem mod_full_false_int32 :
    genMod { ty := ⟨32, true⟩, wl := 64, cdivision := false, bConst := false, guardMinusOne := false,
             guardAllWidths := false }
      (-2147483648) (-1) = .ub "divOverflow" :=
  mod_min_neg_one_ub _ rfl rfl rfl

/-! ## The `b == -1` overflow guard of `//` and the remaining undefined points -/

/-- Old guard, types as wide as `long`, run-time divisor: `MIN // -1` raises `OverflowError`. -/
theorem floordiv_guard_long (c : Cfg) (hw : 2 ≤ c.ty.w) (hcd : c.cdivision = false)
    (hga : c.guardAllWidths = false) (hs : c.ty.signed = true) (hwl : c.ty.w = c.wl) (hbc : c.bConst = false) :
    genDiv c c.ty.min (-1) = .err "OverflowError" := by
  have hg := overflowGuard_old_min_neg_one hga hs hw hcd
  simp only [hwl, hbc, decide_true, Bool.not_false, Bool.and_self] at hg
  simp [genDiv, hg]

/-- New guard (`minus1_check`): `MIN // -1` raises `OverflowError` in EVERY signed type, for a
run-time and for a constant divisor, whichever helper variant is in use. -/
theorem floordiv_guard_all (c : Cfg) (hw : 2 ≤ c.ty.w) (hcd : c.cdivision = false)
    (hga : c.guardAllWidths = true) (hs : c.ty.signed = true) :
    genDiv c c.ty.min (-1) = .err "OverflowError" := by
  simp [genDiv, overflowGuard_all_min_neg_one hga hs hw hcd]

/-- The code as it is now, `//` on a signed type with cdivision off, total description: every pair of
values with a non-zero divisor gives the floor quotient, except `(MIN, -1)` (the only pair whose
quotient does not fit), which raises `OverflowError`. -/
theorem floordiv_total (c : Cfg) (hw : 2 ≤ c.ty.w) (hcd : c.cdivision = false)
    (hga : c.guardAllWidths = true) (hs : c.ty.signed = true) {a b : Int}
    (ha : c.ty.InRange a) (hb : c.ty.InRange b) (hb0 : b ≠ 0) :
    genDiv c a b = if a = c.ty.min ∧ b = -1 then .err "OverflowError" else .ok (a.fdiv b) := by
  split
  · rename_i h
    obtain ⟨rfl, rfl⟩ := h
    exact floordiv_guard_all c hw hcd hga hs
  · rename_i h
    exact floordiv_correct c hw hcd ha hb hb0 ((fdiv_fits_iff hs hw ha hb hb0).2 h)

/-- Old guard, unrepaired helper: the set of operand pairs on which the generated `//` has undefined
behaviour is exactly `(MIN, -1)` in signed types that are not as wide as `long`, or with a constant divisor. -/
theorem floordiv_ub_iff (c : Cfg) (hw : 2 ≤ c.ty.w) (hcd : c.cdivision = false)
    (hfix : c.guardMinusOne = false) (hga : c.guardAllWidths = false)
    {a b : Int} (ha : c.ty.InRange a) (hb : c.ty.InRange b) :
    (∃ k, genDiv c a b = .ub k) ↔
      (c.ty.signed = true ∧ a = c.ty.min ∧ b = -1 ∧ (c.ty.w ≠ c.wl ∨ c.bConst = true)) := by
  constructor
  · rintro ⟨k, hk⟩
    by_cases hb0 : b = 0
    · subst hb0; rw [(zero_divisor_raises c hcd a).1] at hk; cases hk
    · cases hs : c.ty.signed
      · rw [floordiv_correct c hw hcd ha hb hb0 (floordiv_fits_unsigned hs ha hb)] at hk; cases hk
      · by_cases hne : a = c.ty.min ∧ b = -1
        · obtain ⟨rfl, rfl⟩ := hne
          refine ⟨rfl, rfl, rfl, ?_⟩
          by_cases hwl : c.ty.w = c.wl
          · right
            cases hbc : c.bConst
            · rw [floordiv_guard_long c hw hcd hga hs hwl hbc] at hk; cases hk
            · rfl
          · left; exact hwl
        · rw [floordiv_correct c hw hcd ha hb hb0 ((fdiv_fits_iff hs hw ha hb hb0).2 hne)] at hk
          cases hk
  · rintro ⟨hs, rfl, rfl, hor⟩
    refine ⟨"divOverflow", ?_⟩
    have hg : c.overflowGuard c.ty.min (-1) = false := by
      rw [overflowGuard_old_min_neg_one hga hs hw hcd]
      rcases hor with h | h
      · simp [h]
      · simp [h]
    simp [genDiv, Cfg.zeroCheck, hg, Cfg.useC, hcd, hs, hfix, divInt_min_neg_one hs, toOut]

/-- New guard: with cdivision off the generated `//` has no undefined behaviour on any pair of values of
the type, even with the unrepaired `DivInt` (the guard catches `(MIN, -1)` before the helper runs). -/
theorem floordiv_no_ub_guarded (c : Cfg) (hw : 2 ≤ c.ty.w) (hcd : c.cdivision = false)
    (hga : c.guardAllWidths = true) {a b : Int} (ha : c.ty.InRange a) (hb : c.ty.InRange b) (k : String) :
    genDiv c a b ≠ .ub k := by
  by_cases hb0 : b = 0
  · subst hb0; rw [(zero_divisor_raises c hcd a).1]; intro h; cases h
  · cases hs : c.ty.signed
    · rw [floordiv_correct c hw hcd ha hb hb0 (floordiv_fits_unsigned hs ha hb)]; intro h; cases h
    · rw [floordiv_total c hw hcd hga hs ha hb hb0]
      split <;> (intro h; cases h)

/-- Pinned tree: the generated `%` has undefined behaviour exactly on `(MIN, -1)` of signed types. -/
theorem mod_ub_iff (c : Cfg) (hw : 2 ≤ c.ty.w) (hcd : c.cdivision = false)
    (hfix : c.guardMinusOne = false) {a b : Int} (ha : c.ty.InRange a) (hb : c.ty.InRange b) :
    (∃ k, genMod c a b = .ub k) ↔ (c.ty.signed = true ∧ a = c.ty.min ∧ b = -1) := by
  constructor
  · rintro ⟨k, hk⟩
    by_cases hb0 : b = 0
    · subst hb0; rw [(zero_divisor_raises c hcd a).2] at hk; cases hk
    · by_cases hne : c.ty.signed = true ∧ a = c.ty.min ∧ b = -1
      · exact hne
      · rw [mod_correct_partial c hw hcd ha hb hb0 (fun h => hne ⟨h.1, h.2.2⟩)] at hk; cases hk
  · rintro ⟨hs, rfl, rfl⟩
    exact ⟨_, mod_min_neg_one_ub c hcd hs hfix⟩

/-- Repaired helpers: with cdivision off the generated `//` and `%` have no undefined behaviour
at all on values of the type (zero divisor included). -/
theorem no_ub_fixed (c : Cfg) (hw : 2 ≤ c.ty.w) (hcd : c.cdivision = false)
    (hfix : c.guardMinusOne = true) {a b : Int} (ha : c.ty.InRange a) (hb : c.ty.InRange b) (k : String) :
    genDiv c a b ≠ .ub k ∧ genMod c a b ≠ .ub k := by
  by_cases hb0 : b = 0
  · subst hb0
    rw [(zero_divisor_raises c hcd a).1, (zero_divisor_raises c hcd a).2]
    exact ⟨fun h => (by cases h), fun h => (by cases h)⟩
  · constructor
    · cases hs : c.ty.signed
      · rw [floordiv_correct c hw hcd ha hb hb0 (floordiv_fits_unsigned hs ha hb)]
        intro h; cases h
      · by_cases hne : a = c.ty.min ∧ b = -1
        · obtain ⟨rfl, rfl⟩ := hne
          unfold genDiv
          split
          · intro h; cases h
          · split
            · intro h; cases h
            · simp [Cfg.useC, hcd, hs, hfix, divInt_fixed_min_neg_one, toOut]
        · rw [floordiv_correct c hw hcd ha hb hb0 ((fdiv_fits_iff hs hw ha hb hb0).2 hne)]
          intro h; cases h
    · rw [mod_full_fixed c hw hcd hfix a b ha hb hb0]
      intro h; cases h

/-! ## cdivision on: C truncation semantics -/

/-- With the `cdivision` directive the generated code is plain C `/` and `%`: truncated quotient
and remainder with the sign of the dividend (both values of the result type), for every pair that
is defined in C. -/
theorem cdivision_trunc (c : Cfg) (hw : 2 ≤ c.ty.w) (hcd : c.cdivision = true) {a b : Int}
    (ha : c.ty.InRange a) (hb : c.ty.InRange b) (hb0 : b ≠ 0)
    (hne : ¬ (c.ty.signed = true ∧ a = c.ty.min ∧ b = -1)) :
    genDiv c a b = .ok (a.tdiv b) ∧ genMod c a b = .ok (a.tmod b) ∧ c.ty.InRange (a.tdiv b) := by
  refine ⟨?_, ?_, tdiv_inRange hw ha hb hb0 hne⟩
  · simp [genDiv, Cfg.zeroCheck, overflowGuard_cdivision hcd, Cfg.useC, hcd, cdivC_ok hb0 hne, toOut]
  · simp [genMod, Cfg.zeroCheck, Cfg.useC, hcd, cmodC_ok hb0 hne, toOut]

/-- With the `cdivision` directive no zero check is emitted: a zero divisor is C undefined behaviour. -/
theorem cdivision_zero_ub (c : Cfg) (hcd : c.cdivision = true) (a : Int) :
    genDiv c a 0 = .ub "divByZero" ∧ genMod c a 0 = .ub "divByZero" := by
  simp [genDiv, genMod, Cfg.zeroCheck, overflowGuard_cdivision hcd, Cfg.useC, hcd, cdivC, cmodC, toOut]

/-! ## Both forms of the sign adjustment agree -/

/-- `const_form_eq`: on values of a signed type, `(r ^ b) < 0` (run-time divisor) and
`(r < 0) ^ (b < 0)` (constant divisor) give the same `adapt_python`. -/
theorem const_form_eq {t : CTy} (hs : t.signed = true) (hw : 1 ≤ t.w) {r b : Int}
    (hr : t.InRange r) (hb : t.InRange b) : adaptPython t false r b = adaptPython t true r b := by
  rw [adaptPython_const_irrelevant hs hw hr hb false, adaptPython_const_irrelevant hs hw hr hb true]

/-! ## Non-vacuity -/

def cfgOf (w : Nat) (s cd bc fx ga : Bool) : Cfg :=
  { ty := ⟨w, s⟩, wl := 64, cdivision := cd, bConst := bc, guardMinusOne := fx, guardAllWidths := ga }

/-- Concrete non-trivial operands satisfy the hypotheses of `floordiv_correct` /
`mod_correct_partial` / `floordiv_total` (8-bit signed, opposite signs, inexact). -/
example : (cfgOf 8 true false false true true).ty.InRange (-7) ∧ (cfgOf 8 true false false true true).ty.InRange 2 ∧
    (2 : Int) ≠ 0 ∧ (cfgOf 8 true false false true true).ty.InRange (Int.fdiv (-7) 2) ∧
    ¬ ((-7 : Int) = (cfgOf 8 true false false true true).ty.min ∧ (2 : Int) = -1) := by decide

/-- the pinned tree (`fx = ga = false`) -/
example : genDiv (cfgOf 8 true false false false false) (-7) 2 = .ok (-4) ∧
    genMod (cfgOf 8 true false false false false) (-7) 2 = .ok 1 ∧
    genDiv (cfgOf 8 true false true false false) 7 (-2) = .ok (-4) ∧
    genMod (cfgOf 8 true false true false false) 7 (-2) = .ok (-1) ∧
    genDiv (cfgOf 32 false false false false false) 4294967295 7 = .ok 613566756 ∧
    genDiv (cfgOf 64 true false false false false) (-9223372036854775808) (-1) = .err "OverflowError" ∧
    genDiv (cfgOf 32 true false false false false) (-2147483648) (-1) = .ub "divOverflow" ∧
    genDiv (cfgOf 8 true true false false false) (-7) 2 = .ok (-3) ∧
    genMod (cfgOf 8 true true false false false) (-7) 2 = .ok (-1) := by decide

/-- the code as it is now (`fx = ga = true`) -/
example : genDiv (cfgOf 8 true false false true true) (-7) 2 = .ok (-4) ∧
    genMod (cfgOf 64 true false false true true) (-9223372036854775808) (-1) = .ok 0 ∧
    genDiv (cfgOf 32 true false false true true) (-2147483648) (-1) = .err "OverflowError" ∧
    genDiv (cfgOf 64 true false true true true) (-9223372036854775808) (-1) = .err "OverflowError" ∧
    genDiv (cfgOf 32 true false true true true) (-2147483648) 7 = .ok (-306783379) ∧
    genDiv (cfgOf 32 true true false true true) (-2147483648) (-1) = .ub "divOverflow" ∧
    genMod (cfgOf 32 true false true true true) (-2147483648) (-1) = .ok 0 := by decide

end CyVerif.C03

import CyVerif.Model.C05
import CyVerif.Lemmas.C05Chunks
/-!
# C05 — Python int <-> C integer conversion is exact or raises

Model: `CyVerif/Model/C05.lean` (`Cython/Utility/TypeConversion.c`: `CIntFromPy`, `CIntFromPyVerify`, `CIntToPy`,
`__Pyx_PyLong_AsSsize_t`, `pylong_join`).  All statements quantify over

* every platform `P` with `P.WF` (any `PyLong_SHIFT > 0`, any `sizeof(int) <= sizeof(long) <= sizeof(long long)`),
* every tuple of `size ==` cases the template may be generated with (`tm : Tmpl`),
* every C integer type `t` (any `sizeof > 0`, signed or unsigned; `isEnum` arbitrary),
* every well-formed CPython int `p` (any number of digits, any sign) — equivalently every `x : Int`.

`spec t v = if t.inRange v then .ok v else .err "OverflowError"`.  `Out.ub` (undefined behaviour in the C
expression evaluation, or an exception left pending with a non-error return value) never appears.
-/
namespace CyVerif.C05

/-! ## from-Python, `_PyLong_AsByteArray` builds (CPython < 3.13: default and `-DCYTHON_USE_PYLONG_INTERNALS=0`) -/

/-- **Full strength.** In every build that uses `_PyLong_AsByteArray` for oversized types — with or without
PyLong internals — `__Pyx_PyLong_As_T` returns exactly the value if it fits `T` and raises `OverflowError`
otherwise, for every int, every type, every platform. -/
theorem fromPyLong_exact (P : Plat) (hP : P.WF) (cfg : Cfg) (hc : cfg.large = .byteArray) (tm : Tmpl)
    (t : CTy) (ht : 0 < t.bytes) (isEnum : Bool) (p : PyLong) (hp : p.WF P.shift) :
    (fromPyLong P cfg tm t isEnum p).out t = spec t (p.value P.shift) :=
  fromPyLong_spec hP cfg tm ht isEnum (largeOK_byteArray P cfg t isEnum ht hc) hp

/-- Every integer has a well-formed digit representation with that value (so the theorems about all
well-formed `PyLong`s are theorems about all integers). -/
theorem ofInt_represents (S : Nat) (hS : 0 < S) (x : Int) :
    (PyLong.ofInt S x).WF S ∧ (PyLong.ofInt S x).value S = x :=
  ⟨ofInt_wf S hS x, ofInt_value S hS x⟩

/-- **Full strength**, stated on integers: value if in range of the type, `OverflowError` otherwise. -/
theorem fromPyLong_exact_int (P : Plat) (hP : P.WF) (cfg : Cfg) (hc : cfg.large = .byteArray) (tm : Tmpl)
    (t : CTy) (ht : 0 < t.bytes) (isEnum : Bool) (x : Int) :
    (fromPyLong P cfg tm t isEnum (PyLong.ofInt P.shift x)).out t =
      if t.lo ≤ x ∧ x < t.hi then .ok x else .err "OverflowError" := by
  have := fromPyLong_exact P hP cfg hc tm t ht isEnum _ (ofInt_wf P.shift hP.1 x)
  rw [ofInt_value P.shift hP.1 x] at this
  exact this

/-- No undefined behaviour (over-wide shift, signed overflow in shift / negation / multiplication) and no
exception left pending behind a value, on any input. -/
theorem fromPyLong_never_ub (P : Plat) (hP : P.WF) (cfg : Cfg) (hc : cfg.large = .byteArray) (tm : Tmpl)
    (t : CTy) (ht : 0 < t.bytes) (isEnum : Bool) (p : PyLong) (hp : p.WF P.shift) (k : String) :
    (fromPyLong P cfg tm t isEnum p).out t ≠ .ub k := by
  rw [fromPyLong_exact P hP cfg hc tm t ht isEnum p hp]; unfold spec; split <;> simp

/-- The branch compiled with `CYTHON_USE_PYLONG_INTERNALS=0` computes the same function as the default one. -/
theorem internals_off_eq (P : Plat) (hP : P.WF) (cfg : Cfg) (hc : cfg.large = .byteArray) (tm : Tmpl)
    (t : CTy) (ht : 0 < t.bytes) (isEnum : Bool) (p : PyLong) (hp : p.WF P.shift) :
    (fromPyLong P { cfg with internals := false } tm t isEnum p).out t =
    (fromPyLong P { cfg with internals := true } tm t isEnum p).out t := by
  rw [fromPyLong_exact P hP _ (by simpa using hc) tm t ht isEnum p hp,
      fromPyLong_exact P hP _ (by simpa using hc) tm t ht isEnum p hp]

/-! ## from-Python, chunk-loop builds (Limited API / PyPy before Python 3.13) -/

/-- **Full strength for the chunk loop under gcc/clang/msvc shift semantics**: with a `long` of at least 32 bits
and a non-enum target, the build whose `__Pyx_LargePyLong_…` is the chunk loop computes the same function. -/
theorem fromPyLong_exact_chunks (P : Plat) (hP : P.WF) (h4 : 4 ≤ P.longBytes) (cfg : Cfg) (hc : cfg.large = .chunks)
    (hg : cfg.gccShift = true) (tm : Tmpl) (t : CTy) (ht : 0 < t.bytes) (p : PyLong) (hp : p.WF P.shift) :
    (fromPyLong P cfg tm t false p).out t = spec t (p.value P.shift) :=
  fromPyLong_spec hP cfg tm ht false (largeOK_chunks P cfg t ht hc h4 (fun _ => Or.inl hg)) hp

/-- The same statement without the assumption on `<<` (strict C99 6.5.7p4). -/
def FullChunksStrictC99 : Prop :=
  ∀ (P : Plat), P.WF → 4 ≤ P.longBytes → ∀ (cfg : Cfg), cfg.large = .chunks → ∀ (tm : Tmpl) (t : CTy), 0 < t.bytes →
    ∀ (p : PyLong), p.WF P.shift → (fromPyLong P cfg tm t false p).out t = spec t (p.value P.shift)

/-- Restricted theorem: strict C99 holds for every target that is unsigned, or narrower than `int`, or not wider
than `long long` (the chunk loop is then not reached). -/
theorem fromPyLong_exact_chunks_partial (P : Plat) (hP : P.WF) (h4 : 4 ≤ P.longBytes) (cfg : Cfg)
    (hc : cfg.large = .chunks) (tm : Tmpl) (t : CTy) (ht : 0 < t.bytes)
    (hx : t.signed = false ∨ t.bytes < P.intBytes ∨ t.bytes ≤ P.llBytes)
    (p : PyLong) (hp : p.WF P.shift) :
    (fromPyLong P cfg tm t false p).out t = spec t (p.value P.shift) := by
  by_cases hll : t.bytes ≤ P.llBytes
  · exact fromPyLong_spec hP cfg tm ht false (fun h => by omega) hp
  · refine fromPyLong_spec hP cfg tm ht false (largeOK_chunks P cfg t ht hc h4 ?_) hp
    intro hs
    rcases hx with h | h | h
    · rw [hs] at h; cases h
    · exact Or.inr h
    · exact absurd h hll

def P64 : Plat := ⟨30, 4, 8, 8, 8⟩
def tmCurrent : Tmpl := ⟨[2, 3, 4], [2, 3, 4], [2, 3, 4], [1, 2, 3, 4]⟩

/-- **Counterexample** to the strict-C99 statement: for `T = __int128` (signed, 16 bytes) the expression
`((T) 1) << (sizeof(T) * 8 - 1)` of the chunk loop is evaluated for the in-range value 5; the model reports
undefined behaviour (UBSan reports it on the real code). -/
theorem chunks_strict_c99_counterexample :
    (fromPyLong P64 ⟨false, .chunks, false, false, false⟩ tmCurrent ⟨16, true⟩ false ⟨false, [5]⟩).out ⟨16, true⟩
      = .ub "shift-into-sign-bit" := by decide

theorem not_FullChunksStrictC99 : ¬ FullChunksStrictC99 := by
  intro h
  have := h P64 (by decide) (by decide) ⟨false, .chunks, false, false, false⟩ rfl tmCurrent ⟨16, true⟩ (by decide)
    ⟨false, [5]⟩ (by decide)
  rw [chunks_strict_c99_counterexample] at this
  unfold spec at this; split at this <;> cases this

/-! ## `Py_ssize_t` / `Py_hash_t` (`__Pyx_PyLong_AsSsize_t`) -/

/-- **Full strength.** -/
theorem asSsize_exact (P : Plat) (hP : P.WF) (cfg : Cfg) (tm : Tmpl) (p : PyLong) (hp : p.WF P.shift) :
    (asSsize P cfg tm p).out P.tSsize = spec P.tSsize (p.value P.shift) :=
  asSsize_spec hP cfg tm hp

/-! ## to-Python and the round trip -/

/-- `CIntToPy` produces the int with the value of the C variable, for every C value of every type. -/
theorem toPy_exact (P : Plat) (hP : P.WF) (t : CTy) (ht : 0 < t.bytes) (v : Int) (hv : t.inRange v) :
    (toPy P t v).1 = v := toPy_spec hP ht hv

/-- **Round trip**: converting any C value to Python and back gives the same value (no error, no UB). -/
theorem toPy_fromPy (P : Plat) (hP : P.WF) (cfg : Cfg) (hc : cfg.large = .byteArray) (tm : Tmpl)
    (t : CTy) (ht : 0 < t.bytes) (isEnum : Bool) (v : Int) (hv : t.inRange v) :
    (fromPyLong P cfg tm t isEnum (PyLong.ofInt P.shift (toPy P t v).1)).out t = .ok v := by
  rw [toPy_exact P hP t ht v hv, fromPyLong_exact P hP cfg hc tm t ht isEnum _ (ofInt_wf P.shift hP.1 v),
      ofInt_value P.shift hP.1 v]
  simp [spec, hv]

/-! ## objects: the abstract callback -/

/-- An `int` object (bool, int subclass instance: `PyLong_Check`) is converted by the function above. -/
theorem fromPy_int (P : Plat) (hP : P.WF) (cfg : Cfg) (hc : cfg.large = .byteArray) (tm : Tmpl)
    (t : CTy) (ht : 0 < t.bytes) (isEnum : Bool) (x : Int) :
    (fromPy P cfg tm t isEnum (.int x)).1 = spec t x := by
  have := fromPyLong_exact P hP cfg hc tm t ht isEnum _ (ofInt_wf P.shift hP.1 x)
  rw [ofInt_value P.shift hP.1 x] at this
  simpa [fromPy] using this

/-- A non-int object whose selected number slot returns the int `x` converts like `x`; a missing slot or a non-int
result is `TypeError`; an exception raised by the slot propagates.  WHICH slot a build consults (`nb_int` with
type slots, `PyNumber_Long` without; `nb_index` only if the source has the fall-back) and what CPython's slots return is not covered by any theorem. -/
theorem fromPy_nonint (P : Plat) (hP : P.WF) (cfg : Cfg) (hc : cfg.large = .byteArray) (tm : Tmpl)
    (t : CTy) (ht : 0 < t.bytes) (isEnum : Bool) (nbInt index numberLong : Slot) (sb : Bool) :
    (fromPy P cfg tm t isEnum (.other nbInt index numberLong sb)).1 =
      match pyNumberLong cfg nbInt index numberLong sb with
      | .ok x => spec t x
      | .err e => .err e := by
  simp only [fromPy]
  cases h : pyNumberLong cfg nbInt index numberLong sb with
  | err e => rfl
  | ok x =>
    have := fromPyLong_exact P hP cfg hc tm t ht isEnum _ (ofInt_wf P.shift hP.1 x)
    rw [ofInt_value P.shift hP.1 x] at this
    simpa using this

/-- `Py_UCS4` from an int object (`__Pyx__PyObject_AsPy_UCS4`): the value iff it is a code point `0..1114111`. -/
theorem ucs4_exact (P : Plat) (hP : P.WF) (h4 : 4 ≤ P.longBytes) (cfg : Cfg) (hc : cfg.large = .byteArray) (tm : Tmpl)
    (x : Int) :
    (fromPyUCS4 P cfg tm (.int x)).1 = if 0 ≤ x ∧ x < 1114112 then .ok x else .err "OverflowError" := by
  have hl : 0 < P.tLong.bytes := by simp [Plat.tLong]; omega
  have h := fromPy_int P hP cfg hc tm P.tLong hl false x
  have hbig : (2147483648 : Int) ≤ two (P.tLong.bits - 1) := by
    have : two 31 ≤ two (P.tLong.bits - 1) := two_le_two (by simp [Plat.tLong, CTy.bits]; omega)
    have e : two 31 = 2147483648 := by decide
    omega
  unfold fromPyUCS4
  generalize fromPy P cfg tm P.tLong false (.int x) = r at h
  obtain ⟨o, path⟩ := r
  simp only at h
  subst h
  unfold spec
  by_cases hr : P.tLong.inRange x
  · simp only [hr, if_true]
    by_cases hx : 0 ≤ x ∧ x < 1114111 + 1
    · have hx' : 0 ≤ x ∧ x < 1114112 := by omega
      simp [hx']
    · have hx' : ¬ (0 ≤ x ∧ x < 1114112) := by omega
      simp [hx']
  · simp only [hr, if_false]
    have hx' : ¬ (0 ≤ x ∧ x < 1114112) := by
      intro hx; apply hr; rw [inRange_signed (by simp [Plat.tLong])]; omega
    simp [hx']

/-! ## non-vacuity: the hypotheses are satisfiable by non-trivial values, and the model computes -/

example : P64.WF ∧ (⟨15, 4, 4, 8, 4⟩ : Plat).WF ∧ (⟨30, 4, 4, 8, 8⟩ : Plat).WF := by decide
example : (⟨true, [5, 3, 1]⟩ : PyLong).WF 30 ∧ (⟨true, [5, 3, 1]⟩ : PyLong).value 30 = -(5 + 3 * 2 ^ 30 + 2 ^ 60) := by decide
example : (PyLong.ofInt 30 (-(2 ^ 64))) = ⟨true, [0, 0, 16]⟩ := by decide
/-- three digits into `unsigned long long`: in range, through the API fall-back (64 > 90 is false) -/
example : (fromPyLong P64 ⟨true, .byteArray, true, false, true⟩ tmCurrent ⟨8, false⟩ false ⟨false, [0, 0, 15]⟩).out ⟨8, false⟩
    = .ok (15 * 2 ^ 60) := by decide
/-- two digits, negative, into `int`: out of range, through the two-digit join -/
example : (fromPyLong P64 ⟨true, .byteArray, true, false, true⟩ tmCurrent ⟨4, true⟩ false ⟨true, [1, 2]⟩).out ⟨4, true⟩
    = .err "OverflowError" := by decide
/-- four digits into `__int128` through `pylong_join(4, digits, T)` -/
example : (fromPyLong P64 ⟨true, .byteArray, true, false, true⟩ tmCurrent ⟨16, true⟩ false ⟨true, [7, 0, 0, 1]⟩).out ⟨16, true⟩
    = .ok (-(7 + 2 ^ 90)) := by decide
/-- the chunk loop under gcc semantics -/
example : (fromPyLong P64 ⟨false, .chunks, false, false, true⟩ tmCurrent ⟨16, true⟩ false ⟨true, [7, 0, 0, 1]⟩).out ⟨16, true⟩
    = .ok (-(7 + 2 ^ 90)) := by decide
example : (⟨16, true⟩ : CTy).inRange (-(2 ^ 127)) ∧ ¬ (⟨16, true⟩ : CTy).inRange (2 ^ 127) := by decide

end CyVerif.C05

import CyVerif.Model.C26
/-!
# C26 — global and builtin lookups always see the current binding

`read_current`: for EVERY history of module-global / builtin mutations, unrelated dict
mutations and reads at any call sites, with or without the dict-version cache, every read
through `__Pyx_GetModuleGlobalName` returns exactly what Python name resolution returns at
that moment (`globals[name]`, else `builtins[name]`, else NameError).

Assumption made explicit in the model: the interpreter-wide dict version counter is a
natural number (no 2^64 wrap-around), and "same value stored again" means the identical object.

The full-strength statement over *all* sites is false when `cache_builtins` froze a builtin at
import time (`frozen` sites): `full_false`.
-/
namespace CyVerif.C26

def abs (s : State) : Spec := { globals := s.globals, builtins := s.builtins }

/-- Cache invariant: a site whose stored version equals the module dict's tag holds the
current module-dict binding of its name; all stored versions are ≤ the tag ≤ the counter. -/
def Inv (desc : Nat → SiteDesc) (s : State) : Prop :=
  s.gver ≤ s.counter ∧
  ∀ i, (s.sites i).version ≤ s.gver ∧
    ((s.sites i).version = s.gver → (s.sites i).cached = s.globals (desc i).name)

def ReadsDynamic (desc : Nat → SiteDesc) (ops : List Op) : Prop :=
  ∀ i, Op.read i ∈ ops → (desc i).kind = .dynamic

/-- A read is covered if it goes through `__Pyx_GetModuleGlobalName`, or if it is a
builtin-only read of a name that the module namespace does not bind at that moment. -/
def ReadOK (desc : Nat → SiteDesc) (sp : Spec) : Op → Prop
  | .read i => (desc i).kind = .dynamic ∨ ((desc i).kind = .builtinOnly ∧ sp.globals (desc i).name = none)
  | _ => True

/-- Every read of the history is covered (evaluated along the specification run). -/
def ReadsOK (desc : Nat → SiteDesc) : Spec → List Op → Prop
  | _, [] => True
  | sp, op :: ops => ReadOK desc sp op ∧ ReadsOK desc (specStep desc sp op).1 ops

theorem upd_same (f : Nat → Option Val) (n : Nat) (v : Option Val) (h : f n = v) : upd f n v = f := by
  funext k
  by_cases hk : k = n
  · simp [upd, hk, h]
  · simp [upd, hk]

theorem inv_init (desc : Nat → SiteDesc) (g b : Name → Option Val) (c : Nat) : Inv desc (init g b c) := by
  refine ⟨Nat.le_refl _, fun i => ⟨by simp [init], ?_⟩⟩
  intro h; simp [init] at h

/-- One step: the invariant is preserved, the abstraction commutes, the output is the spec's. -/
theorem step_refines (useVer : Bool) (desc : Nat → SiteDesc) (s : State) (op : Op)
    (hinv : Inv desc s) (hdyn : ReadOK desc (abs s) op) :
    Inv desc (step useVer desc s op).1 ∧
    abs (step useVer desc s op).1 = (specStep desc (abs s) op).1 ∧
    (step useVer desc s op).2 = (specStep desc (abs s) op).2 := by
  obtain ⟨hle, hs⟩ := hinv
  cases op with
  | setG n v =>
    simp only [step, specStep, abs]
    split
    · rename_i h
      refine ⟨⟨hle, hs⟩, ?_, rfl⟩
      simp [upd_same _ _ _ h]
    · refine ⟨⟨by simp, fun i => ?_⟩, rfl, rfl⟩
      have := (hs i).1
      exact ⟨by simp; omega, by intro h; simp at h; omega⟩
  | delG n =>
    simp only [step, specStep, abs]
    split
    · exact ⟨⟨hle, hs⟩, rfl, rfl⟩
    · refine ⟨⟨by simp, fun i => ?_⟩, rfl, rfl⟩
      have := (hs i).1
      exact ⟨by simp; omega, by intro h; simp at h; omega⟩
  | setB n v =>
    simp only [step, specStep, abs]
    split
    · rename_i h
      refine ⟨⟨hle, hs⟩, ?_, rfl⟩
      simp [upd_same _ _ _ h]
    · exact ⟨⟨by simp; omega, hs⟩, rfl, rfl⟩
  | delB n =>
    simp only [step, specStep, abs]
    split
    · exact ⟨⟨hle, hs⟩, rfl, rfl⟩
    · exact ⟨⟨by simp; omega, hs⟩, rfl, rfl⟩
  | tick =>
    refine ⟨⟨?_, hs⟩, rfl, rfl⟩
    simp only [step]; omega
  | read i =>
    rcases hdyn with hk | ⟨hk, hnone⟩
    case inr =>
      simp only [abs] at hnone
      refine ⟨?_, ?_, ?_⟩
      · simp only [step, hk]; exact ⟨hle, hs⟩
      · simp only [step, specStep, hk]
      · simp only [step, specStep, abs, hk, hnone]
    simp only [step, specStep, abs, hk]
    cases useVer with
    | false => exact ⟨⟨hle, hs⟩, rfl, rfl⟩
    | true =>
      simp only [if_true]
      split
      · rename_i hv
        refine ⟨⟨hle, hs⟩, rfl, ?_⟩
        simp [(hs i).2 hv]
      · refine ⟨⟨hle, fun k => ?_⟩, rfl, rfl⟩
        by_cases hki : k = i
        · subst hki; simp
        · simp [hki]; exact hs k

/-- **Main theorem (all histories).**  From any state satisfying the cache invariant — in
particular from a freshly imported module — every output of the implementation model equals
the output of plain Python name resolution, for every operation sequence whose reads go
through `__Pyx_GetModuleGlobalName`. -/
theorem read_current_ok (useVer : Bool) (desc : Nat → SiteDesc) (ops : List Op) (s : State)
    (hinv : Inv desc s) (hok : ReadsOK desc (abs s) ops) :
    run useVer desc s ops = specRun desc (abs s) ops := by
  induction ops generalizing s with
  | nil => rfl
  | cons op ops ih =>
    have h := step_refines useVer desc s op hinv hok.1
    simp only [run, specRun]
    rw [h.2.2, ← h.2.1]
    congr 1
    exact ih _ h.1 (by rw [h.2.1]; exact hok.2)

theorem readsOK_of_dynamic (desc : Nat → SiteDesc) (ops : List Op) (sp : Spec)
    (hdyn : ReadsDynamic desc ops) : ReadsOK desc sp ops := by
  induction ops generalizing sp with
  | nil => trivial
  | cons op ops ih =>
    refine ⟨?_, ih _ (fun i hi => hdyn i (by simp [hi]))⟩
    cases op <;> simp only [ReadOK]
    exact Or.inl (hdyn _ (by simp))

/-- Histories whose reads all go through `__Pyx_GetModuleGlobalName` (names bound somewhere in
the module source; with `cache_builtins=False` also every name the compiler does not know as a
builtin function/type). -/
theorem read_current (useVer : Bool) (desc : Nat → SiteDesc) (ops : List Op) (s : State)
    (hinv : Inv desc s) (hdyn : ReadsDynamic desc ops) :
    run useVer desc s ops = specRun desc (abs s) ops :=
  read_current_ok useVer desc ops s hinv (readsOK_of_dynamic desc ops _ hdyn)

/-- Corollary for a freshly imported module. -/
theorem read_current_fresh (useVer : Bool) (desc : Nat → SiteDesc) (ops : List Op)
    (g b : Name → Option Val) (c : Nat) (hdyn : ReadsDynamic desc ops) :
    run useVer desc (init g b c) ops = specRun desc { globals := g, builtins := b } ops :=
  read_current useVer desc ops _ (inv_init desc g b c) hdyn

/-- Full-strength statement of the property over all site kinds. -/
def Full : Prop :=
  ∀ (useVer : Bool) (desc : Nat → SiteDesc) (ops : List Op) (g b : Name → Option Val) (c : Nat),
    run useVer desc (init g b c) ops = specRun desc { globals := g, builtins := b } ops

/-- Counterexample (F10): a builtin frozen at import (`cache_builtins`), then shadowed through
the module namespace: the read still returns the builtin. -/
theorem full_false : ¬ Full := by
  intro h
  have := h false (fun _ => { name := 0, kind := .frozen }) [.setG 0 5, .read 0]
    (fun _ => none) (fun n => if n = 0 then some 1 else none) 0
  revert this; decide

/-- Second counterexample: a name the compiler knows as a builtin function (`divmod`) and that
the module source never binds is read with `__Pyx_GetBuiltinName`, so a binding created through
the module namespace is not seen — independent of `cache_builtins`. -/
theorem full_false_builtinOnly : ¬ Full := by
  intro h
  have := h true (fun _ => { name := 0, kind := .builtinOnly }) [.setG 0 5, .read 0]
    (fun _ => none) (fun n => if n = 0 then some 1 else none) 0
  revert this; decide

/-- …but changes made in the builtins module itself are seen by a builtin-only read. -/
example : run true (fun _ => { name := 0, kind := .builtinOnly })
    (init (fun _ => none) (fun n => if n = 0 then some 1 else none) 0)
    [.read 0, .setB 0 9, .read 0, .delB 0, .read 0] = [.val 1, .done, .val 9, .done, .nameError] := by decide

/-- Non-vacuity: a concrete history with cache hits, misses, deletion, builtin shadowing and
restoring satisfies the hypotheses, and exercises both cache branches. -/
example : ReadsDynamic (fun _ => { name := 0, kind := .dynamic })
    [.read 0, .setG 0 5, .read 0, .read 0, .delG 0, .read 0, .setB 0 9, .read 0] := by
  intro i _; rfl

example : run true (fun _ => { name := 0, kind := .dynamic })
    (init (fun _ => none) (fun n => if n = 0 then some 1 else none) 0)
    [.read 0, .setG 0 5, .read 0, .read 0, .delG 0, .read 0, .delB 0, .read 0]
    = [.val 1, .done, .val 5, .val 5, .done, .val 1, .done, .nameError] := by decide

end CyVerif.C26

import CyVerif.Lemmas.C09Main
import CyVerif.Lemmas.C09Render2
import CyVerif.Lemmas.C09Pool5
import CyVerif.Lemmas.C09PoolAll2
import CyVerif.Lemmas.C09Fold
/-!
# C09 — compile-time constants keep their exact Python values

Part A: integer literals.  `intconst` is the scanner's token language (`Lexicon.py`), `litValue` the
value of a token in positional notation (Python 3 grammar; Python 2 meaning for legacy `0NNN`),
`strToNumber` the model of `Utils.str_to_number` over the model `pyInt` of CPython's `int(text, base)`
with `lim = sys.get_int_max_str_digits()`.

Part B: pooling.  `constKey v c` is the `dedup_key` of a constant tuple / slice / frozenset under
code variant `v`, `keyEq` Python's `==` on keys, `evalConst` the object the module builds, `same`
indistinguishability for CPython (type, value, sign of zero, order; frozensets unordered).
-/
namespace CyVerif.C09

/-! ## Part A -/

/-- Full strength: every token of the scanner's integer-literal language — any base, any number of
digits, underscores anywhere the scanner allows — that is not a legacy literal containing 8 or 9 is
converted to its positional value, as long as a *decimal* token has no more digits than the running
Python converts (`digitsOK`; CPython itself rejects longer decimal literals). -/
theorem str_to_number_value (lim : Nat) (tok : List Char) (hscan : intconst tok = true)
    (hleg : legacyBad tok = false) (hlim : digitsOK lim (decDigitCount tok)) :
    strToNumber lim (stripUnderscores tok) = .ok (litValue tok : Nat) :=
  intconst_value lim tok hscan hleg hlim

/-- The remaining tokens of the language (`09`, `0128`: not Python 3, not octal) raise ValueError. -/
theorem str_to_number_legacy_rejected (lim : Nat) (tok : List Char) (h : legacyBad tok = true) :
    strToNumber lim (stripUnderscores tok) = .err "ValueError" :=
  s2n_legacy_bad lim tok h

example : intconst "0x_1F_ff".toList = true ∧ legacyBad "0x_1F_ff".toList = false ∧
    digitsOK 4300 (decDigitCount "0x_1F_ff".toList) ∧ litValue "0x_1F_ff".toList = 8191 := by decide
example : intconst "1_000_000".toList = true ∧ litValue "1_000_000".toList = 1000000 ∧
    intconst "0o17".toList = true ∧ litValue "0o17".toList = 15 ∧ litValue "0b1_01".toList = 5 ∧
    intconst "0123".toList = true ∧ litValue "0123".toList = 83 ∧ litValue "0_0".toList = 0 := by decide
example : intconst "0128".toList = true ∧ legacyBad "0128".toList = true := by decide

/-- The text that `IntNode.generate_evaluation_code` registers as the constant's key and value
(`str`, or `hex` beyond 10^13) is mapped back to the same integer by `str_to_number`
(used again by `generate_num_constants`): both code variants, every limit, every integer. -/
theorem literal_text_roundtrip (fix : Bool) (lim : Nat) (v : Int) (t : List Char)
    (h : genText fix lim v = .ok t) : strToNumber lim t = .ok v :=
  genText_parse fix lim v t h

/-- `-<literal>` folded by `unop_node`: the new node text denotes the negated value. -/
theorem negated_literal_roundtrip (fix : Bool) (lim : Nat) (v : Int) (t : List Char)
    (h : negText fix lim v = .ok t) : strToNumber lim t = .ok (-v) :=
  negText_parse fix lim v t h

/-- `num_const_index[(str_value, py_type)]`: the key text determines the value, so two integer
constants with different values never share a slot. -/
theorem int_const_key_injective (fix : Bool) (lim : Nat) (v1 v2 : Int) (t : List Char)
    (h1 : genText fix lim v1 = .ok t) (h2 : genText fix lim v2 = .ok t) : v1 = v2 := by
  have a := genText_parse fix lim v1 t h1
  have b := genText_parse fix lim v2 t h2
  rw [a] at b; injection b

/-- Large constants (> 63 bits) travel through a base-32 C string and `PyLong_FromString(.., 32)`. -/
theorem base32_constant_roundtrip (lim : Nat) (v : Int) : pyInt lim (toBase32 v) 32 = .ok v :=
  base32_roundtrip lim v

example : genText false 4300 (-255) = .ok "-255".toList := by
  simp [genText, pyStr, signText, natText, tenTo13, digitsLE]; decide
example : genText false 4300 100000000000001 = .ok "0x5af3107a4001".toList := by
  simp [genText, pyHex, signText, natText, tenTo13, digitsLE]; decide
example : toBase32 (-1025) = "-101".toList := by
  simp [toBase32, signText, natText, digitsLE]; decide

/-- Full statement: rendering a constant never fails (so every literal CPython accepts compiles). -/
def FullRenderTotal (fix : Bool) : Prop :=
  ∀ (lim : Nat) (v : Int), (∃ t, genText fix lim v = .ok t) ∧ (∃ t, negText fix lim v = .ok t)

/-- With the repair (`hex` for large magnitudes of either sign) rendering is total. -/
theorem render_total_fixed : FullRenderTotal true := by
  intro lim v
  constructor
  · unfold genText
    by_cases h : v > tenTo13 ∨ (true = true ∧ v < -tenTo13)
    · rw [if_pos h]; exact ⟨_, rfl⟩
    · rw [if_neg h]
      exact pyStr_small lim v (by omega) (by simp at h; omega)
  · unfold negText
    by_cases h : true = true ∧ (-v > tenTo13 ∨ -v < -tenTo13)
    · rw [if_pos h]; exact ⟨_, rfl⟩
    · rw [if_neg h]
      exact pyStr_small lim (-v) (by simp at h; omega) (by simp at h; omega)

theorem natAbs_lt_pow (k : Nat) (v : Int) (h1 : -(10 : Int) ^ k < v) (h2 : v < (10 : Int) ^ k) :
    v.natAbs < 10 ^ k := by
  have e : ((10 ^ k : Nat) : Int) = (10 : Int) ^ k := Int.natCast_pow 10 k
  have : (v.natAbs : Int) < ((10 ^ k : Nat) : Int) := by rw [e]; omega
  exact Int.ofNat_lt.mp this

theorem ten13_lt_pow (k : Nat) (hk : 14 ≤ k) : tenTo13 < (10 : Int) ^ k := by
  have e : ((10 ^ k : Nat) : Int) = (10 : Int) ^ k := Int.natCast_pow 10 k
  have hn : (10 : Nat) ^ 14 ≤ 10 ^ k := Nat.pow_le_pow_right (by omega) hk
  have hc : ((10 ^ 14 : Nat) : Int) ≤ ((10 ^ k : Nat) : Int) := Int.ofNat_le.mpr hn
  have h14 : tenTo13 < ((10 ^ 14 : Nat) : Int) := by decide
  rw [e] at hc
  omega

/-- As pinned: rendering succeeds unless the constant is negative with more decimal digits than the
limit (excluded points: `v ≤ -10^640`). -/
theorem render_total_partial (lim : Nat) (v : Int) (h1 : -(10 : Int) ^ 640 < v) :
    ∃ t, genText false lim v = .ok t := by
  unfold genText
  by_cases h : v > tenTo13 ∨ (false = true ∧ v < -tenTo13)
  · rw [if_pos h]; exact ⟨_, rfl⟩
  · rw [if_neg h]
    unfold pyStr
    have hv : v ≤ tenTo13 := by
      have : ¬ v > tenTo13 := fun hh => h (Or.inl hh)
      omega
    have hlen : (natText 10 v.natAbs).length ≤ 640 := by
      unfold natText
      split
      · simp
      · simp only [List.length_map, List.length_reverse]
        apply digitsLE_length_le 10 (by omega) 640
        apply natAbs_lt_pow 640 v h1
        have := ten13_lt_pow 640 (by omega)
        omega
    simp only
    rw [if_neg (by omega)]
    exact ⟨_, rfl⟩

/-- negative constants with more decimal digits than the limit make `str()` raise in the compiler -/
theorem genText_fails (lim : Nat) (hl : 640 ≤ lim) (v : Int) (hv : (10 : Int) ^ lim ≤ -v) :
    genText false lim v = .err "ValueError" := by
  unfold genText
  have hp : (0 : Int) < (10 : Int) ^ lim := Int.pow_pos (by omega)
  have : ¬ (v > tenTo13 ∨ (false = true ∧ v < -tenTo13)) := by
    rintro (h | h)
    · unfold tenTo13 at h; omega
    · exact absurd h.1 (by decide)
  rw [if_neg this]
  exact pyStr_big lim v hl hv

/-- The full statement is false for the pinned code: `x = -0x<5000 hex digits>` / `0 - 0x…`
makes `str()` raise inside the compiler (witness: −10^4300 with the default limit 4300). -/
theorem render_fails_prefix : ¬ FullRenderTotal false := by
  intro h
  obtain ⟨⟨t, ht⟩, _⟩ := h 4300 (-(10 : Int) ^ 4300)
  rw [genText_fails 4300 (by omega) _ (by rw [Int.neg_neg]; exact Int.le_refl _)] at ht
  exact absurd ht (by intro h; cases h)

/-! ## Part B — constant pooling -/

/-- Full statement ("two constants that CPython distinguishes are never merged"): whenever two
well-formed constants get `==`-equal dedup keys (and therefore one shared object), the objects the
module would have built for them are indistinguishable. -/
def FullDedupSound (v : Variant) : Prop :=
  ∀ (c1 c2 : Const) (k1 k2 : Key), c1.wf = true → c2.wf = true →
    constKey v c1 = some k1 → constKey v c2 = some k2 → keyEq k1 k2 = true →
    ∃ x1 x2, evalConst c1 = some x1 ∧ evalConst c2 = some x2 ∧ same x1 x2 = true

/-- With both repairs (sign-aware float key, no key for frozensets with `==`-equal items) the full
statement holds: constants of any depth and any size. -/
theorem dedup_sound_fixed : FullDedupSound ⟨true, true⟩ := by
  intro c1 c2 k1 k2 hw1 hw2 h1 h2 he
  exact const_sound ⟨true, true⟩ c1 c2 k1 k2 hw1 hw2 (Or.inl rfl) (Or.inl rfl) h1 h2 he

/-- For every code variant (in particular the pinned one, `⟨false, false⟩`): sound outside the
excluded points — a float zero inside the first constant (unless the key is sign-aware) and
frozensets whose item lists contain `==`-equal items (unless those get no key). -/
theorem dedup_sound_partial (v : Variant) (c1 c2 : Const) (k1 k2 : Key)
    (hw1 : c1.wf = true) (hw2 : c2.wf = true)
    (hz : v.floatSign = true ∨ c1.noZeroFloat = true)
    (hd : v.fsDistinct = true ∨ (c1.itemsDistinct = true ∧ c2.itemsDistinct = true))
    (h1 : constKey v c1 = some k1) (h2 : constKey v c2 = some k2) (he : keyEq k1 k2 = true) :
    ∃ x1 x2, evalConst c1 = some x1 ∧ evalConst c2 = some x2 ∧ same x1 x2 = true :=
  const_sound v c1 c2 k1 k2 hw1 hw2 hz hd h1 h2 he

/-- witness F7: `(0.0, 1)` and `(-0.0, 1)` -/
def wPos : Const := .tuple (.seq 0 none [.leaf .pyfloat (.float 0), .leaf .pyint (.int 1)])
def wNeg : Const := .tuple (.seq 0 none [.leaf .pyfloat (.float (2 ^ 63)), .leaf .pyint (.int 1)])
def wKey (b : Nat) : Key :=
  .tup (.seq 0) [absentKey, .leaf .pyfloat (.float b) none none, .leaf .pyint (.int 1) none none]

/-- The full statement is false without the sign-aware key: `(0.0, 1)` and `(-0.0, 1)` share a key. -/
theorem dedup_unsound_float_zero (fd : Bool) : ¬ FullDedupSound ⟨false, fd⟩ := by
  intro h
  have hk1 : constKey ⟨false, fd⟩ wPos = some (wKey 0) := by
    simp [wPos, wKey, constKey, nodeKey, nodeKeys, leafKey, multKey]
  have hk2 : constKey ⟨false, fd⟩ wNeg = some (wKey (2 ^ 63)) := by
    simp [wNeg, wKey, constKey, nodeKey, nodeKeys, leafKey, multKey]
  obtain ⟨x1, x2, e1, e2, hs⟩ := h wPos wNeg _ _ (by decide) (by decide) hk1 hk2 (by decide)
  have v1 : evalConst wPos = some (.tuple [.atom (.float 0), .atom (.int 1)]) := by
    simp [wPos, evalConst, evalNode, evalNodes]
  have v2 : evalConst wNeg = some (.tuple [.atom (.float (2 ^ 63)), .atom (.int 1)]) := by
    simp [wNeg, evalConst, evalNode, evalNodes]
  rw [v1] at e1; rw [v2] at e2
  injection e1 with e1; injection e2 with e2; subst e1; subst e2
  revert hs; decide

/-- witness: `frozenset((0, False))` and `frozenset((False, 0))` -/
def wSetA : Const := .fset [.leaf .pyint (.int 0), .leaf .pybool (.bool false)]
def wSetB : Const := .fset [.leaf .pybool (.bool false), .leaf .pyint (.int 0)]

/-- The full statement is false while frozensets with `==`-equal items are keyed by the *set* of
item keys: `frozenset((0, False))` is `{0}`, `frozenset((False, 0))` is `{False}`, same key. -/
theorem dedup_unsound_frozenset_order (fs : Bool) : ¬ FullDedupSound ⟨fs, false⟩ := by
  intro h
  have hk1 : constKey ⟨fs, false⟩ wSetA =
      some (.set .fset [.leaf .pyint (.int 0) none none, .leaf .pybool (.bool false) none none]) := by
    cases fs <;> simp [wSetA, constKey, nodeKey, nodeKeys, leafKey, floatRep]
  have hk2 : constKey ⟨fs, false⟩ wSetB =
      some (.set .fset [.leaf .pybool (.bool false) none none, .leaf .pyint (.int 0) none none]) := by
    cases fs <;> simp [wSetB, constKey, nodeKey, nodeKeys, leafKey, floatRep]
  obtain ⟨x1, x2, e1, e2, hs⟩ := h wSetA wSetB _ _ (by decide) (by decide) hk1 hk2 (by decide)
  have v1 : evalConst wSetA = some (.fset [.atom (.int 0)]) := by
    simp [wSetA, evalConst, evalNode, evalNodes, dedupAux, pyEqVal, pyEqAtom, boolInt]
  have v2 : evalConst wSetB = some (.fset [.atom (.bool false)]) := by
    simp [wSetB, evalConst, evalNode, evalNodes, dedupAux, pyEqVal, pyEqAtom, boolInt]
  rw [v1] at e1; rw [v2] at e2
  injection e1 with e1; injection e2 with e2; subst e1; subst e2
  revert hs; decide

/-- non-vacuity: two different nodes with equal keys to which the fixed theorem applies
(`(1, (2.5, "a"))` written twice, once with an object-typed int leaf) -/
example :
    let c1 : Const := .tuple (.seq 0 none [.leaf .pyint (.int 1), .seq 0 none [.leaf .pyfloat (.float 4612811918334230528), .leaf .pystr (.str [97])]])
    c1.wf = true ∧ (∃ k, constKey ⟨true, true⟩ c1 = some k ∧ keyEq k k = true) ∧
      wPos.wf = true ∧ wPos.noZeroFloat = false ∧ wSetA.itemsDistinct = false ∧
      constKey ⟨true, true⟩ wSetA = none ∧
      (∃ k1 k2, constKey ⟨true, true⟩ wPos = some k1 ∧ constKey ⟨true, true⟩ wNeg = some k2 ∧ keyEq k1 k2 = false) := by
  refine ⟨by decide, ⟨_, rfl, by decide⟩, by decide, by decide, by decide, by decide, ⟨_, _, rfl, rfl, by decide⟩⟩

/-! ### the pool over a whole module

`runModule v once cs` replays `dedup_const_index` for the constants `cs` of one module in generation
order and then reads the slots as the functions do after module init: nested literal tuples register
themselves first, a parent is built from the objects its children resolved to, a constant whose key
is already present gets the stored object — and (as pinned, `once = false`) a slot reached under the
other qualified name is initialised a second time, replacing the stored object. -/

/-- Full statement: whatever the module contains and in whatever order, each constant ends up bound to
an object indistinguishable from the value its own source text denotes. -/
def FullPoolSound (v : Variant) (once : Bool) : Prop :=
  ∀ cs : List Const, (∀ c ∈ cs, c.wf = true) →
    ∀ cr ∈ cs.zip (runModule v once cs), ∀ y, evalConst cr.1 = some y →
      ∃ x, cr.2.2 = some x ∧ same y x = true

/-- With the two key repairs: all modules, all orders, all nesting depths — with or without the
double initialisation of slots (which then only replaces an object by an indistinguishable one). -/
theorem pool_sound_fixed (once : Bool) : FullPoolSound ⟨true, true⟩ once := by
  intro cs hw
  exact module_sound ⟨true, true⟩ once cs (fun c hc => ⟨hw c hc, Or.inl rfl, Or.inl rfl⟩)

/-- Every variant (pinned included): sound for modules none of whose pooled constants contains a
float zero (unless the key is sign-aware) or a frozenset with `==`-equal items (unless unkeyed). -/
theorem pool_sound_partial (v : Variant) (once : Bool) (cs : List Const) (hw : ∀ c ∈ cs, c.wf = true)
    (hz : v.floatSign = true ∨ ∀ c ∈ cs, c.noZeroFloat = true)
    (hd : v.fsDistinct = true ∨ ∀ c ∈ cs, c.itemsDistinct = true) :
    ∀ cr ∈ cs.zip (runModule v once cs), ∀ y, evalConst cr.1 = some y →
      ∃ x, cr.2.2 = some x ∧ same y x = true :=
  module_sound v once cs (fun c hc =>
    ⟨hw c hc, hz.elim Or.inl (fun h => Or.inr (h c hc)), hd.elim Or.inl (fun h => Or.inr (h c hc))⟩)

/-- Pinned code: a module containing `(0.0, 1)` and then `(-0.0, 1)` binds the second to `(0.0, 1)`. -/
theorem pool_unsound_float_zero (fd once : Bool) : ¬ FullPoolSound ⟨false, fd⟩ once := by
  intro h
  have hres : runModule ⟨false, fd⟩ once [wPos, wNeg] =
      [(some 0, some (.tuple [.atom (.float 0), .atom (.int 1)])),
       (some 0, some (.tuple [.atom (.float 0), .atom (.int 1)]))] := by
    cases fd <;> cases once <;> rfl
  obtain ⟨x, hx, hs⟩ := h [wPos, wNeg] (by intro c hc; simp at hc; rcases hc with rfl | rfl <;> decide)
    (wNeg, (some 0, some (.tuple [.atom (.float 0), .atom (.int 1)]))) (by rw [hres]; simp)
    (.tuple [.atom (.float (2 ^ 63)), .atom (.int 1)]) (by rfl)
  simp only [Option.some.injEq] at hx; subst hx
  revert hs; decide

/-- Pinned code: `frozenset((0, False))` then `frozenset((False, 0))`: the second is bound to `{0}`. -/
theorem pool_unsound_frozenset_order (fs once : Bool) : ¬ FullPoolSound ⟨fs, false⟩ once := by
  intro h
  have hres : runModule ⟨fs, false⟩ once [wSetA, wSetB] =
      [(some 0, some (.fset [.atom (.int 0)])), (some 0, some (.fset [.atom (.int 0)]))] := by
    cases fs <;> cases once <;> rfl
  obtain ⟨x, hx, hs⟩ := h [wSetA, wSetB] (by intro c hc; simp at hc; rcases hc with rfl | rfl <;> decide)
    (wSetB, (some 0, some (.fset [.atom (.int 0)]))) (by rw [hres]; simp)
    (.fset [.atom (.bool false)]) (by rfl)
  simp only [Option.some.injEq] at hx; subst hx
  revert hs; decide

/-- non-vacuity / illustration: nested constants share slots (`((2.5,), 1)`, `(2.5,)`, `((2.5,), 1)`:
slots 1, 0, 1); and, as pinned, the item `(0.0,)` of a later frozenset re-initialises the slot of an
earlier `(-0.0,)`, so that the *earlier* function now returns `(0.0,)`. -/
example :
    let inner : Node := .seq 0 none [.leaf .pyfloat (.float 4612811918334230528)]
    let outer : Const := .tuple (.seq 0 none [inner, .leaf .pyint (.int 1)])
    ((runModule ⟨true, true⟩ true [outer, .tuple inner, outer]).map (·.1)) = [some 1, some 0, some 1] := by
  rfl
example :
    let neg : Node := .seq 0 none [.leaf .pyfloat (.float (2 ^ 63))]
    let pos : Node := .seq 0 none [.leaf .pyfloat (.float 0)]
    (runModule ⟨false, false⟩ false [.tuple neg, .fset [pos]]).map (·.2) =
      [some (.tuple [.atom (.float 0)]), some (.fset [.tuple [.atom (.float 0)]])] ∧
    (runModule ⟨false, false⟩ true [.tuple neg, .fset [pos]]).map (·.2) =
      [some (.tuple [.atom (.float (2 ^ 63))]), some (.fset [.tuple [.atom (.float (2 ^ 63))]])] := by
  constructor <;> rfl

/-! ## Part C — the one folding rule that rewrites a pooled literal: constant slice of a sequence literal -/

/-- Full statement: whenever the folder cuts the literal, the cut literal denotes the slice of the value. -/
def FullFoldSliceSound (guard : Bool) : Prop :=
  ∀ (n n' : Node) (a b : Nat) (xs : List Val), foldSlice guard n a b = some n' →
    evalNode n = some (.tuple xs) → evalNode n' = some (.tuple (pySlice xs a b))

/-- With the guard `base.mult_factor is None` (as in the source): sound for every literal and all bounds. -/
theorem fold_slice_sound : FullFoldSliceSound true := by
  intro n n' a b xs h he
  cases n with
  | leaf t x => simp [foldSlice] at h
  | opq => simp [foldSlice] at h
  | slice x y z => simp [foldSlice] at h
  | seq k m args =>
    cases m with
    | some f => simp [foldSlice] at h
    | none =>
      simp only [foldSlice, Option.isSome_none, Bool.and_false, Bool.false_eq_true, if_false, Option.some.injEq] at h
      subst h
      simp only [evalNode] at he
      cases hx : evalNodes args with
      | none => simp [hx] at he
      | some ys =>
        simp only [hx, Option.some.injEq, Val.tuple.injEq] at he; subst he
        simp [evalNode, evalNodes_slice args ys a b hx]

/-- Without the guard the statement is false: `((1, 2) * 3)[1:4]` would become `(2,) * 3`. -/
theorem fold_slice_unsound_without_guard : ¬ FullFoldSliceSound false := by
  intro h
  have := h (.seq 0 (some (.cint 0, 3)) [.leaf .pyint (.int 1), .leaf .pyint (.int 2)]) _ 1 4
    [.atom (.int 1), .atom (.int 2), .atom (.int 1), .atom (.int 2), .atom (.int 1), .atom (.int 2)] rfl rfl
  simp [evalNode, evalNodes, pySlice, repeatList] at this

example : foldSlice true (.seq 0 none [.leaf .pyint (.int 1), .leaf .pyint (.int 2), .leaf .pyint (.int 3)]) 1 3 =
    some (.seq 0 none [.leaf .pyint (.int 2), .leaf .pyint (.int 3)]) := rfl

end CyVerif.C09

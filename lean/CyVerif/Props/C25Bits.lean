import CyVerif.Model.C25Bits
/-! C25 — code-object bit fields: every count survives iff the widths are taken over ALL code objects. -/
namespace CyVerif.C25Bits

theorem lt_two_pow_bitLength (n : Nat) : n < 2 ^ bitLength n := by
  unfold bitLength
  split
  · subst_vars; decide
  · exact Nat.lt_log2_self

theorem bitLength_mono {a b : Nat} (h : a ≤ b) : bitLength a ≤ bitLength b := by
  unfold bitLength
  split
  · omega
  · rename_i ha
    have hb : b ≠ 0 := by omega
    rw [if_neg hb]
    have h1 : 2 ^ a.log2 ≤ b := Nat.le_trans (Nat.log2_self_le ha) h
    have := (Nat.le_log2 hb).mpr h1
    omega

/-- the field round trip: the stored value is the count exactly when the count fits the width -/
theorem unpack_pack_iff (w c : Nat) : unpack (pack w c) = c ↔ c < 2 ^ w := by
  unfold unpack pack
  constructor
  · intro h
    have : c % 2 ^ w < 2 ^ w := Nat.mod_lt _ (Nat.two_pow_pos w)
    omega
  · exact Nat.mod_eq_of_lt

theorem le_foldl_max (cs : List Nat) : ∀ (a c : Nat), c ∈ cs → c ≤ cs.foldl max a := by
  induction cs with
  | nil => intro a c h; cases h
  | cons x xs ih =>
    intro a c h
    simp only [List.foldl_cons]
    rcases List.mem_cons.mp h with rfl | h
    · have : ∀ (ys : List Nat) (b : Nat), b ≤ ys.foldl max b := by
        intro ys
        induction ys with
        | nil => intro b; simp
        | cons y ys ih2 => intro b; simp only [List.foldl_cons]; exact Nat.le_trans (Nat.le_max_left b y) (ih2 _)
      exact Nat.le_trans (Nat.le_max_right a c) (this xs _)
    · exact ih _ _ h

/-- FULL: with the width computed over all code objects of the module, every count survives -/
theorem all_counts_survive (cs : List Nat) (c : Nat) (h : c ∈ cs) :
    unpack (pack (widthOf cs) c) = c := by
  rw [unpack_pack_iff]
  have h1 : c ≤ maxFrom1 cs := le_foldl_max cs 1 c h
  have h2 := bitLength_mono h1
  have h3 := lt_two_pow_bitLength c
  exact Nat.lt_of_lt_of_le h3 (Nat.pow_le_pow_right (by decide) h2)

/-- the statement a width computation over a SUBSET of the code objects would need -/
def SubsetWidthsSuffice : Prop :=
  ∀ (cs sub : List Nat) (c : Nat), (∀ x ∈ sub, x ∈ cs) → c ∈ cs → unpack (pack (widthOf sub) c) = c

/-- COUNTEREXAMPLE: sizing over a strict subset loses a count: module with a 1-argument def and a
    4-argument generator, width taken over the def only: 1 bit, and 4 is stored as 0 -/
theorem not_SubsetWidthsSuffice : ¬ SubsetWidthsSuffice := by
  intro h
  have := h [1, 4] [1] 4 (by decide) (by decide)
  revert this
  decide

/-- exactly which counts are lost when the width is taken over `sub` -/
theorem lost_iff (sub : List Nat) (c : Nat) :
    unpack (pack (widthOf sub) c) ≠ c ↔ 2 ^ widthOf sub ≤ c := by
  rw [Ne, unpack_pack_iff]; omega

example : widthOf [1, 2, 3] = 2 ∧ widthOf [] = 1 ∧ widthOf [4] = 3 ∧ widthOf [31, 32] = 6 := by decide
example : unpack (pack (widthOf [1, 3]) 4) = 0 := by decide

end CyVerif.C25Bits

import CyVerif.Model.C25
import CyVerif.Lemmas.C25Mono
/-! C25 — property theorems (expression printer `ExpressionWriter` / reference reader).

`RoundTrip T v` is the full-strength statement "the reader returns every tree from the printer's
tokens".  For the printer as it exists in the pinned source (`Vcur`) it is FALSE: six concrete
witnesses are kernel-checked below (and replayed on the real printer by the harness).  For the
repaired printer (`Vfix`) the statement is checked here on the same witnesses only; its proof for
all trees is not part of this file (see tools/claims/C25.json). -/
namespace CyVerif.C25

/-- the table of the pinned source -/
def T0 : Tbl := ⟨1, 2, 3, 4, 5, 6, 7, 8, 9, 10, 11, 12⟩
/-- the printer of the pinned source / the repaired printer -/
def Vcur : Var := ⟨false, false, false, false⟩
def Vfix : Var := ⟨true, true, true, true⟩

/-- full-strength statement -/
def RoundTrip (T : Tbl) (v : Var) : Prop := ∀ e : Expr, parse T (printE T v e) = some e

example : T0.WF := by decide

private def a : Expr := .atom .name 1
private def b : Expr := .atom .name 2
private def c : Expr := .atom .name 3

/-- `a - (b - c)` -/
def wAssoc : Expr := .bin .sub a (.bin .sub b c)
/-- `(a ** b) ** c` -/
def wPow : Expr := .bin .pow (.bin .pow a b) c
/-- `(a if b else c) + a` -/
def wCond : Expr := .bin .add (.cond a b c) a
/-- `a < b < c` -/
def wChain : Expr := .cmp a .lt b (.cons .lt c .nil)
/-- `(a < b) < c` -/
def wCmpNest : Expr := .cmp (.cmp a .lt b .nil) .lt c .nil
/-- `(a + b).c` -/
def wAttr : Expr := .attr (.bin .add a b) 3
/-- `(-1) ** a` with the folded literal -1 -/
def wNegLit : Expr := .bin .pow (.un .negf (.atom .int 1)) a
/-- `(a,)` -/
def wTup1 : Expr := .disp .tuple (.item .pos a .nil)
/-- `lambda a, b=c: a` -/
def wLam : Expr := .lam (.item .pos a (.kw 2 c .nil)) a

/-- the printer of the pinned source loses the tree of each witness -/
theorem cur_loses_assoc : parse T0 (printE T0 Vcur wAssoc) = some (.bin .sub (.bin .sub a b) c) := by rfl
theorem cur_loses_pow : parse T0 (printE T0 Vcur wPow) = some (.bin .pow a (.bin .pow b c)) := by rfl
theorem cur_loses_cond : parse T0 (printE T0 Vcur wCond) = some (.cond a b (.bin .add c a)) := by rfl
theorem cur_loses_chain : parse T0 (printE T0 Vcur wChain) = some (.cmp a .lt b .nil) := by rfl
theorem cur_loses_cmp_nest : parse T0 (printE T0 Vcur wCmpNest) = some wChain := by rfl
theorem cur_loses_attr : parse T0 (printE T0 Vcur wAttr) = some (.bin .add a (.attr b 3)) := by rfl
theorem cur_loses_neglit :
    parse T0 (printE T0 Vcur wNegLit) = some (.un .neg (.bin .pow (.atom .int 1) a)) := by rfl
theorem cur_loses_tuple1 : parse T0 (printE T0 Vcur wTup1) = some a := by rfl
theorem cur_loses_lambda : parse T0 (printE T0 Vcur wLam) = some (.atom .const 0) := by rfl

/-- hence the full-strength statement is false for the printer of the pinned source -/
theorem not_RoundTrip_cur : ¬ RoundTrip T0 Vcur := by
  intro h
  have h1 := h wTup1
  rw [cur_loses_tuple1] at h1
  exact absurd h1 (by simp [wTup1, a])

/-- the repaired printer keeps every witness (instances only, not the general theorem) -/
theorem fix_keeps_witnesses :
    ∀ e ∈ [wAssoc, wPow, wCond, wChain, wCmpNest, wAttr, wNegLit, wTup1, wLam],
      parse T0 (printE T0 Vfix e) = some e := by
  intro e he
  simp only [List.mem_cons, List.mem_nil_iff, or_false] at he
  rcases he with rfl | rfl | rfl | rfl | rfl | rfl | rfl | rfl | rfl <;> rfl

/-- Fuel monotonicity of the reference reader, for every table: once it succeeds, more fuel gives
    the same tree (the fuel bound inside `parse` is not part of its meaning). -/
theorem reader_fuel_monotone (T : Tbl) {f g p ts r} (h : parseE T f p ts = some r) (hle : f ≤ g) :
    parseE T g p ts = some r := parseE_mono T h hle

example : parseE T0 5 0 [Tok.atom .name 1] = some (.atom .name 1, []) := by rfl

end CyVerif.C25

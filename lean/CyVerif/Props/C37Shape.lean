import CyVerif.Props.C37Exit
/-!
C37 — the epilogue depends on the STATIC shape of the loop body (which of raise / return the body contains decides
which fix-up and which `switch` cases are emitted).  For the emission rule of the current source (`srcEmit`) and
iteration behaviours that respect the static shape, the shape-specific epilogue `finishEmit` coincides with the full
one on every reachable final state, so all leg-2 theorems hold for every static shape.
-/
namespace CyVerif.C37

theorem finishEmit_eq_finish (kinds : Nat → Kind) (parts : List (List Nat)) (acts : List (Nat × Bool)) (st : St)
    (hasRaise hasRet : Bool) (hnd : parts.flatten.Nodup)
    (hx : ∀ k, kinds k = .raise → hasRaise = true) (hr : ∀ k, kinds k = .ret → hasRet = true)
    (hrun : runActs (srcCfg parts kinds) (initSt parts) acts = some st) :
    finishEmit (srcEmit hasRaise hasRet) (srcCfg parts kinds) st = finish (srcCfg parts kinds) st := by
  have invA := invA_run (c := srcCfg parts kinds) rfl (nodup_count_le hnd) acts (invA_init true true kinds parts) hrun
  have invB := invB_run acts (invB_init (srcCfg parts kinds) parts) hrun
  unfold finishEmit finish
  by_cases hall : allFinished (srcCfg parts kinds) st = true
  · rw [if_pos hall, if_pos hall]
    have ha : st.slot.isSome = true → hasRaise = true := fun hs => by
      obtain ⟨k, _, hk⟩ := (fin_slot_iff hall invA).mpr hs
      exact hx k hk
    have e1 : ((srcEmit hasRaise hasRet).fixup && st.slot.isSome) = ((srcCfg parts kinds).preferErr && st.slot.isSome) := by
      cases hs : st.slot.isSome
      · simp
      · rw [show (srcEmit hasRaise hasRet).fixup = hasRaise from rfl, ha hs]; rfl
    dsimp only
    rw [e1]
    generalize hw : (if ((srcCfg parts kinds).preferErr && st.slot.isSome) = true then 4 else st.why) = w
    have h4 : w = 4 → hasRaise = true := fun h => by
      by_cases hs : st.slot.isSome = true
      · exact ha hs
      · have : st.why = 4 := by
          have : ((srcCfg parts kinds).preferErr && st.slot.isSome) = false := by simp [hs]
          rw [this] at hw; simp at hw; omega
        exact ha (fin_why4 hall invA invB this)
    have h3 : w = 3 → hasRet = true := fun h => by
      have hwhy : st.why = 3 := by
        by_cases hs : ((srcCfg parts kinds).preferErr && st.slot.isSome) = true
        · rw [if_pos hs] at hw; omega
        · rw [if_neg hs] at hw; omega
      rcases invB.whyInv with h0 | ⟨h2, _⟩ | ⟨_, hret⟩ | ⟨h4', _⟩
      · omega
      · omega
      · obtain ⟨k, hk⟩ := Option.isSome_iff_exists.mp hret
        exact hr k (invB.retInv k hk).2
      · omega
    by_cases w3 : w = 3
    · simp [w3, h3 w3, srcEmit]
    · by_cases w4 : w = 4
      · simp [w4, h4 w4, srcEmit]
      · simp [w3, w4]
  · rw [if_neg hall, if_neg hall]

/-- For every static shape: the outcome lies in the best-effort set. -/
theorem exit_outcome_allowed_shape (kinds : Nat → Kind) (parts : List (List Nat)) (acts : List (Nat × Bool))
    (st st' : St) (out : Outcome) (hasRaise hasRet : Bool) (hnd : parts.flatten.Nodup)
    (hx : ∀ k, kinds k = .raise → hasRaise = true) (hr : ∀ k, kinds k = .ret → hasRet = true)
    (hrun : runActs (srcCfg parts kinds) (initSt parts) acts = some st)
    (hfin : finishEmit (srcEmit hasRaise hasRet) (srcCfg parts kinds) st = some (st', out)) :
    allowedOutcome kinds st'.ran out = true := by
  rw [finishEmit_eq_finish kinds parts acts st hasRaise hasRet hnd hx hr hrun] at hfin
  exact exit_outcome_allowed kinds parts acts st st' out hnd hrun hfin

/-- For every static shape: exception accounting after the region. -/
theorem exit_exception_accounting_shape (kinds : Nat → Kind) (parts : List (List Nat)) (acts : List (Nat × Bool))
    (st st' : St) (out : Outcome) (hasRaise hasRet : Bool) (hnd : parts.flatten.Nodup) (hn : 0 < parts.length)
    (hx : ∀ k, kinds k = .raise → hasRaise = true) (hr : ∀ k, kinds k = .ret → hasRet = true)
    (hrun : runActs (srcCfg parts kinds) (initSt parts) acts = some st)
    (hfin : finishEmit (srcEmit hasRaise hasRet) (srcCfg parts kinds) st = some (st', out)) :
    (∀ e, st'.released.count e + ind (st'.cur 0 = some e) = ind (e ∈ st'.ran ∧ kinds e = .raise)) ∧
    st'.slot = none ∧ (∀ t < parts.length, t ≠ 0 → st'.cur t = none) ∧
    ((∃ k ∈ st'.ran, kinds k = .raise) →
      ∃ e, out = .raise (some e) ∧ e ∈ st'.ran ∧ kinds e = .raise ∧ st'.cur 0 = some e) ∧
    ((¬ ∃ k ∈ st'.ran, kinds k = .raise) → st'.released = [] ∧ st'.cur 0 = none ∧ ∀ e, out ≠ .raise e) := by
  rw [finishEmit_eq_finish kinds parts acts st hasRaise hasRet hnd hx hr hrun] at hfin
  exact exit_exception_accounting kinds parts acts st st' out hnd hn hrun hfin

/-- An emission rule that drops the fix-up when the body has no `return` ("only needed if another exit kind is
dispatched"): a body with raise + break loses the exception. -/
def fixupOnlyWithReturn (hasRaise hasRet : Bool) : Emit :=
  { fixup := hasRaise && hasRet, caseRet := hasRet, caseErr := hasRaise }

theorem fixup_needed_without_return :
    ∃ acts st st' out, runActs (srcCfg [[0], [1]] raiseBrk) (initSt [[0], [1]]) acts = some st ∧
      finishEmit (fixupOnlyWithReturn true false) (srcCfg [[0], [1]] raiseBrk) st = some (st', out) ∧
      0 ∈ st'.ran ∧ out = .fall 2 ∧ st'.slot = some 0 ∧ st'.released.count 0 = 0 :=
  ⟨[(0, false), (0, false), (0, false), (1, false), (1, false), (0, false), (1, false)], _, _, _,
    rfl, rfl, by decide, rfl, rfl, by decide⟩

example : ∀ k, raiseBrk k = .raise → true = true := fun _ _ => rfl
example : ∀ k, raiseBrk k = .ret → false = true := by intro k h; unfold raiseBrk at h; split at h <;> cases h

end CyVerif.C37

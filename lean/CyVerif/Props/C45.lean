import CyVerif.Lemmas.C45Inv
import CyVerif.Model.C45Drv
/-!
C45 — profiling / tracing events are balanced and well nested.

`runFn cfg c s` is the event stream of ONE call of the compiled function `c` whose (unrolled) execution
is `s`: any nesting of sequences, loops with break/continue, try/finally, try/except, calls of other
compiled functions of any kind (their executions nested in the term), foreign callees with arbitrary
balanced event words, yields with any consumer reaction.  `go` is the stack checker (= the oracle of the
harness): start/resume push the frame, return/unwind/yield must close the frame on top, a line event must
name the function on top and a line inside its range.

The full-strength statement is FALSE for the code as it exists (`full_balanced_false`): the return event
is emitted at the `return` statement, not at the function's return label.  The theorems below hold for
both values of `cfg.be` (the call sites of the macros are the same in both `#if` branches); the branches
differ at an error exit before the start macro (`early_*`).
-/
namespace CyVerif.C45

/-- FULL statement for a source variant (`fc` = cpdef repair applied, `fr` = return-label repair applied):
every call is one well-nested bracket, whatever the body does (positions in range, foreign callees balanced). -/
def FullBalancedFor (fc fr : Bool) : Prop :=
  ∀ (be : Backend) (lt ng : Bool) (c : Fn) (s : Stmt), inRange c s = true → extOK s = true →
    ∀ stk, go stk (runFn ⟨be, lt, ng, fc, fr⟩ c s).1 = some stk

/-- the tree as found -/
def FullBalanced : Prop := FullBalancedFor false false

/-- PARTIAL (main theorem): for ALL control-flow shapes outside the excluded points of `safe`
(return inside a parallel block; return inside a `try` whose `finally` is observable; an exception leaving
a cpdef function entered through its wrapper) the stream of a call is neutral on EVERY stack of open
frames: exactly one start, one matching return/unwind, every resume closed by a yield or the final
return/unwind, callees nested inside, line events only inside the frame and inside its line range. -/
theorem fn_neutral_partial (cfg : Cfg) (c : Fn) (s : Stmt) (h : okFn cfg c s = true) :
    ∀ stk, go stk (runFn cfg c s).1 = some stk := by
  intro stk
  simp only [okFn, Bool.and_eq_true] at h
  obtain ⟨⟨⟨hr, he⟩, hs⟩, hf⟩ := h
  simp only [runFn]
  rw [List.append_assoc, go_evStart cfg c stk _ (safeFn_cskip cfg c _ hf),
    go_seq (exec_inv cfg s c stk hr he hs)]
  exact finish_inv cfg c stk _ hf

theorem fn_wellbracketed_partial (cfg : Cfg) (c : Fn) (s : Stmt) (h : okFn cfg c s = true) :
    WellBracketed (runFn cfg c s).1 :=
  fn_neutral_partial cfg c s h []

/-- so a checked call can be plugged in wherever a foreign callee is allowed (compositionality:
the hypothesis `extOK` of a caller is discharged by this theorem for its compiled callees) -/
theorem fn_is_ext (cfg : Cfg) (c : Fn) (s : Stmt) (h : okFn cfg c s = true) (ln : Nat) (raises : Bool) :
    extOK (.ext ln (runFn cfg c s).1 raises) = true := by
  simp [extOK, fn_wellbracketed_partial cfg c s h |> (fun h => (h : go [] _ = some []))]

/-- a neutral word stays neutral below any stack (used by the oracle: a recorded stream is checked inside
the frames of the recording driver) -/
theorem neutral_of_wellbracketed (w : List Ev) (h : WellBracketed w) (stk : List Fr) : go stk w = some stk :=
  go_neutral w h stk

/-! ### non-vacuity: a generator with try/finally, a loop with break, a callee that raises and is caught -/
def demoCfg : Cfg := ⟨.legacy, true, true, false, false⟩
def demoGen : Fn := ⟨1, 10, 40, .gen⟩
def demoBody : Stmt :=
  .seq (.tryFin 11
          (.seq (.yld 12 0) (.iter (.seq (.simple 14) (.yld 15 0)) (.iter (.brk 16) .skip)))
          (.seq (.simple 18) (.ext 19 [⟨.start, 7, 1, 2⟩, ⟨.line, 7, 2, 0⟩, ⟨.ret, 7, 0, 0⟩] false)))
       (.tryExc 20 (.call 21 ⟨2, 50, 60, .plain⟩ (.seq (.simple 51) (.fail 52 true))) 22 (.ret 23))
example : okFn demoCfg demoGen demoBody = true := by decide
example : (runFn demoCfg demoGen demoBody).1.length = 24 := by decide
example : WellBracketed (runFn demoCfg demoGen demoBody).1 := fn_wellbracketed_partial _ _ _ (by decide)

/-! ### the excluded points are real: counterexamples to the full statement -/
def pf : Fn := ⟨1, 10, 30, .plain⟩
def prof : Cfg := ⟨.legacy, false, false, false, false⟩

/-- `try: return 1  finally: raise KeyError` — two return events for one call -/
theorem cx_return_then_finally_raises :
    (runFn prof pf (.tryFin 11 (.ret 12) (.fail 14 true))).1
      = [⟨.start, 1, 10, 30⟩, ⟨.ret, 1, 0, 0⟩, ⟨.unwind, 1, 0, 0⟩]
    ∧ go [] (runFn prof pf (.tryFin 11 (.ret 12) (.fail 14 true))).1 = none := by decide

/-- `try: return 1  finally: cb()` — the callee's bracket comes after the caller's return event;
with line tracing the line event of the finally clause is outside the frame -/
theorem cx_return_then_finally_line :
    go [] (runFn demoCfg pf (.tryFin 11 (.ret 12) (.seq (.simple 14) (.simple 15)))).1 = none := by decide

/-- `return` inside prange: start without return -/
theorem cx_return_in_parallel : go [] (runFn prof pf (.retPar 12)).1 = some [⟨1, 10, 30⟩] := by decide

/-- cpdef function entered through its Python wrapper raises: both error labels report -/
theorem cx_cpdef_wrapper_error :
    (runFn prof ⟨1, 10, 30, .cpdefPy⟩ (.fail 12 true)).1
      = [⟨.start, 1, 10, 30⟩, ⟨.unwind, 1, 0, 0⟩, ⟨.unwind, 1, 0, 0⟩] := by decide

/-- `Base.meth(self)` inside an overriding cpdef method: the base C function is entered with skip_dispatch=1,
skips its start event and still reports its return -/
theorem cx_cpdef_skip_dispatch :
    (runFn prof ⟨1, 10, 30, .plain⟩ (.call 12 ⟨2, 40, 50, .cskip⟩ (.ret 41))).1
      = [⟨.start, 1, 10, 30⟩, ⟨.ret, 2, 0, 0⟩, ⟨.ret, 1, 0, 0⟩] := by decide

theorem full_balanced_false : ¬ FullBalanced := by
  intro h
  have := h .legacy false false pf (.tryFin 11 (.ret 12) (.fail 14 true)) (by decide) (by decide) []
  exact absurd this (by decide)

/-- the cpdef repair alone does not give the full statement: the return event is still early -/
theorem full_balanced_cpdef_only_false : ¬ FullBalancedFor true false := by
  intro h
  have := h .legacy false false pf (.tryFin 11 (.ret 12) (.fail 14 true)) (by decide) (by decide) []
  exact absurd this (by decide)

/-- the error exit WITHOUT an exception set (`__next__`: bare `raise StopIteration`) is covered by the main theorem:
it reports its unwind like every other error exit, whoever consumes the NULL -/
example : okFn prof ⟨1, 10, 30, .swallow⟩ (.seq (.simple 11) (.stopNoExc 12)) = true := by decide
example : (runFn prof ⟨1, 10, 30, .swallow⟩ (.stopNoExc 12)) = ([⟨.start, 1, 10, 30⟩, ⟨.unwind, 1, 0, 0⟩], false) := by decide
example : (runFn prof ⟨1, 10, 30, .plain⟩ (.stopNoExc 12)).2 = true := by decide

/-! ### the repaired variants: the exclusions disappear -/
theorem safe_of_fixed (cfg : Cfg) (hc : cfg.fixCpdef = true) (hr : cfg.fixRet = true) :
    ∀ (s : Stmt) (c : Fn), safe cfg c s = true := by
  have hfn : ∀ (f : Fn) (o : Out), safeFn cfg f o = true := by
    intro f o; unfold safeFn; cases f.fk <;> simp [hc]
  intro s
  induction s with
  | call ln f body ih => intro c; simp [safe, ih f, hfn]
  | seq a b iha ihb => intro c; simp [safe, iha c, ihb c]
  | tryFin ln body fin ihb ihf => intro c; simp [safe, ihb c, ihf c, hr]
  | tryExc ln body lnExc h ihb ihh => intro c; simp [safe, ihb c, ihh c]
  | iter body more ihb ihm => intro c; simp [safe, ihb c, ihm c]
  | retPar ln => intro c; simp [safe, hr]
  | _ => intro c; simp [safe]

/-- FULL statement for the emission with BOTH repairs (cpdef wrapper untraced + one return event at the
function's return label): every body, every function kind, both back ends -/
theorem full_balanced_repaired : FullBalancedFor true true := by
  intro be lt ng c s hin he stk
  apply fn_neutral_partial
  have hs := safe_of_fixed ⟨be, lt, ng, true, true⟩ rfl rfl s c
  have hf : safeFn ⟨be, lt, ng, true, true⟩ c (exec ⟨be, lt, ng, true, true⟩ c s).2 = true := by
    unfold safeFn; cases c.fk <;> simp
  simp [okFn, hin, he, hs, hf]

/-! ### error exit before the start macro -/
theorem early_legacy_silent (lt ng fc fr : Bool) (c : Fn) (g : Bool) : runEarly ⟨.legacy, lt, ng, fc, fr⟩ c g = [] := rfl

/-- monitoring branch (CPython ≥ 3.13, not compiled here): the `.active` flags are read before the start
macro has cleared them; if they happen to be set, an unwind event without a start is fired -/
theorem early_monitoring_unbalanced :
    go [] (runEarly ⟨.monitoring, false, false, false, false⟩ pf true) = none := by decide

end CyVerif.C45

import CyVerif.Model.C08
/-!
# C08 — CPython 3.12 `Objects/complexobject.c` over the same abstract float operations.

`errno` is modelled as an explicit flag: `Errno.edom` (→ ZeroDivisionError), `Errno.erange`
(→ OverflowError).  The `complex_*` wrappers turn the flag into the Python exception exactly as
`complex_div`, `complex_abs`, `complex_pow` do.
-/
namespace CyVerif.C08

variable {F : Type}

inductive Errno where
  | none | edom | erange
  deriving DecidableEq, Repr

def pyEq (o : FOps F) (a b : Cx F) : Bool := o.eq a.re b.re && o.eq a.im b.im
def pySum (o : FOps F) (a b : Cx F) : Cx F := ⟨o.add a.re b.re, o.add a.im b.im⟩
def pyDiff (o : FOps F) (a b : Cx F) : Cx F := ⟨o.sub a.re b.re, o.sub a.im b.im⟩
def pyNeg (o : FOps F) (a : Cx F) : Cx F := ⟨o.neg a.re, o.neg a.im⟩
def pyProd (o : FOps F) (a b : Cx F) : Cx F :=
  ⟨o.sub (o.mul a.re b.re) (o.mul a.im b.im), o.add (o.mul a.re b.im) (o.mul a.im b.re)⟩
/-- `complex.conjugate` -/
def pyConj (o : FOps F) (a : Cx F) : Cx F := ⟨a.re, o.neg a.im⟩

/-- `_Py_c_quot`, generic in the final division `dv x denom` (CPython: `dv = o.div`) -/
def pyQuotG (o : FOps F) (dv : F → F → F) (a b : Cx F) : Cx F × Errno :=
  let abr := absLt o b.re
  let abi := absLt o b.im
  if o.le abi abr then
    if o.eq abr o.zero then (⟨o.zero, o.zero⟩, .edom)
    else
      let ratio := o.div b.im b.re
      let denom := o.add b.re (o.mul b.im ratio)
      (⟨dv (o.add a.re (o.mul a.im ratio)) denom, dv (o.sub a.im (o.mul a.re ratio)) denom⟩, .none)
  else if o.le abr abi then
    let ratio := o.div b.re b.im
    let denom := o.add (o.mul b.re ratio) b.im
    (⟨dv (o.add (o.mul a.re ratio) a.im) denom, dv (o.sub (o.mul a.im ratio) a.re) denom⟩, .none)
  else (⟨o.nan, o.nan⟩, .none)

def pyQuot (o : FOps F) (a b : Cx F) : Cx F × Errno := pyQuotG o o.div a b

/-- `complex_div` -/
def pyDiv (o : FOps F) (a b : Cx F) : Res (Cx F) :=
  match pyQuot o a b with
  | (_, .edom) => .err "ZeroDivisionError"
  | (q, _) => .ok q

/-- `_Py_c_abs` -/
def pyCAbs (o : FOps F) (z : Cx F) : F × Errno :=
  if o.isNaN z.re || o.isInf z.re || o.isNaN z.im || o.isInf z.im then
    if o.isInf z.re then (o.abs z.re, .none)
    else if o.isInf z.im then (o.abs z.im, .none)
    else (o.nan, .none)
  else
    let r := o.hypot z.re z.im
    if o.isNaN r || o.isInf r then (r, .erange) else (r, .none)

/-- `complex_abs` -/
def pyAbs (o : FOps F) (z : Cx F) : Res F :=
  match pyCAbs o z with
  | (_, .erange) => .err "OverflowError"
  | (r, _) => .ok r

/-- `c_powu`: the loop `while (mask > 0 && n >= mask)` over the bits of `n`, as a fold over at most
`fuel` bits (`n ≤ 100 < 2^7`) -/
def pyPowU (o : FOps F) (x : Cx F) (n : Nat) : Cx F :=
  let rec go (fuel : Nat) (mask : Nat) (r p : Cx F) : Cx F :=
    match fuel with
    | 0 => r
    | fuel + 1 =>
      if n < mask then r
      else
        let r' := if n / mask % 2 = 1 then pyProd o r p else r
        go fuel (mask * 2) r' (pyProd o p p)
  go 63 1 ⟨o.one, o.zero⟩ x

/-- `c_powi` -/
def pyPowI (o : FOps F) (x : Cx F) (n : Int) : Cx F × Errno :=
  if n > 0 then (pyPowU o x n.toNat, .none)
  else pyQuot o ⟨o.one, o.zero⟩ (pyPowU o x (-n).toNat)

/-- `_Py_c_pow` -/
def pyCPow (o : FOps F) (a b : Cx F) : Cx F × Errno :=
  if o.eq b.re o.zero && o.eq b.im o.zero then (⟨o.one, o.zero⟩, .none)
  else if o.eq a.re o.zero && o.eq a.im o.zero then
    (⟨o.zero, o.zero⟩, if !(o.eq b.im o.zero) || o.lt b.re o.zero then .edom else .none)
  else
    let vabs := o.hypot a.re a.im
    let len := o.pow vabs b.re
    let at_ := o.atan2 a.im a.re
    let phase := o.mul at_ b.re
    let len' := if !(o.eq b.im o.zero) then o.div len (o.exp (o.mul at_ b.im)) else len
    let phase' := if !(o.eq b.im o.zero) then o.add phase (o.mul b.im (o.log vabs)) else phase
    (⟨o.mul len' (o.cos phase'), o.mul len' (o.sin phase')⟩, .none)

/-- does `complex_pow` take the `c_powi` route? -/
def pyPowIsInt (o : FOps F) (b : Cx F) : Bool :=
  o.eq b.im o.zero && o.eq b.re (o.floor b.re) && o.le (o.abs b.re) o.hundred

/-- `complex_pow` (two-argument form): route, `_Py_ADJUST_ERANGE2`, errno → exception -/
def pyPow (o : FOps F) (a b : Cx F) : Res (Cx F) :=
  let (p, e) := if pyPowIsInt o b then pyPowI o a (o.truncInt b.re) else pyCPow o a b
  let e' : Errno :=
    if o.isInf p.re || o.isInf p.im then (if e = .none then .erange else e)
    else (if e = .erange then .none else e)
  match e' with
  | .edom => .err "ZeroDivisionError"
  | .erange => .err "OverflowError"
  | .none => .ok p

end CyVerif.C08

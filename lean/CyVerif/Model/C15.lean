import CyVerif.Model.C15Spec
/-!
# C15 — model of the Cython index / slice helpers

Anchors: `Cython/Utility/ObjectHandling.c` (`GetItemInt`, `SetItemInt`, `DelItemInt`,
`SliceObject`, `SliceTupleAndList`), `Cython/Utility/StringTools.c`
(`GetItemIntUnicode`, `GetItemIntBytes`, `GetItemIntByteArray`, `SetItemIntByteArray`,
`PyUnicode_Substring`), `Cython/Utility/TypeConversion.c` (`__Pyx_fits_Py_ssize_t`,
`__Pyx_is_valid_index`), `Cython/Compiler/ExprNodes.py` (`IndexNode.extra_index_params`,
`analyse_as_pyobject`, `SliceIndexNode.analyse_types/get_slice_config`).

`sw` is the bit width of `Py_ssize_t` (64 on the tested platform, universally quantified
in the theorems); a C index type is `(w, signed)`.  Signed C arithmetic that leaves the
`Py_ssize_t` range is `ub "signed-overflow"`, an array read outside the object's item array
is `ub "oob-read"` / `ub "oob-write"`; conversions between integer types wrap.
Calls into CPython (`PyObject_GetItem`, `mp_subscript`, `sq_item`, `PySequence_GetSlice`, …)
are the `PySpec` functions.
-/
namespace CyVerif.C15

/-! ## C integers -/

def ssMax (sw : Nat) : Int := 2 ^ (sw - 1) - 1
def ssMin (sw : Nat) : Int := -(2 ^ (sw - 1))
def inSS (sw : Nat) (v : Int) : Bool := decide (ssMin sw ≤ v) && decide (v ≤ ssMax sw)

def tMax (w : Nat) (signed : Bool) : Int := if signed then 2 ^ (w - 1) - 1 else 2 ^ w - 1
def tMin (w : Nat) (signed : Bool) : Int := if signed then -(2 ^ (w - 1)) else 0
def inT (w : Nat) (signed : Bool) (v : Int) : Bool := decide (tMin w signed ≤ v) && decide (v ≤ tMax w signed)

/-- conversion of an integer value to the C type `(w, signed)` (modulo `2^w`) -/
def castT (w : Nat) (signed : Bool) (v : Int) : Int :=
  if signed then (v + 2 ^ (w - 1)) % 2 ^ w - 2 ^ (w - 1) else v % 2 ^ w

/-- `(Py_ssize_t)v` -/
def castSS (sw : Nat) (v : Int) : Int := castT sw true v

def addSS (sw : Nat) (a b : Int) : Out Int :=
  if inSS sw (a + b) then .ok (a + b) else .ub "signed-overflow"

def subSS (sw : Nat) (a b : Int) : Out Int :=
  if inSS sw (a - b) then .ok (a - b) else .ub "signed-overflow"

/-- `__Pyx_fits_Py_ssize_t(v, type, is_signed)` (TypeConversion.c); comparisons are done in `type`. -/
def fitsSsize (sw w : Nat) (signed : Bool) (v : Int) : Bool :=
  let mx := castT w signed (ssMax sw)
  let mn := castT w signed (ssMin sw)
  decide (w < sw) ||
  (decide (w > sw) && (decide (v < mx) || decide (v = mx)) &&
      (!signed || (decide (v > mn) || decide (v = mn)))) ||
  (decide (w = sw) && (signed || (decide (v < mx) || decide (v = mx))))

/-- `__Pyx_is_valid_index(i, limit)`: `(size_t)i < (size_t)limit` -/
def isValidIndex (sw : Nat) (i limit : Int) : Bool :=
  decide (castT sw false i < castT sw false limit)

/-! ## memory -/

/-- read `ob_item[k]` / `data[k]` of an object whose item array is `l` -/
def readArr {α} (l : List α) (k : Int) : Out α :=
  if 0 ≤ k then
    match l[k.toNat]? with
    | some x => .ok x
    | none => .ub "oob-read"
  else .ub "oob-read"

def writeArr {α} (l : List α) (k : Int) (v : α) : Out (List α) :=
  if 0 ≤ k ∧ k < l.length then .ok (l.set k.toNat v) else .ub "oob-write"

/-- the copy loop of `__Pyx_copy_object_array` / `PyUnicode_FromKindAndData`: `n` reads from `s` -/
def readRange {α} (l : List α) (s : Int) : Nat → Out (List α)
  | 0 => .ok []
  | n + 1 => (readArr l s).bind fun x => (readRange l (s + 1) n).bind fun xs => .ok (x :: xs)

/-! ## directives and the flags the compiler passes -/

structure Dirs where
  wraparound : Bool
  boundscheck : Bool
  deriving DecidableEq, Repr

def Dirs.default : Dirs := ⟨true, true⟩

/-- `IndexNode.extra_index_params`: `wraparound` argument =
directive ∧ index type signed ∧ ¬(constant index ≥ 0) -/
def wrapFlag (d : Dirs) (signed constNonneg : Bool) : Bool :=
  d.wraparound && signed && !constNonneg

/-- `IndexNode.analyse_as_pyobject`: `is_temp = 0` — reading list/tuple/bytearray items with
the bare `GET_ITEM` macro, no helper (only with boundscheck off) -/
def directAccess (d : Dirs) (signed constNonneg : Bool) : Bool :=
  !d.boundscheck && (!signed || !d.wraparound || constNonneg)

/-! ## GetItemInt -/

/-- `__Pyx_GetItemInt_{List,Tuple}_Fast` (branch `CYTHON_ASSUME_SAFE_SIZE && CYTHON_ASSUME_SAFE_MACROS`) -/
def seqFast {α} (sw : Nat) (l : List α) (i : Int) (wrap bc : Bool) : Out α :=
  let size : Int := if wrap || bc then l.length else -1
  (if wrap && decide (i < 0) then addSS sw i size else .ok i).bind fun wi =>
    if !bc || isValidIndex sw wi size then readArr l wi
    else pyGet l i   -- __Pyx_GetItemInt_Generic_size: PyObject_GetItem(o, PyLong(i))

/-- `__Pyx_GetItemInt_List(o, i, type, is_signed, …)` / `…_Tuple` as used for `list`/`tuple`-typed bases -/
def getItemIntSeq {α} (sw w : Nat) (signed : Bool) (d : Dirs) (constNonneg : Bool)
    (l : List α) (v : Int) : Out α :=
  if directAccess d signed constNonneg then readArr l (castSS sw v)
  else if fitsSsize sw w signed v then
    seqFast sw l (castSS sw v) (wrapFlag d signed constNonneg) d.boundscheck
  else .err "IndexError"

/-- `__Pyx_GetItemInt_Unicode_Fast` -/
def unicodeFast {α} (sw : Nat) (l : List α) (i : Int) (wrap bc : Bool) : Out α :=
  if wrap || bc then
    (if wrap && decide (i < 0) then addSS sw i l.length else .ok i).bind fun i' =>
      if !bc || isValidIndex sw i' l.length then readArr l i' else .err "IndexError"
  else readArr l i

/-- `__Pyx_GetItemInt_Bytes_Fast` -/
def bytesFast {α} (sw : Nat) (l : List α) (i : Int) (wrap bc : Bool) : Out α :=
  (if wrap && decide (i < 0) then addSS sw i l.length else .ok i).bind fun i' =>
    if bc && !isValidIndex sw i' l.length then .err "IndexError" else readArr l i'

/-- `__Pyx_GetItemInt_ByteArray_Fast` (+ `_Locked`) -/
def byteArrayFast {α} (sw : Nat) (l : List α) (i : Int) (wrap bc : Bool) : Out α :=
  if wrap || bc then
    (if wrap && decide (i < 0) then addSS sw i l.length else .ok i).bind fun i' =>
      if !bc || isValidIndex sw i' l.length then readArr l i' else .err "IndexError"
  else readArr l i

inductive StrKind where
  | unicode | bytes | bytearray
  deriving DecidableEq, Repr

/-- `__Pyx_GetItemInt_{Unicode,Bytes,ByteArray}` macros for `str`/`bytes`/`bytearray`-typed bases -/
def getItemIntStr {α} (sw w : Nat) (signed : Bool) (d : Dirs) (constNonneg : Bool) (k : StrKind)
    (l : List α) (v : Int) : Out α :=
  if k = .bytearray ∧ directAccess d signed constNonneg then readArr l (castSS sw v)
  else if fitsSsize sw w signed v then
    let wrap := wrapFlag d signed constNonneg
    match k with
    | .unicode => unicodeFast sw l (castSS sw v) wrap d.boundscheck
    | .bytes => bytesFast sw l (castSS sw v) wrap d.boundscheck
    | .bytearray => byteArrayFast sw l (castSS sw v) wrap d.boundscheck
  else .err "IndexError"

end CyVerif.C15

import CyVerif.Model.Util
/-!
# C42 — deterministic compilation: the order-sensitive emitters of `Code.GlobalState`

Model of (Cython/Compiler/Code.py, as it is NOW):
* `unique_const_cname` (counter map `const_cnames_used`), `new_const_cname` (identifier cleaning,
  32-character cut, `_` strip), `new_num_const_cname`;
* `StringConst.get_py_string_const` (key `(intern, is_unicode, encoding_key)`, cname construction);
* `generate_string_constants` + the ordering part of `generate_pystring_constants`
  (sort by `(len cname, cname)`, stable sort of text strings by `(interned, text)`, of byte strings by `(bytes, cname)`);
* `generate_num_constants` (sort key `(py_type, len |v|, |v|, v)`, float / <=63-bit / large partition);
* `use_utility_code` (a set used for membership only; emission at first use);
* `ModuleNode.sort_types_by_inheritance` (DFS topological order over `type_order`).

Strings are lists of byte / code-point values (`List Nat`); sort keys are `List (List Nat)` under the
lexicographic order of core Lean (`List.le`), which is how Python compares tuples of str / bytes / int
(UTF-8 preserves code point order, so text strings are keyed by their UTF-8 bytes).
-/
namespace CyVerif.C42

abbrev Bytes := List Nat
abbrev Key := List (List Nat)

def keyLe (a b : Key) : Bool := decide (a ≤ b)

/-- Python `sorted(l, key=key)` / `list.sort(key=key)`: a stable sort. -/
def sortBy {α : Type} (key : α → Key) (l : List α) : List α :=
  l.mergeSort (fun a b => keyLe (key a) (key b))

/-! ## `unique_const_cname` -/

/-- `format_str` with the placeholders `{sep}{counter}` between `pre` and `post`
(`sepOn = false`: the format has no `{sep}`, as in the `large{counter}_` names). -/
structure Fmt where
  pre : Bytes
  sepOn : Bool
  post : Bytes
  deriving Repr, DecidableEq

def natDigits (n : Nat) : Bytes := (toString n).toList.map Char.toNat

def Fmt.name (f : Fmt) : Option Nat → Bytes
  | none => f.pre ++ f.post
  | some c => f.pre ++ (if f.sepOn then [95] else []) ++ natDigits c ++ f.post

/-- `const_cnames_used`: name ↦ counter (insertion-ordered association list, only looked up). -/
abbrev Used := List (Bytes × Nat)

def Used.get (u : Used) (k : Bytes) : Option Nat := u.lookup k

def Used.set (u : Used) (k : Bytes) (v : Nat) : Used :=
  if (u.lookup k).isSome then u.map (fun p => if p.1 == k then (k, v) else p) else u ++ [(k, v)]

def Used.keys (u : Used) : List Bytes := u.map (·.1)

/-- the `while cname in used` loop; `none` = out of fuel / impossible KeyError (never silently defaulted) -/
def uniqLoop (f : Fmt) (value : Bytes) : Nat → Used → Bytes → Option (Bytes × Used)
  | 0, _, _ => none
  | fuel + 1, used, cname =>
    if (used.get cname).isSome then
      match used.get value with
      | none => none
      | some c => uniqLoop f value fuel (used.set value (c + 1)) (f.name (some (c + 1)))
    else some (cname, used.set cname 1)

def uniq (f : Fmt) (used : Used) : Option (Bytes × Used) :=
  let v := f.name none
  uniqLoop f v (used.length + 2) used v

/-! ## `new_const_cname`: cleaning of the value -/

def isDigit (c : Nat) : Bool := 48 ≤ c && c ≤ 57
def isAlpha (c : Nat) : Bool := (65 ≤ c && c ≤ 90) || (97 ≤ c && c ≤ 122)
def isAlnum (c : Nat) : Bool := isDigit c || isAlpha c
def isWord (c : Nat) : Bool := isAlnum c || c == 95

/-- `re.compile(r'[^a-zA-Z0-9_]+').sub('_', s)`: every maximal run of other characters becomes one `_`. -/
def collapse : Bytes → Bool → Bytes
  | [], _ => []
  | c :: rest, inRun =>
    if isWord c then c :: collapse rest false
    else if inRun then collapse rest true else 95 :: collapse rest true

def stripUs (l : Bytes) : Bytes :=
  ((l.dropWhile (· == 95)).reverse.dropWhile (· == 95)).reverse

/-- `replace_identifier('_', bytes.decode('ASCII', 'ignore'))[:32].strip('_')` -/
def clean (b : Bytes) : Bytes :=
  stripUs ((collapse (b.filter (· < 128)) false).take 32)

def constFmt (value : Bytes) : Fmt := { pre := value, sepOn := true, post := [] }

/-- naming prefixes, read from `Naming.py` by the harness (`const_prefix`, `interned_prefixes['str']`,
`py_const_prefix`, `interned_prefixes['int']`, `interned_prefixes['float']`). -/
structure Prefixes where
  k : Bytes
  n : Bytes
  kp : Bytes
  int : Bytes
  float : Bytes
  deriving Repr

/-- `new_string_const_cname`: the suffix after `const_prefix`, and the new counter map. -/
def newStrSuffix (used : Used) (bytes : Bytes) : Option (Bytes × Used) :=
  uniq (constFmt (clean bytes)) used

/-! ## string constants -/

/-- `PyStringConst` plus the key `(intern, is_unicode, encoding_key)` under which it is stored. -/
structure PyS where
  cname : Bytes
  intern : Bool
  isUni : Bool
  encKey : Option Bytes
  deriving Repr, DecidableEq

/-- `StringConst`: `suffix` = cname without `const_prefix`; `textIsBytes` = `isinstance(self.text, bytes)` of the
text that created the entry; `uniIdent` = verdict of `possible_unicode_identifier` on that text (Unicode `\w` is not
modelled: an abstract input, cross-checked for ASCII texts); `py` in dict insertion order. -/
structure SC where
  suffix : Bytes
  bytes : Bytes
  textIsBytes : Bool
  uniIdent : Bool
  cUsed : Bool
  py : List PyS
  deriving Repr, DecidableEq

/-- `(?![0-9])\w+$` with `.match` on ASCII word characters (`$` also matches before one trailing newline). -/
def asciiIdent (l : Bytes) : Bool :=
  let core := if l.getLast? == some 10 then l.dropLast else l
  match core with
  | [] => false
  | c :: _ => core.all isWord && !isDigit c

inductive Ident where | yes | auto | no
  deriving Repr, DecidableEq

def lower (l : Bytes) : Bytes := l.map (fun c => if 65 ≤ c && c ≤ 90 then c + 32 else c)

def s2b (s : String) : Bytes := s.toList.map Char.toNat
def b2s (b : Bytes) : String := String.ofList (b.map Char.ofNat)

def plainEncodings : List Bytes := ["utf8", "utf-8", "ascii", "usascii", "us-ascii"].map s2b

/-- `(is_unicode, encoding_key)` of `StringConst.get_py_string_const(encoding, identifier)`. -/
def uniAndKey (enc : Option Bytes) (ident : Ident) : Bool × Option Bytes :=
  match ident, enc with
  | .yes, _ => (true, none)
  | _, none => (true, none)
  | _, some e =>
    let e := lower e
    if plainEncodings.contains e then (false, none)
    else (false, some (e.filter isAlnum))   -- ''.join(find_alphanums(encoding)); '' is falsy in the cname

def internOf (sc : SC) (ident : Ident) : Bool :=
  match ident with
  | .yes => true
  | .no => false
  | .auto => if sc.textIsBytes then asciiIdent sc.bytes else sc.uniIdent

def pyCname (p : Prefixes) (sc : SC) (intern isUni : Bool) (encKey : Option Bytes) : Bytes :=
  (if intern then p.n else p.kp) ++ [if isUni then 117 else 98] ++
  (match encKey with
   | some k => if k.isEmpty then [] else 95 :: k
   | none => []) ++ [95] ++ sc.suffix

/-- `StringConst.get_py_string_const`: returns the constant and the updated entry. -/
def SC.getPy (p : Prefixes) (sc : SC) (enc : Option Bytes) (ident : Ident) : PyS × SC :=
  let (isUni, encKey) := uniAndKey enc ident
  let intern := internOf sc ident
  match sc.py.find? (fun q => q.intern == intern && q.isUni == isUni && q.encKey == encKey) with
  | some q => (q, sc)
  | none =>
    let q : PyS := { cname := pyCname p sc intern isUni encKey, intern, isUni, encKey }
    (q, { sc with py := sc.py ++ [q] })

/-- `GlobalState` as far as string constants go: the counter map and `string_const_index` in insertion order. -/
structure Pool where
  used : Used
  strs : List SC
  deriving Repr

inductive TextKind where | uni | enc | byt      -- EncodedString(unicode) / EncodedString(with encoding) / BytesLiteral
  deriving Repr, DecidableEq

structure Req where
  bytes : Bytes              -- `text.utf8encode()` / `text.byteencode()`
  kind : TextKind
  enc : Option Bytes         -- `text.encoding`
  uniIdent : Bool
  py : Option Ident          -- `none`: `get_string_const(text)` (c_used=True); `some i`: `get_py_string_const(text, i)`
  deriving Repr, DecidableEq

def updateAt (l : List SC) (bytes : Bytes) (f : SC → SC) : List SC :=
  l.map (fun sc => if sc.bytes == bytes then f sc else sc)

/-- `get_string_const`: find by byte string or create (fresh cname). `none` = fuel (does not happen). -/
def Pool.getStr (pool : Pool) (r : Req) : Option (SC × Pool) :=
  match pool.strs.find? (·.bytes == r.bytes) with
  | some sc => some (sc, pool)
  | none =>
    match newStrSuffix pool.used r.bytes with
    | none => none
    | some (suffix, used) =>
      let sc : SC := { suffix, bytes := r.bytes, textIsBytes := r.kind == .byt, uniIdent := r.uniIdent, cUsed := false, py := [] }
      some (sc, { used, strs := pool.strs ++ [sc] })

/-- one request; the answer is the cname handed to the caller -/
def Pool.step (p : Prefixes) (pool : Pool) (r : Req) : Option (Bytes × Pool) :=
  match pool.getStr r with
  | none => none
  | some (sc, pool) =>
    match r.py with
    | none => some (p.k ++ sc.suffix, { pool with strs := updateAt pool.strs r.bytes (fun s => { s with cUsed := true }) })
    | some ident =>
      let (q, sc') := sc.getPy p r.enc ident
      some (q.cname, { pool with strs := updateAt pool.strs r.bytes (fun s => { s with py := sc'.py }) })

def Pool.run (p : Prefixes) : Pool → List Req → Option (List Bytes × Pool)
  | pool, [] => some ([], pool)
  | pool, r :: rs =>
    match pool.step p r with
    | none => none
    | some (c, pool') =>
      match Pool.run p pool' rs with
      | none => none
      | some (cs, pool'') => some (c :: cs, pool'')

/-! ### `generate_string_constants` / ordering part of `generate_pystring_constants` -/

def scKey (sc : SC) : Key := [[sc.suffix.length], sc.suffix]     -- (len(cname), cname): the common prefix does not matter

/-- a Python string constant paired with the byte string of its `StringConst` -/
abbrev PyRow := PyS × Bytes

def uKey (r : PyRow) : Key := [[if r.1.intern && r.1.isUni then 1 else 0], r.2]   -- itemgetter(0, 2)
def bKey (r : PyRow) : Key := [r.2, r.1.cname]                                    -- (bytes, cname)

structure StrTable where
  cConsts : List Bytes          -- suffixes of the `static const char __pyx_k_…[]` declarations, in order
  uni : List Bytes              -- cnames of `#define … __pyx_string_tab[i]`, text strings
  firstInterned : Option Nat
  byt : List Bytes              -- … byte strings (continue the numbering)
  deriving Repr, DecidableEq

def pyRows (scs : List SC) : List PyRow := scs.flatMap (fun sc => sc.py.map (fun q => (q, sc.bytes)))

def emitStrings (index : List SC) : StrTable :=
  let scs := sortBy scKey index
  let c := sortBy scKey (scs.filter (·.cUsed))
  let rows := pyRows scs
  let u := sortBy uKey (rows.filter (·.1.isUni))
  let b := sortBy bKey (rows.filter (fun r => !r.1.isUni))
  { cConsts := c.map (·.suffix), uni := u.map (·.1.cname),
    firstInterned := let i := u.findIdx (fun r => r.1.intern); if i < u.length then some i else none,
    byt := b.map (·.1.cname) }

/-! ## numeric constants -/

inductive NumType where | float | int | long     -- 'float' < 'int' < 'long' as Python strings
  deriving Repr, DecidableEq

def NumType.code : NumType → Bytes
  | .float => s2b "float" | .int => s2b "int" | .long => s2b "long"

structure NumC where
  cname : Bytes
  value : Bytes
  ty : NumType
  deriving Repr, DecidableEq

structure NumPool where
  used : Used
  nums : List NumC       -- `num_const_index.values()` in insertion order
  deriving Repr

def replaceAll (l : Bytes) (c : Nat) (by_ : Bytes) : Bytes := l.flatMap (fun x => if x == c then by_ else [x])

/-- `new_num_const_cname` -/
def newNumCname (p : Prefixes) (used : Used) (value : Bytes) (ty : NumType) : Option (Bytes × Used) :=
  let (value, pre) := match ty with
    | .long => (value ++ [76], p.int)
    | .int => (value, p.int)
    | .float => (value, p.float)
  let v := replaceAll (replaceAll (replaceAll value 46 [95]) 43 [95]) 45 (s2b "neg_")
  if v.length > 42 then
    uniq { pre := pre ++ s2b "large", sepOn := false, post := [95] ++ v.take 18 ++ s2b "_xxx_" ++ v.drop (v.length - 18) } used
  else some (pre ++ v, used)

def NumPool.step (p : Prefixes) (pool : NumPool) (value : Bytes) (ty : NumType) : Option (Bytes × NumPool) :=
  match pool.nums.find? (fun c => c.value == value && c.ty == ty) with
  | some c => some (c.cname, pool)
  | none =>
    match newNumCname p pool.used value ty with
    | none => none
    | some (cname, used) => some (cname, { used, nums := pool.nums ++ [{ cname, value, ty }] })

def NumPool.run (p : Prefixes) : NumPool → List (Bytes × NumType) → Option (List Bytes × NumPool)
  | pool, [] => some ([], pool)
  | pool, (v, t) :: rs =>
    match pool.step p v t with
    | none => none
    | some (c, pool') =>
      match NumPool.run p pool' rs with
      | none => none
      | some (cs, pool'') => some (c :: cs, pool'')

def lstripNeg (v : Bytes) : Bytes := v.dropWhile (· == 45)

/-- `(c.py_type, len(c.value.lstrip('-')), c.value.lstrip('-'), c.value)`; the remaining tuple items
(`value_code`, `c`) are never compared because `(value, py_type)` is the dict key. -/
def numKey (c : NumC) : Key := [c.ty.code, [(lstripNeg c.value).length], lstripNeg c.value, c.value]

/-- decimal value of an int constant string (`Utils.str_to_number` on what `IntNode` passes); `none` = not modelled -/
def decValue (v : Bytes) : Option Nat :=
  let d := lstripNeg v
  if d.isEmpty || !d.all isDigit || (v.length - d.length > 1) then none
  else some (d.foldl (fun acc c => acc * 10 + (c - 48)) 0)

/-- `number_value.bit_length() <= 63` -/
def fits63 (c : NumC) : Bool :=
  match decValue c.value with
  | some n => n < 2 ^ 63
  | none => false

structure NumTable where
  floats : List Bytes
  ints : List Bytes
  large : List Bytes
  deriving Repr, DecidableEq

/-- `#define cname __pyx_number_tab[i]` order: floats, then the <=63-bit ints (all byte-size buckets are
consecutive slices of the sorted list), then the large ints. -/
def emitNums (index : List NumC) : NumTable :=
  let s := sortBy numKey index
  { floats := (s.filter (·.ty == .float)).map (·.cname),
    ints := (s.filter (fun c => c.ty != .float && fits63 c)).map (·.cname),
    large := (s.filter (fun c => c.ty != .float && !fits63 c)).map (·.cname) }

/-! ## `use_utility_code`: a set for membership, emission at first use -/

/-- `seen` models the Python `set` `utility_codes`; `front` chooses where a new element is stored
(any internal order of the set): the result must not depend on it. -/
def useAll (front : Bool) : List Nat → List Nat → List Nat → List Nat
  | [], _, out => out.reverse
  | u :: rest, seen, out =>
    if seen.contains u then useAll front rest seen out
    else useAll front rest (if front then u :: seen else seen ++ [u]) (u :: out)

/-- specification: first occurrences in request order -/
def firstUse : List Nat → List Nat → List Nat
  | [], _ => []
  | u :: rest, before => if before.contains u then firstUse rest before else u :: firstUse rest (u :: before)

/-! ## `ModuleNode.sort_types_by_inheritance` -/

/-- `type_dict` as an association list key ↦ key of the base type (`none`: no base type). -/
abbrev TypeDict := List (Nat × Option Nat)

/-- the `while base:` walk for one `key`: every base key on the chain gets `key` appended to its subclass list -/
def walkBases (base : Nat → Option (Option Nat)) (key : Nat) : Nat → Option Nat → List (Nat × Nat) → List (Nat × Nat)
  | 0, _, acc => acc
  | _, none, acc => acc
  | fuel + 1, some b, acc =>
    let acc := acc ++ [(b, key)]
    match base b with
    | none => acc                 -- base_entry is None: break
    | some nb => walkBases base key fuel nb acc

/-- `subclasses` as the list of `(base_key, subclass_key)` in append order -/
def subclassPairs (base : Nat → Option (Option Nat)) (fuel : Nat) (order : List Nat) : List (Nat × Nat) :=
  order.foldl (fun acc key =>
    match base key with
    | none => acc                 -- KeyError in the real code; callers build order from the dict
    | some b => walkBases base key fuel b acc) []

def childrenOf (pairs : List (Nat × Nat)) (k : Nat) : List Nat := (pairs.filter (·.1 == k)).map (·.2)

/-- recursive `dfs(u)`; state = (`seen` as a list used for membership, `result`) -/
def dfs (pairs : List (Nat × Nat)) : Nat → Nat → List Nat × List Nat → List Nat × List Nat
  | 0, _, st => st
  | fuel + 1, u, (seen, result) =>
    if seen.contains u then (seen, result)
    else
      let st := (childrenOf pairs u).foldl (fun st v => dfs pairs fuel v st) (u :: seen, result)
      (st.1, st.2 ++ [u])

def sortTypesFn (base : Nat → Option (Option Nat)) (fuel : Nat) (order : List Nat) : List Nat :=
  let pairs := subclassPairs base fuel order
  let st := order.reverse.foldl (fun st k => dfs pairs fuel k st) ([], [])
  st.2.reverse

def sortTypes (d : TypeDict) (order : List Nat) : List Nat :=
  sortTypesFn (fun k => d.lookup k) (d.length + order.length + 1) order

/-! ## line protocol -/

def joinB (l : List Bytes) : String := ",".intercalate (l.map b2s)

def parseIdent? : String → Option (Option Ident)
  | "c" => some none | "T" => some (some .yes) | "N" => some (some .auto) | "F" => some (some .no) | _ => none

def parseKind? : String → Option TextKind
  | "u" => some .uni | "e" => some .enc | "b" => some .byt | _ => none

def parseReq? (tok : String) : Option Req :=
  match tok.splitOn "," with
  | [hx, kd, enc, ui, op] =>
    match parseHexBytes hx, parseKind? kd, parseIdent? op with
    | some bytes, some kind, some py =>
      let enc := if enc == "-" then none else some (s2b enc)
      if ui != "0" && ui != "1" then none
      -- consistency of the inputs (never default silently): a unicode text has no encoding, the others have one;
      -- for ASCII texts the abstract unicode-identifier verdict must agree with the modelled ASCII regex
      else if (kind == .uni) != enc.isNone then none
      else if bytes.all (· < 128) && (ui == "1") != asciiIdent bytes then none
      else some { bytes, kind, enc, uniIdent := ui == "1", py }
    | _, _, _ => none
  | _ => none

def parseAll {α β : Type} (f : α → Option β) : List α → Option (List β)
  | [] => some []
  | x :: xs => match f x, parseAll f xs with
    | some y, some ys => some (y :: ys)
    | _, _ => none

def showStrTable (t : StrTable) : String :=
  s!"C={joinB t.cConsts} U={joinB t.uni} I={match t.firstInterned with | some i => toString i | none => "-1"} B={joinB t.byt}"

def parseNumReq? (tok : String) : Option (Bytes × NumType) :=
  match tok.splitOn "," with
  | [v, "i"] => some (s2b v, .int) | [v, "l"] => some (s2b v, .long) | [v, "f"] => some (s2b v, .float)
  | _ => none

def parseNats? (s : String) : Option (List Nat) :=
  if s == "-" then some [] else parseAll parseNat? (s.splitOn ",")

def parseDict? (s : String) : Option TypeDict :=
  if s == "-" then some [] else
  parseAll (fun (t : String) => match t.splitOn ":" with
    | [k, "-"] => (parseNat? k).map (fun k => (k, none))
    | [k, b] => match parseNat? k, parseNat? b with
      | some k, some b => some (k, some b)
      | _, _ => none
    | _ => none) (s.splitOn ";")

def showNats (l : List Nat) : String := if l.isEmpty then "-" else ",".intercalate (l.map toString)

def handle : List String → String
  | "strings" :: k :: n :: kp :: reqs =>
    match parseAll parseReq? reqs with
    | none => "bad-op"
    | some rs =>
      let p : Prefixes := { k := s2b k, n := s2b n, kp := s2b kp, int := [], float := [] }
      match Pool.run p { used := [], strs := [] } rs with
      | none => "err fuel"
      | some (cs, pool) => s!"ok R={joinB cs} {showStrTable (emitStrings pool.strs)}"
  | "nums" :: pi :: pf :: reqs =>
    match parseAll parseNumReq? reqs with
    | none => "bad-op"
    | some rs =>
      -- ints must be decimal (what the model can place in a bucket)
      if rs.any (fun r => r.2 != .float && (decValue r.1).isNone) then "bad-op" else
      let p : Prefixes := { k := [], n := [], kp := [], int := s2b pi, float := s2b pf }
      match NumPool.run p { used := [], nums := [] } rs with
      | none => "err fuel"
      | some (cs, pool) =>
        let t := emitNums pool.nums
        s!"ok R={joinB cs} F={joinB t.floats} I={joinB t.ints} L={joinB t.large}"
  | ["util", fr, ids] =>
    match parseNats? ids with
    | some l => if fr == "0" || fr == "1" then "ok " ++ showNats (useAll (fr == "1") l [] []) else "bad-op"
    | none => "bad-op"
  | ["tsort", d, order] =>
    match parseDict? d, parseNats? order with
    | some d, some o =>
      if o.all (fun k => (d.lookup k).isSome) then "ok " ++ showNats (sortTypes d o) else "err KeyError"
    | _, _ => "bad-op"
  | ["clean", hx] =>
    match parseHexBytes hx with
    | some b => "ok " ++ b2s (clean b)
    | none => "bad-op"
  | _ => "bad-op"

end CyVerif.C42

import CyVerif.Model.C23
/-!
Model of Cython's generator object: `__Pyx_Coroutine_SendEx`, `__Pyx_Coroutine_AmSend` / `__Pyx_Coroutine_Send`,
`__Pyx_Generator_Next`, `__Pyx_Coroutine_SendToDelegate`, `__Pyx_Coroutine_FinishDelegation`,
`__Pyx__Coroutine_Throw`, `__Pyx_Coroutine_CloseIter`, `__Pyx_Coroutine_Close`, `__Pyx_Coroutine_del` +
`__Pyx_Coroutine_dealloc` (Cython/Utility/Coroutine.c), `__Pyx_Generator_Yield_From`, and the frame of the
generated body (GeneratorBodyDefNode: resume switch, first-run check of the sent value, error exit with
`__Pyx_Generator_Replace_StopIteration`, `resume_label = -1` + `__Pyx_Coroutine_clear` at every exit).

`resume_label`: 0 = `created`, > 0 = `suspended` (which yield point is part of the body state), -1 = `finished`.
The flags select the code as it is (all `false`) or as repaired (see Props/C23.lean).
-/
namespace CyVerif.C23

inductive Label where
  | created | suspended | finished
  deriving DecidableEq, Repr

inductive CyObj (σ ι : Type) where
  | null
  | opq (o : ι)
  | gen (label : Label) (running : Bool) (st : σ) (yf : CyObj σ ι)

structure Flags where
  fixA : Bool := false     -- first-run check of the sent value done before the body runs (generator stays startable)
  fixB : Bool := false     -- close() accepts any return value of the body
  fixC : Bool := false     -- throw() into an unstarted generator bypasses the PEP 479 conversion
  coro : Bool := false     -- coroutine object instead of generator
  deriving DecidableEq, Repr

namespace CyObj
variable {σ ι : Type}
def setRunning (b : Bool) : CyObj σ ι → CyObj σ ι
  | .gen l _ st yf => .gen l b st yf
  | o => o
def yieldfrom : CyObj σ ι → CyObj σ ι
  | .gen _ _ _ yf => yf
  | _ => .null
end CyObj

section
variable {σ ι : Type} (fl : Flags) (B : Body σ ι) (O : OpqSem ι)

abbrev CyRec (σ ι : Type) := CyObj σ ι → Req → R (CyObj σ ι)

def cyDiv (l : List Ev) : R (CyObj σ ι) := ⟨.div, .null, l, []⟩

/-- `__Pyx_Coroutine_unset_is_running` applied to the object of a result -/
def cyUnset (r : R (CyObj σ ι)) : R (CyObj σ ι) := { r with obj := r.obj.setRunning false }

def cyMkSub : Desc σ ι → CyObj σ ι
  | .gen s0 => .gen .created false s0 .null
  | .opq o => .opq o

def cyProbe : CyObj σ ι → Out
  | .gen l run _ yf => .probed run (l = .finished) (match yf with | .null => true | _ => false)
  | _ => .probed false true true

/-- a Python-level method call (used by the history runner) -/
def cyMethod (rec : CyRec σ ι) (obj : CyObj σ ι) : Op → Out × CyObj σ ι × List Ev
  | .probe => (cyProbe obj, obj, [])
  | op => let r := rec obj (reqOfOp op); (outOfOp op r.out, r.obj, r.log)

/-- the generated body function from its resume switch to the next `return` -/
def cyBody (rec : CyRec σ ι) (l : Label) (st : σ) (inp : Input) : R (CyObj σ ι) :=
  let ts := B.resume st inp
  R.pre (tags ts.1) [] <| match ts.2 with
  | .yield v s => ⟨.next v, .gen .suspended true s .null, [], []⟩
  | .ret v => ⟨.ret v, .gen .finished true st .null, [], []⟩
  | .raise e => ⟨.err (pep479 e), .gen .finished true st .null, [], []⟩
  | .delegate d s =>
    -- __Pyx_Generator_Yield_From: tp_iter, first tp_iternext, __Pyx_Coroutine_status_from_result
    R.bind .null ((rec (cyMkSub d) .next).mapOut statusFromResult) fun o sub =>
      match o with
      | .next v => ⟨.next v, .gen .suspended true s sub, [], []⟩
      | .ret v =>       -- Py_DECREF(source_gen), the expression has the value v
        R.bind .null (rec sub .del) fun _ _ => rec (.gen l true s .null) (.cont (.send v))
      | .err e =>
        R.bind .null (rec sub .del) fun _ _ => rec (.gen l true s .null) (.cont (.throw e))
      | .div => cyDiv []
  | .reenter op s =>
    match op with
    | .probe => rec (.gen l true s .null) (.cont (.reent (cyProbe (.gen l true st .null : CyObj σ ι))))
    | _ =>
      R.bind .null (rec (.gen l true st .null) (reqOfOp op)) fun o _ =>
        rec (.gen l true s .null) (.cont (.reent (outOfOp op o)))

/-- `__Pyx_Coroutine_SendEx(self, value, closing)`; `inp = throw e` stands for `value == NULL` with `e` pending.
The caller has set `is_running`; `yieldfrom` is NULL. -/
def cySendEx (rec : CyRec σ ι) (l : Label) (st : σ) (inp : Input) (closing : Bool) : R (CyObj σ ι) :=
  match l with
  | .finished =>
    -- __Pyx_Coroutine_AlreadyTerminatedError
    if fl.coro && !closing then ⟨.err (.runtimeError .reuse), .gen l true st .null, [], []⟩
    else match inp with
      | .throw e => ⟨.err e, .gen l true st .null, [], []⟩
      | _ => ⟨.err (.stopIteration 0), .gen l true st .null, [], []⟩
  | .created =>
    match inp with
    | .send v =>
      if v = 0 then cyBody B rec l st inp
      else if fl.fixA then ⟨.err (.typeError .justStarted), .gen l true st .null, [], []⟩
      -- as generated: the check sits at the first-run label of the body, `goto error` terminates the generator
      else ⟨.err (.typeError .justStarted), .gen .finished true st .null, [], []⟩
    | .throw e =>
      -- first-run label: sent_value == NULL → error exit (with the PEP 479 replacement)
      ⟨.err (if fl.fixC then e else pep479 e), .gen .finished true st .null, [], []⟩
    | .reent _ => cyBody B rec l st inp
  | .suspended => cyBody B rec l st inp

/-- `__Pyx_Coroutine_Undelegate` (Py_CLEAR of the delegate `sub`, a no-op on NULL) followed by
`__Pyx_Coroutine_SendEx`; `is_running` is still set in the result -/
def cyResume (rec : CyRec σ ι) (l : Label) (st : σ) (sub : CyObj σ ι) (inp : Input) (closing : Bool) : R (CyObj σ ι) :=
  match sub with
  | .null => cySendEx fl B rec l st inp closing
  | _ => R.bind .null (rec sub .del) fun _ _ => cySendEx fl B rec l st inp closing

/-- the tail of `__Pyx_Coroutine_FinishDelegation` / `__Pyx_Coroutine_SendToDelegate` / the throw paths:
undelegate, resume the body, unset is_running -/
def cyFinish (rec : CyRec σ ι) (l : Label) (st : σ) (sub : CyObj σ ι) (inp : Input) : R (CyObj σ ι) :=
  cyUnset (cyResume fl B rec l st sub inp false)

def alreadyRunning (obj : CyObj σ ι) : R (CyObj σ ι) := ⟨.err (.valueError .alreadyExecuting), obj, [], []⟩

/-- `__Pyx_Coroutine_AmSend` -/
def cyAmSend (rec : CyRec σ ι) (l : Label) (run : Bool) (st : σ) (yf : CyObj σ ι) (v : Val) : R (CyObj σ ι) :=
  if run then alreadyRunning (.gen l run st yf) else
  match yf with
  | .null => cyUnset (cySendEx fl B rec l st (.send v) false)
  | .opq o =>
    let c := opqSend O o v
    R.pre (tags c.1) [] <| match c.2.1 with
    | .val x => ⟨.next x, .gen l false st (.opq c.2.2), [], []⟩
    | .exc e => cyFinish fl B rec l st (.opq c.2.2) (inputOfExc e)
  | _ =>
    -- __Pyx_Coroutine_SendToDelegate through the delegate's am_send slot
    R.bind .null (rec yf (.send v)) fun o sub =>
      match o with
      | .next x => ⟨.next x, .gen l false st sub, [], []⟩
      | .ret x => cyFinish fl B rec l st sub (.send x)
      | .err e => cyFinish fl B rec l st sub (.throw e)
      | .div => cyDiv []

/-- `__Pyx_Coroutine_CloseIter`: status `err e` = close() raised `e` -/
def cyCloseIter (rec : CyRec σ ι) (yf : CyObj σ ι) : R (CyObj σ ι) :=
  match yf with
  | .opq o =>
    match O.close o with
    | none => ⟨.ret 0, yf, [], []⟩
    | some c => ⟨(match c.2.1 with | some e => .err e | none => .ret 0), .opq c.2.2, tags c.1, []⟩
  | _ => (rec yf .close).mapOut closeStatus

/-- `__Pyx__Coroutine_Throw(self, typ, …, close_on_genexit = 1)` followed by `__Pyx_Coroutine_MethodReturn` -/
def cyThrow (rec : CyRec σ ι) (l : Label) (run : Bool) (st : σ) (yf : CyObj σ ι) (e : Exc) : R (CyObj σ ι) :=
  if run then alreadyRunning (.gen l run st yf) else
  match yf with
  | .null => (cyUnset (cySendEx fl B rec l st (.throw e) false)).mapOut methodReturn
  | _ =>
    if e = .generatorExit then
      -- err < 0: propagate_exception, else throw_here
      (R.bind .null (cyCloseIter O rec yf) fun o sub => cyFinish fl B rec l st sub (.throw (excOfStatus e o))).mapOut methodReturn
    else match yf with
      | .opq o =>
        match O.throw o with
        | none => (cyFinish fl B rec l st yf (.throw e)).mapOut methodReturn     -- no throw attribute: throw_here
        | some f =>
          let c := f e
          R.pre (tags c.1) [] <| match c.2.1 with
          | .val x => ⟨.next x, .gen l false st (.opq c.2.2), [], []⟩
          | .exc e' => (cyFinish fl B rec l st (.opq c.2.2) (inputOfExc e')).mapOut methodReturn
      | _ =>
        R.bind .null (rec yf (.throw e)) fun o sub =>
          match o with
          | .next x => ⟨.next x, .gen l false st sub, [], []⟩
          | .ret x => (cyFinish fl B rec l st sub (.send x)).mapOut methodReturn
          | .err e' => (cyFinish fl B rec l st sub (inputOfExc e')).mapOut methodReturn
          | .div => cyDiv []

/-- the end of `__Pyx_Coroutine_Close`: what the body answered to GeneratorExit -/
def cyCloseResult (r : R (CyObj σ ι)) : R (CyObj σ ι) :=
  match r.out with
  | .div => cyUnset r
  | .err e =>
    if e = .generatorExit ∨ e.isStop.isSome then cyUnset { r with out := .ret 0 }
    else cyUnset r
  | .ret v =>
    if v = 0 ∨ fl.fixB then cyUnset r
    else cyUnset { r with out := .err (.runtimeError .ignoredExit) }
  | .next _ => cyUnset { r with out := .err (.runtimeError .ignoredExit) }

/-- `__Pyx_Coroutine_Close` (`ret v` = PYGEN_RETURN) -/
def cyClose (rec : CyRec σ ι) (l : Label) (run : Bool) (st : σ) (yf : CyObj σ ι) : R (CyObj σ ι) :=
  if run then alreadyRunning (.gen l run st yf) else
  cyCloseResult fl <|
    match yf with
    | .null => cySendEx fl B rec l st (.throw .generatorExit) true
    | _ =>
      -- close the delegate, __Pyx_Coroutine_Undelegate, then GeneratorExit (or the error of close()) goes into the body
      R.bind .null (cyCloseIter O rec yf) fun o sub =>
        cyResume fl B rec l st sub (.throw (excOfStatus .generatorExit o)) true

/-- `__Pyx_Coroutine_dealloc`: tp_finalize (`__Pyx_Coroutine_del`) then `__Pyx_Coroutine_clear` -/
def cyDel (rec : CyRec σ ι) (l : Label) (run : Bool) (st : σ) (yf : CyObj σ ι) : R (CyObj σ ι) :=
  match l with
  | .suspended =>
    R.bind .null ((cyClose fl B O rec l run st yf).mapOut closeStatus) fun o g =>
      R.pre (match o with | .err e => [Ev.unraisable e] | _ => []) [] <|
        R.bind .null (rec g.yieldfrom .del) fun _ _ => ⟨.ret 0, .null, [], []⟩
  | _ => R.bind .null (rec yf .del) fun _ _ => ⟨.ret 0, .null, [], []⟩

def cyF (rec : CyRec σ ι) : CyObj σ ι → Req → R (CyObj σ ι)
  | .null, _ => ⟨.ret 0, .null, [], []⟩
  | .opq o, .next => let c := O.next o; ⟨iresToRes c.2.1, .opq c.2.2, tags c.1, []⟩
  | .opq _, .del => ⟨.ret 0, .null, [], []⟩
  | .opq o, _ => ⟨.err .attributeError, .opq o, [], []⟩
  | .gen l run st yf, .send v => cyAmSend fl B O rec l run st yf v
  | .gen l run st yf, .next => (cyAmSend fl B O rec l run st yf 0).mapOut methodReturn    -- __Pyx_Generator_Next
  | .gen l run st yf, .throw e => cyThrow fl B O rec l run st yf e
  | .gen l run st yf, .close => (cyClose fl B O rec l run st yf).mapOut closeStatus   -- callers only test for an error
  | .gen l run st yf, .del => cyDel fl B O rec l run st yf
  | .gen l _ st _, .cont inp => cyBody B rec l st inp

def cyRun : Nat → CyObj σ ι → Req → R (CyObj σ ι)
  | 0 => fun _ _ => cyDiv []
  | n + 1 => cyF fl B O (cyRun n)

end
end CyVerif.C23

import CyVerif.Model.C50Scan
/-!
C50 line protocol: lexicon construction (`Lexicons.Lexicon.__init__`), the
`Scanner.read()` loop with the actions of `Actions.py`, parsers and printers.
-/
namespace CyVerif.C50

/-- `Actions.Return(v)`, `IGNORE`, `TEXT`, `Begin(name)` -/
inductive Act where
  | ret (v : Nat) | ignore | text | begin (name : String)
  deriving DecidableEq, Repr

/-- one token definition, tagged with the name of the state it belongs to (`""` = default state) -/
structure Rule where
  state : String
  act : Act
  re : RE

/-- `add_token_to_machine(machine, initial_state, token_spec, token_number)`;
the action is identified by `token_number - 1`. -/
def addToken (n : NFA) (init : Nat) (re : RE) (tokNum : Nat) : NFA :=
  let r := n.newState
  (re.build r.1 init r.2 true false).setAction r.2 (tokNum - 1) (-(tokNum : Int))

/-- the `for spec in specifications` loop; consecutive rules with the same non-default
state name form one `State(name, tokens)` item. `cur` = (name, initial state) of the open item. -/
def addRules : List Rule → NFA → Nat → Option (String × Nat) → Nat → NFA
  | [], n, _, _, _ => n
  | r :: rs, n, dflt, cur, tokNum =>
    if r.state = "" then addRules rs (addToken n dflt r.re tokNum) dflt none (tokNum + 1)
    else
      match cur with
      | some (nm, s) =>
        if nm = r.state then addRules rs (addToken n s r.re tokNum) dflt cur (tokNum + 1)
        else
          let i := n.newInitialState r.state
          addRules rs (addToken i.1 i.2 r.re tokNum) dflt (some (r.state, i.2)) (tokNum + 1)
      | none =>
        let i := n.newInitialState r.state
        addRules rs (addToken i.1 i.2 r.re tokNum) dflt (some (r.state, i.2)) (tokNum + 1)

/-- the NFA of `Lexicon(specifications)` -/
def lexiconNfa (rules : List Rule) : NFA :=
  let i := NFA.empty.newInitialState ""
  addRules rules i.1 i.2 none 1

def lookupInit (name : String) : List (String × Nat) → Option Nat
  | [] => none
  | (n, v) :: rest => if n = name then some v else lookupInit name rest

def showCodes (l : List Nat) : String := ".".intercalate (l.map toString)

def finishOut (acc : List String) (status : String) : String :=
  ",".intercalate acc ++ ";" ++ status

/-- repeated `read()` until `(None, '')`, an exception, or `cap` calls of `scan_a_token` -/
def readAll (fix : Bool) (d : Dfa) (inits : List (String × Nat)) (acts : List Act) (text : List Nat) :
    Nat → Nat → Cursor → List String → String
  | 0, _, _, acc => finishOut acc "cap"
  | cap + 1, q0, c, acc =>
    match scanToken fix d text q0 c with
    | .unrecognized => finishOut acc "err"
    | .eof _ => finishOut (acc ++ ["N:"]) "end"
    | .tok t a c' =>
      match acts[a]? with
      | some (.ret v) => readAll fix d inits acts text cap q0 c' (acc ++ [s!"v{v}:{showCodes t}"])
      | some .ignore => readAll fix d inits acts text cap q0 c' acc
      | some .text => readAll fix d inits acts text cap q0 c' (acc ++ [s!"t:{showCodes t}"])
      | some (.begin name) =>
        match lookupInit name inits with
        | some q => readAll fix d inits acts text cap q c' acc
        | none => finishOut acc "keyerr"
      | none => finishOut acc "bad-action"

/-! ### parsers -/

def parseCodes (s : String) : Option (List Nat) :=
  if s = "" then some [] else (s.splitOn ".").mapM (·.toNat?)

def dropFirst (s : String) : String := String.ofList (s.toList.drop 1)

def takeREs (p : List String → Option (RE × List String)) : Nat → List String → Option (List RE × List String)
  | 0, ts => some ([], ts)
  | k + 1, ts =>
    match p ts with
    | some (r, ts') =>
      match takeREs p k ts' with
      | some (rs, ts'') => some (r :: rs, ts'')
      | none => none
    | none => none

/-- prefix-notation RE parser over the Plex constructor API (fuel = number of tokens) -/
def parseRE (dd : Bool) : Nat → List String → Option (RE × List String)
  | 0, _ => none
  | _ + 1, [] => none
  | fuel + 1, t :: ts =>
    let arg := dropFirst t
    match t.toList.head? with
    | some 'c' => arg.toNat?.map fun c => (mkChar c, ts)
    | some 'B' => some (.sym .bol, ts)
    | some 'L' => some (.sym .eol, ts)
    | some 'F' => some (.sym .eof, ts)
    | some 'E' => some (mkEmpty, ts)
    | some 'D' => some (mkAnyBut dd [], ts)
    | some 's' => (parseCodes arg).map fun s => (mkStr1 s, ts)
    | some 'S' => ((arg.splitOn "/").mapM parseCodes).map fun ss => (mkStr ss, ts)
    | some 'a' => (parseCodes arg).map fun s => (mkAny dd s, ts)
    | some 'n' => (parseCodes arg).map fun s => (mkAnyBut dd s, ts)
    | some 'r' =>
      match parseCodes arg with
      | some [a, b] => some (mkRange2 a b, ts)
      | _ => none
    | some 'R' => (parseCodes arg).bind fun s => (mkRangeStr s).map fun r => (r, ts)
    | some 'q' => arg.toNat?.bind fun k => (takeREs (parseRE dd fuel) k ts).map fun p => (.seq (REs.ofList p.1), p.2)
    | some 'A' => arg.toNat?.bind fun k => (takeREs (parseRE dd fuel) k ts).map fun p => (.alt (REs.ofList p.1), p.2)
    | some 'P' => (parseRE dd fuel ts).map fun p => (.rep1 p.1, p.2)
    | some 'O' => (parseRE dd fuel ts).map fun p => (mkOpt p.1, p.2)
    | some 'T' => (parseRE dd fuel ts).map fun p => (mkRep p.1, p.2)
    | some 'I' => (parseRE dd fuel ts).map fun p => (.sw p.1 true, p.2)
    | some 'C' => (parseRE dd fuel ts).map fun p => (.sw p.1 false, p.2)
    | _ => none

def parseAct (s : String) : Option Act :=
  match s.toList.head? with
  | some 'v' => (dropFirst s).toNat?.map .ret
  | some 'i' => if s = "i" then some .ignore else none
  | some 't' => if s = "t" then some .text else none
  | some 'b' => some (.begin (dropFirst s))
  | _ => none

/-- `<state>:<act>:<re tokens separated by ','>` (`-` = default state) -/
def parseRule (dd : Bool) (s : String) : Option Rule :=
  match s.splitOn ":" with
  | [st, act, re] =>
    let toks := re.splitOn ","
    match parseAct act, parseRE dd (toks.length + 1) toks with
    | some a, some (r, []) => some ⟨if st = "-" then "" else st, a, r⟩
    | _, _ => none
  | _ => none

def parseLexicon (dd : Bool) (s : String) : Option (List Rule) := (s.splitOn ";").mapM (parseRule dd)

/-! ### printers (state numbers are printed 1-based, as `Node.number` / `state['number']`) -/

def showSet (s : SSet) : String := "{" ++ ".".intercalate (s.map fun x => toString (x + 1)) ++ "}"

def showSp : Sp → String
  | .eps => "e" | .bol => "b" | .eol => "l" | .eof => "f"

def showTMap (m : TMap) : String :=
  "[" ++ String.join (m.ents.map fun e => toString e.1 ++ showSet e.2) ++ toString m.last ++ "]+"
    ++ String.join (m.special.map fun p => showSp p.1 ++ showSet p.2)

def showEv : Ev → String
  | .range a b => s!"{a}_{b}"
  | .sp k => showSp k

def showItems (l : List (Ev × SSet)) : String := ",".intercalate (l.map fun p => showEv p.1 ++ showSet p.2)

def showOptNat : Option Nat → String
  | some a => toString a
  | none => "-"

def showNode (nd : Node) : String := showTMap nd.trans ++ "@" ++ showOptNat nd.action ++ "/" ++ toString nd.prio

def showInits (l : List (String × Nat)) : String :=
  ",".intercalate (l.map fun p => (if p.1 = "" then "-" else p.1) ++ "=" ++ toString (p.2 + 1))

def showNfa (n : NFA) : String := "|".intercalate (n.nodes.map showNode) ++ "#" ++ showInits n.inits

def showOptState : Option Nat → String
  | some a => toString (a + 1)
  | none => "-"

def showDState (st : DState) : String :=
  "a" ++ showOptNat st.action ++ ";e" ++ showOptState st.els ++ ";b" ++ showOptState st.bol
    ++ ";l" ++ showOptState st.eol ++ ";f" ++ showOptState st.eof ++ ";"
    ++ ",".intercalate (st.chars.map fun (c0, c1, t) => s!"{c0}_{c1}>{t + 1}")

def showDfa (sm : SMap) : String :=
  "|".intercalate (sm.states.map showDState) ++ "#" ++ showInits sm.inits
    ++ "#" ++ ",".intercalate (sm.keys.map showSet)

mutual
def showRE : RE → String
  | .raw a b => s!"raw({a},{b})"
  | .nl => "nl"
  | .sym k => "sym(" ++ showSp k ++ ")"
  | .seq rs => "seq(" ++ showREs rs ++ ")"
  | .alt rs => "alt(" ++ showREs rs ++ ")"
  | .rep1 r => "rep1(" ++ showRE r ++ ")"
  | .sw r nc => (if nc then "nocase(" else "case(") ++ showRE r ++ ")"
def showREs : REs → String
  | .nil => ""
  | .cons r rs => showRE r ++ "/" ++ showBits r ++ ";" ++ showREs rs
/-- the attributes `nullable`, `match_nl` of an element -/
def showBits (r : RE) : String := (if r.nullable then "1" else "0") ++ (if r.matchNl then "1" else "0")
end

/-! ### TransitionMap operation sequences (direct tie of `Transitions.py`) -/

def parseSp : String → Option Sp
  | "e" => some .eps | "b" => some .bol | "l" => some .eol | "f" => some .eof
  | _ => none

def parseSet (s : String) : Option SSet := (parseCodes s).map fun l => l.foldr sins []

/-- `a:c0:c1:s` add range, `A:c0:c1:set` add_set range, `s:k:s` add special, `S:k:set` add_set special -/
def applyOp (m : TMap) (op : String) : Option TMap :=
  match op.splitOn ":" with
  | ["a", a, b, s] =>
    match a.toInt?, b.toInt?, s.toNat? with
    | some a, some b, some s => some (m.add (.range a b) s)
    | _, _, _ => none
  | ["A", a, b, s] =>
    match a.toInt?, b.toInt?, parseSet s with
    | some a, some b, some s => some (m.addSet (.range a b) s)
    | _, _, _ => none
  | ["s", k, s] =>
    match parseSp k, s.toNat? with
    | some k, some s => some (m.add (.sp k) s)
    | _, _ => none
  | ["S", k, s] =>
    match parseSp k, parseSet s with
    | some k, some s => some (m.addSet (.sp k) s)
    | _, _ => none
  | _ => none

def applyOps : List String → TMap → Option TMap
  | [], m => some m
  | op :: ops, m =>
    match applyOp m op with
    | some m' => applyOps ops m'
    | none => none

/-- state sets are printed 0-based+1 like everywhere; lookups at the given codes follow -/
def tmapReport (m : TMap) (probes : List Int) : String :=
  showTMap m ++ " " ++ showItems m.items ++ " "
    ++ ",".intercalate (probes.map fun c => showSet (m.lookup c))
    ++ " " ++ (match m.getEpsilon with | some s => showSet s | none => "-")

def dfaFuel : Nat := 1000000

/-- variant word of the line protocol: two characters, `1x` = scan_a_token skips the implicit EOL at the
end of the input, `x1` = chars_to_ranges drops repeated characters (the two proposed repairs) -/
def variantEolFix (v : String) : Bool := v.toList.head? == some '1'
def variantDedup (v : String) : Bool := (v.toList.drop 1).head? == some '1'

def showDfaErr : DfaErr → String
  | .fuel => "ub model-fuel"
  | .valueError => "err ValueError"

def handle : List String → String
  | ["tmap", ops, probes] =>
    match applyOps (if ops = "-" then [] else ops.splitOn ",") TMap.empty,
          (if probes = "-" then some [] else (probes.splitOn ",").mapM (·.toInt?)) with
    | some m, some ps => "ok " ++ tmapReport m ps
    | _, _ => "bad-op"
  | ["re", v, lex] =>
    match parseLexicon (variantDedup v) lex with
    | some rules => "ok " ++ "|".intercalate (rules.map fun r => showRE r.re ++ "/" ++ showBits r.re)
    | none => "bad-op"
  | ["nfa", v, lex] =>
    match parseLexicon (variantDedup v) lex with
    | some rules => "ok " ++ showNfa (lexiconNfa rules)
    | none => "bad-op"
  | ["dfa", v, lex] =>
    match parseLexicon (variantDedup v) lex with
    | some rules =>
      match nfaToDfa (lexiconNfa rules) dfaFuel with
      | .ok sm => "ok " ++ showDfa sm
      | .error e => showDfaErr e
    | none => "bad-op"
  | "scan" :: v :: lex :: cap :: texts =>
    match parseLexicon (variantDedup v) lex, cap.toNat?, texts.mapM (fun t => if t = "-" then some [] else parseCodes t) with
    | some rules, some cap, some texts =>
      match nfaToDfa (lexiconNfa rules) dfaFuel with
      | .ok sm =>
        match lookupInit "" sm.inits with
        | some q0 =>
          "ok " ++ "|".intercalate (texts.map fun t =>
            readAll (variantEolFix v) sm.states sm.inits (rules.map (·.act)) t cap q0 Cursor.init [])
        | none => "bad-op"
      | .error e => showDfaErr e
    | _, _, _ => "bad-op"
  | _ => "bad-op"

end CyVerif.C50

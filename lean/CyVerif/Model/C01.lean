/-
C01 (partial): NAME RESOLUTION AND SCOPING of compiled pure-Python code.

Static part.  A program is summarised as a tree of scopes (module, def/lambda, class body,
inlined list/set/dict comprehension, generator expression); per scope the symbol facts both
compilers collect (parameters, bound names, `global` / `nonlocal` declarations, used names).

* REFERENCE  = CPython 3.12 `symtable.c` (`analyze_block` / `analyze_name`): the set of names bound in
  enclosing *function* scopes is passed DOWN (class bodies pass it through unchanged and do not add
  their own names; an explicit `global x` of a function removes `x` for its descendants), every name of
  a block is classified local / free(owner) / global, class-body locals use LOAD_NAME
  (class dict -> module dict -> builtins).
* CYTHON     = `Symtab.py`: every scope has an `entries` dict and an `outer_scope` pointer;
  `Scope.lookup` walks UP the chain (`lookup_here(name) or outer_scope.lookup(name)`);
  `FuncDefNode.create_local_scope` / `PyClassDefNode.create_scope` skip enclosing class scopes when they
  choose `outer_scope`, `ComprehensionScope(outer_scope)` does NOT (variant flag `compSkipsClass`);
  `declare_global` stores the module entry, `declare_nonlocal` stores the outer lookup
  (`InnerEntry`, whose `defining_entry` is the owner); a miss in the module scope is
  `declare_builtin` (resolved at compile time, cached at module init: `Bind.builtin`).
-/
namespace CyVerif.C01

abbrev Name := Nat
/-- scope identity: ids from the scope up to the module (innermost first) -/
abbrev Path := List Nat

/-- `func`: def or lambda; `comp`: list/set/dict comprehension (inlined by Cython, `ComprehensionScope`);
    `gen`: generator expression (a closure function in both). -/
inductive SK | modl | func | cls | comp | gen
  deriving DecidableEq, Repr, Inhabited

/-- what a name occurrence denotes at run time -/
inductive Bind
  | var (owner : Path)   -- variable (fast local / cell / closure-class field) of the activation of scope `owner`
  | glob                 -- module dict, then builtins (LOAD_GLOBAL / `__Pyx_GetModuleGlobalName`)
  | clsName              -- class dict, then module dict, then builtins (LOAD_NAME / `__Pyx_GetNameInClass`)
  | builtin              -- builtins only, resolved at compile time (`declare_builtin`, Cython only)
  deriving DecidableEq, Repr, Inhabited

structure Info where
  kind : SK
  params : List Name      -- parameters; for comp/gen: the loop variable
  assigned : List Name    -- bound by assignment / augmented assignment / del / def / class / hoisted walrus target
  globals : List Name
  nonlocals : List Name
  uses : List Name
  deriving Repr, Inhabited

mutual
inductive Scope | mk (id : Nat) (info : Info) (kids : Kids)
inductive Kids | nil | cons (s : Scope) (ks : Kids)
end

def Scope.kind : Scope → SK | .mk _ i _ => i.kind

structure Entry where
  path : Path
  name : Name
  bind : Bind
  deriving DecidableEq, Repr, Inhabited

def names (i : Info) : List Name := i.params ++ i.assigned ++ i.globals ++ i.nonlocals ++ i.uses
def isLocal (i : Info) (x : Name) : Bool := i.params.contains x || i.assigned.contains x
def localBind (k : SK) (p : Path) : Bind :=
  match k with | .modl => .glob | .cls => .clsName | _ => .var p

/-! ### REFERENCE: CPython symtable (environment passed down) -/
abbrev Env := List (Name × Path)

def envFind : Env → Name → Option Path
  | [], _ => none
  | (y, o) :: r, x => if y = x then some o else envFind r x

def envBind (b : Env) (x : Name) : Bind :=
  match envFind b x with | some o => .var o | none => .glob

/-- `analyze_name` -/
def refBind (p : Path) (i : Info) (b : Env) (x : Name) : Bind :=
  if i.globals.contains x then .glob                       -- DEF_GLOBAL: GLOBAL_EXPLICIT
  else if i.nonlocals.contains x then envBind b x          -- DEF_NONLOCAL: FREE (SyntaxError if not bound: outside fragment)
  else if isLocal i x then localBind i.kind p              -- DEF_BOUND: LOCAL (LOAD_NAME in class / module)
  else envBind b x                                         -- in `bound`: FREE, else GLOBAL_IMPLICIT

def ownLocals (i : Info) : List Name :=
  (i.params ++ i.assigned).filter (fun x => !i.globals.contains x && !i.nonlocals.contains x)

/-- `newbound` handed to the children of a block (`analyze_block`) -/
def refChildEnv (p : Path) (i : Info) (b : Env) : Env :=
  match i.kind with
  | .modl => []
  | .cls => b          -- class: `newbound |= bound` BEFORE its names are analysed; own names not added
  | _ => (ownLocals i).map (fun x => (x, p)) ++ b.filter (fun e => !i.globals.contains e.1)

mutual
def refScope (pp : Path) (b : Env) : Scope → List Entry
  | .mk id i ks =>
      (names i).map (fun x => ⟨id :: pp, x, refBind (id :: pp) i b x⟩)
        ++ refKids (id :: pp) (refChildEnv (id :: pp) i b) ks
def refKids (p : Path) (b : Env) : Kids → List Entry
  | .nil => []
  | .cons s ks => refScope p b s ++ refKids p b ks
end

/-! ### CYTHON: entries + outer_scope chain (walked up) -/
structure Variant where
  /-- `ComprehensionScope.lookup` skips enclosing Python class scopes (repaired) or not (current) -/
  compSkipsClass : Bool
  /-- bindings and `global`/`nonlocal` statements in statically dead code (`if <constant false>:` bodies,
      statements after `return`) still reach the symbol table (repaired), or are removed by
      `ConstantFolding` / `RemoveUnreachableCode` BEFORE `AnalyseDeclarationsTransform` (current) -/
  keepsDeadDecls : Bool
  /-- `del x` of an unbound module global raises NameError (repaired) or AttributeError (current:
      `__Pyx_PyObject_DelAttrStr(module, name)`) -/
  delGlobalNameError : Bool
  deriving DecidableEq, Repr, Inhabited

abbrev Chain := List (Path × Info)

/-- `Scope.lookup` from the head of the chain; `D` = names declared in the module scope -/
def cyLookup (D : List Name) : Chain → Name → Bind
  | [], x => if D.contains x then .glob else .builtin       -- ModuleScope miss: declare_builtin
  | (p, i) :: rest, x =>
      if i.globals.contains x then .glob                    -- entries[x] = global_scope().lookup_target(x)
      else if i.nonlocals.contains x then cyLookup D rest x -- entries[x] = InnerEntry(outer lookup)
      else if isLocal i x then localBind i.kind p           -- declare_arg / declare_var (is_pyclass_attr in a class)
      else cyLookup D rest x

/-- the chain a child scope of kind `ck` gets as `outer_scope` when created inside scope `(p,i)` -/
def cyChildChain (v : Variant) (ck : SK) (p : Path) (i : Info) (ch : Chain) : Chain :=
  match i.kind with
  | .modl => [(p, i)]
  | .cls => if ck = .comp && !v.compSkipsClass then (p, i) :: ch else ch
  | _ => (p, i) :: ch

mutual
def cyScope (v : Variant) (D : List Name) (pp : Path) (ch : Chain) : Scope → List Entry
  | .mk id i ks =>
      (names i).map (fun x => ⟨id :: pp, x, cyLookup D ((id :: pp, i) :: ch) x⟩)
        ++ cyKids v D (id :: pp) i ch ks
def cyKids (v : Variant) (D : List Name) (p : Path) (i : Info) (ch : Chain) : Kids → List Entry
  | .nil => []
  | .cons s ks => cyScope v D p (cyChildChain v s.kind p i ch) s ++ cyKids v D p i ch ks
end

-- names with an entry in the module scope: bound at module level or named by a `global` statement anywhere
mutual
def globalsOf : Scope → List Name
  | .mk _ i ks => i.globals ++ globalsOfKids ks
def globalsOfKids : Kids → List Name
  | .nil => []
  | .cons s ks => globalsOf s ++ globalsOfKids ks
end

def declOf : Scope → List Name
  | .mk id i ks => i.params ++ i.assigned ++ globalsOf (.mk id i ks)

def refAll (s : Scope) : List Entry := refScope [] [] s
def cyAll (v : Variant) (s : Scope) : List Entry := cyScope v (declOf s) [] [] s

/-- identify the compile-time builtin with the run-time global lookup -/
def norm : Bind → Bind | .builtin => .glob | b => b
def normE (e : Entry) : Entry := { e with bind := norm e.bind }

-- no inlined comprehension directly inside a class body
mutual
def noCompInCls : Scope → Bool
  | .mk _ i ks => noCompInClsKids (i.kind == .cls) ks
def noCompInClsKids (inCls : Bool) : Kids → Bool
  | .nil => true
  | .cons s ks => !(inCls && s.kind == .comp) && noCompInCls s && noCompInClsKids inCls ks
end

def current : Variant := ⟨false, false, false⟩
def repaired : Variant := ⟨true, true, true⟩

end CyVerif.C01

import CyVerif.Model.Util
/-!
# C11 — model of the C string-literal emission of `Cython/Compiler/StringEncoding.py`

Bytes and C source text are both `List Nat` (one number per byte; a *byte
string* is a list whose members are `< 256`).  Character codes used below:
`34 = '"'`, `39 = '\''`, `63 = '?'`, `92 = '\\'`, `10 = '\n'`, `48..55 = '0'..'7'`.

Modelled code (Python, as it exists):

* `_build_specials_replacer` — `re.sub` over an ordered alternation of literal
  byte patterns (`_c_special`), each replaced through a dict.  Model: `scan`
  over a **table** `List (pattern × replacement)` (leftmost position, first
  matching alternative).  The table is a parameter: the harness re-extracts it
  from the current source and kernel-checks `tableWF`.
* `_to_escape_sequence` — `toEscapeSequence`; `buildTable` builds the table
  from the `_c_special` tuple the way the source does.
* `escape_byte_string` — `esc`: `scan`, then either the plain ASCII decode or
  the `>= 127` octal pass.
* `split_string_literal(s, limit)` — `split`; the look-back constant `4` is the
  parameter `back`, the `4` of the all-backslash corner the parameter `corner`.
* `_split_characters` (Code.py, MSVC array form) — `splitCharacters`.
* `escape_char` — `escapeChar`.

Reference semantics (C99 5.1.1.2 phases 1, 2, 6 and 6.4.4.4 / 6.4.5):
`trigraphs`, `splice`, the escape-decoding automaton `step`/`run`, `cLex`
(a sequence of adjacent string literals) and `cCharLex` (one character
constant).
-/
namespace CyVerif.C11

/-! ## `_to_escape_sequence`, `_build_specials_replacer` -/

/-- `'\\%03o' % b` (three octal digits for `b < 512`). -/
def octal3 (b : Nat) : List Nat := [92, 48 + b / 64, 48 + b / 8 % 8, 48 + b % 8]

/-- `_to_escape_sequence(s)` on the members of `_c_special` (non-empty strings):
`\n \r \t` by `repr`, `"` and backslash by a backslash prefix, everything else
as three-digit octal escapes of every character. -/
def toEscapeSequence (s : List Nat) : List Nat :=
  if s = [10] then [92, 110]
  else if s = [13] then [92, 114]
  else if s = [9] then [92, 116]
  else if s = [10, 13] then [92, 110, 92, 114]      -- `s in '\n\r\t'` is a substring test
  else if s = [13, 9] then [92, 114, 92, 116]
  else if s = [10, 13, 9] then [92, 110, 92, 114, 92, 116]
  else if s = [34] then [92, 34]
  else if s = [92] then [92, 92]
  else s.flatMap octal3

/-- An ordered list of (pattern, replacement). -/
abbrev Table := List (List Nat × List Nat)

/-- `replacements[special] = _to_escape_sequence(special)` in `_c_special` order. -/
def buildTable (specials : List (List Nat)) : Table :=
  specials.map fun s => (s, toEscapeSequence s)

/-- `_c_special` at the pinned commit: backslash, `??`, `"`, `'`, then chr(0..31). -/
def pinnedSpecials : List (List Nat) :=
  [[92], [63, 63], [34], [39]] ++ (List.range 32).map fun c => [c]

def pinnedTable : Table := buildTable pinnedSpecials

/-- First alternative (in table order) that matches at the head of `s`. -/
def findEntry (tbl : Table) (s : List Nat) : Option (List Nat × List Nat) :=
  tbl.find? fun e => e.1.isPrefixOf s

/-- `re.sub` of the ordered alternation: at each position the first matching
pattern is replaced and skipped, otherwise the byte is copied.  The first
argument counts bytes of an already matched pattern still to be skipped. -/
def scan (tbl : Table) : Nat → List Nat → List Nat
  | _, [] => []
  | k + 1, _ :: rest => scan tbl k rest
  | 0, c :: rest =>
    match findEntry tbl (c :: rest) with
    | some e => e.2 ++ scan tbl (e.1.length - 1) rest
    | none => c :: scan tbl 0 rest

def replaceSpecials (tbl : Table) (s : List Nat) : List Nat := scan tbl 0 s

/-- The loop of `escape_byte_string` run after a failed ASCII decode. -/
def octPass (s : List Nat) : List Nat :=
  s.flatMap fun b => if b ≥ 127 then octal3 b else [b]

/-- `escape_byte_string`: plain ASCII result is returned as is (a raw DEL 127
survives!), otherwise every byte `>= 127` becomes a three-digit octal escape. -/
def esc (tbl : Table) (b : List Nat) : List Nat :=
  let s := replaceSpecials tbl b
  if s.all (· < 128) then s else octPass s

/-! ## `split_string_literal` -/

/-- The constants of `split_string_literal`: `limit`; `back` = the `4` of the look-back window
(`end-4`, `s[end-4:end]`, `4 - find`); `corner` = the `4` of the all-backslash corner
`end = start + limit - (limit % 2) - 4`. -/
structure SplitParams where
  limit : Nat
  back : Nat
  corner : Nat
  deriving Repr, DecidableEq

/-- What the proofs need from the constants: the look-back window reaches every position
that can lie strictly inside an escape (`\ooo` has 4 characters, so 3 back), the corner
constant is even (parity of `limit - limit % 2 - corner` inside a run of `\\` pairs), does
not jump past the window start, and leaves progress. -/
def SplitParams.WF (p : SplitParams) : Prop :=
  3 ≤ p.back ∧ p.corner % 2 = 0 ∧ p.back ≤ p.corner ∧ p.corner + 2 ≤ p.limit

instance (p : SplitParams) : Decidable p.WF := by unfold SplitParams.WF; infer_instance

/-- Number of backslashes at the end of `s`. -/
def trailingBackslashes (s : List Nat) : Nat := (s.reverse.takeWhile (· = 92)).length

/-- One round of the `while start < len(s)` loop, on `rest = s[start:]`:
the length of the next chunk (`end - start`).
```
end = start + limit
if len(s) > end-4 and '\\' in s[end-4:end]:
    end -= 4 - s[end-4:end].find('\\')
    while s[end-1] == '\\':
        end -= 1
        if end == start:
            end = start + limit - (limit % 2) - 4
            break
```
The inner `while` walks back over the backslashes that precede `end`; it
reaches `start` iff all of `s[start:end]` are backslashes. -/
def nextEnd (p : SplitParams) (rest : List Nat) : Nat :=
  let window := (rest.take p.limit).drop (p.limit - p.back)
  if rest.length > p.limit - p.back ∧ 92 ∈ window then
    let e1 := p.limit - p.back + window.idxOf 92
    let n := trailingBackslashes (rest.take e1)
    if n = e1 then p.limit - p.limit % 2 - p.corner else e1 - n
  else p.limit

/-- The list `chunks` built by the loop; `none` = the loop does not terminate
(possible only for parameters outside `WF`). -/
def chunks (p : SplitParams) : Nat → List Nat → Option (List (List Nat))
  | _, [] => some []
  | 0, _ :: _ => none
  | fuel + 1, c :: rest =>
    let e := nextEnd p (c :: rest)
    match chunks p fuel ((c :: rest).drop e) with
    | some cs => some ((c :: rest).take e :: cs)
    | none => none

/-- `'""'.join(chunks)` -/
def joinChunks : List (List Nat) → List Nat
  | [] => []
  | [c] => c
  | c :: cs => c ++ 34 :: 34 :: joinChunks cs

/-- `split_string_literal(s, limit)`; `none` only if the loop diverges. -/
def split (p : SplitParams) (s : List Nat) : Option (List Nat) :=
  if s.length < p.limit then some s
  else (chunks p (s.length + 1) s).map joinChunks

/-- `BytesLiteral.as_c_string_literal`: `'"' + split(esc(b)) + '"'`. -/
def asCStringLiteral (tbl : Table) (p : SplitParams) (b : List Nat) : Option (List Nat) :=
  (split p (esc tbl b)).map fun t => 34 :: t ++ [34]

/-! ## `Code._split_characters`, `escape_char` -/

def isOct (c : Nat) : Bool := 48 ≤ c && c ≤ 55

/-- Length of the first match of `(\\[0-7][0-7][0-7]|\\.|.)` (DOTALL) at the head. -/
def tokLen : List Nat → Nat
  | [] => 0
  | [_] => 1
  | c :: a :: rest =>
    if c = 92 then
      match rest with
      | b :: d :: _ => if isOct a && isOct b && isOct d then 4 else 2
      | _ => 2
    else 1

def splitCharactersF : Nat → List Nat → List (List Nat)
  | 0, _ => []
  | _, [] => []
  | fuel + 1, c :: rest =>
    let n := tokLen (c :: rest)
    (c :: rest).take n :: splitCharactersF fuel ((c :: rest).drop n)

/-- `_split_characters(s)` = `re.findall` of the pattern above. -/
def splitCharacters (s : List Nat) : List (List Nat) := splitCharactersF s.length s

def hexUpper (n : Nat) : Nat := if n < 10 then 48 + n else 55 + n

/-- `escape_char(c)` for one byte (ISO-8859-1 decoded). -/
def escapeChar (n : Nat) : List Nat :=
  if n = 10 then [92, 110] else if n = 13 then [92, 114] else if n = 9 then [92, 116]
  else if n = 92 then [92, 92]
  else if n = 39 then [92, 39]
  else if n < 32 ∨ n ≥ 127 then [92, 120, hexUpper (n / 16), hexUpper (n % 16)]
  else [n]

/-! ## C99 reference semantics of literals -/

/-- 5.2.1.1: the nine trigraph sequences `??x`. -/
def trigraphChar (c : Nat) : Option Nat :=
  if c = 61 then some 35        -- ??= #
  else if c = 40 then some 91   -- ??( [
  else if c = 47 then some 92   -- ??/ \
  else if c = 41 then some 93   -- ??) ]
  else if c = 39 then some 94   -- ??' ^
  else if c = 60 then some 123  -- ??< {
  else if c = 33 then some 124  -- ??! |
  else if c = 62 then some 125  -- ??> }
  else if c = 45 then some 126  -- ??- ~
  else none

/-- Translation phase 1 (left to right, non-overlapping).  Second argument:
number of characters of an already replaced trigraph still to be dropped. -/
def trigraphsAux : Nat → List Nat → List Nat
  | _, [] => []
  | k + 1, _ :: rest => trigraphsAux k rest
  | 0, c :: rest =>
    match c, rest with
    | 63, 63 :: x :: _ =>
      match trigraphChar x with
      | some r => r :: trigraphsAux 2 rest
      | none => c :: trigraphsAux 0 rest
    | _, _ => c :: trigraphsAux 0 rest

def trigraphs (s : List Nat) : List Nat := trigraphsAux 0 s

/-- Translation phase 2: delete backslash-newline. -/
def spliceAux : Bool → List Nat → List Nat
  | _, [] => []
  | true, _ :: rest => spliceAux false rest
  | false, c :: rest =>
    match c, rest with
    | 92, 10 :: _ => spliceAux true rest
    | _, _ => c :: spliceAux false rest

def splice (s : List Nat) : List Nat := spliceAux false s

/-- 6.4.4.4 simple-escape-sequence: the character after the backslash. -/
def simpleEsc (c : Nat) : Option Nat :=
  if c = 39 then some 39        -- \'
  else if c = 34 then some 34   -- \"
  else if c = 63 then some 63   -- \?
  else if c = 92 then some 92   -- \\
  else if c = 97 then some 7    -- \a
  else if c = 98 then some 8    -- \b
  else if c = 102 then some 12  -- \f
  else if c = 110 then some 10  -- \n
  else if c = 114 then some 13  -- \r
  else if c = 116 then some 9   -- \t
  else if c = 118 then some 11  -- \v
  else none

def hexDig (c : Nat) : Option Nat :=
  if 48 ≤ c ∧ c ≤ 57 then some (c - 48)
  else if 65 ≤ c ∧ c ≤ 70 then some (c - 55)
  else if 97 ≤ c ∧ c ≤ 102 then some (c - 87)
  else none

/-- Lexer state.  `out`: between literals; `lit`: inside, nothing pending;
`esc`: just after a backslash; `oct v n`: `n` (1 or 2) octal digits read;
`hex v n`: `\x` and `n` hex digits read. -/
inductive St where
  | out | lit | esc
  | oct (v n : Nat)
  | hex (v n : Nat)
  deriving DecidableEq, Repr

/-- An ordinary character inside a literal delimited by `q`.  Raw control
characters (including newline) are rejected: stricter than gcc, so that a
proved round trip also says "no raw control character is emitted". -/
def stepLit (q c : Nat) : Option (St × List Nat) :=
  if c = q then some (.out, [])
  else if c = 92 then some (.esc, [])
  else if 32 ≤ c ∧ c < 256 then some (.lit, [c])
  else none

/-- One character of translation phases 3/5 restricted to literals with
delimiter `q`; the list is the execution characters completed by it.  Values
must fit an `unsigned char` (6.4.4.4p9), `\x` needs a digit, anything that
is not an escape of C99 is rejected. -/
def step (q : Nat) : St → Nat → Option (St × List Nat)
  | .out, c => if c = q then some (.lit, []) else none
  | .lit, c => stepLit q c
  | .esc, c =>
    match simpleEsc c with
    | some v => some (.lit, [v])
    | none =>
      if isOct c then some (.oct (c - 48) 1, [])
      else if c = 120 then some (.hex 0 0, [])
      else none
  | .oct v n, c =>
    if isOct c then
      if n + 1 ≥ 3 then (if v * 8 + (c - 48) < 256 then some (.lit, [v * 8 + (c - 48)]) else none)
      else some (.oct (v * 8 + (c - 48)) (n + 1), [])
    else if v < 256 then (stepLit q c).map fun r => (r.1, v :: r.2)
    else none
  | .hex v n, c =>
    match hexDig c with
    | some h => some (.hex (v * 16 + h) (n + 1), [])
    | none =>
      if n = 0 ∨ v ≥ 256 then none
      else (stepLit q c).map fun r => (r.1, v :: r.2)

def run (q : Nat) : St → List Nat → Option (St × List Nat)
  | s, [] => some (s, [])
  | s, c :: cs =>
    match step q s c with
    | none => none
    | some (s', e) =>
      match run q s' cs with
      | none => none
      | some (s'', es) => some (s'', e ++ es)

/-- The value of a sequence of adjacent string literals `"…""…"…` (phase 6
concatenation), after phases 1 (only if `tri`) and 2. `none` = not a sequence
of well-formed literals. -/
def cLex (tri : Bool) (text : List Nat) : Option (List Nat) :=
  match run 34 .out (splice (if tri then trigraphs text else text)) with
  | some (.out, bytes) => some bytes
  | _ => none

/-- The value of one character constant `'…'` (exactly one character). -/
def cCharLex (tri : Bool) (text : List Nat) : Option Nat :=
  match run 39 .out (splice (if tri then trigraphs text else text)) with
  | some (.out, [v]) => some v
  | _ => none

/-- No two adjacent question marks (hence no trigraph). -/
def noQQ : List Nat → Bool
  | [] => true
  | c :: rest =>
    match c, rest with
    | 63, 63 :: _ => false
    | _, _ => noQQ rest

/-! ## Escape-sequence tokens (used by `tableWF` and by the proofs) -/

/-- The value of one *safe token*: an ordinary character that needs no escape
in either kind of literal, a simple escape, or a three-digit octal escape. -/
def tokVal : List Nat → Option Nat
  | [c] => if 32 ≤ c ∧ c < 256 ∧ c ≠ 34 ∧ c ≠ 39 ∧ c ≠ 92 then some c else none
  | [b, e] => if b = 92 then simpleEsc e else none
  | [b, x, y, z] =>
    if b = 92 ∧ isOct x ∧ isOct y ∧ isOct z ∧ (x - 48) * 64 + (y - 48) * 8 + (z - 48) < 256
    then some ((x - 48) * 64 + (y - 48) * 8 + (z - 48)) else none
  | _ => none

def decodeToks : List (List Nat) → Option (List Nat)
  | [] => some []
  | t :: ts =>
    match tokVal t, decodeToks ts with
    | some v, some vs => some (v :: vs)
    | _, _ => none

/-- Bytes that may not appear raw in a string or character literal. -/
def mustEscape : List Nat := (List.range 32) ++ [34, 39, 92]

/-- Decidable well-formedness of a specials table, sufficient for all theorems:
every replacement is printable ASCII without `?`, tokenises into safe tokens
whose values spell the pattern; every byte of `mustEscape` and the pair `??`
is a pattern. -/
def tableWF (tbl : Table) : Bool :=
  tbl.all (fun e =>
    e.1 ≠ [] && e.2.all (fun x => 32 ≤ x && x < 127 && x != 63) &&
    decodeToks (splitCharacters e.2) == some e.1) &&
  mustEscape.all (fun d => tbl.any fun e => e.1 == [d]) &&
  tbl.any (fun e => e.1 == [63, 63])

/-! ## line protocol -/

def parseTable (s : String) : Option Table :=
  (s.splitOn ",").mapM fun ent =>
    match ent.splitOn ":" with
    | [a, b] =>
      match parseHexBytes a, parseHexBytes b with
      | some x, some y => some (x, y)
      | _, _ => none
    | _ => none

def optHex : Option (List Nat) → String
  | some x => "ok " ++ bytesToHex x
  | none => "ok none"

def parseBool (s : String) : Option Bool :=
  if s == "1" then some true else if s == "0" then some false else none

def handle : List String → String
  -- esc <table> <hex>…  : escape_byte_string of each argument
  | "esc" :: t :: args =>
    match parseTable t, args.mapM parseHexBytes with
    | some tbl, some bs => "ok " ++ " ".intercalate (bs.map fun b => bytesToHex (esc tbl b))
    | _, _ => "bad-op"
  -- split <limit> <back> <corner> <texthex> (Python's negative indices for limit < back are not modelled)
  | ["split", limit, back, corner, s] =>
    match parseNat? limit, parseNat? back, parseNat? corner, parseHexBytes s with
    | some l, some k, some c, some s =>
      if k ≤ l ∧ c ≤ l then
        match split ⟨l, k, c⟩ s with
        | some r => "ok " ++ bytesToHex r
        | none => "err nonterminating"
      else "bad-op"
    | _, _, _, _ => "bad-op"
  -- lit <table> <limit> <back> <corner> <hex> : as_c_string_literal, then cLex of it (both phases settings)
  | ["lit", t, limit, back, corner, b] =>
    match parseTable t, parseNat? limit, parseNat? back, parseNat? corner, parseHexBytes b with
    | some tbl, some l, some k, some c, some b =>
      if k ≤ l ∧ c ≤ l then
        match asCStringLiteral tbl ⟨l, k, c⟩ b with
        | some r => "ok " ++ bytesToHex r ++ " " ++ (optHex (cLex true r)).drop 3 ++ " " ++ (optHex (cLex false r)).drop 3
        | none => "err nonterminating"
      else "bad-op"
    | _, _, _, _, _ => "bad-op"
  | ["clex", tri, s] =>
    match parseBool tri, parseHexBytes s with
    | some tri, some s => optHex (cLex tri s)
    | _, _ => "bad-op"
  | ["cchar", tri, s] =>
    match parseBool tri, parseHexBytes s with
    | some tri, some s => match cCharLex tri s with | some v => s!"ok {v}" | none => "ok none"
    | _, _ => "bad-op"
  | ["escchar", n] =>
    match parseNat? n with
    | some n => if n < 256 then "ok " ++ bytesToHex (escapeChar n) else "bad-op"
    | none => "bad-op"
  | ["splitchars", s] =>
    match parseHexBytes s with
    | some s => "ok " ++ ",".intercalate ((splitCharacters s).map bytesToHex)
    | none => "bad-op"
  | ["toesc", s] =>
    match parseHexBytes s with
    | some s => "ok " ++ bytesToHex (toEscapeSequence s)
    | none => "bad-op"
  | ["tablewf", t] =>
    match parseTable t with
    | some tbl => if tableWF tbl then "ok true" else "ok false"
    | none => "bad-op"
  | _ => "bad-op"

end CyVerif.C11

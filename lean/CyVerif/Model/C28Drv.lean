import CyVerif.Model.C28Binop
import CyVerif.Model.C28Rich
import CyVerif.Model.C28Tables
/-!
# C28 — line protocol

`C28 binop <variant:cur|fix> <coexist:0|1> <isAdd:0|1> <mode:bin|inp|pow3> <l> <r> <world> <ni-calls>`
`C28 cmp <op> <ident:0|1> <l> <r> <world> <answers>`
world   = classes separated by `,`; class = `<kind c|p|i>:<base index or ->:<op><rop><iop>:<eq ne lt gt le ge>:<tord>` (bits 0/1)
ni-calls = `-` or `cls.m` items separated by `,` (m = o|r|i): the methods whose body returns NotImplemented
answers  = `-` or `cls.m=T|F|N` items (m = eq|ne|lt|gt|le|ge); default T
output   = `ok <trace> -> <outcome>`; trace = `-` or `cls.m.S` joined by `;`
-/
namespace CyVerif.C28

def bit (c : Char) : Option Bool := if c == '1' then some true else if c == '0' then some false else none

def parseCls (s : String) : Option Cls :=
  match s.splitOn ":" with
  | [k, b, m3, m6, t] =>
    let kind? : Option Kind := if k == "c" then some .cdef else if k == "p" then some .py else if k == "i" then some .int else none
    let base? : Option (Option Nat) := if b == "-" then some none else b.toNat?.map some
    match kind?, base?, m3.toList.mapM bit, m6.toList.mapM bit, t.toList.mapM bit with
    | some kind, some base, some [o, r, i], some [e, n, l, g, le, ge], some [td] =>
      some { kind := kind, base := base, op := o, rop := r, iop := i,
             ceq := e, cne := n, clt := l, cgt := g, cle := le, cge := ge, tord := td }
    | _, _, _, _, _ => none
  | _ => none

def parseWorld (s : String) : Option World := (s.splitOn ",").mapM parseCls

/-- bases must have smaller indices, kinds must be consistent -/
def wfWorld (w : World) : Bool :=
  (List.range w.length).all fun i =>
    let C := clsOf w i
    match C.base with
    | none => true
    | some b => b < i && (match C.kind, (clsOf w b).kind with
        | .cdef, .cdef => true | .py, .cdef => true | .py, .py => true | _, _ => false)

def methName : Meth → String
  | .op => "o" | .rop => "r" | .iop => "i"
  | .cmp .eq => "eq" | .cmp .ne => "ne" | .cmp .lt => "lt" | .cmp .gt => "gt" | .cmp .le => "le" | .cmp .ge => "ge"

def callStr (c : Call) : String :=
  s!"{c.cls}.{methName c.m}.{match c.self with | .L => "L" | .R => "R"}"

def traceStr (tr : List Call) : String :=
  if tr.isEmpty then "-" else ";".intercalate (tr.reverse.map callStr)

def outStr : Out → String
  | .val c => s!"val {c.cls}.{methName c.m}"
  | .typeError => "TypeError"
  | .attrError => "AttributeError"
  | .niLeak => "NotImplemented"

/-- run a binop tree with the bodies listed in `ni` answering NotImplemented -/
def runTree (ni : List String) : Tree → List Call → String
  | .done o, tr => s!"ok {traceStr tr} -> {outStr o}"
  | .ask c ret nI, tr =>
    if ni.contains s!"{c.cls}.{methName c.m}" then runTree ni nI (c :: tr) else runTree ni ret (c :: tr)

def runRTree (ans : List (String × String)) : RTree COut → List Call → String
  | .leaf (.b v), tr => s!"ok {traceStr tr} -> {if v then "True" else "False"}"
  | .leaf .typeError, tr => s!"ok {traceStr tr} -> TypeError"
  | .ask c t f n, tr =>
    match (ans.lookup s!"{c.cls}.{methName c.m}").getD "T" with
    | "F" => runRTree ans f (c :: tr)
    | "N" => runRTree ans n (c :: tr)
    | _ => runRTree ans t (c :: tr)

def ccOf (i : Nat) (C : Cls) : CC :=
  { id := i, kind := C.kind, eq := C.ceq, ne := C.cne, lt := C.clt, gt := C.cgt, le := C.cle, ge := C.cge, tord := C.tord }

/-- the class hierarchy of class `c` as a chain -/
def chainOf (w : World) : Nat → Nat → Chain
  | 0, _ => []
  | f + 1, c => ccOf c (clsOf w c) :: (match (clsOf w c).base with | none => [] | some b => chainOf w f b)

def parseCmp (s : String) : Option Cmp :=
  if s == "eq" then some .eq else if s == "ne" then some .ne else if s == "lt" then some .lt
  else if s == "gt" then some .gt else if s == "le" then some .le else if s == "ge" then some .ge else none

def handle : List String → String
  | ["binop", vs, co, ad, mode, ls, rs, ws, ns] =>
    match parseWorld ws, ls.toNat?, rs.toNat? with
    | some w, some l, some r =>
      if !(wfWorld w && l < w.length && r < w.length) then "bad-op" else
      let v? : Option Variant := if vs == "cur" then some ⟨true⟩ else if vs == "fix" then some ⟨false⟩ else none
      match v?, bit (co.toList.headD 'x'), bit (ad.toList.headD 'x') with
      | some v, some coexist, some isAdd =>
        let cfg : OpCfg := ⟨coexist, isAdd⟩
        let ni := if ns == "-" then [] else ns.splitOn ","
        if mode == "bin" then runTree ni (binop v w cfg false l r) []
        else if mode == "pow3" then runTree ni (binop v w cfg true l r) []
        else if mode == "inp" then runTree ni (inplace v w cfg l r) []
        else "bad-op"
      | _, _, _ => "bad-op"
    | _, _, _ => "bad-op"
  | ["cmp", ops, ids, ls, rs, ws, as] =>
    match parseWorld ws, ls.toNat?, rs.toNat?, parseCmp ops, bit (ids.toList.headD 'x') with
    | some w, some l, some r, some op, some ident =>
      if !(wfWorld w && l < w.length && r < w.length && (!ident || l == r)) then "bad-op" else
      let ans : List (String × String) := if as == "-" then [] else
        (as.splitOn ",").filterMap fun it => match it.splitOn "=" with | [a, b] => some (a, b) | _ => none
      runRTree ans (doRich (chainOf w (fuelOf w) l) (chainOf w (fuelOf w) r) ident op) []
    | _, _, _, _, _ => "bad-op"
  | _ => "bad-op"

end CyVerif.C28

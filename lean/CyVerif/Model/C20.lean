/-! C20 — evaluation order on a logging mini-AST: values, expressions, the reference evaluator
(Python's documented order) with one configuration bit for the method-call deviation of the
compiler (`PyMethodCallNode.use_method_vectorcall`).  Values are SYMBOLIC terms: every leaf
`E.ev(k)` appends the event `ev(k)` and returns the opaque atom `v<k>`; every protocol call on an
opaque object appends an event and returns a symbolic application.  No Mathlib. -/
namespace CyVerif.C20

/-- Symbolic values; `cons`/`nil` are the spine of argument lists, tuples, lists, dicts, sets. -/
inductive Val where
  | atom (k : Nat)
  | sym (s : String)
  | bool (b : Bool)
  | nil
  | cons (h t : Val)
  | tup (e : Val)
  | lst (e : Val)
  | dict (e : Val)
  | set (e : Val)
  | app (tag : String) (args : Val)
  deriving DecidableEq, Repr, Inhabited

/-- events are values of the form `app tag args` -/
abbrev Trace := List Val

def mk1 (tag : String) (a : Val) : Val := .app tag (.cons a .nil)
def mk2 (tag : String) (a b : Val) : Val := .app tag (.cons a (.cons b .nil))
def mk3 (tag : String) (a b c : Val) : Val := .app tag (.cons a (.cons b (.cons c .nil)))

/-- the leaf event -/
def evLeaf (k : Nat) : Val := mk1 "ev" (.atom k)

def Val.append : Val → Val → Val
  | .cons h t, w => .cons h (Val.append t w)
  | _, w => w

def Val.len : Val → Nat
  | .cons _ t => t.len + 1
  | _ => 0

/-- Elements of an iterable: real containers unpack silently, an opaque object logs `iter` and yields two items. -/
def elemsOf (v : Val) : Trace × Val :=
  match v with
  | .tup e => ([], e)
  | .lst e => ([], e)
  | .dict e => ([], e)
  | .set e => ([], e)
  | v => ([mk1 "iter" v], .cons (mk1 "it0" v) (.cons (mk1 "it1" v) .nil))

/-- Truth test: real containers and bools are silent; an opaque object logs `bool` and asks the oracle `τ`. -/
def truthOf (τ : Val → Bool) (v : Val) : Trace × Bool :=
  match v with
  | .bool b => ([], b)
  | .tup e => ([], e != .nil)
  | .lst e => ([], e != .nil)
  | .dict e => ([], e != .nil)
  | .set e => ([], e != .nil)
  | .nil => ([], false)
  | v => ([mk1 "bool" v], τ v)

inductive Expr where
  | name (x : String)
  | ev (k : Nat)                       -- E.ev(k)
  | evkw (k : Nat)                     -- E.kw(k): logs ev(k), returns the real dict {k<k>: v<k>}
  | idx (py : Bool) (b i : Expr)       -- b[i]; py = generic Python subscript (logs), else pure C access
  | attr (py : Bool) (o : Expr) (a : String)
  | bin (l r : Expr)                   -- l + r
  | cmp2 (a b : Expr)                  -- a < b
  | cmp3 (a b c : Expr)                -- a < b < c
  | and_ (a b : Expr) | or_ (a b : Expr) | not_ (a : Expr)
  | cond (c a b : Expr)                -- a if c else b
  | tuple (args : Expr) | list (args : Expr) | set (args : Expr) | dict (items : Expr)
  | anil | acons (h t : Expr)          -- argument / item lists
  | star (e : Expr)                    -- *e   (inside acons)
  | dstar (e : Expr)                   -- **e  (inside acons)
  | kw (n : String) (e : Expr)         -- n=e  (inside acons)
  | kv (k v : Expr)                    -- k: v (inside acons of a dict display)
  | call (f args kwargs : Expr)
  deriving DecidableEq, Repr, Inhabited

abbrev Store := List (String × Val)
def Store.get (σ : Store) (x : String) : Val := (σ.lookup x).getD (.sym x)
def Store.set (σ : Store) (x : String) (v : Val) : Store := (x, v) :: σ

/-- no `*`/`**` item in an argument list -/
def plainArgs : Expr → Bool
  | .acons (.star _) _ => false
  | .acons (.dstar _) _ => false
  | .acons _ t => plainArgs t
  | _ => true

/-- positional arguments without unpacking; a lone `*(a, b)` display is inlined by the compiler -/
def plainPos : Expr → Bool
  | .acons (.star (.tuple xs)) .anil => plainArgs xs
  | args => plainArgs args

/-- Configuration: `vecMethod` = attribute lookup of `o.m(plain args)` happens after the arguments. -/
structure Cfg where
  vecMethod : Bool := false
  /-- a lone `*e` argument is converted to a tuple before the keyword arguments are evaluated -/
  eagerStar : Bool := false
  deriving DecidableEq, Repr

def getEv (py : Bool) (vb vi : Val) : Trace := if py then [mk2 "get" vb vi] else []
def getattrEv (py : Bool) (vo : Val) (a : String) : Trace := if py then [mk2 "getattr" vo (.sym a)] else []

/-- The evaluator: events produced (in order) and the value. -/
def eval (c : Cfg) (τ : Val → Bool) (σ : Store) : Expr → Trace × Val
  | .name x => ([], σ.get x)
  | .ev k => ([evLeaf k], .atom k)
  | .evkw k => ([evLeaf k], .dict (.cons (.cons (.sym s!"k{k}") (.cons (.atom k) .nil)) .nil))
  | .idx py b i =>
    let (t1, vb) := eval c τ σ b
    let (t2, vi) := eval c τ σ i
    (t1 ++ t2 ++ getEv py vb vi, mk2 "get" vb vi)
  | .attr py o a =>
    let (t1, vo) := eval c τ σ o
    (t1 ++ getattrEv py vo a, mk2 "getattr" vo (.sym a))
  | .bin l r =>
    let (t1, vl) := eval c τ σ l
    let (t2, vr) := eval c τ σ r
    (t1 ++ t2 ++ [mk2 "add" vl vr], mk2 "add" vl vr)
  | .cmp2 a b =>
    let (t1, va) := eval c τ σ a
    let (t2, vb) := eval c τ σ b
    (t1 ++ t2 ++ [mk2 "lt" va vb], mk2 "lt" va vb)
  | .cmp3 a b d =>
    let (t1, va) := eval c τ σ a
    let (t2, vb) := eval c τ σ b
    let r1 := mk2 "lt" va vb
    let (tb, ok) := truthOf τ r1
    if ok then
      let (t3, vd) := eval c τ σ d
      (t1 ++ t2 ++ [r1] ++ tb ++ t3 ++ [mk2 "lt" vb vd], mk2 "lt" vb vd)
    else (t1 ++ t2 ++ [r1] ++ tb, r1)
  | .and_ a b =>
    let (t1, va) := eval c τ σ a
    let (tb, ok) := truthOf τ va
    if ok then let (t2, vb) := eval c τ σ b; (t1 ++ tb ++ t2, vb) else (t1 ++ tb, va)
  | .or_ a b =>
    let (t1, va) := eval c τ σ a
    let (tb, ok) := truthOf τ va
    if ok then (t1 ++ tb, va) else let (t2, vb) := eval c τ σ b; (t1 ++ tb ++ t2, vb)
  | .not_ a =>
    let (t1, va) := eval c τ σ a
    let (tb, ok) := truthOf τ va
    (t1 ++ tb, .bool (!ok))
  | .cond g a b =>
    let (t1, vg) := eval c τ σ g
    let (tb, ok) := truthOf τ vg
    if ok then let (t2, v) := eval c τ σ a; (t1 ++ tb ++ t2, v)
    else let (t2, v) := eval c τ σ b; (t1 ++ tb ++ t2, v)
  | .tuple args => let (t, v) := eval c τ σ args; (t, .tup v)
  | .list args => let (t, v) := eval c τ σ args; (t, .lst v)
  | .set args => let (t, v) := eval c τ σ args; (t, .set v)
  | .dict items => let (t, v) := eval c τ σ items; (t, .dict v)
  | .anil => ([], .nil)
  | .acons (.star e) t =>
    let (t1, v) := eval c τ σ e
    let (ti, es) := elemsOf v
    let (t2, vs) := eval c τ σ t
    (t1 ++ ti ++ t2, es.append vs)
  | .acons (.dstar e) t =>
    let (t1, v) := eval c τ σ e
    let (ti, es) := elemsOf v
    let (t2, vs) := eval c τ σ t
    (t1 ++ ti ++ t2, es.append vs)
  | .acons h t =>
    let (t1, v) := eval c τ σ h
    let (t2, vs) := eval c τ σ t
    (t1 ++ t2, .cons v vs)
  | .star e => eval c τ σ e
  | .dstar e => eval c τ σ e
  | .kw n e => let (t, v) := eval c τ σ e; (t, .cons (.sym n) (.cons v .nil))
  | .kv k v =>
    let (t1, vk) := eval c τ σ k
    let (t2, vv) := eval c τ σ v
    (t1 ++ t2, .cons vk (.cons vv .nil))
  | .call f args kwargs =>
    let (t2, vk) := eval c τ σ kwargs
    -- positional part: events before the keywords, events after them, value.  CPython passes a lone
    -- `*e` to CALL_FUNCTION_EX unconverted: it is iterated only after the keywords are evaluated.
    let (t1, va0) := eval c τ σ args
    let (ta, tlate, va) :=
      match args with
      | .acons (.star e) .anil =>
        let (te, v) := eval c τ σ e
        let (ti, es) := elemsOf v
        if c.eagerStar then (te ++ ti, ([] : Trace), es) else (te, ti, es)
      | _ => (t1, ([] : Trace), va0)
    let (t0g, vf) := eval c τ σ f
    match f with
    | .attr true o a =>
      let (t0, vo) := eval c τ σ o
      let fv := mk2 "getattr" vo (.sym a)
      let ce := mk3 "call" fv va vk
      if c.vecMethod && plainPos args && plainArgs kwargs then (t0 ++ ta ++ t2 ++ [fv] ++ [ce], ce)
      else (t0 ++ [fv] ++ ta ++ t2 ++ tlate ++ [ce], ce)
    | _ => (t0g ++ ta ++ t2 ++ tlate ++ [mk3 "call" vf va vk], mk3 "call" vf va vk)

end CyVerif.C20

import CyVerif.Model.Util
/-!
Model of the power operator.

* `IntPow` (Cython/Utility/CMath.c): `__Pyx_pow_T(b, e)` for a C integer type `T` of width `w`.
  Values are kept as bit patterns in `[0, 2^w)`; multiplication is multiplication modulo `2^w`
  (two's-complement wrap-around, which is what the machine does; for signed `T` the C standard
  calls an overflowing `*` undefined, see `usesOverflow`).  `(b * (e&1)) | ((~e)&1)` is `b` for odd
  `e` and `1` for even `e`.
* `__Pyx__PyNumber_PowerOf2` (Cython/Utility/Optimize.c): `2 ** n` for a Python int `n`.
* `PowNode.compute_c_result_type` (Cython/Compiler/ExprNodes.py): the result-type decision.
-/
namespace CyVerif.C07

/-- the `while (e) { t *= (e odd ? b : 1); e >>= 1; if (e) b *= b; }` loop on bit patterns modulo `m`
(the squaring after the last bit is skipped since fix 'IntPow: no unused final squaring') -/
def powLoop (m : Nat) (t b e : Nat) : Nat :=
  if h : e = 0 then t
  else powLoop m ((t * (if e % 2 = 1 then b else 1)) % m) (if e / 2 = 0 then b else (b * b) % m) (e / 2)
termination_by e
decreasing_by omega

/-- signed interpretation of a bit pattern -/
def toSigned (w : Nat) (p : Nat) : Int :=
  if p < 2 ^ (w - 1) then (p : Int) else (p : Int) - (2 ^ w : Nat)

def pattern (w : Nat) (x : Int) : Nat := (x % ((2 ^ w : Nat) : Int)).toNat

/-- `__Pyx_pow_T(b, e)` on bit patterns; `signed` selects the `e < 0 → 0` test. -/
def intPowPat (w : Nat) (signed : Bool) (b e : Nat) : Nat :=
  let m := 2 ^ w
  if e = 3 then (((b * b) % m) * b) % m
  else if e = 2 then (b * b) % m
  else if e = 1 then b
  else if e = 0 then 1 % m
  else if signed && decide (2 ^ (w - 1) ≤ e) then 0      -- e < 0
  else powLoop m (1 % m) b e

/-- value-level view: operands and result as mathematical integers of the C type -/
def intPow (w : Nat) (signed : Bool) (b e : Int) : Int :=
  let r := intPowPat w signed (pattern w b) (pattern w e)
  if signed then toSigned w r else (r : Int)

/-- `2 ** n` fast path: `none` = fall back to `PyNumber_Power` -/
def powerOf2 (n : Int) : Option Int :=
  if n = 0 then some 1
  else if n < 0 then none
  else if n ≤ 62 then some ((1 : Int) <<< n.toNat)                 -- `1L << shiftby`
  else if n ≤ 63 then some ((1 : Int) <<< n.toNat)                 -- unsigned long long
  else some ((1 : Int) <<< n.toNat)                                 -- PyNumber_Lshift(1, exp)

/-! ### result type of `a ** b` on C operands -/
inductive T1 where
  | cintSigned | cintUnsigned | cintConstNonneg | cfloat
  deriving DecidableEq, Repr

inductive T2 where
  | constNegInt        -- negative integer compile-time constant
  | constNonnegInt     -- non-negative integer compile-time constant
  | cintUnsigned       -- run-time C unsigned integer (known >= 0)
  | cintSigned         -- run-time C signed integer (may be negative)
  | cfloat             -- run-time C floating point
  deriving DecidableEq, Repr

inductive R where
  | cint | cdouble | softComplex
  deriving DecidableEq, Repr

def isFloat1 : T1 → Bool | .cfloat => true | _ => false

/-- transcription of `compute_c_result_type`; `fixedCpow` selects the repaired condition in the
`cpow` branch (`if self.operand2.has_constant_result()` instead of `if not …`). -/
def resultType (fixedCpow : Bool) (cpow : Bool) (t1 : T1) (t2 : T2) : R :=
  let base : R := if isFloat1 t1 || t2 == .cfloat then .cdouble else .cint
  let op1Pos := t1 == .cintUnsigned || t1 == .cintConstNonneg
  let t2IsInt := t2 != .cfloat
  let t2Const := t2 == .constNegInt || t2 == .constNonnegInt
  let widen (r : R) : R := match r with | .cint => .cdouble | r => r
  if cpow then
    let needs := if fixedCpow then (t2 == .constNegInt) else (if !t2Const then false else false)
    if needs then widen base else base
  else if op1Pos || t2IsInt then
    let needs := if !t2Const then (t2 == .cintSigned) else (t2 == .constNegInt)
    if needs then widen base else base
  else .softComplex

/-- docs/src/userguide/cpow_table.csv, row by row -/
def docTable (cpow : Bool) (t1 : T1) (t2 : T2) : Option R :=
  match t1, t2 with
  | .cfloat, .cfloat => some (if cpow then .cdouble else .softComplex)  -- "Either a C real or complex"
  | .cfloat, _ => some .cdouble                                        -- floating point ** integer
  | _, .cfloat => if cpow then some .cdouble else none                  -- (C integer) ** floating: real or complex, depends on sign knowledge
  | _, .constNegInt => some .cdouble
  | _, .constNonnegInt => some .cint
  | _, .cintUnsigned => some .cint
  | _, .cintSigned => some (if cpow then .cint else .cdouble)

def handle : List String → String
  | ["ipow", w, s, b, e] =>
    match w.toNat?, b.toInt?, e.toInt? with
    | some w, some b, some e => s!"ok {intPow w (s == "1") b e}"
    | _, _, _ => "bad-op"
  | ["pow2", n] =>
    match n.toInt? with
    | some n => match powerOf2 n with
      | some v => s!"ok {v}"
      | none => "ok fallback"
    | none => "bad-op"
  | ["rtype", fx, cp, t1, t2] =>
    let t1? : Option T1 := match t1 with
      | "is" => some .cintSigned | "iu" => some .cintUnsigned | "ic" => some .cintConstNonneg | "f" => some .cfloat | _ => none
    let t2? : Option T2 := match t2 with
      | "cn" => some .constNegInt | "cp" => some .constNonnegInt | "iu" => some .cintUnsigned
      | "is" => some .cintSigned | "f" => some .cfloat | _ => none
    match t1?, t2? with
    | some a, some b => match resultType (fx == "1") (cp == "1") a b with
      | .cint => "ok int" | .cdouble => "ok float" | .softComplex => "ok softcomplex"
    | _, _ => "bad-op"
  | _ => "bad-op"

end CyVerif.C07

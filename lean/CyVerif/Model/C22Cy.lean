import CyVerif.Model.C22
/-!
C22 — the protocol Cython emits (Nodes.py `TryExceptStatNode`, `ExceptClauseNode`, `TryFinallyStatNode`,
`RaiseStatNode`, `ReraiseStatNode`, `WithStatNode` + ParseTreeTransforms `WithTransform` / except-as lowering) as an
interpreter over the helper calls of Utility/Exceptions.c acting on a model of the thread state:
`curexc` (`tstate->current_exception`), the exc_info slots, and the C temporaries `exc_vars` a bare `raise` reads.
`Variant` selects the source variant: the pinned tree is `⟨true, true⟩`.
-/
namespace CyVerif.C22

structure Variant where
  /-- `ReraiseStatNode` hands the handler's `exc_vars` to `__Pyx_ErrRestore` and zeroes them -/
  reraiseClears : Bool
  /-- `__Pyx_ExceptionSave` reads the TOPMOST exc_info item while `__Pyx_ExceptionReset` writes the CURRENT one -/
  saveTopmost : Bool
  deriving DecidableEq, Repr

/-- `slot`: the C temporaries `funcstate.exc_vars` of the lexically enclosing except clause / finally exception copy:
`none` = no enclosing one (bare `raise` calls `__Pyx_ReraiseException`), `some v` = their run-time content. -/
structure CS where
  ts : TS
  curexc : Option Nat
  slot : Option (Option Nat)
  /-- the temporaries of `slot` are reference-managed (`except` clause) rather than plain (`finally` copy) -/
  managed : Bool := false
  /-- the managed temporaries of an OUTER enclosing except clause have been zeroed -/
  dirty : Bool := false
  deriving DecidableEq, Repr

inductive COut where
  | norm | err | ret | brk | cont | crash
  deriving DecidableEq, Repr

/-- `__Pyx_ExceptionSave` -/
def excSave (V : Variant) (cs : CS) : Option Nat := if V.saveTopmost then cs.ts.top else cs.ts.cur
/-- `__Pyx_ExceptionReset` -/
def excReset (cs : CS) (saved : Option Nat) : CS := { cs with ts := { cs.ts with cur := saved } }
/-- `__Pyx_GetException`: moves `curexc` into the current exc_info slot; result = the C temporaries -/
def getException (cs : CS) : Option Nat × CS :=
  (cs.curexc, { cs with ts := { cs.ts with cur := cs.curexc }, curexc := none })
/-- `__Pyx_ExceptionSwap` with zeroed arguments -/
def excSwapNull (cs : CS) : Option Nat × CS := (cs.ts.cur, { cs with ts := { cs.ts with cur := none } })
/-- `__Pyx_ErrRestore` -/
def errRestore (cs : CS) (v : Option Nat) : CS := { cs with curexc := v }

def CS.withTS (cs : CS) (ts : TS) : CS := { cs with ts := ts }

/-- `__Pyx_Raise(X[k], 0, 0, cause)`: cause handling by hand, then CPython's `PyErr_SetObject` -/
def pyxRaise (cs : CS) (k : Nat) (cause : Cause) : CS :=
  let h := match cause with
    | .no => cs.ts.heap
    | .none => setCause cs.ts.heap k none
    | .obj j => setCause cs.ts.heap k (some j)
  { cs with ts := setObject { cs.ts with heap := h } k, curexc := some k }

def pyxRaiseFresh (cs : CS) (cls : Nat) : CS :=
  let r := raiseFresh cs.ts cls
  { cs with ts := r.2, curexc := some r.1 }

/-- `ReraiseStatNode` -/
def cyReraise (V : Variant) (cs : CS) : CS :=
  match cs.slot with
  | some v => { errRestore cs v with slot := if V.reraiseClears then some none else some v }
  | none =>
    match cs.ts.top with                              -- `__Pyx_ReraiseException`
    | some e => errRestore cs (some e)
    | none => pyxRaiseFresh cs clsRuntimeError

def cyIter (f : CS → COut × CS) : Nat → CS → COut × CS
  | 0, cs => (.norm, cs)
  | n + 1, cs =>
    match f cs with
    | (.norm, cs') => cyIter f n cs'
    | (.cont, cs') => cyIter f n cs'
    | (.brk, cs') => (.norm, cs')
    | r => r

/-- `HasNoExceptionHandlingVisitor`: bodies made of `pass` and unconditional `return <literal>` only -/
def simpleBody : Stmt → Bool
  | .skip => true
  | .ret none => true
  | .seq a b => simpleBody a && simpleBody b
  | _ => false

/- `Code.label_used(error_label)` after generating the statement: does its code contain an error exit?  (Decides
whether `TryExceptStatNode` emits `__Pyx_ExceptionSave`/`Reset` and its handlers at all.)  Pattern expressions are
assumed not to need a failing lookup (locals / builtins). -/
mutual
def usesErr : Stmt → Bool
  | .skip => false
  | .ret none => false
  | .brk none => false
  | .cont none => false
  | .delN => false
  | .seq a b => usesErr a || usesErr b
  | .tryEx b hs e => usesErr e || (usesErr b && !quietH hs)
  | .tryFin b f => usesErr b || usesErr f
  | _ => true
def quietH : Handlers → Bool
  | .nil => false
  | .cons none false b .nil => simpleBody b
  | .cons (some _) false b rest => simpleBody b && quietH rest
  | _ => false
end

/-- enter an except clause (`managed`) or a finally exception copy: fresh `exc_vars` -/
def CS.enterSlot (cs : CS) (m : Bool) (v : Option Nat) : CS :=
  { cs with slot := some v, managed := m, dirty := cs.dirty || (cs.managed && cs.slot == some none) }
/-- leave it: the enclosing `exc_vars` are current again -/
def CS.leaveSlot (cs : CS) (outer : CS) : CS :=
  { cs with slot := outer.slot, managed := outer.managed, dirty := outer.dirty }

/-- `ReturnStatNode` decrefs every reference-managed temporary in use with `__Pyx_DECREF` (not XDECREF) -/
def CS.retCrashes (cs : CS) : Bool := cs.dirty || (cs.managed && cs.slot == some none)

/-- the callee `cm.__exit__` seen from compiled code: result flag, or an error with `curexc` set -/
def cyCallExit (cs : CS) (arg : Option Nat) (ex : ExitAct) : Option Bool × CS :=
  let r := callExit cs.ts arg ex
  (r.1, { cs with ts := r.2.2, curexc := match r.2.1 with | .exc k => some k | _ => cs.curexc })

/-- `TryFinallyStatNode.generate_execution_code` over the semantics `f` of the body and `g` of (each copy of) the
finally clause -/
def cyFin (f g : CS → COut × CS) (cs : CS) : COut × CS :=
  match f cs with
  | (.norm, cs1) => g cs1                            -- normal exit copy
  | (.crash, cs1) => (.crash, cs1)
  | (.err, cs1) =>
    -- put_error_catcher: ExceptionSwap(0,0,0 → saved exc_info), GetException → exc_vars[:3]
    let sw := excSwapNull cs1
    let ge := getException sw.2
    let r := g (ge.2.enterSlot false ge.1)           -- finally_except_clause with its own exc_vars
    let vars := match r.2.slot with | some v => v | none => none
    let cs3 := r.2.leaveSlot cs1
    match r.1 with
    | .norm => (.err, errRestore (excReset cs3 sw.1) vars)       -- put_error_uncatcher, goto old error label
    | .crash => (.crash, cs3)
    | o => (o, excReset cs3 sw.1)                                -- put_error_cleaner
  | (o, cs1) =>                                                   -- return / break / continue copies
    match g cs1 with
    | (.norm, cs2) => (o, cs2)
    | r => r

def cyDelN (cs : CS) : COut × CS := (.norm, cs.withTS { cs.ts with nb := none })

/-- `WithStatNode` + `WithTransform` lowering over the body semantics `f`; `elide`: the inner try/except has no
error exit (`can_raise` false) -/
def cyWith (V : Variant) (f : CS → COut × CS) (elide : Bool) (er : Option Nat) (ex : ExitAct) (cs : CS) : COut × CS :=
  let cs0 := cs.withTS (cs.ts.emit (.enter cs.ts.top))
  match er with
  | some k => (.err, { cs0 with ts := doRaise cs0.ts k .no, curexc := some k })   -- `__enter__` raised
  | none =>
    let saved := excSave V cs0
    match f cs0 with
    | (.crash, cs1) => (.crash, cs1)
    | (.err, cs1) =>
      -- `except:` with excinfo_target: GetException, EXC = False, `if not EXIT(*EXCINFO): raise`
      let ge := getException cs1
      match ge.1 with
      | none => (.crash, ge.2)                       -- NULL members in the EXCINFO tuple
      | some e =>
        let r := cyCallExit ge.2 (some e) ex
        match r.1 with
        | none => (.err, excReset r.2 saved)                        -- except_error: reset, bypasses the finally
        | some true => (.norm, excReset r.2 saved)                  -- exception_handled; finally: EXC is False
        | some false => (.err, excReset (errRestore r.2 (some e)) saved)   -- ReraiseStatNode on the handler's vars
    | (o, cs1) =>
      -- try_end (norm) or try_return/break/continue → reset; then the finally copy: `if EXC: EXIT(None, None, None)`
      let cs2 := match o with | .norm => cs1 | _ => if elide then cs1 else excReset cs1 saved
      let r := cyCallExit cs2 none ex
      match r.1 with
      | none => (.err, r.2)
      | some _ => (o, r.2)

/-- body of a matching `ExceptClauseNode` over the body semantics `f` -/
def cyHandler (f : CS → COut × CS) (asn simple : Bool) (saved : Option Nat) (cs : CS) : COut × CS :=
  if asn || !simple then
    let ge := getException cs
    let cs1 := ge.2.enterSlot true ge.1
    let cs2 := if asn then cs1.withTS { cs1.ts with nb := ge.1 } else cs1
    -- except-as: body wrapped in try/finally `del n` (same protocol as a user-written finally)
    let r := if asn then cyFin f cyDelN cs2 else f cs2
    let cleared := r.2.slot == some none
    let cs3 := r.2.leaveSlot cs
    match r.1 with
    | .crash => (.crash, cs3)
    | .brk => if cleared then (.crash, cs3) else (.brk, excReset cs3 saved)    -- `__Pyx_DECREF(exc_vars[0])`
    | .cont => if cleared then (.crash, cs3) else (.cont, excReset cs3 saved)
    | o => (o, excReset cs3 saved)
  else
    -- `__Pyx_ErrRestore(0,0,0)`: exception dropped, exc_info untouched
    match f (errRestore cs none) with
    | (.crash, cs2) => (.crash, cs2)
    | (o, cs2) => (o, excReset cs2 saved)

mutual
def cyExec (V : Variant) (env : Env) : Stmt → CS → COut × CS
  | .skip, cs => (.norm, cs)
  | .seq a b, cs =>
    match cyExec V env a cs with
    | (.norm, cs1) => cyExec V env b cs1
    | r => r
  | .log k, cs => (.norm, cs.withTS (cs.ts.emit (.log k)))
  | .probe, cs => (.norm, cs.withTS cs.ts.probe)
  | .raiseI c k cause, cs => if env.fires c then (.err, pyxRaise cs k cause) else (.norm, cs)
  | .raiseNew c cls, cs => if env.fires c then (.err, pyxRaiseFresh cs cls) else (.norm, cs)
  | .reraise c, cs => if env.fires c then (.err, cyReraise V cs) else (.norm, cs)
  | .ret c, cs => if env.fires c then (if cs.retCrashes then (.crash, cs) else (.ret, cs)) else (.norm, cs)
  | .brk c, cs => if env.fires c then (.brk, cs) else (.norm, cs)
  | .cont c, cs => if env.fires c then (.cont, cs) else (.norm, cs)
  | .tryEx body hs els, cs =>
    if !usesErr body then
      -- `can_raise` is false: no ExceptionSave/Reset, no handler code
      match cyExec V env body cs with
      | (.norm, cs1) => cyExec V env els cs1
      | r => r
    else
    let saved := excSave V cs                          -- `__Pyx_ExceptionSave` at try entry
    match cyExec V env body cs with
    | (.norm, cs1) =>
      match cyExec V env els cs1 with
      | (.norm, cs2) => (.norm, cs2)                   -- goto try_end: no reset
      | (.crash, cs2) => (.crash, cs2)
      | (o, cs2) => (o, excReset cs2 saved)            -- except_error / try_return / try_break / try_continue
    | (.err, cs1) => cyDispatch V env hs saved cs1     -- our_error_label
    | (.crash, cs1) => (.crash, cs1)
    | (o, cs1) => (o, excReset cs1 saved)
  | .tryFin body fin, cs => cyFin (cyExec V env body) (cyExec V env fin) cs
  | .withS er ex body, cs => cyWith V (cyExec V env body) (!usesErr body) er ex cs
  | .loop n body, cs => cyIter (cyExec V env body) n cs
  | .delN, cs => cyDelN cs
def cyDispatch (V : Variant) (env : Env) : Handlers → Option Nat → CS → COut × CS
  | .nil, saved, cs => (.err, excReset cs saved)       -- goto except_error_label
  | .cons pat asn body rest, saved, cs =>
    let m := match cs.curexc with                      -- `__Pyx_PyErr_ExceptionMatches` (false on no exception)
      | some e => matchesPat env cs.ts.heap e pat
      | none => pat.isNone
    if m then
      cyHandler (cyExec V env body) asn (simpleBody body) saved cs
    else cyDispatch V env rest saved cs
end

end CyVerif.C22

import CyVerif.Model.C18Spec
/-!
Python-side reference semantics, part 2: the format-spec mini-language of `format(obj, spec)` /
f-strings for `int` and `str` objects, after CPython 3.12 `Python/formatter_unicode.c`
(`parse_internal_render_format_spec`, `format_long_internal`, `format_string_internal`,
`calc_number_widths`, `calc_padding`).

Modelled: fill/align/sign/`z`/`#`/`0`/width/grouping option/precision/type parsing with all its
`ValueError`s; rendering of ints for the presentation types `b c d o x X` without grouping option;
rendering of strs.  Not modelled (result `none`): float presentation types applied to ints
(`e f g % …`), `n`, grouping options (`,` `_`) on ints, non-ASCII decimal digits in width/precision.
Texts are code-point lists.
-/
namespace CyVerif.C18

def isAlign (c : Char) : Bool := c = '<' || c = '>' || c = '=' || c = '^'
def isSign (c : Char) : Bool := c = ' ' || c = '+' || c = '-'
/-- ASCII decimal digit -/
def isDig (c : Char) : Bool := decide ('0'.toNat ≤ c.toNat ∧ c.toNat ≤ '9'.toNat)
def digVal (c : Char) : Nat := c.toNat - 48
def digitsVal (ds : List Char) : Nat := ds.foldl (fun a c => a * 10 + digVal c) 0

/-- `PY_SSIZE_T_MAX` -/
def SSIZE_MAX : Nat := 9223372036854775807

structure FSpec where
  fill : Char
  align : Char
  sign : Option Char
  noNeg0 : Bool
  alt : Bool
  width : Option Nat
  /-- 0 = none, 1 = ',', 2 = '_' -/
  thousands : Nat
  precision : Option Nat
  type : Char
  deriving Repr, DecidableEq

/-- `[[fill]align]`: (fill, align, fill_char_specified, align_specified, rest) -/
def pFillAlign (spec : List Char) (defAlign : Char) : Char × Char × Bool × Bool × List Char :=
  match spec with
  | f :: a :: r =>
    if isAlign a then (f, a, true, true, r)
    else if isAlign f then (' ', f, false, true, a :: r)
    else (' ', defAlign, false, false, spec)
  | [f] => if isAlign f then (' ', f, false, true, []) else (' ', defAlign, false, false, spec)
  | [] => (' ', defAlign, false, false, [])

/-- `[sign]` -/
def pSign (s : List Char) : Option Char × List Char :=
  match s with
  | c :: r => if isSign c then (some c, r) else (none, s)
  | [] => (none, [])

/-- one optional flag character -/
def pFlag (flag : Char) (s : List Char) : Bool × List Char :=
  match s with
  | c :: r => if c = flag then (true, r) else (false, s)
  | [] => (false, [])

/-- `[width][grouping_option][.precision][type]`:
(width, thousands (0 none, 1 ',', 2 '_'), precision, type char if present); `none` = `ValueError` -/
def pTail (s5 : List Char) : Option (Option Nat × Nat × Option Nat × Option Char) :=
  let wd := s5.takeWhile isDig
  let s6 := s5.dropWhile isDig
  if digitsVal wd > SSIZE_MAX then none else          -- "Too many decimal digits in format string"
  let width : Option Nat := if wd.isEmpty then none else some (digitsVal wd)
  let (c1, s7) := pFlag ',' s6
  let (u, s8) := pFlag '_' s7
  if c1 ∧ u then none else                            -- "Cannot specify both ',' and '_'."
  if u ∧ s8.head? = some ',' then none else
  let th : Nat := if c1 then 1 else if u then 2 else 0
  let pr : Option (Option Nat × List Char) :=
    match s8 with
    | '.' :: r =>
      let pd := r.takeWhile isDig
      if pd.isEmpty then none                         -- "Format specifier missing precision"
      else if digitsVal pd > SSIZE_MAX then none
      else some (some (digitsVal pd), r.dropWhile isDig)
    | _ => some (none, s8)
  match pr with
  | none => none
  | some (precision, s9) =>
    match s9 with
    | [] => some (width, th, precision, none)
    | [t] => some (width, th, precision, some t)
    | _ :: _ :: _ => none                             -- "Invalid format specifier"

/-- `parse_internal_render_format_spec`; every failure (`none`) is a `ValueError` -/
def parseSpec (spec : List Char) (defType defAlign : Char) : Option FSpec :=
  let (fill, align, fillSpec, alignSpec, s1) := pFillAlign spec defAlign
  let (sign, s2) := pSign s1
  let (z, s3) := pFlag 'z' s2
  let (alt, s4) := pFlag '#' s3
  -- the special case for 0-padding
  let (zeroFlag, s5) : Bool × List Char := if fillSpec then (false, s4) else pFlag '0' s4
  let fill := if zeroFlag then '0' else fill
  let align := if zeroFlag ∧ !alignSpec ∧ defAlign = '>' then '=' else align
  match pTail s5 with
  | none => none
  | some (width, th, precision, ty) =>
    let type := ty.getD defType
    let f : FSpec := ⟨fill, align, sign, z, alt, width, th, precision, type⟩
    if th ≠ 0 then
      if type = 'd' ∨ type = 'e' ∨ type = 'f' ∨ type = 'g' ∨ type = 'E' ∨ type = 'G' ∨ type = '%' ∨
         type = 'F' then some f
      else if (type = 'b' ∨ type = 'o' ∨ type = 'x' ∨ type = 'X') ∧ th = 2 then some f
      else none                                       -- "Cannot specify ',' with 'c'." …
    else some f

end CyVerif.C18

namespace CyVerif.C18

/-- Python values of the modelled classes.  A `str` is a list of code points. -/
inductive PyVal where
  | int (v : Int)
  | str (s : List Nat)
  deriving Repr, DecidableEq

def cps (s : List Char) : List Nat := s.map Char.toNat

/-- `str(v)` / `repr(v)` of an int -/
def intStr (v : Int) : List Nat :=
  cps ((if v < 0 then ['-'] else []) ++ Nat.toDigits 10 v.natAbs)

/-- digits of `|v|` for an integer presentation type -/
def intBody (type : Char) (m : Nat) : List Nat :=
  if type = 'b' then cps (Nat.toDigits 2 m)
  else if type = 'o' then cps (Nat.toDigits 8 m)
  else if type = 'x' then cps (Nat.toDigits 16 m)
  else if type = 'X' then cps ((Nat.toDigits 16 m).map Char.toUpper)
  else cps (Nat.toDigits 10 m)

def intPrefix (type : Char) : List Nat :=
  if type = 'b' then cps ['0', 'b'] else if type = 'o' then cps ['0', 'o']
  else if type = 'x' then cps ['0', 'x'] else if type = 'X' then cps ['0', 'X'] else []

/-- `calc_number_widths` + `fill_number` without grouping: lpadding, sign, prefix, spadding, digits, rpadding -/
def numberText (f : FSpec) (neg : Bool) (pfx body : List Nat) : List Nat :=
  let sgn : List Nat :=
    if f.sign = some '+' then [if neg then '-'.toNat else '+'.toNat]
    else if f.sign = some ' ' then [if neg then '-'.toNat else ' '.toNat]
    else if neg then ['-'.toNat] else []
  let npad := f.width.getD 0 - (sgn.length + pfx.length + body.length)
  let fill := f.fill.toNat
  if f.align = '<' then sgn ++ pfx ++ body ++ List.replicate npad fill
  else if f.align = '^' then
    List.replicate (npad / 2) fill ++ sgn ++ pfx ++ body ++ List.replicate (npad - npad / 2) fill
  else if f.align = '=' then sgn ++ pfx ++ List.replicate npad fill ++ body
  else List.replicate npad fill ++ sgn ++ pfx ++ body

/-- `format_long_internal` (types `b c d o x X`, no grouping option) -/
def renderInt (f : FSpec) (v : Int) : OutU :=
  if f.precision.isSome then .err "ValueError"
  else if f.noNeg0 then .err "ValueError"
  else if f.type = 'c' then
    if f.sign.isSome then .err "ValueError"
    else if f.alt then .err "ValueError"
    else if v < 0 ∨ v > 0x10ffff then .err "OverflowError"
    else .text (numberText f false [] [v.toNat])
  else
    .text (numberText f (decide (v < 0)) (if f.alt then intPrefix f.type else []) (intBody f.type v.natAbs))

/-- `format_string_internal` -/
def renderStr (f : FSpec) (s : List Nat) : OutU :=
  if f.sign.isSome then .err "ValueError"
  else if f.noNeg0 then .err "ValueError"
  else if f.alt then .err "ValueError"
  else if f.align = '=' then .err "ValueError"
  else
    let s' := match f.precision with | some p => s.take p | none => s
    let npad := f.width.getD 0 - s'.length
    let fill := f.fill.toNat
    let lpad := if f.align = '>' then npad else if f.align = '^' then npad / 2 else 0
    .text (List.replicate lpad fill ++ s' ++ List.replicate (npad - lpad) fill)

/-- `format(val, spec)`; `none` = outside the modelled subset -/
def pyFormat (val : PyVal) (spec : List Char) : Option OutU :=
  match val with
  | .int v =>
    if spec.isEmpty then some (.text (intStr v)) else
    match parseSpec spec 'd' '>' with
    | none => some (.err "ValueError")
    | some f =>
      if f.type = 'b' ∨ f.type = 'c' ∨ f.type = 'd' ∨ f.type = 'o' ∨ f.type = 'x' ∨ f.type = 'X' then
        if f.thousands ≠ 0 then none else some (renderInt f v)
      else if f.type = 'e' ∨ f.type = 'E' ∨ f.type = 'f' ∨ f.type = 'F' ∨ f.type = 'g' ∨ f.type = 'G' ∨
          f.type = '%' ∨ f.type = 'n' then none
      else some (.err "ValueError")
  | .str s =>
    if spec.isEmpty then some (.text s) else
    match parseSpec spec 's' '<' with
    | none => some (.err "ValueError")
    | some f => if f.type = 's' then some (renderStr f s) else some (.err "ValueError")

end CyVerif.C18

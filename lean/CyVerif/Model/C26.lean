import CyVerif.Model.Util
/-!
Model of global / builtin name reads in generated code.

* `__Pyx_GetModuleGlobalName(var, name)` (Cython/Utility/ObjectHandling.c): per call site a
  `static PY_UINT64_T __pyx_dict_version = 0; static PyObject *__pyx_dict_cached_value = NULL;`
  If the module dict's `ma_version_tag` equals the stored version the cached (borrowed) value is
  returned (or, if it is NULL, `__Pyx_GetBuiltinName(name)` is called); otherwise
  `__Pyx__GetModuleGlobalName` looks the name up in the module dict, stores
  `(current tag, result-or-NULL)` into the site's statics and falls back to the builtins.
  Without `CYTHON_USE_DICT_VERSIONS` every read is the uncached lookup.
* CPython's dict version discipline (3.12 `dictobject.c`): one interpreter-wide counter; every
  insertion of a new key, every replacement by a *different* object and every deletion gives the
  mutated dict a fresh tag `counter+1`; storing the identical object again changes nothing.
* A name never bound in the module source that the compiler knows as a builtin function/type
  (declared in `Builtin.py`: `divmod`, `hex`, `oct`, …) is read with `__Pyx_GetBuiltinName` on every
  read, without consulting the module dict: site kind `builtinOnly`.
* With `Options.cache_builtins` (default) any other unbound name that exists in `builtins`
  (`round`, `vars`, `print`, …) is looked up once at module init and read from a C static afterwards
  (`entry.is_builtin and entry.is_const`): site kind `frozen`.  With `cache_builtins=False` these
  become `dynamic`.

Names, values and site ids are natural numbers; value equality stands for object identity.
-/
namespace CyVerif.C26

abbrev Name := Nat
abbrev Val := Nat

inductive Kind where
  | dynamic   -- `__Pyx_GetModuleGlobalName`
  | builtinOnly -- name known to the compiler as a builtin and never bound in the module:
                -- `__Pyx_GetBuiltinName(name)` on every read, the module dict is not consulted
  | frozen    -- builtin cached at module init (`cache_builtins`)
  deriving DecidableEq, Repr

/-- Static description of a read site: which name it reads, how. -/
structure SiteDesc where
  name : Name
  kind : Kind

structure Site where
  version : Nat := 0
  cached : Option Val := none
  deriving Repr

structure State where
  globals : Name → Option Val
  builtins : Name → Option Val
  gver : Nat                      -- ma_version_tag of the module dict
  counter : Nat                   -- interpreter-wide dict version counter
  sites : Nat → Site              -- per call-site statics
  frozen : Name → Option Val      -- builtins as seen at module init

inductive Op where
  | setG (n : Name) (v : Val)
  | delG (n : Name)
  | setB (n : Name) (v : Val)
  | delB (n : Name)
  | tick                          -- some unrelated dict in the process is mutated
  | read (site : Nat)
  deriving Repr

inductive Out where
  | done
  | missing                       -- deleting an absent key (KeyError/AttributeError), state unchanged
  | val (v : Val)
  | nameError
  deriving DecidableEq, Repr

def upd (f : Nat → Option Val) (n : Nat) (v : Option Val) : Nat → Option Val :=
  fun k => if k = n then v else f k

/-- `__Pyx_GetBuiltinName` result folded with the module-dict result. -/
def finish (g : Option Val) (b : Option Val) : Out :=
  match g with
  | some v => .val v
  | none => match b with
    | some v => .val v
    | none => .nameError

/-- One step of the implementation model. `useVer` = `CYTHON_USE_DICT_VERSIONS`. -/
def step (useVer : Bool) (desc : Nat → SiteDesc) (s : State) : Op → State × Out
  | .setG n v =>
    if s.globals n = some v then (s, .done)      -- identical object stored again: tag unchanged
    else ({ s with globals := upd s.globals n (some v), counter := s.counter + 1, gver := s.counter + 1 }, .done)
  | .delG n =>
    match s.globals n with
    | none => (s, .missing)
    | some _ => ({ s with globals := upd s.globals n none, counter := s.counter + 1, gver := s.counter + 1 }, .done)
  | .setB n v =>
    if s.builtins n = some v then (s, .done)
    else ({ s with builtins := upd s.builtins n (some v), counter := s.counter + 1 }, .done)
  | .delB n =>
    match s.builtins n with
    | none => (s, .missing)
    | some _ => ({ s with builtins := upd s.builtins n none, counter := s.counter + 1 }, .done)
  | .tick => ({ s with counter := s.counter + 1 }, .done)
  | .read i =>
    let d := desc i
    match d.kind with
    | .frozen => (s, match s.frozen d.name with | some v => .val v | none => .nameError)
    | .builtinOnly => (s, finish none (s.builtins d.name))
    | .dynamic =>
      if useVer then
        let st := s.sites i
        if st.version = s.gver then
          (s, finish st.cached (s.builtins d.name))
        else
          let r := s.globals d.name
          ({ s with sites := fun k => if k = i then { version := s.gver, cached := r } else s.sites k },
           finish r (s.builtins d.name))
      else
        (s, finish (s.globals d.name) (s.builtins d.name))

def run (useVer : Bool) (desc : Nat → SiteDesc) (s : State) : List Op → List Out
  | [] => []
  | op :: ops => let (s', o) := step useVer desc s op; o :: run useVer desc s' ops

/-! Specification: Python name resolution, no caches. -/
structure Spec where
  globals : Name → Option Val
  builtins : Name → Option Val

def specStep (desc : Nat → SiteDesc) (s : Spec) : Op → Spec × Out
  | .setG n v => ({ s with globals := upd s.globals n (some v) }, .done)
  | .delG n => match s.globals n with
    | none => (s, .missing)
    | some _ => ({ s with globals := upd s.globals n none }, .done)
  | .setB n v => ({ s with builtins := upd s.builtins n (some v) }, .done)
  | .delB n => match s.builtins n with
    | none => (s, .missing)
    | some _ => ({ s with builtins := upd s.builtins n none }, .done)
  | .tick => (s, .done)
  | .read i => (s, finish (s.globals (desc i).name) (s.builtins (desc i).name))

def specRun (desc : Nat → SiteDesc) (s : Spec) : List Op → List Out
  | [] => []
  | op :: ops => let (s', o) := specStep desc s op; o :: specRun desc s' ops

/-- Module just imported: fresh statics, module dict tag ≥ 1. -/
def init (globals builtins : Name → Option Val) (counter : Nat) : State :=
  { globals := globals, builtins := builtins, gver := counter + 1, counter := counter + 1,
    sites := fun _ => {}, frozen := builtins }

/-! ### line protocol
`run <useVer 0|1> <nsites> <site descs: name:kind …> ; ops…`
ops: `G:n:v` `D:n` `B:n:v` `E:n` `T` `R:site`; initial globals empty, builtins given as `I:n:v` ops before `;`.
-/
def parseOp (t : String) : Option Op :=
  match t.splitOn ":" with
  | ["G", n, v] => do some (.setG (← n.toNat?) (← v.toNat?))
  | ["D", n] => do some (.delG (← n.toNat?))
  | ["B", n, v] => do some (.setB (← n.toNat?) (← v.toNat?))
  | ["E", n] => do some (.delB (← n.toNat?))
  | ["T"] => some .tick
  | ["R", i] => do some (.read (← i.toNat?))
  | _ => none

def renderOut : Out → String
  | .done => "-"
  | .missing => "X"
  | .val v => toString v
  | .nameError => "NameError"

def parseDesc (t : String) : Option SiteDesc :=
  match t.splitOn ":" with
  | [n, "d"] => do some { name := (← n.toNat?), kind := .dynamic }
  | [n, "f"] => do some { name := (← n.toNat?), kind := .frozen }
  | [n, "b"] => do some { name := (← n.toNat?), kind := .builtinOnly }
  | _ => none

def parseInit (t : String) : Option (Name × Val) :=
  match t.splitOn ":" with
  | ["I", n, v] => do some ((← n.toNat?), (← v.toNat?))
  | _ => none

def handle : List String → String
  | "run" :: uv :: rest =>
    let useVer := uv == "1"
    let pre := rest.takeWhile (· ≠ ";")
    let post := (rest.dropWhile (· ≠ ";")).drop 1
    let descs := pre.filterMap parseDesc
    let inits := pre.filterMap parseInit
    if descs.length + inits.length ≠ pre.length then "bad-op" else
    match post.mapM parseOp with
    | none => "bad-op"
    | some ops =>
      let desc : Nat → SiteDesc := fun i => descs.getD i { name := 0, kind := .dynamic }
      let b : Name → Option Val := fun n => (inits.find? (·.1 = n)).map (·.2)
      let outs := run useVer desc (init (fun _ => none) b 7) ops
      "ok " ++ ",".intercalate (outs.map renderOut)
  | _ => "bad-op"

end CyVerif.C26

import CyVerif.Model.C13Ops
/-! Line protocol of the C13 models (driver side; not part of any theorem). -/
namespace CyVerif.C13
open CyVerif.C15 (Out)

def parseNats (s : String) : Option (List Nat) :=
  if s == "-" then some [] else (s.splitOn ".").mapM (·.toNat?)

def parseArg (s : String) : Option Arg :=
  if s == "!" then some .bad else (parseNats s).map .buf

/-- `s:<nats>` | `s:!` | `t:<a>,<b>,…` | `t:` -/
def parseTArg (s : String) : Option TArg :=
  if s.startsWith "s:" then (parseArg (s.drop 2).toString).map .one
  else if s == "t:" then some (.tup [])
  else if s.startsWith "t:" then ((s.drop 2).toString.splitOn ",").mapM parseArg |>.map .tup
  else none

def renderB : Out Bool → String
  | .ok true => "ok True"
  | .ok false => "ok False"
  | .err e => s!"err {e}"
  | .ub k => s!"ub {k}"

def renderI : Out Int → String
  | .ok v => s!"ok {v}"
  | .err e => s!"err {e}"
  | .ub k => s!"ub {k}"

def renderW : Option (Int × Int) → String
  | none => "ok empty"
  | some (o, n) => s!"ok {o} {n}"

def natsStr (l : List Nat) : String := if l.isEmpty then "-" else ".".intercalate (l.map toString)

def parseOps (s : String) : Option (List (Op Nat)) :=
  if s == "-" then some [] else
  (s.splitOn ";").mapM fun t =>
    if t == "p" then some .pop
    else if t.startsWith "a" then (t.drop 1).toNat?.map .append
    else if t.startsWith "i" then (t.drop 1).toInt?.map .popi
    else none

def obsStr : Obs Nat → String
  | .val v => s!"v{v}"
  | .unit => "u"
  | .exc e => s!"e{e}"

/-- values for the min/max model: ints, frozensets (bit masks, `<` = proper subset), NaN, an unorderable object -/
inductive MV where
  | int (v : Int)
  | set (m : Nat)
  | nan
  | obj
  deriving DecidableEq

def MV.str : MV → String
  | .int v => s!"i{v}"
  | .set m => s!"s{m}"
  | .nan => "n"
  | .obj => "x"

/-- Python `x < y` on these values -/
def mvLt : MV → MV → Out Bool
  | .int a, .int b => .ok (a < b)
  | .set a, .set b => .ok (a != b && (a &&& b) == a)
  | .nan, .int _ => .ok false
  | .int _, .nan => .ok false
  | .nan, .nan => .ok false
  | _, _ => .err "TypeError"

def parseThunk (s : String) : Option (Out MV) :=
  if s.startsWith "!" then some (.err (s.drop 1).toString)
  else if s == "n" then some (.ok .nan)
  else if s == "x" then some (.ok .obj)
  else if s.startsWith "i" then (s.drop 1).toInt?.map (fun v => .ok (.int v))
  else if s.startsWith "s" then (s.drop 1).toNat?.map (fun v => .ok (.set v))
  else none

def mmCall (fixed : Bool) (cmp : MV → MV → Out Bool) (thunks : List (Out MV)) : List Nat × Out MV :=
  match evalIn thunks (mmOrder fixed thunks.length) with
  | (lg, .ok vs) => (lg, (pyxMinMax cmp ((List.range thunks.length).filterMap (fun i => vs.lookup i))).2)
  | (lg, .err e) => (lg, .err e)
  | (lg, .ub k) => (lg, .ub k)

def handle : List String → String
  | ["tail", kind, fixed, dir, start, end_, self, arg] =>
    match parseInt? dir, parseInt? start, parseInt? end_, parseNats self, parseTArg arg with
    | some d, some s, some e, some sf, some a =>
      if kind == "b" then renderB (bytesTail (fixed == "1") (2 ^ 63 - 1) sf a s e d)
      else if kind == "u" then renderB (uniTail sf a s e d)
      else if kind == "py" then renderB (pyTail sf a s e d)
      else "bad-op"
    | _, _, _, _, _ => "bad-op"
  | ["win", kind, len, start, stop] =>
    match parseNat? len, parseInt? start, parseInt? stop with
    | some n, some s, some e =>
      if kind == "decb" then renderW (decodeCBytes n s e)
      else if kind == "substr" then renderW (substring n s e)
      else if kind == "py" then renderW (pyWindow n s e)
      else if kind == "decs" then
        match decodeCString (2 ^ 63 - 1) n s e with
        | .ok w => renderW w
        | .err x => s!"err {x}"
        | .ub k => s!"ub {k}"
      else "bad-op"
    | _, _, _ => "bad-op"
  | ["list", alloc, items, ops] =>
    match parseNat? alloc, parseNats items, parseOps ops with
    | some a, some it, some os =>
      if it.length > a then "bad-op" else
      match pyxRun ⟨it, a⟩ os with
      | none => "ub oob"
      | some (obs, s) => s!"ok {",".intercalate (obs.map obsStr)}|{natsStr s.items}"
    | _, _, _ => "bad-op"
  | ["pylist", items, ops] =>
    match parseNats items, parseOps ops with
    | some it, some os =>
      let (obs, l) := specRun it os
      s!"ok {",".intercalate (obs.map obsStr)}|{natsStr l}"
    | _, _ => "bad-op"
  | ["abs", oc, w, x] =>
    match parseNat? w, parseInt? x with
    | some w, some x =>
      if w = 0 ∨ x < -(2 ^ (w - 1)) ∨ x ≥ 2 ^ (w - 1) then "bad-op" else renderI (cAbs (oc == "1") w x)
    | _, _ => "bad-op"
  | "mm" :: fixed :: op :: thunks =>
    match thunks.mapM parseThunk with
    | some ts =>
      if ts.length < 2 then "bad-op" else
      let cmp : MV → MV → Out Bool := if op == "min" then mvLt else (fun x y => mvLt y x)
      if op != "min" && op != "max" then "bad-op" else
      let (lg, r) := mmCall (fixed == "1") cmp ts
      let rs := match r with
        | .ok v => s!"ok {v.str}"
        | .err e => s!"err {e}"
        | .ub k => s!"ub {k}"
      s!"{rs} log={natsStr lg}"
    | none => "bad-op"
  | ["ord", fixed, kind, vals] =>
    match parseNats vals with
    | some v =>
      let a : Option OrdArg :=
        if kind == "str" then some (.str v) else if kind == "bytes" then some (.bytes v)
        else if kind == "bytearray" then some (.bytearray v) else if kind == "other" then some .other else none
      match a with
      | some a => (match pyxOrd (fixed == "1") a with | .ok n => s!"ok {n}" | .err e => s!"err {e}" | .ub k => s!"ub {k}")
      | none => "bad-op"
    | none => "bad-op"
  | ["chr", x] =>
    match parseInt? x with
    | some x => if x < -(2 ^ 63) ∨ x ≥ 2 ^ 63 then "bad-op" else renderI (pyxChrC x)
    | none => "bad-op"
  | ["pychr", x] =>
    match parseInt? x with
    | some x => renderI (pyChr x)
    | none => "bad-op"
  | ["dget", look, dflt] =>
    -- look: f<v> | m | e<Exc>
    let l : Option (Look String) :=
      if look.startsWith "f" then some (.found (look.drop 1).toString) else if look == "m" then some .missing
      else if look.startsWith "e" then some (.error (look.drop 1).toString) else none
    match l with
    | some l => (match dictGetDefault l dflt with | .ok v => s!"ok {v}" | .err e => s!"err {e}" | .ub k => s!"ub {k}")
    | none => "bad-op"
  | ["dpop", look, dflt] =>
    let l : Option (Look String) :=
      if look.startsWith "f" then some (.found (look.drop 1).toString) else if look == "m" then some .missing
      else if look.startsWith "e" then some (.error (look.drop 1).toString) else none
    let d : Option String := if dflt == "NULL" then none else some dflt
    match l with
    | some l =>
      let (r, rm) := dictPopNew l d
      (match r with | .ok v => s!"ok {v}" | .err e => s!"err {e}" | .ub k => s!"ub {k}") ++ (if rm then " removed" else " kept")
    | none => "bad-op"
  | _ => "bad-op"

end CyVerif.C13

import CyVerif.Model.C20Rw
/-! C20 — line-protocol driver: prefix-token parser for programs, canonical printer, the concrete
truth oracle used by the harness (theorems quantify over every oracle). -/
namespace CyVerif.C20

mutual
def Val.show : Val → String
  | .atom k => s!"v{k}"
  | .sym s => s
  | .bool b => if b then "True" else "False"
  | .nil => "[]"
  | .cons h t => "[" ++ ",".intercalate (h.show :: Val.strs t) ++ "]"
  | .tup e => "T(" ++ ",".intercalate (Val.strs e) ++ ")"
  | .lst e => "L(" ++ ",".intercalate (Val.strs e) ++ ")"
  | .dict e => "D(" ++ ",".intercalate (Val.strs e) ++ ")"
  | .set e => "S(" ++ ",".intercalate ((Val.strs e).mergeSort (fun a b => !(b < a))) ++ ")"
  | .app tag args => tag ++ "(" ++ ",".intercalate (Val.strs args) ++ ")"
def Val.strs : Val → List String
  | .cons h t => h.show :: Val.strs t
  | _ => []
end

/-- structural code of a value; the harness computes the same number -/
def Val.code : Val → Nat
  | .atom k => k + 1
  | .sym s => s.length + 3
  | .bool b => if b then 1 else 0
  | .nil => 2
  | .cons h t => (h.code * 31 + t.code * 17 + 5) % 1000003
  | .tup e => (e.code + 11) % 1000003
  | .lst e => (e.code + 13) % 1000003
  | .dict e => (e.code + 17) % 1000003
  | .set e => (e.code + 19) % 1000003
  | .app tag args => (tag.length * 7 + args.code * 3 + 1) % 1000003

/-- truth oracle selected by a 32-bit mask -/
def maskTruth (mask : Nat) (v : Val) : Bool := mask.testBit (v.code % 32)

def pBool : String → Option Bool
  | "1" => some true
  | "0" => some false
  | _ => none

def parseE : Nat → List String → Option (Expr × List String)
  | 0, _ => none
  | fuel + 1, toks =>
    let p := parseE fuel
    match toks with
    | "n" :: x :: r => some (.name x, r)
    | "e" :: k :: r => k.toNat?.map (fun k => (.ev k, r))
    | "w" :: k :: r => k.toNat?.map (fun k => (.evkw k, r))
    | "i" :: py :: r => do
      let py ← pBool py; let (b, r) ← p r; let (i, r) ← p r; pure (.idx py b i, r)
    | "a" :: py :: nm :: r => do
      let py ← pBool py; let (o, r) ← p r; pure (.attr py o nm, r)
    | "+" :: r => do let (a, r) ← p r; let (b, r) ← p r; pure (.bin a b, r)
    | "<" :: r => do let (a, r) ← p r; let (b, r) ← p r; pure (.cmp2 a b, r)
    | "<<" :: r => do let (a, r) ← p r; let (b, r) ← p r; let (d, r) ← p r; pure (.cmp3 a b d, r)
    | "&" :: r => do let (a, r) ← p r; let (b, r) ← p r; pure (.and_ a b, r)
    | "|" :: r => do let (a, r) ← p r; let (b, r) ← p r; pure (.or_ a b, r)
    | "!" :: r => do let (a, r) ← p r; pure (.not_ a, r)
    | "?" :: r => do let (g, r) ← p r; let (a, r) ← p r; let (b, r) ← p r; pure (.cond g a b, r)
    | "T" :: r => do let (a, r) ← p r; pure (.tuple a, r)
    | "L" :: r => do let (a, r) ← p r; pure (.list a, r)
    | "S" :: r => do let (a, r) ← p r; pure (.set a, r)
    | "D" :: r => do let (a, r) ← p r; pure (.dict a, r)
    | "." :: r => some (.anil, r)
    | "," :: r => do let (h, r) ← p r; let (t, r) ← p r; pure (.acons h t, r)
    | "*" :: r => do let (a, r) ← p r; pure (.star a, r)
    | "**" :: r => do let (a, r) ← p r; pure (.dstar a, r)
    | "k" :: nm :: r => do let (a, r) ← p r; pure (.kw nm a, r)
    | ":" :: r => do let (a, r) ← p r; let (b, r) ← p r; pure (.kv a b, r)
    | "c" :: r => do let (f, r) ← p r; let (a, r) ← p r; let (k, r) ← p r; pure (.call f a k, r)
    | _ => none

def parseT (fuel : Nat) : List String → Option (Tgt × List String)
  | "tn" :: x :: r => some (.name x, r)
  | "ti" :: py :: r => do
    let py ← pBool py; let (b, r) ← parseE fuel r; let (i, r) ← parseE fuel r; pure (.idx py b i, r)
  | "ta" :: py :: nm :: r => do
    let py ← pBool py; let (o, r) ← parseE fuel r; pure (.attr py o nm, r)
  | _ => none

def parseLT : Nat → List String → Option (LT × List String)
  | 0, _ => none
  | fuel + 1, toks =>
    match toks with
    | "lf" :: r => do let (t, r) ← parseT fuel r; pure (.leaf t, r)
    | "sn" :: r => some (.snil, r)
    | "sc" :: s :: r => do
      let s ← pBool s; let (h, r) ← parseLT fuel r; let (tl, r) ← parseLT fuel r; pure (.scons s h tl, r)
    | "sq" :: r => do let (b, r) ← parseLT fuel r; pure (.seq b, r)
    | _ => none

def parseLTs (fuel : Nat) : Nat → List String → Option (List LT × List String)
  | 0, r => some ([], r)
  | n + 1, r => do
    let (l, r) ← parseLT fuel r; let (ls, r) ← parseLTs fuel n r; pure (l :: ls, r)

def parseS (fuel : Nat) : List String → Option (Stmt × List String)
  | "=" :: n :: r => do
    let n ← n.toNat?; let (ls, r) ← parseLTs fuel n r; let (e, r) ← parseE fuel r; pure (.assign ls e, r)
  | "+=" :: r => do let (t, r) ← parseT fuel r; let (e, r) ← parseE fuel r; pure (.aug t e, r)
  | "x" :: r => do let (e, r) ← parseE fuel r; pure (.expr e, r)
  | _ => none

def parseProg (fuel : Nat) : Nat → List String → Option (List Stmt)
  | 0, [] => some []
  | 0, _ => none
  | n + 1, r => do let (s, r) ← parseS fuel r; let ss ← parseProg fuel n r; pure (s :: ss)

def initStore : Store := []

def isLeafEv : Val → Bool
  | .app "ev" _ => true
  | _ => false

/-- collapse immediately repeated `bool(v)` events (printing only) -/
def dedupeBool : Trace → Trace
  | a :: b :: r =>
    if a == b && (match a with | .app "bool" _ => true | _ => false) then dedupeBool (b :: r)
    else a :: dedupeBool (b :: r)
  | l => l

def render (leafOnly : Bool) (names : List String) (res : Trace × Store) : String :=
  let tr := if leafOnly then res.1.filter isLeafEv else dedupeBool res.1
  let t := ";".intercalate (tr.map Val.show)
  let b := if leafOnly then "" else ";".intercalate (names.map fun x => x ++ "=" ++ (res.2.get x).show)
  "ok " ++ (if t.isEmpty then "-" else t) ++ " | " ++ (if b.isEmpty then "-" else b)

/-- `run <ref|cy> <full|leaf> <fixInplace> <fixStar> <vecMethod> <eagerStar> <mask> <names,comma> <nstmts> <tokens…>` -/
def handle : List String → String
  | "run" :: which :: mode :: fi :: fs :: vm :: es :: mask :: names :: n :: toks =>
    match pBool fi, pBool fs, pBool vm, pBool es, mask.toNat?, n.toNat? with
    | some fi, some fs, some vm, some es, some mask, some n =>
      match parseProg (toks.length + 1) n toks with
      | none => "bad-op"
      | some prog =>
        let c : Cfg := { vecMethod := vm, eagerStar := es }
        let τ := maskTruth mask
        let names := (names.splitOn ",").filter (· ≠ "")
        let leaf := mode == "leaf"
        if which == "ref" then render leaf names (runRef {} τ prog initStore)
        else if which == "cy" then
          match runCy { fixInplace := fi, fixStar := fs } c τ prog initStore with
          | some r => render leaf names r
          | none => "err unmodelled"
        else "bad-op"
    | _, _, _, _, _, _ => "bad-op"
  | _ => "bad-op"

end CyVerif.C20

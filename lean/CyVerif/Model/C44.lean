import CyVerif.Model.Util
/-!
Model for property C44 (code positions / line table).

* Encoder: `Cython/Compiler/LineTable.py` — `build_line_table`,
  `encode_single_position`, `encode_location_short`, `encode_location_oneline`,
  `encode_location_start`, `encode_varint`, as the pure-Python source behaves
  (Python ints are unbounded; `assert` statements are active; `f"{v:c}"` of a
  negative value raises `OverflowError`).  The table is a list of code points
  (the real function returns a `str` that the caller encodes as iso8859-1).
  The five thresholds of `encode_single_position` and the line that is
  carried to the next entry (`return end_lineno` in the pinned source) are
  parameters, re-extracted from the current source on every run.
* Decoder: CPython 3.12 `Objects/codeobject.c` — `advance_with_locations`,
  `read_varint`, `read_signed_varint`, `positionsiter_next`
  (`code.co_positions()`), and the line-only scanner `advance` /
  `get_line_delta` / `scan_signed_varint` that `co_lines()` and
  `PyCode_Addr2Line` use (it finds the next entry by looking for a byte with
  bit 7 set).  Format: `InternalDocs/locations.md`.
  C `int`/`unsigned int` are 32 bit: a varint with more than 6 chunks shifts by
  >= 32 (undefined), a value >= 2^32 is truncated, a value >= 2^31 converted to
  `int` is implementation defined, `int` addition may overflow.  All of these
  are reported by the model as `none` ("outside the modelled C behaviour"),
  as is reading past the end of the table.
-/
namespace CyVerif.C44

/-- Thresholds of `encode_single_position` and the carried line. -/
structure Params where
  /-- `start_column < 80` (short form) -/
  shortCol : Nat
  /-- `0 <= end_column - start_column < 16` (short form) -/
  shortWidth : Nat
  /-- `0 <= last_lineno_delta < 3` (one-line form) -/
  oneDelta : Nat
  /-- `start_column < 128` (one-line form) -/
  oneColS : Nat
  /-- `end_column < 128` (one-line form) -/
  oneColE : Nat
  /-- the long form ends with `return start_lineno` (true) or `return end_lineno` (false, pinned source) -/
  retStart : Bool
  deriving DecidableEq, Repr

/-- The values in the pinned source. -/
def Params.pinned : Params := ⟨80, 16, 3, 128, 128, false⟩

/-- What the proofs need from the thresholds: short-form codes stay in 0..9,
the width fits 4 bits, one-line codes stay in 10..12, column bytes keep bit 7
clear. -/
def Params.WF (P : Params) : Prop :=
  P.shortCol ≤ 80 ∧ P.shortWidth ≤ 16 ∧ P.oneDelta ≤ 3 ∧ P.oneColS ≤ 128 ∧ P.oneColE ≤ 128

instance (P : Params) : Decidable P.WF := by unfold Params.WF; infer_instance

/-- `(start_lineno, end_lineno, start_column, end_column)` -/
structure Pos where
  sl : Int
  el : Int
  sc : Int
  ec : Int
  deriving DecidableEq, Repr

/-! ## Encoder -/

/-- `encode_varint`: `while value >= 64: append(chr(64 | (value & 63))); value >>= 6` then `append(chr(value))`.
(The `assert value > 0 or value == 0` is checked by the caller model, which only passes naturals.) -/
def encodeVarint (v : Nat) : List Nat :=
  if 64 ≤ v then (64 ||| (v &&& 63)) :: encodeVarint (v >>> 6) else [v]
termination_by v
decreasing_by simp only [Nat.shiftRight_eq_div_pow]; omega

/-- The line the encoder carries to the next entry. -/
def carry (P : Params) (p : Pos) : Int := if P.retStart then p.sl else p.el

/-- `encode_single_position`: bytes appended and the returned `last_lineno`. -/
def encodeOne (P : Params) (last : Int) (p : Pos) : Res (List Nat × Int) :=
  -- assert start_lineno >= last_lineno
  if p.sl < last then .err "AssertionError" else
  let delta := p.sl - last
  if p.el = p.sl ∧ delta = 0 ∧ p.sc < P.shortCol ∧ 0 ≤ p.ec - p.sc ∧ p.ec - p.sc < P.shortWidth then
    -- encode_location_short: f"{128 | (code << 3):c}{(low_bits << 4) | (end_column - start_column):c}"
    -- negative start_column: code < 0, `128 | (code << 3)` < 0, "%c arg not in range"
    if p.sc < 0 then .err "OverflowError" else
      let sc := p.sc.toNat
      .ok ([128 ||| ((sc >>> 3) <<< 3), ((sc &&& 7) <<< 4) ||| (p.ec - p.sc).toNat], p.el)
  else if p.el = p.sl ∧ 0 ≤ delta ∧ delta < P.oneDelta ∧ p.sc < P.oneColS ∧ p.ec < P.oneColE then
    -- encode_location_oneline: f"{128 | (code << 3):c}{start_column:c}{end_column:c}", code = 10 + line_delta
    if p.sc < 0 ∨ p.ec < 0 then .err "OverflowError" else
      .ok ([128 ||| ((10 + delta.toNat) <<< 3), p.sc.toNat, p.ec.toNat], p.el)
  else
    -- long form (code 14); encode_varint asserts `value > 0 or value == 0`
    if p.el - p.sl < 0 ∨ p.sc + 1 < 0 ∨ p.ec + 1 < 0 then .err "AssertionError" else
      .ok ((128 ||| (14 <<< 3)) ::
             (encodeVarint (delta.toNat <<< 1) ++ encodeVarint (p.el - p.sl).toNat ++
              encodeVarint (p.sc + 1).toNat ++ encodeVarint (p.ec + 1).toNat),
           carry P p)

/-- The loop of `build_line_table` starting with `last_lineno = last`. -/
def encodeFrom (P : Params) : Int → List Pos → Res (List Nat)
  | _, [] => .ok []
  | last, p :: ps =>
    match encodeOne P last p with
    | .err e => .err e
    | .ok (bs, last') =>
      match encodeFrom P last' ps with
      | .err e => .err e
      | .ok rest => .ok (bs ++ rest)

/-- `build_line_table(positions, firstlineno)` (code points of the returned `str`). -/
def buildLineTable (P : Params) (ps : List Pos) (first : Int) : Res (List Nat) :=
  encodeFrom P first ps

/-! ## Decoder (CPython 3.12) -/

/-- Location as the C code holds it: four `int`s, `-1` meaning "no value". -/
structure Loc where
  line : Int
  endLine : Int
  col : Int
  endCol : Int
  deriving DecidableEq, Repr

/-- Value, number of chunks and remaining bytes of a little-endian base-64
varint (bit 6 = "more chunks follow"); `none` when the table ends inside it.
`val = read & 63; while (read & 64) { read = next; shift += 6; val |= (read & 63) << shift; }` -/
def readVarintRaw : List Nat → Option (Nat × Nat × List Nat)
  | [] => none
  | b :: rest =>
    if b &&& 64 ≠ 0 then
      match readVarintRaw rest with
      | none => none
      | some (v, n, r) => some ((b &&& 63) + 64 * v, n + 1, r)
    else some (b &&& 63, 1, rest)

/-- `read_varint` with a 32-bit `unsigned int` accumulator: defined and exact
only for at most 6 chunks (shift <= 30) and a value below 2^32. -/
def readVarint (bs : List Nat) : Option (Nat × List Nat) :=
  match readVarintRaw bs with
  | none => none
  | some (v, n, r) => if n ≤ 6 ∧ v < 4294967296 then some (v, r) else none

/-- `read_signed_varint`: `uval & 1 ? -(int)(uval >> 1) : uval >> 1` -/
def svarint (u : Nat) : Int :=
  if u &&& 1 ≠ 0 then -((u >>> 1 : Nat) : Int) else ((u >>> 1 : Nat) : Int)

/-- The value fits a C `int`. -/
def inInt (x : Int) : Prop := -2147483648 ≤ x ∧ x < 2147483648

instance (x : Int) : Decidable (inInt x) := by unfold inInt; infer_instance

/-- `advance_with_locations`: decode the entry at the head of `bs` with
`computed_line = line`; result: location, length in code units, new
`computed_line`, remaining bytes. -/
def decodeEntry (line : Int) : List Nat → Option (Loc × Nat × Int × List Nat)
  | [] => none
  | b :: rest =>
    let code := (b >>> 3) &&& 15
    let len := (b &&& 7) + 1
    if code = 15 then
      -- PY_CODE_LOCATION_INFO_NONE
      some (⟨-1, -1, -1, -1⟩, len, line, rest)
    else if code = 14 then
      -- PY_CODE_LOCATION_INFO_LONG
      match readVarint rest with
      | none => none
      | some (u, r1) =>
        let line' := line + svarint u
        if ¬ inInt line' then none else
        match readVarint r1 with
        | none => none
        | some (a, r2) =>
          if ¬ (a < 2147483648 ∧ inInt (line' + a)) then none else
          match readVarint r2 with
          | none => none
          | some (c, r3) =>
            if ¬ c < 2147483648 then none else
            match readVarint r3 with
            | none => none
            | some (e, r4) =>
              if ¬ e < 2147483648 then none else
              some (⟨line', line' + a, (c : Int) - 1, (e : Int) - 1⟩, len, line', r4)
    else if code = 13 then
      -- PY_CODE_LOCATION_INFO_NO_COLUMNS
      match readVarint rest with
      | none => none
      | some (u, r1) =>
        let line' := line + svarint u
        if ¬ inInt line' then none else
        some (⟨line', line', -1, -1⟩, len, line', r1)
    else if 10 ≤ code then
      -- PY_CODE_LOCATION_INFO_ONE_LINE0..2
      match rest with
      | c :: e :: r =>
        let line' := line + ((code - 10 : Nat) : Int)
        if ¬ inInt line' then none else
        some (⟨line', line', c, e⟩, len, line', r)
      | _ => none
    else
      -- short forms: column = code << 3 | (second_byte >> 4); endcolumn = column + (second_byte & 15)
      match rest with
      | s :: r =>
        let col := (code <<< 3) ||| (s >>> 4)
        some (⟨line, line, col, ((col + (s &&& 15) : Nat) : Int)⟩, len, line, r)
      | [] => none

/-- `positionsiter_next` until `at_end`: every entry is yielded once per code
unit it covers.  `fuel` bounds the number of entries (each consumes a byte). -/
def decodeLoop : Nat → Int → List Nat → Option (List Loc)
  | 0, _, _ => none
  | fuel + 1, line, bs =>
    match bs with
    | [] => some []
    | _ :: _ =>
      match decodeEntry line bs with
      | none => none
      | some (loc, len, line', rest) =>
        match decodeLoop fuel line' rest with
        | none => none
        | some locs => some (List.replicate len loc ++ locs)

/-- `list(code.co_positions())` before `_source_offset_converter`. -/
def decode (bs : List Nat) (first : Int) : Option (List Loc) :=
  decodeLoop (bs.length + 1) first bs

/-- `_source_offset_converter`: `-1` is shown as `None`. -/
def toPy (x : Int) : Option Int := if x = -1 then none else some x

/-- The location a recorded position should decode to. -/
def Pos.toLoc (p : Pos) : Loc := ⟨p.sl, p.el, p.sc, p.ec⟩

/-! ### Line-only scanner (`advance`, used by `co_lines()` / `PyCode_Addr2Line`) -/

/-- `get_line_delta(ptr)`; `none` = outside the modelled C behaviour. -/
def lineDelta : List Nat → Option Int
  | [] => none
  | b :: rest =>
    let code := (b >>> 3) &&& 15
    if code = 15 then some 0
    else if code = 13 ∨ code = 14 then
      match readVarint rest with
      | none => none
      | some (u, _) => some (svarint u)
    else if code = 10 then some 0
    else if code = 11 then some 1
    else if code = 12 then some 2
    else some 0

/-- `do { lo_next++; } while (lo_next < limit && ((*lo_next) & 128) == 0);` after the first byte. -/
def skipEntry : List Nat → List Nat
  | [] => []
  | b :: rest => if b &&& 128 = 0 then skipEntry rest else b :: rest

/-- Repeated `advance`: per entry `(ar_line, length in code units)`, `ar_line = -1` for code 15. -/
def scanLoop : Nat → Int → List Nat → Option (List (Int × Nat))
  | 0, _, _ => none
  | fuel + 1, line, bs =>
    match bs with
    | [] => some []
    | b :: rest =>
      match lineDelta bs with
      | none => none
      | some d =>
        let line' := line + d
        if ¬ inInt line' then none else
        let ar := if b >>> 3 = 0x1f then -1 else line'
        match scanLoop fuel line' (skipEntry rest) with
        | none => none
        | some xs => some ((ar, (b &&& 7) + 1) :: xs)

def scanLines (bs : List Nat) (first : Int) : Option (List (Int × Nat)) :=
  scanLoop (bs.length + 1) first bs

/-! ## Documented input domain -/

/-- Start-sorted from `last`, `start <= end` lines, non-negative columns,
lines `<= INT_MAX`, columns `< INT_MAX` (the encoder adds 1 to columns in a
C `int` when compiled; CPython reads them into `int`). -/
def domFrom : Int → List Pos → Bool
  | _, [] => true
  | last, p :: ps =>
    decide (last ≤ p.sl ∧ p.sl ≤ p.el ∧ p.el < 2147483648 ∧
            0 ≤ p.sc ∧ p.sc < 2147483647 ∧ 0 ≤ p.ec ∧ p.ec < 2147483647) && domFrom p.sl ps

/-- The documented domain of `build_line_table(positions, firstlineno)`. -/
def Dom (first : Int) (ps : List Pos) : Prop := 0 ≤ first ∧ domFrom first ps = true

instance (first : Int) (ps : List Pos) : Decidable (Dom first ps) := by unfold Dom; infer_instance

/-- No entry other than the last one spans several lines. -/
def innerSingleLine : List Pos → Bool
  | [] => true
  | [_] => true
  | p :: q :: ps => decide (p.el = p.sl) && innerSingleLine (q :: ps)

/-! ## What the compiler records: `AnalyseExpressionsTransform._build_positions` -/

/-- The loop of `_build_positions` over the node positions sorted in DESCENDING (line, column) order:
`ranges.append((line, line, start_column, next_column_in_line if line == next_line else start_column + 1))`
followed by `next_line, next_column_in_line = line, start_column`. -/
def rangesDesc : Int → Int → List (Int × Int) → List Pos
  | _, _, [] => []
  | nl, nc, (line, col) :: rest =>
    ⟨line, line, col, if line = nl then nc else col + 1⟩ :: rangesDesc line col rest

/-- `func_node.node_positions` for node positions `desc` given as `sorted(..., reverse=True)` returns them
(initially `next_line = -1`, `next_column_in_line = 0`; `ranges.reverse()` at the end). -/
def buildPositions (desc : List (Int × Int)) : List Pos := (rangesDesc (-1) 0 desc).reverse

/-! ## Line protocol -/

def parseParams (s : String) : Option Params :=
  match (s.splitOn ",").map String.toNat? with
  | [some a, some b, some c, some d, some e, some r] =>
    if r ≤ 1 then some ⟨a, b, c, d, e, r == 1⟩ else none
  | _ => none

def parsePos (s : String) : Option Pos :=
  match (s.splitOn ",").map String.toInt? with
  | [some a, some b, some c, some d] => some ⟨a, b, c, d⟩
  | _ => none

def parsePair (s : String) : Option (Int × Int) :=
  match (s.splitOn ",").map String.toInt? with
  | [some a, some b] => some (a, b)
  | _ => none

def parsePairList (s : String) : Option (List (Int × Int)) :=
  if s == "-" then some [] else (s.splitOn ";").mapM parsePair

def showPos (p : Pos) : String := s!"{p.sl},{p.el},{p.sc},{p.ec}"

def parsePosList (s : String) : Option (List Pos) :=
  if s == "-" then some [] else (s.splitOn ";").mapM parsePos

def parseNatList (s : String) : Option (List Nat) :=
  if s == "-" then some [] else (s.splitOn ",").mapM String.toNat?

def showNats (xs : List Nat) : String :=
  if xs.isEmpty then "-" else ",".intercalate (xs.map toString)

def showOpt (x : Int) : String :=
  match toPy x with
  | none => "N"
  | some v => toString v

def showLoc (l : Loc) : String :=
  showOpt l.line ++ "," ++ showOpt l.endLine ++ "," ++ showOpt l.col ++ "," ++ showOpt l.endCol

def showLocs (ls : List Loc) : String :=
  if ls.isEmpty then "-" else ";".intercalate (ls.map showLoc)

def showLines (ls : List (Int × Nat)) : String :=
  if ls.isEmpty then "-" else ";".intercalate (ls.map fun (l, n) => showOpt l ++ "," ++ toString n)

/-- `enc <params> <first> <positions>` → `ok <code points>` | `err <Exception>`;
`dec <first> <bytes>` → `ok <locations>` | `ub outside-c-model`;
`lines <first> <bytes>` → `ok <line,len;…>` | `ub outside-c-model`;
`dom <first> <positions>` → `ok true|false`;
`bp <line,col;…>` (descending) → `ok <positions>` (`_build_positions`). -/
def handle : List String → String
  | ["enc", p, first, ps] =>
    match parseParams p, parseInt? first, parsePosList ps with
    | some P, some f, some ps =>
      match buildLineTable P ps f with
      | .ok bs => "ok " ++ showNats bs
      | .err e => "err " ++ e
    | _, _, _ => "bad-op"
  | ["dec", first, bs] =>
    match parseInt? first, parseNatList bs with
    | some f, some bs =>
      if bs.all (· < 256) then
        match decode bs f with
        | some ls => "ok " ++ showLocs ls
        | none => "ub outside-c-model"
      else "bad-op"
    | _, _ => "bad-op"
  | ["lines", first, bs] =>
    match parseInt? first, parseNatList bs with
    | some f, some bs =>
      if bs.all (· < 256) then
        match scanLines bs f with
        | some ls => "ok " ++ showLines ls
        | none => "ub outside-c-model"
      else "bad-op"
    | _, _ => "bad-op"
  | ["bp", desc] =>
    match parsePairList desc with
    | some d =>
      let ps := buildPositions d
      "ok " ++ (if ps.isEmpty then "-" else ";".intercalate (ps.map showPos))
    | none => "bad-op"
  | ["dom", first, ps] =>
    match parseInt? first, parsePosList ps with
    | some f, some ps => "ok " ++ toString (decide (Dom f ps))
    | _, _ => "bad-op"
  | _ => "bad-op"

end CyVerif.C44

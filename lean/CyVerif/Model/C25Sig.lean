import CyVerif.Model.Util
/-!
# C25 (signature part) — what a compiled function exposes about its parameter list

Three things are modelled.

* `encode` — the fields a CyFunction and its code object expose for a source
  parameter list (`Cython/Utility/CythonFunction.c` getters `__code__`,
  `__defaults__`, `__kwdefaults__`; the code object is built by
  `Cython/Compiler/ExprNodes.py:CodeObjectNode`): `co_argcount`,
  `co_posonlyargcount`, `co_kwonlyargcount`, `co_varnames` (positional names,
  keyword-only names, `*args` name, `**kwargs` name, then the other locals),
  the flags `CO_VARARGS` / `CO_VARKEYWORDS`, `__defaults__`, `__kwdefaults__`.
* `decodeParams` / `decode` — a transcription of CPython 3.12
  `inspect._signature_from_function` (Lib/inspect.py), the reader of those
  fields used by `inspect.signature` for every "function-like" object.
* `fmtArglist` — `EmbedSignature._fmt_arglist` of
  `Cython/Compiler/AutoDocTransforms.py` (python format, annotations left out),
  with Python's `list.insert` modelled by `pyInsert`, and `readItems`, the
  reader of the embedded text following the Python grammar of parameter lists.

Default values are opaque identifiers (`d0`, `d1`, …): this part says which
default belongs to which parameter, not how a default is printed.

## Line protocol (`C25Sig <op> <arg>`, every argument is one space-free token)

* param        `name` | `name=dflt`
* param list   params joined by `,`; the empty list is `-`
* sig          `posonly|normal|vararg|kwonly|varkw`   (`-` = absent / empty),
               e.g. `a,b=d0|c=d1|args|k=d2,m|kw`
* fields       `argcount|posonlyargcount|kwonlyargcount|varnames|flags|defaults|kwdefaults`
               varnames: names joined by `,` (`-` = empty); flags: two characters
               `0`/`1` for CO_VARARGS, CO_VARKEYWORDS; defaults: `-` = None, `_` = `()`,
               else ids joined by `,`; kwdefaults: `-` = None, `_` = `{}`, else `name=id,…`
* items        `name`, `name=dflt`, `/`, `*`, `*name`, `**name` joined by `,` (`-` = empty)

ops: `enc <sig>` → `ok <fields>`;  `dec <fields>` → `ok <sig>` | `err IndexError`;
`fmt <sig>` → `ok <items>`;  `read <items>` → `ok <sig>` | `err SyntaxError`;
`wf <sig>` → `ok 1` | `ok 0`.  Anything unparsable → `bad-op`.
-/
namespace CyVerif.C25Sig

/-- A source parameter: its name and (the opaque identity of) its default. -/
structure Param where
  name : String
  dflt : Option String
  deriving DecidableEq, Repr

/-- `def f(posonly…, /, normal…, *vararg, kwonly…, **varkw)`. -/
structure Sig where
  posonly : List Param
  normal : List Param
  vararg : Option String
  kwonly : List Param
  varkw : Option String
  deriving DecidableEq, Repr

/-- Python's rule for positional parameters: after the first parameter with a
default every later one has a default (`SyntaxError: non-default argument
follows default argument` otherwise). -/
def trailingOK : List Param → Bool
  | [] => true
  | p :: ps => if p.dflt.isSome then ps.all (·.dflt.isSome) else trailingOK ps

/-- Well-formed source signature: the default rule, and keyword-only names are
pairwise distinct (`SyntaxError: duplicate argument` otherwise; the
`__kwdefaults__` dictionary is keyed by name). -/
def Sig.WF (s : Sig) : Prop :=
  trailingOK (s.posonly ++ s.normal) = true ∧ (s.kwonly.map (·.name)).Nodup

instance (s : Sig) : Decidable s.WF := by unfold Sig.WF; exact inferInstance

/-- What the function object and its code object expose. -/
structure FuncFields where
  argcount : Nat
  posonlyargcount : Nat
  kwonlyargcount : Nat
  varnames : List String
  varargs : Bool
  varkeywords : Bool
  defaults : Option (List String)
  kwdefaults : Option (List (String × String))
  deriving DecidableEq, Repr

/-- the values of `__defaults__`: the defaults of the positional parameters in order -/
def defaultsOf (ps : List Param) : List String := ps.filterMap (·.dflt)

/-- the items of `__kwdefaults__`: keyword-only parameters having a default -/
def kwPairs (ps : List Param) : List (String × String) :=
  ps.filterMap fun p => p.dflt.map fun d => (p.name, d)

/-- `None` instead of an empty tuple / dict. -/
def noneIfEmpty {α} (l : List α) : Option (List α) := if l.isEmpty then none else some l

/-- Fields exposed for signature `s` of a function whose other local variables
are `locals` (they follow the parameters in `co_varnames`). -/
def encodeWith (s : Sig) (locals : List String) : FuncFields :=
  let pos := s.posonly ++ s.normal
  { argcount := pos.length
    posonlyargcount := s.posonly.length
    kwonlyargcount := s.kwonly.length
    varnames := pos.map (·.name) ++ s.kwonly.map (·.name) ++ s.vararg.toList ++ s.varkw.toList ++ locals
    varargs := s.vararg.isSome
    varkeywords := s.varkw.isSome
    defaults := noneIfEmpty (defaultsOf pos)
    kwdefaults := noneIfEmpty (kwPairs s.kwonly) }

def encode (s : Sig) : FuncFields := encodeWith s []

/-! ### `inspect._signature_from_function` -/

inductive Kind where
  | posOnly | posOrKw | varPos | kwOnly | varKw
  deriving DecidableEq, Repr

/-- `inspect.Parameter(name, kind=…, default=…)` (`none` = `Parameter.empty`). -/
structure Parameter where
  name : String
  kind : Kind
  dflt : Option String
  deriving DecidableEq, Repr

/-- `kind = _POSITIONAL_ONLY if posonly_left else _POSITIONAL_OR_KEYWORD;
     if posonly_left: posonly_left -= 1` -/
def stepKind (left : Nat) : Kind × Nat :=
  if left ≠ 0 then (.posOnly, left - 1) else (.posOrKw, left)

/-- `for name in positional[:non_default_count]:` — returns the parameters and
the final `posonly_left`. -/
def loop1 : List String → Nat → List Parameter × Nat
  | [], left => ([], left)
  | n :: ns, left =>
    let r := loop1 ns (stepKind left).2
    (⟨n, (stepKind left).1, none⟩ :: r.1, r.2)

/-- `for offset, name in enumerate(positional[non_default_count:]):` with
`default=defaults[offset]` (`none` = IndexError). -/
def loop2 (defaults : List String) : List String → Nat → Nat → Option (List Parameter)
  | [], _, _ => some []
  | n :: ns, offset, left =>
    match defaults[offset]? with
    | none => none
    | some d =>
      match loop2 defaults ns (offset + 1) (stepKind left).2 with
      | none => none
      | some r => some (⟨n, (stepKind left).1, some d⟩ :: r)

/-- `dict.get(name, _empty)` on the item list of a dictionary. -/
def assoc : List (String × String) → String → Option String
  | [], _ => none
  | (k, v) :: r, n => if k = n then some v else assoc r n

/-- `default = _empty; if kwdefaults is not None: default = kwdefaults.get(name, _empty)` -/
def kwLookup (kwd : Option (List (String × String))) (n : String) : Option String :=
  match kwd with
  | none => none
  | some d => assoc d n

/-- The parameter list built by `_signature_from_function`; `none` = the
IndexError of `arg_names[index]` / `defaults[offset]`.  (A `__defaults__`
longer than `co_argcount` makes `non_default_count` negative; CPython then
slices from the end — that case is outside the model and answered `none`.) -/
def decodeParams (f : FuncFields) : Option (List Parameter) :=
  let posCount := f.argcount
  let argNames := f.varnames
  let positional := argNames.take posCount
  let kwOnlyCount := f.kwonlyargcount
  let keywordOnly := (argNames.take (posCount + kwOnlyCount)).drop posCount
  -- `if defaults: pos_default_count = len(defaults) else: 0`  (None and () alike)
  let defaults := f.defaults.getD []
  let posDefaultCount := defaults.length
  if posCount < posDefaultCount then none else
  let nonDefaultCount := posCount - posDefaultCount
  let r1 := loop1 (positional.take nonDefaultCount) f.posonlyargcount
  match loop2 defaults (positional.drop nonDefaultCount) 0 r1.2 with
  | none => none
  | some p2 =>
    -- *args
    let star : Option (List Parameter) :=
      if f.varargs then
        match argNames[posCount + kwOnlyCount]? with
        | none => none
        | some n => some [⟨n, .varPos, none⟩]
      else some []
    match star with
    | none => none
    | some pstar =>
      let pkw := keywordOnly.map fun n => (⟨n, .kwOnly, kwLookup f.kwdefaults n⟩ : Parameter)
      -- **kwargs
      let dstar : Option (List Parameter) :=
        if f.varkeywords then
          let index := posCount + kwOnlyCount
          let index := if f.varargs then index + 1 else index
          match argNames[index]? with
          | none => none
          | some n => some [⟨n, .varKw, none⟩]
        else some []
      match dstar with
      | none => none
      | some pdstar => some (r1.1 ++ p2 ++ pstar ++ pkw ++ pdstar)

def mkP (k : Kind) (p : Param) : Parameter := ⟨p.name, k, p.dflt⟩

/-- The ordered parameter list of a source signature (what
`inspect.signature` of the plain Python function shows). -/
def Sig.params (s : Sig) : List Parameter :=
  s.posonly.map (mkP .posOnly)
  ++ s.normal.map (mkP .posOrKw)
  ++ s.vararg.toList.map (fun n => ⟨n, .varPos, none⟩)
  ++ s.kwonly.map (mkP .kwOnly)
  ++ s.varkw.toList.map (fun n => ⟨n, .varKw, none⟩)

def pick (k : Kind) (ps : List Parameter) : List Param :=
  ps.filterMap fun p => if p.kind = k then some ⟨p.name, p.dflt⟩ else none

/-- Group a parameter list by kind. -/
def ofParams (ps : List Parameter) : Sig :=
  { posonly := pick .posOnly ps
    normal := pick .posOrKw ps
    vararg := ((pick .varPos ps).map (·.name)).head?
    kwonly := pick .kwOnly ps
    varkw := ((pick .varKw ps).map (·.name)).head? }

def decode (f : FuncFields) : Option Sig := (decodeParams f).map ofParams

/-! ### `EmbedSignature._fmt_arglist` -/

inductive SigItem where
  | param (name : String) (dflt : Option String)
  | slash
  | star (name : Option String)
  | dstar (name : String)
  deriving DecidableEq, Repr

/-- Python `l.insert(i, x)` for `i ≥ 0` (an index past the end appends). -/
def pyInsert {α} (l : List α) (i : Nat) (x : α) : List α := l.take i ++ x :: l.drop i

/-- `_fmt_arglist(args, npoargs, npargs, pargs, nkargs, kargs)` with
`args = node.args` (positional-only, normal, keyword-only, in this order):
first `'*…'` is inserted at `npargs + npoargs`, THEN `'/'` at `npoargs`. -/
def fmtArglist (s : Sig) : List SigItem :=
  let args := s.posonly ++ s.normal ++ s.kwonly
  let npoargs := s.posonly.length
  let npargs := s.normal.length
  let nkargs := s.kwonly.length
  let arglist := args.map fun p => SigItem.param p.name p.dflt
  let arglist :=
    match s.vararg with
    | some v => pyInsert arglist (npargs + npoargs) (.star (some v))
    | none => if nkargs ≠ 0 then pyInsert arglist (npargs + npoargs) (.star none) else arglist
  let arglist := if npoargs ≠ 0 then pyInsert arglist npoargs .slash else arglist
  match s.varkw with
  | some k => arglist ++ [.dstar k]
  | none => arglist

/-- The obvious rendering of a signature. -/
def fmtSpec (s : Sig) : List SigItem :=
  s.posonly.map (fun p => .param p.name p.dflt)
  ++ (if s.posonly.isEmpty then [] else [.slash])
  ++ s.normal.map (fun p => .param p.name p.dflt)
  ++ (match s.vararg with
      | some v => [.star (some v)]
      | none => if s.kwonly.isEmpty then [] else [.star none])
  ++ s.kwonly.map (fun p => .param p.name p.dflt)
  ++ (match s.varkw with | some k => [.dstar k] | none => [])

/-- longest prefix of plain parameters, and the rest -/
def spanParams : List SigItem → List Param × List SigItem
  | .param n d :: r => let q := spanParams r; (⟨n, d⟩ :: q.1, q.2)
  | r => ([], r)

/-- Reader of an item list by the Python grammar: parameters before `/` are
positional-only (`/` needs at least one), after `*` / `*name` keyword-only
(bare `*` needs at least one), `**name` is last. -/
def readItems (items : List SigItem) : Option Sig :=
  let q1 := spanParams items
  let a : Option (List Param × List Param × List SigItem) :=
    match q1.2 with
    | .slash :: r =>
      if q1.1.isEmpty then none else
      let q2 := spanParams r
      some (q1.1, q2.1, q2.2)
    | r => some ([], q1.1, r)
  match a with
  | none => none
  | some (posonly, normal, r2) =>
    let b : Option (Option String × List Param × List SigItem) :=
      match r2 with
      | .star v :: r =>
        let q3 := spanParams r
        if v.isNone && q3.1.isEmpty then none else some (v, q3.1, q3.2)
      | r => some (none, [], r)
    match b with
    | none => none
    | some (vararg, kwonly, r3) =>
      match r3 with
      | [] => some ⟨posonly, normal, vararg, kwonly, none⟩
      | [.dstar k] => some ⟨posonly, normal, vararg, kwonly, some k⟩
      | _ => none

/-! ### line protocol -/

def parseParam (t : String) : Option Param :=
  match t.splitOn "=" with
  | [n] => if n.isEmpty then none else some ⟨n, none⟩
  | [n, d] => if n.isEmpty || d.isEmpty then none else some ⟨n, some d⟩
  | _ => none

def parseList {α} (f : String → Option α) (t : String) : Option (List α) :=
  if t = "-" then some [] else (t.splitOn ",").mapM f

def parseOptName (t : String) : Option (Option String) :=
  if t = "-" then some none else if t.isEmpty then none else some (some t)

def parseSig (t : String) : Option Sig :=
  match t.splitOn "|" with
  | [a, b, c, d, e] =>
    match parseList parseParam a, parseList parseParam b, parseOptName c, parseList parseParam d, parseOptName e with
    | some a, some b, some c, some d, some e => some ⟨a, b, c, d, e⟩
    | _, _, _, _, _ => none
  | _ => none

def showParam (p : Param) : String :=
  match p.dflt with
  | none => p.name
  | some d => p.name ++ "=" ++ d

def showList {α} (f : α → String) (l : List α) : String :=
  if l.isEmpty then "-" else ",".intercalate (l.map f)

def showSig (s : Sig) : String :=
  "|".intercalate [showList showParam s.posonly, showList showParam s.normal, s.vararg.getD "-",
    showList showParam s.kwonly, s.varkw.getD "-"]

def showItem : SigItem → String
  | .param n none => n
  | .param n (some d) => n ++ "=" ++ d
  | .slash => "/"
  | .star none => "*"
  | .star (some v) => "*" ++ v
  | .dstar k => "**" ++ k

def parseItem (t : String) : Option SigItem :=
  if t = "/" then some .slash
  else if t = "*" then some (.star none)
  else if t.startsWith "**" then
    let n := (t.drop 2).toString
    if n.isEmpty then none else some (.dstar n)
  else if t.startsWith "*" then some (.star (some (t.drop 1).toString))
  else (parseParam t).map fun p => .param p.name p.dflt

def parsePair (t : String) : Option (String × String) :=
  match t.splitOn "=" with
  | [n, d] => if n.isEmpty || d.isEmpty then none else some (n, d)
  | _ => none

def parseOptList {α} (f : String → Option α) (t : String) : Option (Option (List α)) :=
  if t = "-" then some none else if t = "_" then some (some [])
  else ((t.splitOn ",").mapM f).map some

def parseFlag (c : Char) : Option Bool :=
  if c = '1' then some true else if c = '0' then some false else none

def parseFields (t : String) : Option FuncFields :=
  match t.splitOn "|" with
  | [a, b, c, d, e, f, g] =>
    match a.toNat?, b.toNat?, c.toNat?, parseList (fun s => if s.isEmpty then none else some s) d,
          e.toList, parseOptList (fun s => if s.isEmpty then none else some s) f, parseOptList parsePair g with
    | some a, some b, some c, some d, [e1, e2], some f, some g =>
      match parseFlag e1, parseFlag e2 with
      | some e1, some e2 => some ⟨a, b, c, d, e1, e2, f, g⟩
      | _, _ => none
    | _, _, _, _, _, _, _ => none
  | _ => none

def showOptList {α} (f : α → String) : Option (List α) → String
  | none => "-"
  | some [] => "_"
  | some l => ",".intercalate (l.map f)

def showFields (f : FuncFields) : String :=
  "|".intercalate [toString f.argcount, toString f.posonlyargcount, toString f.kwonlyargcount,
    showList id f.varnames, (if f.varargs then "1" else "0") ++ (if f.varkeywords then "1" else "0"),
    showOptList id f.defaults, showOptList (fun p => p.1 ++ "=" ++ p.2) f.kwdefaults]

def handle : List String → String
  | ["enc", s] =>
    match parseSig s with
    | some s => "ok " ++ showFields (encode s)
    | none => "bad-op"
  | ["dec", f] =>
    match parseFields f with
    | some f =>
      match decode f with
      | some s => "ok " ++ showSig s
      | none => "err IndexError"
    | none => "bad-op"
  | ["fmt", s] =>
    match parseSig s with
    | some s => "ok " ++ showList showItem (fmtArglist s)
    | none => "bad-op"
  | ["read", t] =>
    match parseList parseItem t with
    | some items =>
      match readItems items with
      | some s => "ok " ++ showSig s
      | none => "err SyntaxError"
    | none => "bad-op"
  | ["wf", s] =>
    match parseSig s with
    | some s => if decide s.WF then "ok 1" else "ok 0"
    | none => "bad-op"
  | _ => "bad-op"

end CyVerif.C25Sig

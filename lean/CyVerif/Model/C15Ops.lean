import CyVerif.Model.C15
/-!
# C15 — object-typed dispatch, SetItemInt / DelItemInt, slicing helpers
-/
namespace CyVerif.C15

/-- runtime type of the indexed object (only builtin sequences and plain subclasses) -/
inductive Kind where
  | list | tuple | listSub | tupleSub | str | bytes | bytearray
  deriving DecidableEq, Repr

/-- `Py_TPFLAGS_SEQUENCE` set (CPython 3.12: list, tuple and their subclasses; not str/bytes/bytearray) -/
def Kind.seqFlag : Kind → Bool
  | .list | .tuple | .listSub | .tupleSub => true
  | _ => false

/-- the type has `mp_ass_subscript` / `sq_ass_item` (item assignment and deletion) -/
def Kind.mutable : Kind → Bool
  | .list | .listSub | .bytearray => true
  | _ => false

/-- CPython `sq_ass_item(o, i, v)` (`v = none`: deletion) of list / bytearray (`list_ass_item`): no wrap-around -/
def sqAssItem {α} (l : List α) (i : Int) (v : Option α) : Out (List α) :=
  if 0 ≤ i ∧ i < l.length then
    match v with
    | some x => .ok (l.set i.toNat x)
    | none => .ok (l.eraseIdx i.toNat)
  else .err "IndexError"

/-- `PyObject_SetItem(o, PyLong(i), v)` / `PyObject_DelItem(o, PyLong(i))` by kind.  For a sequence
without item assignment CPython converts the key first (`PyNumber_AsSsize_t(key, IndexError)`), so a key
outside the `Py_ssize_t` range is IndexError, any other key TypeError. -/
def pyAssK {α} (sw : Nat) (k : Kind) (l : List α) (i : Int) (v : Option α) : Out (List α) :=
  if k.mutable then
    match v with
    | some x => pySet l i x
    | none => pyDel l i
  else if inSS sw i then .err "TypeError" else .err "IndexError"

/-- `__Pyx_GetItemInt_wraparound`: `*i += sq_length(o)` (i < 0 ≤ length: no overflow) -/
def sqWrap {α} (l : List α) (i : Int) (wrap : Bool) : Int :=
  if wrap && decide (i < 0) then i + l.length else i

/-- `__Pyx_GetItemInt_Fast(o, i, wraparound, boundscheck)` for an `object`-typed base -/
def objGetFast {α} (sw : Nat) (k : Kind) (l : List α) (i : Int) (wrap bc : Bool) : Out α :=
  match k with
  | .list | .tuple => seqFast sw l i wrap bc
  | _ =>
    if !k.seqFlag then pyGet l i            -- mp_subscript(o, PyLong(i))
    else
      -- sq_item after the sq_length wrap.  A heap subclass of list/tuple does not inherit
      -- `list_item`: its slot is `slot_sq_item`, which calls `__getitem__` = `list_subscript`
      -- (METH_COEXIST method), and that wraps a negative index AGAIN.
      pyGet l (sqWrap l i wrap)

/-- `__Pyx_GetItemInt(o, i, type, is_signed, to_py_func, wraparound, boundscheck, …)` -/
def getItemIntObj {α} (sw w : Nat) (signed : Bool) (d : Dirs) (constNonneg : Bool) (k : Kind)
    (l : List α) (v : Int) : Out α :=
  if fitsSsize sw w signed v then
    objGetFast sw k l (castSS sw v) (wrapFlag d signed constNonneg) d.boundscheck
  else pyGet l v                             -- __Pyx_GetItemInt_Generic(o, to_py_func(i))

/-! ## SetItemInt / DelItemInt -/

/-- `__Pyx_SetItemInt_Fast(o, i, v, wraparound, boundscheck)` -/
def setFast {α} (sw : Nat) (k : Kind) (l : List α) (i : Int) (v : α) (wrap bc : Bool) : Out (List α) :=
  match k with
  | .list =>
    (if !wrap then .ok i else if 0 ≤ i then .ok i else addSS sw i l.length).bind fun n =>
      if !bc || isValidIndex sw n l.length then writeArr l n v
      else pyAssK sw k l i (some v)             -- falls out of the `if`: __Pyx_SetItemInt_Generic
  | _ =>
    if !k.seqFlag && k.mutable then pyAssK sw k l i (some v)          -- mp_ass_subscript (bytearray)
    else if k.mutable then pyAssK sw k l (sqWrap l i wrap) (some v)   -- sq_ass_item of a list subclass = slot_sq_ass_item
                                                                    -- -> `__setitem__` = list_ass_subscript (wraps again)
    else pyAssK sw k l i (some v)                                      -- generic: TypeError

def setItemIntObj {α} (sw w : Nat) (signed : Bool) (d : Dirs) (constNonneg : Bool) (k : Kind)
    (l : List α) (i : Int) (v : α) : Out (List α) :=
  if fitsSsize sw w signed i then
    setFast sw k l (castSS sw i) v (wrapFlag d signed constNonneg) d.boundscheck
  else pyAssK sw k l i (some v)

/-- `__Pyx_SetItemInt_ByteArray_Fast` (+ `_Locked`) for a `bytearray`-typed base -/
def byteArraySetFast {α} (sw : Nat) (l : List α) (i : Int) (v : α) (wrap bc : Bool) : Out (List α) :=
  if wrap || bc then
    (if wrap && decide (i < 0) then addSS sw i l.length else .ok i).bind fun i' =>
      if !bc || isValidIndex sw i' l.length then writeArr l i' v else .err "IndexError"
  else writeArr l i v

def setItemIntByteArray {α} (sw w : Nat) (signed : Bool) (d : Dirs) (constNonneg : Bool)
    (l : List α) (i : Int) (v : α) : Out (List α) :=
  if fitsSsize sw w signed i then
    byteArraySetFast sw l (castSS sw i) v (wrapFlag d signed constNonneg) d.boundscheck
  else .err "IndexError"

/-- `__Pyx_DelItemInt_Fast(o, i, wraparound)` -/
def delFast {α} (sw : Nat) (k : Kind) (l : List α) (i : Int) (wrap : Bool) : Out (List α) :=
  if !k.seqFlag && k.mutable then pyAssK sw k l i none            -- mp_ass_subscript(o, key, NULL)
  else if k = .list then sqAssItem l (sqWrap l i wrap) none    -- sq_ass_item(o, i, NULL) = list_ass_item
  else if k.mutable then pyAssK sw k l (sqWrap l i wrap) none      -- list subclass: slot_sq_ass_item -> `__delitem__` (wraps again)
  else pyAssK sw k l i none                                        -- generic: TypeError

def delItemInt {α} (sw w : Nat) (signed : Bool) (d : Dirs) (constNonneg : Bool) (k : Kind)
    (l : List α) (i : Int) : Out (List α) :=
  if fitsSsize sw w signed i then delFast sw k l (castSS sw i) (wrapFlag d signed constNonneg)
  else pyAssK sw k l i none

/-! ## slicing -/

/-- `__Pyx_crop_slice(&start, &stop, &length)`.  `fixed = false`: the code as it exists
(`*_length = stop - start` can overflow); `fixed = true`: with the two extra clamps
`if (stop < 0) stop = 0;` (after the wrap) and `else if (start > length) start = length;`. -/
def cropSlice (sw : Nat) (fixed : Bool) (start stop length : Int) : Out (Int × Int × Int) :=
  (if start < 0 then
      (addSS sw start length).bind fun s => .ok (if s < 0 then 0 else s)
    else .ok (if fixed && decide (start > length) then length else start)).bind fun start1 =>
  (if stop < 0 then
      (addSS sw stop length).bind fun s => .ok (if fixed && decide (s < 0) then 0 else s)
    else .ok (if stop > length then length else stop)).bind fun stop1 =>
  (subSS sw stop1 start1).bind fun n => .ok (start1, stop1, n)

/-- `__Pyx_PyList_GetSlice` / `__Pyx_PyTuple_GetSlice` -/
def seqGetSlice {α} (sw : Nat) (fixed : Bool) (l : List α) (start stop : Int) : Out (List α) :=
  (cropSlice sw fixed start stop l.length).bind fun (s, _, n) =>
    if n ≤ 0 then .ok [] else readRange l s n.toNat

/-- `__Pyx_PyUnicode_Substring(text, start, stop)` -/
def unicodeSubstring {α} (sw : Nat) (l : List α) (start stop : Int) : Out (List α) :=
  let length : Int := l.length
  (if start < 0 then
      (addSS sw start length).bind fun s => .ok (if s < 0 then 0 else s)
    else .ok start).bind fun start1 =>
  (if stop < 0 then addSS sw stop length
    else .ok (if stop > length then length else stop)).bind fun stop1 =>
  if stop1 ≤ start1 then .ok []
  else if start1 = 0 ∧ stop1 = length then .ok l
  else (subSS sw stop1 start1).bind fun n => readRange l start1 n.toNat

/-- a slice bound as written in the source -/
inductive Bound where
  | absent
  | c (w : Nat) (signed : Bool) (v : Int)   -- C integer expression of type (w, signed) with value v
  | pyNone
  | pyInt (v : Int)
  deriving DecidableEq, Repr

/-- the Python value the bound denotes -/
def Bound.value : Bound → Option Int
  | .absent => none
  | .c _ _ v => some v
  | .pyNone => none
  | .pyInt v => some v

/-- `SliceIndexNode.analyse_types` for a builtin-typed base: every bound becomes a `Py_ssize_t`
(`None`/absent → `0` resp. `PY_SSIZE_T_MAX`; C values are converted; Python ints go through
`__Pyx_PyIndex_AsSsize_t`, which raises OverflowError outside the range). -/
def coerceBound (sw : Nat) (isStop : Bool) : Bound → Out Int
  | .absent => .ok (if isStop then ssMax sw else 0)
  | .c _ _ v => .ok (castSS sw v)
  | .pyNone => .ok (if isStop then ssMax sw else 0)
  | .pyInt v => if inSS sw v then .ok v else .err "OverflowError"

/-- `a[start:stop]` with `a` typed `list`/`tuple`/`str`/`bytes`/`bytearray` -/
def typedGetSlice {α} (sw : Nat) (fixed : Bool) (k : Kind) (l : List α) (bs be : Bound) : Out (List α) :=
  (coerceBound sw false bs).bind fun a =>
  (coerceBound sw true be).bind fun b =>
    match k with
    | .list | .tuple | .listSub | .tupleSub => seqGetSlice sw fixed l a b
    | .str => unicodeSubstring sw l a b
    | .bytes | .bytearray => pySlice l (some a) (some b) none     -- PySequence_GetSlice

/-- bound handed to `__Pyx_PyObject_GetSlice/SetSlice` (`get_slice_config`): a C bound is passed
as the `Py_ssize_t` parameter `cstart/cstop` and boxed, a Python bound is used as it is. -/
def objBound (sw : Nat) : Bound → Option Int
  | .absent => none
  | .c _ _ v => some (castSS sw v)
  | .pyNone => none
  | .pyInt v => some v

/-- `__Pyx_PyObject_GetSlice`: `mp_subscript(obj, slice(start, stop, None))` -/
def objGetSlice {α} (sw : Nat) (l : List α) (bs be : Bound) : Out (List α) :=
  pySlice l (objBound sw bs) (objBound sw be) none

/-- `mp_ass_subscript(obj, slice(a, b), value)`; `vs = none`: deletion -/
def assSliceK {α} (k : Kind) (l : List α) (a b : Option Int) (vs : Option (List α)) : Out (List α) :=
  if k.mutable then .ok (pySetSlice l a b (vs.getD [])) else .err "TypeError"

/-- `a[start:stop] = vs` / `del a[start:stop]` with a builtin-typed base -/
def typedAssSlice {α} (sw : Nat) (k : Kind) (l : List α) (bs be : Bound) (vs : Option (List α)) : Out (List α) :=
  (coerceBound sw false bs).bind fun a =>
  (coerceBound sw true be).bind fun b => assSliceK k l (some a) (some b) vs

/-- the same with an `object`-typed base (`__Pyx_PyObject_SetSlice/DelSlice`) -/
def objAssSlice {α} (sw : Nat) (k : Kind) (l : List α) (bs be : Bound) (vs : Option (List α)) : Out (List α) :=
  assSliceK k l (objBound sw bs) (objBound sw be) vs

end CyVerif.C15

import CyVerif.Model.Util
/-!
Model of Cython's *safe* type inference for local variables (`Cython/Compiler/TypeInference.py`:
`MarkOverflowingArithmetic`, `SimpleAssignmentTypeInferer.infer_types`, `find_spanning_type`,
`safe_spanning_type`; `PyrexTypes.spanning_type`, `widest_numeric_type`, `result_type_of_builtin_operation`;
the `infer_type` methods of the expression nodes of a mini-language; the reaching-definitions information of
`FlowControl` for structured code).  Part 1: types, syntax, typing tables.

`Cfg` selects the source variant (each flag = one repair of this round being present in the tree):
the harness probes the staged source for each flag on every run.
-/
namespace CyVerif.C40

/-- the types that occur for the mini-language (`Option Ty`: `none` = "no type could be inferred") -/
inductive Ty where
  | obj | pyint | pystr | pyfloat            -- Python object, exact builtin `int` / `str` / `float` object
  | clong | cssize | cint | bint | cdouble | ucs4 | softc
  deriving DecidableEq, Repr

structure Cfg where
  spanIntFloatObj : Bool     -- safe_spanning_type: int mixed with float -> object (else C double)
  bintNoOverflow : Bool      -- safe_spanning_type: bint kept only if not might_overflow
  unopBintInt : Bool         -- UnopNode.infer_unop_type: bint -> int
  spanCharIntObj : Bool      -- safe_spanning_type: Py_UCS4 mixed with other ints -> object
  reinferNoneObj : Bool      -- reinfer(): an uninferable assignment gives object instead of crashing
  unboundObj : Bool          -- infer_types: a variable that may be read before assignment stays an object
  cmpNeutral : Bool          -- MarkOverflowingArithmetic: comparisons pass the might_overflow flag on
  inplaceTrueDiv : Bool      -- `x /= y` is typed as a true division by inference (else: integer result for C integers)
  powIntObj : Bool           -- `int ** int` is typed `object` (else `int`, wrong for negative exponents)
  deriving DecidableEq, Repr

def Cfg.pinned : Cfg := ⟨false, false, false, false, false, false, false, false, false⟩
def Cfg.fixed : Cfg := ⟨true, true, true, true, true, true, true, true, true⟩

inductive BinOp where
  | add | sub | mul | fdiv | mod | pow | div | shl | shr | band | bor | bxor
  deriving DecidableEq, Repr
inductive UnOp where
  | neg | pos | inv | not
  deriving DecidableEq, Repr
inductive CmpOp where
  | lt | le | eq | ne | gt | ge | is_ | isnot
  deriving DecidableEq, Repr

/-- expressions; `name v id`: `id` is the unique number of this occurrence (given by the encoder).
`next` and `typed` only occur as right-hand sides of the assignments the flow analysis records
(loop targets), never in evaluated code. -/
inductive Expr where
  | int (n : Int) | flt (bits : Nat) | bool (b : Bool) | str (cs : List Nat) | none
  | name (v : Nat) (id : Nat)
  | bin (op : BinOp) (inplace : Bool) (a b : Expr)
  | un (op : UnOp) (a : Expr)
  | cmp (op : CmpOp) (a b : Expr)
  | call (a : Expr) | len (a : Expr) | abs (a : Expr) | idx (a b : Expr)
  | next (a : Expr)
  | typed (t : Ty)
  deriving DecidableEq, Repr

/-- statements; `d` = number of the (first) assignment record the statement creates -/
inductive Stmt where
  | skip
  | seq (a b : Stmt)
  | assign (v d : Nat) (e : Expr)
  | aug (v d id : Nat) (op : BinOp) (e : Expr)
  | forr (v d : Nat) (a1 : Expr) (a2 a3 : Option Expr) (body : Stmt)
  | forin (v d : Nat) (e : Expr) (body : Stmt)
  | while (c : Expr) (body : Stmt)
  | ite (c : Expr) (a b : Stmt)
  | ret (e : Expr)
  deriving Repr

/-- number of parameters (variables `0 .. npar-1` are arguments of type `Python object`) -/
def npar : Nat := 3

namespace Ty
def isInt : Ty → Bool
  | clong | cssize | cint | bint | ucs4 => true
  | _ => false
def isNumeric : Ty → Bool
  | clong | cssize | cint | bint | ucs4 | cdouble | softc => true
  | _ => false
def isPyObject : Ty → Bool
  | obj | pyint | pystr | pyfloat => true
  | _ => false
def isBuiltin : Ty → Bool
  | pyint | pystr | pyfloat => true
  | _ => false
/-- rank order used by `widest_numeric_type` (doubled to keep `Nat`): bint = int < Py_UCS4 < long < Py_ssize_t < double -/
def rank2 : Ty → Nat
  | bint => 6 | cint => 6 | ucs4 => 7 | clong => 8 | cssize => 9 | cdouble => 14 | _ => 0
def name : Ty → String
  | obj => "Python object" | pyint => "int object" | pystr => "str object" | pyfloat => "float object"
  | clong => "long" | cssize => "Py_ssize_t" | cint => "int" | bint => "bint" | cdouble => "double"
  | ucs4 => "Py_UCS4" | softc => "soft double complex"
end Ty

/-- `PyrexTypes.widest_numeric_type` on the numeric types of the model -/
def widest (t1 t2 : Ty) : Ty :=
  if t1 = t2 then t1
  else if t1 = .softc ∨ t2 = .softc then .softc
  else if t1.rank2 < t2.rank2 then t2
  else if t1.rank2 > t2.rank2 then t1
  else t2

/-- `PyrexTypes.result_type_of_builtin_operation(builtin_type, type2)` -/
def resultOfBuiltin (bt t2 : Ty) : Option Ty :=
  match bt with
  | .pyfloat =>
    if t2.isNumeric then some (widest .cdouble t2)
    else if t2 = .pyint ∨ t2 = .pyfloat then some .cdouble else none
  | .pyint =>
    if t2 = .pyint ∨ t2.isInt then some .pyint
    else if t2 = .cdouble ∨ t2 = .pyfloat then some .cdouble else none
  | _ => none

/-- what the typing of `**` needs to know about a constant operand -/
structure ConstInfo where
  nonneg : Bool      -- `isinstance(c, Real) and c >= 0`
  integral : Bool    -- `int(c) == c`
  negInt : Bool      -- `isinstance(c, int) and c < 0`
  deriving DecidableEq, Repr

def BinOp.isBitwise : BinOp → Bool
  | .band | .bor | .bxor => true
  | _ => false
def BinOp.intOnly : BinOp → Bool
  | .shl | .shr | .band | .bor | .bxor => true
  | _ => false

/-- `compute_c_result_type` of `NumBinopNode` / `IntBinopNode` / `DivNode` / `PowNode` -/
def cResult (op : BinOp) (inplace : Bool) (t1 t2 : Ty) (c1 c2 : Option ConstInfo) : Option Ty :=
  if ¬(t1.isNumeric ∧ t2.isNumeric) then none
  else if op.intOnly ∧ ¬(t1.isInt ∧ t2.isInt) then none
  else
    let base : Ty :=
      let w := widest t1 t2
      if w = .bint then (if op.isBitwise then .bint else .cint) else widest w .cint
    match op with
    | .pow =>
      let pos1 := match c1 with | some c => c.nonneg | none => false
      let t2int := t2.isInt || (match c2 with | some c => c.integral | none => false)
      if pos1 || t2int then
        let widen := match c2 with | none => t2.isInt | some c => c.negInt
        some (if widen then widest base .cdouble else base)
      else some .softc
    | .div =>
      if ¬inplace ∧ t1 ≠ .cdouble ∧ t2 ≠ .cdouble then some (widest t2 (widest t1 .cdouble))
      else some base
    | _ => some base

/-- `infer_builtin_types_operation` of Add/Mul/Div/Mod/Pow/NumBinop nodes (`lit1`: the left operand is a string literal) -/
def builtinOp (op : BinOp) (inplace lit1 : Bool) (t1 t2 : Ty) : Option Ty :=
  let num : Option Ty := if t1.isBuiltin then resultOfBuiltin t1 t2 else resultOfBuiltin t2 t1
  match op with
  | .add => if t1 = .pystr ∧ t2 = .pystr then some t1 else num
  | .mul =>
    if t1.isBuiltin ∧ t2.isBuiltin ∧ t1 = .pystr then some t1
    else if t1.isBuiltin ∧ t2.isBuiltin ∧ t2 = .pystr then some t2
    else if t1.isInt then some t2
    else if t2.isInt then some t1
    else num
  | .div =>
    match num with
    | none => none
    | some r =>
      if ¬inplace then
        (if r = .pyint then some .cdouble else if r.isInt then some (widest .cdouble r) else some r)
      else if r = .pyint ∨ r.isInt then none else some r
  | .fdiv => num
  | .mod =>
    if t1 = .pystr ∧ (t2.isBuiltin ∨ ¬t2.isPyObject ∨ lit1) then some t1 else num
  | .pow => none
  | _ => num

def BinOp.sameTypeKeeps : BinOp → Bool      -- `self.operator in '**%+|&^'`
  | .mul | .pow | .mod | .add | .bor | .band | .bxor => true
  | _ => false

/-- `BinopNode.result_type` -/
def binType (op : BinOp) (inplace lit1 : Bool) (t1 t2 : Option Ty) (c1 c2 : Option ConstInfo) : Option Ty :=
  match t1, t2 with
  | some t1, some t2 =>
    if t1.isPyObject ∨ t2.isPyObject ∨ t1 = .ucs4 ∨ t2 = .ucs4 then
      if t1.isBuiltin ∨ t2.isBuiltin then
        if t1 = t2 ∧ op.sameTypeKeeps then some t1
        else match builtinOp op inplace lit1 t1 t2 with
          | some r => some r
          | none => some .obj
      else some .obj
    else cResult op inplace t1 t2 c1 c2
  | _, _ => none

/-- `BinopNode.result_type` as inference sees it in the given source variant -/
def binTypeI (cfg : Cfg) (op : BinOp) (inplace lit1 : Bool) (t1 t2 : Option Ty) (c1 c2 : Option ConstInfo) : Option Ty :=
  if cfg.powIntObj ∧ op = .pow ∧ t1 = some .pyint ∧ t2 = some .pyint then some .obj
  else binType op inplace lit1 t1 t2 c1 c2

/-- `UnopNode.infer_type` / `NotNode` -/
def unType (cfg : Cfg) (op : UnOp) (t : Option Ty) : Option Ty :=
  match t with
  | none => none
  | some t =>
    if op = .not then some .bint
    else if t.isPyObject ∧ ¬t.isBuiltin then some .obj
    else if cfg.unopBintInt ∧ t = .bint then some .cint
    else some t

/-- return type of the best match among the builtin `abs` signatures -/
def absType (t : Option Ty) : Option Ty :=
  match t with
  | some .clong => some .clong
  | some .cdouble => some .cdouble
  | some .pyfloat => some .cdouble
  | some .softc => some .cdouble
  | some .cint => some .cint
  | _ => some .obj

/-- `IndexNode.infer_type` for a non-slice index (`intLit`: the index is an integer literal) -/
def idxType (tb ti : Option Ty) (intLit : Bool) : Option Ty :=
  let cIdx := (match ti with | some t => t.isInt | none => false) || intLit
  if tb = some .pystr then (if cIdx then some .ucs4 else some .pystr) else some .obj

/-- `PyrexTypes.spanning_type` -/
def spanning (t1 t2 : Ty) : Ty :=
  if t1 = t2 then t1
  else if t1 = .obj ∨ t2 = .obj then .obj
  else if t1.isNumeric ∧ t2.isNumeric then widest t1 t2
  else if t1.isBuiltin then (resultOfBuiltin t1 t2).getD .obj
  else if t2.isBuiltin then (resultOfBuiltin t2 t1).getD .obj
  else .obj

/-- result of a step of the inferer that can raise inside the compiler -/
inductive Step (α : Type) where
  | ok (a : α)
  | crash
  deriving DecidableEq, Repr

/-- `TypeInference.find_spanning_type` (an uninferable type `none` crashes unless the other side is
`object` or `bint`) -/
def findSpanning (t1 t2 : Option Ty) : Step (Option Ty) :=
  if t1 = t2 then
    match t1 with
    | some .pyfloat => .ok (some .cdouble)
    | _ => .ok t1
  else if t1 = some .bint ∨ t2 = some .bint then .ok (some .obj)
  else match t1, t2 with
    | some a, some b =>
      let r := spanning a b
      .ok (some (if r = .cdouble ∨ r = .pyfloat then .cdouble else r))
    | _, _ => if t1 = some .obj ∨ t2 = some .obj then .ok (some .obj) else .crash

def reduceSpan : Option Ty → List (Option Ty) → Step (Option Ty)
  | acc, [] => .ok acc
  | acc, t :: rest =>
    match findSpanning acc t with
    | .ok r => reduceSpan r rest
    | .crash => .crash

/-- `safe_spanning_type(types, might_overflow)`; `types` non-empty -/
def safeSpan (cfg : Cfg) (types : List (Option Ty)) (mo : Bool) : Step Ty :=
  match types with
  | [] => .crash
  | t0 :: rest =>
    match reduceSpan t0 rest with
    | .crash => .crash
    | .ok none => .crash
    | .ok (some r) =>
      if r.isPyObject then .ok r
      else if r = .cdouble then
        if cfg.spanIntFloatObj ∧ ¬ types.all (fun t => t = some .cdouble ∨ t = some .pyfloat) then .ok .obj
        else .ok r
      else if r = .bint then
        if cfg.bintNoOverflow ∧ mo then .ok .obj else .ok r
      else if r = .softc then .ok r
      else if cfg.spanCharIntObj ∧ r.isInt ∧ types.any (· = some .ucs4) ∧ ¬ types.all (· = some .ucs4) then
        .ok .obj                 -- (repaired tree) a mix of characters and numbers
      else if r.isInt ∧ ¬mo then .ok r
      else if r = .ucs4 then .ok .pystr
      else if r.isInt then .ok .pyint
      else .ok .obj

import CyVerif.Model.C40Val
import CyVerif.Model.C40Infer
/-!
C40 model, evaluation of a function body under a typing `Γ` of its locals ("typed" semantics): an
operator whose operands have C types (by the compiler's static typing, `aty`) is computed with C
semantics — integer results outside the C type are undefined behaviour (`Out.ub`), `int / int` and mixed
int/double comparisons go through double — everything else with the Python semantics of `C40Val`.
`Γ = fun _ => obj` is the build with `infer_types=False`.
-/
namespace CyVerif.C40

variable {F : Type}

/-- static type of a name node after `analyse_types`: the entry's type, or — for an object-typed entry —
the builtin type inference recorded for this occurrence ("type inference is smarter than the entry") -/
def nameTy (Γ : Nat → Ty) (nt : Nat → Option Ty) (v id : Nat) : Ty :=
  if v < npar then .obj
  else if (Γ v).isPyObject then
    match nt id with
    | some t => if t.isBuiltin then t else Γ v
    | none => Γ v
  else Γ v

/-- static type of an expression after `analyse_types` (entries typed by `Γ`, name nodes by `nt`) -/
def aty (Γ : Nat → Ty) (nt : Nat → Option Ty) : Expr → Option Ty
  | .int n => some (if isLongLiteral n then .pyint else .clong)
  | .flt _ => some .cdouble
  | .bool _ => some .bint
  | .str _ => some .pystr
  | .none => some .obj
  | .typed t => some t
  | .name v id => some (nameTy Γ nt v id)
  | .bin op inplace a b => binType op inplace (isStrLit a) (aty Γ nt a) (aty Γ nt b) (constInfo a) (constInfo b)
  | .un op a =>
    match aty Γ nt a with
    | none => none
    | some t =>
      if op = .not then some .bint
      else if t.isPyObject then (if t.isBuiltin then some t else some .obj)
      else if t.isInt then some (widest t .cint)
      else some t
  | .cmp op a b =>
    match aty Γ nt a, aty Γ nt b with
    | some ta, some tb =>
      if op = .is_ ∨ op = .isnot then some .bint
      else if ta.isNumeric ∧ tb.isNumeric ∧ ta ≠ .ucs4 ∧ tb ≠ .ucs4 then some .bint
      else some .obj
    | _, _ => none
  | .call _ => some .obj
  | .len _ => some .cssize
  | .abs a => absType (aty Γ nt a)
  | .idx a b => idxType (aty Γ nt a) (aty Γ nt b) (isIntLit b)
  | .next a => idxType (aty Γ nt a) (some .cssize) true

def Ty.bits : Ty → Nat
  | .clong | .cssize => 64
  | .cint => 32
  | _ => 0

def inRange (t : Ty) (n : Int) : Bool :=
  match t with
  | .clong | .cssize => decide (-9223372036854775808 ≤ n ∧ n ≤ 9223372036854775807)
  | .cint => decide (-2147483648 ≤ n ∧ n ≤ 2147483647)
  | .bint => decide (n = 0 ∨ n = 1)
  | .ucs4 => decide (0 ≤ n ∧ n < 1114112)
  | _ => true

/-- the value of a C-integer-typed expression as an integer -/
def cInt? : Val F → Option Int
  | .int n => some n
  | .bool b => some (if b then 1 else 0)
  | .str [c] => some c
  | _ => none

def cDbl (fo : FOps F) : Val F → Out F
  | .flt x => .ok x
  | .int n => match fo.ofInt n with | some x => .ok x | none => .ub "int-to-double"
  | .bool b => match fo.ofInt (if b then 1 else 0) with | some x => .ok x | none => .ub "int-to-double"
  | _ => .ub "type-confusion"

def mkInt (t : Ty) (n : Int) : Out (Val F) :=
  if inRange t n then (if t = .bint then .ok (.bool (n ≠ 0)) else .ok (.int n)) else .ub "signed-overflow"

/-- C semantics of a binary operator whose operands both have C numeric types; `t` = static result type -/
def Ty.isCIntArith : Ty → Bool          -- C integer types arithmetic is carried out in
  | .clong | .cssize | .cint | .bint => true
  | _ => false

/-- `tl`: the promoted type of the left operand (C evaluates a shift in that type) -/
def cBin (fo : FOps F) (op : BinOp) (inplace : Bool) (tl t : Ty) (a b : Val F) : Out (Val F) :=
  if t.isCIntArith then
    match cInt? a, cInt? b with
    | some x, some y =>
      match op with
      | .add => mkInt t (x + y)
      | .sub => mkInt t (x - y)
      | .mul => mkInt t (x * y)
      | .fdiv => if y = 0 then .err .ZeroDivisionError else mkInt t (Int.fdiv x y)
      | .mod => if y = 0 then .err .ZeroDivisionError else mkInt t (Int.fmod x y)
      | .shl =>
        if y < 0 ∨ y ≥ tl.bits ∨ x < 0 ∨ ¬ inRange tl (x * 2 ^ y.toNat) then .ub "shift" else mkInt t (x * 2 ^ y.toNat)
      | .shr => if y < 0 ∨ y ≥ tl.bits then .ub "shift" else mkInt t (Int.fdiv x (2 ^ y.toNat))
      | .band => mkInt t (intAnd x y)
      | .bor => mkInt t (intOr x y)
      | .bxor => mkInt t (intXor x y)
      | .pow => if y < 0 then .unsup else if y.toNat > bigLimit then .unsup else mkInt t (x ^ y.toNat)
      | .div => if inplace then .unsup else .ub "type-confusion"
    | _, _ => .ub "type-confusion"
  else if t = .cdouble then do
    let x ← cDbl fo a
    let y ← cDbl fo b
    match op with
    | .pow => .unsup
    | _ => pyFloatBin fo op x y
  else .unsup

/-- conversion of a Python object to the C type a Python operation was inferred to have -/
def fromPy (fo : FOps F) (t : Ty) (v : Val F) : Out (Val F) :=
  match t with
  | .cdouble =>
    (match v.num? with
    | some n => do let x ← toF fo n; pure (.flt x)
    | none => .err .TypeError)
  | .clong | .cssize | .cint =>
    (match v with
    | .int n => if inRange t n then .ok (.int n) else .err .OverflowError
    | .bool b => .ok (.int (if b then 1 else 0))
    | _ => .err .TypeError)
  | .bint => .ok (.bool (v.truth fo))
  | .ucs4 => (match v with | .str [c] => .ok (.str [c]) | .str _ => .err .ValueError | _ => .err .TypeError)
  | .softc => .unsup
  -- exact builtin types are claims the generated code relies on without a check: a false claim is
  -- undefined behaviour (reported where the claim is made)
  -- (`None` is a legal value of every builtin-typed Python object variable)
  | .pyint => (match v with | .int _ => .ok v | .bool _ => .ok v | .none => .ok v | _ => .ub "builtin-type-claim")
  | .pystr => (match v with | .str _ => .ok v | .none => .ok v | _ => .ub "builtin-type-claim")
  | .pyfloat => (match v with | .flt _ => .ok v | .none => .ok v | _ => .ub "builtin-type-claim")
  | .obj => .ok v

def binSem (fo : FOps F) (op : BinOp) (inplace : Bool) (ta tb : Ty) (tr : Option Ty) (a b : Val F) : Out (Val F) :=
  match tr with
  | none => .unsup                           -- the compiler rejects the operand types
  | some t =>
    if ta.isPyObject ∨ tb.isPyObject ∨ ta = .ucs4 ∨ tb = .ucs4 then do
      let r ← pyBin fo op a b
      fromPy fo t r
    else cBin fo op inplace (widest ta .cint) t a b

def unSem (fo : FOps F) (op : UnOp) (ta : Ty) (a : Val F) : Out (Val F) :=
  if op = .not then .ok (.bool (!a.truth fo))
  else if ta.isPyObject then (pyUn fo op a).bind (fromPy fo (if ta.isBuiltin then ta else .obj))
  else if ta = .ucs4 then .unsup                       -- C arithmetic on a character code
  else if ta.isInt then
    match cInt? a with
    | some x =>
      let t := widest ta .cint
      (match op with
      | .neg => mkInt t (-x)
      | .pos => mkInt t x
      | .inv => mkInt t (intNot x)
      | .not => .unsup)
    | none => .ub "type-confusion"
  else if ta = .cdouble then
    match op with
    | .neg => do let x ← cDbl fo a; pure (.flt (fo.neg x))
    | .pos => do let x ← cDbl fo a; pure (.flt x)
    | _ => .unsup                                      -- `~double`: rejected by the compiler
  else .unsup

/-- is a comparison of operands of these static types carried out in C? -/
def cCompare (ta tb : Ty) : Bool := ta.isNumeric ∧ tb.isNumeric ∧ ta ≠ .ucs4 ∧ tb ≠ .ucs4

def cmpSem (fo : FOps F) (op : CmpOp) (ta tb : Ty) (a b : Val F) : Out (Val F) :=
  if op = .is_ ∨ op = .isnot then
    (if ta.isPyObject then pyCmp fo op a b else .ok (.bool (op = .isnot)))   -- a C value is never None
  else if cCompare ta tb then
    if ta.isInt ∧ tb.isInt then
      match cInt? a, cInt? b with
      | some x, some y => .ok (.bool (cmpInt op x y))
      | _, _ => .ub "type-confusion"
    else if ta = .softc ∨ tb = .softc then .unsup
    else do
      let x ← cDbl fo a
      let y ← cDbl fo b
      pure (.bool (fo.cmp op x y))                     -- C compares after converting to double
  else pyCmp fo op a b

def absSem (fo : FOps F) (ta : Ty) (a : Val F) : Out (Val F) :=
  match ta with
  | .clong | .cint =>
    (match cInt? a with
    | some x => mkInt ta (if x < 0 then -x else x)
    | none => .ub "type-confusion")
  | .cdouble => do let x ← cDbl fo a; pure (.flt (fo.abs x))
  | .softc => .unsup
  | _ => (pyAbs fo a).bind (fromPy fo ((absType (some ta)).getD .obj))

def lenSem (ta : Ty) (a : Val F) : Out (Val F) :=
  if ta.isPyObject then pyLen a else .unsup            -- `len()` of a C value: compile error

/-- `tr`: static result type (a `Py_UCS4` result is checked to be one character) -/
def idxSem (fo : FOps F) (ta : Ty) (tr : Option Ty) (a i : Val F) : Out (Val F) :=
  if ta.isPyObject then
    match tr with
    | some t => (pyIdx a i).bind (fromPy fo t)
    | none => .unsup
  else .unsup                                          -- indexing a C value: compile error

abbrev Store (F : Type) := Nat → Option (Val F)

def Store.set (σ : Store F) (v : Nat) (x : Val F) : Store F := fun w => if w = v then some x else σ w

/-- read of a variable by a name node of static type `t` (a builtin-type claim is checked, see `fromPy`) -/
def readVar (fo : FOps F) (Γ : Nat → Ty) (t : Ty) (σ : Store F) (v : Nat) : Out (Val F) :=
  match σ v with
  | some x => if t.isBuiltin then fromPy fo t x else .ok x
  | none => if v ≥ npar ∧ ¬(Γ v).isPyObject then .ub "uninitialised" else .err .UnboundLocalError

def tyOut {α : Type} (t : Option α) : Out α :=
  match t with
  | some x => .ok x
  | none => .unsup

def binNode (fo : FOps F) (Γ : Nat → Ty) (nt : Nat → Option Ty) (op : BinOp) (inplace : Bool) (a b : Expr)
    (va vb : Val F) : Out (Val F) :=
  (tyOut (aty Γ nt a)).bind fun ta => (tyOut (aty Γ nt b)).bind fun tb =>
    binSem fo op inplace ta tb (binType op inplace (isStrLit a) (some ta) (some tb) (constInfo a) (constInfo b)) va vb

/-- value of an expression (as the Python object it would convert to) -/
def evalE (fo : FOps F) (Γ : Nat → Ty) (nt : Nat → Option Ty) (σ : Store F) : Expr → Out (Val F)
  | .int n => .ok (.int n)
  | .flt bits => .ok (.flt (fo.ofBits bits))
  | .bool b => .ok (.bool b)
  | .str cs => .ok (.str cs)
  | .none => .ok .none
  | .typed _ => .unsup
  | .next _ => .unsup
  | .name v id => readVar fo Γ (nameTy Γ nt v id) σ v
  | .bin op inplace a b =>
    (evalE fo Γ nt σ a).bind fun va => (evalE fo Γ nt σ b).bind fun vb => binNode fo Γ nt op inplace a b va vb
  | .un op a =>
    (evalE fo Γ nt σ a).bind fun va => (tyOut (aty Γ nt a)).bind fun ta => unSem fo op ta va
  | .cmp op a b =>
    (evalE fo Γ nt σ a).bind fun va => (evalE fo Γ nt σ b).bind fun vb =>
      (tyOut (aty Γ nt a)).bind fun ta => (tyOut (aty Γ nt b)).bind fun tb => cmpSem fo op ta tb va vb
  | .call a => evalE fo Γ nt σ a
  | .len a =>
    (evalE fo Γ nt σ a).bind fun va => (tyOut (aty Γ nt a)).bind fun ta => lenSem ta va
  | .abs a =>
    (evalE fo Γ nt σ a).bind fun va => (tyOut (aty Γ nt a)).bind fun ta => absSem fo ta va
  | .idx a b =>
    (evalE fo Γ nt σ a).bind fun va => (evalE fo Γ nt σ b).bind fun vb =>
      (tyOut (aty Γ nt a)).bind fun ta => idxSem fo ta (idxType (some ta) (aty Γ nt b) (isIntLit b)) va vb

/-- conversion performed by an assignment of an expression of static type `te` to a variable of type `t` -/
def storeConv (fo : FOps F) (t te : Ty) (v : Val F) : Out (Val F) :=
  if t = te then .ok v
  else if t.isPyObject then
    -- a character stored in a variable of exact type `int`: the type test of the assignment fails
    (if t = .pyint ∧ te = .ucs4 then .err .TypeError else .ok v)
  else match t with
    | .clong | .cssize | .cint =>
      if te.isPyObject then fromPy fo t v
      else if te = .cdouble ∨ te = .softc then .unsup
      else (match cInt? v with
        | some n => if inRange t n then .ok (.int n) else .ub "narrowing"
        | none => .ub "type-confusion")
    | .cdouble =>
      if te.isPyObject then fromPy fo t v
      else if te = .softc then .unsup
      else do let x ← cDbl fo v; pure (.flt x)
    | .bint =>
      if te.isPyObject then fromPy fo t v
      else if te = .cdouble then (do let x ← cDbl fo v; pure (.bool (fo.truth x)))
      else (match cInt? v with | some n => .ok (.bool (n ≠ 0)) | none => .ub "type-confusion")
    | .ucs4 =>
      if te.isPyObject then fromPy fo t v
      else if te.isInt then
        (match cInt? v with
        | some n => if inRange .ucs4 n then .ok (.str [n.toNat]) else .ub "narrowing"
        | none => .ub "type-confusion")
      else .unsup
    | _ => .unsup

/-- truth value of a condition of static type `t` (a NUL character is false in C, true in Python) -/
def condTruth (fo : FOps F) (t : Ty) (v : Val F) : Bool :=
  match t, v with
  | .ucs4, .str [c] => c ≠ 0
  | _, _ => v.truth fo

inductive Flow (F : Type) where
  | next (σ : Store F)
  | ret (v : Val F)

def tyOf (Γ : Nat → Ty) (v : Nat) : Ty := if v < npar then .obj else Γ v

/-- run `step` on the items in turn until one returns or fails -/
def iter (step : Store F → Val F → Out (Flow F)) : List (Val F) → Store F → Out (Flow F)
  | [], σ => .ok (.next σ)
  | x :: xs, σ =>
    match step σ x with
    | .ok (.next σ') => iter step xs σ'
    | r => r

/-- the first `n` elements of `range(lo, hi, step)` and whether there are more -/
def rangeItems : Nat → Int → Int → Int → List Int × Bool
  | 0, lo, hi, step => ([], if step > 0 then decide (lo < hi) else decide (lo > hi))
  | n + 1, lo, hi, step =>
    if (if step > 0 then decide (lo < hi) else decide (lo > hi)) then
      let (r, more) := rangeItems n (lo + step) hi step
      (lo :: r, more)
    else ([], false)

def rangeArg (v : Val F) : Out Int :=
  match v with
  | .int n => .ok n
  | .bool b => .ok (if b then 1 else 0)
  | .list _ => .unsup
  | _ => .err .TypeError

/-- the items of an iteration; `ts`: static type of the sequence -/
def seqItems (ts : Ty) (v : Val F) : Out (List (Val F)) :=
  match v with
  | .str cs => .ok (cs.map fun c => .str [c])
  | .list xs => if ts = .pystr then .ub "type-confusion" else .ok (xs.map Scalar.toVal)
  | .none => .err .TypeError
  | _ => if ts = .pystr then .ub "type-confusion" else .err .TypeError

def evalO (fo : FOps F) (Γ : Nat → Ty) (nt : Nat → Option Ty) (σ : Store F) : Option Expr → Out (Option (Val F))
  | none => .ok none
  | some e => (evalE fo Γ nt σ e).bind fun v => .ok (some v)

/-- static type of the item a range loop assigns: a C integer if all bounds are C integers, else object -/
def rangeItemTy (Γ : Nat → Ty) (nt : Nat → Option Ty) (a1 : Expr) (a2 a3 : Option Expr) : Option Ty :=
  let ts := [aty Γ nt a1] ++ (match a2 with | some a => [aty Γ nt a] | none => []) ++
            (match a3 with | some a => [aty Γ nt a] | none => [])
  if ts.any Option.isNone then none
  else if ts.all (fun t => match t with | some t => t.isInt ∧ t ≠ .ucs4 ∧ t ≠ .bint | none => false) then some .clong
  else some .obj

def rangeArgO (x : Option (Val F)) (dflt : Int) : Out Int :=
  match x with
  | some v => rangeArg v
  | none => .ok dflt

/-- assignment of the value `x` of static type `te` to variable `v`, then `k` on the new store -/
def assignTo (fo : FOps F) (Γ : Nat → Ty) (v : Nat) (te : Ty) (k : Store F → Out (Flow F)) (σ : Store F) (x : Val F) :
    Out (Flow F) :=
  (storeConv fo (tyOf Γ v) te x).bind fun y => k (σ.set v y)

def exec (fo : FOps F) (Γ : Nat → Ty) (nt : Nat → Option Ty) : Nat → Stmt → Store F → Out (Flow F)
  | 0, _, _ => .unsup
  | fuel + 1, s, σ =>
    match s with
    | .skip => .ok (.next σ)
    | .seq a b =>
      (exec fo Γ nt fuel a σ).bind fun r =>
        match r with
        | .next σ' => exec fo Γ nt fuel b σ'
        | .ret v => .ok (.ret v)
    | .assign v _ e =>
      (evalE fo Γ nt σ e).bind fun x => (tyOut (aty Γ nt e)).bind fun te =>
        assignTo fo Γ v te (fun σ' => .ok (.next σ')) σ x
    | .aug v _ id op e =>
      (evalE fo Γ nt σ (.bin op true (.name v id) e)).bind fun x =>
        (tyOut (aty Γ nt (.bin op true (.name v id) e))).bind fun te =>
          assignTo fo Γ v te (fun σ' => .ok (.next σ')) σ x
    | .ite c a b =>
      (evalE fo Γ nt σ c).bind fun x => (tyOut (aty Γ nt c)).bind fun tc =>
        if condTruth fo tc x then exec fo Γ nt fuel a σ else exec fo Γ nt fuel b σ
    | .while c body =>
      (evalE fo Γ nt σ c).bind fun x => (tyOut (aty Γ nt c)).bind fun tc =>
        if condTruth fo tc x then
          (exec fo Γ nt fuel body σ).bind fun r =>
            match r with
            | .next σ' => exec fo Γ nt fuel (.while c body) σ'
            | .ret v => .ok (.ret v)
        else .ok (.next σ)
    | .forr v _ a1 a2 a3 body =>
      (evalE fo Γ nt σ a1).bind fun x1 => (evalO fo Γ nt σ a2).bind fun x2 => (evalO fo Γ nt σ a3).bind fun x3 =>
        (tyOut (rangeItemTy Γ nt a1 a2 a3)).bind fun te =>
          (rangeArg x1).bind fun n1 => (rangeArgO x2 0).bind fun n2 => (rangeArgO x3 1).bind fun st =>
            let lo := match x2 with | some _ => n1 | none => 0
            let hi := match x2 with | some _ => n2 | none => n1
            if st = 0 then .err .ValueError
            else if (rangeItems fuel lo hi st).2 then .unsup
            else iter (assignTo fo Γ v te (exec fo Γ nt fuel body)) ((rangeItems fuel lo hi st).1.map Val.int) σ
    | .forin v _ e body =>
      (evalE fo Γ nt σ e).bind fun x => (tyOut (aty Γ nt e)).bind fun ts =>
        if ¬ts.isPyObject then .unsup
        else (seqItems ts x).bind fun items => (tyOut (idxType (some ts) (some .cssize) true)).bind fun te =>
          iter (assignTo fo Γ v te (exec fo Γ nt fuel body)) items σ
    | .ret e => (evalE fo Γ nt σ e).bind fun x => .ok (.ret x)

/-- outcome of calling the function: returned value, or `None` when the body falls off the end -/
def run (fo : FOps F) (Γ : Nat → Ty) (nt : Nat → Option Ty) (fuel : Nat) (p : Stmt) (σ : Store F) : Out (Val F) :=
  match exec fo Γ nt fuel p σ with
  | .ok (.ret v) => .ok v
  | .ok (.next _) => .ok .none
  | .err x => .err x
  | .ub w => .ub w
  | .unsup => .unsup

end CyVerif.C40

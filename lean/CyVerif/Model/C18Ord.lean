import CyVerif.Model.C18Int
/-!
Model of `__Pyx_uchar___Pyx_PyUnicode_From_<type>` (the `format_char == 'c'` arm of the
`CIntToPyUnicode` macro) and of `__Pyx_PyUnicode_FromOrdinal_Padded` (`COrdinalToPyUnicode`),
`Cython/Utility/TypeConversion.c`.  Texts are lists of code points (lone surrogates are legal
results).  `int` is 32 bits (LP64/LLP64; checked by the harness probe); `(int) value` of a wider
value wraps modulo 2^32 (gcc's documented behaviour).
-/
namespace CyVerif.C18

/-- which range check the source has: `orig` = `value & ~0x1fffff || CheckUnicodeValue((int)value)`,
`fixed` = `(value & ~0x1fffff) == 0 && CheckUnicodeValue((int)value)` -/
inductive OrdVariant where
  | orig | fixed
  deriving DecidableEq, Repr

/-- `(int) value` -/
def toCInt (v : Int) : Int :=
  let r := v % 4294967296
  if r ≥ 2147483648 then r - 4294967296 else r

/-- `PyUnicode_FromOrdinal(ordinal)` -/
def fromOrdinal (v : Int) : OutU :=
  if v < 0 ∨ v > 0x10ffff then .err "ValueError" else .text [v.toNat]

/-- the UTF-8 bytes stored by the `*--cpos = …; value >>= 6;` ladder (for `value > 255`), first byte first -/
def utf8Ladder (v : Nat) : List Nat :=
  if v < 0x800 then
    let b1 := 0x80 ||| (v &&& 0x3f); let v := v >>> 6
    let b0 := 0xc0 ||| (v &&& 0x1f)
    [b0, b1]
  else if v < 0x10000 then
    let b2 := 0x80 ||| (v &&& 0x3f); let v := v >>> 6
    let b1 := 0x80 ||| (v &&& 0x3f); let v := v >>> 6
    let b0 := 0xe0 ||| (v &&& 0x0f)
    [b0, b1, b2]
  else
    let b3 := 0x80 ||| (v &&& 0x3f); let v := v >>> 6
    let b2 := 0x80 ||| (v &&& 0x3f); let v := v >>> 6
    let b1 := 0x80 ||| (v &&& 0x3f); let v := v >>> 6
    let b0 := 0xf0 ||| (v &&& 0x07)
    [b0, b1, b2, b3]

def isCont (b : Nat) : Bool := decide (0x80 ≤ b ∧ b < 0xC0)

/-- `PyUnicode_DecodeUTF8(…, errors=NULL)`: strict UTF-8 (no overlong forms, no surrogates,
nothing above U+10FFFF); `none` = `UnicodeDecodeError` -/
def utf8Decode : List Nat → Option (List Nat)
  | [] => some []
  | b0 :: rest =>
    if b0 < 0x80 then (utf8Decode rest).map (b0 :: ·)
    else if 0xC2 ≤ b0 ∧ b0 < 0xE0 then
      match rest with
      | b1 :: r =>
        if isCont b1 then (utf8Decode r).map (((b0 - 0xC0) * 64 + (b1 - 0x80)) :: ·) else none
      | _ => none
    else if 0xE0 ≤ b0 ∧ b0 < 0xF0 then
      match rest with
      | b1 :: b2 :: r =>
        let cp := (b0 - 0xE0) * 4096 + (b1 - 0x80) * 64 + (b2 - 0x80)
        if isCont b1 ∧ isCont b2 ∧ 0x800 ≤ cp ∧ ¬ (0xD800 ≤ cp ∧ cp ≤ 0xDFFF) then
          (utf8Decode r).map (cp :: ·) else none
      | _ => none
    else if 0xF0 ≤ b0 ∧ b0 < 0xF5 then
      match rest with
      | b1 :: b2 :: b3 :: r =>
        let cp := (b0 - 0xF0) * 262144 + (b1 - 0x80) * 4096 + (b2 - 0x80) * 64 + (b3 - 0x80)
        if isCont b1 ∧ isCont b2 ∧ isCont b3 ∧ 0x10000 ≤ cp ∧ cp ≤ 0x10FFFF then
          (utf8Decode r).map (cp :: ·) else none
      | _ => none
    else none
termination_by l => l.length

/-- `__Pyx_PyUnicode_FromOrdinal_Padded(int value, Py_ssize_t ulength, char padding_char)` -/
def ordinalPadded (value : Int) (ulength : Int) (pad : Char) : OutU :=
  let paddingLength := ulength - 1
  if paddingLength ≤ 250 ∧ (value < 0xD800 ∨ value > 0xDFFF) then
    -- char chars[256]
    if paddingLength < 0 then .ub "oob-write"               -- memset(…, (size_t) negative)
    else if value ≤ 255 then
      -- memset(chars, pad, padding_length); chars[ulength-1] = (char) value; PyUnicode_DecodeLatin1(chars, ulength)
      .text (List.replicate paddingLength.toNat pad.toNat ++ [(value % 256).toNat])
    else
      let bytes := utf8Ladder value.toNat
      if bytes.length + paddingLength.toNat > 256 then .ub "oob-write"
      else
        match utf8Decode (List.replicate paddingLength.toNat pad.toNat ++ bytes) with
        | some cps => .text cps
        | none => .err "UnicodeDecodeError"
  else if value ≤ 127 then                                   -- && CYTHON_USE_UNICODE_INTERNALS
    if value < 0 then .ub "non-ascii-in-ascii-string"
    else (buildFromAscii ulength [Char.ofNat value.toNat] 1 false pad).toU
  else
    -- PySequence_Repeat(pad, padding_length) + PyUnicode_FromOrdinal(value)
    match fromOrdinal value with
    | .text c => .text (List.replicate paddingLength.toNat pad.toNat ++ c)
    | e => e

/-- `__Pyx_uchar___Pyx_PyUnicode_From_<type>(value, width, padding_char)` for a type of `n` bytes -/
def ucharToPyUnicode (var : OrdVariant) (n : Nat) (signed : Bool) (value : Int) (width : Int) (pad : Char) : OutU :=
  -- !(is_unsigned || value == 0 || value > 0)
  if signed ∧ value < 0 then .err "OverflowError" else
  -- for value ≥ 0 and a type wider than 21 bits: (value & ~(TYPE)0x1fffff) == 0  ⇔  value / 2^21 == 0
  let highBitsClear : Bool := decide (value / 2097152 = 0)
  let inUnicode : Bool := decide (toCInt value ≤ 1114111)     -- __Pyx_CheckUnicodeValue((int) value)
  let ok : Bool := match var with
    | .orig => decide (n ≤ 2) || !highBitsClear || inUnicode
    | .fixed => decide (n ≤ 2) || (highBitsClear && inUnicode)
  if !ok then .err "OverflowError"
  else if width ≤ 1 then fromOrdinal (toCInt value)
  else ordinalPadded (toCInt value) width pad

end CyVerif.C18

import CyVerif.Model.C33
/-! # C33 — the conversion combinators `fromPy` / `toPy` (structural recursion on the type grammar) -/
namespace CyVerif.C33

/-- sequential conversion, first error wins (the `for item in o: v.push_back(<X>item)` loop) -/
def mapR {α β : Type} (f : α → R β) : List α → R (List β)
  | [] => .ok []
  | x :: xs => do let y ← f x; let ys ← mapR f xs; .ok (y :: ys)

def foldSet (cs : List CVal) : List CVal := cs.foldl (fun s c => setInsert c s) []
def foldMap (kvs : List (CVal × CVal)) : List (CVal × CVal) :=
  kvs.foldl (fun m kv => mapInsert kv.1 kv.2 m) []

/-- `o.items()`: only dicts have it among the modelled values (AttributeError otherwise) -/
def items : PyVal → R (List (PyVal × PyVal))
  | .dict kvs => .ok kvs
  | _ => .error "AttributeError"

/-- `FromPyStructUtility`: all `obj[key]` lookups come first; KeyError → ValueError -/
def lookups (p : PyVal) : List String → R (List PyVal)
  | [] => .ok []
  | n :: ns => do
    match ← subscript n p with
    | none => .error "ValueError"
    | some v => do let r ← lookups p ns; .ok (v :: r)

/-- `carray.from_py`: `len(o)` (if any) must equal the array length before anything is converted; an
iterator without `len` is converted up to `n` items and only then found too short / too long. -/
def carrayFrom (conv : PyVal → R CVal) (n : Nat) (p : PyVal) : R CVal :=
  match pyLen p with
  | some l =>
    if l = n then do let xs ← iterate p; let cs ← mapR conv xs; .ok (.seq cs)
    else .error "IndexError"
  | none => do
    let xs ← iterate p
    let cs ← mapR conv (xs.take n)
    if xs.length = n then .ok (.seq cs) else .error "IndexError"

def nameStr (n : String) : PyVal := .str (nameCps n)

mutual
/-- `hash(o)` succeeds (elements of a Python set / keys of a dict must be hashable) -/
def hashable : PyVal → Bool
  | .bytearray _ => false | .list _ => false | .set _ => false | .dict _ => false
  | .tuple xs => hashableL xs
  | _ => true
def hashableL : List PyVal → Bool
  | [] => true
  | x :: xs => hashable x && hashableL xs
end


mutual
def fromPy (m : Mode) : Ty → PyVal → R CVal
  | .int w sg, p => do let n ← intLeaf w sg p; .ok (.int n)
  | .dbl, p => do let b ← dblLeaf p; .ok (.dbl b)
  | .bool, p => .ok (.bool (truthy p))
  | .str, p => do let b ← strLeaf m p; .ok (.str b)
  | .cstr, p => do let b ← strLeaf m p; .ok (.str (cTrunc b))
  | .cplx, p => do let z ← cplxLeaf p; .ok (.cplx z.1 z.2)
  | .pair a b, p => do
    let xs ← iterate p
    match xs with
    | [x, y] => do let ca ← fromPy m a x; let cb ← fromPy m b y; .ok (.pair ca cb)
    | _ => .error "ValueError"
  | .vec t, p => do let xs ← iterate p; let cs ← mapR (fromPy m t) xs; .ok (.seq cs)
  | .lst t, p => do let xs ← iterate p; let cs ← mapR (fromPy m t) xs; .ok (.seq cs)
  | .set t, p => do let xs ← iterate p; let cs ← mapR (fromPy m t) xs; .ok (.seq (foldSet cs))
  | .uset t, p => do let xs ← iterate p; let cs ← mapR (fromPy m t) xs; .ok (.seq (foldSet cs))
  | .map k v, p => do
    let kvs ← items p
    let cs ← mapR (fun kv => do let ck ← fromPy m k kv.1; let cv ← fromPy m v kv.2; .ok (ck, cv)) kvs
    .ok (.map (foldMap cs))
  | .umap k v, p => do
    let kvs ← items p
    let cs ← mapR (fun kv => do let ck ← fromPy m k kv.1; let cv ← fromPy m v kv.2; .ok (ck, cv)) kvs
    .ok (.map (foldMap cs))
  | .struct ns ts, p =>
    if isMapping p then do
      let vs ← lookups p ns
      let cs ← fromPyL m ts vs
      .ok (.seq cs)
    else .error "TypeError"
  | .union ns ts, p =>
    if isMapping p then
      match pyLen p with
      | some l => if l = 0 then .error "ValueError" else fromPyU m ns ts 0 p l
      | none => .error "TypeError"
    else .error "TypeError"
  | .carray t n, p => carrayFrom (fromPy m t) n p
  | .ctuple ts, p =>
    match p with
    | .tuple xs =>
      if xs.length = ts.length then do let cs ← fromPyL m ts xs; .ok (.seq cs) else .error "TypeError"
    | .list xs =>
      if xs.length = ts.length then do let cs ← fromPyL m ts xs; .ok (.seq cs) else .error "TypeError"
    | p =>
      if isSequence p then do
        let xs ← iterate p
        if xs.length = ts.length then do let cs ← fromPyL m ts xs; .ok (.seq cs) else .error "TypeError"
      else .error "TypeError"
/-- component-wise conversion in order (lengths are checked by the callers) -/
def fromPyL (m : Mode) : List Ty → List PyVal → R (List CVal)
  | [], _ => .ok []
  | t :: ts, x :: xs => do let c ← fromPy m t x; let cs ← fromPyL m ts xs; .ok (c :: cs)
  | _ :: _, [] => .error "SystemError"
/-- `FromPyUnionUtility` with `len(obj) = l > 0`: the first member present is converted; any further key
(member or not) makes it a ValueError -/
def fromPyU (m : Mode) : List String → List Ty → Nat → PyVal → Nat → R CVal
  | n :: ns, t :: ts, i, p, l => do
    let c ← contains n p
    if c then do
      match ← subscript n p with
      | none => .error "KeyError"
      | some v => do
        let cv ← fromPy m t v
        if l = 1 then .ok (.umember i cv) else .error "ValueError"
    else fromPyU m ns ts (i + 1) p l
  | _, _, _, _, _ => .error "ValueError"
end

mutual
def toPy (m : Mode) : Ty → CVal → R PyVal
  | .int _ _, .int n => .ok (.int n)
  | .dbl, .dbl b => .ok (.float b)
  | .bool, .bool b => .ok (.bool b)
  | .str, .str b => strToPy m b
  | .cstr, .str b => strToPy m (cTrunc b)
  | .cplx, .cplx re im => .ok (.cplx re im)
  | .pair a b, .pair x y => do let pa ← toPy m a x; let pb ← toPy m b y; .ok (.tuple [pa, pb])
  | .vec t, .seq cs => do let ps ← mapR (toPy m t) cs; .ok (.list ps)
  | .lst t, .seq cs => do let ps ← mapR (toPy m t) cs; .ok (.list ps)
  | .set t, .seq cs => do
    let ps ← mapR (fun c => do let p ← toPy m t c; if hashable p then .ok p else .error "TypeError") cs
    .ok (.set ps)
  | .uset t, .seq cs => do
    let ps ← mapR (fun c => do let p ← toPy m t c; if hashable p then .ok p else .error "TypeError") cs
    .ok (.set ps)
  | .map k v, .map kvs => do
    let ps ← mapR (fun kv => do
      let pk ← toPy m k kv.1; let pv ← toPy m v kv.2
      if hashable pk then .ok (pk, pv) else .error "TypeError") kvs
    .ok (.dict ps)
  | .umap k v, .map kvs => do
    let ps ← mapR (fun kv => do
      let pk ← toPy m k kv.1; let pv ← toPy m v kv.2
      if hashable pk then .ok (pk, pv) else .error "TypeError") kvs
    .ok (.dict ps)
  | .struct ns ts, .seq cs => do let ps ← toPyL m ts cs; .ok (.dict ((ns.map nameStr).zip ps))
  | .union ns ts, .umember i v => do let ps ← toPyU m ts i v; .ok (.dict ((ns.map nameStr).zip ps))
  | .carray t _, .seq cs => do let ps ← mapR (toPy m t) cs; .ok (.list ps)
  | .ctuple ts, .seq cs => do let ps ← toPyL m ts cs; .ok (.tuple ps)
  | _, _ => .error "SystemError"
def toPyL (m : Mode) : List Ty → List CVal → R (List PyVal)
  | [], _ => .ok []
  | t :: ts, c :: cs => do let p ← toPy m t c; let ps ← toPyL m ts cs; .ok (p :: ps)
  | _ :: _, [] => .error "SystemError"
/-- `ToPyStructUtility` on a union: EVERY member is read (the storage reinterpreted); the members that were
not set are unknown values, rendered as `other` -/
def toPyU (m : Mode) : List Ty → Nat → CVal → R (List PyVal)
  | [], _, _ => .ok []
  | t :: ts, 0, v => do let p ← toPy m t v; .ok (p :: ts.map fun _ => PyVal.other)
  | _ :: ts, i + 1, v => do let ps ← toPyU m ts i v; .ok (PyVal.other :: ps)
end

/-- the tied operation: `cdef T c = x; return c` -/
def roundTrip (m : Mode) (t : Ty) (p : PyVal) : R PyVal := do let c ← fromPy m t p; toPy m t c

/-! ## variant: `map.from_py` repaired (a non-mapping is rejected with TypeError instead of the AttributeError
of the unchecked `o.items()`).  The repair changes nothing but that exception class. -/
def fixErr (fixed : Bool) (e : String) : String :=
  if fixed && e == "AttributeError" then "TypeError" else e

def fromPyV (fixed : Bool) (m : Mode) (t : Ty) (p : PyVal) : R CVal :=
  match fromPy m t p with
  | .ok c => .ok c
  | .error e => .error (fixErr fixed e)

def roundTripV (fixed : Bool) (m : Mode) (t : Ty) (p : PyVal) : R PyVal := do
  let c ← fromPyV fixed m t p; toPy m t c

end CyVerif.C33

import CyVerif.Model.Util
/-!
C17 — model of `Cython/Utility/Buffer.c : BufferFormatCheck`
(`__Pyx_BufFmt_Init`, `__Pyx_BufFmt_CheckString`, `__Pyx_BufFmt_ProcessTypeChunk`,
`__pyx_buffmt_parse_array`, the size/alignment/padding/group tables) for the LP64
x86-64 platform, over the characters of the format string.

The `__Pyx_TypeInfo` tree of the expected dtype is presented as the list of
its leaf fields in the order in which the C code walks them (`Slot`): the struct
stack of the C code only iterates this list, `ctx->head == NULL` is the empty list.
A slot with `cplx = true` is a typegroup-'C' type *with* a fields table (a struct
of two equal floats): it is matched whole by `Zf`/`Zd`/`Zg` or expanded into its
two halves.

`guard = false` is the code as pinned (a chunk processed when the dtype is already
exhausted dereferences `ctx->head == NULL`: outcome `ub nullderef`); `guard = true`
is the repaired code (raises the "expected end" mismatch instead).
-/
namespace CyVerif.C17

structure Slot where
  group : Char          -- 'R' 'C' 'I' 'U' 'O' 'H' ('S' = struct the walk got stuck on)
  size : Nat            -- sizeof(element type)
  off : Nat             -- absolute offset (parent_offset + field offset)
  arr : List Nat        -- arraysize dims ([] = not an array field)
  cplx : Bool           -- typegroup 'C' with a fields table
  deriving DecidableEq, Repr, Inhabited

/-- every character that can be the pending `enc_type` -/
def isTypeChar (c : Char) : Bool :=
  c ∈ ['?', 'c', 'b', 'B', 'h', 'H', 'i', 'I', 'l', 'L', 'q', 'Q', 'f', 'd', 'g', 'O', 'p', 's']

/-- `__Pyx_BufFmt_TypeCharToNativeSize` (LP64) -/
def nativeSize (c : Char) (z : Bool) : Nat :=
  if c ∈ ['?', 'c', 'b', 'B', 's', 'p'] then 1
  else if c ∈ ['h', 'H'] then 2
  else if c ∈ ['i', 'I'] then 4
  else if c ∈ ['l', 'L', 'q', 'Q'] then 8
  else if c = 'f' then (if z then 8 else 4)
  else if c = 'd' then (if z then 16 else 8)
  else if c = 'g' then (if z then 32 else 16)
  else if c ∈ ['O', 'P'] then 8
  else 0

/-- `__Pyx_BufFmt_TypeCharToStandardSize`; 0 for 'g' (error set, size 0 returned) -/
def standardSize (c : Char) (z : Bool) : Nat :=
  if c ∈ ['?', 'c', 'b', 'B', 's', 'p'] then 1
  else if c ∈ ['h', 'H'] then 2
  else if c ∈ ['i', 'I', 'l', 'L'] then 4
  else if c ∈ ['q', 'Q'] then 8
  else if c = 'f' then (if z then 8 else 4)
  else if c = 'd' then (if z then 16 else 8)
  else if c ∈ ['O', 'P'] then 8
  else 0

/-- `__Pyx_BufFmt_TypeCharToAlignment` = `__Pyx_BufFmt_TypeCharToPadding` on x86-64 -/
def alignOf (c : Char) : Nat :=
  if c ∈ ['?', 'c', 'b', 'B', 's', 'p'] then 1
  else if c ∈ ['h', 'H'] then 2
  else if c ∈ ['i', 'I', 'f'] then 4
  else if c ∈ ['l', 'L', 'q', 'Q', 'd', 'O', 'P'] then 8
  else if c = 'g' then 16
  else 0

/-- `__Pyx_BufFmt_TypeCharToGroup` -/
def groupOf (c : Char) (z : Bool) : Char :=
  if c = 'c' then 'H'
  else if c ∈ ['b', 'h', 'i', 'l', 'q', 's', 'p'] then 'I'
  else if c ∈ ['?', 'B', 'H', 'I', 'L', 'Q'] then 'U'
  else if c ∈ ['f', 'd', 'g'] then (if z then 'C' else 'R')
  else if c = 'O' then 'O'
  else if c = 'P' then 'P'
  else '\x00'

def alignUp (o a : Nat) : Nat := if o % a = 0 then o else o + (a - o % a)

def NUL : Char := '\x00'

structure St where
  slots : List Slot     -- remaining leaves; [] ⇔ ctx->head == NULL
  off : Nat             -- fmt_offset
  newCount : Nat
  encCount : Nat
  salign : Nat          -- struct_alignment
  isComplex : Bool
  encType : Char        -- NUL = none
  newPack : Char
  encPack : Char
  validArr : Bool
  deriving DecidableEq, Repr

def St.init (slots : List Slot) : St :=
  { slots := slots, off := 0, newCount := 1, encCount := 0, salign := 0, isComplex := false,
    encType := NUL, newPack := '@', encPack := '@', validArr := false }

/-- result of a step: continue with a state, a Python ValueError of a given class, or undefined behaviour -/
inductive R (α : Type) where
  | ok (v : α)
  | err (kind : String)
  | ub (kind : String)
  | fuel
  deriving DecidableEq, Repr

def R.bind {α β} (r : R α) (f : α → R β) : R β :=
  match r with
  | .ok v => f v
  | .err k => .err k
  | .ub k => .ub k
  | .fuel => .fuel

/-- `--ctx->enc_count` on a `size_t` -/
def decCount (n : Nat) : Nat := if n = 0 then 2 ^ 64 - 1 else n - 1

def expand (s : Slot) : List Slot :=
  [ { group := 'R', size := s.size / 2, off := s.off, arr := [], cplx := false },
    { group := 'R', size := s.size / 2, off := s.off + s.size / 2, arr := [], cplx := false } ]

def encSize (st : St) : Nat :=
  if st.encPack = '@' ∨ st.encPack = '^' then nativeSize st.encType st.isComplex
  else standardSize st.encType st.isComplex

/-- native mode: align the offset for the pending type, remember the first alignment as struct alignment -/
def alignStep (st : St) : St :=
  if st.encPack = '@' then
    { st with off := alignUp st.off (alignOf st.encType),
              salign := if st.salign = 0 then alignOf st.encType else st.salign }
  else st

/-- the `do { … } while (ctx->enc_count)` loop of `__Pyx_BufFmt_ProcessTypeChunk`;
    precondition of every iteration in the C code: `ctx->head != NULL`. -/
def chunkLoop (group : Char) (arraysize : Nat) : Nat → St → R St
  | 0, _ => .fuel
  | fuel + 1, st =>
    match st.slots with
    | [] => .ub "nullderef-loop"     -- unreachable: the loop leaves when head becomes NULL
    | s :: rest =>
      let size := encSize st
      let st := alignStep st
      let mismatch := s.size ≠ size ∨ s.group ≠ group
      if mismatch ∧ s.cplx then
        let st := { st with slots := expand s ++ rest }
        if st.encCount ≠ 0 then chunkLoop group arraysize fuel st else .ok st   -- `continue` re-tests the condition
      else if mismatch ∧ ¬ ((s.group = 'H' ∨ group = 'H') ∧ s.size = size) then .err "mismatch"
      else if st.off ≠ s.off then .err "offset"
      else
        let off := st.off + size + (if arraysize ≠ 0 then (arraysize - 1) * size else 0)
        let cnt := decCount st.encCount
        let st := { st with off := off, encCount := cnt, slots := rest }
        if rest = [] then (if cnt ≠ 0 then .err "mismatch" else .ok st)
        else if cnt ≠ 0 then chunkLoop group arraysize fuel st else .ok st

/-- `__Pyx_BufFmt_ProcessTypeChunk` -/
def chunk (guard : Bool) (st : St) : R St :=
  if st.encType = NUL then .ok st
  else match st.slots with
  | [] => if guard then .err "mismatch" else .ub "nullderef"
  | s :: _ =>
    let pre : R (Nat × St) :=
      if s.arr.headD 0 ≠ 0 then
        let isStr := st.encType = 's' ∨ st.encType = 'p'
        if isStr ∧ st.encCount ≠ s.arr.headD 0 then .err "dimsize"
        else
          let valid := if isStr then s.arr.length == 1 else st.validArr
          if ¬ valid then .err "ndim"
          else .ok (s.arr.foldl (· * ·) 1, { st with validArr := false, encCount := 1 })
      else .ok (1, st)
    pre.bind fun (arraysize, st) =>
      (chunkLoop (groupOf st.encType st.isComplex) arraysize (3 * st.slots.length + 3) st).bind fun st =>
        .ok { st with encType := NUL, isComplex := false }

end CyVerif.C17

import CyVerif.Model.C50TMap
/-!
Model of `Cython/Plex/Regexps.py` (RE classes, `build_machine`, the composite
constructors) and of the NFA part of `Cython/Plex/Machines.py` (`Machine`, `Node`).
NFA state `k` here is the `Node` with `number == k + 1`.
-/
namespace CyVerif.C50

/-- `Machines.Node` -/
structure Node where
  trans : TMap
  action : Option Nat
  prio : Int
  deriving DecidableEq, Repr

/-- `Node()`: `action_priority = LOWEST_PRIORITY = -maxint`. -/
def Node.new : Node := ⟨TMap.empty, none, -maxint⟩

/-- `Machines.Machine` -/
structure NFA where
  nodes : List Node
  inits : List (String × Nat)
  deriving Repr

def NFA.empty : NFA := ⟨[], []⟩

/-- `new_state()` -/
def NFA.newState (m : NFA) : NFA × Nat := ({ m with nodes := m.nodes ++ [Node.new] }, m.nodes.length)

def modifyNth {α} (f : α → α) : Nat → List α → List α
  | _, [] => []
  | 0, x :: xs => f x :: xs
  | n + 1, x :: xs => x :: modifyNth f n xs

/-- `state.add_transition(event, new_state)` -/
def NFA.addTrans (m : NFA) (s : Nat) (ev : Ev) (t : Nat) : NFA :=
  { m with nodes := modifyNth (fun nd => { nd with trans := nd.trans.add ev t }) s m.nodes }

/-- `state.link_to(t)` -/
def NFA.link (m : NFA) (s t : Nat) : NFA := m.addTrans s (.sp .eps) t

/-- `state.set_action(action, priority)` -/
def NFA.setAction (m : NFA) (s : Nat) (a : Nat) (p : Int) : NFA :=
  { m with nodes := modifyNth (fun nd => if p > nd.prio then { nd with action := some a, prio := p } else nd) s m.nodes }

/-- `make_initial_state(name, state)`: dict assignment (an existing key keeps its position). -/
def setInit (name : String) (s : Nat) : List (String × Nat) → List (String × Nat)
  | [] => [(name, s)]
  | (n, v) :: rest => if n = name then (n, s) :: rest else (n, v) :: setInit name s rest

def NFA.newInitialState (m : NFA) (name : String) : NFA × Nat :=
  let r := m.newState
  ({ r.1 with inits := setInit name r.2 r.1.inits }, r.2)

mutual
/-- The primitive RE classes. -/
inductive RE where
  | raw (c0 c1 : Int)          -- RawCodeRange(code1, code2)
  | nl                         -- RawNewline
  | sym (k : Sp)               -- SpecialSymbol(BOL | EOL | EOF)
  | seq (rs : REs)             -- Seq(*re_list)
  | alt (rs : REs)             -- Alt(*re_list)
  | rep1 (r : RE)              -- Rep1(re)
  | sw (r : RE) (nocase : Bool) -- SwitchCase(re, nocase)
inductive REs where
  | nil
  | cons (r : RE) (rs : REs)
end

mutual
/-- attribute `nullable` -/
def RE.nullable : RE → Bool
  | .raw _ _ => false
  | .nl => false
  | .sym _ => false
  | .seq rs => rs.allNullable
  | .alt rs => rs.anyNullable
  | .rep1 r => r.nullable
  | .sw r _ => r.nullable
def REs.allNullable : REs → Bool
  | .nil => true
  | .cons r rs => r.nullable && rs.allNullable
def REs.anyNullable : REs → Bool
  | .nil => false
  | .cons r rs => r.nullable || rs.anyNullable
end

mutual
/-- attribute `match_nl` -/
def RE.matchNl : RE → Bool
  | .raw _ _ => false
  | .nl => true
  | .sym _ => false
  | .seq rs => rs.seqMatchNl
  | .alt rs => rs.anyMatchNl
  | .rep1 r => r.matchNl
  | .sw r _ => r.matchNl
/-- `Seq.__init__`: scan from the end; the first RE with `match_nl` gives 1,
the first non-nullable RE stops the scan. -/
def REs.seqMatchNl : REs → Bool
  | .nil => false
  | .cons r rs => rs.seqMatchNl || (rs.allNullable && r.matchNl)
def REs.anyMatchNl : REs → Bool
  | .nil => false
  | .cons r rs => r.matchNl || rs.anyMatchNl
end

def REs.isNil : REs → Bool
  | .nil => true
  | .cons _ _ => false

/-- `uppercase_range(code1, code2)` -/
def uppercaseRange (c1 c2 : Int) : Option (Int × Int) :=
  let c3 := max c1 97
  let c4 := min c2 123
  if c3 < c4 then some (c3 - 32, c4 - 32) else none

/-- `lowercase_range(code1, code2)` -/
def lowercaseRange (c1 c2 : Int) : Option (Int × Int) :=
  let c3 := max c1 65
  let c4 := min c2 91
  if c3 < c4 then some (c3 + 32, c4 + 32) else none

/-- `RE.build_opt(m, initial_state, c)` -/
def buildOpt (m : NFA) (init : Nat) (k : Sp) : NFA × Nat :=
  let r := m.newState
  (((r.1.link init r.2).addTrans init (.sp k) r.2), r.2)

/-- `if match_bol: initial_state = self.build_opt(m, initial_state, BOL)` -/
def optBol (m : NFA) (init : Nat) (mb : Bool) : NFA × Nat :=
  if mb then buildOpt m init .bol else (m, init)

def addOptRange (m : NFA) (i : Nat) (r : Option (Int × Int)) (f : Nat) : NFA :=
  match r with
  | some (a, b) => m.addTrans i (.range a b) f
  | none => m

mutual
/-- `re.build_machine(m, initial_state, final_state, match_bol, nocase)` -/
def RE.build : RE → NFA → Nat → Nat → Bool → Bool → NFA
  | .raw c0 c1, m, i, f, mb, nc =>
    let r := optBol m i mb
    let m1 := r.1.addTrans r.2 (.range c0 c1) f
    if nc then addOptRange (addOptRange m1 r.2 (uppercaseRange c0 c1) f) r.2 (lowercaseRange c0 c1) f
    else m1
  | .nl, m, i, f, mb, _ =>
    let r := optBol m i mb
    let r2 := buildOpt r.1 r.2 .eol
    r2.1.addTrans r2.2 (.range 10 11) f
  | .sym k, m, i, f, mb, _ =>
    let r := optBol m i (mb && k == .eol)
    r.1.addTrans r.2 (.sp k) f
  | .seq rs, m, i, f, mb, nc =>
    if rs.isNil then m.link i f else rs.buildSeq m i f mb nc
  | .alt rs, m, i, f, mb, nc =>
    let m1 := rs.buildAltNullable m i f mb nc
    if rs.allNullable then m1     -- `if self.non_nullable_res:`
    else
      let r := optBol m1 i mb
      rs.buildAltNon r.1 r.2 f nc
  | .rep1 r, m, i, f, mb, nc =>
    let a := m.newState
    let b := a.1.newState
    let m1 := b.1.link i a.2
    let m2 := r.build m1 a.2 b.2 (mb || r.matchNl) nc
    (m2.link b.2 a.2).link b.2 f
  | .sw r nocase, m, i, f, mb, _ => r.build m i f mb nocase
/-- the `for i, re in enumerate(re_list)` loop of `Seq.build_machine` (non-empty list) -/
def REs.buildSeq : REs → NFA → Nat → Nat → Bool → Bool → NFA
  | .nil, m, _, _, _, _ => m
  | .cons r rs, m, s1, f, mb, nc =>
    if rs.isNil then r.build m s1 f mb nc
    else
      let a := m.newState
      let m1 := r.build a.1 s1 a.2 mb nc
      rs.buildSeq m1 a.2 f (r.matchNl || (mb && r.nullable)) nc
/-- `for re in self.nullable_res: re.build_machine(m, initial_state, final_state, match_bol, nocase)` -/
def REs.buildAltNullable : REs → NFA → Nat → Nat → Bool → Bool → NFA
  | .nil, m, _, _, _, _ => m
  | .cons r rs, m, i, f, mb, nc =>
    if r.nullable then rs.buildAltNullable (r.build m i f mb nc) i f mb nc
    else rs.buildAltNullable m i f mb nc
/-- `for re in self.non_nullable_res: re.build_machine(m, initial_state, final_state, 0, nocase)` -/
def REs.buildAltNon : REs → NFA → Nat → Nat → Bool → NFA
  | .nil, m, _, _, _ => m
  | .cons r rs, m, i, f, nc =>
    if r.nullable then rs.buildAltNon m i f nc
    else rs.buildAltNon (r.build m i f false nc) i f nc
end

/-! ### composite constructors of `Regexps.py` -/

def REs.ofList : List RE → REs
  | [] => .nil
  | r :: rs => .cons r (REs.ofList rs)

def insSorted (x : Nat) : List Nat → List Nat
  | [] => [x]
  | y :: ys => if x ≤ y then x :: y :: ys else y :: insSorted x ys

/-- `char_list.sort()` -/
def sortNat (l : List Nat) : List Nat := l.foldr insSorted []

/-- inner loop of `chars_to_ranges`: `while i < n and code2 >= ord(char_list[i]): code2 += 1; i += 1` -/
def extendRange : List Nat → Nat → Nat × List Nat
  | [], c2 => (c2, [])
  | x :: xs, c2 => if c2 ≥ x then extendRange xs (c2 + 1) else (c2, x :: xs)

theorem extendRange_length (l : List Nat) (c2 : Nat) : (extendRange l c2).2.length ≤ l.length := by
  induction l generalizing c2 with
  | nil => simp [extendRange]
  | cons x xs ih =>
    simp only [extendRange]
    split
    · have := ih (c2 + 1); simp only [List.length_cons]; omega
    · simp

/-- outer loop of `chars_to_ranges` on the sorted list -/
def rangesOfSorted : List Nat → List (Int × Int)
  | [] => []
  | x :: xs =>
    have := extendRange_length xs (x + 1)
    ((x : Int), ((extendRange xs (x + 1)).1 : Int)) :: rangesOfSorted (extendRange xs (x + 1)).2
termination_by l => l.length
decreasing_by simp only [List.length_cons]; omega

/-- `sorted(set(s))` (the proposed repair of `chars_to_ranges`) -/
def sortDedup (l : List Nat) : List Nat := l.foldr sins []

/-- `chars_to_ranges(s)` as a list of pairs `(code1, code2)`; `dedup` selects the variant with the
proposed repair (`char_list = sorted(set(s))` instead of `list(s); sort()`). -/
def charsToRanges (dedup : Bool) (s : List Nat) : List (Int × Int) :=
  rangesOfSorted (if dedup then sortDedup s else sortNat s)

/-- `CodeRange(code1, code2)` -/
def codeRange (c1 c2 : Int) : RE :=
  if c1 ≤ 10 ∧ 10 < c2 then .alt (REs.ofList [.raw c1 10, .nl, .raw 11 c2])
  else .raw c1 c2

/-- `CodeRanges(code_list)` -/
def codeRanges (l : List (Int × Int)) : RE := .alt (REs.ofList (l.map fun p => codeRange p.1 p.2))

/-- `Char(c)` for a one-character string -/
def mkChar (c : Nat) : RE := codeRange c (c + 1)

/-- `Empty = Seq()` -/
def mkEmpty : RE := .seq .nil

/-- `Str1(s)` -/
def mkStr1 (s : List Nat) : RE := .seq (REs.ofList (s.map mkChar))

/-- `Str(*strs)` -/
def mkStr (ss : List (List Nat)) : RE :=
  match ss with
  | [s] => mkStr1 s
  | _ => .alt (REs.ofList (ss.map mkStr1))

/-- `Any(s)` -/
def mkAny (dedup : Bool) (s : List Nat) : RE := codeRanges (charsToRanges dedup s)

/-- pairs of the flat list `[-maxint] + ranges + [maxint]` -/
def complementPairs : Int → List (Int × Int) → List (Int × Int)
  | lo, [] => [(lo, maxint)]
  | lo, (a, b) :: rest => (lo, a) :: complementPairs b rest

/-- `AnyBut(s)` -/
def mkAnyBut (dedup : Bool) (s : List Nat) : RE := codeRanges (complementPairs (-maxint) (charsToRanges dedup s))

/-- `Range(s1, s2)` with two one-character strings -/
def mkRange2 (c1 c2 : Nat) : RE := codeRange c1 (c2 + 1)

def pairUp : List Nat → Option (List (Nat × Nat))
  | [] => some []
  | [_] => none      -- `s1[i + 1]` raises IndexError
  | a :: b :: rest => (pairUp rest).map ((a, b) :: ·)

/-- `Range(s)` with a string of even length (`none` = IndexError) -/
def mkRangeStr (s : List Nat) : Option RE :=
  (pairUp s).map fun ps => .alt (REs.ofList (ps.map fun p => codeRange p.1 (p.2 + 1)))

/-- `Opt(re) = Alt(re, Empty)` -/
def mkOpt (r : RE) : RE := .alt (REs.ofList [r, mkEmpty])

/-- `Rep(re) = Opt(Rep1(re))` -/
def mkRep (r : RE) : RE := mkOpt (.rep1 r)

end CyVerif.C50

import CyVerif.Model.Util
/-!
Model of the run-time dispatch of fused `def`/`cpdef` functions.

Anchors: Cython/Compiler/FusedNode.py `FusedCFuncDefNode.make_fused_cpdef`, `_split_fused_types`
(`specialized_types.sort()` with the `__lt__` methods of Cython/Compiler/PyrexTypes.py, executed by
CPython's `list.sort`), `_fused_instance_checks`, `_buffer_checks`, `_buffer_check_numpy_dtype`,
`_buffer_parse_format_string_check`, `_unpack_argument`; Cython/Utility/FusedFunction.pyx
`match_signatures_single`, `index_signature`, `match_signatures`; Cython/Utility/CythonFunction.c
`__pyx_FusedFunction_getitem`, `__pyx_FusedFunction_obj_to_string`.

Per distinct fused type (first parameter that uses it) the generated `map_fused_type(arg)`
1. runs `isinstance(arg, <py_type_name>)` for the non-buffer members in SORTED order, first hit wins
   (the `seen_py_type_names` de-duplication only drops tests that can never be the first hit),
2. for buffer members: numpy dtype kind / itemsize / ndim / signedness, first hit wins (byte order,
   contiguity and writability are NOT looked at); then `None` -> first buffer member; then
   `memoryview(arg)` and a trial coercion to each buffer member with equal itemsize and ndim,
3. returns 'object' if there is an object member, else None (a wildcard for `index_signature`).
-/
namespace CyVerif.C34

/-- A member type of a fused type.  `rank4` = 4 * PyrexTypes rank (so Py_ssize_t = 14, ptrdiff_t = 15,
complex = real + 2); `sg` = PyrexTypes `signed` (0 unsigned, 1 plain, 2 `signed char`); `size` = sizeof. -/
inductive Ty where
  | cint (rank4 sg size : Nat)
  | bint
  | cfloat (rank4 size : Nat)
  | ccomplex (rank4 size : Nat)
  | obj
  | builtin (n : Nat)
  | ext (c : Nat)
  /-- typed memoryview: dtype kind (0 signed int, 1 unsigned int, 2 float, 3 complex), itemsize, ndim,
  `cc` = last axis declared `::1` with all axes C-contiguous -/
  | mview (kind size ndim : Nat) (cc : Bool)
  deriving DecidableEq, Repr

/-- class code used for `id(type(self)) < id(type(other))` (base `PyrexType.__lt__`, only reached
with a memoryview on the left) -/
def Ty.cls : Ty → Nat
  | .cint .. => 0 | .bint => 1 | .cfloat .. => 2 | .ccomplex .. => 3
  | .obj => 4 | .builtin _ => 5 | .ext _ => 6 | .mview .. => 7

def Ty.isNumeric : Ty → Bool
  | .cint .. | .bint | .cfloat .. | .ccomplex .. => true
  | _ => false

def Ty.rank : Ty → Nat
  | .cint r _ _ => r | .bint => 8 | .cfloat r _ => r | .ccomplex r _ => r | _ => 0

def Ty.sg : Ty → Nat
  | .cint _ s _ => s | _ => 1

/-- `a.__lt__(b)` of PyrexTypes.  A memoryview type has no `__lt__` of its own: the base
`PyrexType.__lt__` compares OBJECT ADDRESSES, `id(type(self)) < id(type(other))`.  That order is a fact of
the compiling process (it depends on the import sequence), so it is a parameter: `classOrder b` = the
address comparison `id(MemoryViewSliceType) < id(type(b))` for member `b` (every function of `b` is
allowed, which covers every assignment of addresses to the Python classes of the type objects,
including the subclasses used for Py_ssize_t, size_t and the builtin container types).
`mvBelow c` = `id(MemoryViewSliceType) < id(<class c>)` in the
compiling process (a fact of the process, read by the harness from the staged compiler). -/
def lt (mvBelow : Ty → Bool) (a b : Ty) : Bool :=
  match a with
  | .cint .. | .bint | .cfloat .. =>
    if b.isNumeric then decide (a.rank > b.rank) && decide (a.sg ≥ b.sg) else true
  | .ccomplex ra _ =>
    match b with
    | .ccomplex rb _ => decide (ra > rb)
    | _ => false
  | .obj | .builtin _ | .ext _ => false
  | .mview .. => mvBelow b

/-! ### CPython 3.12 `list.sort` for fewer than 64 elements: `count_run` + `binarysort` -/
section PySortAlg
variable {α : Type} (lt : α → α → Bool)

def countAsc : α → List α → Nat
  | _, [] => 0
  | p, x :: xs => if lt x p then 0 else 1 + countAsc x xs

def countDesc : α → List α → Nat
  | _, [] => 0
  | p, x :: xs => if lt x p then 1 + countDesc x xs else 0

/-- length of the initial natural run, and whether it is strictly descending -/
def countRun : List α → Nat × Bool
  | [] => (0, false)
  | [_] => (1, false)
  | a :: b :: rest =>
    if lt b a then (2 + countDesc lt b rest, true) else (2 + countAsc lt b rest, false)

/-- the `do { p = l + ((r-l)>>1); IFLT(pivot,*p) r = p; else l = p+1; } while (l < r)` loop -/
def bisect (pre : List α) (pivot : α) : Nat → Nat → Nat → Nat
  | 0, l, _ => l
  | fuel + 1, l, r =>
    if l < r then
      let p := l + (r - l) / 2
      match pre[p]? with
      | some x => if lt pivot x then bisect pre pivot fuel l p else bisect pre pivot fuel (p + 1) r
      | none => l
    else l

def insPos (pre : List α) (pivot : α) : Nat := bisect lt pre pivot (pre.length + 1) 0 pre.length

def binSort : List α → List α → List α
  | pre, [] => pre
  | pre, x :: xs => binSort (pre.insertIdx (insPos lt pre x) x) xs

/-- `list.sort()` of a list shorter than 64 (one run extended to the whole list by binary insertion) -/
def pySort (xs : List α) : List α :=
  let nr := countRun lt xs
  let run := xs.take nr.1
  binSort lt (if nr.2 then run.reverse else run) (xs.drop nr.1)

end PySortAlg

/-! ### Run-time argument values, as far as the generated tests can distinguish them -/

/-- `buf`: any object exporting the buffer protocol.  `nd` = the dispatcher sees a numpy dtype (an
ndarray, or a Cython memoryview whose base is one); `kind` 0 signed int, 1 unsigned int, 2 float,
3 complex, 4 anything else (bool, object, struct, str ...). -/
inductive Val where
  | int | bool | float | complex | none
  /-- instance of builtin type `n`; `exact = false`: of a subclass (passes `isinstance`, fails the exact-type argument check) -/
  | builtin (n : Nat) (exact : Bool)
  /-- instance of an extension class; `mro` = its cdef-class ancestors, nearest first -/
  | inst (mro : List Nat)
  | buf (nd : Bool) (kind size ndim : Nat) (native cc writable : Bool)
  | other
  deriving DecidableEq, Repr

/-- `isinstance(arg, t.py_type_name())` for a non-buffer, non-object member -/
def isInst (v : Val) : Ty → Bool
  | .cint .. => v == .int || v == .bool
  | .bint => v == .bool
  | .cfloat .. => v == .float
  | .ccomplex .. => v == .complex
  | .builtin n => match v with | .builtin m _ => m == n | _ => false
  | .ext c => match v with | .inst mro => mro.contains c | _ => false
  | .obj | .mview .. => false

def Ty.isMv : Ty → Bool | .mview .. => true | _ => false
def Ty.isObj : Ty → Bool | .obj => true | _ => false

/-- the test emitted by `_buffer_check_numpy_dtype` for member `t`, under `kind in 'iu'/'f'/'c'` -/
def npMatch (v : Val) : Ty → Bool
  | .mview k s n _ =>
    match v with
    | .buf true vk vs vn _ _ _ =>
      decide (s = vs) && decide (n = vn) &&
        (if vk ≤ 1 then decide (k ≤ 1) && (decide (k = 0) == decide (vk = 0))
         else if vk = 2 then decide (k = 2) else if vk = 3 then decide (k = 3) else false)
    | _ => false
  | _ => false

/-- `from_py_function(memoryview(arg), 0)` succeeds (buffer format, ndim, contiguity, writability,
byte order all acceptable for the member) -/
def fromPyOK (v : Val) : Ty → Bool
  | .mview k s n cc =>
    match v with
    | .buf _ vk vs vn native vcc wr =>
      decide (k = vk) && decide (s = vs) && decide (n = vn) && native && (!cc || vcc) && wr
    | _ => false
  | _ => false

/-- the dispatcher's TRIAL coercion `from_py_function(arg_as_memoryview, 0)`: the second argument is the
`writable_flag`, so a read-only buffer passes the trial (and then fails in the specialisation) -/
def trialOK (v : Val) : Ty → Bool
  | .mview k s n cc =>
    match v with
    | .buf _ vk vs vn native vcc _ =>
      decide (k = vk) && decide (s = vs) && decide (n = vn) && native && (!cc || vcc)
    | _ => false
  | _ => false

/-- the itemsize/ndim guard in `_buffer_parse_format_string_check` (implied by `trialOK`) -/
def sizeNdim (v : Val) : Ty → Bool
  | .mview _ s n _ => match v with | .buf _ _ vs vn _ _ _ => decide (s = vs) && decide (n = vn) | _ => false
  | _ => false

/-- `map_fused_type(arg)`: `sorted` = members after `.sort()`, each with its declaration index;
result = declaration index of the selected member (`none` = Python `None`, the wildcard) -/
def mapType (sorted : List (Ty × Nat)) (acceptNone : Bool) (v : Val) : Option Nat :=
  match sorted.find? (fun p => isInst v p.1) with
  | some p => some p.2
  | none =>
    let bufs := sorted.filter (fun p => p.1.isMv)
    match bufs.find? (fun p => npMatch v p.1) with
    | some p => some p.2
    | none =>
      match (if acceptNone && v == .none then bufs.head? else none) with
      | some p => some p.2
      | none =>
        match bufs.find? (fun p => sizeNdim v p.1 && trialOK v p.1) with
        | some p => some p.2
        | none => (sorted.find? (fun p => p.1.isObj)).map (·.2)

/-- a parameter `T[:, :]` (memoryview of a fused dtype): the tested types are memoryviews of the
members; non-numeric members are rejected by the compiler -/
def toMv (ndim : Nat) : Ty → Option Ty
  | .cint _ sg size => some (.mview (if sg = 0 then 1 else 0) size ndim false)
  | .cfloat _ size => some (.mview 2 size ndim false)
  | .ccomplex _ size => some (.mview 3 size ndim false)
  | _ => none

def withIdx {α : Type} (xs : List α) : List (α × Nat) := xs.zipIdx

/-- the tested member list of a parameter: the fused type's members (ndim = 0) or memoryviews of them -/
def testTypes (members : List Ty) (ndim : Nat) : Option (List Ty) :=
  if ndim = 0 then some members else members.mapM (toMv ndim)

def sortedMembers (mvBelow : Ty → Bool) (tys : List Ty) : List (Ty × Nat) :=
  pySort (fun a b => lt mvBelow a.1 b.1) (withIdx tys)

/-! ### The dispatcher `__pyx_fused_cpdef` -/

structure Param where
  name : Nat
  /-- index of the fused type this parameter uses (none: not fused) and, for `T[:]`, its ndim -/
  fv : Option Nat
  ndim : Nat
  dflt : Option Val
  acceptNone : Bool
  deriving Repr

structure Decl where
  mvBelow : Ty → Bool
  fvars : List (List Ty)
  params : List Param

structure Call where
  pos : List Val
  kw : List (Nat × Val)

inductive Err where
  | argcount | nomatch | ambiguous | badDecl
  deriving DecidableEq, Repr

/-- `_unpack_argument` -/
def getArg (c : Call) (i : Nat) (p : Param) : Option Val :=
  match c.pos[i]? with
  | some v => some v
  | none => match c.kw.find? (fun kv => kv.1 == p.name) with
    | some kv => some kv.2
    | none => p.dflt

/-- the loop over `self.node.args`: one `dest_sig` entry per fused type, at its first parameter -/
def destSig (d : Decl) (c : Call) : List Param → Nat → List Nat → Except Err (List (Nat × Option Nat))
  | [], _, _ => .ok []
  | p :: ps, i, seen =>
    match p.fv with
    | none => destSig d c ps (i + 1) seen
    | some f =>
      if seen.contains f then destSig d c ps (i + 1) seen else
      match getArg c i p with
      | none => .error .argcount
      | some v =>
        match d.fvars[f]? with
        | none => .error .badDecl
        | some members =>
          match testTypes members p.ndim with
          | none => .error .badDecl
          | some tys =>
            match destSig d c ps (i + 1) (f :: seen) with
            | .error e => .error e
            | .ok rest => .ok ((f, mapType (sortedMembers d.mvBelow tys) p.acceptNone v) :: rest)

/-- `index_signature`: scan all of `__signatures__` (in the given iteration order) -/
def sigMatches (dest : List (Option Nat)) (sig : List Nat) : Bool :=
  (dest.zip sig).all (fun ds => match ds.1 with | none => true | some x => x == ds.2)

def indexSignature (sigs : List (List Nat)) (dest : List (Option Nat)) : Except Err (List Nat) :=
  match sigs.filter (sigMatches dest) with
  | [] => .error .nomatch
  | [s] => .ok s
  | _ => .error .ambiguous

/-- `match_signatures_single`: `signatures.get(dest_type)` -/
def matchSingle (sigs : List (List Nat)) (dest : Option Nat) : Except Err (List Nat) :=
  match dest with
  | none => .error .nomatch
  | some x => match sigs.find? (· == [x]) with
    | some s => .ok s
    | none => .error .nomatch

/-- all permutations in the order of `get_all_specialized_permutations` -/
def allSigs : List Nat → List (List Nat)
  | [] => [[]]
  | n :: ns => (List.range n).flatMap (fun i => (allSigs ns).map (i :: ·))

def dispatchWith (d : Decl) (sigs : List (List Nat)) (c : Call) : Except Err (List Nat) :=
  match destSig d c d.params 0 [] with
  | .error e => .error e
  | .ok ds =>
    match ds with
    | [x] => matchSingle sigs x.2
    | _ => indexSignature sigs (ds.map (·.2))

/-- the fused types in order of first use, as member counts -/
def usedCounts (d : Decl) : List Param → List Nat → List Nat
  | [], _ => []
  | p :: ps, seen =>
    match p.fv with
    | none => usedCounts d ps seen
    | some f => if seen.contains f then usedCounts d ps seen
                else ((d.fvars[f]?).map List.length).getD 0 :: usedCounts d ps (f :: seen)

def dispatch (d : Decl) (c : Call) : Except Err (List Nat) :=
  dispatchWith d (allSigs (usedCounts d d.params [])) c

/-! ### Explicit indexing `func[idx]` (`__pyx_FusedFunction_getitem`) -/

/-- `idx` items after `obj_to_string`; the key is their '|'-join; a missing key is a KeyError -/
def getitem (sigKeys : List (String × List Nat)) (items : List String) : Option (List Nat) :=
  (sigKeys.find? (fun kv => kv.1 == "|".intercalate items)).map (·.2)

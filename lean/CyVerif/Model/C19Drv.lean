import CyVerif.Model.C19
import CyVerif.Model.C19Cmp
import CyVerif.Model.C19Str
import CyVerif.Model.C19Int
/-!
Line-protocol glue for the C19 models (token decoding / rendering).  No theorem uses this file.
-/
namespace CyVerif.C19

def pBool (s : String) : Option Bool :=
  if s == "1" then some true else if s == "0" then some false else none

def splitC (s : String) (sep : String) : List String :=
  if s == "-" || s.isEmpty then [] else s.splitOn sep

/-- constant token: `i,neg,mag,hex,u,l` `b,0|1` `c,code` `y,code` `f,v` `e,id,v,own` `x,id` -/
def pConst (s : String) : Option Const :=
  match s.splitOn "," with
  | ["i", n, m, h, u, l] => do
      let n ← pBool n; let m ← parseNat? m; let h ← pBool h; let u ← pBool u; let l ← parseNat? l
      if l ≤ 2 then some (.int n m h u l) else none
  | ["b", b] => do some (.bool (← pBool b))
  | ["c", c] => do some (.chr (← parseNat? c))
  | ["y", c] => do some (.bchr (← parseNat? c))
  | ["f", v] => do some (.flt (← parseInt? v))
  | ["e", i, v, o] => do some (.enum (← parseNat? i) (← parseInt? v) (← pBool o))
  | ["x", i] => do some (.ext (← parseNat? i))
  | _ => none

/-- var kind token: `c,bits,sgn,glo,ghi,isEnum` | `d` | `o` -/
def pVarKind (s : String) : Option VarKind :=
  match s.splitOn "," with
  | ["c", b, sg, lo, hi, en] => do
      let b ← parseNat? b
      if b = 0 then none else
      some (.cint ⟨b, ← pBool sg⟩ (← parseInt? lo) (← parseInt? hi) (← pBool en))
  | ["d"] => some .dbl
  | ["o"] => some .obj
  | _ => none

/-- prefix-notation test; returns the rest of the tokens -/
def pCond : Nat → List String → Option (Cond × List String)
  | 0, _ => none
  | fuel + 1, toks =>
    match toks with
    | "cmp" :: ne :: v :: c :: rest => do
        some (.cmp (← pBool ne) (← parseNat? v) (← pConst c), rest)
    | "ins" :: ni :: v :: by' :: chars :: rest => do
        let cs ← (splitC chars ".").mapM parseNat?
        some (.inStr (← pBool ni) (← parseNat? v) cs (← pBool by'), rest)
    | "and" :: rest => do
        let (a, r1) ← pCond fuel rest
        let (b, r2) ← pCond fuel r1
        some (.bin true a b, r2)
    | "or" :: rest => do
        let (a, r1) ← pCond fuel rest
        let (b, r2) ← pCond fuel r1
        some (.bin false a b, r2)
    | "not" :: rest => do
        let (a, r1) ← pCond fuel rest
        some (.not a, r1)
    | "oth" :: k :: rest => do some (.other (← parseNat? k), rest)
    | _ => none

def pClauses : Nat → Nat → List String → Option (List (Cond × Nat) × List String)
  | 0, _, toks => some ([], toks)
  | n + 1, fuel, toks => do
      let (c, r1) ← pCond fuel toks
      match r1 with
      | b :: r2 => do
          let b ← parseNat? b
          let (cs, r3) ← pClauses n fuel r2
          some ((c, b) :: cs, r3)
      | [] => none

def tyStr (t : CTy) : String := (if t.sgn then "s" else "u") ++ toString t.bits

def labStr (c : Const) : String :=
  match c with
  | .ext i => s!"x{i}"
  | c => s!"{tyStr c.cty}:{c.cval fun _ => 0}"

def labsStr (cs : List Const) : String := ",".intercalate (cs.map labStr)

/-- switches created inside a transformed test, in pre-order -/
def swList : CondT → List String
  | .sw ni v labels => [s!"SW{if ni then 1 else 0}:v{v}:{labsStr labels}"]
  | .bin _ a b => swList a ++ swList b
  | .not a => swList a
  | _ => []

def statStr : StatT → String
  | .ifs clauses _ =>
      "ifs " ++ "|".intercalate (clauses.map fun (c, _) => let l := swList c; if l.isEmpty then "-" else ";".intercalate l)
  | .switch v cases _ =>
      s!"switch v{v} " ++ "|".intercalate (cases.map fun (cs, b) => s!"{labsStr cs}>{b}")

def armStr : Option Nat → String
  | none => "none"
  | some b => toString b

def pVariant (s : String) : Option Variant :=
  match s.toList with
  | [a, b, c] => do
      some ⟨← pBool (String.singleton a), ← pBool (String.singleton b), ← pBool (String.singleton c)⟩
  | _ => none

def getD' {α} (l : List α) (i : Nat) (d : α) : α := l.getD i d

/-- `sw <variant> <useSwitch> <varkinds ;-sep> <vals ,-sep> <oth bits> <ext ,-sep> if <n> (cond body)* <els|->`
    `sw … expr cond` -/
def handleSw (toks : List String) : String :=
  match toks with
  | var :: us :: vks :: vals :: oth :: ext :: kind :: rest =>
    match pVariant var, pBool us, (splitC vks ";").mapM pVarKind, (splitC vals ",").mapM parseInt?,
          (splitC ext ",").mapM parseInt? with
    | some V, some us, some vkl, some vals, some exts =>
      let vk : Nat → VarKind := fun i => vkl.getD i .obj
      let env : Env := ⟨fun i => vals.getD i 0, fun k => (oth.toList.getD k '0') == '1', fun i => exts.getD i 0⟩
      if kind == "if" then
        match rest with
        | n :: rest =>
          match parseNat? n with
          | some n =>
            match pClauses n 64 rest with
            | some (cl, [els]) =>
              let els := if els == "-" then none else parseNat? els
              let s : IfStat := ⟨cl, els⟩
              let t := xformIf V us vk s
              let dist := match t with
                | .switch v cases _ =>
                    (match vk v with
                     | .cint ty _ _ _ => if labelsDistinct ty env.ext (cases.flatMap fun (p : List Const × Nat) => p.1) then "1" else "0"
                     | _ => "?")
                | .ifs cl _ => if cl.all (fun p => allSwDistinct vk env.ext p.1) then "-" else "0"
              s!"ok {statStr t} t={armStr (runT vk env t)} c={armStr (runIf vk env s)} p={armStr (runPy env s)} d={dist}"
            | _ => "bad-op"
          | none => "bad-op"
        | _ => "bad-op"
      else if kind == "expr" then
        match pCond 64 rest with
        | some (c, []) =>
          let t := if us then xformE V vk c else embed c
          let l := swList t
          let b2s := fun (b : Bool) => if b then "1" else "0"
          s!"ok expr {if l.isEmpty then "-" else ";".intercalate l} t={b2s (evalT vk env t)} c={b2s (evalC vk env c)} p={b2s (evalPy env c)} d={if allSwDistinct vk env.ext t then "-" else "0"}"
        | _ => "bad-op"
      else "bad-op"
    | _, _, _, _, _ => "bad-op"
  | _ => "bad-op"

/-! ### worlds: finite tables with defaults -/

def pOutVal (s : String) : Option (Out Val) :=
  if s.startsWith "!" then (parseNat? (s.drop 1).toString).map .raise else (parseNat? s).map .ok

def pOutBool (s : String) : Option (Out Bool) :=
  if s.startsWith "!" then (parseNat? (s.drop 1).toString).map .raise
  else if s == "1" then some (.ok true) else if s == "0" then some (.ok false) else none

def pKV {α} (p : String → Option α) (s : String) : Option (List (List Nat × α)) :=
  (splitC s ";").mapM fun item =>
    match item.splitOn "=" with
    | [k, v] => do
        let ks ← (k.splitOn ".").mapM parseNat?
        some (ks, ← p v)
    | _ => none

def lookupKV {α} (t : List (List Nat × α)) (k : List Nat) : Option α :=
  (t.find? fun e => e.1 == k).map (·.2)

/-- evs `leaf=v|!e`, cmps `op.a.b=v|!e` (default: value 1000+100*op+10*a+b), truths `v=1|0|!e` (default true),
    same `a.b` pairs -/
def pWorld (evs cmps truths same : String) : Option World := do
  let e ← pKV pOutVal evs
  let c ← pKV pOutVal cmps
  let t ← pKV pOutBool truths
  let s ← (splitC same ";").mapM fun item => (item.splitOn ".").mapM parseNat?
  some ⟨fun l => (lookupKV e [l]).getD (.ok l),
        fun op a b => (lookupKV c [op, a, b]).getD (.ok (1000 + 100 * op + 10 * a + b)),
        fun v => (lookupKV t [v]).getD (.ok true),
        fun a b => a == b || s.contains [a, b] || s.contains [b, a]⟩

def evStr : Ev → String
  | .E l => s!"E{l}"
  | .C op a b => s!"C{op}.{a}.{b}"
  | .T v => s!"T{v}"

def finStr : Fin → String
  | .val v => s!"val:{v}"
  | .bool b => if b then "bool:1" else "bool:0"
  | .raise e => s!"raise:{e}"
  | .raiseDD e => s!"raiseDD:{e}"
  | .ub => "ub"

def outStr (r : Log × Fin) : String :=
  (if r.1.isEmpty then "-" else ",".intercalate (r.1.map evStr)) ++ "/" ++ finStr r.2

def pLinks (s : String) : Option (List (Nat × Nat)) :=
  (splitC s ",").mapM fun item =>
    match item.splitOn "." with
    | [op, leaf] => do some (← parseNat? op, ← parseNat? leaf)
    | _ => none

def b2s (b : Bool) : String := if b then "1" else "0"

def pHexOrDash (s : String) : Option (List Nat) := parseHexBytes s

def pChars (s : String) : Option (List Nat) := (splitC s ".").mapM parseNat?

def pOrd (s : String) : Option OrdOp :=
  match s with
  | "lt" => some .lt | "le" => some .le | "gt" => some .gt | "ge" => some .ge | _ => none

def handle : List String → String
  | "sw" :: rest => handleSw rest
  | ["casc", checked, clears, boolCtx, first, links, evs, cmps, truths] =>
    match pBool checked, pBool clears, pBool boolCtx, parseNat? first, pLinks links, pWorld evs cmps truths "-" with
    | some ck, some cl, some bc, some f, some ls, some W =>
        if ls.isEmpty then "bad-op" else s!"ok py={outStr (pyChain W bc f ls)} cy={outStr (cyChain ck cl W bc f ls)}"
    | _, _, _, _, _, _ => "bad-op"
  | ["in", lhsFirst, itemFirst, notIn, x, items, evs, cmps, truths, same] =>
    match pBool lhsFirst, pBool itemFirst, pBool notIn, parseNat? x, (splitC items ",").mapM parseNat?,
          pWorld evs cmps truths same with
    | some lf, some itf, some ni, some x, some its, some W =>
        s!"ok py={outStr (pyIn W ni x its)} cy={outStr (cyIn ⟨lf, itf⟩ W ni x its)}"
    | _, _, _, _, _, _ => "bad-op"
  | ["equcs4", kind, chars, ch2, eq] =>
    match parseNat? kind, pChars chars, parseNat? ch2, pBool eq with
    | some k, some cs, some c, some e => s!"ok {b2s (equalsUCS4 ⟨k, cs⟩ c e)}"
    | _, _, _, _ => "bad-op"
  | ["equchar", "none", ch2, eq] =>
    match parseNat? ch2, pBool eq with
    | some c, some e => s!"ok {b2s (equalsUchar .none c e)}"
    | _, _ => "bad-op"
  | ["equchar", "other", rc, ch2, eq] =>
    match pBool rc, parseNat? ch2, pBool eq with
    | some rc, some c, some e => s!"ok {b2s (equalsUchar (.other rc) c e)}"
    | _, _, _ => "bad-op"
  | ["equchar", "str", kind, chars, ident, ch2, eq] =>
    match parseNat? kind, pChars chars, pBool ident, parseNat? ch2, pBool eq with
    | some k, some cs, some i, some c, some e => s!"ok {b2s (equalsUchar (.str ⟨k, cs⟩ i) c e)}"
    | _, _, _, _, _ => "bad-op"
  | ["ucontains", ch, kind, chars, eq] =>
    match parseNat? ch, parseNat? kind, pChars chars, pBool eq with
    | some c, some k, some cs, some e => s!"ok {b2s (unicodeContainsUCS4 c ⟨k, cs⟩ e)}"
    | _, _, _, _ => "bad-op"
  | ["bcontains", charOnly, bits, x, bytes, eq] =>
    match pBool charOnly, parseNat? bits, parseInt? x, pHexOrDash bytes, pBool eq with
    | some co, some bits, some x, some bs, some e =>
        (match bytesContainsC co bits x bs e with | .ok b => s!"ok {b2s b}" | .err m => s!"err {m}")
    | _, _, _, _, _ => "bad-op"
  | ["beq", ba1, s1, s2, ne] =>
    match pBool ba1, pHexOrDash s1, pHexOrDash s2, pBool ne with
    | some ba, some a, some b, some n => s!"ok {b2s (bytesEqNe ba a b n)}"
    | _, _, _, _ => "bad-op"
  | ["intcmp", op, negA, dsA, negB, dsB] =>
    -- digits most significant first, base 2^30; `-` = no digits (zero)
    match pCmpOp op, pBool negA, pChars dsA, pBool negB, pChars dsB with
    | some op, some na, some da, some nb, some db => s!"ok {b2s (compareIntInt (2 ^ 30) op ⟨na, da⟩ ⟨nb, db⟩)}"
    | _, _, _, _, _ => "bad-op"
  | ["bord", fix, op, s1, s2] =>
    match pBool fix, pOrd op, pHexOrDash s1, pHexOrDash s2 with
    | some f, some op, some a, some b => s!"ok {b2s (bytesOrd f op a b)}"
    | _, _, _, _ => "bad-op"
  | _ => "bad-op"

end CyVerif.C19

import CyVerif.Model.C43
/-!
Reference model of CPython 3.12 `Parser/tokenizer.c: tok_get` (layout part) over the same
abstract physical-line stream, and the line-protocol entry `handle`.
-/
namespace CyVerif.C43

/-- CPython limits (`MAXINDENT`, `MAXLEVEL`) -/
structure Limits where
  maxIndent : Nat
  maxLevel : Nat
  deriving DecidableEq, Repr

def cpyLimits : Limits := ⟨100, 200⟩

structure PySt where
  bol : Bool                 -- `atbol` with `level == 0`
  col : Nat                  -- accumulators of the indentation loop; they survive a
  alt : Nat                  -- leading `white-space + backslash-newline` line
  cont : Nat                 -- `cont_line_col` (0 = unset)
  pend : Bool                -- a leading continuation line has been consumed
  ind : List (Nat × Nat)     -- (`indstack`, `altindstack`), top first
  parens : List BK           -- `parenstack`, top first
  deriving DecidableEq, Repr

def pyInit : PySt := ⟨true, 0, 0, 0, false, [(0, 0)], []⟩

/-- the indentation loop: tabsize 8, alttabsize 1, form feed resets both columns -/
def pyCols : Nat → Nat → List Ws → Nat × Nat
  | c, a, [] => (c, a)
  | c, a, .sp :: r => pyCols (c + 1) (a + 1) r
  | c, a, .tab :: r => pyCols ((c / 8 + 1) * 8) (a + 1) r
  | _, _, .ff :: r => pyCols 0 0 r

/-- `while (tok->indent > 0 && col < tok->indstack[tok->indent]) indent--` -/
def pyPop (col : Nat) : List (Nat × Nat) → Nat × List (Nat × Nat)
  | [] => (0, [])
  | [b] => (0, [b])
  | top :: rest =>
    if col < top.1 then ((pyPop col rest).1 + 1, (pyPop col rest).2) else (0, top :: rest)

def pyIndent (L : Limits) (st : PySt) (col alt : Nat) : Except Msg (List Out × PySt) :=
  match st.ind with
  | [] => .error .internal
  | (tc, ta) :: _ =>
    if col = tc then
      if alt ≠ ta then .error .tabError else .ok ([], st)
    else if col > tc then
      if st.ind.length ≥ L.maxIndent then .error .tooDeep
      else if alt ≤ ta then .error .tabError
      else .ok ([.indent], { st with ind := (col, alt) :: st.ind })
    else
      match pyPop col st.ind with
      | (_, []) => .error .internal
      | (k, (tc', ta') :: s) =>
        if col ≠ tc' then .error .dedentMismatch
        else if alt ≠ ta' then .error .tabError
        else .ok (List.replicate k .dedent, { st with ind := (tc', ta') :: s })

/-- bracket bookkeeping of `tok_get` (`parenstack`, `level`) -/
def pyBody (L : Limits) : List BK → List Tok → Except Msg (List BK)
  | ps, [] => .ok ps
  | ps, .other :: r => pyBody L ps r
  | ps, .op k :: r => if ps.length ≥ L.maxLevel then .error .tooManyParens else pyBody L (k :: ps) r
  | [], .cl _ :: _ => .error .unmatched
  | p :: ps, .cl k :: r => if p = k then pyBody L ps r else .error .mismatch

def pyReset (st : PySt) : PySt := { st with col := 0, alt := 0, cont := 0, pend := false }

def pyFin (st : PySt) (toks : List Out) : Fin → Except Msg (List Out × PySt)
  | .nl | .cnl =>
    if st.parens.isEmpty then .ok (toks ++ [.newline], { pyReset st with bol := true })
    else .ok (toks, { pyReset st with bol := false })
  | .bs => .ok (toks, { pyReset st with bol := false })
  | .bsEof => .error .eofInMulti

def pyRest (L : Limits) (st : PySt) (pre : List Out) (l : PLine) : Except Msg (List Out × PySt) :=
  match pyBody L st.parens l.body with
  | .error m => .error m
  | .ok ps => pyFin { st with parens := ps } (pre ++ l.body.map .tok) l.fin

def pyLine (L : Limits) (st : PySt) (l : PLine) : Except Msg (List Out × PySt) :=
  if st.bol then
    let ca := pyCols st.col st.alt l.ws
    if l.body.isEmpty then
      match l.fin with
      | .nl | .cnl => .ok ([], pyReset st)                 -- blank line: ignored completely
      | .bs => .ok ([], { st with col := ca.1, alt := ca.2,
                                  cont := if st.cont ≠ 0 then st.cont else ca.1, pend := true })
      | .bsEof => .error .eofInMulti
    else
      let col := if st.cont ≠ 0 then st.cont else ca.1
      let alt := if st.cont ≠ 0 then st.cont else ca.2
      match pyIndent L st col alt with
      | .error m => .error m
      | .ok (pre, st1) => pyRest L st1 pre l
  else pyRest L st [] l

def pyRun (L : Limits) : PySt → Nat → List PLine → Run PySt
  | st, _, [] => .ok ([], st)
  | st, n, l :: ls =>
    match pyLine L st l with
    | .error m => .error (n, m)
    | .ok (t, st') =>
      match pyRun L st' (n + 1) ls with
      | .error e => .error e
      | .ok (t2, st'') => .ok (t ++ t2, st'')

def pyScan (L : Limits) (ls : List PLine) : Except (Nat × Msg) (List Out) :=
  match pyRun L pyInit 1 ls with
  | .error e => .error e
  | .ok (t, st) =>
    if !st.bol || st.pend then .error (ls.length + 1, .eofInMulti)
    else .ok (t ++ List.replicate (st.ind.length - 1) .dedent ++ [.eof])

/-! ## line protocol: `C43 cy <line>…` / `C43 py <line>…`, line = `<ws>/<body>/<fin>` -/

def parseWs : List Char → Option (List Ws)
  | [] => some []
  | 's' :: r => (parseWs r).map (.sp :: ·)
  | 't' :: r => (parseWs r).map (.tab :: ·)
  | 'f' :: r => (parseWs r).map (.ff :: ·)
  | _ => none

def parseBody : List Char → Option (List Tok)
  | [] => some []
  | 'o' :: r => (parseBody r).map (.other :: ·)
  | '(' :: r => (parseBody r).map (.op .paren :: ·)
  | '[' :: r => (parseBody r).map (.op .brack :: ·)
  | '{' :: r => (parseBody r).map (.op .brace :: ·)
  | ')' :: r => (parseBody r).map (.cl .paren :: ·)
  | ']' :: r => (parseBody r).map (.cl .brack :: ·)
  | '}' :: r => (parseBody r).map (.cl .brace :: ·)
  | _ => none

def parseFin : String → Option Fin
  | "n" => some .nl | "c" => some .cnl | "b" => some .bs | "E" => some .bsEof | _ => none

def parseLine (s : String) : Option PLine :=
  match s.splitOn "/" with
  | [w, b, f] =>
    match parseWs w.toList, parseBody b.toList, parseFin f with
    | some w, some b, some f => some ⟨w, b, f⟩
    | _, _, _ => none
  | _ => none

def parseLines : List String → Option (List PLine)
  | [] => some []
  | s :: r => match parseLine s, parseLines r with
    | some l, some ls => some (l :: ls)
    | _, _ => none

def Out.render : Out → String
  | .indent => "I" | .dedent => "D" | .newline => "N" | .eof => "E"
  | .tok (.op .paren) => "(" | .tok (.op .brack) => "[" | .tok (.op .brace) => "{"
  | .tok (.cl .paren) => ")" | .tok (.cl .brack) => "]" | .tok (.cl .brace) => "}"
  | .tok .other => "o"

def Msg.render : Msg → String
  | .mixed => "Mixed" | .inconsistent => "Inconsistent" | .unrecognized => "Unrecognized"
  | .dedentMismatch => "DedentMismatch" | .tabError => "TabError" | .tooDeep => "TooDeep"
  | .tooManyParens => "TooManyParens" | .unmatched => "Unmatched" | .mismatch => "Mismatch"
  | .eofInMulti => "EofInMulti" | .internal => "INTERNAL"

def renderRes : Except (Nat × Msg) (List Out) → String
  | .ok t => "ok " ++ String.join (t.map Out.render)
  | .error (n, m) => s!"err {n} {m.render}"

def handle : List String → String
  | "cy" :: ls => match parseLines ls with
    | some ls =>
      -- tokens, then `bracket_nesting_level` and `indentation_stack` after `eof_action`
      match cyRun cyInit 1 ls with
      | .ok (_, st) => renderRes (cyScan ls) ++ s!" {st.nest} {natsToStr (cyEofStack st)}"
      | .error _ => renderRes (cyScan ls)
    | none => "bad-op"
  | "py" :: ls => match parseLines ls with
    | some ls => renderRes (pyScan cpyLimits ls)
    | none => "bad-op"
  | _ => "bad-op"

end CyVerif.C43

import CyVerif.Model.Util
/-!
C18 — shared definitions: outcome type, text transport encoding, and the digit tables of
`Cython/Utility/TypeConversion.c` section `CIntToDigits` (the harness re-extracts the tables from
the staged source on every run and kernel-checks that they equal these definitions).
-/
namespace CyVerif.C18

/-- Outcome of a modelled function returning a Python `str`:
text, a Python exception, or C-level undefined behaviour (out-of-bounds access, failed `assert`). -/
inductive OutG (α : Type) where
  | text (s : List α)
  | err (e : String)
  | ub (k : String)
  deriving DecidableEq, Repr

/-- ASCII/Unicode-scalar texts -/
abbrev Out := OutG Char
/-- texts as lists of code points (may contain lone surrogates, which `Char` cannot hold) -/
abbrev OutU := OutG Nat

/-- transport encoding of a text: decimal code points joined by '.', "-" for the empty text -/
def encText (s : List Char) : String :=
  if s.isEmpty then "-" else ".".intercalate (s.map fun c => toString c.toNat)

def decText (s : String) : Option (List Char) :=
  if s == "-" then some [] else
  (s.splitOn ".").foldr (fun t acc =>
    match t.toNat?, acc with
    | some n, some l => if n < 0x110000 ∧ ¬ (0xD800 ≤ n ∧ n ≤ 0xDFFF) then some (Char.ofNat n :: l) else none
    | _, _ => none) (some [])

/-- code-point lists (surrogates allowed) -/
def decCps (s : String) : Option (List Nat) :=
  if s == "-" then some [] else
  (s.splitOn ".").foldr (fun t acc =>
    match t.toNat?, acc with
    | some n, some l => if n < 0x110000 then some (n :: l) else none
    | _, _ => none) (some [])

def encCps (s : List Nat) : String :=
  if s.isEmpty then "-" else ".".intercalate (s.map toString)

def Out.render : Out → String
  | .text s => "ok " ++ encText s
  | .err e => "err " ++ e
  | .ub k => "ub " ++ k

def OutU.render : OutU → String
  | .text s => "ok " ++ encCps s
  | .err e => "err " ++ e
  | .ub k => "ub " ++ k

def Out.toU : Out → OutU
  | .text s => .text (s.map Char.toNat)
  | .err e => .err e
  | .ub k => .ub k

/-- integer presentation types handled by the digit loop -/
inductive Fmt where
  | d | o | x | X
  deriving DecidableEq, Repr

/-- `DIGIT_PAIRS_10` = "00010203…9899" (explicit list: string literals reduce slowly in the kernel) -/
def DIGIT_PAIRS_10 : List Char :=
  [
   '0', '0', '0', '1', '0', '2', '0', '3', '0', '4', '0', '5', '0', '6', '0', '7', '0', '8', '0', '9',
   '1', '0', '1', '1', '1', '2', '1', '3', '1', '4', '1', '5', '1', '6', '1', '7', '1', '8', '1', '9',
   '2', '0', '2', '1', '2', '2', '2', '3', '2', '4', '2', '5', '2', '6', '2', '7', '2', '8', '2', '9',
   '3', '0', '3', '1', '3', '2', '3', '3', '3', '4', '3', '5', '3', '6', '3', '7', '3', '8', '3', '9',
   '4', '0', '4', '1', '4', '2', '4', '3', '4', '4', '4', '5', '4', '6', '4', '7', '4', '8', '4', '9',
   '5', '0', '5', '1', '5', '2', '5', '3', '5', '4', '5', '5', '5', '6', '5', '7', '5', '8', '5', '9',
   '6', '0', '6', '1', '6', '2', '6', '3', '6', '4', '6', '5', '6', '6', '6', '7', '6', '8', '6', '9',
   '7', '0', '7', '1', '7', '2', '7', '3', '7', '4', '7', '5', '7', '6', '7', '7', '7', '8', '7', '9',
   '8', '0', '8', '1', '8', '2', '8', '3', '8', '4', '8', '5', '8', '6', '8', '7', '8', '8', '8', '9',
   '9', '0', '9', '1', '9', '2', '9', '3', '9', '4', '9', '5', '9', '6', '9', '7', '9', '8', '9', '9']

/-- `DIGIT_PAIRS_8` = "00010203…7677" -/
def DIGIT_PAIRS_8 : List Char :=
  [
   '0', '0', '0', '1', '0', '2', '0', '3', '0', '4', '0', '5', '0', '6', '0', '7', '1', '0', '1', '1',
   '1', '2', '1', '3', '1', '4', '1', '5', '1', '6', '1', '7', '2', '0', '2', '1', '2', '2', '2', '3',
   '2', '4', '2', '5', '2', '6', '2', '7', '3', '0', '3', '1', '3', '2', '3', '3', '3', '4', '3', '5',
   '3', '6', '3', '7', '4', '0', '4', '1', '4', '2', '4', '3', '4', '4', '4', '5', '4', '6', '4', '7',
   '5', '0', '5', '1', '5', '2', '5', '3', '5', '4', '5', '5', '5', '6', '5', '7', '6', '0', '6', '1',
   '6', '2', '6', '3', '6', '4', '6', '5', '6', '6', '6', '7', '7', '0', '7', '1', '7', '2', '7', '3',
   '7', '4', '7', '5', '7', '6', '7', '7']

/-- `DIGITS_HEX` = "0123456789abcdef" "0123456789ABCDEF" -/
def DIGITS_HEX : List Char :=
  [
   '0', '1', '2', '3', '4', '5', '6', '7', '8', '9', 'a', 'b', 'c', 'd', 'e', 'f', '0', '1', '2', '3',
   '4', '5', '6', '7', '8', '9', 'A', 'B', 'C', 'D', 'E', 'F']

/-- C value range of an integer type of `n` bytes -/
def InRange (n : Nat) (signed : Bool) (v : Int) : Prop :=
  if signed then -(2 ^ (8 * n - 1) : Int) ≤ v ∧ v < (2 ^ (8 * n - 1) : Int)
  else 0 ≤ v ∧ v < (2 ^ (8 * n) : Int)

instance (n : Nat) (s : Bool) (v : Int) : Decidable (InRange n s v) := by
  unfold InRange; cases s <;> exact inferInstance

end CyVerif.C18

import CyVerif.Model.C33Conv
/-! # C33 — line protocol: `C33 rt <mode> <type tokens…> | <value tokens…>` → `ok <value tokens>` / `err Name`
Type tokens (prefix): `I<w>`/`U<w>` int, `D` double, `B` bool, `S` string, `Z` char*, `X` complex, `P a b`,
`V t`, `L t`, `E t` (set), `H t` (unordered_set), `M k v`, `N k v` (unordered_map), `R<k> name t …` struct,
`W<k> name t …` union, `A<n> t` carray, `C<k> t …` ctuple.
Value tokens (prefix): `i<n>`, `T`, `F`, `f<bits>`, `c<re>,<im>`, `y<hex>`, `Y<hex>` (bytearray), `u<cp.cp…>`,
`l<k> …`, `t<k> …`, `s<k> …`, `z<k> …` (frozenset), `g<k> …` (iterator), `d<k> k v …`, `n`, `o`. -/
namespace CyVerif.C33

def tailStr (s : String) : String := String.ofList (s.toList.drop 1)

/-- parse `k` items with `p` -/
def parseN {α : Type} (p : List String → Option (α × List String)) : Nat → List String → Option (List α × List String)
  | 0, ts => some ([], ts)
  | k + 1, ts => do
    let (x, ts) ← p ts
    let (xs, ts) ← parseN p k ts
    some (x :: xs, ts)

def parseTy : Nat → List String → Option (Ty × List String)
  | 0, _ => none
  | fuel + 1, tok :: ts =>
    let arg := tailStr tok
    match tok.toList.head? with
    | some 'I' => arg.toNat?.map fun w => (.int w true, ts)
    | some 'U' => arg.toNat?.map fun w => (.int w false, ts)
    | some 'D' => some (.dbl, ts) | some 'B' => some (.bool, ts) | some 'S' => some (.str, ts)
    | some 'Z' => some (.cstr, ts) | some 'X' => some (.cplx, ts)
    | some 'P' => do let (a, ts) ← parseTy fuel ts; let (b, ts) ← parseTy fuel ts; some (.pair a b, ts)
    | some 'V' => do let (a, ts) ← parseTy fuel ts; some (.vec a, ts)
    | some 'L' => do let (a, ts) ← parseTy fuel ts; some (.lst a, ts)
    | some 'E' => do let (a, ts) ← parseTy fuel ts; some (.set a, ts)
    | some 'H' => do let (a, ts) ← parseTy fuel ts; some (.uset a, ts)
    | some 'M' => do let (a, ts) ← parseTy fuel ts; let (b, ts) ← parseTy fuel ts; some (.map a b, ts)
    | some 'N' => do let (a, ts) ← parseTy fuel ts; let (b, ts) ← parseTy fuel ts; some (.umap a b, ts)
    | some 'A' => do let n ← arg.toNat?; let (a, ts) ← parseTy fuel ts; some (.carray a n, ts)
    | some 'C' => do
      let k ← arg.toNat?
      let (xs, ts) ← parseN (parseTy fuel) k ts
      some (.ctuple xs, ts)
    | some 'R' => do
      let k ← arg.toNat?
      let (xs, ts) ← parseN (fun ts => match ts with
        | nm :: ts => (parseTy fuel ts).map fun (t, ts) => ((nm, t), ts)
        | [] => none) k ts
      some (.struct (xs.map (·.1)) (xs.map (·.2)), ts)
    | some 'W' => do
      let k ← arg.toNat?
      let (xs, ts) ← parseN (fun ts => match ts with
        | nm :: ts => (parseTy fuel ts).map fun (t, ts) => ((nm, t), ts)
        | [] => none) k ts
      some (.union (xs.map (·.1)) (xs.map (·.2)), ts)
    | _ => none
  | _, [] => none

def parseCps (s : String) : Option (List Nat) :=
  if s.isEmpty then some [] else (s.splitOn ".").mapM String.toNat?

def parseVal : Nat → List String → Option (PyVal × List String)
  | 0, _ => none
  | fuel + 1, tok :: ts =>
    let arg := tailStr tok
    match tok.toList.head? with
    | some 'i' => arg.toInt?.map fun n => (.int n, ts)
    | some 'T' => some (.bool true, ts) | some 'F' => some (.bool false, ts)
    | some 'n' => some (.none, ts) | some 'o' => some (.other, ts)
    | some 'f' => arg.toNat?.map fun b => (.float b, ts)
    | some 'c' => match arg.splitOn "," with
      | [a, b] => do let re ← a.toNat?; let im ← b.toNat?; some (.cplx re im, ts)
      | _ => none
    | some 'y' => (parseHexBytes arg).map fun b => (.bytes b, ts)
    | some 'Y' => (parseHexBytes arg).map fun b => (.bytearray b, ts)
    | some 'u' => (parseCps arg).map fun s => (.str s, ts)
    | some 'l' => do let k ← arg.toNat?; let (xs, ts) ← parseN (parseVal fuel) k ts; some (.list xs, ts)
    | some 't' => do let k ← arg.toNat?; let (xs, ts) ← parseN (parseVal fuel) k ts; some (.tuple xs, ts)
    | some 's' => do let k ← arg.toNat?; let (xs, ts) ← parseN (parseVal fuel) k ts; some (.set xs, ts)
    | some 'z' => do let k ← arg.toNat?; let (xs, ts) ← parseN (parseVal fuel) k ts; some (.fset xs, ts)
    | some 'g' => do let k ← arg.toNat?; let (xs, ts) ← parseN (parseVal fuel) k ts; some (.gen xs, ts)
    | some 'd' => do
      let k ← arg.toNat?
      let (xs, ts) ← parseN (fun ts => do
        let (a, ts) ← parseVal fuel ts; let (b, ts) ← parseVal fuel ts; some ((a, b), ts)) k ts
      some (.dict xs, ts)
    | _ => none
  | _, [] => none

def cpsStr (s : List Nat) : String := ".".intercalate (s.map toString)

mutual
def pp : PyVal → List String
  | .int n => [s!"i{n}"]
  | .bool b => [if b then "T" else "F"]
  | .float b => [s!"f{b}"]
  | .cplx re im => [s!"c{re},{im}"]
  | .bytes b => ["y" ++ bytesToHex b]
  | .bytearray b => ["Y" ++ bytesToHex b]
  | .str s => ["u" ++ cpsStr s]
  | .list xs => s!"l{xs.length}" :: ppL xs
  | .tuple xs => s!"t{xs.length}" :: ppL xs
  | .set xs => s!"s{xs.length}" :: ppL xs
  | .fset xs => s!"z{xs.length}" :: ppL xs
  | .gen xs => s!"g{xs.length}" :: ppL xs
  | .dict kvs => s!"d{kvs.length}" :: ppD kvs
  | .none => ["n"] | .other => ["o"]
def ppL : List PyVal → List String
  | [] => []
  | x :: xs => pp x ++ ppL xs
def ppD : List (PyVal × PyVal) → List String
  | [] => []
  | (k, v) :: r => pp k ++ pp v ++ ppD r
end

def modeOf : String → Option Mode
  | "bytes" => some .bytes | "ascii" => some .ascii | "utf8" => some .utf8 | _ => none

def handleRt (fixed : Bool) (md : String) (rest : List String) : String :=
  match modeOf md, parseTy (rest.length + 1) rest with
  | some m, some (t, "|" :: vs) =>
    match parseVal (vs.length + 1) vs with
    | some (p, []) =>
      match roundTripV fixed m t p with
      | .ok q => "ok " ++ " ".intercalate (pp q)
      | .error e => "err " ++ e
    | _ => "bad-op"
  | _, _ => "bad-op"

/-- `rt` = the code as pinned (`o.items()` unchecked), `rtf` = with `map.from_py` repaired -/
def handle : List String → String
  | "rt" :: md :: rest => handleRt false md rest
  | "rtf" :: md :: rest => handleRt true md rest
  | _ => "bad-op"

end CyVerif.C33

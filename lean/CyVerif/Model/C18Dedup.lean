import CyVerif.Model.C18Field
/-!
Model of the placeholder de-duplication of `FinalOptimizePhase.visit_JoinedStrNode`
(`Cython/Compiler/Optimize.py`): inside one `JoinedStrNode` a placeholder on a simple local name whose
key `(name, c_format_spec, format_spec, conversion_char or 's')` was seen before is replaced by a
`CloneNode` of the first one (its text is re-used).  `format_spec` is compared as a node, so two
placeholders with a (non-empty) format spec never share a key: only spec-free placeholders are merged.
`withConv = false` models a key that lacks the conversion character.
-/
namespace CyVerif.C18

/-- de-duplication key of a spec-free placeholder: argument (name) and `conversion_char or 's'` -/
def dedupKey (withConv : Bool) (i : Nat) (conv : Option Char) : Nat × Char :=
  (i, if withConv then conv.getD 's' else 's')

def cacheFind (k : Nat × Char) : List ((Nat × Char) × List Nat) → Option (List Nat)
  | [] => none
  | (k', t) :: r => if k' = k then some t else cacheFind k r

/-- evaluation of the value list with the `seen` dictionary -/
def evalPiecesD (withConv : Bool) (sv : SrcVariant) :
    List Piece → List Arg → List ((Nat × Char) × List Nat) → List Nat → Option OutU
  | [], _, _, acc => some (.text acc)
  | .lit s :: more, args, cache, acc => evalPiecesD withConv sv more args cache (acc ++ cps s)
  | .field i conv spec :: more, args, cache, acc =>
    match args[i]? with
    | none => none
    | some a =>
      let hit := if spec.isEmpty then cacheFind (dedupKey withConv i conv) cache else none
      match hit with
      | some t => evalPiecesD withConv sv more args cache (acc ++ t)       -- CloneNode
      | none =>
        match evalFieldArg sv conv spec a with
        | none => none
        | some (.text t) =>
          let cache' := if spec.isEmpty then (dedupKey withConv i conv, t) :: cache else cache
          evalPiecesD withConv sv more args cache' (acc ++ t)
        | some e => some e

end CyVerif.C18

import CyVerif.Model.C40Infer
/-!
C40 model: token syntax of the line protocol (prefix notation).

expr  ::= `i` INT | `f` BITS | `b` 0/1 | `s` K CP₁…CP_K | `n` | `v` VAR ID | `B` OP expr expr | `U` OP expr
        | `C` OP expr expr | `call` expr | `len` expr | `abs` expr | `idx` expr expr
stmt  ::= `=` VAR D expr | `aug` VAR D ID OP expr | `forr` VAR D K expr{K} block | `forin` VAR D expr block
        | `while` expr block | `if` expr block block | `ret` expr | `pass`
block ::= `{` stmt* `}`
-/
namespace CyVerif.C40

def parseBinOp : String → Option BinOp
  | "add" => some .add | "sub" => some .sub | "mul" => some .mul | "fdiv" => some .fdiv | "mod" => some .mod
  | "pow" => some .pow | "div" => some .div | "shl" => some .shl | "shr" => some .shr
  | "and" => some .band | "or" => some .bor | "xor" => some .bxor | _ => none
def parseUnOp : String → Option UnOp
  | "neg" => some .neg | "pos" => some .pos | "inv" => some .inv | "not" => some .not | _ => none
def parseCmpOp : String → Option CmpOp
  | "lt" => some .lt | "le" => some .le | "eq" => some .eq | "ne" => some .ne | "gt" => some .gt | "ge" => some .ge
  | "is" => some .is_ | "isnot" => some .isnot | _ => none

def takeNats : Nat → List String → Option (List Nat × List String)
  | 0, ts => some ([], ts)
  | k + 1, t :: ts => do
    let n ← t.toNat?
    let (r, rest) ← takeNats k ts
    pure (n :: r, rest)
  | _, [] => none

def parseExpr : Nat → List String → Option (Expr × List String)
  | 0, _ => none
  | fuel + 1, ts =>
    match ts with
    | "i" :: n :: r => do pure (.int (← n.toInt?), r)
    | "f" :: n :: r => do pure (.flt (← n.toNat?), r)
    | "b" :: n :: r => if n = "1" then some (.bool true, r) else if n = "0" then some (.bool false, r) else none
    | "s" :: k :: r => do
      let (cs, r) ← takeNats (← k.toNat?) r
      pure (.str cs, r)
    | "n" :: r => some (.none, r)
    | "v" :: v :: id :: r => do pure (.name (← v.toNat?) (← id.toNat?), r)
    | "B" :: op :: r => do
      let op ← parseBinOp op
      let (a, r) ← parseExpr fuel r
      let (b, r) ← parseExpr fuel r
      pure (.bin op false a b, r)
    | "U" :: op :: r => do
      let op ← parseUnOp op
      let (a, r) ← parseExpr fuel r
      pure (.un op a, r)
    | "C" :: op :: r => do
      let op ← parseCmpOp op
      let (a, r) ← parseExpr fuel r
      let (b, r) ← parseExpr fuel r
      pure (.cmp op a b, r)
    | "call" :: r => do let (a, r) ← parseExpr fuel r; pure (.call a, r)
    | "len" :: r => do let (a, r) ← parseExpr fuel r; pure (.len a, r)
    | "abs" :: r => do let (a, r) ← parseExpr fuel r; pure (.abs a, r)
    | "idx" :: r => do
      let (a, r) ← parseExpr fuel r
      let (b, r) ← parseExpr fuel r
      pure (.idx a b, r)
    | _ => none

mutual
def parseStmt : Nat → List String → Option (Stmt × List String)
  | 0, _ => none
  | fuel + 1, ts =>
    match ts with
    | "=" :: v :: d :: r => do
      let (e, r) ← parseExpr (fuel + 1) r
      pure (.assign (← v.toNat?) (← d.toNat?) e, r)
    | "aug" :: v :: d :: id :: op :: r => do
      let (e, r) ← parseExpr (fuel + 1) r
      pure (.aug (← v.toNat?) (← d.toNat?) (← id.toNat?) (← parseBinOp op) e, r)
    | "forr" :: v :: d :: k :: r => do
      let v ← v.toNat?
      let d ← d.toNat?
      let (a1, r) ← parseExpr (fuel + 1) r
      if k = "1" then
        let (b, r) ← parseBlock fuel r
        pure (.forr v d a1 none none b, r)
      else if k = "2" then
        let (a2, r) ← parseExpr (fuel + 1) r
        let (b, r) ← parseBlock fuel r
        pure (.forr v d a1 (some a2) none b, r)
      else if k = "3" then
        let (a2, r) ← parseExpr (fuel + 1) r
        let (a3, r) ← parseExpr (fuel + 1) r
        let (b, r) ← parseBlock fuel r
        pure (.forr v d a1 (some a2) (some a3) b, r)
      else none
    | "forin" :: v :: d :: r => do
      let (e, r) ← parseExpr (fuel + 1) r
      let (b, r) ← parseBlock fuel r
      pure (.forin (← v.toNat?) (← d.toNat?) e b, r)
    | "while" :: r => do
      let (e, r) ← parseExpr (fuel + 1) r
      let (b, r) ← parseBlock fuel r
      pure (.while e b, r)
    | "if" :: r => do
      let (e, r) ← parseExpr (fuel + 1) r
      let (a, r) ← parseBlock fuel r
      let (b, r) ← parseBlock fuel r
      pure (.ite e a b, r)
    | "ret" :: r => do
      let (e, r) ← parseExpr (fuel + 1) r
      pure (.ret e, r)
    | "pass" :: r => some (.skip, r)
    | _ => none
def parseBlock : Nat → List String → Option (Stmt × List String)
  | 0, _ => none
  | fuel + 1, ts =>
    match ts with
    | "{" :: r => parseStmts fuel r
    | _ => none
def parseStmts : Nat → List String → Option (Stmt × List String)
  | 0, _ => none
  | fuel + 1, ts =>
    match ts with
    | "}" :: r => some (.skip, r)
    | _ => do
      let (s, r) ← parseStmt fuel ts
      let (rest, r) ← parseStmts fuel r
      pure (.seq s rest, r)
end

def parseProg (ts : List String) : Option (Stmt × List String) := parseBlock (2 * ts.length + 4) ts

def parseCfg (s : String) : Option Cfg := do
  let n ← s.toNat?
  if n ≥ 512 then none else
  pure ⟨n % 2 = 1, n / 2 % 2 = 1, n / 4 % 2 = 1, n / 8 % 2 = 1, n / 16 % 2 = 1, n / 32 % 2 = 1, n / 64 % 2 = 1,
        n / 128 % 2 = 1, n / 256 % 2 = 1⟩

def renderEnv (cfg : Cfg) (p : Stmt) (Γ : Env) : String :=
  " ".intercalate ((locals (assmts p)).map fun v =>
    s!"{v}:{(Γ.get v).name.replace " " "_"}:{if mightOverflow cfg p v then 1 else 0}")

end CyVerif.C40

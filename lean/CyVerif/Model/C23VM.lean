import CyVerif.Model.C23Cy
import CyVerif.Model.C23Py
/-!
The concrete bodies used by the correspondence check: a small stack VM (yield, try/except/finally with pending
completions, loops, `yield from`, re-entrant calls) whose programs are printed as Python source by the harness
(`harness/props/c23.py`), scripted opaque iterators, the history runner and the line-protocol entry.
The VM instantiates the `Body` parameter over which the theorems of Props/C23.lean quantify.
-/
namespace CyVerif.C23

structure OpqDesc where
  items : List Val
  endk : Exc               -- raised when the items are used up (StopIteration v = return value)
  hasSend : Bool
  thr : Nat                -- 0 no throw attribute, 1 re-raise, 2 swallow and yield the next item, 3 raise StopIteration(9)
  clo : Nat                -- 0 no close attribute, 1 return None, 2 raise U, 3 raise StopIteration(8)
  deriving Repr, DecidableEq

abbrev OpqSt := OpqDesc × Nat

inductive Instr where
  | y (c : Val) | ya | e (t : Nat) | ei | r (c : Val) | ra | x (e : Exc) | rr
  | sf (t : Nat) | se (t : Nat) | pb | j (t : Nat) | m (mask : Nat) (els : Nat) | ph | ru | pn | ef
  | dG (f : Nat) | dO (o : OpqDesc) | re (op : Op) | li (n : Nat) | lt (t : Nat) | iff (c : Val) (els : Nat)
  deriving Repr

inductive Pend where
  | handling (e : Exc) | normal | raise (e : Exc) | ret (v : Val)
  deriving Repr, DecidableEq

structure Block where
  isFinally : Bool
  target : Nat
  pendH : Nat
  loopH : Nat
  deriving Repr, DecidableEq

structure VState where
  fn : Nat
  pc : Nat
  acc : Val
  blocks : List Block
  pend : List Pend
  loops : List Nat
  retSet : Bool := false     -- a `return` statement has stored its value in the C result variable since the last resumption
  deriving Repr, DecidableEq

def vstr (v : Val) : String := if v = 0 then "N" else toString v

def msgStr : Msg → String
  | .user => "u" | .raisedStop => "rs" | .ignoredExit => "ig" | .justStarted => "js"
  | .alreadyExecuting => "ae" | .reuse => "ra"

def excCls : Exc → Nat
  | .stopIteration _ => 0 | .generatorExit => 1 | .other c => c | .valueError _ => 5
  | .runtimeError _ => 6 | .typeError _ => 7 | .attributeError => 8

def excStr : Exc → String
  | .stopIteration v => "S" ++ vstr v
  | .generatorExit => "G"
  | .other 2 => "U" | .other 3 => "B" | .other 4 => "K" | .other c => "?" ++ toString c
  | .valueError m => "V" ++ msgStr m
  | .runtimeError m => "R" ++ msgStr m
  | .typeError m => "T" ++ msgStr m
  | .attributeError => "A"

def outStr (isClose : Bool) : Out → String
  | .yielded v => "y" ++ vstr v
  | .raised e => (if isClose then "cx" else "x") ++ excStr e
  | .closed => "c"
  | .deleted => "d"
  | .probed a b c => "p" ++ (if a then "1" else "0") ++ (if b then "1" else "0") ++ (if c then "1" else "0")
  | .diverged => "DIV"

def opIsClose : Op → Bool
  | .close => true
  | _ => false

/-- keep the lowest `h` entries of a stack whose head is the top -/
def truncTo {α} (l : List α) (h : Nat) : List α := l.drop (l.length - h)

abbrev Prog := List (List Instr)

def initState (f : Nat) : VState := ⟨f, 0, 0, [], [], [], false⟩

/-- the exception "being handled" (sys.exc_info(), bare `raise`): the innermost except clause entered, or the
exception pending while a finally clause runs -/
def topHandling : List Pend → Option Exc
  | [] => none
  | .handling e :: _ => some e
  | .raise e :: _ => some e
  | _ :: l => topHandling l

inductive Mode where
  | run | raising (e : Exc) | returning (v : Val)

def vmStep (prog : Prog) : Nat → Mode → VState → List String → List String × Step VState OpqSt
  | 0, _, _, tg => (tg, .raise (.other 99))
  | n + 1, .raising e, s, tg =>
    match s.blocks with
    | [] =>
      -- "!F": the exception leaves the body after a `return` had stored a result (lowering defect of the generated body,
      -- see known_findings: the harness strips the marker and classifies the case)
      (if s.retSet then tg ++ ["!F"] else tg, .raise e)
    | b :: bs =>
      let s' := { s with blocks := bs, pend := (if b.isFinally then Pend.raise e else Pend.handling e) :: truncTo s.pend b.pendH,
                         loops := truncTo s.loops b.loopH, pc := b.target }
      vmStep prog n .run s' tg
  | n + 1, .returning v, s, tg =>
    match s.blocks with
    | [] => (tg, .ret v)
    | b :: bs =>
      if b.isFinally then
        vmStep prog n .run { s with blocks := bs, pend := Pend.ret v :: truncTo s.pend b.pendH,
                                    loops := truncTo s.loops b.loopH, pc := b.target } tg
      else vmStep prog n (.returning v) { s with blocks := bs } tg
  | n + 1, .run, s, tg =>
    let nx := { s with pc := s.pc + 1 }
    match (prog.getD s.fn []).getD s.pc (.r 0) with
    -- a real yield leaves the C function: the next resumption starts with an empty result variable
    | .y c => (tg, .yield c { nx with retSet := false })
    | .ya => (tg, .yield s.acc { nx with retSet := false })
    | .e t => vmStep prog n .run nx (tg ++ ["e" ++ toString t])
    -- log sys.exc_info(): the exception handled by the innermost enclosing except clause of this body
    | .ei => vmStep prog n .run nx (tg ++ ["ei" ++ (match topHandling s.pend with | some e => excStr e | none => "N")])
    | .r c => vmStep prog n (.returning c) { s with retSet := true } tg
    | .ra => vmStep prog n (.returning s.acc) { s with retSet := true } tg
    | .x e => vmStep prog n (.raising e) s tg
    | .rr => vmStep prog n (.raising ((topHandling s.pend).getD (.runtimeError .user))) s tg
    | .sf t => vmStep prog n .run { nx with blocks := ⟨true, t, s.pend.length, s.loops.length⟩ :: s.blocks } tg
    | .se t => vmStep prog n .run { nx with blocks := ⟨false, t, s.pend.length, s.loops.length⟩ :: s.blocks } tg
    | .pb => vmStep prog n .run { nx with blocks := s.blocks.drop 1 } tg
    | .j t => vmStep prog n .run { s with pc := t } tg
    | .m mask els =>
      match s.pend with
      | .handling e :: _ => if (mask >>> excCls e) % 2 = 1 then vmStep prog n .run nx tg else vmStep prog n .run { s with pc := els } tg
      | _ => vmStep prog n .run { s with pc := els } tg
    | .ph => vmStep prog n .run { nx with pend := s.pend.drop 1 } tg
    | .ru =>
      match s.pend with
      | .handling e :: rest => vmStep prog n (.raising e) { s with pend := rest } tg
      | _ => vmStep prog n (.raising (.runtimeError .user)) s tg
    | .pn => vmStep prog n .run { nx with pend := Pend.normal :: s.pend } tg
    | .ef =>
      match s.pend with
      | .raise e :: rest => vmStep prog n (.raising e) { s with pend := rest } tg
      | .ret v :: rest => vmStep prog n (.returning v) { s with pend := rest } tg
      | _ :: rest => vmStep prog n .run { nx with pend := rest } tg
      | [] => vmStep prog n .run nx tg
    | .dG f => (tg, .delegate (.gen (initState f)) nx)
    | .dO o => (tg, .delegate (.opq (o, 0)) nx)
    | .re op => (tg, .reenter op nx)
    | .li k => vmStep prog n .run { nx with loops := k :: s.loops } tg
    | .lt t =>
      match s.loops with
      | 0 :: rest => vmStep prog n .run { s with pc := t, loops := rest } tg
      | (k + 1) :: rest => vmStep prog n .run { nx with loops := k :: rest } tg
      | [] => vmStep prog n .run { s with pc := t } tg
    | .iff c els => if s.acc = c then vmStep prog n .run nx tg else vmStep prog n .run { s with pc := els } tg

def vmFuel : Nat := 4000

def vmBody (prog : Prog) : Body VState OpqSt where
  resume s inp :=
    match inp with
    | .send v => vmStep prog vmFuel .run { s with acc := v } []
    | .throw e => vmStep prog vmFuel (.raising e) s []
    | .reent o =>
      let isClose := match (prog.getD s.fn []).getD (s.pc - 1) (.r 0) with | .re op => opIsClose op | _ => false
      vmStep prog vmFuel .run s ["re" ++ outStr isClose o]

def opqAdv (s : OpqSt) : IRes × OpqSt :=
  match s.1.items[s.2]? with
  | some v => (.val v, (s.1, s.2 + 1))
  | none => (.exc s.1.endk, s)

def vmOpq : OpqSem OpqSt where
  next s := let a := opqAdv s; (["on"], a.1, a.2)
  send s := if s.1.hasSend then some (fun v => let a := opqAdv s; (["os" ++ vstr v], a.1, a.2)) else none
  throw s :=
    if s.1.thr = 0 then none
    else some (fun e =>
      if s.1.thr = 1 then (["ot" ++ excStr e], .exc e, s)
      else if s.1.thr = 3 then (["ot" ++ excStr e], .exc (.stopIteration 9), s)
      else let a := opqAdv s; (["ot" ++ excStr e], a.1, a.2))
  close s :=
    if s.1.clo = 0 then none
    else some (["oc"], (if s.1.clo = 2 then some (.other 2) else if s.1.clo = 3 then some (.stopIteration 8) else none), s)

end CyVerif.C23

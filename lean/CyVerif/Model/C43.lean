import CyVerif.Model.Util
/-!
C43 (partial): the LAYOUT layer of `Cython/Compiler/Scanning.py` (`PyrexScanner`):
`indentation_action`, `newline_action`, `open_bracket_action`, `close_bracket_action`,
`eof_action`, the `INDENT` scanner state of `Lexicon.py` (blank / comment lines), the
escaped-newline rule, and a reference model of CPython 3.12 `Parser/tokenizer.c`
(`tok_get`: indentation loop with `col`/`altcol`, form feed, leading continuation lines,
`indstack`/`altindstack`, the parenthesis stack) over the same abstract stream of physical lines.

A physical line = leading white-space run (space / tab / form feed), the layout-relevant
tokens of its body (open bracket, close bracket, anything else) and how it ends
(newline, comment + newline, backslash-newline, backslash at end of file).
Strings, f-strings, numbers, names are `other` here (not modelled: see claims).
-/
namespace CyVerif.C43

inductive Ws | sp | tab | ff deriving DecidableEq, Repr
inductive BK | paren | brack | brace deriving DecidableEq, Repr
inductive Tok | op (k : BK) | cl (k : BK) | other deriving DecidableEq, Repr
/-- line end: newline, comment then newline, backslash-newline, backslash then end of file -/
inductive Fin | nl | cnl | bs | bsEof deriving DecidableEq, Repr

structure PLine where
  ws : List Ws
  body : List Tok
  fin : Fin
  deriving DecidableEq, Repr

inductive Out | indent | dedent | newline | eof | tok (t : Tok) deriving DecidableEq, Repr

inductive Msg
  | mixed | inconsistent | unrecognized                 -- Cython scanner errors
  | dedentMismatch | tabError | tooDeep | tooManyParens -- CPython tokenizer errors
  | unmatched | mismatch | eofInMulti
  | internal      -- model only: the real code would raise IndexError (empty stack)
  deriving DecidableEq, Repr

abbrev Run (σ : Type) := Except (Nat × Msg) (List Out × σ)

/-! ## Cython: `PyrexScanner` layout layer -/

/-- scanner state: `INDENT` (begin of line) or default (inside a logical line) -/
inductive Mode | bol | mid deriving DecidableEq, Repr

structure CySt where
  mode : Mode
  stack : List Nat        -- `indentation_stack`, top first
  ichar : Option Ws       -- `indentation_char` (`none` = '\0')
  nest : Int              -- `bracket_nesting_level` (Python int: may go negative)
  deriving DecidableEq, Repr

def cyInit : CySt := ⟨.bol, [0], none, 0⟩

/-- text matched by `indentation = Bol + Rep(Any(" \t"))` -/
def indentText : List Ws → List Ws
  | .sp :: r => .sp :: indentText r
  | .tab :: r => .tab :: indentText r
  | _ => []

/-- tab/space check of `indentation_action`; `none` = "Mixed use of tabs and spaces" -/
def cyCheck (ichar : Option Ws) (text : List Ws) : Option (Option Ws) :=
  match text with
  | [] => some ichar
  | c :: _ =>
    if ichar ≠ none ∧ ichar ≠ some c then none
    else if text.all (· == c) then some (some c) else none

/-- `while new_level < self.current_level(): pop(); produce DEDENT`;
`none` = `current_level()` on an empty list (IndexError in the real code) -/
def cyPop (new : Nat) : List Nat → Option (Nat × List Nat)
  | [] => none
  | top :: rest =>
    if new < top then (cyPop new rest).map (fun p => (p.1 + 1, p.2)) else some (0, top :: rest)

def cyIndent (st : CySt) (text : List Ws) : Except Msg (List Out × CySt) :=
  match cyCheck st.ichar text with
  | none => .error .mixed
  | some ic =>
    match st.stack with
    | [] => .error .internal
    | cur :: _ =>
      let new := text.length
      if new = cur then .ok ([], { st with ichar := ic })
      else if new > cur then .ok ([.indent], { st with ichar := ic, stack := new :: st.stack })
      else match cyPop new st.stack with
        | none => .error .internal
        | some (_, []) => .error .internal
        | some (k, top :: s) =>
          if new ≠ top then .error .inconsistent
          else .ok (List.replicate k .dedent, { st with ichar := ic, stack := top :: s })

def tokDelta : Tok → Int
  | .op _ => 1
  | .cl _ => -1
  | .other => 0

/-- net effect of `open_bracket_action` / `close_bracket_action` over a line body -/
def bodyDelta : List Tok → Int
  | [] => 0
  | t :: r => tokDelta t + bodyDelta r

/-- `newline_action` / `escaped_newline` / a lone backslash at end of file -/
def cyFin (st : CySt) (toks : List Out) : Fin → Except Msg (List Out × CySt)
  | .nl | .cnl =>
    if st.nest = 0 then .ok (toks ++ [.newline], { st with mode := .bol })
    else .ok (toks, { st with mode := .mid })
  | .bs => .ok (toks, { st with mode := .mid })
  | .bsEof => .error .unrecognized

def isBlank (l : PLine) : Bool := l.body.isEmpty && (l.fin == .nl || l.fin == .cnl)

def cyLine (st : CySt) (l : PLine) : Except Msg (List Out × CySt) :=
  if st.mode = .bol ∧ isBlank l then .ok ([], st)   -- `Opt(spaces)+Opt(comment)+lineterm`: IGNORE
  else
    match (if st.mode = .bol then cyIndent st (indentText l.ws) else .ok ([], st)) with
    | .error m => .error m
    | .ok (pre, st1) =>
      cyFin { st1 with nest := st1.nest + bodyDelta l.body, mode := .mid }
        (pre ++ l.body.map .tok) l.fin

def cyRun : CySt → Nat → List PLine → Run CySt
  | st, _, [] => .ok ([], st)
  | st, n, l :: ls =>
    match cyLine st l with
    | .error m => .error (n, m)
    | .ok (t, st') =>
      match cyRun st' (n + 1) ls with
      | .error e => .error e
      | .ok (t2, st'') => .ok (t ++ t2, st'')

/-- the implicit last line (`lineterm` matches the final EOL) and `eof_action` -/
def cyEof (st : CySt) : List Out :=
  (if st.mode = .mid ∧ st.nest = 0 then [.newline] else [])
    ++ List.replicate (st.stack.length - 1) .dedent ++ [.eof]

/-- `indentation_stack` after `eof_action` -/
def cyEofStack (st : CySt) : List Nat := st.stack.drop (st.stack.length - 1)

def cyScan (ls : List PLine) : Except (Nat × Msg) (List Out) :=
  match cyRun cyInit 1 ls with
  | .error e => .error e
  | .ok (t, st) => .ok (t ++ cyEof st)

import CyVerif.Model.Util
/-!
Model of `Cython/Utility/TypeConversion.c`, sections `CIntFromPy`, `CIntFromPyVerify`
(`__PYX_VERIFY_RETURN_INT`), `CIntToPy`, `__Pyx_PyLong_AsSsize_t` / `__Pyx_PyIndex_AsSsize_t`,
`__Pyx_PyNumber_Long`, `ObjectAsUCS4`, and of `pylong_join` (`Cython/Utility/__init__.py`).

* A CPython 3.12 `int` is a sign flag and a little-endian digit list in base `2^PyLong_SHIFT`.
* A C integer type is `(sizeof, signedness)`; the platform is `(PyLong_SHIFT, sizeof int/long/long long/size_t)`.
  Nothing is fixed to 64 bit: the template is written with `sizeof` guards and the model keeps them.
* C expression evaluation returns `Except String Int`: an error is undefined behaviour
  (shift count >= width, signed shift/negation/multiplication overflow).  Conversions to an
  unsigned type wrap; conversions of an out-of-range value to a signed type wrap as well
  (implementation-defined in C, two's complement on every supported compiler) — that is exactly
  what `__PYX_VERIFY_RETURN_INT` relies on.
* A conversion function returns a C value plus the state of the Python error indicator (`R.ret`);
  the caller's check `(v == (T)-1) && PyErr_Occurred()` is `R.out`.
* CPython API functions (`PyLong_AsLong`, `PyLong_AsUnsignedLong`, `…LongLong`, `PyLong_AsSsize_t`,
  `_PyLong_AsByteArray`, `_PyLong_FromByteArray`, `PyLong_From*`, `&`, `>>`, `~` on exact ints) are modelled by
  their documented specification.
* Non-`int` objects reach the conversion through `tp_as_number->nb_int` / `PyNumber_Index` /
  `PyNumber_Long`; the results of those calls are abstract inputs (`Slot`).
-/
namespace CyVerif.C05

/-- `2^k` as an `Int` (a definition, so that `omega` sees an atom). -/
def two (k : Nat) : Int := ((2 ^ k : Nat) : Int)

/-- Platform parameters (in bytes, as `sizeof` gives them). -/
structure Plat where
  shift : Nat       -- PyLong_SHIFT
  intBytes : Nat    -- sizeof(int)
  longBytes : Nat   -- sizeof(long)
  llBytes : Nat     -- sizeof(PY_LONG_LONG)
  sizeBytes : Nat   -- sizeof(size_t) = sizeof(Py_ssize_t)
  deriving DecidableEq, Repr

/-- What the theorems need from the platform: a positive digit width, `int` not wider than `long` not wider than
`long long`, `size_t` not narrower than `int`, and a digit (plus sign) fits `Py_ssize_t` (CPython's compact-int
invariant). -/
def Plat.WF (P : Plat) : Prop :=
  0 < P.shift ∧ 0 < P.intBytes ∧ P.intBytes ≤ P.longBytes ∧ P.longBytes ≤ P.llBytes ∧
  P.intBytes ≤ P.sizeBytes ∧ P.shift + 2 ≤ 8 * P.sizeBytes
instance (P : Plat) : Decidable P.WF := by unfold Plat.WF; infer_instance

/-- A C integer type. -/
structure CTy where
  bytes : Nat
  signed : Bool
  deriving DecidableEq, Repr

def CTy.bits (t : CTy) : Nat := 8 * t.bytes
/-- smallest value -/
def CTy.lo (t : CTy) : Int := if t.signed then - two (t.bits - 1) else 0
/-- largest value + 1 -/
def CTy.hi (t : CTy) : Int := if t.signed then two (t.bits - 1) else two t.bits
def CTy.inRange (t : CTy) (x : Int) : Prop := t.lo ≤ x ∧ x < t.hi
instance (t : CTy) (x : Int) : Decidable (t.inRange x) := by unfold CTy.inRange; infer_instance

def Plat.tInt (P : Plat) : CTy := ⟨P.intBytes, true⟩
def Plat.tLong (P : Plat) : CTy := ⟨P.longBytes, true⟩
def Plat.tULong (P : Plat) : CTy := ⟨P.longBytes, false⟩
def Plat.tLL (P : Plat) : CTy := ⟨P.llBytes, true⟩
def Plat.tULL (P : Plat) : CTy := ⟨P.llBytes, false⟩
def Plat.tSsize (P : Plat) : CTy := ⟨P.sizeBytes, true⟩
def Plat.tSize (P : Plat) : CTy := ⟨P.sizeBytes, false⟩

/-- `(T) x`: conversion to a C integer type (wraps, see the header). -/
def cast (t : CTy) (x : Int) : Int :=
  if t.signed then (x + two (t.bits - 1)) % two t.bits - two (t.bits - 1) else x % two t.bits

/-- C integer promotion: operands narrower than `int` are computed in `int`. -/
def Plat.promote (P : Plat) (t : CTy) : CTy := if t.bytes < P.intBytes then P.tInt else t

abbrev E := Except String

/-- `a << s` evaluated in type `t` (C99 6.5.7). -/
def shl (t : CTy) (a : Int) (s : Nat) : E Int :=
  if t.bits ≤ s then .error "shift-count-out-of-range"
  else if t.signed then
    if a < 0 then .error "shift-of-negative-value"
    else if a * two s < two (t.bits - 1) then .ok (a * two s)
    else .error "signed-shift-overflow"
  else .ok ((a * two s) % two t.bits)

/-- `a | b` on non-negative values (the only use in the modelled code). -/
def bor (a b : Int) : E Int :=
  if 0 ≤ a ∧ 0 ≤ b then .ok ((a.toNat ||| b.toNat : Nat) : Int) else .error "bitor-of-negative-value"

/-- unary `-a` in type `t`. -/
def neg (t : CTy) (a : Int) : E Int :=
  if t.signed then (if t.inRange (-a) then .ok (-a) else .error "signed-negation-overflow")
  else .ok ((-a) % two t.bits)

/-- `a * b` in type `t`. -/
def mul (t : CTy) (a b : Int) : E Int :=
  if t.signed then (if t.inRange (a * b) then .ok (a * b) else .error "signed-multiplication-overflow")
  else .ok ((a * b) % two t.bits)

/-- `a - b` in type `t`. -/
def sub (t : CTy) (a b : Int) : E Int :=
  if t.signed then (if t.inRange (a - b) then .ok (a - b) else .error "signed-subtraction-overflow")
  else .ok ((a - b) % two t.bits)

/-! ## Python ints -/

/-- CPython 3.12 `PyLongObject`: sign and little-endian digits base `2^shift`. -/
structure PyLong where
  neg : Bool
  digits : List Nat
  deriving DecidableEq, Repr

def natVal (S : Nat) : List Nat → Nat
  | [] => 0
  | d :: ds => d + 2 ^ S * natVal S ds

def PyLong.value (S : Nat) (p : PyLong) : Int :=
  if p.neg then - (natVal S p.digits : Int) else (natVal S p.digits : Int)

/-- Representation invariant of CPython ints: digits below the base, no leading zero digit, zero is not negative. -/
def PyLong.WF (S : Nat) (p : PyLong) : Prop :=
  (∀ d ∈ p.digits, d < 2 ^ S) ∧ p.digits.getLast? ≠ some 0 ∧ (p.neg = true → p.digits ≠ [])

instance (S : Nat) (p : PyLong) : Decidable (p.WF S) := by unfold PyLong.WF; infer_instance

/-- digits of a natural number (`fuel` bounds the recursion; `fuel = n` always suffices). -/
def natDigits (S : Nat) : Nat → Nat → List Nat
  | 0, _ => []
  | fuel + 1, n => if n = 0 then [] else (n % 2 ^ S) :: natDigits S fuel (n / 2 ^ S)

/-- The `int` object with a given value. -/
def PyLong.ofInt (S : Nat) (x : Int) : PyLong :=
  ⟨decide (x < 0), natDigits S x.natAbs x.natAbs⟩

/-- `ob_digit[0]` (CPython stores a zero digit for the value 0). -/
def PyLong.digit0 (p : PyLong) : Nat :=
  match p.digits with
  | [] => 0
  | d :: _ => d

/-! ## `pylong_join` -/

/-- Horner evaluation `(((d[n-1] << S) | d[n-2]) << S) | …` given the remaining digits, most significant first.
`tc` is the cast type written in the template, `ta` the (promoted) type the arithmetic happens in. -/
def joinGo (ta tc : CTy) (S : Nat) (acc : Int) : List Nat → E Int
  | [] => .ok acc
  | d :: ds => do
    let sh ← shl ta acc S
    let o ← bor sh (cast tc (d : Int))
    joinGo ta tc S o ds

/-- `pylong_join(count, 'digits', T)` over `digits[0..count-1] = ds`. -/
def pylongJoin (P : Plat) (t : CTy) (ds : List Nat) : E Int :=
  match ds.reverse with
  | [] => .error "empty-join"
  | d :: rest => joinGo (P.promote t) t P.shift (cast t (d : Int)) rest

/-! ## Results -/

/-- What a conversion function leaves behind: the returned C value, the error indicator, the path taken;
or undefined behaviour. -/
inductive R where
  | ret (val : Int) (exc : Option String) (path : String)
  | ub (kind : String) (path : String)
  deriving Repr

inductive Out where
  | ok (v : Int)
  | err (e : String)
  | ub (k : String)
  deriving DecidableEq, Repr

/-- The generated call site: `v = conv(o); if (unlikely((v == (T)-1) && PyErr_Occurred())) goto error;`.
A pending exception with a different return value would go unnoticed: reported as `ub`. -/
def R.out (t : CTy) : R → Out
  | .ret v none _ => .ok v
  | .ret v (some e) _ => if v = cast t (-1) then .err e else .ub "exception-set-but-result-not-minus-one"
  | .ub k _ => .ub k

def R.path : R → String
  | .ret _ _ p => p
  | .ub _ p => p

def ofE (path : String) : E R → R
  | .ok r => r
  | .error k => .ub k path

def raiseOverflow (t : CTy) (path : String) : R := .ret (cast t (-1)) (some "OverflowError") path
def raiseNegOverflow (t : CTy) (path : String) : R := .ret (cast t (-1)) (some "OverflowError") path

/-- `const T neg_one = (T) -1, const_zero = (T) 0; const int is_unsigned = neg_one > const_zero;` -/
def isUnsigned (t : CTy) : Bool := decide (cast t (-1) > cast t 0)

/-- `__PYX__VERIFY_RETURN_INT(target_type, func_type, func_value, exc)`; `pending` is the error indicator
left by the evaluation of `func_value`. -/
def verify (t f : CTy) (isU exc : Bool) (funcValue : Int) (pending : Option String) (path : String) : R :=
  let value := cast f funcValue
  if t.bytes < f.bytes then
    if value ≠ cast f (cast t value) then
      if exc = true ∧ value = cast f (-1) ∧ pending.isSome = true then .ret (cast t (-1)) pending (path ++ "/api-error")
      else if isU = true ∧ value < 0 then raiseNegOverflow t (path ++ "/verify-neg")
      else raiseOverflow t (path ++ "/verify-overflow")
    else .ret (cast t value) pending path
  else .ret (cast t value) pending path

/-- `PyLong_AsLong`, `PyLong_AsUnsignedLong`, `PyLong_AsLongLong`, `PyLong_AsUnsignedLongLong`,
`PyLong_AsSsize_t` on an `int` of value `v`: the value if it fits, else `(f)-1` with `OverflowError`. -/
def apiAs (f : CTy) (v : Int) : Int × Option String :=
  if f.inRange v then (v, none) else (cast f (-1), some "OverflowError")

/-! ## Byte arrays (`_PyLong_AsByteArray`, `_PyLong_FromByteArray`, object representation of `T`) -/

def bytesLE : Nat → Nat → List Nat
  | 0, _ => []
  | n + 1, x => x % 256 :: bytesLE n (x / 256)

def ofBytesLE : List Nat → Nat
  | [] => 0
  | b :: bs => b + 256 * ofBytesLE bs

/-- The value of a `T` object whose memory holds `bs` (little endian, two's complement). -/
def fromBytes (t : CTy) (bs : List Nat) : Int :=
  let u : Int := (ofBytesLE bs : Nat)
  if t.signed ∧ two (t.bits - 1) ≤ u then u - two t.bits else u

/-- The memory of a `T` object holding `v`. -/
def toBytes (t : CTy) (v : Int) : List Nat := bytesLE t.bytes (v % two t.bits).toNat

/-- `_PyLong_AsByteArray(x, bytes, n, little, is_signed)`: `none` = `OverflowError`. -/
def asByteArray (n : Nat) (isSigned : Bool) (v : Int) : Option (List Nat) :=
  let t : CTy := ⟨n, isSigned⟩
  if t.inRange v then some (toBytes t v) else none

/-! ## `__Pyx_LargePyLong_…` -/

inductive LargeKind where
  | byteArray   -- `_PyLong_AsByteArray` (CPython < 3.13, not Limited API)
  | chunks      -- chunk loop through the C-API (Limited API / PyPy before 3.13)
  deriving DecidableEq, Repr

/-- Build / template configuration. -/
structure Cfg where
  internals : Bool      -- CYTHON_USE_PYLONG_INTERNALS
  large : LargeKind
  typeSlots : Bool      -- CYTHON_USE_TYPE_SLOTS
  indexFallback : Bool  -- `__Pyx_PyNumber_Long` falls back to `nb_index` when `nb_int` is missing (not in the pinned source)
  gccShift : Bool       -- `(T)1 << (bits-1)` on a signed `T` yields `T_MIN` (gcc/clang/msvc) instead of being UB (C99 6.5.7p4)
  deriving DecidableEq, Repr

def largeByteArray (t : CTy) (v : Int) : R :=
  let isU := isUnsigned t
  match asByteArray t.bytes (!isU) v with
  | none => .ret (cast t (-1)) (some "OverflowError") "large/bytearray/overflow"
  | some bs => .ret (fromBytes t bs) none "large/bytearray"

/-- State of the chunk loop: `bits`, `stepval`, `val`. -/
structure ChunkSt where
  bits : Nat
  stepval : Int
  val : Int

/-- How the chunk loop ends: normally, or by `goto done` (with the error indicator as left by `PyLong_AsLong`). -/
inductive ChunkEnd where
  | fin (st : ChunkSt)
  | done (exc : Option String)

/-- `for (bits = 0; bits < (int) sizeof(T) * 8 - chunk_size; bits += chunk_size) { … }` -/
def chunkGo (P : Plat) (ta t : CTy) (c : Nat) : Nat → ChunkSt → E ChunkEnd
  | 0, _ => .error "loop-fuel-exhausted"
  | fuel + 1, st =>
    if (st.bits : Int) < (t.bits : Int) - (c : Int) then
      -- digit = PyNumber_And(stepval, mask); idigit = PyLong_AsLong(digit); if (idigit < 0) goto done;
      let digit := st.stepval % two c
      let ie := apiAs P.tLong digit
      if ie.1 < 0 then .ok (.done ie.2)
      else
        -- val |= ((T) idigit) << bits;  stepval = stepval >> shift
        match shl ta (cast t ie.1) st.bits with
        | .error k => .error k
        | .ok sh =>
          match bor st.val sh with
          | .error k => .error k
          | .ok v => chunkGo P ta t c fuel ⟨st.bits + c, st.stepval / two c, cast t v⟩
    else .ok (.fin st)

/-- bit `k` of the two's complement representation -/
def testBit (x : Int) (k : Nat) : Bool := (x / two k) % 2 = 1

/-- `((T) 1) << (sizeof(T) * 8 - 1)` — for a signed `T` of at least `int` rank the result is not representable:
undefined in C99 (6.5.7p4), `T_MIN` with gcc/clang/msvc (`cfg.gccShift`). -/
def signBitMask (cfg : Cfg) (ta t : CTy) : E Int :=
  if ta.signed ∧ ta.bits = t.bits then
    if cfg.gccShift then .ok (- two (t.bits - 1)) else .error "shift-into-sign-bit"
  else shl ta (cast t 1) (t.bits - 1)

/-- "Add the last bits and detect overflow" + "Handle sign and overflow into sign bit". -/
def chunkLast (P : Plat) (cfg : Cfg) (ta t : CTy) (isU isNeg : Bool) (st : ChunkSt) : E R :=
  let ie := apiAs P.tLong st.stepval
  if ie.1 < 0 then .ok (.ret (cast t (-1)) ie.2 "large/chunks/last-aslong-failed")
  else
    let remaining : Int := (t.bits : Int) - (st.bits : Int) - (if isU then 0 else 1)
    if remaining < 0 then .error "negative-shift-count"
    else
      match shl P.tLong 1 remaining.toNat with
      | .error k => .error k
      | .ok lim =>
        if ie.1 ≥ lim then .ok (raiseOverflow t "large/chunks/overflow")
        else
          match shl ta (cast t ie.1) st.bits with
          | .error k => .error k
          | .ok sh =>
            match bor st.val sh with
            | .error k => .error k
            | .ok v1 =>
              let val := cast t v1
              if isU then .ok (.ret val none "large/chunks")
              else
                match signBitMask cfg ta t with
                | .error k => .error k
                | .ok _ =>
                  if testBit val (t.bits - 1) then .ok (raiseOverflow t "large/chunks/signbit")
                  else .ok (.ret (if isNeg then cast t (-val - 1) else val) none "large/chunks")

def largeChunks (P : Plat) (cfg : Cfg) (t : CTy) (isEnum : Bool) (v : Int) : R :=
  if isEnum then .ret (cast t (-1)) (some "RuntimeError") "large/chunks/enum"
  else
  let isU := isUnsigned t
  let ta := P.promote t
  let c := if P.longBytes < 8 then 30 else 62
  let isNeg := decide (v < 0)
  if isU ∧ isNeg then .ret (cast t (-1)) (some "OverflowError") "large/chunks/negative"
  else
    let stepval := if isNeg then -v - 1 else v      -- PyNumber_Invert
    ofE "large/chunks" <|
      -- mask = PyLong_FromLong((1L << chunk_size) - 1)
      match shl P.tLong 1 c with
      | .error k => .error k
      | .ok one =>
        match sub P.tLong one 1 with
        | .error k => .error k
        | .ok _mask =>
          match chunkGo P ta t c (t.bits + 1) ⟨0, stepval, cast t 0⟩ with
          | .error k => .error k
          | .ok (.done exc) => .ok (.ret (cast t (-1)) exc "large/chunks/aslong-failed")
          | .ok (.fin st) => chunkLast P cfg ta t isU isNeg st

def large (P : Plat) (cfg : Cfg) (t : CTy) (isEnum : Bool) (v : Int) : R :=
  match cfg.large with
  | .byteArray => largeByteArray t v
  | .chunks => largeChunks P cfg t isEnum v

/-! ## `__Pyx_PyULong_…`, `__Pyx_PySLong_…`, `__Pyx_PyLong_…` -/

/-- The `{{for _size in (…)}}` tuples of the templates (extracted from the source by the harness). -/
structure Tmpl where
  sizesU : List Nat
  sizesSNeg : List Nat
  sizesSPos : List Nat
  sizesSsize : List Nat
  deriving DecidableEq, Repr

/-- unsigned target, `size == n` cases -/
def digitsU (P : Plat) (t : CTy) (ds : List Nat) : List Nat → Option R
  | [] => none
  | n :: ns =>
    if ds.length = n ∧ t.bits > (n - 1) * P.shift then
      if P.tULong.bits > n * P.shift then
        let path := s!"U/{n}/join-ulong"
        some (ofE path do
          let j ← pylongJoin P P.tULong ds
          return verify t P.tULong true false j none path)
      else if t.bits ≥ n * P.shift then
        let path := s!"U/{n}/join-T"
        some (ofE path do
          let j ← pylongJoin P t ds
          return .ret (cast t j) none path)
      else none
    else digitsU P t ds ns

/-- signed target, negative value, `size == n` cases -/
def digitsSNeg (P : Plat) (t : CTy) (ds : List Nat) : List Nat → Option R
  | [] => none
  | n :: ns =>
    if ds.length = n ∧ t.bits > (n - 1) * P.shift then
      if P.tLong.bits > n * P.shift then
        let path := s!"S-/{n}/join-long"
        some (ofE path do
          let j ← pylongJoin P P.tULong ds
          let ival ← neg P.tLong (cast P.tLong j)
          return verify t P.tLong false false ival none path)
      else if t.bits - 1 > n * P.shift then
        let path := s!"S-/{n}/join-T"
        some (ofE path do
          let j ← pylongJoin P t ds
          let m ← mul (P.promote t) (cast t (-1)) j
          return .ret (cast t m) none path)
      else none
    else digitsSNeg P t ds ns

/-- signed target, positive value, `size == n` cases -/
def digitsSPos (P : Plat) (t : CTy) (ds : List Nat) : List Nat → Option R
  | [] => none
  | n :: ns =>
    if ds.length = n ∧ t.bits > (n - 1) * P.shift then
      if P.tLong.bits > n * P.shift then
        let path := s!"S+/{n}/join-ulong"
        some (ofE path do
          let j ← pylongJoin P P.tULong ds
          return verify t P.tULong false false j none path)
      else if t.bits - 1 > n * P.shift then
        let path := s!"S+/{n}/join-T"
        some (ofE path do
          let j ← pylongJoin P t ds
          return .ret (cast t j) none path)
      else none
    else digitsSPos P t ds ns

/-- tail of `__Pyx_PyULong_…`: C-API fall-backs -/
def apiU (P : Plat) (cfg : Cfg) (t : CTy) (isEnum : Bool) (v : Int) : R :=
  if t.bytes ≤ P.longBytes then
    let (r, e) := apiAs P.tULong v
    verify t P.tULong true true r e "api/ulong"
  else if t.bytes ≤ P.llBytes then
    let (r, e) := apiAs P.tULL v
    verify t P.tULL true true r e "api/ulonglong"
  else large P cfg t isEnum v

/-- tail of `__Pyx_PySLong_…` (the `PyLong_AsInt` branch needs Python >= 3.13 and is not modelled) -/
def apiS (P : Plat) (cfg : Cfg) (t : CTy) (isEnum : Bool) (v : Int) : R :=
  if t.bytes ≤ P.longBytes then
    let (r, e) := apiAs P.tLong v
    verify t P.tLong false true r e "api/long"
  else if t.bytes ≤ P.llBytes then
    let (r, e) := apiAs P.tLL v
    verify t P.tLL false true r e "api/longlong"
  else large P cfg t isEnum v

def pyULong (P : Plat) (cfg : Cfg) (tm : Tmpl) (t : CTy) (isEnum : Bool) (p : PyLong) : R :=
  let v := p.value P.shift
  if cfg.internals then
    match digitsU P t p.digits tm.sizesU with
    | some r => r
    | none => apiU P cfg t isEnum v
  else
    -- PyObject_RichCompareBool(x, Py_False, Py_LT)
    if v < 0 then raiseNegOverflow t "U/neg-check"
    else apiU P cfg t isEnum v

def pySLong (P : Plat) (cfg : Cfg) (tm : Tmpl) (t : CTy) (isEnum : Bool) (p : PyLong) : R :=
  let v := p.value P.shift
  if cfg.internals then
    match (if p.neg then digitsSNeg P t p.digits tm.sizesSNeg else digitsSPos P t p.digits tm.sizesSPos) with
    | some r => r
    | none => apiS P cfg t isEnum v
  else apiS P cfg t isEnum v

/-- `__Pyx_PyLong_CompactValue(x)`: `sign * (Py_ssize_t) digit[0]` computed in `Py_ssize_t`. -/
def compactValue (P : Plat) (p : PyLong) : E Int :=
  let sign : Int := if p.digits = [] then 0 else if p.neg then -1 else 1
  mul P.tSsize (cast P.tSsize sign) (cast P.tSsize (p.digit0 : Int))

/-- `__Pyx_PyLong_{{FROM_PY_FUNCTION}}(x)` for `PyLong_Check(x)` objects. -/
def fromPyLong (P : Plat) (cfg : Cfg) (tm : Tmpl) (t : CTy) (isEnum : Bool) (p : PyLong) : R :=
  if isUnsigned t then
    if cfg.internals then
      if p.neg then raiseNegOverflow t "U/neg-check"
      else if p.digits.length < 2 then
        verify t P.tSize true false (p.digit0 : Int) none "U/compact"
      else pyULong P cfg tm t isEnum p
    else pyULong P cfg tm t isEnum p
  else
    if cfg.internals then
      if p.digits.length < 2 then
        ofE "S/compact" do
          let cv ← compactValue P p
          return verify t P.tSsize false false cv none "S/compact"
      else pySLong P cfg tm t isEnum p
    else pySLong P cfg tm t isEnum p

/-! ## `__Pyx_PyLong_AsSsize_t`, `__Pyx_PyIndex_AsSsize_t` (`Py_ssize_t`, `Py_hash_t`) -/

def ssizeGo (P : Plat) (ds : List Nat) : List Nat → Option (E Int)
  | [] => none
  | n :: ns =>
    -- #if SIZEOF_SIZE_T * 8 > n * PyLong_SHIFT
    if P.tSize.bits > n * P.shift then
      if ds.length = n then some (do
        let j ← pylongJoin P P.tSize ds
        return cast P.tSsize j)
      else ssizeGo P ds ns
    else ssizeGo P ds ns

def asSsize (P : Plat) (cfg : Cfg) (tm : Tmpl) (p : PyLong) : R :=
  let v := p.value P.shift
  let api : R := let (r, e) := apiAs P.tSsize v; .ret r e "ssize/api"
  if cfg.internals then
    if p.digits.length = 0 then .ret 0 none "ssize/zero"
    else match ssizeGo P p.digits tm.sizesSsize with
      | none => api
      | some ej =>
        let path := s!"ssize/{p.digits.length}/join"
        ofE path do
          let ival ← ej
          if p.neg then
            let m ← neg P.tSsize ival
            return .ret m none path
          else return .ret ival none path
  else api

/-! ## Objects that are not `int`s -/

/-- Result of calling a number slot / abstract-API function on a non-int object. -/
inductive Slot where
  | absent                 -- slot is NULL / protocol not supported (the API raises TypeError itself)
  | raised (e : String)    -- the call raised `e`
  | exact (x : Int)        -- returned an exact `int`
  | subclass (x : Int)     -- returned an instance of a strict subclass of `int`
  | nonInt                 -- returned something that is not an `int`
  deriving DecidableEq, Repr

inductive Obj where
  | int (x : Int)          -- `PyLong_Check(x)`: ints, bools, instances of int subclasses
  | other (nbInt : Slot) (index : Slot) (numberLong : Slot) (exactStrOrBytes : Bool)
  deriving Repr

/-- `__Pyx_PyNumber_Long(x)` for `!PyLong_Check(x)`; the DeprecationWarning for a strict subclass result
is assumed not to be turned into an error. -/
def pyNumberLong (cfg : Cfg) (nbInt index numberLong : Slot) (exactStrOrBytes : Bool) : Res Int :=
  let res : Slot :=
    if cfg.typeSlots then
      (if nbInt = .absent ∧ cfg.indexFallback then index else nbInt)
    else if !exactStrOrBytes then numberLong else .absent
  match res with
  | .absent => .err "TypeError"            -- "an integer is required"
  | .raised e => .err e
  | .exact x => .ok x
  | .subclass x => .ok x                    -- __Pyx_PyNumber_LongWrongResultType: warning, result kept
  | .nonInt => .err "TypeError"            -- "__int__ returned non-int"

/-- `PyNumber_Index(b)` -/
def pyNumberIndex (index : Slot) : Res Int :=
  match index with
  | .absent => .err "TypeError"
  | .raised e => .err e
  | .exact x => .ok x
  | .subclass x => .ok x
  | .nonInt => .err "TypeError"

/-- `{{FROM_PY_FUNCTION}}(x)` followed by the call-site check. -/
def fromPy (P : Plat) (cfg : Cfg) (tm : Tmpl) (t : CTy) (isEnum : Bool) : Obj → Out × String
  | .int x => let r := fromPyLong P cfg tm t isEnum (PyLong.ofInt P.shift x); (r.out t, r.path)
  | .other nbInt index numberLong sb =>
    match pyNumberLong cfg nbInt index numberLong sb with
    | .err e => (.err e, "nonint/error")
    | .ok x => let r := fromPyLong P cfg tm t isEnum (PyLong.ofInt P.shift x); (r.out t, "nonint/" ++ r.path)

/-- `__Pyx_PyIndex_AsSsize_t(x)` followed by the call-site check. -/
def fromPySsize (P : Plat) (cfg : Cfg) (tm : Tmpl) : Obj → Out × String
  | .int x => let r := asSsize P cfg tm (PyLong.ofInt P.shift x); (r.out P.tSsize, r.path)
  | .other _ index _ _ =>
    match pyNumberIndex index with
    | .err e => (.err e, "nonint/error")
    | .ok x => let r := asSsize P cfg tm (PyLong.ofInt P.shift x); (r.out P.tSsize, "nonint/" ++ r.path)

/-- `__Pyx__PyObject_AsPy_UCS4(x)` for non-str objects: `__Pyx_PyLong_As_long` then `0 <= ival <= 1114111`. -/
def fromPyUCS4 (P : Plat) (cfg : Cfg) (tm : Tmpl) (o : Obj) : Out × String :=
  match fromPy P cfg tm P.tLong false o with
  | (.ok v, path) => if 0 ≤ v ∧ v < 1114111 + 1 then (.ok v, path) else (.err "OverflowError", path ++ "/ucs4-range")
  | r => r

/-! ## `CIntToPy` -/

/-- The Python int produced for the C value `v` of type `t` (all three `#if` tails — `_PyLong_FromByteArray`,
`PyLong_FromNativeBytes`, `int.from_bytes` — decode the object representation of `value`). -/
def toPy (P : Plat) (t : CTy) (v : Int) : Int × String :=
  if isUnsigned t then
    if t.bytes < P.longBytes then (cast P.tLong v, "topy/U/long")
    else if t.bytes ≤ P.longBytes then (cast P.tULong v, "topy/U/ulong")
    else if t.bytes ≤ P.llBytes then (cast P.tULL v, "topy/U/ulonglong")
    else (fromBytes ⟨t.bytes, false⟩ (toBytes t v), "topy/U/bytes")
  else
    if t.bytes ≤ P.longBytes then (cast P.tLong v, "topy/S/long")
    else if t.bytes ≤ P.llBytes then (cast P.tLL v, "topy/S/longlong")
    else (fromBytes ⟨t.bytes, true⟩ (toBytes t v), "topy/S/bytes")

/-! ## Line protocol -/

def Out.render : Out → String
  | .ok v => s!"ok {v}"
  | .err e => s!"err {e}"
  | .ub k => s!"ub {k}"

def parseNats (sep : String) (s : String) : Option (List Nat) :=
  if s = "-" then some [] else (s.splitOn sep).mapM parseNat?

def parsePlat (s : String) : Option Plat :=
  match parseNats "," s with
  | some [a, b, c, d, e] => some ⟨a, b, c, d, e⟩
  | _ => none

def parseTmpl (s : String) : Option Tmpl :=
  match (s.splitOn ";").mapM (parseNats ".") with
  | some [a, b, c, d] => some ⟨a, b, c, d⟩
  | _ => none

def parseBool (s : String) : Option Bool :=
  if s = "1" then some true else if s = "0" then some false else none

/-- `<internals><large b|c><typeSlots><indexFallback><gccShift>` e.g. `1b101` -/
def parseCfg (s : String) : Option Cfg :=
  match s.toList with
  | [i, l, ts, ix, g] =>
    match parseBool (String.ofList [i]), parseBool (String.ofList [ts]), parseBool (String.ofList [ix]),
        parseBool (String.ofList [g]) with
    | some i, some ts, some ix, some g =>
      if l = 'b' then some ⟨i, .byteArray, ts, ix, g⟩ else if l = 'c' then some ⟨i, .chunks, ts, ix, g⟩ else none
    | _, _, _, _ => none
  | _ => none

def parseSlot (s : String) : Option Slot :=
  if s = "absent" then some .absent
  else if s = "nonint" then some .nonInt
  else match s.splitOn ":" with
    | ["raise", e] => some (.raised e)
    | ["exact", x] => (parseInt? x).map .exact
    | ["sub", x] => (parseInt? x).map .subclass
    | _ => none

def parseObj : List String → Option Obj
  | ["int", x] => (parseInt? x).map .int
  | ["other", a, b, c, sb] =>
    match parseSlot a, parseSlot b, parseSlot c, parseBool sb with
    | some a, some b, some c, some sb => some (.other a b c sb)
    | _, _, _, _ => none
  | _ => none

def renderOP (r : Out × String) : String := r.1.render ++ " " ++ r.2

def handle : List String → String
  | "frompy" :: plat :: tmpl :: cfg :: bytes :: sgn :: enum :: obj =>
    match parsePlat plat, parseTmpl tmpl, parseCfg cfg, parseNat? bytes, parseBool sgn, parseBool enum, parseObj obj with
    | some P, some tm, some cfg, some b, some s, some en, some o => renderOP (fromPy P cfg tm ⟨b, s⟩ en o)
    | _, _, _, _, _, _, _ => "bad-op"
  | "ssize" :: plat :: tmpl :: cfg :: obj =>
    match parsePlat plat, parseTmpl tmpl, parseCfg cfg, parseObj obj with
    | some P, some tm, some cfg, some o => renderOP (fromPySsize P cfg tm o)
    | _, _, _, _ => "bad-op"
  | "ucs4" :: plat :: tmpl :: cfg :: obj =>
    match parsePlat plat, parseTmpl tmpl, parseCfg cfg, parseObj obj with
    | some P, some tm, some cfg, some o => renderOP (fromPyUCS4 P cfg tm o)
    | _, _, _, _ => "bad-op"
  | ["topy", plat, bytes, sgn, v] =>
    match parsePlat plat, parseNat? bytes, parseBool sgn, parseInt? v with
    | some P, some b, some s, some v =>
      let t : CTy := ⟨b, s⟩
      if t.inRange v then let r := toPy P t v; s!"ok {r.1} {r.2}" else "bad-op"
    | _, _, _, _ => "bad-op"
  | ["digits", shift, x] =>
    match parseNat? shift, parseInt? x with
    | some S, some x => let p := PyLong.ofInt S x; s!"ok {p.neg} {natsToStr p.digits}"
    | _, _ => "bad-op"
  | _ => "bad-op"

end CyVerif.C05

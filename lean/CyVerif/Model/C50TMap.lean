import CyVerif.Model.Util
/-!
Model of `Cython/Plex/Transitions.py`: class `TransitionMap`.

A Python `set` of NFA `Node`s is a strictly increasing `List Nat` of state
numbers (`SSet`); `set.add` = `sins`, `set.update` = `sunion`.  The Python list
`map = [code_0, S_0, code_1, S_1, …, S_{n-1}, code_n]` is the list of pairs
`ents = [(code_0, S_0), …, (code_{n-1}, S_{n-1})]` plus `last = code_n`; the flat
(even) index `2k` of the Python code is the pair index `k` here.  The `special`
dict (keys `''`, `'bol'`, `'eol'`, `'eof'`) is an association list in insertion
order.
-/
namespace CyVerif.C50

/-- `maxint = 2**31-1  # sentinel value` -/
def maxint : Int := 2147483647

abbrev SSet := List Nat

/-- `set.add(x)` on a strictly increasing list. -/
def sins (x : Nat) : SSet → SSet
  | [] => [x]
  | y :: ys => if x < y then x :: y :: ys else if x = y then y :: ys else y :: sins x ys

/-- `a.update(b)` -/
def sunion (a b : SSet) : SSet := b.foldr sins a

/-- keys of `TransitionMap.special`: `''` (epsilon), `'bol'`, `'eol'`, `'eof'`. -/
inductive Sp where
  | eps | bol | eol | eof
  deriving DecidableEq, Repr

/-- an `event` passed to `add`/`add_set`: a tuple `(code0, code1)` or a special key. -/
inductive Ev where
  | range (c0 c1 : Int)
  | sp (k : Sp)
  deriving DecidableEq, Repr

structure TMap where
  ents : List (Int × SSet)
  last : Int
  special : List (Sp × SSet)
  deriving DecidableEq, Repr

/-- `TransitionMap()`: `map = [-maxint, set(), maxint]`, `special = {}`. -/
def TMap.empty : TMap := ⟨[(-maxint, [])], maxint, []⟩

/-- `map[2*i]` -/
def TMap.codeAt (m : TMap) (i : Nat) : Int :=
  match m.ents[i]? with
  | some e => e.1
  | none => m.last

/-- `map[2*i+1]` -/
def TMap.setAt (m : TMap) (i : Nat) : SSet :=
  match m.ents[i]? with
  | some e => e.2
  | none => []

/-- The `while hi - lo >= 4` loop of `split` in pair indices (`hi - lo >= 2`,
`mid = (lo + hi) // 2`); returns the final `(lo, hi)`. -/
def TMap.bsearch (m : TMap) (code : Int) (lo hi : Nat) : Nat × Nat :=
  if hi - lo ≥ 2 then
    if code < m.codeAt ((lo + hi) / 2) then m.bsearch code lo ((lo + hi) / 2)
    else m.bsearch code ((lo + hi) / 2) hi
  else (lo, hi)
termination_by hi - lo
decreasing_by all_goals omega

/-- `split(code)`: index `i` with `map[i] == code`, inserting a split point if necessary. -/
def TMap.split (m : TMap) (code : Int) : TMap × Nat :=
  if code = maxint then (m, m.ents.length)
  else
    let (lo, hi) := m.bsearch code 0 m.ents.length
    if m.codeAt lo = code then (m, lo)
    else ({ m with ents := m.ents.take hi ++ (code, m.setAt (hi - 1)) :: m.ents.drop hi }, hi)

/-- `while i < j: map[i + 1] := f(map[i + 1]); i += 2` (pair indices `i ≤ k < j`). -/
def updRange (f : SSet → SSet) : Nat → Nat → List (Int × SSet) → List (Int × SSet)
  | _, _, [] => []
  | i, j, e :: es => (if i = 0 ∧ 0 < j then (e.1, f e.2) else e) :: updRange f (i - 1) (j - 1) es

/-- `get_special(event)` followed by an in-place update of the returned set. -/
def updSpecial (f : SSet → SSet) (k : Sp) : List (Sp × SSet) → List (Sp × SSet)
  | [] => [(k, f [])]
  | (k', s) :: rest => if k' = k then (k', f s) :: rest else (k', s) :: updSpecial f k rest

def TMap.addWith (m : TMap) (ev : Ev) (f : SSet → SSet) : TMap :=
  match ev with
  | .range c0 c1 =>
    let r1 := m.split c0
    let r2 := r1.1.split c1
    { r2.1 with ents := updRange f r1.2 r2.2 r2.1.ents }
  | .sp k => { m with special := updSpecial f k m.special }

/-- `add(event, new_state)` -/
def TMap.add (m : TMap) (ev : Ev) (s : Nat) : TMap := m.addWith ev (sins s)

/-- `add_set(event, new_set)` -/
def TMap.addSet (m : TMap) (ev : Ev) (t : SSet) : TMap := m.addWith ev (fun a => sunion a t)

def getSpecial (sp : List (Sp × SSet)) (k : Sp) : Option SSet :=
  match sp with
  | [] => none
  | (k', s) :: rest => if k' = k then some s else getSpecial rest k

/-- `get_epsilon()` -/
def TMap.getEpsilon (m : TMap) : Option SSet := getSpecial m.special .eps

/-- the character-range part of `iteritems()` -/
def rangeItems (elseSet : Bool) : List (Int × SSet) → Int → List (Ev × SSet)
  | [], _ => []
  | (c, s) :: rest, last =>
    let c1 := match rest with
      | [] => last
      | e :: _ => e.1
    (if s ≠ [] ∨ elseSet then [(Ev.range c c1, s)] else []) ++ rangeItems elseSet rest last

/-- `iteritems()` / `items()` -/
def TMap.items (m : TMap) : List (Ev × SSet) :=
  rangeItems (m.setAt 0 ≠ []) m.ents m.last
    ++ (m.special.filter (fun p => p.2 ≠ [])).map (fun p => (Ev.sp p.1, p.2))

/-- Lookup semantics: the state set for character code `c` (the set of the last
entry whose code is `≤ c`). -/
def lookupEnts (ents : List (Int × SSet)) (c : Int) (acc : SSet) : SSet :=
  ents.foldl (fun acc e => if e.1 ≤ c then e.2 else acc) acc

def TMap.lookup (m : TMap) (c : Int) : SSet := lookupEnts m.ents c []

def TMap.lookupSp (m : TMap) (k : Sp) : SSet := (getSpecial m.special k).getD []

end CyVerif.C50

import CyVerif.Model.C18Rewrite
/-!
Python-side reference semantics, part 3: `template % (args…)` for a `str` template and a tuple of
`int`/`str` objects, after CPython 3.12 `Objects/unicodeobject.c` (`unicode_format_arg_parse`,
`unicode_format_arg_format`, `unicode_format_arg_output`, `mainformatlong`).

Not modelled (result `none`): `*` width/precision, float conversions `e f g …`, widths ≥ 2^31.
`repr()`/`ascii()` of a str are supplied from outside (both sides of the theorems call the same
functions); of an int they are the decimal text.
-/
namespace CyVerif.C18

/-- Python object of the modelled classes; a str carries its `repr` and `ascii` texts -/
inductive PObj where
  | int (v : Int)
  | str (s r a : List Nat)
  /-- any other object, known only through its `str()`, `repr()` and `ascii()` texts
  (everything else about it is outside the model) -/
  | other (s r a : List Nat)
  deriving Repr, DecidableEq

def PObj.strText : PObj → List Nat
  | .int v => intStr v | .str s _ _ => s | .other s _ _ => s
def PObj.reprText : PObj → List Nat
  | .int v => intStr v | .str _ r _ => r | .other _ r _ => r
def PObj.asciiText : PObj → List Nat
  | .int v => intStr v | .str _ _ a => a | .other _ _ a => a

structure PDir where
  left : Bool
  plus : Bool
  space : Bool
  alt : Bool
  zero : Bool
  width : Option Nat
  prec : Option Nat
  conv : Char
  deriving Repr, DecidableEq

inductive PParse where
  | dir (d : PDir) (rest : List Char)
  | err (e : String)
  | unmodelled

def isPFlag (c : Char) : Bool := c = '-' || c = '+' || c = ' ' || c = '#' || c = '0'

/-- `[width]`: digits (`*` and widths ≥ 2^31 are not modelled: `none`) -/
def ppWidth (s1 : List Char) : Option (Option Nat × List Char) :=
  if s1.head? = some '*' then none else
  let wd := s1.takeWhile isDig
  if digitsVal wd ≥ 2147483648 then none
  else some (if wd.isEmpty then none else some (digitsVal wd), s1.dropWhile isDig)

/-- `[.precision]`: `.` followed by digits (possibly none: precision 0) -/
def ppPrec (s2 : List Char) : Option (Option Nat × List Char) :=
  match s2 with
  | '.' :: r =>
    if r.head? = some '*' then none else
    let pd := r.takeWhile isDig
    if digitsVal pd ≥ 2147483648 then none else some (some (digitsVal pd), r.dropWhile isDig)
  | _ => some (none, s2)

/-- one optional length modifier `h`, `l`, `L` is skipped -/
def ppLenMod (s3 : List Char) : List Char :=
  match s3 with
  | c :: r => if c = 'h' ∨ c = 'l' ∨ c = 'L' then r else s3
  | [] => []

/-- `unicode_format_arg_parse` on the text after a '%' -/
def parsePercentDir (s : List Char) : PParse :=
  if s.head? = some '(' then .err "TypeError" else       -- "format requires a mapping"
  let flags := s.takeWhile isPFlag
  match ppWidth (s.dropWhile isPFlag) with
  | none => .unmodelled
  | some (width, s2) =>
    match ppPrec s2 with
    | none => .unmodelled
    | some (prec, s3) =>
      match ppLenMod s3 with
      | [] => .err "ValueError"                           -- "incomplete format"
      | c :: rest =>
        .dir ⟨flags.contains '-', flags.contains '+', flags.contains ' ', flags.contains '#',
              flags.contains '0', width, prec, c⟩ rest

def padField (d : PDir) (body : List Nat) : List Nat :=
  let npad := d.width.getD 0 - body.length
  if d.left then body ++ List.replicate npad 32 else List.replicate npad 32 ++ body

/-- `%d %i %u %o %x %X` of an int -/
def percentInt (d : PDir) (v : Int) : List Nat :=
  let ty : Char := if d.conv = 'i' ∨ d.conv = 'u' then 'd' else d.conv
  let ds0 := intBody ty v.natAbs
  let ds := List.replicate (d.prec.getD 0 - ds0.length) 48 ++ ds0
  let pfx : List Nat := if d.alt then intPrefix ty else []
  let sgn : List Nat := if v < 0 then [45] else if d.plus then [43] else if d.space then [32] else []
  let npad := d.width.getD 0 - (sgn.length + pfx.length + ds.length)
  if d.left then sgn ++ pfx ++ ds ++ List.replicate npad 32
  else if d.zero then sgn ++ pfx ++ List.replicate npad 48 ++ ds
  else List.replicate npad 32 ++ sgn ++ pfx ++ ds

/-- format one argument; `none` = unmodelled -/
def percentArg (d : PDir) (o : PObj) : Option OutU :=
  let c := d.conv
  if c = 's' ∨ c = 'r' ∨ c = 'a' then
    let t := if c = 's' then o.strText else if c = 'r' then o.reprText else o.asciiText
    let t := match d.prec with | some p => t.take p | none => t
    some (.text (padField d t))
  else if c = 'd' ∨ c = 'i' ∨ c = 'u' ∨ c = 'o' ∨ c = 'x' ∨ c = 'X' then
    match o with
    | .int v => some (.text (percentInt d v))
    | .str _ _ _ => some (.err "TypeError")
    | .other _ _ _ => none
  else if c = 'c' then
    match o with
    | .int v => if v < 0 ∨ v > 0x10ffff then some (.err "OverflowError") else some (.text (padField d [v.toNat]))
    | .str s _ _ => if s.length = 1 then some (.text (padField d s)) else some (.err "TypeError")
    | .other _ _ _ => none
  else if c = 'e' ∨ c = 'E' ∨ c = 'f' ∨ c = 'F' ∨ c = 'g' ∨ c = 'G' then none
  else some (.err "ValueError")                          -- "unsupported format character"

/-- `PyUnicode_Format(template, args_tuple)` -/
def percentLoop : Nat → List Char → List PObj → List Nat → Option OutU
  | 0, _, _, _ => none
  | _ + 1, [], args, acc =>
    if args.isEmpty then some (.text acc) else some (.err "TypeError")   -- "not all arguments converted"
  | fuel + 1, c :: rest, args, acc =>
    if c ≠ '%' then percentLoop fuel rest args (acc ++ [c.toNat])
    else
      match rest with
      | [] => some (.err "ValueError")                    -- "incomplete format"
      | '%' :: rest' => percentLoop fuel rest' args (acc ++ [37])      -- "%%" (only when adjacent)
      | _ =>
        match parsePercentDir rest with
        | .unmodelled => none
        | .err e => some (.err e)
        | .dir d rest' =>
          match args with
          | [] => some (.err "TypeError")                 -- "not enough arguments"
          | o :: args' =>
            match percentArg d o with
            | none => none
            | some (.text t) => percentLoop fuel rest' args' (acc ++ t)
            | some e => some e

def pyPercent (template : List Char) (args : List PObj) : Option OutU :=
  percentLoop (template.length + 1) template args []

end CyVerif.C18

namespace CyVerif.C18

/-- conversion of an f-string field: `!s`, `!r`, `!a`, or the internal `d` of `%d`
(`__Pyx_PyNumber_Long`: ints pass, strs raise `TypeError`); outer `none` = not modelled -/
def applyConv (conv : Option Char) (o : PObj) : Option (Except String PyVal) :=
  if conv = some 's' then some (.ok (.str o.strText))
  else if conv = some 'r' then some (.ok (.str o.reprText))
  else if conv = some 'a' then some (.ok (.str o.asciiText))
  else
    match o, conv with
    | .int v, _ => some (.ok (.int v))
    | .str s _ _, none => some (.ok (.str s))
    | .str _ _ _, some _ => some (.error "TypeError")
    | .other _ _ _, _ => none

/-- a `FormattedValueNode` on a Python object: convert, then `format(obj, spec)` -/
def evalFieldObj (conv : Option Char) (spec : List Char) (o : PObj) : Option OutU :=
  match applyConv conv o with
  | none => none
  | some (.error e) => some (.err e)
  | some (.ok val) => pyFormat val spec

/-- a `JoinedStrNode`: values are evaluated left to right, the first exception wins -/
def evalPieces : List Piece → List PObj → List Nat → Option OutU
  | [], _, acc => some (.text acc)
  | .lit s :: more, args, acc => evalPieces more args (acc ++ cps s)
  | .field i conv spec :: more, args, acc =>
    match args[i]? with
    | none => none
    | some o =>
      match evalFieldObj conv spec o with
      | none => none
      | some (.text t) => evalPieces more args (acc ++ t)
      | some e => some e

end CyVerif.C18

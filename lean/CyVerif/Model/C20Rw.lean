import CyVerif.Model.C20Stmt
/-! C20 — the two compiler rewrites that restructure evaluation.
* `sfr` = `ExpandInplaceOperators.visit_InPlaceAssignmentNode.side_effect_free_reference`
  (`fx = false`: the code as it is; `fx = true`: the attribute branch stops propagating `setting`
  through a generic Python attribute access, so the object is evaluated once into a LetRefNode).
* `flat` = `flatten_parallel_assignments` + `map_starred_assignment` for ONE target tree
  (`fs = false`: starred assignment appended after the fixed positions, as the code does;
  `fs = true`: emitted at its position), executed with `ParallelAssignmentNode` semantics
  (all right-hand sides in order, then all assignments in order). -/
namespace CyVerif.C20

/-- what remains of the target after the rewrite: names, LetRefNodes and re-evaluated accessors -/
inductive RExpr where
  | ref (n : Nat)
  | name (x : String)
  | idx (py : Bool) (b i : RExpr)
  | attr (py : Bool) (o : RExpr) (a : String)
  deriving DecidableEq, Repr, Inhabited

/-- `side_effect_free_reference(node, setting)`; `n0` = number of LetRefNodes created so far. -/
def sfr (fx : Bool) : Bool → Nat → Expr → RExpr × List Expr
  | _, _, .name x => (.name x, [])
  | setting, n0, .idx py b i =>
    if py && !setting then (.ref n0, [.idx py b i]) else
    let (b', ts) := sfr fx false n0 b
    (.idx py b' (.ref (n0 + ts.length)), ts ++ [i])
  | setting, n0, .attr py o a =>
    if py && !setting then (.ref n0, [.attr py o a]) else
    let (o', ts) := sfr fx (if fx then setting && !py else setting) n0 o
    (.attr py o' a, ts)
  | _, n0, e => (.ref n0, [e])

def evalTemps (c : Cfg) (τ : Val → Bool) (σ : Store) : List Expr → Trace × List Val
  | [] => ([], [])
  | e :: es =>
    let (t1, v) := eval c τ σ e
    let (t2, vs) := evalTemps c τ σ es
    (t1 ++ t2, v :: vs)

def evalR (ρ : List Val) (σ : Store) : RExpr → Trace × Val
  | .ref n => ([], ρ.getD n (.sym "?"))
  | .name x => ([], σ.get x)
  | .idx py b i =>
    let (t1, vb) := evalR ρ σ b
    let (t2, vi) := evalR ρ σ i
    (t1 ++ t2 ++ getEv py vb vi, mk2 "get" vb vi)
  | .attr py o a =>
    let (t1, vo) := evalR ρ σ o
    (t1 ++ getattrEv py vo a, mk2 "getattr" vo (.sym a))

/-- store into the rewritten target (`generate_assignment_code`: sub-expressions, then the store) -/
def writeR (ρ : List Val) (σ : Store) (t : RExpr) (v : Val) : Trace × Store :=
  match t with
  | .ref _ => ([], σ)
  | .name x => ([], σ.set x v)
  | .idx py b i =>
    let (t1, vb) := evalR ρ σ b
    let (t2, vi) := evalR ρ σ i
    (t1 ++ t2 ++ setEv py vb vi v, σ)
  | .attr py o a =>
    let (t1, vo) := evalR ρ σ o
    (t1 ++ setattrEv py vo a v, σ)

/-- `LetNode(t1, LetNode(t2, … SingleAssignmentNode(lhs, binop(dup, rhs))))` -/
def augCy (fx : Bool) (c : Cfg) (τ : Val → Bool) (σ : Store) (t : Tgt) (rhs : Expr) : Trace × Store :=
  let (t', temps) := sfr fx true 0 t.toExpr
  let (tt, ρ) := evalTemps c τ σ temps
  let (t1, v) := evalR ρ σ t'
  let (tr, w) := eval c τ σ rhs
  let r := mk2 "iadd" v w
  let (t2, σ') := writeR ρ σ t' r
  (tt ++ t1 ++ tr ++ [r] ++ t2, σ')

def Expr.argLen : Expr → Nat
  | .acons _ t => t.argLen + 1
  | _ => 0

def Expr.argTake : Nat → Expr → Expr
  | n + 1, .acons h t => .acons h (Expr.argTake n t)
  | _, _ => .anil

def Expr.argDrop : Nat → Expr → Expr
  | n + 1, .acons _ t => Expr.argDrop n t
  | _, e => e

def LT.hasStar : LT → Bool
  | .scons s _ tl => s || tl.hasStar
  | _ => false

def isStarArg : Expr → Bool
  | .star _ => true
  | .dstar _ => true
  | _ => false

/-- `flatten_parallel_assignments([lhs, rhs])`; on the `scons` spine the expression is the `acons`
spine of the remaining right-hand items.  `none` = the compiler reports an error. -/
def flat (fs : Bool) : LT → Expr → Option (List (LT × Expr))
  | .leaf t, r => some [(.leaf t, r)]
  | .seq body, .tuple args => flat fs body args
  | .seq body, .list args => flat fs body args
  | .seq body, r => some [(.seq body, r)]
  | .snil, .anil => some []
  | .snil, _ => none
  | .scons false h tl, .acons a rest =>
    if isStarArg a then none else
    match flat fs h a, flat fs tl rest with
    | some l1, some l2 => some (l1 ++ l2)
    | _, _ => none
  | .scons false _ _, _ => none
  | .scons true h tl, args =>
    if tl.hasStar || args.argLen < tl.items then none else
    if !fs && args.argLen == 0 then none else   -- map_starred_assignment: InternalError (zip stops before the star)
    let n := args.argLen - tl.items
    match flat fs h (.list (args.argTake n)), flat fs tl (args.argDrop n) with
    | some ls, some l2 => some (if fs then ls ++ l2 else l2 ++ ls)
    | _, _ => none

def evalRhss (c : Cfg) (τ : Val → Bool) (σ : Store) : List (LT × Expr) → Trace × List (LT × Val)
  | [] => ([], [])
  | (l, e) :: ss =>
    let (t1, v) := eval c τ σ e
    let (t2, vs) := evalRhss c τ σ ss
    (t1 ++ t2, (l, v) :: vs)

def assignPairs (c : Cfg) (τ : Val → Bool) : List (LT × Val) → Store → Trace × Store
  | [], σ => ([], σ)
  | (l, v) :: ps, σ =>
    let (t1, σ1) := assignLT c τ l σ v
    let (t2, σ2) := assignPairs c τ ps σ1
    (t1 ++ t2, σ2)

/-- `ParallelAssignmentNode.generate_execution_code` -/
def runPar (c : Cfg) (τ : Val → Bool) (σ : Store) (stats : List (LT × Expr)) : Trace × Store :=
  let (t1, ps) := evalRhss c τ σ stats
  let (t2, σ') := assignPairs c τ ps σ
  (t1 ++ t2, σ')

def isDisplay : Expr → Bool
  | .tuple _ => true
  | .list _ => true
  | _ => false

def LT.isSeq : LT → Bool
  | .seq _ => true
  | _ => false

/-- the rewrite switches of the modelled compiler -/
structure Rw where
  fixInplace : Bool := false
  fixStar : Bool := false
  deriving DecidableEq, Repr

/-- Compiled semantics of one statement; `none` = compile error or a cascaded parallel assignment
(several sequence targets), which this model does not cover. -/
def stmtCy (w : Rw) (c : Cfg) (τ : Val → Bool) (σ : Store) : Stmt → Option (Trace × Store)
  | .assign [l] rhs =>
    if l.isSeq && isDisplay rhs then (flat w.fixStar l rhs).map (runPar c τ σ)
    else some (stmtRef c τ σ (.assign [l] rhs))
  | .assign lhss rhs =>
    if (lhss.filter LT.isSeq).length + (if isDisplay rhs then 1 else 0) < 2
    then some (stmtRef c τ σ (.assign lhss rhs)) else none
  | .aug t rhs => some (augCy w.fixInplace c τ σ t rhs)
  | .expr e => some (stmtRef c τ σ (.expr e))

def runCy (w : Rw) (c : Cfg) (τ : Val → Bool) : List Stmt → Store → Option (Trace × Store)
  | [], σ => some ([], σ)
  | s :: ss, σ =>
    match stmtCy w c τ σ s with
    | none => none
    | some (t1, σ1) =>
      match runCy w c τ ss σ1 with
      | none => none
      | some (t2, σ2) => some (t1 ++ t2, σ2)

end CyVerif.C20

import CyVerif.Model.Util
/-!
Model of C-function exception declarations (Cython/Compiler/Nodes.py
`FuncDefNode.generate_function_definitions` error exit; Cython/Compiler/ExprNodes.py call-site
`exc_checks`).

Declaration `(excVal, excCheck)`:
  `except v`  = (some v, false)     `except? v` = (some v, true)
  `except *`  = (none,  true)       `noexcept`  = (none,  false)
Callee, body raised:  if `excVal.isSome ∨ excCheck` the traceback is added, the error indicator stays
set and `excVal` (or the type's default 0) is returned; otherwise `__Pyx_WriteUnraisable` reports
the exception, clears the indicator, and the default is returned.
Caller: tests the conjunction of `result == v` (if `excVal = some v`) and `PyErr_Occurred()` (if
`excCheck`); no test at all for `noexcept`.  If the test fires it jumps to its error label;
reaching a Python boundary with no exception set produces `SystemError`.
-/
namespace CyVerif.C32

structure Decl where
  excVal : Option Int
  excCheck : Bool
  deriving DecidableEq, Repr

inductive Body where
  | ret (x : Int)
  | raise            -- body raised exception E
  deriving DecidableEq, Repr

/-- what the Python-level caller of the calling function observes -/
inductive Obs where
  | value (x : Int) (unraisable : Bool)     -- normal completion, and whether E was reported as unraisable
  | raised                                   -- E propagates
  | systemError                              -- error return without an exception set
  deriving DecidableEq, Repr

/-- callee exit: (returned C value, error indicator set, reported unraisable) -/
def callee (d : Decl) : Body → Int × Bool × Bool
  | .ret x => (x, false, false)
  | .raise =>
    if d.excVal.isSome ∨ d.excCheck then (d.excVal.getD 0, true, false)
    else (0, false, true)

def callerTest (d : Decl) (r : Int) (errSet : Bool) : Bool :=
  match d.excVal, d.excCheck with
  | some v, true => r == v && errSet
  | some v, false => r == v
  | none, true => errSet
  | none, false => false

def observe (d : Decl) (b : Body) : Obs :=
  let (r, errSet, unr) := callee d b
  if callerTest d r errSet then (if errSet then .raised else .systemError)
  else if errSet then .raised   -- indicator left set: surfaces at the next check (never happens, see theorems)
  else .value r unr

def handle : List String → String
  | [ev, ec, body] =>
    let ev? : Option (Option Int) := if ev == "none" then some none else (ev.toInt?).map some
    let b? : Option Body := if body == "raise" then some .raise else (body.toInt?).map .ret
    match ev?, b? with
    | some ev, some b =>
      match observe { excVal := ev, excCheck := ec == "1" } b with
      | .value x u => s!"ok value {x} {if u then 1 else 0}"
      | .raised => "ok raised"
      | .systemError => "ok SystemError"
    | _, _ => "bad-op"
  | _ => "bad-op"

end CyVerif.C32

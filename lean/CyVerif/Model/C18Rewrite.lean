import CyVerif.Model.C18Parse
/-!
Model of `ConstantFolding._build_fstring` (`Cython/Compiler/Optimize.py`): the rewriting of
`"literal template" % (a, b, …)` into an f-string node list.

* `matchDirective`: one match attempt of `_parse_string_format_regex`
  `(%(?:(?:[-0-9]+|[ ])?(?:[.][0-9]+)?)?.)` right after a `%`, with Python `re`'s backtracking order.
* `tokenize`: `re.split(regex, ustring)` without the empty pieces.
* `buildFstring`: the loop over the pieces; `none` = "cannot be optimised" (the `%` operator is kept).
-/
namespace CyVerif.C18

/-- which repairs `_build_fstring` has.  `flags`: the `%` flags are parsed (`-` wins over `0`,
`0`/space ignored for strings, strings right-aligned by default, `-` after the width gives up).
`strictText`: a `%` that the regex did not match (before a newline / at the end) makes the rewrite
give up wherever it is.  The pinned source has neither. -/
structure BuildVariant where
  flags : Bool
  strictText : Bool
  deriving DecidableEq, Repr

def BuildVariant.orig : BuildVariant := ⟨false, false⟩
def BuildVariant.fixed : BuildVariant := ⟨true, true⟩

def isFlagDigit (c : Char) : Bool := c = '-' || isDig c       -- [-0-9]

/-- regex match attempt after a '%': `(matched text without the '%', rest)` -/
def matchDirective (rest : List Char) : Option (List Char × List Char) :=
  -- (?:[-0-9]+|[ ])?   greedy
  let a : List Char :=
    match rest.takeWhile isFlagDigit with
    | [] => (match rest with | ' ' :: _ => [' '] | _ => [])
    | run => run
  let rest1 := rest.drop a.length
  -- (?:[.][0-9]+)?     greedy
  let p : List Char :=
    match rest1 with
    | '.' :: r => (match r.takeWhile isDig with | [] => [] | ds => '.' :: ds)
    | _ => []
  let rest2 := rest1.drop p.length
  match rest2 with
  | c :: rest3 =>
    if c ≠ '\n' then some (a ++ p ++ [c], rest3)            -- `.` matches
    else
      -- backtracking: give back the last digit of the precision, else the precision, else the last char of `a`
      if p.length ≥ 3 then some (a ++ p, rest2)
      else if p.length = 2 then some (a ++ ['.'], rest1.drop 1)
      else if !a.isEmpty then some (a, rest1)
      else none
  | [] =>
    if p.length ≥ 3 then some (a ++ p, rest2)
    else if p.length = 2 then some (a ++ ['.'], rest1.drop 1)
    else if !a.isEmpty then some (a, rest1)
    else none

/-- `[s for s in re.split(regex, ustring) if s]` -/
def tokenizeAux : Nat → List Char → List Char → List (List Char)
  | 0, _, _ => []
  | _ + 1, [], cur => if cur.isEmpty then [] else [cur.reverse]
  | fuel + 1, c :: rest, cur =>
    if c = '%' then
      match matchDirective rest with
      | some (m, rest') =>
        (if cur.isEmpty then [] else [cur.reverse]) ++ ('%' :: m) :: tokenizeAux fuel rest' []
      | none => tokenizeAux fuel rest (c :: cur)
    else tokenizeAux fuel rest (c :: cur)

def tokenize (s : List Char) : List (List Char) := tokenizeAux (s.length + 1) s []

/-- one element of `JoinedStrNode.values` -/
inductive Piece where
  | lit (s : List Char)
  | field (arg : Nat) (conv : Option Char) (spec : List Char)
  deriving DecidableEq, Repr

/-- `c in "…"` (the string spelled as a character list) -/
def inStr (c : Char) (s : List Char) : Bool := s.contains c

/-- the body of `if format_type in 'asrfdoxX':` — `none` = `can_be_optimised = False` -/
def directiveField (var : BuildVariant) (s : List Char) (arg : Nat) : Option Piece :=
  let ft := s.getLast?.getD '%'
  let spec0 := s.drop 1                                       -- format_spec = s[1:]
  match var.flags with
  | false =>
    if inStr ft ['d', 'o', 'x', 'X'] ∧ spec0.contains '.' then none
    else
      let (spec1, conv) : List Char × Option Char :=
        if inStr ft ['a', 'r', 's'] then
          let sp := spec0.dropLast
          (match sp with | '0' :: r => '>' :: r | _ => sp, some ft)    -- '%05s' spells '{:>5}'
        else if ft = 'd' then (spec0, some 'd')
        else (spec0, none)
      let spec2 := match spec1 with | '-' :: r => '<' :: r | _ => spec1  -- '%-5s' spells '{:<5}'
      some (.field arg conv spec2)
  | true =>
    let body := spec0.dropLast                                -- flags, width, precision
    let flags := body.takeWhile (fun c => c = '-' || c = '0' || c = ' ')
    let rest := body.drop flags.length
    if rest.contains '-' then none
    else if inStr ft ['d', 'o', 'x', 'X'] ∧ rest.contains '.' then none
    else
      let left := flags.contains '-'
      let zero := flags.contains '0' && !left
      let space := flags.contains ' '
      if inStr ft ['a', 'r', 's'] then
        let hasWidth := match rest with | c :: _ => isDig c | [] => false
        some (.field arg (some ft) ((if hasWidth then [if left then '<' else '>'] else []) ++ rest))
      else
        some (.field arg (if ft = 'd' then some 'd' else none)
          ((if left then ['<'] else []) ++ (if space then [' '] else []) ++ (if zero then ['0'] else []) ++
            rest ++ [ft]))

/-- the `for s in re.split(…)` loop; `starred[i]` = `format_args[i].is_starred` -/
def buildLoop (var : BuildVariant) (starred : List Bool) : List (List Char) → Nat → List Piece → Option (List Piece × Nat)
  | [], i, acc => some (acc.reverse, i)
  | s :: more, i, acc =>
    if s = ['%', '%'] then buildLoop var starred more i (.lit ['%'] :: acc)
    else if s.head? ≠ some '%' ∨ (var.strictText = true ∧ (s[1]? = none ∨ s[1]? = some '\n')) then
      -- literal text
      let incomplete : Bool := if var.strictText then s.contains '%' else decide (s.getLast? = some '%')
      if incomplete then none                                  -- "Incomplete format"
      else buildLoop var starred more i (.lit s :: acc)
    else
      match starred[i]? with
      | none => none                                           -- "Too few arguments"
      | some true => none                                      -- starred argument
      | some false =>
        if inStr (s.getLast?.getD '%') ['a', 's', 'r', 'f', 'd', 'o', 'x', 'X'] then
          match directiveField var s i with
          | none => none
          | some p => buildLoop var starred more (i + 1) (p :: acc)
        else none

/-- `_build_fstring(pos, ustring, format_args)`: the `JoinedStrNode.values`, or `none` -/
def buildFstring (var : BuildVariant) (ustring : List Char) (starred : List Bool) : Option (List Piece) :=
  match buildLoop var starred (tokenize ustring) 0 [] with
  | some (ps, i) => if i = starred.length then some ps else none   -- "Too many arguments"
  | none => none

end CyVerif.C18

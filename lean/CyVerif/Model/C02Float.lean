import CyVerif.Model.C02Cmp
/-!
Model of `Cython/Utility/Optimize.c`, section `PyFloatBinop`
(`__Pyx_PyFloat_[Bool]{Add,Subtract,TrueDivide,Remainder,Eq,Ne}{ObjC,CObj}`): the *decision* part —
how the object operand is converted to a C `double` (directly, from the digits, through `PyLong_AsDouble`,
or not at all = fallback), the zero-division test, the comparison of an exactly converted int with the
constant, and the sign fix-up of `%` on the IEEE class abstraction.  Rounded values of `+ - /` and `fmod`
are hardware/libm and are not modelled.  (`Divide`, the Python 2 operator, shares the `TrueDivide` text.)
-/
namespace CyVerif.C02
open CyVerif.C05 (Plat CTy cast two E PyLong natVal pylongJoin)

inductive FOp where
  | add | sub | tdiv | rem | eq | ne
  deriving DecidableEq, Repr

def FOp.isCmp : FOp → Bool
  | .eq | .ne => true
  | _ => false

def FOp.isDiv : FOp → Bool
  | .tdiv | .rem => true
  | _ => false

/-- How the helper obtained the `double` of the object operand. -/
inductive XD where
  | ofFloat (f : FCls)    -- `__Pyx_PyFloat_AS_DOUBLE(pyval)`
  | exact (v : Int)       -- `(double) v` for a C integer `v` read from the digits (`0.0` for zero)
  | asDouble (v : Int)    -- `PyLong_AsDouble(pyval)` (CPython's own conversion: rounds, or raises OverflowError)
  deriving DecidableEq, Repr

inductive FOut where
  | arith (op : FOp) (ord : Order) (x : XD)   -- the C double operation / comparison on (x, floatval) in the given order
  | bool (b : Bool)
  | err (e : String)
  | ub (k : String)
  | fallback (how : String)   -- "generic": PyNumber_… / PyObject_RichCompare; "float-richcompare": PyFloat_Type.tp_richcompare
  deriving DecidableEq, Repr

def ofEF : E FOut → FOut
  | .ok o => o
  | .error k => .ub k

/-- `zerodiv_check(fval)`: emitted iff `order == 'CObj' and c_op in '%/'`, tests `zerodivision_check && fval == 0.0`. -/
def zeroDiv (op : FOp) (ord : Order) (zcheck : Bool) (isZero : Bool) : Bool :=
  ord = .cObj && op.isDiv && zcheck && isZero

/-- `digits_done:` with the object's double known exactly as the integer `v`. -/
def doneExact (op : FOp) (ord : Order) (c : FCls) (v : Int) : FOut :=
  if op.isCmp then
    let equal : Bool := match c with | .int w => v = w | _ => false
    .bool (if op = .eq then equal else !equal)
  else .arith op ord (.exact v)

/-- `pylong_join(_size, 'digits')` reads `digits[0 … _size-1]`. -/
def firstDigits (ds : List Nat) (k : Nat) : E (List Nat) :=
  if k ≤ ds.length then .ok (ds.take k) else .error "digit-index-out-of-bounds"

/-- `{{for _size in (2, 3, 4)}} if (size <= _size && …) { fval = (double) join; if (… || fval < 2^53) {…; goto digits_done;} } {{endfor}}`;
`none` = fell through.  `fval < (double)(1LL << 53)` is modelled as `v < 2^53` (conversion is monotone and exact below 2^53). -/
def floatJoin (P : Plat) (p : PyLong) : List Nat → E (Option Int)
  | [] => .ok none
  | k :: ks =>
    if p.digits.length ≤ k ∧ 8 * P.longBytes > k * P.shift ∧ (8 * P.longBytes < 53 ∨ (k - 1) * P.shift < 53) then do
      let ds ← firstDigits p.digits k
      let v ← pylongJoin P P.tULong ds
      let lim ← C05.shl P.tLL 1 53
      if 8 * P.longBytes < 53 ∨ k * P.shift < 53 ∨ v < lim then
        pure (some (if p.neg then -v else v))
      else floatJoin P p ks
    else floatJoin P p ks

/-- The `PyLong_CheckExact` branch. -/
def floatFromLong (P : Plat) (cfg : Cfg) (op : FOp) (ord : Order) (p : PyLong) (c : FCls) (zcheck : Bool) : FOut :=
  let slow : FOut :=
    if op.isCmp then .fallback "float-richcompare"
    else
      -- `fval = PyLong_AsDouble(pyval); … #if !CYTHON_USE_PYLONG_INTERNALS zerodiv_check(fval) #endif`
      if cfg.internals = false ∧ zeroDiv op ord zcheck (isZero p) then .err "ZeroDivisionError"
      else .arith op ord (.asDouble (p.value P.shift))
  if cfg.internals then
    if isZero p then
      if zeroDiv op ord zcheck true then .err "ZeroDivisionError" else doneExact op ord c 0
    else if p.digits.length ≤ 1 then
      -- `__Pyx_PyLong_IsCompact` / `__Pyx_PyLong_CompactValue`
      doneExact op ord c (if p.neg then -(p.digit0 : Int) else (p.digit0 : Int))
    else ofEF (do
      match ← floatJoin P p [2, 3, 4] with
      | some v => pure (doneExact op ord c v)
      | none => pure slow)
  else slow

/-- `__Pyx_PyFloat_[Bool]{{op}}{{order}}(op1, op2, floatval, inplace, zerodivision_check)`; `same` is `op1 == op2`. -/
def floatBinop (P : Plat) (cfg : Cfg) (op : FOp) (ord : Order) (same : Bool) (x : Obj) (c : FCls) (zcheck : Bool) : FOut :=
  if op.isCmp ∧ same then .bool (op = .eq)
  else match x with
    | .float f => if zeroDiv op ord zcheck f.isZero then .err "ZeroDivisionError" else .arith op ord (.ofFloat f)
    | .long p => floatFromLong P cfg op ord p c zcheck
    | .other => .fallback "generic"

/-! ## `%`: the sign fix-up on IEEE classes -/

inductive IC where
  | nan
  | inf (neg : Bool)
  | zero (neg : Bool)
  | fin (neg : Bool)    -- finite, non-zero
  deriving DecidableEq, Repr

inductive RemRes where
  | nan          -- NaN
  | keep         -- `fmod(a, b)` unchanged
  | plusB        -- `fmod(a, b) + b`
  | zeroSignB    -- `copysign(0.0, b)`
  deriving DecidableEq, Repr

/-- `x < 0` on doubles -/
def IC.lt0 : IC → Bool
  | .inf n => n
  | .fin n => n
  | _ => false

/-- `if (result)` -/
def IC.truthy : IC → Bool
  | .zero _ => false
  | _ => true

/-- `result = fmod(a, b); if (result) result += ((result < 0) ^ (b < 0)) * b; else result = copysign(0.0, b);`
`r` is the class of `fmod(a, b)`.  `0 * b` is NaN for an infinite or NaN `b`. -/
def remFix (b r : IC) : RemRes :=
  if r.truthy then
    if r.lt0 ^^ b.lt0 then .plusB
    else match b with
      | .inf _ | .nan => .nan      -- result + 0*b = result + NaN
      | _ => .keep                 -- result + (±0) = result (result is non-zero here)
  else .zeroSignB

/-- The repaired text `if (result) { if ((result < 0) ^ (b < 0)) result += b; } else …` (variant selected by the
harness when the staged template contains it). -/
def remFixRepaired (b r : IC) : RemRes :=
  if r.truthy then (if r.lt0 ^^ b.lt0 then .plusB else .keep) else .zeroSignB

/-- CPython `float_rem`: `mod = fmod(vx, wx); if (mod) { if ((wx < 0) != (mod < 0)) mod += wx; } else mod = copysign(0.0, wx);` -/
def pyRemFix (b r : IC) : RemRes :=
  if r.truthy then (if b.lt0 != r.lt0 then .plusB else .keep) else .zeroSignB

/-- identify the descriptions that denote the same value when `fmod` returned NaN -/
def RemRes.norm (r : IC) (x : RemRes) : RemRes :=
  if r = .nan ∧ x ≠ .zeroSignB then .nan else x

/-- classes `fmod(a, b)` can have for a divisor of class `b` (C99 F.9.7.1) -/
def fmodPossible (b r : IC) : Bool :=
  match b, r with
  | .nan, r => r = .nan
  | .zero _, r => r = .nan
  | _, .inf _ => false
  | _, _ => true

end CyVerif.C02

import CyVerif.Model.C01Run
/-! C01: executable store semantics over a resolution table. -/
namespace CyVerif.C01

inductive Val
  | str (s : List Nat)
  | lst (vs : List Val)
  | none
  | fn (path : Path) (ps : List Name) (dflts : List Val) (body : Stmts) (env : Nat)
  | cls (path : Path)
  | inst
  | builtin (x : Name)
  deriving Inhabited

inductive Exc | nameError | unboundLocal | typeError | fuel | bad | delGlobal
  deriving DecidableEq, Repr, Inhabited

structure Frame where
  path : Path
  kind : SK
  parent : Nat
  vars : List (Name × Val)
  deriving Inhabited

structure St where
  frames : Array Frame := #[]
  glob : List (Name × Val) := []
  trace : List (List Nat) := []      -- reversed; event = tag :: payload (0 obs, 1 result, 2 exception, 3 init exception)
  deriving Inhabited

/-- builtin names of the fragment: 0 = `list`, 1 = `Ellipsis` -/
def isBuiltinName (x : Name) : Bool := x < 2

def aFind (l : List (Name × Val)) (x : Name) : Option Val :=
  match l with
  | [] => Option.none
  | (y, v) :: r => if y = x then some v else aFind r x
def aSet (l : List (Name × Val)) (x : Name) (v : Val) : List (Name × Val) :=
  match l with
  | [] => [(x, v)]
  | (y, w) :: r => if y = x then (y, v) :: r else (y, w) :: aSet r x v
def aDel (l : List (Name × Val)) (x : Name) : List (Name × Val) := l.filter (fun e => e.1 != x)

def tabFind (T : List Entry) (p : Path) (x : Name) : Option Bind :=
  match T with
  | [] => Option.none
  | e :: r => if e.path = p ∧ e.name = x then some e.bind else tabFind r p x

/-- walk the static links from frame `fid` to the activation of scope `o`;
    the flag says whether only inlined comprehensions were crossed (then an unbound read is UnboundLocalError) -/
def findOwner (st : St) (o : Path) : Nat → Nat → Bool → Option (Nat × Bool)
  | 0, _, _ => Option.none
  | n + 1, fid, onlyComp =>
    match st.frames[fid]? with
    | Option.none => Option.none
    | some f => if f.path = o then some (fid, onlyComp)
                else findOwner st o n f.parent (onlyComp && f.kind == .comp)

def findCls (st : St) : Nat → Nat → Option Nat
  | 0, _ => Option.none
  | n + 1, fid =>
    match st.frames[fid]? with
    | Option.none => Option.none
    | some f => if f.kind == .cls then some fid else if f.parent = fid then Option.none else findCls st n f.parent

def globLoad (st : St) (x : Name) : Except Exc Val :=
  match aFind st.glob x with
  | some v => .ok v
  | Option.none => if isBuiltinName x then .ok (.builtin x) else .error .nameError

def setVars (st : St) (fid : Nat) (f : List (Name × Val) → List (Name × Val)) : St :=
  match st.frames[fid]? with
  | some fr => { st with frames := st.frames.setIfInBounds fid { fr with vars := f fr.vars } }
  | Option.none => st

def load (T : List Entry) (st : St) (fid : Nat) (x : Name) : Except Exc Val :=
  match st.frames[fid]? with
  | Option.none => .error .bad
  | some fr =>
    match tabFind T fr.path x with
    | Option.none => .error .bad
    | some (.var o) =>
      match findOwner st o (st.frames.size + 1) fid true with
      | Option.none => .error .bad
      | some (ofid, onlyComp) =>
        match aFind (st.frames[ofid]?.getD default).vars x with
        | some v => .ok v
        | Option.none => .error (if onlyComp then .unboundLocal else .nameError)
    | some .glob => globLoad st x
    | some .builtin => if isBuiltinName x then .ok (.builtin x) else .error .nameError
    | some .clsName =>
      match findCls st (st.frames.size + 1) fid with
      | Option.none => .error .bad
      | some cfid =>
        match aFind (st.frames[cfid]?.getD default).vars x with
        | some v => .ok v
        | Option.none => globLoad st x

def store (T : List Entry) (st : St) (fid : Nat) (x : Name) (v : Val) : Except Exc St :=
  match st.frames[fid]? with
  | Option.none => .error .bad
  | some fr =>
    match tabFind T fr.path x with
    | Option.none => .error .bad
    | some (.var o) =>
      match findOwner st o (st.frames.size + 1) fid true with
      | Option.none => .error .bad
      | some (ofid, _) => .ok (setVars st ofid (fun l => aSet l x v))
    | some .glob => .ok { st with glob := aSet st.glob x v }
    | some .builtin => .error .bad
    | some .clsName =>
      match findCls st (st.frames.size + 1) fid with
      | Option.none => .error .bad
      | some cfid => .ok (setVars st cfid (fun l => aSet l x v))

def delete (T : List Entry) (st : St) (fid : Nat) (x : Name) : Except Exc St :=
  match st.frames[fid]? with
  | Option.none => .error .bad
  | some fr =>
    match tabFind T fr.path x with
    | Option.none => .error .bad
    | some (.var o) =>
      match findOwner st o (st.frames.size + 1) fid true with
      | Option.none => .error .bad
      | some (ofid, onlyComp) =>
        match aFind (st.frames[ofid]?.getD default).vars x with
        | some _ => .ok (setVars st ofid (fun l => aDel l x))
        | Option.none => .error (if onlyComp then .unboundLocal else .nameError)
    | some .glob =>
      match aFind st.glob x with
      | some _ => .ok { st with glob := aDel st.glob x }
      | Option.none => .error .delGlobal     -- rendered as NameError (CPython) / AttributeError (current Cython)
    | some .builtin => .error .bad
    | some .clsName =>
      match findCls st (st.frames.size + 1) fid with
      | Option.none => .error .bad
      | some cfid =>
        match aFind (st.frames[cfid]?.getD default).vars x with
        | some _ => .ok (setVars st cfid (fun l => aDel l x))
        | Option.none => .error .nameError

def truthy : Val → Bool
  | .str s => !s.isEmpty
  | .lst vs => !vs.isEmpty
  | .none => false
  | _ => true

def catVal : Val → Val → Except Exc Val
  | .str a, .str b => .ok (.str (a ++ b))
  | .lst a, .lst b => .ok (.lst (a ++ b))
  | _, _ => .error .typeError

/-- bind positional arguments; defaults belong to the last parameters -/
def bindArgs (ps : List Name) (dflts : List Val) (args : List Val) : Option (List (Name × Val)) :=
  let np := ps.length
  let na := args.length
  if na > np ∨ na + dflts.length < np then Option.none
  else
    let missing := np - na
    let tail := dflts.drop (dflts.length - missing)
    some (ps.zip (args ++ tail))

def newFrame (st : St) (fr : Frame) : St × Nat := ({ st with frames := st.frames.push fr }, st.frames.size)

-- flat, decidable encoding of an observed value (what the harness logs on the Python side):
-- str -> 1 len atoms…, tuple -> 2 len items…, None -> 3, function -> 4, class -> 5, instance -> 6, builtin x -> 7 x
mutual
def enc : Val → List Nat
  | .str s => 1 :: s.length :: s
  | .lst vs => 2 :: vs.length :: encList vs
  | .none => [3]
  | .fn .. => [4]
  | .cls _ => [5]
  | .inst => [6]
  | .builtin x => [7, x]
def encList : List Val → List Nat
  | [] => []
  | v :: r => enc v ++ encList r
end

end CyVerif.C01

import CyVerif.Model.Util
/-!
Model for property C21 (unbound locals): abstract control-flow graphs as built by
`Cython/Compiler/FlowControl.py`, the solution format of
`ControlFlow.reaching_definitions`, the per-node flags set by `check_definitions`
(`cf_maybe_null`, `cf_is_null`), a CHECKER `validate` for dumped artefacts
(proved sound in `Props/C21.lean`), and a model of the analysis itself
(`initialize` gen/kill sets, the round-robin solver, the flag rules).

Dictionary (real code → model):
* tracked `entry`                  → variable number `v` (index into `ubit`/`clo`)
* `assmts.bit` of an entry         → `g.ub v`: the bit of the `Uninitialized` marker
                                     (`Unknown` when `entry.from_closure`, `g.isClo v`)
* `stat.bit` of a NameAssignment / Argument / NameDeletion → the `d` of the event
* `assmts.mask`                    → `g.mask v` (marker bit + the bits of all stats on `v`)
* `block.stats`                    → `g.ev b` (ordered events)
* `block.children`                 → `g.edges`
* `block.i_input/i_output`         → `sol.inp b`, `sol.out b` (bit sets as lists of bit numbers)
* NameNode carrying the flags      → node number `n`; `fl.maybe n`, `fl.isNull n`

```
# check_definitions, per block
i_state = block.i_input
for stat in block.stats:
    state = flow.map_one(i_state, stat.entry)        # bits of i_state inside the entry's mask
    if isinstance(stat, NameAssignment):
        stat.lhs.cf_state.update(state)
        i_state = i_state & ~i_assmts.mask
        if stat.is_deletion: i_state |= i_assmts.bit
        else:                i_state |= stat.bit
    elif isinstance(stat, NameReference):
        stat.node.cf_state.update(state)
```
-/
namespace CyVerif.C21

/-- One entry of `block.stats`. -/
inductive Ev where
  /-- `NameAssignment` / `Argument` on variable `v`, own bit `d`, target node `n` -/
  | assign (v d n : Nat)
  /-- `NameDeletion` on `v`; own bit `d` (part of the mask, never generated), node `n` -/
  | del (v d n : Nat)
  /-- `NameReference` to `v` by node `n` -/
  | read (v n : Nat)
  deriving DecidableEq, Repr, Inhabited

namespace Ev
def var : Ev → Nat
  | assign v _ _ => v
  | del v _ _ => v
  | read v _ => v
def node : Ev → Nat
  | assign _ _ n => n
  | del _ _ n => n
  | read _ n => n
/-- the `stat.bit` given out by `ControlFlow.initialize` (only NameAssignment subclasses) -/
def bit? : Ev → Option Nat
  | assign _ d _ => some d
  | del _ d _ => some d
  | read _ _ => none
end Ev

structure Graph where
  /-- per variable: bit number of its Uninitialized/Unknown marker -/
  ubit : List Nat
  /-- per variable: `entry.from_closure` -/
  clo : List Bool
  /-- per block: `block.stats` -/
  blocks : List (List Ev)
  /-- `(p, c)`: `c in p.children` -/
  edges : List (Nat × Nat)
  /-- `flow.entry_point` -/
  entry : Nat
  deriving Repr

namespace Graph
def nvars (g : Graph) : Nat := g.ubit.length
def ub (g : Graph) (v : Nat) : Nat := g.ubit.getD v 0
def isClo (g : Graph) (v : Nat) : Bool := g.clo.getD v false
def ev (g : Graph) (b : Nat) : List Ev := g.blocks.getD b []
def allEv (g : Graph) : List Ev := g.blocks.flatten
/-- bits of all stats on `v` -/
def statBits (g : Graph) (v : Nat) : List Nat :=
  g.allEv.filterMap fun e => if e.var = v then e.bit? else none
/-- `assmts.mask` -/
def mask (g : Graph) (v : Nat) : List Nat := g.ub v :: g.statBits v
end Graph

/-- `block.i_input`, `block.i_output` for every block. -/
structure Sol where
  inp : List (List Nat)
  out : List (List Nat)
  deriving Repr

def Sol.i (s : Sol) (b : Nat) : List Nat := s.inp.getD b []
def Sol.o (s : Sol) (b : Nat) : List Nat := s.out.getD b []

/-- per node `(cf_maybe_null, cf_is_null)`; a node without flags has the class defaults
of `NameNode` (`True`, `False`) -/
abbrev Flags := List (Bool × Bool)
def Flags.maybe (f : Flags) (n : Nat) : Bool := (f.getD n (true, false)).1
def Flags.isNull (f : Flags) (n : Nat) : Bool := (f.getD n (true, false)).2

/-! ### abstract transfer (what `check_definitions` does stat by stat) -/

def sub (a b : List Nat) : Bool := a.all fun x => b.contains x

/-- `i_state & ~mask` -/
def kill (s m : List Nat) : List Nat := s.filter fun x => !m.contains x

def step (g : Graph) (s : List Nat) : Ev → List Nat
  | .assign v d _ => d :: kill s (g.mask v)
  | .del v _ _ => g.ub v :: kill s (g.mask v)
  | .read _ _ => s

def run (g : Graph) (s : List Nat) : List Ev → List Nat
  | [] => s
  | e :: es => run g (step g s e) es

/-- Consistency of the flags of the node of event `e` with the state `s` right before it:
marker bit present ⇒ `cf_maybe_null`; `cf_is_null` ⇒ only the marker bit of a non-closure
variable can be present. -/
def evOk (g : Graph) (fl : Flags) (s : List Nat) (e : Ev) : Bool :=
  (!s.contains (g.ub e.var) || fl.maybe e.node) &&
  (!fl.isNull e.node ||
    (!g.isClo e.var && s.all fun x => !(g.mask e.var).contains x || x == g.ub e.var))

def flagsOk (g : Graph) (fl : Flags) (s : List Nat) : List Ev → Bool
  | [] => true
  | e :: es => evOk g fl s e && flagsOk g fl (step g s e) es

/-! ### the checker -/

/-- Well-formedness of the graph part of a dump (all decidable, checked on every artefact):
ids in range (`nn` = number of flag-carrying nodes), an assignment's own bit differs from the
marker bit of its variable, masks of different variables are disjoint. -/
def wfg (g : Graph) (nn : Nat) : Bool :=
  g.clo.length == g.nvars &&
  g.allEv.all (fun e => decide (e.var < g.nvars) && decide (e.node < nn)) &&
  g.allEv.all (fun e => match e with
    | .assign v d _ => d != g.ub v
    | _ => true) &&
  (List.range g.nvars).all (fun v => (List.range g.nvars).all fun w =>
    v == w || (g.mask v).all fun x => !(g.mask w).contains x) &&
  g.edges.all (fun e => decide (e.1 < g.blocks.length) && decide (e.2 < g.blocks.length)) &&
  decide (g.entry < g.blocks.length)

def wf (g : Graph) (sol : Sol) (fl : Flags) : Bool :=
  wfg g fl.length && sol.inp.length == g.blocks.length && sol.out.length == g.blocks.length

/-- every variable's marker bit: the state at function entry -/
def allUninit (g : Graph) : List Nat := g.ubit

/-- THE CHECKER.  `sol` is a post-fixpoint of the transfer equations of `g` and the flags are
consistent with the state before every event:
* the entry block has no stats, no incoming edge, and its output holds every marker bit
  (`entry_point.i_gen`);
* along every edge `out p ⊆ inp c`;
* in every other block, running the stats from `inp b` gives flags-consistent states and ends
  inside `out b`. -/
def validate (g : Graph) (sol : Sol) (fl : Flags) : Bool :=
  wf g sol fl &&
  (g.ev g.entry).isEmpty &&
  g.edges.all (fun e => e.2 != g.entry) &&
  sub (allUninit g) (sol.o g.entry) &&
  g.edges.all (fun e => sub (sol.o e.1) (sol.i e.2)) &&
  (List.range g.blocks.length).all (fun b =>
    b == g.entry ||
      (flagsOk g fl (sol.i b) (g.ev b) && sub (run g (sol.i b) (g.ev b)) (sol.o b)))

/-! ### concrete path semantics -/

/-- Is `v` bound after the events `tr`, starting from boundness `b`? -/
def boundFrom (v : Nat) (b : Bool) : List Ev → Bool
  | [] => b
  | .assign w _ _ :: es => boundFrom v (if w = v then true else b) es
  | .del w _ _ :: es => boundFrom v (if w = v then false else b) es
  | .read _ _ :: es => boundFrom v b es

/-- `bound init v tr`: boundness of `v` after trace `tr` when `init` says which variables are
bound at function entry (only closure variables can be). -/
def bound (init : Nat → Bool) (v : Nat) (tr : List Ev) : Bool := boundFrom v (init v) tr

/-- `Reach g b tr`: block `b` can be entered after executing the events `tr`
(a walk `entry → … → b` in the edge relation, every block on the way executed fully). -/
inductive Reach (g : Graph) : Nat → List Ev → Prop where
  | entry : Reach g g.entry []
  | step {b c : Nat} {tr : List Ev} : Reach g b tr → (b, c) ∈ g.edges → Reach g c (tr ++ g.ev b)

/-- `At g tr e`: some execution is about to perform stat `e`, having executed exactly the
events `tr` since function entry (a walk to a block `b`, then the first `k` stats of `b`). -/
def At (g : Graph) (tr : List Ev) (e : Ev) : Prop :=
  ∃ b tr0 k, Reach g b tr0 ∧ (g.ev b)[k]? = some e ∧ tr = tr0 ++ (g.ev b).take k

/-- ghost: the definition of `v` that is live after `tr` (bit of the last assignment, or the
marker bit after a deletion / when there was no event), starting from `d` -/
def lastFrom (g : Graph) (v : Nat) (d : Nat) : List Ev → Nat
  | [] => d
  | .assign w d' _ :: es => lastFrom g v (if w = v then d' else d) es
  | .del w _ _ :: es => lastFrom g v (if w = v then g.ub v else d) es
  | .read _ _ :: es => lastFrom g v d es

def last (g : Graph) (v : Nat) (tr : List Ev) : Nat := lastFrom g v (g.ub v) tr

/-! ### model of the analysis itself (`initialize`, `reaching_definitions`, flag rules) -/

/-- `block.gen.keys()`: variables with a NameAssignment-derived stat in the block -/
def genVars (evs : List Ev) : List Nat :=
  evs.filterMap fun e => if e.bit?.isSome then some e.var else none

/-- `block.i_gen`: per generated variable the bit of its LAST stat (marker bit for a deletion) -/
def iGen (g : Graph) (evs : List Ev) : List Nat := (genVars evs).map fun v => last g v evs

/-- `block.i_kill`: the masks of the generated variables -/
def iKill (g : Graph) (evs : List Ev) : List Nat := (genVars evs).flatMap fun v => g.mask v

/-- `i_output = (i_input & ~block.i_kill) | block.i_gen` -/
def transfer (g : Graph) (evs : List Ev) (inp : List Nat) : List Nat :=
  iGen g evs ++ kill inp (iKill g evs)

/-- `block.parents` -/
def parents (g : Graph) (b : Nat) : List Nat := (g.edges.filter fun e => e.2 == b).map (·.1)

def seteq (a b : List Nat) : Bool := sub a b && sub b a

/-- a bit set has no duplicates (the real one is a Python int) -/
def dedup : List Nat → List Nat
  | [] => []
  | x :: xs => if xs.contains x then dedup xs else x :: dedup xs

/-- one iteration of `for block in self.blocks:`; the flag is `dirty` -/
def visit (g : Graph) (st : Sol × Bool) (b : Nat) : Sol × Bool :=
  let inp := dedup ((parents g b).flatMap st.1.o)
  let out := transfer g (g.ev b) inp
  ({ inp := st.1.inp.set b inp, out := st.1.out.set b out }, st.2 || !seteq out (st.1.o b))

def sweep (g : Graph) (order : List Nat) (sol : Sol) : Sol × Bool :=
  order.foldl (visit g) (sol, false)

/-- `while dirty:` with fuel; `none` = fuel exhausted -/
def solveLoop (g : Graph) (order : List Nat) : Nat → Sol → Option Sol
  | 0, _ => none
  | fuel + 1, sol =>
    let r := sweep g order sol
    if r.2 then solveLoop g order fuel r.1 else some r.1

/-- state after `initialize`: `i_output = i_gen`, the entry block generates every marker bit -/
def initSol (g : Graph) : Sol :=
  { inp := g.blocks.map fun _ => [],
    out := (List.range g.blocks.length).map fun b =>
      if b = g.entry then allUninit g else iGen g (g.ev b) }

/-- `order`: the iteration order of the set `flow.blocks` (the entry block is not in it) -/
def solve (g : Graph) (order : List Nat) (fuel : Nat) : Option Sol :=
  solveLoop g order fuel (initSol g)

/-- states before each stat of a block -/
def preStates (g : Graph) (s : List Nat) : List Ev → List (List Nat × Ev)
  | [] => []
  | e :: es => (s, e) :: preStates g (step g s e) es

/-- all `(state before, stat)` pairs of the blocks of `flow.blocks` -/
def allPre (g : Graph) (sol : Sol) : List (List Nat × Ev) :=
  (List.range g.blocks.length).flatMap fun b =>
    if b = g.entry then [] else preStates g (sol.i b) (g.ev b)

/-- flag rules of `check_definitions` for node `n`:
`cf_maybe_null` iff the marker (`Uninitialized`/`Unknown`) is in `cf_state`;
`cf_is_null` iff `cf_state == {Uninitialized}` (never for `from_closure`). -/
def flagOf (g : Graph) (sol : Sol) (n : Nat) : Bool × Bool :=
  let mine := (allPre g sol).filter fun p => p.2.node == n
  let hasU := mine.any fun p => p.1.contains (g.ub p.2.var)
  (hasU, hasU && mine.all fun p =>
    !g.isClo p.2.var && p.1.all fun x => !(g.mask p.2.var).contains x || x == g.ub p.2.var)

def flagsOf (g : Graph) (sol : Sol) (nnodes : Nat) : Flags :=
  (List.range nnodes).map (flagOf g sol)

/-- the part of `validate` that depends on the graph only (`nn` = number of flag-carrying nodes) -/
def graphOk (g : Graph) (nn : Nat) : Bool :=
  wfg g nn && (g.ev g.entry).isEmpty && g.edges.all (fun e => e.2 != g.entry)

/-! ### line protocol -/

def canon (l : List Nat) : List Nat := (l.mergeSort (· ≤ ·)).eraseDups

def parseList {α} (s : String) (sep : String) (f : String → Option α) : Option (List α) :=
  if s == "-" then some [] else (s.splitOn sep).mapM f

/-- `:1,2;0;;3` → `[[1,2],[0],[],[3]]`; `-` → `[]` -/
def parseTable (s : String) : Option (List (List Nat)) :=
  if s == "-" then some [] else
  match s.toList with
  | ':' :: rest =>
    ((String.ofList rest).splitOn ";").mapM fun row =>
      if row == "" then some [] else (row.splitOn ",").mapM parseNat?
  | _ => none

def parseEv (s : String) : Option Ev :=
  match s.splitOn "." with
  | ["a", v, d, n] => do some (.assign (← parseNat? v) (← parseNat? d) (← parseNat? n))
  | ["d", v, d, n] => do some (.del (← parseNat? v) (← parseNat? d) (← parseNat? n))
  | ["r", v, n] => do some (.read (← parseNat? v) (← parseNat? n))
  | _ => none

def parseBlocks (s : String) : Option (List (List Ev)) :=
  if s == "-" then some [] else
  match s.toList with
  | ':' :: rest =>
    ((String.ofList rest).splitOn ";").mapM fun row =>
      if row == "" then some [] else (row.splitOn ",").mapM parseEv
  | _ => none

def parseVar (s : String) : Option (Nat × Bool) :=
  match s.splitOn ":" with
  | [u, "0"] => (parseNat? u).map (·, false)
  | [u, "1"] => (parseNat? u).map (·, true)
  | _ => none

def parseEdge (s : String) : Option (Nat × Nat) :=
  match s.splitOn ">" with
  | [p, c] => do some ((← parseNat? p), (← parseNat? c))
  | _ => none

def parseFlags (s : String) : Option Flags :=
  if s == "-" then some [] else
  s.toList.mapM fun c =>
    if c == '0' then some (false, false) else if c == '1' then some (true, false)
    else if c == '2' then some (false, true) else if c == '3' then some (true, true) else none

def parseGraph (vs bs es en : String) : Option Graph := do
  let vars ← parseList vs "," parseVar
  let blocks ← parseBlocks bs
  let edges ← parseList es "," parseEdge
  let entry ← parseNat? en
  some { ubit := vars.map (·.1), clo := vars.map (·.2), blocks := blocks, edges := edges, entry := entry }

def showTable (t : List (List Nat)) : String :=
  if t.isEmpty then "-" else ":" ++ ";".intercalate (t.map fun r => ",".intercalate ((canon r).map toString))

def showFlags (f : Flags) : String :=
  if f.isEmpty then "-" else
  String.ofList (f.map fun p => match p with
    | (false, false) => '0' | (true, false) => '1' | (false, true) => '2' | (true, true) => '3')

/-- Diagnosis for a rejected artefact (not part of any theorem): first failing clause. -/
def why (g : Graph) (sol : Sol) (fl : Flags) : String :=
  if !wf g sol fl then "wf"
  else if !(g.ev g.entry).isEmpty || !g.edges.all (fun e => e.2 != g.entry) then "entry-shape"
  else if !sub (allUninit g) (sol.o g.entry) then "entry-out"
  else match g.edges.find? (fun e => !sub (sol.o e.1) (sol.i e.2)) with
  | some e => s!"edge:{e.1}>{e.2}"
  | none =>
    match (List.range g.blocks.length).find? (fun b => !(b == g.entry) && !flagsOk g fl (sol.i b) (g.ev b)) with
    | some b => s!"flags:{b}"
    | none =>
      match (List.range g.blocks.length).find? (fun b => !(b == g.entry) && !sub (run g (sol.i b) (g.ev b)) (sol.o b)) with
      | some b => s!"transfer:{b}"
      | none => "?"

def handle : List String → String
  | ["validate", vs, bs, es, en, inp, out, fs] =>
    match parseGraph vs bs es en, parseTable inp, parseTable out, parseFlags fs with
    | some g, some i, some o, some fl =>
      let sol : Sol := { inp := i, out := o }
      if validate g sol fl then "ok true" else "ok false " ++ why g sol fl
    | _, _, _, _ => "bad-op"
  | ["analyse", vs, bs, es, en, order, nnodes] =>
    match parseGraph vs bs es en, parseList order "," parseNat?, parseNat? nnodes with
    | some g, some ord, some nn =>
      -- every sweep but the last adds a bit to some output: blocks × bits + 2 sweeps suffice
      let nbits := g.nvars + (g.allEv.filterMap Ev.bit?).length
      match solve g ord (g.blocks.length * (nbits + 1) + 2) with
      | some sol => s!"ok {showTable sol.inp} {showTable sol.out} {showFlags (flagsOf g sol nn)}"
      | none => "err OutOfFuel"
    | _, _, _ => "bad-op"
  | _ => "bad-op"

end CyVerif.C21

import CyVerif.Model.Util
/-!
Model of compiler-directive parsing (Cython/Compiler/Options.py).

* `parseValue`  = `parse_directive_value(name, value, relaxed_bool)`
* `parseList`   = `parse_directive_list(s, relaxed_bool, ignore_unknown, current_settings)`
* `parseInt`    = CPython `int(str)` (base 10) as used by the `int`-typed directives
* the per-directive type table (`directive_types`, keys of `_directive_defaults`) is DATA (`Table`),
  regenerated from the current source by the harness translator on every run.

Strings are `List Char`.  Character classes of CPython (`str.isspace`, Unicode decimal digits), the
encoding-name normalisation (`normalise_encoding_name`, which asks the `codecs` registry) and
`sys.get_int_max_str_digits()` are parameters (`Cfg`); the theorems hold for every value of them.
`Cfg.fixed` selects the source variant: `false` = the tree before the repair (directive kinds that cannot
be parsed from a string raise TypeError / AssertionError or silently give None), `true` = after it (ValueError).
-/
namespace CyVerif.C41

abbrev Str := List Char

/-- type kind of a directive: what `directive_types[name]` is -/
inductive Kind where
  | bool | int | str
  | enum (allowed : List Str) (map : List (Str × Str))   -- `one_of(*allowed, map=map)`
  | encoding        -- `normalise_encoding_name`
  | list            -- builtin `list`
  | noneType        -- `type(None)`: default None and no explicit type
  | defer           -- the DEFER_ANALYSIS_OF_ARGUMENTS instance (not callable)
  | typeT | dict    -- builtins `type`, `dict`
  | absent          -- `directive_types[name] is None` (decorators without a value: cfunc, with_gil, …)
  deriving DecidableEq, Repr

inductive DVal where
  | bool (b : Bool) | int (i : Int) | str (s : Str) | none | list (l : List Str)
  deriving DecidableEq, Repr

structure CharTab where
  isSpace : Char → Bool          -- Py_UNICODE_ISSPACE / str.isspace
  decimal : Char → Option Nat    -- Py_UNICODE_TODECIMAL

structure Table where
  types : List (Str × Kind)      -- `directive_types`, dict order
  defaults : List Str            -- keys of `_directive_defaults`, dict order

structure Cfg where
  tab : CharTab
  T : Table
  norm : Str → Option Str        -- `normalise_encoding_name(name, ·)`; none = ValueError (embedded NUL)
  maxDigits : Nat                -- `sys.get_int_max_str_digits()`, 0 = unlimited
  fixed : Bool

def lkS {β} (k : Str) : List (Str × β) → Option β
  | [] => none
  | (a, b) :: r => if a = k then some b else lkS k r

/-! ### `int(str)`, base 10 -/

def asciiSpace (c : Char) : Bool := c.toNat = 32 || (9 ≤ c.toNat && c.toNat ≤ 13)

/-- character classes after `_PyUnicode_TransformDecimalAndSpaceToASCII` -/
inductive IC where
  | sp | dig (d : Nat) | plus | minus | us | bad
  deriving DecidableEq, Repr

def classify (tab : CharTab) (c : Char) : IC :=
  if c.toNat < 127 then
    if asciiSpace c then .sp
    else if 48 ≤ c.toNat && c.toNat ≤ 57 then .dig (c.toNat - 48)
    else if c = '+' then .plus else if c = '-' then .minus else if c = '_' then .us else .bad
  else if tab.isSpace c then .sp
  else match tab.decimal c with
    | some d => .dig d
    | none => .bad

/-- digits with single underscores between them; a first digit has been consumed.
Returns (value, number of digits, rest). -/
def scanDigits : List IC → Nat → Nat → Option (Nat × Nat × List IC)
  | .dig d :: r, acc, n => scanDigits r (acc * 10 + d) (n + 1)
  | .us :: .dig d :: r, acc, n => scanDigits r (acc * 10 + d) (n + 1)
  | .us :: _, _, _ => none
  | r, acc, n => some (acc, n, r)

def parseIntIC (maxDigits : Nat) (l : List IC) : Option Int :=
  let l := l.dropWhile (· = .sp)
  let (neg, l) := match l with
    | .plus :: r => (false, r)
    | .minus :: r => (true, r)
    | r => (false, r)
  match l with
  | .dig d :: r =>
    match scanDigits r d 1 with
    | some (v, n, rest) =>
      if rest.all (· = .sp) && (maxDigits = 0 || n ≤ maxDigits) then
        some (if neg then - (v : Int) else (v : Int))
      else none
    | none => none
  | _ => none

/-- `int(s)`: `none` = ValueError -/
def parseInt (tab : CharTab) (maxDigits : Nat) (s : Str) : Option Int :=
  parseIntIC maxDigits (s.map (classify tab))

/-! ### `parse_directive_value` -/

def lowerAscii (s : Str) : Str := s.map Char.toLower

def boolOf (relaxed : Bool) (v : Str) : Option Bool :=
  if v = "True".toList then some true
  else if v = "False".toList then some false
  else if relaxed then
    let l := lowerAscii v
    if l = "true".toList || l = "yes".toList then some true
    else if l = "false".toList || l = "no".toList then some false
    else none
  else none

/-- kinds whose `directive_types` entry cannot parse a string -/
def Kind.unparsable : Kind → Bool
  | .list | .noneType | .defer | .typeT | .dict | .absent => true
  | _ => false

def parseValue (C : Cfg) (relaxed : Bool) (name value : Str) : Res DVal :=
  match lkS name C.T.types with
  | none => .ok .none                                   -- `if not type: return None`
  | some .absent => if C.fixed then .err "ValueError" else .ok .none
  | some .bool =>
    match boolOf relaxed value with
    | some b => .ok (.bool b)
    | none => .err "ValueError"
  | some .int =>
    match parseInt C.tab C.maxDigits value with
    | some i => .ok (.int i)
    | none => .err "ValueError"
  | some .str => .ok (.str value)
  | some (.enum allowed map) =>
    let v := (lkS value map).getD value
    if v ∈ allowed then .ok (.str v) else .err "ValueError"
  | some .encoding =>
    match C.norm value with
    | some s => .ok (.str s)
    | none => .err "ValueError"
  | some .defer => .err (if C.fixed then "ValueError" else "AssertionError")
  | some _ => .err (if C.fixed then "ValueError" else "TypeError")   -- list(name, value) etc.

/-- the parsed value has the shape documented for the kind -/
def DVal.hasKind : Kind → DVal → Prop
  | .bool, .bool _ => True
  | .int, .int _ => True
  | .str, .str _ => True
  | .enum allowed _, .str s => s ∈ allowed
  | .encoding, .str _ => True
  | _, _ => False

/-! ### `parse_directive_list` -/

/-- `s.split(c)` -/
def splitOn (c : Char) : Str → List Str
  | [] => [[]]
  | x :: xs =>
    if x = c then [] :: splitOn c xs
    else match splitOn c xs with
      | [] => [[x]]
      | h :: t => (x :: h) :: t

/-- `s.strip()` -/
def strip (tab : CharTab) (s : Str) : Str :=
  ((s.dropWhile tab.isSpace).reverse.dropWhile tab.isSpace).reverse

/-- `s.split('=', 1)` for a string containing '=' -/
def splitEq (s : Str) : Str × Str :=
  (s.takeWhile (· ≠ '='), (s.dropWhile (· ≠ '=')).drop 1)

def isPrefix : Str → Str → Bool
  | [], _ => true
  | _ :: _, [] => false
  | a :: as, b :: bs => a = b && isPrefix as bs

def endsWith (s suffix : Str) : Bool := isPrefix suffix.reverse s.reverse

abbrev Settings := List (Str × DVal)

def Settings.get (st : Settings) (k : Str) : Option DVal := lkS k st

/-- `d[k] = v` -/
def Settings.set : Settings → Str → DVal → Settings
  | [], k, v => [(k, v)]
  | (a, b) :: r, k, v => if a = k then (a, v) :: r else (a, b) :: Settings.set r k v

/-- elementary effects of one item -/
inductive Act where
  | set (n v : Str)     -- `result[n] = parse_directive_value(n, v)`
  | app (n v : Str)     -- `result[n].append(v)` / `result[n] = [v]`
  deriving DecidableEq, Repr

def Act.name : Act → Str
  | .set n _ => n
  | .app n _ => n

def isListKind (T : Table) (n : Str) : Bool := lkS n T.types = some .list

/-- the directives a name `<prefix>.all` stands for: `_directive_defaults` keys starting with `name[:-3]` -/
def allMatches (T : Table) (name : Str) : List Str :=
  if endsWith name ".all".toList then T.defaults.filter (isPrefix (name.take (name.length - 3))) else []

/-- what `name=value` does -/
def expandNV (C : Cfg) (ignoreUnknown : Bool) (name value : Str) : Res (List Act) :=
  if name ∈ C.T.defaults then
    if isListKind C.T name then .ok [.app name value] else .ok [.set name value]
  else if allMatches C.T name ≠ [] then .ok ((allMatches C.T name).map (Act.set · value))
  else if ignoreUnknown then .ok []
  else .err "ValueError"

/-- what one comma-separated item does (already stripped item text) -/
def expandItem (C : Cfg) (ignoreUnknown : Bool) (item : Str) : Res (List Act) :=
  if item = [] then .ok []
  else if !(item.contains '=') then .err "ValueError"
  else expandNV C ignoreUnknown (strip C.tab (splitEq item).1) (strip C.tab (splitEq item).2)

def Res.bind {α β} : Res α → (α → Res β) → Res β
  | .ok a, f => f a
  | .err e, _ => .err e

def execAct (C : Cfg) (relaxed : Bool) (st : Settings) : Act → Res Settings
  | .set n v => Res.bind (parseValue C relaxed n v) fun pv => .ok (st.set n pv)
  | .app n v =>
    match st.get n with
    | none => .ok (st.set n (.list [v]))
    | some (.list l) => .ok (st.set n (.list (l ++ [v])))
    | some _ => .err "AttributeError"          -- `.append` on a non-list value of current_settings

def execActs (C : Cfg) (relaxed : Bool) : Settings → List Act → Res Settings
  | st, [] => .ok st
  | st, a :: as => Res.bind (execAct C relaxed st a) fun st' => execActs C relaxed st' as

def execItem (C : Cfg) (relaxed ignoreUnknown : Bool) (st : Settings) (raw : Str) : Res Settings :=
  Res.bind (expandItem C ignoreUnknown (strip C.tab raw)) fun acts => execActs C relaxed st acts

def execItems (C : Cfg) (relaxed ignoreUnknown : Bool) : Settings → List Str → Res Settings
  | st, [] => .ok st
  | st, i :: is => Res.bind (execItem C relaxed ignoreUnknown st i) fun st' => execItems C relaxed ignoreUnknown st' is

/-- `parse_directive_list(s, relaxed_bool, ignore_unknown, current_settings=cur)` -/
def parseList (C : Cfg) (relaxed ignoreUnknown : Bool) (s : Str) (cur : Settings) : Res Settings :=
  execItems C relaxed ignoreUnknown cur (splitOn ',' s)

/-! ### header comments: `Parsing.p_compiler_directive_comments`

`lines` are the directive strings of the `# cython:` comment lines that match the regular expression (group 1,
stripped).  Every line is parsed on its own with `ignore_unknown=True`; a ValueError is a non-fatal compile
error; another exception escapes; a name repeated on a later line must carry the same value (list-typed ones
accumulate); `language_level` is handed to `Context.set_language_level` at once (`int(level)` unless `3str`). -/

def mergeHeaderLine (T : Table) : Settings → Settings → Res Settings
  | result, [] => .ok result
  | result, (n, v) :: r =>
    match result.get n with
    | none => mergeHeaderLine T (result.set n v) r
    | some old =>
      if isListKind T n then
        match old, v with
        | .list a, .list b => mergeHeaderLine T (result.set n (.list (a ++ b))) r
        | _, _ => .err "bad-header"
      else if v = old then mergeHeaderLine T result r          -- warning "Duplicate directive found"
      else .err "CompileError"                                  -- "Conflicting settings found"

def langLevelOK (C : Cfg) (new : Settings) : Bool :=
  match new.get "language_level".toList with
  | some (.str s) => s = "3str".toList || (parseInt C.tab C.maxDigits s).isSome
  | some _ => false
  | none => true

def headerLines (C : Cfg) : Settings → Bool → List Str → Res Settings
  | result, bad, [] => if bad then .err "CompileError" else .ok result
  | result, bad, l :: ls =>
    match parseList C false true l [] with
    | .err e => if e = "ValueError" then headerLines C result true ls else .err ("crash:" ++ e)
    | .ok new =>
      match mergeHeaderLine C.T result new with
      | .err e => .err e
      | .ok result' =>
        if langLevelOK C new then headerLines C result' bad ls else .err "crash:ValueError"

end CyVerif.C41

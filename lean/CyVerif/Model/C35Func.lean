import CyVerif.Model.C35Nanny
/-!
# C35 — an abstract generated function: temp allocator + reference events

`Stmt` is what the code generator does / emits for one expression step:
allocator calls at *compile* time (`alloc`, `release`) interleaved with the C
statements it emits for managed temps, seen at *run* time on one path:

* `newref t o`  — `t = <call>; if (!t) goto error; __Pyx_GOTREF(t);` (call succeeded, new reference to `o`)
* `borrow t o`  — `t = <borrowed o>; __Pyx_INCREF(t);`
* `dispose t`   — `__Pyx_DECREF(t); t = 0;`           (`generate_disposal_code`)
* `steal t`     — `__Pyx_GIVEREF(t); <consumer owns it>; t = 0;` (`generate_post_assignment_code`, return value)

`FSt.step` returns `none` when the *discipline* is broken: a reference may only
be put into a managed temp that is in use and empty (NULL), only a non-empty
temp can be disposed / stolen, and a temp is released only when empty.
`errorExit` is the jump to the function's error label: `__Pyx_XDECREF` of every
temp of the cleanup list (the C variables keep their values); `returnExit` is
`ReturnStatNode`: `__Pyx_DECREF(t); t = 0` for `temps_holding_reference()`.
-/
namespace CyVerif.C35

inductive Stmt where
  | alloc (ty : Ty) (manage static reusable : Bool)
  | release (t : Nat)
  | newref (t o : Nat)
  | borrow (t o : Nat)
  | dispose (t : Nat)
  | steal (t : Nat)
  deriving DecidableEq, Repr

structure FSt where
  fs : FS
  owned : List (Nat × Nat)   -- managed temp ↦ object, for temps whose C variable is non-NULL
  evs : List NEv             -- events sent so far on this path

def FSt.init (taken : List Nat) : FSt := ⟨FS.init taken, [], []⟩

def FSt.step (s : FSt) : Stmt → Option FSt
  | .alloc ty m st r => some { s with fs := (allocate s.fs ty m st r).1 }
  | .release t =>
    match release s.fs t with
    | .err _ => none
    | .ok fs' => if (aget s.owned t).isSome then none else some { s with fs := fs' }
  | .newref t o =>
    if t ∈ holdingRef s.fs ∧ aget s.owned t = none then
      some { s with owned := s.owned ++ [(t, o)],
                    evs := s.evs ++ [.acquire o, .gotref (some o) s.evs.length] }
    else none
  | .borrow t o =>
    if t ∈ holdingRef s.fs ∧ aget s.owned t = none then
      some { s with owned := s.owned ++ [(t, o)], evs := s.evs ++ [.incref (some o) s.evs.length] }
    else none
  | .dispose t =>
    match aget s.owned t with
    | none => none
    | some o => some { s with owned := s.owned.filter (fun e => e.1 != t),
                              evs := s.evs ++ [.decref (some o) s.evs.length] }
  | .steal t =>
    match aget s.owned t with
    | none => none
    | some o => some { s with owned := s.owned.filter (fun e => e.1 != t),
                              evs := s.evs ++ [.giveref (some o) s.evs.length] }

def FSt.run (s : FSt) : List Stmt → Option FSt
  | [] => some s
  | x :: xs => match s.step x with
    | none => none
    | some s' => s'.run xs

/-- `for cname, type in cleanup: code.put_xdecref(cname, type)` executed with the current temp values -/
def cleanupEvents (owned : List (Nat × Nat)) (line : Nat) (cleanup : List Nat) : List NEv :=
  cleanup.map (fun t => .xdecref (aget owned t) line)

def errorExit (s : FSt) (cleanup : List Nat) : List NEv :=
  s.evs ++ cleanupEvents s.owned s.evs.length cleanup

/-- `for cname, type in temps_holding_reference(): code.put_decref_clear(cname, type)` -/
def returnExit (s : FSt) : List NEv :=
  s.evs ++ (holdingRef s.fs).map (fun t => .decref (aget s.owned t) s.evs.length)

end CyVerif.C35

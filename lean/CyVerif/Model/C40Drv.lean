import CyVerif.Model.C40Parse
import CyVerif.Model.C40Eval
import CyVerif.Model.C40Float
import CyVerif.Model.C40Clean
/-!
C40 line protocol entry.

* `infer CFG prog`                      → `ok v:type:might_overflow …` | `crash` | `diverge`
* `run CFG MODE FUEL prog | v0 v1 v2`   → outcome of calling the function; MODE = `safe` (types from `infer CFG`)
                                           or `off` (all locals objects)
values: `i N` | `f BITS` | `b 0/1` | `s K cp…` | `n` | `L K scalar…` | `G N` (object with `__len__` = N)
-/
namespace CyVerif.C40

def handleInfer (cfg : Cfg) (p : Stmt) : String :=
  if ¬wellNumbered p then "bad-op numbering" else
  match infer cfg p with
  | .ok Γ _ => "ok " ++ renderEnv cfg p Γ
  | .crash => "crash"
  | .diverge => "diverge"

def parseScalar : List String → Option (Scalar Float × List String)
  | "i" :: n :: r => do pure (.int (← n.toInt?), r)
  | "f" :: n :: r => do pure (.flt (Float.ofBits (← n.toNat?).toUInt64), r)
  | "b" :: n :: r => if n = "1" then some (.bool true, r) else if n = "0" then some (.bool false, r) else none
  | "s" :: k :: r => do
    let (cs, r) ← takeNats (← k.toNat?) r
    pure (.str cs, r)
  | "n" :: r => some (.none, r)
  | _ => none

def parseScalars : Nat → List String → Option (List (Scalar Float) × List String)
  | 0, ts => some ([], ts)
  | k + 1, ts => do
    let (x, r) ← parseScalar ts
    let (xs, r) ← parseScalars k r
    pure (x :: xs, r)

def parseVal (ts : List String) : Option (Val Float × List String) :=
  match ts with
  | "L" :: k :: r => do
    let (xs, r) ← parseScalars (← k.toNat?) r
    pure (.list xs, r)
  | "G" :: n :: r => do pure (.biglen (← n.toNat?), r)
  | _ => do
    let (x, r) ← parseScalar ts
    pure (x.toVal, r)

def parseVals : Nat → List String → Option (List (Val Float) × List String)
  | 0, ts => some ([], ts)
  | k + 1, ts => do
    let (x, r) ← parseVal ts
    let (xs, r) ← parseVals k r
    pure (x :: xs, r)

def renderVal : Val Float → String
  | .int n => s!"int:{n}"
  | .flt x => s!"float:{x.toBits.toNat}"
  | .bool b => if b then "bool:True" else "bool:False"
  | .str cs => "str:" ++ ",".intercalate (cs.map toString)
  | .none => "NoneType:None"
  | .list _ => "list"
  | .biglen n => s!"BigLen:{n}"

def renderOut : Out (Val Float) → String
  | .ok v => "ok " ++ renderVal v
  | .err e => "err " ++ e.name
  | .ub w => "ub " ++ w
  | .unsup => "unsup"

def initStore (args : List (Val Float)) : Store Float := fun v => args[v]?

def handleRun (cfg : Cfg) (mode : String) (fuel : Nat) (p : Stmt) (args : List (Val Float)) : String :=
  if ¬wellNumbered p then "bad-op numbering" else
  if mode = "off" then renderOut (run Dbl.fops objEnv noNt fuel p (initStore args))
  else if mode = "safe" then
    match infer cfg p with
    | .ok Γ nty => renderOut (run Dbl.fops Γ.get (fun i => List.lookup i nty) fuel p (initStore args))
    | .crash => "crash"
    | .diverge => "diverge"
  else "bad-op"

def handleClean (cfg : Cfg) (p : Stmt) : String :=
  if ¬wellNumbered p then "bad-op numbering" else
  match infer cfg p with
  | .ok Γ nty =>
    (match cleanS Γ.get (fun i => List.lookup i nty) p [] with
    | .ok _ => "ok clean"
    | .error w => "ok unclean " ++ w.key)
  | .crash => "crash"
  | .diverge => "diverge"

def parseTy : String → Option (Option Ty)
  | "obj" => some (some .obj) | "pyint" => some (some .pyint) | "pystr" => some (some .pystr)
  | "pyfloat" => some (some .pyfloat) | "clong" => some (some .clong) | "cssize" => some (some .cssize)
  | "cint" => some (some .cint) | "bint" => some (some .bint) | "cdouble" => some (some .cdouble)
  | "ucs4" => some (some .ucs4) | "softc" => some (some .softc) | "none" => some none | _ => none

def renderTy : Option Ty → String
  | some t => t.name.replace " " "_"
  | none => "None"

/-- constant operand descriptor: `-` (not constant) or three 0/1 digits (nonneg, integral, negInt) -/
def parseConst (s : String) : Option (Option ConstInfo) :=
  if s = "-" then some none
  else match s.toList with
    | [a, b, c] => some (some ⟨a = '1', b = '1', c = '1'⟩)
    | _ => none

def parseTys : List String → Option (List (Option Ty))
  | [] => some []
  | t :: r => do
    let x ← parseTy t
    let xs ← parseTys r
    pure (x :: xs)

/-- the typing tables, for the exhaustive comparison with the staged compiler -/
def handleTy (cfg : Cfg) : List String → String
  | ["bin", op, ip, lit1, t1, t2, c1, c2] =>
    (match parseBinOp op, parseTy t1, parseTy t2, parseConst c1, parseConst c2 with
    | some op, some t1, some t2, some c1, some c2 => "ok " ++ renderTy (binTypeI cfg op (ip = "1") (lit1 = "1") t1 t2 c1 c2)
    | _, _, _, _, _ => "bad-op")
  | ["un", op, t] =>
    (match parseUnOp op, parseTy t with
    | some op, some t => "ok " ++ renderTy (unType cfg op t)
    | _, _ => "bad-op")
  | ["abs", t] => (match parseTy t with | some t => "ok " ++ renderTy (absType t) | none => "bad-op")
  | ["idx", tb, ti, lit] =>
    (match parseTy tb, parseTy ti with
    | some tb, some ti => "ok " ++ renderTy (idxType tb ti (lit = "1"))
    | _, _ => "bad-op")
  | "span" :: mo :: ts =>
    (match parseTys ts with
    | some ts => (match safeSpan cfg ts (mo = "1") with | .ok t => "ok " ++ renderTy (some t) | .crash => "crash")
    | none => "bad-op")
  | _ => "bad-op"

def splitBar : List String → List String → List String × List String
  | [], acc => (acc.reverse, [])
  | "|" :: r, acc => (acc.reverse, r)
  | t :: r, acc => splitBar r (t :: acc)

def handle : List String → String
  | "infer" :: cfg :: rest =>
    match parseCfg cfg, parseProg rest with
    | some cfg, some (p, []) => handleInfer cfg p
    | _, _ => "bad-op"
  | "clean" :: cfg :: rest =>
    match parseCfg cfg, parseProg rest with
    | some cfg, some (p, []) => handleClean cfg p
    | _, _ => "bad-op"
  | "ty" :: cfg :: rest =>
    (match parseCfg cfg with
    | some cfg => handleTy cfg rest
    | none => "bad-op")
  | "run" :: cfg :: mode :: fuel :: rest =>
    let (pt, vt) := splitBar rest []
    match parseCfg cfg, fuel.toNat?, parseProg pt, parseVals npar vt with
    | some cfg, some fuel, some (p, []), some (args, []) => handleRun cfg mode fuel p args
    | _, _, _, _ => "bad-op"
  | _ => "bad-op"

end CyVerif.C40

import CyVerif.Model.Util
/-!
Model of directive scoping: `InterpretCompilerDirectives` (Cython/Compiler/ParseTreeTransforms.py)
`__init__`, `visit_ModuleNode`, `_extract_directives`, `visit_with_directives`, `visit_WithStatNode`,
`check_directive_scope`, and `Options.copy_inherited_directives`.

A program is a statement list (`Prog`): plain statements (`mark`, the observation points), `with
cython.name(value):` blocks and definitions (function / class) with directive decorators.  `run` threads the
current directive dictionary through the tree exactly like the transform does (`self.directives`), and
returns, for every observation point, the dictionary in force there.  Values `V` are abstract.
The per-directive data (`directive_scopes`, `immediate_decorator_directives`, the names dropped by
`copy_inherited_directives`, list-typed names) is a parameter (`STable`) regenerated from the source.

Not modelled (the harness never generates them): `nogil` / `gil` / `critical_section` with-blocks (turned into
other nodes), `cclass` decorators changing the scope kind, `exceptval`, dict-typed `locals`, cdef
variable declarations with decorators.  The shortcut `if new_directives == old_directives` of
`visit_with_directives` is not modelled: it does not change any dictionary that is looked up.
-/
namespace CyVerif.C41

abbrev Name := Nat   -- index of the directive name in the harness's name table

inductive ScopeK where
  | module | function | pyclass | cclass | withStmt
  deriving DecidableEq, Repr

structure STable where
  legal : Name → Option (List ScopeK)   -- `directive_scopes.get(name)`
  immediate : Name → Bool               -- `name in immediate_decorator_directives`
  nonInherited : Name → Bool            -- popped by `copy_inherited_directives`
  mergeable : Name → Bool               -- list-typed: repeated decorators are merged

/-- a directive dictionary, seen through `.get` -/
abbrev Env (V : Type) := Name → Option V

def Env.set {V} (e : Env V) (n : Name) (v : V) : Env V := fun m => if m = n then some v else e m

/-- `d.update(o)` -/
def Env.over {V} (e o : Env V) : Env V := fun m => match o m with | some v => some v | none => e m

def emptyEnv {V} : Env V := fun _ => none

/-- argument of a directive: `none` = the literal `None` (means: the global default) -/
abbrev Arg (V : Type) := Option V

inductive Prog (V : Type) where
  | done
  | mark (id : Nat) (rest : Prog V)
  | withB (n : Name) (a : Arg V) (body rest : Prog V)
  | defB (k : ScopeK) (id : Nat) (decs : List (Name × Arg V)) (body rest : Prog V)   -- decorators, top first
  deriving Repr

variable {V : Type} [DecidableEq V]

def resolve (dflt : Name → V) (d : Name × Arg V) : Name × V := (d.1, d.2.getD (dflt d.1))

/-- `check_directive_scope` -/
def scopeOK (T : STable) (n : Name) (k : ScopeK) : Bool :=
  match T.legal n with
  | some ls => ls.isEmpty || ls.contains k
  | none => true

def legalProg (T : STable) : Prog V → Bool
  | .done => true
  | .mark _ r => legalProg T r
  | .withB n _ b r => scopeOK T n .withStmt && legalProg T b && legalProg T r
  | .defB k _ ds b r => ds.all (fun d => scopeOK T d.1 k) && legalProg T b && legalProg T r

/-- `copy_inherited_directives(old, **new)` -/
def copyInh (T : STable) (old new : Env V) : Env V :=
  fun n => match new n with
    | some v => some v
    | none => if T.nonInherited n then none else old n

/-- the loop over `node.decorators[::-1]` of `_extract_directives`: directives that change the value
seen so far are kept (`ds` in processing order, bottom decorator first) -/
def keep (cur : Env V) : List (Name × V) → List (Name × V)
  | [] => []
  | (n, v) :: r => if cur n = some v then keep cur r else (n, v) :: keep (cur.set n v) r

/-- `optdict`: repeated names override, list-typed ones are merged -/
def optOf (T : STable) (merge : V → V → V) (acc : Env V) : List (Name × V) → Env V
  | [] => acc
  | (n, v) :: r =>
    optOf T merge (acc.set n (match acc n with
      | some o => if T.mergeable n then merge o v else v
      | none => v)) r

/-- `contents_optdict`: the last raw value of every non-immediate name -/
def contOf (T : STable) (acc : Env V) : List (Name × V) → Env V
  | [] => acc
  | (n, v) :: r => contOf T (if T.immediate n then acc else acc.set n v) r

/-- (dictionary at the definition node, dictionary inside its body) -/
def defEnvs (T : STable) (merge : V → V → V) (dflt : Name → V) (env : Env V)
    (decs : List (Name × Arg V)) : Env V × Env V :=
  let kept := keep env (decs.reverse.map (resolve dflt))
  if kept.isEmpty then (env, env)
  else (copyInh T env (optOf T merge emptyEnv kept), copyInh T env (contOf T emptyEnv kept))

def withEnv (T : STable) (dflt : Name → V) (env : Env V) (n : Name) (a : Arg V) : Env V :=
  copyInh T env (emptyEnv.set n (a.getD (dflt n)))

/-- the dictionary in force at every observation point, in source order -/
def run (T : STable) (merge : V → V → V) (dflt : Name → V) : Env V → Prog V → List (Nat × Env V)
  | _, .done => []
  | env, .mark id r => (id, env) :: run T merge dflt env r
  | env, .withB n a b r => run T merge dflt (withEnv T dflt env n a) b ++ run T merge dflt env r
  | env, .defB _ id ds b r =>
    let e := defEnvs T merge dflt env ds
    (id, e.1) :: (run T merge dflt e.2 b ++ run T merge dflt env r)

/-- `InterpretCompilerDirectives.__init__` + `visit_ModuleNode`: defaults, then the options
(command line / cythonize), then the header comment -/
def baseEnv (defaults options header : Env V) : Env V := (defaults.over options).over header

/-- whole transform: a directive in an illegal scope is a compile error -/
def compile (T : STable) (merge : V → V → V) (dflt : Name → V) (defaults options header : Env V)
    (headerNames : List Name) (p : Prog V) : Res (List (Nat × Env V)) :=
  if headerNames.all (fun n => scopeOK T n .module) && legalProg T p then
    .ok ((0, baseEnv defaults options header) :: run T merge dflt (baseEnv defaults options header) p)
  else .err "CompileError"

/-! ### Specification: the innermost enclosing setting -/

inductive FrameK where
  | withBlock | defNode | defBody
  deriving DecidableEq, Repr

/-- one enclosing construct with the settings it names, strongest first (decorators: top first) -/
structure Frame (V : Type) where
  kind : FrameK
  sets : List (Name × V)

def lk (n : Name) : List (Name × V) → Option V
  | [] => none
  | (m, v) :: r => if m = n then some v else lk n r

/-- the setting a frame makes for `n`; decorators naming an immediate directive do not reach the body -/
def Frame.lookup (T : STable) (f : Frame V) (n : Name) : Option V :=
  if f.kind = .defBody && T.immediate n then none else lk n f.sets

/-- innermost enclosing setting, else the module-level value -/
def eff (T : STable) (base : Env V) : List (Frame V) → Name → Option V
  | [], n => base n
  | f :: fs, n => (f.lookup T n).or (eff T base fs n)

/-- every observation point with its enclosing frames, innermost first (purely structural) -/
def points (dflt : Name → V) : List (Frame V) → Prog V → List (Nat × List (Frame V))
  | _, .done => []
  | fs, .mark id r => (id, fs) :: points dflt fs r
  | fs, .withB n a b r =>
    points dflt (⟨.withBlock, [(n, a.getD (dflt n))]⟩ :: fs) b ++ points dflt fs r
  | fs, .defB _ id ds b r =>
    (id, ⟨.defNode, ds.map (resolve dflt)⟩ :: fs) ::
      (points dflt (⟨.defBody, ds.map (resolve dflt)⟩ :: fs) b ++ points dflt fs r)

/-- pointwise relation between two lists of the same length -/
def Agree {α β} (R : α → β → Prop) : List α → List β → Prop
  | [], [] => True
  | a :: as, b :: bs => R a b ∧ Agree R as bs
  | _, _ => False

/-- names for which "innermost wins" is the whole story -/
def STable.regular (T : STable) (n : Name) : Prop := T.nonInherited n = false ∧ T.mergeable n = false

end CyVerif.C41

import CyVerif.Model.C18Py
import CyVerif.Model.C18Ord
/-!
Model of `CIntLike._parse_format` / `can_coerce_to_pystring` (`Cython/Compiler/PyrexTypes.py`):
which literal format specs of an f-string field with a C integer value are mapped onto the C
formatting functions, and with which `(format_char, width, padding_char)`.
ASCII specs only (`str.isdigit`/`isdecimal` on non-ASCII digits are not modelled).
-/
namespace CyVerif.C18

/-- which of the two repairs `_parse_format` has: `rejectGtZero`: `>0…` is not mapped (in `format()`
the zeros go before the sign); `rejectSignC`: `-…c` is not mapped (`format()` raises for a sign with
`c`).  The pinned source has neither. -/
structure ParseVariant where
  rejectSignC : Bool
  rejectGtZero : Bool
  deriving DecidableEq, Repr

def ParseVariant.orig : ParseVariant := ⟨false, false⟩
def ParseVariant.fixed : ParseVariant := ⟨true, true⟩

/-- format characters of the C macro -/
inductive FmtC where
  | num (f : Fmt)
  | chr
  deriving DecidableEq, Repr

def fmtCOfChar (c : Char) : Option FmtC :=
  if c = 'o' then some (.num .o) else if c = 'd' then some (.num .d) else if c = 'x' then some (.num .x)
  else if c = 'X' then some (.num .X) else if c = 'c' then some .chr else none

/-- `prefix.lstrip('0')` -/
def lstrip0 (s : List Char) : List Char := s.dropWhile (· = '0')

/-- the part of `_parse_format` that looks at the non-empty text before the type character -/
def parsePrefix (var : ParseVariant) (ft : FmtC) (pre : List Char) : Option (FmtC × Nat × Char) :=
  let first := pre.head?.getD ' '
  let strip : Bool := first = '>' || first = '-'            -- if prefix[0] in '>-': prefix = prefix[1:]
  if var.rejectSignC = true ∧ first = '-' ∧ ft = .chr then none else
  let pre1 := if strip then pre.tail else pre
  let zero : Bool := pre1.head? = some '0'                  -- if prefix and prefix[0] == '0'
  if var.rejectGtZero = true ∧ first = '>' ∧ zero then none else
  let pad : Char := if zero then '0' else ' '
  let pre2 := if zero then lstrip0 pre1 else pre1           -- prefix.lstrip('0')
  -- if prefix.isdecimal(): return (format_type, int(prefix), padding)
  if !pre2.isEmpty ∧ pre2.all isDig then some (ft, digitsVal pre2, pad) else none

/-- `_parse_format(format_spec)`: `none` = `(None, 0, padding)` -/
def parseFormat (var : ParseVariant) (spec : List Char) : Option (FmtC × Nat × Char) :=
  if spec.isEmpty then some (.num .d, 0, ' ') else
  let last := spec.getLast?.getD ' '
  let tp : Option (FmtC × List Char) :=
    match fmtCOfChar last with
    | some ft => some (ft, spec.dropLast)                   -- format_type in 'odxXc'
    | none => if isDig last then some (.num .d, spec) else none   -- format_type.isdigit()
  match tp with
  | none => none
  | some (ft, pre) =>
    if pre.isEmpty then some (ft, 0, ' ') else parsePrefix var ft pre

/-- `can_coerce_to_pystring`: mapped and `width <= 2**30` -/
def cFastPath (var : ParseVariant) (spec : List Char) : Option (FmtC × Nat × Char) :=
  match parseFormat var spec with
  | some (ft, w, pad) => if w ≤ 1073741824 then some (ft, w, pad) else none
  | none => none

/-- CPython's text for a mapped spec: `format(v, "[0][width]type")` -/
def specTextOf (ft : FmtC) (w : Nat) (pad : Char) (v : Int) : OutU :=
  match ft with
  | .num f => .text (cps (pyFormatInt f (pad == '0') w v))
  | .chr => pyFormatChr pad w v

/-- the generated call `__Pyx_PyUnicode_From_<type>(value, width, 'pad', 'fmt')` -/
def cFormat (ov : OrdVariant) (n : Nat) (signed : Bool) (v : Int) (ft : FmtC) (width : Int) (pad : Char) : OutU :=
  match ft with
  | .num f => (cintToPyUnicode n signed v width pad f).toU
  | .chr => ucharToPyUnicode ov n signed v width pad

end CyVerif.C18

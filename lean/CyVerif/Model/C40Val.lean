import CyVerif.Model.C40
/-!
C40 model, values and the Python-level semantics of the mini-language's operators (reference semantics:
CPython 3.12 on int / bool / float / str / None / lists of scalars / objects with `__len__`).

Floats are an abstract type `F` with operations `FOps F`: the theorems hold for every interpretation; the
driver instantiates them with IEEE doubles.  Corners that are not modelled give `Out.unsup`.
-/
namespace CyVerif.C40

inductive Exc where
  | TypeError | ZeroDivisionError | OverflowError | ValueError | IndexError | UnboundLocalError
  deriving DecidableEq, Repr

def Exc.name : Exc → String
  | .TypeError => "TypeError" | .ZeroDivisionError => "ZeroDivisionError" | .OverflowError => "OverflowError"
  | .ValueError => "ValueError" | .IndexError => "IndexError" | .UnboundLocalError => "UnboundLocalError"

/-- outcome: value, Python exception, undefined/implementation-defined C behaviour, not modelled -/
inductive Out (α : Type) where
  | ok (a : α)
  | err (e : Exc)
  | ub (why : String)
  | unsup
  deriving DecidableEq, Repr

def Out.bind {α β} (x : Out α) (f : α → Out β) : Out β :=
  match x with
  | .ok a => f a
  | .err e => .err e
  | .ub w => .ub w
  | .unsup => .unsup

instance : Monad Out where
  pure := .ok
  bind := Out.bind

/-- result of a float division-like operation -/
inductive FR (F : Type) where
  | val (x : F)
  | zerodiv
  | unsup

def FR.out {F α} (r : FR F) (k : F → α) : Out α :=
  match r with
  | .val x => .ok (k x)
  | .zerodiv => .err .ZeroDivisionError
  | .unsup => .unsup

structure FOps (F : Type) where
  ofBits : Nat → F
  ofInt : Int → Option F                 -- Python `float(int)`; `none`: OverflowError
  add : F → F → F
  sub : F → F → F
  mul : F → F → F
  div : F → F → FR F
  fdiv : F → F → FR F
  fmod : F → F → FR F
  neg : F → F
  abs : F → F
  cmp : CmpOp → F → F → Bool
  cmpIF : CmpOp → Int → F → Bool         -- exact comparison int <op> float
  truth : F → Bool
  divInt : Int → Int → Option F          -- Python `int / int` (divisor nonzero); `none`: not modelled

inductive Scalar (F : Type) where
  | int (n : Int) | flt (f : F) | bool (b : Bool) | str (cs : List Nat) | none

inductive Val (F : Type) where
  | int (n : Int) | flt (f : F) | bool (b : Bool) | str (cs : List Nat) | none
  | list (xs : List (Scalar F))
  | biglen (n : Nat)                      -- an object whose `__len__` returns `n`

def Scalar.toVal {F} : Scalar F → Val F
  | .int n => .int n | .flt f => .flt f | .bool b => .bool b | .str cs => .str cs | .none => .none

/-! ### integer bit operations (two's complement of unbounded width) -/
def natAndNot (x y : Nat) : Nat := x ^^^ (x &&& y)         -- x & ~y
def intNot (a : Int) : Int := -a - 1
def intAnd (a b : Int) : Int :=
  match decide (0 ≤ a), decide (0 ≤ b) with
  | true, true => ((a.toNat &&& b.toNat : Nat) : Int)
  | true, false => ((natAndNot a.toNat (intNot b).toNat : Nat) : Int)
  | false, true => ((natAndNot b.toNat (intNot a).toNat : Nat) : Int)
  | false, false => intNot (((intNot a).toNat ||| (intNot b).toNat : Nat) : Int)
def intOr (a b : Int) : Int := intNot (intAnd (intNot a) (intNot b))
def intXor (a b : Int) : Int := intAnd (intOr a b) (intNot (intAnd a b))

variable {F : Type}

inductive Num (F : Type) where
  | i (n : Int)
  | f (x : F)

def Val.num? : Val F → Option (Num F)
  | .int n => some (.i n)
  | .bool b => some (.i (if b then 1 else 0))
  | .flt x => some (.f x)
  | _ => Option.none

def Val.int? : Val F → Option Int
  | .int n => some n
  | .bool b => some (if b then 1 else 0)
  | _ => Option.none

def toF (fo : FOps F) : Num F → Out F
  | .f x => .ok x
  | .i n => match fo.ofInt n with
    | some x => .ok x
    | Option.none => .err .OverflowError

def Val.truth (fo : FOps F) : Val F → Bool
  | .int n => n ≠ 0
  | .flt x => fo.truth x
  | .bool b => b
  | .str cs => !cs.isEmpty
  | .none => false
  | .list xs => !xs.isEmpty
  | .biglen n => n ≠ 0

/-- sizes above this are "not modelled" (MemoryError / very long computations in CPython) -/
def bigLimit : Nat := 4096

def listRepeat {α} (xs : List α) : Nat → List α
  | 0 => []
  | n + 1 => xs ++ listRepeat xs n

def pyFloatBin (fo : FOps F) (op : BinOp) (x y : F) : Out (Val F) :=
  match op with
  | .add => .ok (.flt (fo.add x y))
  | .sub => .ok (.flt (fo.sub x y))
  | .mul => .ok (.flt (fo.mul x y))
  | .div => (fo.div x y).out Val.flt
  | .fdiv => (fo.fdiv x y).out Val.flt
  | .mod => (fo.fmod x y).out Val.flt
  | .pow => .unsup
  | _ => .err .TypeError

def pyIntBin (fo : FOps F) (op : BinOp) (a b : Int) : Out (Val F) :=
  match op with
  | .add => .ok (.int (a + b))
  | .sub => .ok (.int (a - b))
  | .mul => .ok (.int (a * b))
  | .fdiv => if b = 0 then .err .ZeroDivisionError else .ok (.int (Int.fdiv a b))
  | .mod => if b = 0 then .err .ZeroDivisionError else .ok (.int (Int.fmod a b))
  | .div =>
    if b = 0 then .err .ZeroDivisionError
    else match fo.divInt a b with | some r => .ok (.flt r) | Option.none => .unsup
  | .pow =>
    if b < 0 then (if a = 0 then .err .ZeroDivisionError else .unsup)
    else if b.toNat > bigLimit then .unsup else .ok (.int (a ^ b.toNat))
  | .shl =>
    if b < 0 then .err .ValueError
    else if a = 0 then .ok (.int 0)
    else if b.toNat > bigLimit then .unsup else .ok (.int (a * 2 ^ b.toNat))
  | .shr =>
    if b < 0 then .err .ValueError
    else if b.toNat > bigLimit then .ok (.int (if a < 0 then -1 else 0))
    else .ok (.int (Int.fdiv a (2 ^ b.toNat)))
  | .band => .ok (.int (intAnd a b))
  | .bor => .ok (.int (intOr a b))
  | .bxor => .ok (.int (intXor a b))

/-- Python binary operator on two values -/
def pyBin (fo : FOps F) (op : BinOp) (a b : Val F) : Out (Val F) :=
  match a, b with
  | .bool x, .bool y =>
    -- bool & bool etc. stay bool; everything else is int arithmetic
    match op with
    | .band => .ok (.bool (x && y))
    | .bor => .ok (.bool (x || y))
    | .bxor => .ok (.bool (x != y))
    | _ => pyIntBin fo op (if x then 1 else 0) (if y then 1 else 0)
  | .str x, .str y =>
    match op with
    | .add => if x.length + y.length > bigLimit then .unsup else .ok (.str (x ++ y))
    | .mod => .unsup
    | _ => .err .TypeError
  | .str x, other =>
    match op, other.int? with
    | .mul, some n =>
      if n > 9223372036854775807 ∨ n < -9223372036854775808 then .err .OverflowError
      else if n ≤ 0 ∨ x.isEmpty then .ok (.str []) else if x.length * n.toNat > bigLimit then .unsup
      else .ok (.str (listRepeat x n.toNat))
    | .mod, _ => .unsup
    | _, _ => match other with
      | .list _ => .unsup
      | _ => .err .TypeError
  | other, .str y =>
    match op, other.int? with
    | .mul, some n =>
      if n > 9223372036854775807 ∨ n < -9223372036854775808 then .err .OverflowError
      else if n ≤ 0 ∨ y.isEmpty then .ok (.str []) else if y.length * n.toNat > bigLimit then .unsup
      else .ok (.str (listRepeat y n.toNat))
    | _, _ => match other with
      | .list _ => .unsup
      | _ => .err .TypeError
  | .list _, _ => .unsup
  | _, .list _ => .unsup
  | _, _ =>
    match a.num?, b.num? with
    | some (.i x), some (.i y) => pyIntBin fo op x y
    | some x, some y =>
      if op.intOnly then .err .TypeError
      else do
        let fx ← toF fo x
        let fy ← toF fo y
        pyFloatBin fo op fx fy
    | _, _ => .err .TypeError

def pyUn (fo : FOps F) (op : UnOp) (a : Val F) : Out (Val F) :=
  match op with
  | .not => .ok (.bool (!a.truth fo))
  | .neg => match a.num? with
    | some (.i n) => .ok (.int (-n))
    | some (.f x) => .ok (.flt (fo.neg x))
    | Option.none => .err .TypeError
  | .pos => match a.num? with
    | some (.i n) => .ok (.int n)
    | some (.f x) => .ok (.flt x)
    | Option.none => .err .TypeError
  | .inv => match a.int? with
    | some n => .ok (.int (intNot n))
    | Option.none => .err .TypeError

def cmpInt (op : CmpOp) (a b : Int) : Bool :=
  match op with
  | .lt => a < b | .le => a ≤ b | .eq => a = b | .ne => a ≠ b | .gt => a > b | .ge => a ≥ b
  | .is_ => a = b | .isnot => a ≠ b

def CmpOp.swap : CmpOp → CmpOp
  | .lt => .gt | .le => .ge | .gt => .lt | .ge => .le | o => o

def lexLt : List Nat → List Nat → Bool
  | [], [] => false
  | [], _ :: _ => true
  | _ :: _, [] => false
  | a :: as, b :: bs => if a < b then true else if a > b then false else lexLt as bs

def cmpStr (op : CmpOp) (a b : List Nat) : Bool :=
  match op with
  | .lt => lexLt a b | .le => !lexLt b a | .eq => a = b | .ne => a ≠ b | .gt => lexLt b a | .ge => !lexLt a b
  | .is_ => a = b | .isnot => a ≠ b

def CmpOp.isOrder : CmpOp → Bool
  | .lt | .le | .gt | .ge => true
  | _ => false

/-- Python comparison (`is` / `is not` only against `None`) -/
def pyCmp (fo : FOps F) (op : CmpOp) (a b : Val F) : Out (Val F) :=
  match op, b with
  | .is_, .none => .ok (.bool (match a with | .none => true | _ => false))
  | .isnot, .none => .ok (.bool (match a with | .none => false | _ => true))
  | .is_, _ => .unsup
  | .isnot, _ => .unsup
  | _, _ =>
    match a.num?, b.num? with
    | some (.i x), some (.i y) => .ok (.bool (cmpInt op x y))
    | some (.i x), some (.f y) => .ok (.bool (fo.cmpIF op x y))
    | some (.f x), some (.i y) => .ok (.bool (fo.cmpIF op.swap y x))
    | some (.f x), some (.f y) => .ok (.bool (fo.cmp op x y))
    | _, _ =>
      match a, b with
      | .str x, .str y => .ok (.bool (cmpStr op x y))
      | .list _, _ => .unsup
      | _, .list _ => .unsup
      | .none, .none => if op.isOrder then .err .TypeError else .ok (.bool (op = .eq))
      | _, _ => if op.isOrder then .err .TypeError else .ok (.bool (op = .ne))

def pyAbs (fo : FOps F) (a : Val F) : Out (Val F) :=
  match a.num? with
  | some (.i n) => .ok (.int (if n < 0 then -n else n))
  | some (.f x) => .ok (.flt (fo.abs x))
  | Option.none => .err .TypeError

def ssizeMax : Int := 9223372036854775807

def pyLen (a : Val F) : Out (Val F) :=
  match a with
  | .str cs => if (cs.length : Int) > ssizeMax then .unsup else .ok (.int cs.length)
  | .list xs => if (xs.length : Int) > ssizeMax then .unsup else .ok (.int xs.length)
  | .biglen n => if (n : Int) > ssizeMax then .err .OverflowError else .ok (.int n)
  | _ => .err .TypeError

def pyIdx (a i : Val F) : Out (Val F) :=
  match a with
  | .str cs =>
    (match i.int? with
    | some n =>
      let k := if n < 0 then n + cs.length else n
      if k < 0 ∨ k ≥ cs.length then .err .IndexError
      else match cs[k.toNat]? with | some c => .ok (.str [c]) | Option.none => .err .IndexError
    | Option.none => match i with | .list _ => .unsup | _ => .err .TypeError)
  | .list xs =>
    (match i.int? with
    | some n =>
      let k := if n < 0 then n + xs.length else n
      if k < 0 ∨ k ≥ xs.length then .err .IndexError
      else match xs[k.toNat]? with | some c => .ok c.toVal | Option.none => .err .IndexError
    | Option.none => match i with | .list _ => .unsup | _ => .err .TypeError)
  | _ => .err .TypeError

end CyVerif.C40

import CyVerif.Model.C20
/-! C20 — statements: targets, target trees, reference semantics of assignment (cascaded, unpacking,
starred) and augmented assignment. -/
namespace CyVerif.C20

inductive Tgt where
  | name (x : String)
  | idx (py : Bool) (b i : Expr)
  | attr (py : Bool) (o : Expr) (a : String)
  deriving DecidableEq, Repr, Inhabited

def Tgt.toExpr : Tgt → Expr
  | .name x => .name x
  | .idx py b i => .idx py b i
  | .attr py o a => .attr py o a

/-- target trees: `seq body` is a tuple/list target whose items are the `scons` spine of `body`. -/
inductive LT where
  | leaf (t : Tgt)
  | snil
  | scons (starred : Bool) (h tl : LT)
  | seq (body : LT)
  deriving DecidableEq, Repr, Inhabited

def setEv (py : Bool) (vb vi v : Val) : Trace := if py then [mk3 "set" vb vi v] else []
def setattrEv (py : Bool) (vo : Val) (a : String) (v : Val) : Trace := if py then [mk3 "setattr" vo (.sym a) v] else []

/-- store `v` into a target: target sub-expressions left to right, then the store event. -/
def assignTgt (c : Cfg) (τ : Val → Bool) (σ : Store) (t : Tgt) (v : Val) : Trace × Store :=
  match t with
  | .name x => ([], σ.set x v)
  | .idx py b i =>
    let (t1, vb) := eval c τ σ b
    let (t2, vi) := eval c τ σ i
    (t1 ++ t2 ++ setEv py vb vi v, σ)
  | .attr py o a =>
    let (t1, vo) := eval c τ σ o
    (t1 ++ setattrEv py vo a v, σ)

def LT.items : LT → Nat
  | .scons _ _ tl => tl.items + 1
  | _ => 0

def Val.take : Nat → Val → Val
  | n + 1, .cons h t => .cons h (Val.take n t)
  | _, _ => .nil

def Val.drop : Nat → Val → Val
  | n + 1, .cons _ t => Val.drop n t
  | _, v => v

def Val.head : Val → Val
  | .cons h _ => h
  | _ => .sym "?"

def Val.tail : Val → Val
  | .cons _ t => t
  | _ => .nil

/-- Assign a value to a target tree.  `assignLT (.seq body) v` unpacks `v` (UNPACK_SEQUENCE / UNPACK_EX:
everything is unpacked first, then the items are stored left to right); on the `scons` spine the second
argument is the list of remaining unpacked values. -/
def assignLT (c : Cfg) (τ : Val → Bool) : LT → Store → Val → Trace × Store
  | .leaf t, σ, v => assignTgt c τ σ t v
  | .snil, σ, _ => ([], σ)
  | .seq body, σ, v =>
    let (ti, es) := elemsOf v
    let (t, σ') := assignLT c τ body σ es
    (ti ++ t, σ')
  | .scons false h tl, σ, vs =>
    let (t1, σ1) := assignLT c τ h σ vs.head
    let (t2, σ2) := assignLT c τ tl σ1 vs.tail
    (t1 ++ t2, σ2)
  | .scons true h tl, σ, vs =>
    let n := vs.len - tl.items
    let (t1, σ1) := assignLT c τ h σ (.lst (vs.take n))
    let (t2, σ2) := assignLT c τ tl σ1 (vs.drop n)
    (t1 ++ t2, σ2)

/-- cascade `l1 = l2 = … = v`, left to right -/
def assignAll (c : Cfg) (τ : Val → Bool) : List LT → Store → Val → Trace × Store
  | [], σ, _ => ([], σ)
  | l :: ls, σ, v =>
    let (t1, σ1) := assignLT c τ l σ v
    let (t2, σ2) := assignAll c τ ls σ1 v
    (t1 ++ t2, σ2)

inductive Stmt where
  | assign (lhss : List LT) (rhs : Expr)
  | aug (t : Tgt) (rhs : Expr)
  | expr (e : Expr)
  deriving Repr, Inhabited

/-- Reference (Python) semantics of `t += rhs`: target sub-expressions once, read, rhs, `iadd`, write. -/
def augRef (c : Cfg) (τ : Val → Bool) (σ : Store) (t : Tgt) (rhs : Expr) : Trace × Store :=
  match t with
  | .name x =>
    let v := σ.get x
    let (tr, w) := eval c τ σ rhs
    let r := mk2 "iadd" v w
    (tr ++ [r], σ.set x r)
  | .idx py b i =>
    let (t1, vb) := eval c τ σ b
    let (t2, vi) := eval c τ σ i
    let v := mk2 "get" vb vi
    let (tr, w) := eval c τ σ rhs
    let r := mk2 "iadd" v w
    (t1 ++ t2 ++ getEv py vb vi ++ tr ++ [r] ++ setEv py vb vi r, σ)
  | .attr py o a =>
    let (t1, vo) := eval c τ σ o
    let v := mk2 "getattr" vo (.sym a)
    let (tr, w) := eval c τ σ rhs
    let r := mk2 "iadd" v w
    (t1 ++ getattrEv py vo a ++ tr ++ [r] ++ setattrEv py vo a r, σ)

/-- Reference semantics of one statement. -/
def stmtRef (c : Cfg) (τ : Val → Bool) (σ : Store) : Stmt → Trace × Store
  | .assign lhss rhs =>
    let (t, v) := eval c τ σ rhs
    let (t2, σ') := assignAll c τ lhss σ v
    (t ++ t2, σ')
  | .aug t rhs => augRef c τ σ t rhs
  | .expr e => ((eval c τ σ e).1, σ)

def runWith (step : Store → Stmt → Trace × Store) : List Stmt → Store → Trace × Store
  | [], σ => ([], σ)
  | s :: ss, σ =>
    let (t1, σ1) := step σ s
    let (t2, σ2) := runWith step ss σ1
    (t1 ++ t2, σ2)

def runRef (c : Cfg) (τ : Val → Bool) : List Stmt → Store → Trace × Store := runWith (stmtRef c τ)

end CyVerif.C20

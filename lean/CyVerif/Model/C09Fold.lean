import CyVerif.Model.C09Pool
/-!
# C09 — folding rule for a constant slice of a sequence literal

`ConstantFolding.visit_MulNode` keeps `literal * k` as the literal node with a pending `mult_factor`
(`Node.seq k (some factor) args`: the run-time value repeats `args`).  `visit_SliceIndexNode` cuts
the *item list* of a sliced literal — which is only the slice of the value when no repetition is
pending.  `guard` = the test `base.mult_factor is None` is present.
-/
namespace CyVerif.C09

/-- Python `xs[a:b]` for already normalised bounds `0 ≤ a`, `0 ≤ b` -/
def pySlice {α : Type} (xs : List α) (a b : Nat) : List α := (xs.drop a).take (b - a)

/-- `visit_SliceIndexNode` on a tuple/list literal (`none` = left to run time) -/
def foldSlice (guard : Bool) : Node → Nat → Nat → Option Node
  | .seq k m args, a, b => if guard && m.isSome then none else some (.seq k m (pySlice args a b))
  | _, _, _ => none

end CyVerif.C09

import CyVerif.Model.Util
/-!
Model for property C19, part 5: `Optimize.c: PyObjectCompare`, helper
`__Pyx_PyObject_CompareIntInt{Eq,Ne,Lt,Le,Gt,Ge}` (CYTHON_USE_PYLONG_INTERNALS, CPython >= 3.12 layout) with
`TypeConversion.c: __Pyx_PyLong_CompareSignAndSize`.

An exact `int` is its sign flag and its digits in base `B` (= 2^PyLong_SHIFT = 2^30); the digit list is kept
most significant digit FIRST, i.e. `ds[k]` is the C `digits[size-1-k]`: the C loop `for (i = size-1; i >= 0 && !cmp; --i)`
walks this list from its head.
-/
namespace CyVerif.C19

structure PyInt where
  neg : Bool
  ds : List Nat          -- most significant first
  deriving DecidableEq, Repr

def magBE (B : Nat) : List Nat → Nat
  | [] => 0
  | x :: xs => x * B ^ xs.length + magBE B xs

def PyInt.val (B : Nat) (p : PyInt) : Int := if p.neg then -(magBE B p.ds : Int) else (magBE B p.ds : Int)

/-- `lv_tag & _PyLong_SIGN_MASK`: 0 positive, 1 zero, 2 negative -/
def PyInt.signTag (p : PyInt) : Nat := if p.ds.isEmpty then 1 else if p.neg then 2 else 0

/-- `__Pyx_PyLong_CompareSignAndSize` -/
def compareSignAndSize (a b : PyInt) : Int :=
  if a.signTag = b.signTag ∧ a.ds.length = b.ds.length then 0          -- tag_a == tag_b
  else if a.signTag > b.signTag then -1
  else if a.signTag < b.signTag then 1
  else (1 - (a.signTag : Int)) * ((a.ds.length : Int) - (b.ds.length : Int))

/-- the count-down digit loop: the first non-zero digit difference from the top -/
def digitLoop : List Nat → List Nat → Int
  | x :: xs, y :: ys => if (x : Int) - (y : Int) ≠ 0 then (x : Int) - (y : Int) else digitLoop xs ys
  | _, _ => 0

/-- digit comparison of two ints with the same sign and digit count (`size > 0`) -/
def digitCmp (B : Nat) (xs ys : List Nat) : Int :=
  match xs, ys with
  | [x], [y] => (x : Int) - (y : Int)                                            -- size == 1
  | [x1, x0], [y1, y0] => ((x1 * B + x0 : Nat) : Int) - ((y1 * B + y0 : Nat) : Int)    -- size == 2: pylong_join
  | _, _ => digitLoop xs ys

inductive CmpOp where
  | eq | ne | lt | le | gt | ge
  deriving DecidableEq, Repr

def CmpOp.holds (op : CmpOp) (a b : Int) : Bool :=
  match op with
  | .eq => decide (a = b) | .ne => decide (a ≠ b) | .lt => decide (a < b)
  | .le => decide (a ≤ b) | .gt => decide (a > b) | .ge => decide (a ≥ b)

/-- the tail of the helper: `cmp != 0` -/
def finalCmp (op : CmpOp) (c : Int) : Bool :=
  match op with
  | .eq => false
  | .ne => true
  | .lt => decide (c < 0) | .le => decide (c < 0)
  | .gt => !decide (c < 0) | .ge => !decide (c < 0)

def CmpOp.isEqLeGe : CmpOp → Bool
  | .eq => true | .le => true | .ge => true | _ => false

/-- `__Pyx_PyObject_CompareIntInt<op>(op1, op2)` -/
def compareIntInt (B : Nat) (op : CmpOp) (a b : PyInt) : Bool :=
  let c0 := compareSignAndSize a b
  if c0 = 0 then
    let c := if a.ds.length > 0 then digitCmp B a.ds b.ds else 0
    if c = 0 then op.isEqLeGe
    else finalCmp op (if a.neg then -c else c)
  else finalCmp op c0

/-- canonical representation: digits below the base, no leading zero, zero is not negative -/
def PyInt.WF (B : Nat) (p : PyInt) : Prop :=
  (∀ d ∈ p.ds, d < B) ∧ (∀ x xs, p.ds = x :: xs → x ≠ 0) ∧ (p.ds = [] → p.neg = false)

def pCmpOp (s : String) : Option CmpOp :=
  match s with
  | "eq" => some .eq | "ne" => some .ne | "lt" => some .lt | "le" => some .le | "gt" => some .gt | "ge" => some .ge
  | _ => none

end CyVerif.C19

import CyVerif.Model.Util
/-!
C36 — model pieces that are about *absence of undefined behaviour* and are not already part of
another property's model.

`powLoopChecked` is the repaired `__Pyx_pow_<T>` loop (Cython/Utility/CMath.c, IntPow) on the
MAGNITUDES of the values (|x·y| = |x|·|y|, so whether a signed multiplication overflows depends
only on magnitudes): every multiplication is checked against the largest representable
magnitude `M`; `none` = signed overflow (undefined behaviour).
-/
namespace CyVerif.C36

def powLoopChecked (M : Nat) (t b e : Nat) : Option Nat :=
  if h : e = 0 then some t
  else
    let t' := t * (if e % 2 = 1 then b else 1)
    if M < t' then none
    else if e / 2 = 0 then some t'
    else
      let b' := b * b
      if M < b' then none else powLoopChecked M t' b' (e / 2)
termination_by e
decreasing_by omega

/-- the loop as it was before the repair: squares once more after the last bit -/
def powLoopCheckedOld (M : Nat) (t b e : Nat) : Option Nat :=
  if h : e = 0 then some t
  else
    let t' := t * (if e % 2 = 1 then b else 1)
    if M < t' then none
    else
      let b' := b * b
      if M < b' then none else powLoopCheckedOld M t' b' (e / 2)
termination_by e
decreasing_by omega

def handle : List String → String
  | ["ipow", fx, m, b, e] =>
    match m.toNat?, b.toNat?, e.toNat? with
    | some m, some b, some e =>
      match (if fx == "1" then powLoopChecked m 1 b e else powLoopCheckedOld m 1 b e) with
      | some v => s!"ok {v}"
      | none => "ub signed-overflow"
    | _, _, _ => "bad-op"
  | _ => "bad-op"

end CyVerif.C36

import CyVerif.Model.C45Safe
/-!
C45 line protocol (see `harness/props/c45.py`).

  run <be l|m> <linetrace 0|1> <traceNogil 0|1> <fixCpdef 0|1> <fixRet 0|1> <fid> <first> <last> <kind p|n|w|c|k|g> <stmt>
      -> ok <raised 0|1> <okFn 0|1> <balanced 0|1> <event>*
  check <event>*            -> ok <balanced 0|1>          (the Lean stack checker on an arbitrary word)
  early <be l|m> <garbage 0|1> <fid> -> ok <event>*       (error exit before the start macro)

  stmt (prefix form):  E | S ln | F ln c | R ln | P ln | Z ln (error exit without exception) | B ln | C ln | Y ln t
     | K ln fid first last kind stmt | X ln raises n event^n | Q stmt stmt
     | TF ln stmt stmt | TE ln stmt lnExc stmt | I stmt stmt
  event: <k><fid>:<a>:<b>   k = s start, m resume, r return, u unwind, y yield, l line
-/
namespace CyVerif.C45

/-- error exit before the start macro (closure allocation failed).  Legacy: `int __Pyx_use_tracing = 0;`
guards every later macro.  Monitoring: `PyMonitoringState states[N];` is only `memset` by the start
macro, so the `.active` flags read at the error label are indeterminate (`garbage`). -/
def runEarly (cfg : Cfg) (c : Fn) (garbage : Bool) : List Ev :=
  match cfg.be with
  | .legacy => []
  | .monitoring => if garbage then evClose cfg c .unwind else []

def Kind.letter : Kind → String
  | .start => "s" | .resume => "m" | .ret => "r" | .unwind => "u" | .yield => "y" | .line => "l"

def Ev.render (e : Ev) : String := s!"{e.kind.letter}{e.fid}:{e.a}:{e.b}"

def parseKind? : Char → Option Kind
  | 's' => some .start | 'm' => some .resume | 'r' => some .ret | 'u' => some .unwind
  | 'y' => some .yield | 'l' => some .line | _ => none

def parseEv? (tok : String) : Option Ev :=
  match tok.toList with
  | k :: rest =>
    match parseKind? k, (String.ofList rest).splitOn ":" with
    | some kind, [f, a, b] =>
      match f.toNat?, a.toNat?, b.toNat? with
      | some f, some a, some b => some ⟨kind, f, a, b⟩
      | _, _, _ => none
    | _, _ => none
  | [] => none

def parseFK? : String → Option FKind
  | "p" => some .plain | "n" => some .nogil | "w" => some .swallow | "c" => some .cpdefPy | "g" => some .gen
  | "k" => some .cskip
  | _ => none

def bit? : String → Option Bool
  | "0" => some false | "1" => some true | _ => none

def takeEvs : Nat → List String → Option (List Ev × List String)
  | 0, toks => some ([], toks)
  | n + 1, t :: toks =>
    match parseEv? t, takeEvs n toks with
    | some e, some (es, rest) => some (e :: es, rest)
    | _, _ => none
  | _ + 1, [] => none

def parseStmt : Nat → List String → Option (Stmt × List String)
  | 0, _ => none
  | fuel + 1, toks =>
    match toks with
    | "E" :: r => some (.skip, r)
    | "S" :: ln :: r => ln.toNat?.map fun l => (.simple l, r)
    | "F" :: ln :: c :: r => match ln.toNat?, bit? c with
      | some l, some c => some (.fail l c, r)
      | _, _ => none
    | "R" :: ln :: r => ln.toNat?.map fun l => (.ret l, r)
    | "P" :: ln :: r => ln.toNat?.map fun l => (.retPar l, r)
    | "Z" :: ln :: r => ln.toNat?.map fun l => (.stopNoExc l, r)
    | "B" :: ln :: r => ln.toNat?.map fun l => (.brk l, r)
    | "C" :: ln :: r => ln.toNat?.map fun l => (.cont l, r)
    | "Y" :: ln :: t :: r => match ln.toNat?, t.toNat? with
      | some l, some t => if t ≤ 2 then some (.yld l t, r) else none
      | _, _ => none
    | "K" :: ln :: fid :: first :: last :: k :: r =>
      match ln.toNat?, fid.toNat?, first.toNat?, last.toNat?, parseFK? k with
      | some l, some fid, some first, some last, some k =>
        match parseStmt fuel r with
        | some (b, r') => some (.call l ⟨fid, first, last, k⟩ b, r')
        | none => none
      | _, _, _, _, _ => none
    | "X" :: ln :: raises :: n :: r =>
      match ln.toNat?, bit? raises, n.toNat? with
      | some l, some raises, some n =>
        match takeEvs n r with
        | some (w, r') => some (.ext l w raises, r')
        | none => none
      | _, _, _ => none
    | "Q" :: r =>
      match parseStmt fuel r with
      | some (a, r1) => match parseStmt fuel r1 with
        | some (b, r2) => some (.seq a b, r2)
        | none => none
      | none => none
    | "I" :: r =>
      match parseStmt fuel r with
      | some (a, r1) => match parseStmt fuel r1 with
        | some (b, r2) => some (.iter a b, r2)
        | none => none
      | none => none
    | "TF" :: ln :: r =>
      match ln.toNat?, parseStmt fuel r with
      | some l, some (a, r1) => match parseStmt fuel r1 with
        | some (b, r2) => some (.tryFin l a b, r2)
        | none => none
      | _, _ => none
    | "TE" :: ln :: r =>
      match ln.toNat?, parseStmt fuel r with
      | some l, some (a, lnE :: r1) => match lnE.toNat?, parseStmt fuel r1 with
        | some le, some (b, r2) => some (.tryExc l a le b, r2)
        | _, _ => none
      | _, _ => none
    | _ => none

def b2s (b : Bool) : String := if b then "1" else "0"

def parseBe? : String → Option Backend
  | "l" => some .legacy | "m" => some .monitoring | _ => none

def renderEvs (w : List Ev) : String := " ".intercalate (w.map Ev.render)

def handle : List String → String
  | "run" :: be :: lt :: ng :: fc :: fr :: fid :: first :: last :: k :: toks =>
    match parseBe? be, bit? lt, bit? ng, bit? fc, bit? fr, fid.toNat?, first.toNat?, last.toNat?, parseFK? k with
    | some be, some lt, some ng, some fc, some fr, some fid, some first, some last, some k =>
      match parseStmt (toks.length + 1) toks with
      | some (s, []) =>
        let cfg : Cfg := ⟨be, lt, ng, fc, fr⟩
        let c : Fn := ⟨fid, first, last, k⟩
        let r := runFn cfg c s
        let bal := go [] r.1 == some []
        let evs := renderEvs r.1
        s!"ok {b2s r.2} {b2s (okFn cfg c s)} {b2s bal}" ++ (if evs.isEmpty then "" else " " ++ evs)
      | _ => "bad-op"
    | _, _, _, _, _, _, _, _, _ => "bad-op"
  | "check" :: toks =>
    match toks.mapM parseEv? with
    | some w => s!"ok {b2s (go [] w == some [])}"
    | none => "bad-op"
  | ["early", be, g, fid] =>
    match parseBe? be, bit? g, fid.toNat? with
    | some be, some g, some fid =>
      let evs := renderEvs (runEarly ⟨be, false, false, false, false⟩ ⟨fid, 1, 1, .plain⟩ g)
      "ok" ++ (if evs.isEmpty then "" else " " ++ evs)
    | _, _, _ => "bad-op"
  | _ => "bad-op"

end CyVerif.C45

import CyVerif.Model.Util
/-!
C31 — structural pattern matching.

Two executable semantics over the same value trees and pattern ASTs:

* `ref…`  — PEP 634 as implemented by CPython 3.12 (`MATCH_SEQUENCE` + `GET_LEN`
  pre-check + `UNPACK_EX` split, `MATCH_MAPPING` + `MATCH_KEYS` (`.get` with a
  sentinel, `seen` set), `MATCH_CLASS` (`isinstance`, `__match_args__`,
  `match_class_attr` with its `seen` set), captures committed when the whole
  case pattern has matched, guards evaluated after the commit).
* `cy…`   — the lowering in `Cython/Compiler/MatchCaseNodes.py` +
  `Cython/Utility/MatchCase.c` as it exists: a *test phase* (`get_comparison_node`:
  pre-checks, unchecked indexing `len + (j - n_after)` behind the star,
  `__Pyx_MatchCase_Mapping_Extract*`, `__Pyx_MatchCase_ClassPositional`,
  `which_alternative_temp` of or-patterns, tests of irrefutable sub-patterns
  skipped) followed by a separate *assignment phase*
  (`create_target_assignments`) that re-walks the pattern.

`Variant` switches the places where the current source deviates from CPython
and a repair exists, so the theorems cover both the pre-fix and post-fix code.
-/
namespace CyVerif.C31

/-! ### atoms -/

inductive Lit where
  | int (n : Int) | bool (b : Bool) | pynone | str (k : Nat)
  deriving DecidableEq, Repr, Inhabited

def Lit.asInt? : Lit → Option Int
  | .int n => some n
  | .bool b => some (if b then 1 else 0)
  | _ => none

/-- Python `==` between atoms (`True == 1`, `False == 0`). -/
def Lit.pyEq (a b : Lit) : Bool :=
  match a.asInt?, b.asInt? with
  | some x, some y => x == y
  | none, none => a == b
  | _, _ => false

/-- `None`, `True`, `False` literal patterns compare by identity. -/
def Lit.isSingleton : Lit → Bool
  | .pynone => true | .bool _ => true | _ => false

/-! ### values -/

inductive Val where
  | lit (l : Lit)
  | bytes (k : Nat)                              -- bytes / bytearray: never a sequence
  | eobj (tag : Nat) (n : Int)                   -- `__eq__` logs `tag`, equal to the int `n`
  | list (xs : List Val) | tuple (xs : List Val)
  | cseq (xs : List Val)                         -- instance of a collections.abc.Sequence subclass
  | dict (kvs : List (Lit × Val))                -- exact dict
  | lmap (kvs : List (Lit × Val))                -- Mapping subclass whose `.get` logs the key
  | obj (c : Nat) (attrs : List (Nat × Option Val))  -- `none`: property that raises ValueError
  /- dynamic class kinds that take the generic (non-exact) paths of the helpers -/
  | dsub (kvs : List (Lit × Val))                -- dict subclass, `get` not overridden
  | dget (kvs : List (Lit × Val)) (view : List (Lit × Val))
      -- dict subclass overriding `get`: logs the key and answers from `view` (hidden / aliased
      -- entries); `kvs` is the hash table seen by `len`, `dict(subject)` and the `PyDict_*` API
  | useq (kind : Nat) (xs : List Val)
      -- 0 list subclass / 1 tuple subclass whose coherent `__len__/__getitem__/__iter__`
      -- overrides present `xs`; 2 deque; 3 array.array; 4 range
  | ostr (kind : Nat) (k : Nat)
      -- 0 str subclass, 1 bytes subclass, 2 bytearray, 3 bytearray subclass: never a sequence
  deriving Inhabited

inductive Ev where
  | eq (tag : Nat) | get (k : Lit) | guard (i : Nat)
  deriving DecidableEq, Repr

abbrev Log := List Ev
abbrev Env := List (Nat × Val)

inductive Exc where
  | typeError | valueError | crash
  deriving DecidableEq, Repr

/-- result of a matching step with the side-effect log threaded through -/
inductive R (α : Type) where
  | ok (a : α) (lg : Log)
  | fail (lg : Log)
  | err (e : Exc) (lg : Log)

/-- `subject == literal`: the subject's `__eq__` runs first. -/
def eqv (v : Val) (l : Lit) (lg : Log) : Bool × Log :=
  match v with
  | .lit a => (a.pyEq l, lg)
  | .eobj tag n => ((match l.asInt? with | some m => n == m | none => false), lg ++ [.eq tag])
  | .ostr kind k => (kind == 0 && l == .str k, lg)
  | _ => (false, lg)

/-- `subject is literal` -/
def isv (v : Val) (l : Lit) : Bool :=
  match v with
  | .lit a => a == l
  | _ => false

/-- `Py_TPFLAGS_SEQUENCE` and the items -/
def seqItems : Val → Option (List Val)
  | .list xs => some xs | .tuple xs => some xs | .cseq xs => some xs
  | .useq _ xs => some xs
  | _ => none

/-- `Py_TPFLAGS_MAPPING` and the items -/
def mapItems : Val → Option (List (Lit × Val))
  | .dict kvs => some kvs | .lmap kvs => some kvs
  | .dsub kvs => some kvs | .dget kvs _ => some kvs
  | _ => none

def logsGet : Val → Bool
  | .lmap _ => true | .dget _ _ => true | _ => false

/-- what the subject's own two-argument `get` answers from.  For an exact dict this is the hash
    table itself (so `PyDict_GetItemRef` / `PyDict_Contains` are equivalent to `get`); for every
    other mapping the helpers must call `get` (`__Pyx_MatchCase_Mapping_ExtractNonDict`). -/
def mapView : Val → List (Lit × Val)
  | .dict kvs => kvs | .lmap kvs => kvs | .dsub kvs => kvs
  | .dget _ view => view
  | _ => []

def lookupKey (kvs : List (Lit × Val)) (k : Lit) : Option Val :=
  (kvs.find? (fun kv => kv.1.pyEq k)).map (·.2)

/-- `mapping.get(k, sentinel)` -/
def mget (logs : Bool) (kvs : List (Lit × Val)) (k : Lit) (lg : Log) : Option Val × Log :=
  (lookupKey kvs k, if logs then lg ++ [.get k] else lg)

/-- `dict(mapping)` minus the pattern keys (CPython: `DICT_UPDATE` + `DELETE_SUBSCR` per key) -/
def restOf (kvs : List (Lit × Val)) (ks : List Lit) : List (Lit × Val) :=
  kvs.filter (fun kv => !(ks.any (fun k => kv.1.pyEq k)))

/-! ### classes -/

inductive Cls where
  | user (c : Nat) | bint | bbool | bstr | blist | btuple | bdict | nontype
  deriving DecidableEq, Repr

/-- `__match_args__` of a user class -/
inductive MArgs where
  | absent | nontuple | tuple (names : List (Option Nat))   -- `none`: a non-str element
  deriving DecidableEq, Repr

structure CInfo where
  supers : List Nat
  margs : MArgs
  deriving Repr

structure Tab where
  classes : List CInfo
  consts : List Lit
  deriving Repr

def Tab.const (T : Tab) (k : Nat) : Lit := T.consts.getD k .pynone
def Tab.margs (T : Tab) (c : Nat) : MArgs :=
  match T.classes[c]? with | some ci => ci.margs | none => .absent
def Tab.supers (T : Tab) (c : Nat) : List Nat :=
  match T.classes[c]? with | some ci => ci.supers | none => []

def isInst (T : Tab) (v : Val) : Cls → Bool
  | .user c => (match v with | .obj c' _ => c' == c || (T.supers c').contains c | _ => false)
  | .bint => (match v with | .lit (.int _) => true | .lit (.bool _) => true | _ => false)
  | .bbool => (match v with | .lit (.bool _) => true | _ => false)
  | .bstr => (match v with | .lit (.str _) => true | .ostr 0 _ => true | _ => false)
  | .blist => (match v with | .list _ => true | .useq 0 _ => true | _ => false)
  | .btuple => (match v with | .tuple _ => true | .useq 1 _ => true | _ => false)
  | .bdict => (match v with | .dict _ => true | .dsub _ => true | .dget _ _ => true | _ => false)
  | .nontype => false

inductive Attr where
  | found (v : Val) | missing | raises

def getAttr (v : Val) (a : Nat) : Attr :=
  match v with
  | .obj _ attrs =>
    (match attrs.find? (fun p => p.1 == a) with
     | some (_, some x) => .found x
     | some (_, none) => .raises
     | none => .missing)
  | _ => .missing

/-! ### patterns -/

inductive Key where
  | lit (l : Lit) | const (k : Nat)
  deriving DecidableEq, Repr

def Key.val (T : Tab) : Key → Lit
  | .lit l => l | .const k => T.const k

def Key.isLit : Key → Bool
  | .lit _ => true | .const _ => false

inductive Pat where
  | lit (l : Lit)                      -- literal: `==`, or `is` for None/True/False
  | const (k : Nat)                    -- value pattern `K.ck`: `==`
  | cap (n : Nat)
  | wild
  | seq (ps : List Pat) (star : Option (Option Nat)) (qs : List Pat)
  | map (ks : List Key) (ps : List Pat) (rest : Option Nat)
  | cls (c : Cls) (pos : List Pat) (kwn : List Nat) (kwp : List Pat)
  | or (alts : List Pat)
  | as (p : Pat) (n : Nat)
  deriving Inhabited

structure Case where
  pat : Pat
  guard : Option Bool      -- opaque boolean; evaluating it logs `guard i`

/-- the three repairs handed over with this check; `cur` is the tree as found -/
structure Variant where
  asSubject : Bool     -- `case 1 as x` binds the subject (not the literal)
  posFirst : Bool      -- class sub-patterns tested positional-then-keyword
  attrErr : Bool       -- non-AttributeError from a positional attribute propagates (no NULL deref)
  orTested : Bool      -- irrefutable or-patterns inside sequence/mapping/class patterns are still run
  deriving DecidableEq, Repr

def Variant.cur : Variant := ⟨false, false, false, false⟩
def Variant.fixed : Variant := ⟨true, true, true, true⟩

end CyVerif.C31

import CyVerif.Model.C28
/-!
# C28 — rich comparison

A comparison `l <op> r` only looks at the two operands' class hierarchies, so the machinery works on
*chains*: the list of classes from the operand's type up to (excluding) `object`.

* `genC`     : the `tp_richcompare` function that `ModuleNode.generate_richcmp_function` emits for a
               cdef class (dispatch on `op`, `__ne__` from `__eq__`, `total_ordering` synthesis with the
               table `ModuleNode.TOTAL_ORDERING`, `NotImplemented` propagation, methods inherited from
               cdef base classes resolved at compile time)
* `callRich` : `tp_richcompare` of any class: the generated function, `object_richcompare`,
               `slot_tp_richcompare` (attribute lookup; slot wrappers of cdef bases; functions added by
               `functools.total_ordering`), or `int`'s
* `doRich`   : `do_richcompare` of `Objects/object.c`
-/
namespace CyVerif.C28

/-- one class of a chain: `id` = index in the world (labels the calls) -/
structure CC where
  id : Nat
  kind : Kind
  eq : Bool
  ne : Bool
  lt : Bool
  gt : Bool
  le : Bool
  ge : Bool
  tord : Bool
  deriving DecidableEq, Repr

abbrev Chain := List CC

def CC.has (c : CC) : Cmp → Bool
  | .eq => c.eq | .ne => c.ne | .lt => c.lt | .gt => c.gt | .le => c.le | .ge => c.ge

def CC.any (c : CC) : Bool := c.eq || c.ne || c.lt || c.gt || c.le || c.ge

def Cmp.swap : Cmp → Cmp
  | .eq => .eq | .ne => .ne | .lt => .gt | .gt => .lt | .le => .ge | .ge => .le

def Cmp.isEqNe : Cmp → Bool | .eq => true | .ne => true | _ => false

/-- result of a `tp_richcompare` call -/
inductive CRes
  | b (v : Bool)
  | ni
  deriving DecidableEq, Repr

/-- outcome of the comparison expression -/
inductive COut
  | b (v : Bool)
  | typeError
  deriving DecidableEq, Repr

/-- decision tree; the three branches are the body's answers True / False / NotImplemented -/
inductive RTree (α : Type)
  | leaf (r : α)
  | ask (c : Call) (t f n : RTree α)
  deriving DecidableEq, Repr

def RTree.bind {α β : Type} : RTree α → (α → RTree β) → RTree β
  | .leaf r, k => k r
  | .ask c t f n, k => .ask c (t.bind k) (f.bind k) (n.bind k)

def askUser (d : Nat) (m : Cmp) (s : Side) : RTree CRes :=
  .ask ⟨d, .cmp m, s⟩ (.leaf (.b true)) (.leaf (.b false)) (.leaf .ni)

/-- first class of the chain whose own body defines `m` (MRO lookup = Cython's `comp_entry`) -/
def resolveC : Chain → Cmp → Option Nat
  | [], _ => none
  | c :: rest, m => if c.has m then some c.id else resolveC rest m

/-- the ordering method Cython / functools synthesise from: `max` of the names present,
i.e. priority `__lt__` > `__le__` > `__gt__` > `__ge__` -/
def orderingSource (present : Cmp → Bool) : Option Cmp :=
  if present .lt then some .lt else if present .le then some .le
  else if present .gt then some .gt else if present .ge then some .ge else none

/-- `TOTAL_ORDERING[(source, target)] = (invert_comp, op, invert_equals)`; `op`: none = no equality
test, some true = `&&`, some false = `||`.  The concrete table is regenerated from the source and
kernel-checked against this one on every run. -/
def toTable : Cmp → Cmp → Option (Bool × Option (Bool × Bool))
  | .lt, .gt => some (true, some (true, true))
  | .lt, .le => some (false, some (false, false))
  | .lt, .ge => some (true, none)
  | .le, .ge => some (true, some (false, false))
  | .le, .lt => some (false, some (true, true))
  | .le, .gt => some (true, none)
  | .gt, .lt => some (true, some (true, true))
  | .gt, .ge => some (false, some (false, false))
  | .gt, .le => some (true, none)
  | .ge, .le => some (true, some (false, false))
  | .ge, .gt => some (false, some (true, true))
  | .ge, .lt => some (true, none)
  | _, _ => none

def invIf (inv : Bool) (b : Bool) : Bool := if inv then !b else b

/-- after the ordering call returned `order`: the rest of a synthesised comparison.
`eqTest invertEquals` performs the equality part and returns its (already inverted) result. -/
def synthTail (entry : Bool × Option (Bool × Bool)) (order : Bool) (eqTest : Bool → RTree CRes) : RTree CRes :=
  match entry.2 with
  | none => .leaf (.b (invIf entry.1 order))
  | some (isAnd, invEq) =>
    if isAnd then (if invIf entry.1 order then eqTest invEq else .leaf (.b false))
    else (if invIf entry.1 order then .leaf (.b true) else eqTest invEq)

/-- the class heading the chain carries the `total_ordering` directive -/
def headTord : Chain → Bool
  | c :: _ => c.tord
  | [] => false

/-- the generated `tp_richcompare` of the cdef class at the head of `chp`, `self` on `side` -/
def genC (chp : Chain) (side : Side) (op : Cmp) : RTree CRes :=
  match resolveC chp op with
  | some d => askUser d op side
  | none =>
    let present := fun m => (resolveC chp m).isSome
    let toOn : Bool := headTord chp && (orderingSource present).isSome && (present .eq || present .ne)
    if toOn && !op.isEqNe then
      match orderingSource present with
      | none => .leaf .ni
      | some src =>
        match toTable src op, resolveC chp src with
        | some entry, some ds =>
          (askUser ds src side).bind fun r =>
            match r with
            | .ni => .leaf .ni
            | .b order =>
              synthTail entry order fun invEq =>
                match resolveC chp .eq, resolveC chp .ne with
                | some de, _ => (askUser de .eq side).bind fun e =>
                    (match e with | .ni => .leaf .ni | .b v => .leaf (.b (invIf invEq v)))
                | none, some dn => (askUser dn .ne side).bind fun e =>
                    (match e with | .ni => .leaf .ni | .b v => .leaf (.b (invIf (!invEq) v)))
                | none, none => .leaf .ni
        | _, _ => .leaf .ni
    else
      match op, resolveC chp .eq with
      | .ne, some de => (askUser de .eq side).bind fun e =>
          (match e with | .ni => .leaf .ni | .b v => .leaf (.b (!v)))
      | _, _ => .leaf .ni

end CyVerif.C28

import CyVerif.Model.C31Ref
/-!
C31 — model of the lowering in `Cython/Compiler/MatchCaseNodes.py` and the helpers in
`Cython/Utility/MatchCase.c` (CPython >= 3.10 branch: `IsSequence`/`IsMapping` read
`Py_TPFLAGS_SEQUENCE/MAPPING`).  Phase 1 (`cyTest*`) = `get_comparison_node`; it returns
the values of the `which_alternative_temp`s (`Ch`).  Phase 2 (`cyAssign*`) =
`create_target_assignments`.
-/
namespace CyVerif.C31

/-- values of the or-pattern `which_alternative_temp`s, shaped like the pattern -/
inductive Ch where
  | leaf
  | alt (k : Nat) (c : Ch)
  | kids (cs : List Ch)
  deriving Inhabited

mutual
/-- `PatternNode.is_irrefutable` -/
def irrefutable : Pat → Bool
  | .cap _ => true
  | .wild => true
  | .as p _ => irrefutable p
  | .or alts => anyIrrefutable alts
  | _ => false
def anyIrrefutable : List Pat → Bool
  | [] => false
  | a :: rest => irrefutable a || anyIrrefutable rest
end

mutual
/-- `bool(PatternNode.get_targets())` -/
def hasTargets : Pat → Bool
  | .cap _ => true
  | .as _ _ => true
  | .seq ps st qs => anyTargets ps || (match st with | some (some _) => true | _ => false) || anyTargets qs
  | .map _ ps rest => anyTargets ps || rest.isSome
  | .cls _ pos _ kwp => anyTargets pos || anyTargets kwp
  | .or alts => anyTargets alts
  | _ => false
def anyTargets : List Pat → Bool
  | [] => false
  | a :: rest => hasTargets a || anyTargets rest
end

/-- a `MatchAndAssignPatternNode` (capture / wildcard, possibly with `as` targets) -/
def isMA : Pat → Bool
  | .cap _ => true
  | .wild => true
  | .as p _ => isMA p
  | _ => false

/-- sub-pattern whose test is not generated: sequence/mapping context:
    `subject_temps[n] is None` / `if pattern.is_irrefutable(): continue`;
    class context: `not p.get_targets() and p.is_irrefutable()` -/
def skipTest (V : Variant) (clsCtx : Bool) (p : Pat) : Bool :=
  (if V.orTested then isMA p else irrefutable p) && (!clsCtx || !hasTargets p)

/-- unchecked indexing (`boundscheck=False, wraparound=False`) -/
def itemAt (items : List Val) (i : Int) : Option Val :=
  if 0 ≤ i then items[i.toNat]? else none

/-- fetch `subject[i]` for every index of the list; `none` = read outside the object -/
def fetchAll (items : List Val) : List Int → Option (List Val)
  | [] => some []
  | i :: rest =>
    match itemAt items i, fetchAll items rest with
    | some x, some xs => some (x :: xs)
    | _, _ => none

/-- `generate_subjects`: forward indices `0..np-1`, backward indices `len + (j - nq)` -/
def cySeqBefore (items : List Val) (np : Nat) : Option (List Val) :=
  fetchAll items ((List.range' 0 np).map (fun (i : Nat) => (i : Int)))
def cySeqAfter (items : List Val) (nq : Nat) : Option (List Val) :=
  fetchAll items ((List.range' 0 nq).map
    (fun (j : Nat) => (items.length : Int) + ((j : Int) - (nq : Int))))
/-- `SliceToListNode`: `subject[np : len + (0 - nq)]` copied into a list of `stop - start` slots -/
def cySeqStar (items : List Val) (np nq : Nat) : List Val :=
  let stop : Int := (items.length : Int) + (0 - (nq : Int))
  let total := (stop - (np : Int)).toNat
  (items.drop np).take total

/-- `__Pyx_MatchCase_CheckMappingDuplicateKeys(keys, nFixed, nKeys)` on the sorted key array -/
def hasDupWithin : List Lit → Bool
  | [] => false
  | k :: ks => ks.any (fun s => s.pyEq k) || hasDupWithin ks
def cyDupKeys (vars fixed : List Lit) : Bool :=
  hasDupWithin vars || fixed.any (fun f => vars.any (fun s => s.pyEq f))

/-- `__Pyx_MatchCase_Mapping_Extract*`: keys in array order, stop at the first missing key -/
def cyExtract (logs : Bool) (kvs : List (Lit × Val)) : List Lit → Log → R Unit
  | [], lg => .ok () lg
  | k :: ks, lg =>
    match mget logs kvs k lg with
    | (none, lg') => .fail lg'
    | (some _, lg') => cyExtract logs kvs ks lg'

/-- `__Pyx_MatchCase_DoubleStarCapture`: shortcut when `size == nKeys` -/
def cyRest (kvs : List (Lit × Val)) (ks : List Lit) : List (Lit × Val) :=
  if kvs.length == ks.length then [] else restOf kvs ks

/-- `__Pyx_MatchCase_ClassCheckDuplicateAttrs` over the first `min(len(match_args), npos)`
    names and the keyword names -/
def hasDupNames : List (Option Nat) → Bool
  | [] => false
  | a :: rest => rest.contains a || hasDupNames rest

/-- the positional loop of `__Pyx__MatchCase_ClassPositional` -/
def cyPosAttrs (V : Variant) (v : Val) : List (Option Nat) → Log → R (List Val)
  | [], lg => .ok [] lg
  | none :: _, lg => .err .typeError lg
  | some a :: rest, lg =>
    match getAttr v a with
    | .missing => .fail lg
    | .raises => if V.attrErr then .err .valueError lg else .err .crash lg
    | .found x =>
      match cyPosAttrs V v rest lg with
      | .ok xs l => .ok (x :: xs) l
      | r => r

/-- `make_keyword_pattern_lookups`: plain attribute lookups under `except AttributeError` -/
def cyKwAttrs (v : Val) : List Nat → Log → R (List Val)
  | [], lg => .ok [] lg
  | a :: rest, lg =>
    match getAttr v a with
    | .missing => .fail lg
    | .raises => .err .valueError lg
    | .found x =>
      match cyKwAttrs v rest lg with
      | .ok xs l => .ok (x :: xs) l
      | r => r

/-- type guard, isinstance, positional helper, keyword lookups -/
def cyClsSubs (V : Variant) (T : Tab) (c : Cls) (npos : Nat) (kwn : List Nat) (v : Val) (lg : Log) :
    R (List Val × List Val) :=
  if c = .nontype then .err .typeError lg
  else if !isInst T v c then .fail lg
  else
    let kw := cyKwAttrs v kwn lg
    let withPos (pv : List Val) : R (List Val × List Val) :=
      match kw with
      | .ok xs l => .ok (pv, xs) l
      | .fail l => .fail l
      | .err e l => .err e l
    if npos = 0 then withPos []
    else match c with
      | .user u =>
        (match T.margs u with
         | .absent => .err .typeError lg
         | .nontuple => .err .typeError lg
         | .tuple names =>
           if names.length < npos then .err .typeError lg
           else if hasDupNames (names.take npos ++ kwn.map some) then .err .typeError lg
           else match cyPosAttrs V v (names.take npos) lg with
             | .ok pv _ => withPos pv
             | .fail l => .fail l
             | .err e l => .err e l)
      | _ => if 1 < npos then .err .typeError lg else withPos [v]

/-- `create_target_assignments`: an `as` target on a value pattern whose value node
    `is_simple()` is assigned a clone of that node instead of the subject.  For all cases
    that are not rewritten to an if-chain this runs after constant folding (`-1` is an `IntNode`). -/
def asLitOf (T : Tab) : Pat → Option Lit
  | .lit l => some l
  | .const k => some (T.const k)
  | .as p _ => asLitOf T p
  | _ => none

/-- the same decision taken by `MatchNode.refactor_cases` (a parse-tree transform, before
    constant folding: `-1` is still a `UnaryMinusNode`, not simple) -/
def asLitEarly (T : Tab) : Pat → Option Lit
  | .lit (.int n) => if 0 ≤ n then some (.int n) else none
  | .lit l => some l
  | .const k => some (T.const k)
  | .as p _ => asLitEarly T p
  | _ => none

def asValue (V : Variant) (T : Tab) (p : Pat) (v : Val) : Val :=
  if V.asSubject then v else
  match asLitOf T p with
  | some l => .lit l
  | none => v

/-- value pattern with `as` targets only: `is_simple_value_comparison` -/
def isValueChain : Pat → Bool
  | .lit _ => true
  | .const _ => true
  | .as p _ => isValueChain p
  | _ => false

def chainNames : Pat → List Nat
  | .as p n => n :: chainNames p
  | _ => []

/-- assignments of an unguarded top-level value case (rewritten to `if subject == value:`) -/
def cyAssignEarly (V : Variant) (T : Tab) (p : Pat) (v : Val) : Env :=
  let x := if V.asSubject then v else
    match asLitEarly T p with
    | some l => .lit l
    | none => v
  (chainNames p).map (fun n => (n, x))

end CyVerif.C31

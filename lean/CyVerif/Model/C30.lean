import CyVerif.Model.Util
/-!
C30 — cdef dataclasses behave like standard dataclasses.

Two models of the *decision logic* that turns (decorator options, field list, methods the class
body already defines, an optional dataclass base) into (generated methods, `__init__` parameter
list, field selections, hash action, `__match_args__`, errors):

* `py…`  : CPython 3.12 `Lib/dataclasses.py` (`_process_class`, `_get_field`, `_init_fn`,
           `_fields_in_init_order`, `_hash_action`), transcribed.
* `cy…`  : `Cython/Compiler/Dataclass.py` (`handle_cclass_dataclass`, `process_class_get_fields`,
           `generate_*_code`) as it exists, parametrised by
           - `Params`: the hash decision tree of `generate_hash_code` and the option / field
             defaults, REGENERATED from the current source by the harness translator, and
           - `Var`: which of seven small repairs are present in the source (detected by the harness).
-/
namespace CyVerif.C30

/-- repairs that may be present in `Dataclass.py` (all `false` = the pinned tree) -/
structure Var where
  matchArgsInit : Bool   -- `__match_args__` leaves out `init=False` fields
  orderNeedsEq : Bool    -- `order=True, eq=False` is rejected
  orderClash : Bool      -- `order=True` with a user-defined `__lt__/__le__/__gt__/__ge__` is rejected
  frozenInherit : Bool   -- frozen / non-frozen inheritance conflicts are rejected
  frozenSetattr : Bool   -- `frozen=True` with a user-defined `__setattr__/__delattr__` is rejected
  fieldKwOnly : Bool     -- `field(kw_only=…)` accepted, kw_only resolved per field as CPython does
  hashCompare : Bool     -- `hash=None` follows `compare` (pinned: `NoneNode.value` is "Py_None", never `None`)
  deriving DecidableEq, Repr

def Var.pinned : Var := ⟨false, false, false, false, false, false, false⟩
def Var.repaired : Var := ⟨true, true, true, true, true, true, true⟩

/-- default of a field: none, `= value`, `default_factory=`, both given, a bare list/dict/set display -/
inductive Dflt where
  | none | value | factory | both | mutable
  deriving DecidableEq, Repr

/-- annotation kind: ordinary, `InitVar[…]`, `ClassVar[…]`, the `_: KW_ONLY` sentinel -/
inductive Kind where
  | plain | initvar | classvar | kwSentinel
  deriving DecidableEq, Repr

/-- a field as written in the class body; `none` = option not given to `field(...)` -/
structure FieldSpec where
  name : String
  kind : Kind
  dflt : Dflt
  init : Option Bool
  repr : Option Bool
  compare : Option Bool
  hash : Option (Option Bool)
  kwOnly : Option Bool
  deriving DecidableEq, Repr

/-- a resolved field (`__dataclass_fields__` entry of kind `_FIELD` or `_FIELD_INITVAR`) -/
structure RField where
  name : String
  initvar : Bool
  dflt : Dflt
  init : Bool
  repr : Bool
  compare : Bool
  hash : Option Bool
  kwOnly : Bool
  deriving DecidableEq, Repr

/-- decorator options as written (`none` = not given) -/
structure OptsGiven where
  init : Option Bool
  repr : Option Bool
  eq : Option Bool
  order : Option Bool
  unsafeHash : Option Bool
  frozen : Option Bool
  kwOnly : Option Bool
  matchArgs : Option Bool
  deriving DecidableEq, Repr

structure Opts where
  init : Bool
  repr : Bool
  eq : Bool
  order : Bool
  unsafeHash : Bool
  frozen : Bool
  kwOnly : Bool
  matchArgs : Bool
  deriving DecidableEq, Repr

def OptsGiven.resolve (d : Opts) (g : OptsGiven) : Opts :=
  { init := g.init.getD d.init, repr := g.repr.getD d.repr, eq := g.eq.getD d.eq,
    order := g.order.getD d.order, unsafeHash := g.unsafeHash.getD d.unsafeHash,
    frozen := g.frozen.getD d.frozen, kwOnly := g.kwOnly.getD d.kwOnly,
    matchArgs := g.matchArgs.getD d.matchArgs }

/-- defaults of `field(...)` -/
structure FDefaults where
  init : Bool
  repr : Bool
  compare : Bool
  hash : Option Bool
  deriving DecidableEq, Repr

/-- how the class body treats `__hash__` -/
inductive HashDef where
  | absent | defined | setNone
  deriving DecidableEq, Repr

/-- `node.scope.lookup_here("__hash__")` finds an entry -/
def HashDef.present : HashDef → Bool
  | .absent => false
  | .defined => true
  | .setNone => true

/-- names the class body defines itself -/
structure UserDefs where
  init : Bool
  repr : Bool
  eq : Bool
  lt : Bool
  le : Bool
  gt : Bool
  ge : Bool
  setattr : Bool
  delattr : Bool
  matchArgs : Bool
  postInit : Bool
  hash : HashDef
  deriving DecidableEq, Repr

def UserDefs.anyOrder (u : UserDefs) : Bool := u.lt || u.le || u.gt || u.ge

/-- a dataclass base class: its resolved fields and whether it is frozen -/
structure Base where
  fields : List RField
  frozen : Bool
  deriving DecidableEq, Repr

structure ClassSpec where
  opts : OptsGiven
  user : UserDefs
  base : Option Base
  fields : List FieldSpec
  deriving DecidableEq, Repr

/-- the class has a dataclass base whose `frozen` flag differs from `frozen` -/
def ClassSpec.frozenMismatch (s : ClassSpec) (frozen : Bool) : Bool :=
  match s.base with
  | some b => b.frozen != frozen
  | none => false

def ClassSpec.baseFields (s : ClassSpec) : List RField :=
  match s.base with
  | some b => b.fields
  | none => []

/-! ### hash action -/

inductive HashAct where
  | nothing | setNone | add | raise
  deriving DecidableEq, Repr

/-- CPython `_hash_action[unsafe_hash, eq, frozen, has_explicit_hash]` (Lib/dataclasses.py) -/
def pyHashAction : Bool → Bool → Bool → Bool → HashAct
  | false, false, false, false => .nothing
  | false, false, false, true  => .nothing
  | false, false, true,  false => .nothing
  | false, false, true,  true  => .nothing
  | false, true,  false, false => .setNone
  | false, true,  false, true  => .nothing
  | false, true,  true,  false => .add
  | false, true,  true,  true  => .nothing
  | true,  false, false, false => .add
  | true,  false, false, true  => .raise
  | true,  false, true,  false => .add
  | true,  false, true,  true  => .raise
  | true,  true,  false, false => .add
  | true,  true,  false, true  => .raise
  | true,  true,  true,  false => .add
  | true,  true,  true,  true  => .raise

/-- conditions occurring in `generate_hash_code` -/
inductive HCond where
  | unsafeHash | eq | frozen | hashEntry
  | not (c : HCond)
  | and (a b : HCond)
  | or (a b : HCond)
  deriving DecidableEq, Repr

def HCond.eval (u e f h : Bool) : HCond → Bool
  | .unsafeHash => u
  | .eq => e
  | .frozen => f
  | .hashEntry => h
  | .not c => !(c.eval u e f h)
  | .and a b => a.eval u e f h && b.eval u e f h
  | .or a b => a.eval u e f h || b.eval u e f h

/-- side effects of `generate_hash_code` -/
inductive HEff where
  | error      -- error(... "Cannot overwrite attribute __hash__" ...)
  | setNone    -- add_extra_statements([__hash__ = None])
  | defHash    -- "def __hash__(self):" emitted
  deriving DecidableEq, Repr

/-- `generate_hash_code` as a decision tree: a leaf lists the effects executed on that path -/
inductive HTree where
  | leaf (effs : List HEff)
  | ite (c : HCond) (t e : HTree)
  deriving DecidableEq, Repr

def HTree.run (u e f h : Bool) : HTree → List HEff
  | .leaf effs => effs
  | .ite c t el => if c.eval u e f h then t.run u e f h else el.run u e f h

def effsAction : List HEff → Option HashAct
  | [] => some .nothing
  | [.error] => some .raise
  | [.setNone] => some .setNone
  | [.defHash] => some .add
  | _ => none

def HTree.action (t : HTree) (u e f h : Bool) : Option HashAct := effsAction (t.run u e f h)

/-- the tree of the pinned source, transcribed by hand (the harness regenerates it) -/
def HTree.pinned : HTree :=
  .ite .hashEntry
    (.ite .unsafeHash (.leaf [.error]) (.leaf []))
    (.ite (.not .unsafeHash)
      (.ite (.not .eq) (.leaf [])
        (.ite (.not .frozen) (.leaf [.setNone]) (.leaf [.defHash])))
      (.leaf [.defHash]))

/-- regenerated parameters -/
structure Params where
  hashTree : HTree
  optD : Opts
  fldD : FDefaults
  deriving DecidableEq, Repr

/-- defaults of `dataclasses.dataclass(...)` / `dataclasses.field(...)` (Lib/dataclasses.py) -/
def pyOptD : Opts :=
  { init := true, repr := true, eq := true, order := false, unsafeHash := false,
    frozen := false, kwOnly := false, matchArgs := true }
def pyFldD : FDefaults := { init := true, repr := true, compare := true, hash := none }

def Params.pinned : Params := { hashTree := .pinned, optD := pyOptD, fldD := pyFldD }

/-- the hash tree computes CPython's table on all 16 rows -/
def HashWF (t : HTree) : Prop :=
  ∀ u e f h : Bool, t.action u e f h = some (pyHashAction u e f h)

instance (t : HTree) : Decidable (HashWF t) := by unfold HashWF; infer_instance

def Params.WF (p : Params) : Prop := HashWF p.hashTree ∧ p.optD = pyOptD ∧ p.fldD = pyFldD

instance (p : Params) : Decidable p.WF := by unfold Params.WF; infer_instance

/-! ### outputs -/

structure Param where
  name : String
  kwOnly : Bool
  dflt : Dflt
  deriving DecidableEq, Repr

/-- how `__init__` initialises an attribute -/
inductive Src where
  | param           -- `self.x = x`
  | paramOrFactory  -- `self.x = factory() if x is _HAS_DEFAULT_FACTORY else x`  (per call)
  | factory         -- `self.x = factory()`  (init=False, per call)
  | dfltValue       -- init=False with a default value (CPython: class attribute; Cython: assignment)
  | unset           -- init=False without default
  | initvarOnly     -- InitVar pseudo-field, nothing stored
  deriving DecidableEq, Repr

structure InitOut where
  dselfName : Bool                      -- `__dataclass_self__` instead of `self`
  params : List Param
  body : List (String × Src)
  postInit : Option (List String)       -- arguments handed to `__post_init__`
  deriving DecidableEq, Repr

inductive HashState where
  | inherited | unhashable | user
  | generated (names : List String)
  deriving DecidableEq, Repr

structure Out where
  fields : List RField
  init : Option InitOut
  repr : Option (List String)
  eq : Bool
  order : List String
  cmpFields : List String
  hash : HashState
  matchArgs : Option (List String)
  frozen : Bool
  deriving DecidableEq, Repr

/-! ### shared pieces (the two sources coincide textually on these) -/

/-- no `field(...)` option given -/
def FieldSpec.plainOptions (f : FieldSpec) : Bool :=
  f.init.isNone && f.repr.isNone && f.compare.isNone && f.hash.isNone && f.kwOnly.isNone


def resolveField (d : FDefaults) (kw : Bool) (f : FieldSpec) : RField :=
  { name := f.name, initvar := f.kind == .initvar,
    dflt := if f.dflt == .mutable then .value else f.dflt,     -- a list/dict/set display is a default value
    init := f.init.getD d.init, repr := f.repr.getD d.repr, compare := f.compare.getD d.compare,
    hash := f.hash.getD d.hash, kwOnly := f.kwOnly.getD kw }

def RField.hasDefault (f : RField) : Bool := f.dflt != .none

def RField.toParam (f : RField) : Param := ⟨f.name, f.kwOnly, f.dflt⟩

def RField.src (f : RField) : Src :=
  if f.initvar then .initvarOnly
  else if f.dflt == .factory then (if f.init then .paramOrFactory else .factory)
  else if f.init then .param
  else if f.dflt == .none then .unset else .dfltValue

def names (fs : List RField) : List String := fs.map (·.name)

def reprNames (fs : List RField) : List String := names (fs.filter fun f => !f.initvar && f.repr)
def cmpNames (fs : List RField) : List String := names (fs.filter fun f => !f.initvar && f.compare)
def hashNames (fs : List RField) : List String :=
  names (fs.filter fun f => !f.initvar && (match f.hash with | none => f.compare | some h => h))
def initvarNames (fs : List RField) : List String := names (fs.filter (·.initvar))

def orderOps (u : UserDefs) : List String :=
  (if u.lt then [] else ["lt"]) ++ (if u.le then [] else ["le"]) ++
  (if u.gt then [] else ["gt"]) ++ (if u.ge then [] else ["ge"])

def hashState (a : HashAct) (u : UserDefs) (ns : List String) : HashState :=
  match a with
  | .add => .generated ns
  | .setNone => .unhashable
  | .raise => .unhashable          -- never observed: an error is reported instead
  | .nothing =>
    match u.hash with
    | .defined => .user
    | .setNone => .unhashable
    | .absent => if u.eq then .unhashable else .inherited

/-- "non-default argument follows default argument": flags = has-default of the positional parameters -/
def badOrder : Bool → List Bool → Bool
  | _, [] => false
  | seen, h :: t => if h then badOrder true t else (seen || badOrder seen t)

/-! ### CPython 3.12 -/

/-- `default = getattr(cls, a_name, MISSING)`: a redeclared field without a default of its own picks up
the class attribute that a base class keeps for a field of that name with a default value -/
def baseAttr (bfs : List RField) (n : String) : Bool := bfs.any (fun g => g.name == n && g.dflt == .value)

def pyInherit (bfs : List RField) (bare : Bool) (r : RField) : RField :=
  if bare && r.dflt == .none && baseAttr bfs r.name then { r with dflt := .value } else r

/-- reading an attribute that `__init__` does not set finds the class attribute of a base, if any -/
def pySrc (bfs : List RField) (f : RField) : Src :=
  if f.src == .unset && baseAttr bfs f.name then .dfltValue else f.src

/-- fields of the class body in annotation order; the `KW_ONLY` sentinel switches the default -/
def pyOwn (d : FDefaults) (bfs : List RField) : Bool → List FieldSpec → List RField
  | _, [] => []
  | kw, f :: fs =>
    match f.kind with
    | .kwSentinel => pyOwn d bfs true fs
    | .classvar => pyOwn d bfs kw fs
    | _ => pyInherit bfs f.plainOptions (resolveField d kw f) :: pyOwn d bfs kw fs

/-- first error raised by `_get_field` / the sentinel bookkeeping, in annotation order -/
def pyOwnErr : Bool → List FieldSpec → Option String
  | _, [] => none
  | seen, f :: fs =>
    match f.kind with
    | .kwSentinel => if seen then some "TypeError" else pyOwnErr true fs
    | .classvar => pyOwnErr seen fs
    | .initvar => if f.dflt == .factory then some "TypeError" else pyOwnErr seen fs
    | .plain => if f.dflt == .mutable then some "ValueError" else pyOwnErr seen fs

/-- `fields[f.name] = f`: replaces in place, else appends -/
def upsert (acc : List RField) (f : RField) : List RField :=
  if acc.any (·.name == f.name) then acc.map (fun g => if g.name == f.name then f else g)
  else acc ++ [f]

def pyFields (s : ClassSpec) (o : Opts) : List RField :=
  (pyOwn pyFldD s.baseFields o.kwOnly s.fields).foldl upsert s.baseFields

def pyStd (fs : List RField) : List RField := fs.filter fun f => f.init && !f.kwOnly
def pyKw (fs : List RField) : List RField := fs.filter fun f => f.init && f.kwOnly

def pyExplicitHash (u : UserDefs) : Bool :=
  match u.hash with
  | .absent => false
  | .defined => true
  | .setNone => !u.eq

def firstSome : List (Option String) → Option String
  | [] => none
  | some e :: _ => some e
  | none :: t => firstSome t

def chk (b : Bool) (e : String) : Option String := if b then some e else none

def pyErr (s : ClassSpec) : Option String :=
  let o := s.opts.resolve pyOptD
  let fs := pyFields s o
  firstSome [
    chk (s.fields.any (·.dflt == .both)) "ValueError",
    pyOwnErr false s.fields,
    chk (s.frozenMismatch o.frozen) "TypeError",
    chk (o.order && !o.eq) "ValueError",
    chk (o.init && badOrder false ((pyStd fs).map (·.hasDefault))) "TypeError",
    chk (o.order && s.user.anyOrder) "TypeError",
    chk (o.frozen && (s.user.setattr || s.user.delattr)) "TypeError",
    chk (pyHashAction o.unsafeHash o.eq o.frozen (pyExplicitHash s.user) == .raise) "TypeError"]

def pyOut (s : ClassSpec) : Out :=
  let o := s.opts.resolve pyOptD
  let u := s.user
  let fs := pyFields s o
  let eqGen := o.eq && !u.eq
  let ord := if o.order then orderOps u else []
  { fields := fs
    init := if o.init && !u.init then
        some { dselfName := fs.any (·.name == "self")
               params := (pyStd fs ++ pyKw fs).map (·.toParam)
               body := fs.map fun f => (f.name, pySrc s.baseFields f)
               postInit := if u.postInit then some (initvarNames fs) else none }
      else none
    repr := if o.repr && !u.repr then some (reprNames fs) else none
    eq := eqGen
    order := ord
    cmpFields := if eqGen || !ord.isEmpty then cmpNames fs else []
    hash := hashState (pyHashAction o.unsafeHash o.eq o.frozen (pyExplicitHash u)) u (hashNames fs)
    matchArgs := if o.matchArgs && !u.matchArgs then some (names (pyStd fs)) else none
    frozen := o.frozen }

def py (s : ClassSpec) : Res Out :=
  match pyErr s with
  | some e => .err e
  | none => .ok (pyOut s)

/-! ### Cython (`Dataclass.py`) -/

/-- a bare annotation (`x: T`, nothing assigned) -/
def FieldSpec.bare (f : FieldSpec) : Bool := f.dflt == .none && f.plainOptions

/-- `process_class_get_fields`: one `Field` per var entry of the class body (ClassVar attributes are
not var entries; a `field(default=…, default_factory=…)` is reported and the entry skipped; the
`KW_ONLY` sentinel is an ordinary attribute for Cython; a name that an ancestor already declares
gets no new entry: a bare re-annotation is silently ignored, one with a value is an error).
Without the `fieldKwOnly` repair every field simply follows the class-level flag. -/
def cyOwn (v : Var) (d : FDefaults) (bn : List String) (kw : Bool) : List FieldSpec → List RField
  | [] => []
  | f :: fs =>
    if f.kind == .classvar || f.dflt == .both || bn.contains f.name then cyOwn v d bn kw fs
    else
      let r := resolveField d kw f
      { r with kwOnly := if v.fieldKwOnly then r.kwOnly else kw } :: cyOwn v d bn kw fs

def cyFields (p : Params) (v : Var) (s : ClassSpec) (o : Opts) : List RField :=
  s.baseFields ++ cyOwn v p.fldD (names s.baseFields) o.kwOnly s.fields

/-- keyword-only status used by `generate_init_code` / `generate_match_args` -/
def cyKw (v : Var) (o : Opts) (f : RField) : Bool := if v.fieldKwOnly then f.kwOnly else o.kwOnly

/-- the `seen_default` loop of `generate_init_code` -/
def cyBadOrder (v : Var) (o : Opts) : Bool → List RField → Bool
  | _, [] => false
  | seen, f :: t =>
    if f.hasDefault then cyBadOrder v o (seen || (f.init && (if v.fieldKwOnly then !f.kwOnly else true))) t
    else if seen && !cyKw v o f && f.init then true
    else cyBadOrder v o seen t

def cyParams (v : Var) (o : Opts) (fs : List RField) : List Param :=
  if v.fieldKwOnly then
    ((fs.filter fun f => f.init && !f.kwOnly) ++ (fs.filter fun f => f.init && f.kwOnly)).map (·.toParam)
  else (fs.filter (·.init)).map fun f => ⟨f.name, o.kwOnly, f.dflt⟩

def cyMatchArgs (v : Var) (o : Opts) (fs : List RField) : List String :=
  names (fs.filter fun f => !cyKw v o f && (f.init || !v.matchArgsInit))

def tagIf (b : Bool) (t : String) : List String := if b then [t] else []

/-- fields hashed by the generated `__hash__`: `field.compare.value if field.hash.value is None else
field.hash.value`; on the pinned tree `field.hash` is a `NoneNode` whose `.value` is the string
"Py_None", so the first branch is dead and a field with `hash=None` is always hashed -/
def cyHashNames (v : Var) (fs : List RField) : List String :=
  names (fs.filter fun f => !f.initvar &&
    (match f.hash with | none => (if v.hashCompare then f.compare else true) | some h => h))

def cyFieldErrs (v : Var) (bn : List String) : List FieldSpec → List String
  | [] => []
  | f :: fs =>
    (if f.kind == .classvar || bn.contains f.name then []
     else if f.dflt == .both then ["both"]
     else tagIf (f.kwOnly.isSome && !v.fieldKwOnly) "field-kw" ++ tagIf (f.dflt == .mutable) "mutable") ++
    cyFieldErrs v bn fs

def cyHashAct (p : Params) (o : Opts) (u : UserDefs) : HashAct :=
  match p.hashTree.action o.unsafeHash o.eq o.frozen u.hash.present with
  | some a => a
  | none => .raise     -- a path with an unexpected mix of effects; excluded by `HashWF`

def cyErrs (p : Params) (v : Var) (s : ClassSpec) : List String :=
  let o := s.opts.resolve p.optD
  let u := s.user
  let fs := cyFields p v s o
  let bn := names s.baseFields
  (s.fields.filter fun f => f.kind != .classvar && !f.bare && bn.contains f.name).map (fun _ => "redeclare") ++
  cyFieldErrs v bn s.fields ++
  tagIf (v.frozenInherit && s.frozenMismatch o.frozen) "frozen-inherit" ++
  tagIf (v.orderNeedsEq && o.order && !o.eq) "order-eq" ++
  (tagIf (v.orderClash && o.order && u.lt) "order-clash" ++ tagIf (v.orderClash && o.order && u.le) "order-clash" ++
   tagIf (v.orderClash && o.order && u.gt) "order-clash" ++ tagIf (v.orderClash && o.order && u.ge) "order-clash") ++
  (tagIf (v.frozenSetattr && o.frozen && u.setattr) "frozen-setattr" ++
   tagIf (v.frozenSetattr && o.frozen && u.delattr) "frozen-setattr") ++
  tagIf (o.init && !u.init && cyBadOrder v o false fs) "non-default" ++
  tagIf (cyHashAct p o u == .raise) "hash"

def cyOut (p : Params) (v : Var) (s : ClassSpec) : Out :=
  let o := s.opts.resolve p.optD
  let u := s.user
  let fs := cyFields p v s o
  let eqGen := o.eq && !u.eq
  let ord := if o.order then orderOps u else []
  { fields := fs
    init := if o.init && !u.init then
        some { dselfName := fs.any (·.name == "self")
               params := cyParams v o fs
               body := fs.map fun f => (f.name, f.src)
               postInit := if u.postInit then some (initvarNames fs) else none }
      else none
    repr := if o.repr && !u.repr then some (reprNames fs) else none
    eq := eqGen
    order := ord
    cmpFields := if eqGen || !ord.isEmpty then cmpNames fs else []
    hash := hashState (cyHashAct p o u) u (cyHashNames v fs)
    matchArgs := if o.matchArgs && !u.matchArgs then some (cyMatchArgs v o fs) else none
    frozen := o.frozen }

def cy (p : Params) (v : Var) (s : ClassSpec) : Res Out :=
  match cyErrs p v s with
  | [] => .ok (cyOut p v s)
  | e :: es => .err ("CompileError " ++ ",".intercalate (e :: es))

/-- same outcome: both reject, or both accept with identical decisions -/
def sameOutcome : Res Out → Res Out → Prop
  | .ok a, .ok b => a = b
  | .err _, .err _ => True
  | _, _ => False

instance (a b : Res Out) : Decidable (sameOutcome a b) := by
  unfold sameOutcome; split <;> infer_instance

/-! ### where the two are claimed to agree -/

/-- the one place where `lookup_here("__hash__")` and CPython's `has_explicit_hash` differ -/
def hashDefOK (o : Opts) (u : UserDefs) : Bool :=
  !(u.hash == .setNone && u.eq) || (!o.unsafeHash && !(o.eq && o.frozen))

/-- The class specifications on which `Dataclass.py` (variant `v`) is claimed to agree with CPython.
Every clause names one deviation; a clause guarded by a `Var` flag disappears with that repair. -/
def Hyp (v : Var) (s : ClassSpec) : Bool :=
  let o := s.opts.resolve pyOptD
  let u := s.user
  let fs := pyFields s o
  -- no `_: KW_ONLY` sentinel (Cython takes it for an ordinary field)
  s.fields.all (fun f => f.kind != .kwSentinel) &&
  -- no field re-annotated that a base dataclass declares (Cython: error or silently ignored)
  s.fields.all (fun f => f.kind == .classvar || !(names s.baseFields).contains f.name) &&
  -- no InitVar with default_factory (CPython: TypeError) or with a list/dict/set default (Cython: error)
  s.fields.all (fun f => !(f.kind == .initvar && (f.dflt == .factory || f.dflt == .mutable))) &&
  -- kw_only only at class level, and the same flag as the base class
  (v.fieldKwOnly || (s.fields.all (fun f => f.kwOnly.isNone) && s.baseFields.all (fun g => g.kwOnly == o.kwOnly))) &&
  (v.orderNeedsEq || !(o.order && !o.eq)) &&
  (v.orderClash || !(o.order && u.anyOrder)) &&
  (v.frozenInherit || !s.frozenMismatch o.frozen) &&
  (v.frozenSetattr || !(o.frozen && (u.setattr || u.delattr))) &&
  -- `__match_args__` generated only when every positional field is an `__init__` parameter
  (v.matchArgsInit || !(o.matchArgs && !u.matchArgs) || fs.all (fun f => f.init || f.kwOnly)) &&
  -- a user-defined `__init__` does not hide a default-order error
  !(o.init && u.init && badOrder false ((pyStd fs).map (·.hasDefault))) &&
  -- `__hash__ = None` next to a user `__eq__` only where no hash would be added or refused
  hashDefOK o u &&
  -- a generated `__hash__` only over fields whose `hash=None` and `compare` agree on "include"
  (v.hashCompare || !(pyHashAction o.unsafeHash o.eq o.frozen (pyExplicitHash u) == .add) ||
     fs.all (fun f => f.initvar || f.hash.isSome || f.compare))


/-- names of the `Hyp` clauses a specification violates (stable keys for the harness; cross-checked at run
time against `Hyp`: `Hyp v s = true` exactly when the list is empty) -/
def deviations (v : Var) (s : ClassSpec) : List String :=
  let o := s.opts.resolve pyOptD
  let u := s.user
  let fs := pyFields s o
  tagIf (s.fields.any (·.kind == .kwSentinel)) "kw-sentinel" ++
  tagIf (s.fields.any fun f => f.kind != .classvar && (names s.baseFields).contains f.name) "redeclare-inherited" ++
  tagIf (s.fields.any fun f => f.kind == .initvar && f.dflt == .factory) "initvar-factory" ++
  tagIf (s.fields.any fun f => f.kind == .initvar && f.dflt == .mutable) "initvar-mutable" ++
  tagIf (!v.fieldKwOnly && s.fields.any (·.kwOnly.isSome)) "field-kw-only" ++
  tagIf (!v.fieldKwOnly && s.baseFields.any fun g => g.kwOnly != o.kwOnly) "base-kw-only" ++
  tagIf (!v.orderNeedsEq && o.order && !o.eq) "order-without-eq" ++
  tagIf (!v.orderClash && o.order && u.anyOrder) "order-clash" ++
  tagIf (!v.frozenInherit && s.frozenMismatch o.frozen) "frozen-inherit" ++
  tagIf (!v.frozenSetattr && o.frozen && (u.setattr || u.delattr)) "frozen-setattr" ++
  tagIf (!v.matchArgsInit && o.matchArgs && !u.matchArgs && fs.any fun f => !f.init && !f.kwOnly) "match-args-init-false" ++
  tagIf (o.init && u.init && badOrder false ((pyStd fs).map (·.hasDefault))) "user-init-default-order" ++
  tagIf (!hashDefOK o u) "hash-none-user-eq" ++
  tagIf (!v.hashCompare && pyHashAction o.unsafeHash o.eq o.frozen (pyExplicitHash u) == .add &&
         fs.any fun f => !f.initvar && f.hash.isNone && !f.compare) "hash-compare-false"

/-! ### line protocol -/

def tri? : Char → Option (Option Bool)
  | '-' => some none
  | '0' => some (some false)
  | '1' => some (some true)
  | _ => none

def bit? : Char → Option Bool
  | '0' => some false
  | '1' => some true
  | _ => none

def parseVar (s : String) : Option Var :=
  match s.toList.mapM bit? with
  | some [a, b, c, d, e, f, g] => some ⟨a, b, c, d, e, f, g⟩
  | _ => none

def parseOpts (s : String) : Option OptsGiven :=
  match s.toList.mapM tri? with
  | some [a, b, c, d, e, f, g, h] => some ⟨a, b, c, d, e, f, g, h⟩
  | _ => none

def parseUser (s : String) : Option UserDefs :=
  match s.toList with
  | [a, b, c, d, e, f, g, h, i, j, k, l] =>
    match [a, b, c, d, e, f, g, h, i, j, k].mapM bit?, l with
    | some [a, b, c, d, e, f, g, h, i, j, k], 'a' => some ⟨a, b, c, d, e, f, g, h, i, j, k, .absent⟩
    | some [a, b, c, d, e, f, g, h, i, j, k], 'd' => some ⟨a, b, c, d, e, f, g, h, i, j, k, .defined⟩
    | some [a, b, c, d, e, f, g, h, i, j, k], 'n' => some ⟨a, b, c, d, e, f, g, h, i, j, k, .setNone⟩
    | _, _ => none
  | _ => none

def parseDflt : String → Option Dflt
  | "n" => some .none | "v" => some .value | "f" => some .factory
  | "b" => some .both | "m" => some .mutable | _ => none

def parseKind : String → Option Kind
  | "p" => some .plain | "i" => some .initvar | "c" => some .classvar
  | "s" => some .kwSentinel | _ => none

def tri1? (s : String) : Option (Option Bool) :=
  match s.toList with
  | [c] => tri? c
  | _ => none

def hashG? : String → Option (Option (Option Bool))
  | "-" => some none | "N" => some (some none)
  | "0" => some (some (some false)) | "1" => some (some (some true)) | _ => none

def validName (s : String) : Bool := !s.isEmpty && s.toList.all fun c => c.isAlphanum || c == '_'

def parseField (t : String) : Option FieldSpec :=
  match t.splitOn "/" with
  | [n, k, d, i, r, c, h, kw] =>
    if !validName n then none else
    match parseKind k, parseDflt d, tri1? i, tri1? r, tri1? c, hashG? h, tri1? kw with
    | some k, some d, some i, some r, some c, some h, some kw => some ⟨n, k, d, i, r, c, h, kw⟩
    | _, _, _, _, _, _, _ => none
  | _ => none

def bit1? (s : String) : Option Bool :=
  match s.toList with
  | [c] => bit? c
  | _ => none

def parseRField (t : String) : Option RField :=
  match t.splitOn "/" with
  | [n, iv, d, i, r, c, h, kw] =>
    if !validName n then none else
    match bit1? iv, parseDflt d, bit1? i, bit1? r, bit1? c, hashG? h, bit1? kw with
    | some iv, some d, some i, some r, some c, some (some h), some kw =>
      if d == .both || d == .mutable then none else some ⟨n, iv, d, i, r, c, h, kw⟩
    | _, _, _, _, _, _, _ => none
  | _ => none

def b01 (b : Bool) : String := if b then "1" else "0"
def dfltStr : Dflt → String
  | .none => "n" | .value => "v" | .factory => "f" | .both => "b" | .mutable => "m"
def srcStr : Src → String
  | .param => "p" | .paramOrFactory => "pf" | .factory => "f" | .dfltValue => "d"
  | .unset => "u" | .initvarOnly => "iv"
def lst (xs : List String) : String := "[" ++ ",".intercalate xs ++ "]"
def optLst : Option (List String) → String
  | none => "-"
  | some xs => lst xs
def hashOStr : Option Bool → String
  | none => "N" | some false => "0" | some true => "1"

def RField.render (f : RField) : String :=
  "/".intercalate [f.name, b01 f.initvar, dfltStr f.dflt, b01 f.init, b01 f.repr, b01 f.compare,
                   hashOStr f.hash, b01 f.kwOnly]

def InitOut.render (i : InitOut) : String :=
  "d" ++ b01 i.dselfName ++ ":" ++
  lst (i.params.map fun p => p.name ++ "/" ++ b01 p.kwOnly ++ "/" ++ dfltStr p.dflt) ++ ":" ++
  lst (i.body.map fun (n, s) => n ++ "/" ++ srcStr s) ++ ":" ++ optLst i.postInit

def Out.render (o : Out) : String :=
  "F" ++ lst (o.fields.map (·.render)) ++
  " I" ++ (match o.init with | none => "-" | some i => i.render) ++
  " R" ++ optLst o.repr ++ " E" ++ b01 o.eq ++ " O" ++ lst o.order ++ " C" ++ lst o.cmpFields ++
  " H" ++ (match o.hash with
           | .inherited => "i" | .unhashable => "U" | .user => "u" | .generated ns => "g" ++ lst ns) ++
  " M" ++ optLst o.matchArgs ++ " Z" ++ b01 o.frozen

def renderRes : Res Out → String
  | .ok o => "ok " ++ o.render
  | .err e => "err " ++ e

/-- input restrictions of the protocol (what the generator may produce; see `ClassSpec.WF`) -/

def FieldSpec.wf (f : FieldSpec) : Bool :=
  match f.kind with
  | .plain => true
  | .initvar => true
  | .classvar => f.plainOptions && (f.dflt == .none || f.dflt == .value)
  | .kwSentinel => f.plainOptions && f.dflt == .none

def nodupStr : List String → Bool
  | [] => true
  | x :: xs => !xs.contains x && nodupStr xs

def ClassSpec.wf (s : ClassSpec) : Bool :=
  s.fields.all (·.wf) && nodupStr (s.fields.map (·.name)) && nodupStr (names s.baseFields) &&
  s.baseFields.all (fun f => f.dflt != .both && f.dflt != .mutable) &&
  (s.fields.filter (·.kind == .classvar)).all (fun f => !(names s.baseFields).contains f.name)

def handle : List String → String
  | who :: var :: opts :: user :: base :: nb :: rest =>
    match parseVar var, parseOpts opts, parseUser user, nb.toNat? with
    | some v, some o, some u, some nb =>
      if rest.length < nb then "bad-op" else
      match (rest.take nb).mapM parseRField, (rest.drop nb).mapM parseField with
      | some bfs, some fs =>
        let base? : Option (Option Base) :=
          if base == "-" then (if nb == 0 then some none else none)
          else if base == "f0" then some (some ⟨bfs, false⟩)
          else if base == "f1" then some (some ⟨bfs, true⟩) else none
        match base? with
        | none => "bad-op"
        | some b =>
          let s : ClassSpec := ⟨o, u, b, fs⟩
          if !s.wf then "bad-op"
          else if who == "py" then renderRes (py s)
          else if who == "cy" then renderRes (cy Params.pinned v s)
          else if who == "hyp" then "ok " ++ b01 (Hyp v s) ++ " " ++ lst (deviations v s)
          else "bad-op"
      | _, _ => "bad-op"
    | _, _, _, _ => "bad-op"
  | _ => "bad-op"

end CyVerif.C30

import CyVerif.Model.C35Func
/-! C35 line protocol (see `harness/props/c35.py`). -/
namespace CyVerif.C35

def bit? (c : Char) : Option Bool := if c = '1' then some true else if c = '0' then some false else none

/-- `<id>:<refc><func><cv><wrap>` -/
def parseTy? (ids flags : String) : Option Ty :=
  match ids.toNat?, flags.toList with
  | some id, [a, b, c, w] =>
    match bit? a, bit? b, bit? c, (String.singleton w).toNat? with
    | some refc, some func, some cv, some wrap => if wrap ≤ 3 then some ⟨id, refc, func, cv, wrap, false⟩ else none
    | _, _, _, _ => none
  | _, _ => none

def b2s (b : Bool) : String := if b then "1" else "0"
def Ty.render (t : Ty) : String :=
  s!"{t.id}.{b2s t.refc}{b2s t.func}{b2s t.cv}{t.wrap}{b2s t.ptr}"

def parseNatList? (s : String) : Option (List Nat) :=
  if s = "-" then some [] else (s.splitOn ",").mapM (·.toNat?)

/-- `a<m><s><r>:<id>:<flags>` -/
def parseAlloc? (tok : String) : Option (Ty × Bool × Bool × Bool) :=
  match tok.splitOn ":" with
  | [h, ids, flags] =>
    match h.toList, parseTy? ids flags with
    | ['a', m, s, r], some ty =>
      match bit? m, bit? s, bit? r with
      | some m, some s, some r => some (ty, m, s, r)
      | _, _, _ => none
    | _, _ => none
  | _ => none

def renderQuery (s : FS) : String :=
  let u := (inUse s).map (fun t => s!"{t.name}:{t.ty.render}:{b2s (t.manage && t.ty.needsRefcounting)}")
  let al := s.allocated.map (fun t => s!"{t.name}:{t.ty.render}:{b2s t.manage}{b2s t.static}")
  "U[" ++ ",".intercalate u ++ "]H" ++ natsToStr (holdingRef s) ++ "M" ++ natsToStr (allManaged s)
    ++ "F" ++ natsToStr (freeManaged s) ++ "A[" ++ ",".intercalate al ++ "]Z" ++ natsToStr s.zombies

def fsOps (s : FS) : List String → List String → Option (List String)
  | [], acc => some acc.reverse
  | tok :: rest, acc =>
    if tok = "q" then fsOps s rest (renderQuery s :: acc)
    else if tok = "cs" then fsOps (startCollect s) rest ("-" :: acc)
    else if tok = "ce" then
      match stopCollect s with
      | .ok (s', top) => fsOps s' rest (natsToStr (top.mergeSort (fun a b => decide (a ≤ b))) :: acc)
      | .err e => fsOps s rest (e :: acc)
    else if tok.startsWith "r" then
      match (tok.drop 1).toNat? with
      | none => none
      | some n =>
        match release s n with
        | .ok s' => fsOps s' rest ("ok" :: acc)
        | .err e => fsOps s rest (e :: acc)
    else match parseAlloc? tok with
      | some (ty, m, st, r) =>
        let (s', n) := allocate s ty m st r
        fsOps s' rest (toString n :: acc)
      | none => none

def parsePtr? (s : String) : Option (Option Nat) :=
  if s = "N" then some none else s.toNat?.map some

def parseNEv? (tok : String) : Option NEv :=
  let body := (tok.drop 1).toString
  match tok.toList.head? with
  | some 'A' => body.toNat?.map .acquire
  | some c =>
    match body.splitOn ":" with
    | [ps, ls] =>
      match parsePtr? ps, ls.toNat? with
      | some p, some l =>
        if c = 'G' then some (.gotref p l) else if c = 'V' then some (.giveref p l)
        else if c = 'I' then some (.incref p l) else if c = 'D' then some (.decref p l)
        else if c = 'g' then some (.xgotref p l) else if c = 'v' then some (.xgiveref p l)
        else if c = 'i' then some (.xincref p l) else if c = 'd' then some (.xdecref p l)
        else none
      | _, _ => none
    | _ => none
  | none => none

def renderPtr : Option Nat → String
  | none => "N"
  | some o => toString o

def NEv.render : NEv → String
  | .acquire o => s!"A{o}"
  | .gotref p l => s!"G{renderPtr p}:{l}"
  | .giveref p l => s!"V{renderPtr p}:{l}"
  | .incref p l => s!"I{renderPtr p}:{l}"
  | .decref p l => s!"D{renderPtr p}:{l}"
  | .xgotref p l => s!"g{renderPtr p}:{l}"
  | .xgiveref p l => s!"v{renderPtr p}:{l}"
  | .xincref p l => s!"i{renderPtr p}:{l}"
  | .xdecref p l => s!"d{renderPtr p}:{l}"

def pyList (xs : List Nat) : String := "[" ++ ", ".intercalate (xs.map toString) ++ "]"

def Err.render : Err → String
  | .nullArg l => s!"REFNANNY: NULL argument on line {l}"
  | .tooMany l acq => s!"REFNANNY: Too many decrefs on line {l}, reference acquired on lines {pyList acq}"
  | .leaked es => "REFNANNY: References leaked:" ++
      String.join (es.map fun e => s!"|  ({e.1}) acquired on lines: " ++ ", ".intercalate (e.2.map toString))

def renderReport (errs : List Err) : String :=
  if errs.isEmpty then "None" else "|".intercalate (errs.map Err.render)

def objsOf : NEv → List Nat
  | .acquire o => [o]
  | .gotref p _ | .giveref p _ | .incref p _ | .decref p _
  | .xgotref p _ | .xgiveref p _ | .xincref p _ | .xdecref p _ => p.toList

def renderRun (es : List NEv) : String :=
  let s := RS.init.run es
  let top := (es.flatMap objsOf).foldr max 0
  let ds := (List.range (top + 1)).map (fun o => toString (s.rc o))
  let refs := s.ctx.refs.map (fun e => s!"{e.1}={e.2.1}{pyList e.2.2}")
  renderReport s.ctx.finish ++ " # " ++ ",".intercalate ds ++ " # " ++ ";".intercalate refs

def parseStmt? (tok : String) : Option Stmt :=
  match tok.toList.head? with
  | some 'a' => (parseAlloc? tok).map fun (ty, m, s, r) => .alloc ty m s r
  | some 'r' => (tok.drop 1).toNat?.map .release
  | some 'd' => (tok.drop 1).toNat?.map .dispose
  | some 's' => (tok.drop 1).toNat?.map .steal
  | some c =>
    match (tok.drop 1).toString.splitOn ":" with
    | [ts, os] =>
      match ts.toNat?, os.toNat? with
      | some t, some o => if c = 'n' then some (.newref t o) else if c = 'b' then some (.borrow t o) else none
      | _, _ => none
    | _ => none
  | none => none

/-- `func <taken> <exit> <stmts…>`; exit `E<k>`: error jump after the first `k` statements,
cleanup list = `all_managed_temps()` after ALL statements; `R`: return after all statements. -/
def handleFunc (taken : List Nat) (exit : String) (toks : List String) : String :=
  match toks.mapM parseStmt? with
  | none => "bad-op"
  | some stmts =>
    match (FSt.init taken).run stmts with
    | none => "ok undisciplined"
    | some final =>
      let evs? : Option (List NEv) :=
        if exit = "R" then some (returnExit final)
        else if exit.startsWith "E" then
          match (exit.drop 1).toNat? with
          | some k => ((FSt.init taken).run (stmts.take k)).map fun mid => errorExit mid (allManaged final.fs)
          | none => none
        else none
      match evs? with
      | none => "bad-op"
      | some evs => "ok " ++ " ".intercalate (evs.map NEv.render) ++ " => " ++ renderRun evs

def handle : List String → String
  | "fs" :: taken :: ops =>
    match parseNatList? taken with
    | none => "bad-op"
    | some tk =>
      match fsOps (FS.init tk) ops [] with
      | some outs => "ok " ++ " ".intercalate outs
      | none => "bad-op"
  | "nanny" :: evs =>
    match evs.mapM parseNEv? with
    | some es => "ok " ++ renderRun es
    | none => "bad-op"
  | "func" :: taken :: exit :: toks =>
    match parseNatList? taken with
    | none => "bad-op"
    | some tk => handleFunc tk exit toks
  | _ => "bad-op"

end CyVerif.C35

import CyVerif.Model.C22Cy
/-!
C22 line protocol:  `C22 <py|cy> <variant: two bits reraiseClears,saveTopmost> <selector bits> <classes of X[0..]>
<exc_info slots, current first, e.g. "-,2"> <program in prefix tokens>`  →
`ok <outcome> | <exc_info slots after> | <events> | <heap>`.
-/
namespace CyVerif.C22

def optTok (s : String) : Option (Option Nat) := if s == "-" then some none else s.toNat?.map some

def parseStmt : Nat → List String → Option (Stmt × List String)
  | 0, _ => none
  | fuel + 1, toks =>
    match toks with
    | "sk" :: r => some (.skip, r)
    | "sq" :: r => do
      let (a, r1) ← parseStmt fuel r
      let (b, r2) ← parseStmt fuel r1
      pure (.seq a b, r2)
    | "lg" :: k :: r => do pure (.log (← k.toNat?), r)
    | "pr" :: r => some (.probe, r)
    | "ri" :: c :: k :: ca :: r => do
      let cause ← if ca == "-" then some Cause.no else if ca == "N" then some Cause.none else ca.toNat?.map Cause.obj
      pure (.raiseI (← optTok c) (← k.toNat?) cause, r)
    | "rn" :: c :: k :: r => do pure (.raiseNew (← optTok c) (← k.toNat?), r)
    | "rr" :: c :: r => do pure (.reraise (← optTok c), r)
    | "rt" :: c :: r => do pure (.ret (← optTok c), r)
    | "bk" :: c :: r => do pure (.brk (← optTok c), r)
    | "ct" :: c :: r => do pure (.cont (← optTok c), r)
    | "tf" :: r => do
      let (a, r1) ← parseStmt fuel r
      let (b, r2) ← parseStmt fuel r1
      pure (.tryFin a b, r2)
    | "wi" :: er :: ex :: r => do
      let exa ← if ex == "F" then some ExitAct.falsy else if ex == "T" then some ExitAct.truthy
                else ex.toNat?.map ExitAct.raises
      let (b, r1) ← parseStmt fuel r
      pure (.withS (← optTok er) exa b, r1)
    | "lp" :: n :: r => do
      let (b, r1) ← parseStmt fuel r
      pure (.loop (← n.toNat?) b, r1)
    | "te" :: r => do
      let (b, r1) ← parseStmt fuel r
      let (hs, r2) ← parseHandlers fuel r1
      let (e, r3) ← parseStmt fuel r2
      pure (.tryEx b hs e, r3)
    | _ => none
where
  parseHandlers : Nat → List String → Option (Handlers × List String)
  | 0, _ => none
  | fuel + 1, toks =>
    match toks with
    | "hn" :: r => some (.nil, r)
    | "hc" :: pat :: asn :: r => do
      let (b, r1) ← parseStmt fuel r
      let (rest, r2) ← parseHandlers fuel r1
      pure (.cons (← optTok pat) (asn == "1") b rest, r2)
    | _ => none

/-- class hierarchy of the harness module: E0(Exception), E1(E0), E2(E0), E3(Exception); 9 = Exception -/
def subOf (a b : Nat) : Bool := a == b || b == 9 || (b == 0 && (a == 1 || a == 2))

def optStr : Option Nat → String
  | none => "-"
  | some n => toString n

def objStr (o : ExcObj) : String := s!"{o.cls}c{optStr o.ctx}k{optStr o.cause}s{if o.supp then 1 else 0}"

def heapStr (h : List ExcObj) : String := ",".intercalate (h.map objStr)

def evStr : Ev → String
  | .log k => s!"L{k}"
  | .probe t n h => s!"P{optStr t}n{optStr n}[{heapStr h}]"
  | .enter t => s!"E{optStr t}"
  | .exit a t => s!"X{optStr a}t{optStr t}"

def slotsStr (ts : TS) : String := ",".intercalate ((ts.cur :: ts.prev).map optStr)

def render (o : String) (ts : TS) : String :=
  s!"ok {o} | {slotsStr ts} | {" ".intercalate (ts.log.map evStr)} | {heapStr ts.heap}"

def outStr : Out → String
  | .norm => "norm" | .exc e => s!"exc{e}" | .ret => "ret" | .brk => "brk" | .cont => "cont"

/-- what the caller of the compiled function sees -/
def coutStr (cs : CS) : COut → String
  | .norm => "norm" | .ret => "ret" | .brk => "brk" | .cont => "cont" | .crash => "crash"
  | .err => match cs.curexc with | some e => s!"exc{e}" | none => "SystemError"

def bit (s : String) (i : Nat) : Bool := (s.toList.getD i '0') == '1'

def handle : List String → String
  | mode :: var :: sel :: classes :: slots :: prog =>
    match parseStmt (prog.length + 1) prog, (slots.splitOn ",").mapM optTok with
    | some (s, []), some (cur :: prev) =>
      let heap : List ExcObj := classes.toList.map (fun ch => ⟨ch.toNat - '0'.toNat, none, none, false⟩)
      let env : Env := ⟨bit sel, subOf⟩
      let ts : TS := ⟨[], heap, cur, prev, none⟩
      if mode == "py" then
        let r := pyExec env s ts
        render (outStr r.1) r.2
      else if mode == "cy" then
        let r := cyExec ⟨bit var 0, bit var 1⟩ env s { ts := ts, curexc := none, slot := none }
        if r.1 == .crash then "ok crash" else render (coutStr r.2 r.1) r.2.ts
      else "bad-op"
    | _, _ => "bad-op"
  | _ => "bad-op"

end CyVerif.C22

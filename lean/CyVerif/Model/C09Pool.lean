import CyVerif.Model.Util
/-!
# C09 (part B) — pooling of constant tuples / slices / frozensets

Model of `ExprNodes.make_dedup_key` + `GlobalState.get_py_const` (`dedup_const_index`):
constant *nodes* (what the compiler sees), their dedup *keys* with Python `==` on the keys
(`0 == 0.0 == False`, `0.0 == -0.0`, `nan != nan`), the run-time *values* the generated module
builds, and `same` = what CPython cannot tell apart (type, value, sign of zero, element order).

`Variant` selects the code as pinned (`⟨false, false⟩`) or with the proposed repairs.
-/
namespace CyVerif.C09

/-- `node.type` of a literal leaf, up to `==` of the compiler's type objects. -/
inductive LTag where
  | obj | pyint | pyfloat | pybool | pystr | pybytes
  | cint (k : Nat)      -- a C integer type (rank/sign code `k`), e.g. the `mult_factor` of `(1, 2) * 3`
  deriving DecidableEq, Repr

/-- type of a container node / of the outer key -/
inductive CTag where
  | seq (k : Nat)   -- `tuple_type` (k = 0) or another sequence type object
  | slice | fset
  deriving DecidableEq, Repr

/-- `constant_result` of a literal leaf.  Floats are IEEE-754 binary64 bit patterns (< 2^64). -/
inductive Atom where
  | int (n : Int) | bool (b : Bool) | float (bits : Nat)
  | str (cs : List Nat) | bytes (cs : List Nat) | none | ellipsis
  deriving DecidableEq, Repr

def fExp (bits : Nat) : Nat := (bits / 2 ^ 52) % 2048
def fMant (bits : Nat) : Nat := bits % 2 ^ 52
def fNeg (bits : Nat) : Bool := (bits / 2 ^ 63) % 2 == 1
def fIsNaN (bits : Nat) : Bool := fExp bits == 2047 && fMant bits != 0
def fIsInf (bits : Nat) : Bool := fExp bits == 2047 && fMant bits == 0
def fIsZero (bits : Nat) : Bool := bits % 2 ^ 63 == 0

/-- Python `float == float` -/
def floatEq (a b : Nat) : Bool := !fIsNaN a && !fIsNaN b && ((fIsZero a && fIsZero b) || a == b)

/-- Python `float == int` (exact comparison of the dyadic value with the integer) -/
def floatEqInt (bits : Nat) (n : Int) : Bool :=
  if fExp bits == 2047 then false else
  let m : Nat := if fExp bits == 0 then fMant bits else 2 ^ 52 + fMant bits
  let e : Int := (if fExp bits == 0 then 1 else (fExp bits : Int)) - 1075
  let sm : Int := if fNeg bits then -(m : Int) else m
  if e ≥ 0 then n == sm * 2 ^ e.toNat else n * 2 ^ (-e).toNat == sm

def boolInt (b : Bool) : Int := if b then 1 else 0

/-- Python `==` on two `constant_result` values -/
def pyEqAtom : Atom → Atom → Bool
  | .int a, .int b => a == b
  | .int a, .bool b => a == boolInt b
  | .bool a, .int b => boolInt a == b
  | .bool a, .bool b => a == b
  | .float a, .float b => floatEq a b
  | .float a, .int b => floatEqInt a b
  | .int a, .float b => floatEqInt b a
  | .float a, .bool b => floatEqInt a (boolInt b)
  | .bool a, .float b => floatEqInt b (boolInt a)
  | .str a, .str b => a == b
  | .bytes a, .bytes b => a == b
  | .none, .none => true
  | .ellipsis, .ellipsis => true
  | _, _ => false

/-- `type(constant_result)` (only its identity matters) -/
def Atom.kind : Atom → Nat
  | .int _ => 0 | .bool _ => 1 | .float _ => 2 | .str _ => 3 | .bytes _ => 4 | .none => 5 | .ellipsis => 6

/-- the value kind a concrete node type stands for (`obj` = unknown) -/
def LTag.kind : LTag → Option Nat
  | .obj => none | .pyint => some 0 | .pybool => some 1 | .pyfloat => some 2
  | .pystr => some 3 | .pybytes => some 4 | .cint _ => some 0

/-- compile-time constant nodes below a pooled constant -/
inductive Node where
  | leaf (tag : LTag) (a : Atom)
  | opq                                      -- literal node without `constant_result` (key `None`)
  | seq (k : Nat) (mult : Option (LTag × Int)) (args : List Node)   -- literal `TupleNode` (+ constant int `mult_factor`)
  | slice (start stop step : Node)           -- literal `SliceNode`
  deriving Repr

/-- the pooled constants (`get_py_const` call sites) -/
inductive Const where
  | tuple (n : Node)            -- `TupleNode.generate_operation_code`
  | slice (n : Node)            -- `SliceNode.generate_result_code`
  | fset (args : List Node)     -- `FrozenSetFromArrayNode._create_shared_frozenset_object`
  deriving Repr

structure Variant where
  floatSign : Bool    -- repair 1: float leaves are keyed by (value, repr(value))
  fsDistinct : Bool   -- repair 2: a frozenset with `==`-equal items gets no dedup key
  deriving DecidableEq, Repr

inductive Key where
  | leaf (tag : LTag) (a : Atom) (pt : Option Nat) (rep : Option Nat)
  | tup (tag : CTag) (items : List Key)
  | set (tag : CTag) (items : List Key)
  deriving Repr

/-- `repr(value)` of a float leaf, as far as equality of reprs goes: the bit pattern (all NaNs print "nan") -/
def floatRep : Atom → Option Nat
  | .float b => some (if fIsNaN b then 2 ^ 64 else b)
  | _ => none

def leafKey (v : Variant) (t : LTag) (a : Atom) : Key :=
  .leaf t a (if t = .obj then some a.kind else none) (if v.floatSign then floatRep a else none)

/-- key of an absent node: `(py_object_type, None, type(None))` -/
def absentKey : Key := .leaf .obj .none (some 5) none

def multKey (v : Variant) : Option (LTag × Int) → Key
  | none => absentKey
  | some (t, n) => leafKey v t (.int n)

mutual
/-- item key of `make_dedup_key` for one node (`none` = Python `None`: "cannot handle") -/
def nodeKey (v : Variant) : Node → Option Key
  | .leaf t a => some (leafKey v t a)
  | .opq => none
  | .seq k m args =>
    match nodeKeys v args with
    | some ks => some (.tup (.seq k) (multKey v m :: ks))
    | none => none
  | .slice a b c =>
    match nodeKey v a, nodeKey v b, nodeKey v c with
    | some ka, some kb, some kc => some (.tup .slice [ka, kb, kc])
    | _, _, _ => none
termination_by structural n => n
def nodeKeys (v : Variant) : List Node → Option (List Key)
  | [] => some []
  | n :: ns =>
    match nodeKey v n, nodeKeys v ns with
    | some k, some ks => some (k :: ks)
    | _, _ => none
termination_by structural ns => ns
end

mutual
/-- Python `==` on dedup keys (nested tuples / frozensets of leaf triples) -/
def keyEq : Key → Key → Bool
  | .leaf t a p r, .leaf t' a' p' r' => t == t' && pyEqAtom a a' && p == p' && r == r'
  | .tup t xs, .tup t' ys => t == t' && keyEqL xs ys
  | .set t xs, .set t' ys => t == t' && keySub xs ys && ys.all (fun y => keyAny xs y)
  | _, _ => false
termination_by structural k => k
def keyEqL : List Key → List Key → Bool
  | [], [] => true
  | x :: xs, y :: ys => keyEq x y && keyEqL xs ys
  | _, _ => false
termination_by structural ks => ks
/-- every key of the first list has an equal key in the second -/
def keySub : List Key → List Key → Bool
  | [], _ => true
  | x :: xs, ys => ys.any (fun y => keyEq x y) && keySub xs ys
termination_by structural ks => ks
/-- some key of the list equals `y` -/
def keyAny : List Key → Key → Bool
  | [], _ => false
  | x :: xs, y => keyEq x y || keyAny xs y
termination_by structural ks => ks
end

/-- run-time constant objects -/
inductive Val where
  | atom (a : Atom)
  | tuple (xs : List Val)
  | fset (xs : List Val)
  | slice (a b c : Val)
  deriving Repr

def repeatList {α} (xs : List α) : Nat → List α
  | 0 => []
  | n + 1 => xs ++ repeatList xs n

mutual
/-- the object the generated module builds for a node (`none`: not determined by the model) -/
def evalNode : Node → Option Val
  | .leaf _ a => some (.atom a)
  | .opq => none
  | .seq _ m args =>
    match evalNodes args with
    | some xs => some (.tuple (match m with | none => xs | some (_, n) => repeatList xs n.toNat))
    | none => none
  | .slice a b c =>
    match evalNode a, evalNode b, evalNode c with
    | some x, some y, some z => some (.slice x y z)
    | _, _, _ => none
termination_by structural n => n
def evalNodes : List Node → Option (List Val)
  | [] => some []
  | n :: ns =>
    match evalNode n, evalNodes ns with
    | some x, some xs => some (x :: xs)
    | _, _ => none
termination_by structural ns => ns
end

mutual
/-- `node.constant_result` as a value (`none` = `not_a_constant`: opaque nodes, tuples with `mult_factor`) -/
def constResult : Node → Option Val
  | .leaf _ a => some (.atom a)
  | .opq => none
  | .seq _ m args =>
    match m, constResults args with
    | none, some xs => some (.tuple xs)
    | _, _ => none
  | .slice a b c =>
    match constResult a, constResult b, constResult c with
    | some x, some y, some z => some (.slice x y z)
    | _, _, _ => none
termination_by structural n => n
def constResults : List Node → Option (List Val)
  | [] => some []
  | n :: ns =>
    match constResult n, constResults ns with
    | some x, some xs => some (x :: xs)
    | _, _ => none
termination_by structural ns => ns
end

mutual
/-- Python `==` on run-time values (hashable constants) -/
def pyEqVal : Val → Val → Bool
  | .atom a, .atom b => pyEqAtom a b
  | .tuple xs, .tuple ys => pyEqVals xs ys
  | .slice a b c, .slice a' b' c' => pyEqVal a a' && pyEqVal b b' && pyEqVal c c'
  | _, _ => false
termination_by structural x => x
def pyEqVals : List Val → List Val → Bool
  | [], [] => true
  | x :: xs, y :: ys => pyEqVal x y && pyEqVals xs ys
  | _, _ => false
termination_by structural xs => xs
end

/-- what a set keeps of an item sequence: the first of each class of `==`-equal items -/
def dedupAux (seen : List Val) : List Val → List Val
  | [] => []
  | x :: xs => if seen.any (fun s => pyEqVal s x) then dedupAux seen xs else x :: dedupAux (seen ++ [x]) xs

/-- `len(set(items)) == len(items)` -/
def distinctAux (seen : List Val) : List Val → Bool
  | [] => true
  | x :: xs => !seen.any (fun s => pyEqVal s x) && distinctAux (seen ++ [x]) xs

def sameAtom : Atom → Atom → Bool
  | .float a, .float b => a == b || (fIsNaN a && fIsNaN b)
  | a, b => a == b

mutual
/-- indistinguishable for CPython (apart from identity): same types, same values, same signs of
zero, recursively, in the same order; a frozenset is unordered -/
def same : Val → Val → Bool
  | .atom a, .atom b => sameAtom a b
  | .tuple xs, .tuple ys => sameL xs ys
  | .fset xs, .fset ys => sameSub xs ys && ys.all (fun y => sameAny xs y)
  | .slice a b c, .slice a' b' c' => same a a' && same b b' && same c c'
  | _, _ => false
termination_by structural x => x
def sameL : List Val → List Val → Bool
  | [], [] => true
  | x :: xs, y :: ys => same x y && sameL xs ys
  | _, _ => false
termination_by structural xs => xs
def sameSub : List Val → List Val → Bool
  | [], _ => true
  | x :: xs, ys => ys.any (fun y => same x y) && sameSub xs ys
termination_by structural xs => xs
def sameAny : List Val → Val → Bool
  | [], _ => false
  | x :: xs, y => same x y || sameAny xs y
termination_by structural xs => xs
end

def evalConst : Const → Option Val
  | .tuple n => evalNode n
  | .slice n => evalNode n
  | .fset args => (evalNodes args).map (fun xs => .fset (dedupAux [] xs))

/-- the `dedup_key` handed to `get_py_const` (`none` = no sharing) -/
def constKey (v : Variant) : Const → Option Key
  | .tuple n => nodeKey v n
  | .slice n => (nodeKey v n).map (fun k => .tup .slice [k])
  | .fset args =>
    match nodeKeys v args with
    | none => none
    | some ks =>
      if v.fsDistinct then
        match constResults args with
        | some xs => if distinctAux [] xs then some (.set .fset ks) else none
        | none => none
      else some (.set .fset ks)

/-! ## the pool as a whole (`dedup_const_index` over the life of one module)

Every literal tuple / slice node registers *itself* (nested ones too): its children are generated
first (`generate_subexpr_evaluation_code`), then its own `get_py_const`.  If the key is already in
the index the existing object is used, otherwise the object is built **from the objects its children
resolved to**.  (A frozenset looks itself up before generating its items; the resulting index is the
same up to the order of unrelated entries, because an equal parent key implies equal item keys.) -/

/-- one slot of `dedup_const_index`: key, current object, and whether its initialisation code has been
emitted under the function-code name (`__pyx_mstate_global->X`) / the init-code name (`__pyx_mstate->X`) -/
structure Slot where
  key : Key
  obj : Val
  first : Val      -- the object built by the first initialisation (bookkeeping only)
  initG : Bool
  initM : Bool

abbrev Pool := List Slot

/-- dict lookup: the first stored key that is `==` to the probe -/
def poolFind : Pool → Key → Nat → Option (Nat × Slot)
  | [], _, _ => none
  | s :: r, k, i => if keyEq s.key k then some (i, s) else poolFind r k (i + 1)

def poolSet : Pool → Nat → Slot → Pool
  | [], _, _ => []
  | _ :: r, 0, s => s :: r
  | x :: r, i + 1, s => x :: poolSet r i s

/-- the key under which a node registers its own constant -/
def poolKey (v : Variant) : Node → Option Key
  | .slice a b c => (nodeKey v (.slice a b c)).map (fun k => .tup .slice [k])
  | n => nodeKey v n

/-- `get_py_const(prefix, dedup_key)` + `get_cached_constants_writer(target)`.
`once` = the set of initialised constants is keyed by the slot (repair 3); as pinned it is keyed by
the *qualified name*, which differs between function code (`inInit = false`) and the module-init
code in which the items of a frozenset constant are evaluated (`inInit = true`): a slot found
under the other name is initialised a second time — the object built now replaces the stored one. -/
def alreadyInit (once inInit : Bool) (s : Slot) : Bool :=
  once || (if inInit then s.initM else s.initG)

def register (once : Bool) (inInit : Bool) (p : Pool) (key : Option Key) (built : Option Val) :
    Pool × Option Nat × Option Val :=
  match key with
  | none => (p, none, built)
  | some k =>
    match poolFind p k 0 with
    | some (i, s) =>
      if alreadyInit once inInit s then (p, some i, some s.obj)
      else
        match built with
        | some x => (poolSet p i { s with obj := x, initG := s.initG || !inInit, initM := s.initM || inInit }, some i, some x)
        | none => (p, some i, some s.obj)
    | none =>
      match built with
      | some x => (p ++ [{ key := k, obj := x, first := x, initG := !inInit, initM := inInit }], some p.length, some x)
      | none => (p, none, none)

def tupleOf (m : Option (LTag × Int)) (xs : List Val) : Val :=
  .tuple (match m with | none => xs | some (_, n) => repeatList xs n.toNat)

mutual
def procNode (v : Variant) (once inInit : Bool) : Pool → Node → Pool × Option Nat × Option Val
  | p, .leaf _ a => (p, none, some (.atom a))
  | p, .opq => (p, none, none)
  | p, .seq k m args =>
    let r := procNodes v once inInit p args
    register once inInit r.1 (nodeKey v (.seq k m args)) (r.2.map (tupleOf m))
  | p, .slice a b c =>
    let ra := procNode v once inInit p a
    let rb := procNode v once inInit ra.1 b
    let rc := procNode v once inInit rb.1 c
    register once inInit rc.1 (poolKey v (.slice a b c))
      (match ra.2.2, rb.2.2, rc.2.2 with
       | some x, some y, some z => some (.slice x y z)
       | _, _, _ => none)
termination_by structural _ n => n
def procNodes (v : Variant) (once inInit : Bool) : Pool → List Node → Pool × Option (List Val)
  | p, [] => (p, some [])
  | p, n :: ns =>
    let r := procNode v once inInit p n
    let rs := procNodes v once inInit r.1 ns
    (rs.1, match r.2.2, rs.2 with
           | some x, some xs => some (x :: xs)
           | _, _ => none)
termination_by structural _ ns => ns
end

/-- a pooled constant of a function body; the items of a frozenset are evaluated in the init code -/
def procConst (v : Variant) (once : Bool) (p : Pool) : Const → Pool × Option Nat × Option Val
  | .tuple n => procNode v once false p n
  | .slice n => procNode v once false p n
  | .fset args =>
    let r := procNodes v once true p args
    register once false r.1 (constKey v (.fset args)) (r.2.map (fun xs => .fset (dedupAux [] xs)))

/-- all pooled constants of a module, in generation order: the slot and the object at generation time -/
def procAll (v : Variant) (once : Bool) : Pool → List Const → Pool × List (Option Nat × Option Val)
  | p, [] => (p, [])
  | p, c :: cs =>
    let r := procConst v once p c
    let rs := procAll v once r.1 cs
    (rs.1, r.2 :: rs.2)

/-- what a function returning the constant yields after module init: the final object of its slot -/
def finalVal (p : Pool) (r : Option Nat × Option Val) : Option Val :=
  match r.1 with
  | some i => (p[i]?).map (·.obj)
  | none => r.2

def runModule (v : Variant) (once : Bool) (cs : List Const) : List (Option Nat × Option Val) :=
  let r := procAll v once [] cs
  r.2.map (fun x => (x.1, finalVal r.1 x))

/-! ## well-formedness (invariants of the compiler's node types) -/

/-- a concrete leaf type stands for the kind of its constant (`IntNode` has `int`/C-integer type, …) -/
def tagOK (t : LTag) (a : Atom) : Bool := t == .obj || t.kind == some a.kind

mutual
def Node.wf : Node → Bool
  | .leaf t a => tagOK t a
  | .opq => true
  | .seq _ _ args => Node.wfs args
  | .slice a b c => a.wf && b.wf && c.wf
termination_by structural n => n
def Node.wfs : List Node → Bool
  | [] => true
  | n :: ns => n.wf && Node.wfs ns
termination_by structural ns => ns
end

def Const.wf : Const → Bool
  | .tuple (.seq k m args) => (Node.seq k m args).wf
  | .slice (.slice a b c) => (Node.slice a b c).wf
  | .fset args => Node.wfs args
  | _ => false

/-! ## line protocol -/

def parseLTag (s : String) : Option LTag :=
  match s.toList with
  | ['o'] => some .obj | ['i'] => some .pyint | ['f'] => some .pyfloat | ['b'] => some .pybool
  | ['s'] => some .pystr | ['y'] => some .pybytes
  | 'c' :: r => (String.ofList r).toNat?.map .cint
  | _ => none

def parseAtom (s : String) : Option Atom :=
  match s.toList with
  | ['n'] => some .none
  | ['e'] => some .ellipsis
  | ['b', '0'] => some (.bool false)
  | ['b', '1'] => some (.bool true)
  | 'i' :: r => (String.ofList r).toInt?.map .int
  | 'f' :: r => (String.ofList r).toNat?.map .float
  | 's' :: r => (parseHexBytes (String.ofList r)).map .str
  | 'y' :: r => (parseHexBytes (String.ofList r)).map .bytes
  | _ => none

mutual
/-- prefix notation: `L tag atom` | `O` | `T k (-|tag:int) n child…` | `S a b c` -/
def parseNode : Nat → List String → Option (Node × List String)
  | 0, _ => none
  | fuel + 1, toks =>
    match toks with
    | "L" :: t :: a :: rest =>
      match parseLTag t, parseAtom a with
      | some t, some a => some (.leaf t a, rest)
      | _, _ => none
    | "O" :: rest => some (.opq, rest)
    | "T" :: k :: m :: n :: rest =>
      let mult : Option (Option (LTag × Int)) :=
        if m == "-" then some none else
        match m.splitOn ":" with
        | [t, x] => match parseLTag t, x.toInt? with
          | some t, some x => some (some (t, x))
          | _, _ => none
        | _ => none
      match k.toNat?, mult, n.toNat? with
      | some k, some mult, some n =>
        match parseNodes fuel n rest with
        | some (args, rest) => some (.seq k mult args, rest)
        | none => none
      | _, _, _ => none
    | "S" :: rest =>
      match parseNodes fuel 3 rest with
      | some ([a, b, c], rest) => some (.slice a b c, rest)
      | _ => none
    | _ => none
def parseNodes : Nat → Nat → List String → Option (List Node × List String)
  | 0, _, _ => none
  | _ + 1, 0, toks => some ([], toks)
  | fuel + 1, n + 1, toks =>
    match parseNode fuel toks with
    | some (x, rest) =>
      match parseNodes fuel n rest with
      | some (xs, rest) => some (x :: xs, rest)
      | none => none
    | none => none
end

/-- `CT node` | `CS node` | `CF n child…` -/
def parseConst (toks : List String) : Option (Const × List String) :=
  let fuel := 2 * toks.length + 2
  match toks with
  | "CT" :: rest => (parseNode fuel rest).map (fun (n, r) => (.tuple n, r))
  | "CS" :: rest => (parseNode fuel rest).map (fun (n, r) => (.slice n, r))
  | "CF" :: n :: rest =>
    match n.toNat? with
    | some n => (parseNodes fuel n rest).map (fun (a, r) => (.fset a, r))
    | none => none
  | _ => none

def Atom.show : Atom → String
  | .int n => s!"i{n}" | .bool b => if b then "b1" else "b0" | .float b => s!"f{b}"
  | .str cs => "s" ++ bytesToHex cs | .bytes cs => "y" ++ bytesToHex cs | .none => "n" | .ellipsis => "e"

mutual
def Val.show : Val → String
  | .atom a => a.show
  | .tuple xs => "t[" ++ Val.showL xs ++ "]"
  | .fset xs => "F[" ++ Val.showL xs ++ "]"
  | .slice a b c => "S[" ++ a.show ++ ";" ++ b.show ++ ";" ++ c.show ++ "]"
termination_by structural x => x
def Val.showL : List Val → String
  | [] => ""
  | [x] => x.show
  | x :: y :: r => x.show ++ ";" ++ Val.showL (y :: r)
termination_by structural xs => xs
end

def parseVariant (a b : String) : Option Variant :=
  match a, b with
  | "0", "0" => some ⟨false, false⟩ | "0", "1" => some ⟨false, true⟩
  | "1", "0" => some ⟨true, false⟩ | "1", "1" => some ⟨true, true⟩
  | _, _ => none

def handlePool : List String → String
  | "val" :: rest =>
    match parseConst rest with
    | some (c, []) =>
      if !c.wf then "err ill-formed" else
      match evalConst c with
      | some x => "ok " ++ x.show
      | none => "ok unknown"
    | _ => "bad-op"
  | "run" :: fs :: fd :: once :: n :: rest =>
    match parseVariant fs fd, n.toNat?, (if once == "1" then some true else if once == "0" then some false else none) with
    | some v, some n, some once =>
      let rec go : Nat → List String → List Const → Option (List Const)
        | 0, [], acc => some acc.reverse
        | 0, _ :: _, _ => none
        | k + 1, toks, acc =>
          match parseConst toks with
          | some (c, rest) => go k rest (c :: acc)
          | none => none
      match go n rest [] with
      | some cs =>
        if cs.any (fun c => !c.wf) then "err ill-formed" else
        let res := runModule v once cs
        "ok " ++ " ".intercalate (res.map fun (slot, x) =>
          (match slot with | some i => toString i | none => "-") ++ "|" ++
          (match x with | some x => x.show | none => "?"))
      | none => "bad-op"
    | _, _, _ => "bad-op"
  | "pair" :: fs :: fd :: rest =>
    match parseVariant fs fd, parseConst rest with
    | some v, some (c1, rest) =>
      match parseConst rest with
      | some (c2, []) =>
        if !c1.wf || !c2.wf then "err ill-formed" else
        let k1 := constKey v c1
        let k2 := constKey v c2
        let eq := match k1, k2 with | some a, some b => keyEq a b | _, _ => false
        let sm := match evalConst c1, evalConst c2 with | some a, some b => same a b | _, _ => false
        let b := fun (x : Bool) => if x then "1" else "0"
        s!"ok {b k1.isSome} {b k2.isSome} {b eq} {b sm}"
      | _ => "bad-op"
    | _, _ => "bad-op"
  | _ => "bad-op"

end CyVerif.C09

import CyVerif.Model.Util
/-!
# C10 — UTF-8 as used by the string table

`utf8Enc1`/`utf8Encode`: Python's `str.encode('utf-8')` (strict: lone surrogates raise
`UnicodeEncodeError`).  `utf8Decode`: CPython's strict `PyUnicode_DecodeUTF8(…, NULL)`
(Unicode 15 table 3-7: no overlong forms, no surrogates, nothing above U+10FFFF).
Both are reference semantics of CPython and are tied to it by the harness on every run.
-/
namespace CyVerif.C10

def isScalar (c : Nat) : Bool := c < 0x110000 && !(0xD800 ≤ c && c ≤ 0xDFFF)

def utf8Enc1 (c : Nat) : List Nat :=
  if c < 0x80 then [c]
  else if c < 0x800 then [0xC0 + c / 64, 0x80 + c % 64]
  else if c < 0x10000 then [0xE0 + c / 4096, 0x80 + c / 64 % 64, 0x80 + c % 64]
  else [0xF0 + c / 262144, 0x80 + c / 4096 % 64, 0x80 + c / 64 % 64, 0x80 + c % 64]

def utf8Encode (s : List Nat) : Res (List Nat) :=
  if s.all isScalar then .ok (s.flatMap utf8Enc1) else .err "UnicodeEncodeError"

def isCont (b : Nat) : Bool := 0x80 ≤ b && b ≤ 0xBF

/-- strict decoder; `none` = `UnicodeDecodeError` -/
def utf8Decode : List Nat → Option (List Nat)
  | [] => some []
  | b0 :: rest =>
    if b0 < 0x80 then (utf8Decode rest).map (b0 :: ·)
    else if b0 < 0xC2 then none
    else if b0 < 0xE0 then
      match rest with
      | b1 :: r =>
        if isCont b1 then (utf8Decode r).map (((b0 - 0xC0) * 64 + (b1 - 0x80)) :: ·) else none
      | [] => none
    else if b0 < 0xF0 then
      match rest with
      | b1 :: b2 :: r =>
        if isCont b1 && isCont b2 && (b0 != 0xE0 || 0xA0 ≤ b1) && (b0 != 0xED || b1 ≤ 0x9F) then
          (utf8Decode r).map (((b0 - 0xE0) * 4096 + (b1 - 0x80) * 64 + (b2 - 0x80)) :: ·)
        else none
      | _ => none
    else if b0 < 0xF5 then
      match rest with
      | b1 :: b2 :: b3 :: r =>
        if isCont b1 && isCont b2 && isCont b3 && (b0 != 0xF0 || 0x90 ≤ b1) && (b0 != 0xF4 || b1 ≤ 0x8F) then
          (utf8Decode r).map
            (((b0 - 0xF0) * 262144 + (b1 - 0x80) * 4096 + (b2 - 0x80) * 64 + (b3 - 0x80)) :: ·)
        else none
      | _ => none
    else none

end CyVerif.C10

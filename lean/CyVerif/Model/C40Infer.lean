import CyVerif.Model.C40Flow
/-!
C40 model, part 3: `ExprNode.infer_type` for the mini-language and
`SimpleAssignmentTypeInferer.infer_types` in safe mode (`infer_types=None`).
-/
namespace CyVerif.C40

/-- IEEE-754 double given by its bit pattern: is the value an integer / is it `>= 0` -/
def fltIntegral (bits : Nat) : Bool :=
  let e := (bits / 2 ^ 52) % 2048
  let m := bits % 2 ^ 52
  if e = 0 then m = 0
  else if e = 2047 then false
  else if e ≥ 1075 then true
  else if 1075 - e > 52 then false
  else (2 ^ 52 + m) % 2 ^ (1075 - e) = 0

def fltNonneg (bits : Nat) : Bool :=
  bits / 2 ^ 63 % 2 = 0 || bits % 2 ^ 63 = 0

def constInfo : Expr → Option ConstInfo
  | .int n => some ⟨decide (0 ≤ n), true, decide (n < 0)⟩
  | .flt bits => some ⟨fltNonneg bits, fltIntegral bits, false⟩
  | .bool _ => some ⟨true, true, false⟩
  | _ => none

/-- string-typed operands whose `may_be_none()` is false during inference: literals and items of literals -/
def isStrLit : Expr → Bool
  | .str _ => true
  | .idx (.str _) _ => true
  | _ => false
def isIntLit : Expr → Bool
  | .int _ => true
  | _ => false

/-- `infer_type`.  `env = none`: the entries are still unspecified (first phase), a name has the
type recorded for this occurrence (`nty`) or `object`.  `env = some Γ`: entries are typed. -/
def ity (cfg : Cfg) (mo : Nat → Bool) (env : Option (Nat → Ty)) (nty : List (Nat × Ty)) : Expr → Option Ty
  | .int n => some (if isLongLiteral n then .pyint else .clong)
  | .flt _ => some .cdouble
  | .bool _ => some .bint
  | .str _ => some .pystr
  | .none => some .obj
  | .typed t => some t
  | .name v id =>
    if v < npar then some .obj
    else match env with
      | none => some ((nty.lookup id).getD .obj)
      | some Γ =>
        let et := Γ v
        match nty.lookup id with
        | some nt => if et.isPyObject ∧ ¬(nt.isInt ∧ mo v) then some nt else some et
        | none => some et
  | .bin op inplace a b =>
    binTypeI cfg op inplace (isStrLit a) (ity cfg mo env nty a) (ity cfg mo env nty b) (constInfo a) (constInfo b)
  | .un op a => unType cfg op (ity cfg mo env nty a)
  | .cmp _ _ _ => some .obj
  | .call _ => some .obj
  | .len _ => some .cssize
  | .abs a => absType (ity cfg mo env nty a)
  | .idx a b => idxType (ity cfg mo env nty a) (ity cfg mo env nty b) (isIntLit b)
  | .next a => idxType (ity cfg mo env nty a) (some .cssize) true

/-- does `infer_type` raise inside the compiler?  An operator applied to an operand for which no type can
be inferred (`None`) is not guarded (`None.is_cpp_class`, `.is_unicode_char`, `.is_pythran_expr`, …). -/
def ityBad (cfg : Cfg) (mo : Nat → Bool) (env : Option (Nat → Ty)) (nty : List (Nat × Ty)) : Expr → Bool
  | .bin _ _ a b => ityBad cfg mo env nty a || ityBad cfg mo env nty b ||
      (ity cfg mo env nty a).isNone || (ity cfg mo env nty b).isNone
  | .un _ a => ityBad cfg mo env nty a || (ity cfg mo env nty a).isNone
  | .cmp _ a b => ityBad cfg mo env nty a || ityBad cfg mo env nty b ||
      (ity cfg mo env nty a).isNone || (ity cfg mo env nty b).isNone
  | .len a => ityBad cfg mo env nty a
  | .abs a => ityBad cfg mo env nty a || (ity cfg mo env nty a).isNone
  | .idx a b => ityBad cfg mo env nty a || (ity cfg mo env nty a).isNone || ityBad cfg mo env nty b
  | .next a => ityBad cfg mo env nty a || (ity cfg mo env nty a).isNone
  | _ => false          -- literals, names; a call of a Python function does not look at its arguments

/-- `type_dependencies`: name nodes of still untyped locals the type of the expression depends on -/
def depsE : Expr → List (Nat × Nat)
  | .name v id => if v < npar then [] else [(v, id)]
  | .bin _ _ a b => depsE a ++ depsE b
  | .un op a => if op = .not then [] else depsE a
  | .idx a b => depsE a ++ depsE b
  | .next a => depsE a
  | _ => []        -- literals, comparisons (typed), calls (only the function is looked at)

structure IState where
  aty : List (Nat × Option Ty)      -- assignment ↦ `inferred_type` (`none`: uninferable)
  nty : List (Nat × Ty)             -- name node ↦ `inferred_type`
  resolved : List Nat
  pending : List Nat                -- `assignments`, creation order
  partialDone : List Nat

def IState.atyOf (s : IState) (d : Nat) : Option Ty := (s.aty.lookup d).join

def setAssoc {β} (l : List (Nat × β)) (k : Nat) (v : β) : List (Nat × β) := (k, v) :: l.filter (·.1 ≠ k)

/-- `infer_name_node_type`: all reaching assignments are resolved -/
def nameNodeType (cfg : Cfg) (mo : Nat → Bool) (rd : Rd) (s : IState) (v id : Nat) : Step Ty :=
  match (rdOf rd id).map s.atyOf with
  | [] => .ok .obj
  | types => safeSpan cfg types (mo v)

/-- `infer_name_node_type_partial` -/
def nameNodePartial (cfg : Cfg) (mo : Nat → Bool) (rd : Rd) (s : IState) (v id : Nat) : Step (Option Ty) :=
  match ((rdOf rd id).map s.atyOf).filter Option.isSome with
  | [] => .ok none
  | types => match safeSpan cfg types (mo v) with
    | .ok t => .ok (some t)
    | .crash => .crash

def depDefs (rd : Rd) (a : Assmt) : List Nat := (depsE a.rhs).flatMap fun (_, id) => rdOf rd id

def findAssmt (as : List Assmt) (d : Nat) : Option Assmt := as.find? (·.d = d)

/-- one sweep of `resolve_assignments` over the pending assignments -/
def resolveSweep (cfg : Cfg) (mo : Nat → Bool) (rd : Rd) (as : List Assmt) :
    List Nat → IState → Bool → Step (IState × Bool)
  | [], s, got => .ok (s, got)
  | d :: rest, s, got =>
    match findAssmt as d with
    | none => resolveSweep cfg mo rd as rest s got
    | some a =>
      if (depDefs rd a).all s.resolved.contains then
        let rec names : List (Nat × Nat) → IState → Step IState
          | [], s => .ok s
          | (v, id) :: ns, s =>
            match nameNodeType cfg mo rd s v id with
            | .ok t => names ns { s with nty := setAssoc s.nty id t }
            | .crash => .crash
        match names (depsE a.rhs) s with
        | .crash => .crash
        | .ok s =>
          if ityBad cfg mo none s.nty a.rhs then .crash else
          let t := ity cfg mo none s.nty a.rhs
          let s := { s with aty := setAssoc s.aty d t, resolved := d :: s.resolved,
                            pending := s.pending.filter (· ≠ d) }
          resolveSweep cfg mo rd as rest s true
      else resolveSweep cfg mo rd as rest s got

/-- one sweep of `resolve_partial` -/
def partialSweep (cfg : Cfg) (mo : Nat → Bool) (rd : Rd) (as : List Assmt) :
    List Nat → IState → Bool → Step (IState × Bool)
  | [], s, got => .ok (s, got)
  | d :: rest, s, got =>
    if s.partialDone.contains d then partialSweep cfg mo rd as rest s got
    else match findAssmt as d with
    | none => partialSweep cfg mo rd as rest s got
    | some a =>
      let rec names : List (Nat × Nat) → List (Nat × Ty) → Step (Option (List (Nat × Ty)))
        | [], acc => .ok (some acc)
        | (v, id) :: ns, acc =>
          match nameNodePartial cfg mo rd s v id with
          | .crash => .crash
          | .ok none => .ok none
          | .ok (some t) => names ns ((id, t) :: acc)
      match names (depsE a.rhs) [] with
      | .crash => .crash
      | .ok none => partialSweep cfg mo rd as rest s got
      | .ok (some pts) =>
        let nty := pts.reverse.foldl (fun acc (id, t) => setAssoc acc id t) s.nty
        if ityBad cfg mo none nty a.rhs then .crash else
        let t := ity cfg mo none nty a.rhs
        let s := { s with nty := nty, aty := setAssoc s.aty d t, resolved := d :: s.resolved,
                          partialDone := d :: s.partialDone }
        partialSweep cfg mo rd as rest s true

/-- the `while True:` loop of `infer_types`: sweeps of `resolve_assignments` until nothing changes,
then one sweep of `resolve_partial`, until that changes nothing either -/
def resolveLoop (cfg : Cfg) (mo : Nat → Bool) (rd : Rd) (as : List Assmt) : Nat → IState → Step IState
  | 0, s => .ok s
  | fuel + 1, s =>
    match resolveSweep cfg mo rd as s.pending s false with
    | .crash => .crash
    | .ok (s, true) => resolveLoop cfg mo rd as fuel s
    | .ok (s, false) =>
      match partialSweep cfg mo rd as s.pending s false with
      | .crash => .crash
      | .ok (s, true) => resolveLoop cfg mo rd as fuel s
      | .ok (s, false) => .ok s

/-- `inferred_types(entry)`: `None` right-hand sides are ignored while a Python-object type is assigned too -/
def inferredTypes (as : List Assmt) (aty : Nat → Option Ty) (v : Nat) : List (Option Ty) :=
  let mine := as.filter (·.v = v)
  let hasNone := mine.any (fun a => a.rhs == .none)
  let others := mine.filter (fun a => ¬(a.rhs == .none))
  let types := others.map (fun a => aty a.d)
  let hasPy := types.any (fun t => match t with | some t => t.isPyObject | none => false)
  if hasNone ∧ ¬hasPy then types ++ [some .obj] else types

def locals (as : List Assmt) : List Nat := sortNat (dedupNat ((as.map (·.v)).filter (· ≥ npar)))

abbrev Env := List (Nat × Ty)
def Env.get (Γ : Env) (v : Nat) : Ty := (Γ.lookup v).getD .obj

/-- a C type for a variable that may be read before assignment is replaced by `object` (repaired tree) -/
def unboundGuard (cfg : Cfg) (mu : Nat → Bool) (v : Nat) (t : Ty) : Ty :=
  if cfg.unboundObj ∧ ¬t.isPyObject ∧ mu v then .obj else t

/-- first pass over the entries -/
def firstPass (cfg : Cfg) (mo mu : Nat → Bool) (as : List Assmt) (s : IState) :
    List Nat → Env → List Nat → Step (Env × List Nat)
  | [], Γ, inferred => .ok (Γ, inferred.reverse)
  | v :: vs, Γ, inferred =>
    let mine := as.filter (·.v = v)
    if mine.all (fun a => s.resolved.contains a.d) then
      let types := inferredTypes as s.atyOf v
      if ¬types.isEmpty ∧ types.all Option.isSome then
        match safeSpan cfg types (mo v) with
        | .crash => .crash
        | .ok t => firstPass cfg mo mu as s vs (setAssoc Γ v (unboundGuard cfg mu v t)) (v :: inferred)
      else firstPass cfg mo mu as s vs (setAssoc Γ v .obj) inferred
    else firstPass cfg mo mu as s vs (setAssoc Γ v .obj) inferred

/-- one pass of `reinfer()` over the inferred entries (types are updated in place, Gauss–Seidel) -/
def reinferPass (cfg : Cfg) (mo mu : Nat → Bool) (as : List Assmt) (nty : List (Nat × Ty)) :
    List Nat → Env → Bool → Step (Env × Bool)
  | [], Γ, dirty => .ok (Γ, dirty)
  | v :: vs, Γ, dirty =>
    let aty := fun d => match findAssmt as d with
      | some a => ity cfg mo (some Γ.get) nty a.rhs
      | none => none
    let types := inferredTypes as aty v
    let nt : Step Ty :=
      if (as.filter (·.v = v)).any (fun a => ityBad cfg mo (some Γ.get) nty a.rhs) then .crash
      else if cfg.reinferNoneObj ∧ ¬(¬types.isEmpty ∧ types.all Option.isSome) then .ok .obj
      else match safeSpan cfg types (mo v) with
        | .ok t => .ok (unboundGuard cfg mu v t)
        | .crash => .crash
    match nt with
    | .crash => .crash
    | .ok t =>
      if t ≠ Γ.get v then reinferPass cfg mo mu as nty vs (setAssoc Γ v t) true
      else reinferPass cfg mo mu as nty vs Γ dirty

inductive InferResult where
  | ok (Γ : Env) (nty : List (Nat × Ty))      -- entry types; `inferred_type` of the name nodes
  | crash
  | diverge
  deriving DecidableEq, Repr

def reinferLoop (cfg : Cfg) (mo mu : Nat → Bool) (as : List Assmt) (nty : List (Nat × Ty)) (inferred : List Nat) :
    Nat → Env → InferResult
  | 0, _ => .diverge
  | fuel + 1, Γ =>
    match reinferPass cfg mo mu as nty inferred Γ false with
    | .crash => .crash
    | .ok (Γ, true) => reinferLoop cfg mo mu as nty inferred fuel Γ
    | .ok (Γ, false) => .ok Γ nty

/-- the binary operation type inference sees for `x /= y` (repaired tree: a true division) -/
def inplaceView (cfg : Cfg) (a : Assmt) : Assmt :=
  match a.rhs with
  | .bin .div true x y => if cfg.inplaceTrueDiv then { a with rhs := .bin .div false x y } else a
  | _ => a

/-- `SimpleAssignmentTypeInferer.infer_types(scope)` with `infer_types=None` for a function body -/
def infer (cfg : Cfg) (p : Stmt) : InferResult :=
  let as := (assmts p).map (inplaceView cfg)
  let mo := mightOverflow cfg p
  let rd := (flow p [] []).2
  let s0 : IState := ⟨[], [], [], as.map (·.d), []⟩
  match resolveLoop cfg mo rd as (2 * as.length + 2) s0 with
  | .crash => .crash
  | .ok s =>
    let mu := maybeUnbound p rd
    match firstPass cfg mo mu as s (locals as) [] [] with
    | .crash => .crash
    | .ok (Γ, inferred) => reinferLoop cfg mo mu as s.nty inferred 100 Γ

/-- `infer_types=False`: every local is a Python object -/
def inferOff (p : Stmt) : Env := (locals (assmts p)).map (·, Ty.obj)

/-- the assignment records are numbered 0,1,2,… in creation order (what the encoder must provide) -/
def wellNumbered (p : Stmt) : Bool := (assmts p).map (·.d) == List.range (assmts p).length

import CyVerif.Model.C02Float
/-! Line protocol of the C02 models (`PyLongBinop`, `PyLongCompare`, `PyFloatBinop`). -/
namespace CyVerif.C02
open CyVerif.C05 (Plat CTy PyLong parsePlat parseBool)

def parseOp (s : String) : Option Op :=
  match s with
  | "Add" => some .add | "Subtract" => some .sub | "Multiply" => some .mul | "Remainder" => some .rem
  | "FloorDivide" => some .fdiv | "TrueDivide" => some .tdiv | "And" => some .and | "Or" => some .or
  | "Xor" => some .xor | "Lshift" => some .lsh | "Rshift" => some .rsh | _ => none

def Op.name : Op → String
  | .add => "Add" | .sub => "Subtract" | .mul => "Multiply" | .rem => "Remainder" | .fdiv => "FloorDivide"
  | .tdiv => "TrueDivide" | .and => "And" | .or => "Or" | .xor => "Xor" | .lsh => "Lshift" | .rsh => "Rshift"

def parseOrder (s : String) : Option Order :=
  if s = "ObjC" then some .objC else if s = "CObj" then some .cObj else none

def Order.name : Order → String
  | .objC => "ObjC" | .cObj => "CObj"

def parseCmpOp (s : String) : Option CmpOp :=
  if s = "Eq" then some .eq else if s = "Ne" then some .ne else none

def parseFOp (s : String) : Option FOp :=
  match s with
  | "Add" => some .add | "Subtract" => some .sub | "TrueDivide" => some .tdiv | "Remainder" => some .rem
  | "Eq" => some .eq | "Ne" => some .ne | _ => none

def FOp.name : FOp → String
  | .add => "Add" | .sub => "Subtract" | .tdiv => "TrueDivide" | .rem => "Remainder" | .eq => "Eq" | .ne => "Ne"

/-- `<internals><negShiftWorks><gccShift>` e.g. `111` -/
def parseCfg (s : String) : Option Cfg :=
  match s.toList.map (fun ch => parseBool (String.ofList [ch])) with
  | [some a, some b, some c] => some ⟨a, b, c⟩
  | _ => none

def parseFCls (s : String) : Option FCls :=
  if s = "nan" then some .nan
  else if s = "pinf" then some (.inf false)
  else if s = "ninf" then some (.inf true)
  else if s = "frac" then some .frac
  else match s.splitOn ":" with
    | ["int", v] => (parseInt? v).map .int
    | _ => none

def parseObj (S : Nat) : List String → Option Obj
  | ["int", v] => (parseInt? v).map fun x => .long (PyLong.ofInt S x)
  | ["float", f] => (parseFCls f).map .float
  | ["other"] => some .other
  | _ => none

def parseIC (s : String) : Option IC :=
  match s with
  | "nan" => some .nan | "pinf" => some (.inf false) | "ninf" => some (.inf true)
  | "pzero" => some (.zero false) | "nzero" => some (.zero true)
  | "pfin" => some (.fin false) | "nfin" => some (.fin true) | _ => none

def Out.render : Out → String
  | .int v => s!"ok int {v}"
  | .quot a b => s!"ok quot {a} {b}"
  | .flt op ord => s!"ok flt {op.name} {ord.name}"
  | .bool b => s!"ok bool {if b then 1 else 0}"
  | .err e => s!"err {e}"
  | .ub k => s!"ub {k}"
  | .fallback how => s!"fallback {how}"

def XD.render : XD → String
  | .ofFloat _ => "pyfloat"
  | .exact v => s!"exact {v}"
  | .asDouble v => s!"asdouble {v}"

def FOut.render : FOut → String
  | .arith op ord x => s!"ok arith {op.name} {ord.name} {x.render}"
  | .bool b => s!"ok bool {if b then 1 else 0}"
  | .err e => s!"err {e}"
  | .ub k => s!"ub {k}"
  | .fallback how => s!"fallback {how}"

def RemRes.render : RemRes → String
  | .nan => "nan" | .keep => "keep" | .plusB => "plusB" | .zeroSignB => "zeroSignB"

/-- Which part of `__Pyx_Unpacked_…` decides (for the coverage statistics of the harness). -/
def pathOf (P : Plat) (op : Op) (ord : Order) (p : PyLong) (c : Int) (zcheck : Bool) : String :=
  if isZero p ∧ (zeroCase P op ord c zcheck).isSome then "zero"
  else if op = .and ∧ (andShortcut P p (isPos p) c).isSome then "and-digit"
  else match unpack P op p (isPos p) with
    | .ok (.long _) => if p.digits.length = 1 then "size1" else s!"join{p.digits.length}-long"
    | .ok (.ll _) => s!"join{p.digits.length}-longlong"
    | .ok .slot => s!"size{p.digits.length}-slot"
    | .error _ => "ub"

def handle : List String → String
  | "binop" :: plat :: cfg :: op :: ord :: zc :: c :: obj =>
    match parsePlat plat, parseCfg cfg, parseOp op, parseOrder ord, parseBool zc, parseInt? c with
    | some P, some cfg, some op, some ord, some zc, some c =>
      match parseObj P.shift obj with
      | some x =>
        if P.tLong.inRange c then
          let path := match x with
            | .long p => if cfg.internals then pathOf P op ord p c zc else "no-internals"
            | .float _ => "float"
            | .other => "other"
          (binop P cfg op ord x c zc).render ++ " @" ++ path
        else "bad-op"
      | none => "bad-op"
    | _, _, _, _, _, _ => "bad-op"
  | "cmp" :: plat :: cfg :: op :: same :: c :: obj =>
    match parsePlat plat, parseCfg cfg, parseCmpOp op, parseBool same, parseInt? c with
    | some P, some cfg, some op, some same, some c =>
      match parseObj P.shift obj with
      | some x => if P.tLong.inRange c then (compare P cfg op same x c).render else "bad-op"
      | none => "bad-op"
    | _, _, _, _, _ => "bad-op"
  | "fbin" :: plat :: cfg :: op :: ord :: same :: zc :: fc :: obj =>
    match parsePlat plat, parseCfg cfg, parseFOp op, parseOrder ord, parseBool same, parseBool zc, parseFCls fc with
    | some P, some cfg, some op, some ord, some same, some zc, some fc =>
      match parseObj P.shift obj with
      | some x => (floatBinop P cfg op ord same x fc zc).render
      | none => "bad-op"
    | _, _, _, _, _, _, _ => "bad-op"
  | ["remfix", b, r] =>
    match parseIC b, parseIC r with
    | some b, some r => s!"ok {(remFix b r).render} py {(pyRemFix b r).render}"
    | _, _ => "bad-op"
  | ["remfix-repaired", b, r] =>
    match parseIC b, parseIC r with
    | some b, some r => s!"ok {(remFixRepaired b r).render} py {(pyRemFix b r).render}"
    | _, _ => "bad-op"
  | _ => "bad-op"

end CyVerif.C02
